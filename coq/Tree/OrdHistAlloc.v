(* Tree/OrdHistAlloc.v — C07, histories: the operations that ALLOCATE one element and insert it (create_sub_element[_at],
   create_named_sub_element[_at], get_or_create[_named]) keep AllOrd — whatever they return.
     AP v m        : m keeps (AllOrd v, Fresh) for every outcome
     PI v s nm p m : m keeps them PROVIDED inserting a sub-element named nm at position p into the content of s keeps s in order
                     (InsOK) — the obligation the callers discharge with range_exact after calc_element_insert_range
   The version parameter of the raw operations is the version of AllOrd. *)
From Coq Require Import PeanoNat Arith Lia.
From AV Require Import Base.Bytes Base.Outcome Hash.HashModel Spec.SpecOps Tree.Heap Tree.Ops Tree.Script Tree.Inv
  Tree.InvProofsBase Tree.InvProofsCore Tree.InvProofsPrim Tree.InvProofsCreate Tree.InvProofsRefs Tree.InvProofsRemove
  Tree.Range Tree.SpecWF Tree.RangeProofsLoop Tree.RangeProofsCalc Tree.RangeProofsOps Tree.RangeProofsKeep Tree.RangeProofsMoveFinal
  Tree.OrdFrame Tree.OrdFrameOps.
Open Scope string_scope.
Open Scope list_scope.
Open Scope N_scope.

Section Alloc.
Variable T : tables.
Hypothesis WF : SpecWF T.
Variable tab_el tab_en : nametab.
Variable check_fn : N -> list N -> res bool.
Variable LATEST : N.
Variable v : N.

Notation AllOrd := (AllOrd T v).

Definition AP {A} (m : W A) : Prop :=
  forall w r w', AllOrd w -> Fresh w -> m w = Val (r, w') -> AllOrd w' /\ Fresh w'.

Definition InsOK (w : world) (self : id) (name pos : N) : Prop :=
  exists n items, w_nodes w self = Some n /\ items_of w (n_content n) = Some items /\
    Ordered T (n_type n) v (ins items (N.to_nat pos) (Some name)).

Definition PI {A} (self : id) (name pos : N) (m : W A) : Prop :=
  forall w r w', AllOrd w -> Fresh w -> InsOK w self name pos -> m w = Val (r, w') -> AllOrd w' /\ Fresh w'.

Lemma AP_shp {A} (m : W A) : (forall w0, shp w0 m) -> AP m.
Proof.
  intros H w r w' HA F E. pose proof (H w w r w' (Sh_refl w) E) as S.
  split; [exact (Sh_allord T v w w' S HA)|exact (Sh_fresh w w' S F)].
Qed.
Lemma AP_ro {A} (m : W A) : ro m -> AP m.
Proof. intros R w r w' HA F E. apply R in E. subst. auto. Qed.
Lemma AP_bind {A B} (m : W A) (k : A -> W B) : AP m -> (forall a, AP (k a)) -> AP (wbind m k).
Proof.
  intros Hm Hk w r w' HA F H. apply wbind_inv in H as [(a & w1 & H1 & H2) | (e & H1 & _)].
  - destruct (Hm _ _ _ HA F H1) as (A1 & F1). eapply Hk; eauto.
  - eapply Hm; eauto.
Qed.
Lemma AP_try {A} (m : W A) : AP m -> AP (wtry m).
Proof. intros Hm w r w' HA F H. apply wtry_inv in H as (r0 & H & _). eapply Hm; eauto. Qed.

Lemma PI_AP {A} self name pos (m : W A) : AP m -> PI self name pos m.
Proof. intros H w r w' HA F _ E. eapply H; eauto. Qed.
Lemma PI_bind_ro {A B} self name pos (m : W A) (k : A -> W B) :
  ro m -> (forall a, PI self name pos (k a)) -> PI self name pos (wbind m k).
Proof.
  intros R Hk w r w' HA F I H. apply wbind_inv in H as [(a & w1 & H1 & H2) | (e & H1 & ->)].
  - pose proof (R _ _ _ H1) as ->. eapply Hk; eauto.
  - pose proof (R _ _ _ H1) as ->. auto.
Qed.

(* ---- the two primitive steps ---- *)
Lemma allord_alloc w nd : AllOrd w -> Fresh w -> n_content nd = [] ->
  AllOrd (walloc w nd) /\ Fresh (walloc w nd) /\
  (forall i cn, w_nodes w i = Some cn -> w_nodes (walloc w nd) i = Some cn).
Proof.
  intros A F Hc.
  assert (Hold : forall i cn, w_nodes w i = Some cn -> w_nodes (walloc w nd) i = Some cn).
  { intros i cn Hi. rewrite nodes_walloc_old; [exact Hi|]. intros ->. rewrite F in Hi by lia. discriminate. }
  split; [|split; [|exact Hold]].
  - intros i n Hn. destruct (N.eq_dec i (w_next w)) as [->|NE].
    + rewrite nodes_walloc_new in Hn. injection Hn as <-. rewrite Hc. exists []. split; [reflexivity|].
      unfold Ordered. reflexivity.
    + rewrite nodes_walloc_old in Hn by exact NE. destruct (A _ _ Hn) as (items & HI & HO). exists items. split; [|exact HO].
      apply (items_of_frame w); [|exact HI]. intros j cn Hj. exists cn. split; [apply Hold; exact Hj|reflexivity].
  - intros i Hi. unfold walloc in *. cbn [w_next w_nodes] in *. unfold upd.
    destruct (i =? w_next w) eqn:E; [apply N.eqb_eq in E; lia|]. apply F. lia.
Qed.

Lemma allord_insert w self n items name pos c nc :
  AllOrd w -> w_nodes w self = Some n -> items_of w (n_content n) = Some items ->
  Ordered T (n_type n) v (ins items (N.to_nat pos) (Some name)) ->
  w_nodes w c = Some nc -> n_name nc = name ->
  AllOrd (wset w self (set_content n (insert_at (n_content n) (N.to_nat pos) (CElem c)))).
Proof.
  intros A Hn HI HO Hc Hname.
  set (w' := wset w self _).
  assert (Hnames : forall i cn, w_nodes w i = Some cn -> exists cn', w_nodes w' i = Some cn' /\ n_name cn' = n_name cn).
  { intros i cn Hi. destruct (N.eq_dec i self) as [->|NE].
    - unfold w'. rewrite nodes_wset_eq. rewrite Hn in Hi. injection Hi as <-. eexists. split; reflexivity.
    - unfold w'. rewrite nodes_wset_neq by exact NE. eauto. }
  intros i x Hx. destruct (N.eq_dec i self) as [->|NE].
  - unfold w' in Hx. rewrite nodes_wset_eq in Hx. injection Hx as <-. cbn [n_content n_type set_content].
    exists (ins items (N.to_nat pos) (Some name)). split; [|exact HO].
    apply items_of_insert; [apply (items_of_frame w); auto|].
    cbn [item_of]. destruct (Hnames c nc Hc) as (nc' & Hc' & Hn'). rewrite Hc'. rewrite Hn', Hname. reflexivity.
  - unfold w' in Hx. rewrite nodes_wset_neq in Hx by exact NE. destruct (A _ _ Hx) as (it & HIx & HOx).
    exists it. split; [apply (items_of_frame w); auto|exact HOx].
Qed.

Lemma fresh_wset w i x : Fresh w -> w_nodes w i <> None -> Fresh (wset w i x).
Proof.
  intros F Hi j Hj. destruct (N.eq_dec j i) as [->|NE].
  - exfalso. apply Hi. apply F. exact Hj.
  - rewrite nodes_wset_neq by exact NE. apply F. exact Hj.
Qed.

(* allocate a node without content named `name` below self and insert it at pos, then continue *)
Lemma PI_alloc_insert {A} self name pos parent et (k : id -> W A) :
  (forall c, AP (k c)) ->
  PI self name pos (do c <- alloc (new_node parent name et); content_insert self pos (CElem c);; k c)%W.
Proof.
  intros Hk w r w' A0 F (n & items & Hn & HI & HO) H.
  apply wbind_inv in H as [(c & w1 & H1 & H2) | (e & H1 & _)]; [|discriminate H1].
  apply alloc_walloc in H1 as ([= ->] & ->).
  destruct (allord_alloc w (new_node parent name et) A0 F eq_refl) as (A1 & F1 & Hold).
  apply wbind_inv in H2 as [(u & w2 & H2 & H3) | (e & H2 & ->)].
  - apply content_insert_inv in H2 as (n1 & Hn1 & _ & ->).
    rewrite (Hold _ _ Hn) in Hn1. injection Hn1 as <-.
    eapply Hk; [| |exact H3].
    + apply (allord_insert _ self n items name pos (w_next w) (new_node parent name et)); auto.
      * apply (items_of_frame w); [|exact HI]. intros j cn Hj. exists cn. split; [apply Hold; exact Hj|reflexivity].
      * apply nodes_walloc_new.
    + apply fresh_wset; [exact F1|]. rewrite (Hold _ _ Hn). discriminate.
  - apply content_insert_inv in H2 as (n1 & _ & [=] & _).
Qed.

(* ---- create_sub_element_inner and its callers ---- *)
Lemma PI_create_inner self name pos : PI self name pos (create_sub_element_inner T self name pos v).
Proof.
  unfold create_sub_element_inner.
  apply PI_bind_ro; [ro_tac|intros n]. apply PI_bind_ro; [ro_tac|intros f].
  destruct f as [[et ix]|]; [|apply PI_AP, AP_ro; ro_tac].
  apply PI_bind_ro; [ro_tac|intros nv]. destruct nv; [apply PI_AP, AP_ro; ro_tac|].
  apply PI_alloc_insert. intros c. apply AP_ro. ro_tac.
Qed.

(* after the range computation a position inside the range satisfies InsOK *)
Lemma range_insok w self n name lo hi w1 pos :
  AllOrd w -> w_nodes w self = Some n -> calc_element_insert_range T n name v w = Val (OK (lo, hi), w1) ->
  lo <= pos <= hi -> InsOK w self name pos.
Proof.
  intros A Hn EC Hp. destruct (A _ _ Hn) as (items & HI & HO).
  destruct (range_exact T WF n name v w lo hi w1 items HI HO EC) as (_ & _ & Hhi & Hiff).
  exists n, items. split; [exact Hn|]. split; [exact HI|]. apply Hiff; lia.
Qed.

Lemma AP_raw_create self name : AP (raw_create_sub_element T self name v).
Proof.
  intros w r w' A F H. unfold raw_create_sub_element in H.
  wstepn H n En. winv En. wstepn H se Ec; [|auto].
  destruct se as [lo hi]. pose proof (calc_bound T _ _ _ _ _ _ _ Ec) as Hb.
  eapply (PI_create_inner self name hi); eauto. eapply range_insok; eauto. lia.
Qed.

Lemma AP_raw_create_at self name pos : AP (raw_create_sub_element_at T self name pos v).
Proof.
  intros w r w' A F H. unfold raw_create_sub_element_at in H.
  wstepn H n En. winv En. wstepn H se Ec; [|auto].
  destruct se as [lo hi]. destruct ((lo <=? pos) && (pos <=? hi)) eqn:EP; [|winv H; auto].
  apply andb_true_iff in EP as [E1 E2]. apply N.leb_le in E1. apply N.leb_le in E2.
  eapply (PI_create_inner self name pos); eauto. eapply range_insok; eauto.
Qed.

(* ---- create_named_sub_element_inner and its callers ---- *)
Lemma PI_create_named_inner self name item pos m :
  PI self name pos (create_named_sub_element_inner T check_fn self name item pos m v).
Proof.
  unfold create_named_sub_element_inner.
  destruct (is_empty item); [apply PI_AP, AP_ro; ro_tac|].
  apply PI_bind_ro; [ro_tac|intros n]. apply PI_bind_ro; [ro_tac|intros f].
  destruct f as [[et ix]|]; [|apply PI_AP, AP_ro; ro_tac].
  apply PI_bind_ro; [ro_tac|intros nv]. destruct (negb nv); [apply PI_AP, AP_ro; ro_tac|].
  apply PI_bind_ro; [ro_tac|intros sn]. apply PI_bind_ro; [ro_tac|intros valid].
  destruct (negb valid); [apply PI_AP, AP_ro; ro_tac|].
  apply PI_bind_ro; [ro_tac|intros pp]. apply PI_bind_ro; [ro_tac|intros ex].
  destruct ex; [apply PI_AP, AP_ro; ro_tac|].
  apply PI_alloc_insert. intros c.
  apply AP_bind; [apply AP_raw_create|intros s].
  apply AP_bind; [apply AP_try, AP_shp; intros w0; apply shp_raw_set_cdata|intros _].
  apply AP_bind; [apply AP_shp; intros w0; apply shp_add_identifiable|intros _].
  apply AP_ro. ro_tac.
Qed.

Lemma AP_raw_create_named self name item m : AP (raw_create_named_sub_element T check_fn self name item m v).
Proof.
  intros w r w' A F H. unfold raw_create_named_sub_element in H.
  wstepn H n En. winv En. wstepn H se Ec; [|auto].
  destruct se as [lo hi]. pose proof (calc_bound T _ _ _ _ _ _ _ Ec) as Hb.
  eapply (PI_create_named_inner self name item hi m); eauto. eapply range_insok; eauto. lia.
Qed.

Lemma AP_raw_create_named_at self name item pos m : AP (raw_create_named_sub_element_at T check_fn self name item pos m v).
Proof.
  intros w r w' A F H. unfold raw_create_named_sub_element_at in H.
  wstepn H n En. winv En. wstepn H se Ec; [|auto].
  destruct se as [lo hi]. destruct ((lo <=? pos) && (pos <=? hi)) eqn:EP; [|winv H; auto].
  apply andb_true_iff in EP as [E1 E2]. apply N.leb_le in E1. apply N.leb_le in E2.
  eapply (PI_create_named_inner self name item pos m); eauto. eapply range_insok; eauto.
Qed.

End Alloc.
