(* Tree/SortProofsV0.v — the comparison as it was BEFORE the three fix: commits (policy_v0) is not a total preorder:
   witnesses on the tiny table set of Tree/SortTiny.v, closed by vm_compute.  (The same shapes were confirmed on the real
   library before the fixes: findings/C14-*.json; the replays now pass and guard against a regression.)
   With the code as it stands (policy_cur) the same worlds are ordered consistently (non-vacuity of cmp_total_preorder). *)
From AV Require Import Base.Bytes Base.Outcome Hash.HashModel Tree.Heap Tree.Ops Tree.Sort Tree.SortTiny Tree.SortProofsOrder
  Tree.SortProofsCmp.
Import SortTiny.
Open Scope string_scope.
Open Scope list_scope.
Open Scope N_scope.

(* a2 < a10 < a1b < a2 *)
Lemma v0_names_cyclic :
  let w := packages "a2" "a10" "a1b" in
  cmp policy_v0 w 1 3 = Val Lt /\ cmp policy_v0 w 3 5 = Val Lt /\ cmp policy_v0 w 5 1 = Val Lt.
Proof. vm_compute. repeat split. Qed.

(* a DEFINITION-REF without text between two with text: compared by DEFINITION-REF text (first, third), by content (others) *)
Lemma v0_skipped_stage_cyclic :
  cmp policy_v0 params 1 7 = Val Lt /\ cmp policy_v0 params 7 4 = Val Lt /\ cmp policy_v0 params 4 1 = Val Lt.
Proof. vm_compute. repeat split. Qed.

(* 2.0 = NaN = 1.0 but 2.0 > 1.0 *)
Lemma v0_nan_not_transitive :
  cmp policy_v0 floats 1 4 = Val Eq /\ cmp policy_v0 floats 4 7 = Val Eq /\ cmp policy_v0 floats 1 7 = Val Gt.
Proof. vm_compute. repeat split. Qed.

Theorem cmp_v0_not_total_preorder :
  exists T tab_el tab_at tab_en ni nd w a b c,
    cmp_p T tab_el tab_at tab_en ni nd policy_v0 w a b = Val Lt /\
    cmp_p T tab_el tab_at tab_en ni nd policy_v0 w b c = Val Lt /\
    cmp_p T tab_el tab_at tab_en ni nd policy_v0 w c a = Val Lt.
Proof.
  exists tiny, tiny_el, tiny_at, tiny_en, NAME_INDEX, NAME_DEFREF, (packages "a2" "a10" "a1b"), 1, 3, 5.
  exact v0_names_cyclic.
Qed.

(* as the code stands *)
Lemma cur_names : let w := packages "a2" "a10" "a1b" in
  cmp policy_cur w 1 3 = Val Lt /\ cmp policy_cur w 3 5 = Val Lt /\ cmp policy_cur w 1 5 = Val Lt.
Proof. vm_compute. repeat split. Qed.
Lemma cur_params : cmp policy_cur params 1 7 = Val Lt /\ cmp policy_cur params 7 4 = Val Lt /\ cmp policy_cur params 1 4 = Val Lt.
Proof. vm_compute. repeat split. Qed.
Lemma cur_floats : cmp policy_cur floats 7 1 = Val Lt /\ cmp policy_cur floats 1 4 = Val Lt /\ cmp policy_cur floats 7 4 = Val Lt.
Proof. vm_compute. repeat split. Qed.

(* the hypothesis of cmp_total_preorder is satisfiable: the three packages *)
Lemma cur_all_val : forall a b, In a [1; 3; 5] -> In b [1; 3; 5] -> exists c, cmp policy_cur (packages "a2" "a10" "a1b") a b = Val c.
Proof.
  intros a b ia ib. cbn in ia, ib.
  destruct ia as [<- | [<- | [<- | []]]]; destruct ib as [<- | [<- | [<- | []]]]; eexists; vm_compute; reflexivity.
Qed.
