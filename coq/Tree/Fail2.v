(* Tree/Fail2.v — C11 over the extended operation alphabet op2 of Tree/Script2.v: the classes of failing calls that
   leave an effect.  The three classes of Tree/Fail.v for the 26 element / model / file operations, plus one class of
   the loader: a load rejected with InvalidFileMerge (known finding C11-load-merge-rollback, agent-c09:
   C11_load_merge_conflict_refuted / _residue).  sort, sort model, duplicate, set_version, check_version_compatibility and
   the two serialisers have NO class.   DEFINITIONS only. *)
From AV Require Import Base.Bytes Base.Outcome Hash.HashModel Tree.Heap Tree.Ops Tree.Script Tree.Fail
  Tree.Sort Tree.Copy Tree.Load Tree.Compat Tree.Serialize Tree.Script2.
Open Scope list_scope.
Open Scope N_scope.

Section Fail2.
Variable T : tables.
Variable tab_el tab_at tab_en : nametab.
Variable check_fn : N -> list N -> res bool.
Variable float_parse : list N -> option N.
Variable float_fmt : N -> list N.
Variable LATEST name_index name_definition_ref attr_schema_location : N.
Variable root_attrs : list (N * cdata).

Definition run2 := run_op2 T tab_el tab_at tab_en check_fn float_parse float_fmt LATEST name_index name_definition_ref
                           attr_schema_location root_attrs.

(* a load rejected because the new file cannot be merged *)
Definition K11_load_merge (w : world) (o : op2) : bool :=
  match o with
  | OpLoad _ _ _ _ => match run2 o w with Val (ER InvalidFileMerge, _) => true | _ => false end
  | _ => false
  end.

Definition Known11_2 (w : world) (o : op2) : bool :=
  match o with
  | Op1 o1 => Known11 T tab_el tab_en check_fn LATEST root_attrs w o1
  | _ => K11_load_merge w o
  end.

(* the operations whose failure may leave unreachable garbage: the two copies, duplicate, load *)
Definition may_leave_garbage (o : op2) : bool :=
  match o with
  | Op1 o1 => is_copy o1
  | OpDuplicate _ | OpLoad _ _ _ _ => true
  | _ => false
  end.

End Fail2.
