(* Tree/Fail.v — definitions of property C11 ("failed operations have no effect") over the heap model:
   the classes of failing calls that DO leave an effect (findings of the code, decided by running the model),
   the one assumption on the specification tables, the structural side conditions, and witnesses.
   DEFINITIONS + Examples only; proofs are in Tree/FailProofs*.v.

   Where an operation of Ops.v can return an error AFTER its first mutation (all others fail before it):
     create_named_sub_element_inner : `raw_create_sub_element c SHORT version` after the new element was linked in.
                                      Cannot fail when the tables satisfy [tables_ok11] (a named type is not a
                                      character type and its SHORT-NAME type is not itself named).
     create_copied_sub_element_inner: deep_copy / path_unchecked / make_unique_item_name fail when only the fresh copy
                                      exists: garbage no handle can reach ([obs_eq_upto_garbage]).
     move_element_local / _full     : make_unique_item_name (ElementNotIdentifiable) and the rewrite of a referrer
                                      (IncorrectContentType) fail after the element was unlinked from its parent,
                                      re-parented and (full) taken out of the source model's maps: classes
                                      [K11_move_noname], [K11_move_refwrite].  GENUINE partial effects.
     Element::set_reference_target  : DEST attribute and reference-origin map are updated before the text write
                                      that may fail (IncorrectContentType): class [K11_setref].  GENUINE.
     e_set_character_data           : after the text was replaced the path of the parent is computed again; it
                                      cannot fail (same parent chain) unless the element is its own parent.
     e_add_to_file                  : the upward walk after the own membership was set cannot fail, because
                                      `model()` has just walked the same chain successfully.
     e_remove_from_file, remove_file, create_file: inner results are discarded (`let _ =`), the outer call is Ok. *)
From AV Require Import Base.Bytes Base.Outcome Hash.HashModel Tree.Heap Tree.Ops Tree.Script.
Open Scope string_scope.
Open Scope list_scope.
Open Scope N_scope.

Definition parent_link (w : world) (i : id) : option pref := option_map n_parent (w_nodes w i).
Definition pref_eqb (a b : pref) : bool :=
  match a, b with
  | PNone, PNone => true | PModel x, PModel y => x =? y | PElem x, PElem y => x =? y | _, _ => false
  end.
Definition opref_eqb (a b : option pref) : bool :=
  match a, b with Some x, Some y => pref_eqb x y | None, None => true | _, _ => false end.

(* no node is its own parent (a consequence of C03's Core invariant, FailProofsInv.v) *)
Definition NoSelfParent (w : world) : Prop := forall i n, w_nodes w i = Some n -> n_parent n <> PElem i.
(* nothing is allocated at or beyond w_next (C03 Core (a)) *)
Definition AllocBound (w : world) : Prop := forall i n, w_nodes w i = Some n -> i < w_next w.

Definition Inv11 (w : world) : Prop := NoSelfParent w /\ AllocBound w.

Section Fail.
Variable T : tables.
Variable tab_el tab_en : nametab.
Variable check_fn : N -> list N -> res bool.
Variable LATEST : N.
Variable root_attrs : list (N * cdata).

Definition run11 := run_op T tab_el tab_en check_fn LATEST root_attrs.

(* The one fact about the specification tables C11 needs: where an element type is named in a version and the
   SHORT-NAME sub-element is found, the type is not a pure character type and the SHORT-NAME's type is not named. *)
Definition tables_ok11 : Prop :=
  forall et version se idx,
    is_named_in_version T et version = Val true ->
    find_sub_element T et (name_short_name T) version = Val (Some (se, idx)) ->
    content_mode T et <> Val MCharacters /\ is_named_in_version T se version <> Val true.

(* ---------- classes with a genuine partial effect (decided by running the model) ---------- *)
(* a move that fails with error [e] after the moved element was re-parented *)
Definition move_late (e : err) (w : world) (o : op) : bool :=
  match o with
  | OpMove _ mv | OpMoveAt _ mv _ =>
    match run11 o w with
    | Val (ER e', w') =>
      match e, e' with
      | ElementNotIdentifiable, ElementNotIdentifiable | IncorrectContentType, IncorrectContentType =>
        negb (opref_eqb (parent_link w' mv) (parent_link w mv))
      | _, _ => false
      end
    | _ => false
    end
  | _ => false
  end.

(* (a) the moved element is identifiable by structure (named type, SHORT-NAME first) but has no item name:
       make_unique_item_name fails after the element was unlinked and re-parented *)
Definition K11_move_noname := move_late ElementNotIdentifiable.
(* (b) rewriting the text of a referrer fails (value rejected by the referrer's character data specification, or
       the referrer has mixed content with more than one item) after the element was unlinked, re-parented and the
       path index re-keyed; referrers rewritten before it stay rewritten *)
Definition K11_move_refwrite := move_late IncorrectContentType.

(* (c) set_reference_target: the final text write fails after DEST and the reference-origin map were updated *)
Definition K11_setref (w : world) (o : op) : bool :=
  match o with
  | OpSetRefTarget _ _ => match run11 o w with Val (ER IncorrectContentType, _) => true | _ => false end
  | _ => false
  end.

Definition Known11 (w : world) (o : op) : bool := K11_move_noname w o || K11_move_refwrite w o || K11_setref w o.

(* the copying operations: the only ones whose failure may leave (unreachable) garbage *)
Definition is_copy (o : op) : bool := match o with OpCopy _ _ | OpCopyAt _ _ _ => true | _ => false end.

End Fail.
