(* Tree/CompatReal.v — [F] the table fact PairOK holds of the regenerated real tables RT (Gen/CompatSweep*.v evaluate the
   checker on every datatype), hence on the real tables the compatibility check is exact in every typed world, without the
   K hypotheses; and the mask lookup of the walk always finds a mask there. *)
From AV Require Import Base.Bytes Base.Outcome Hash.HashModel Spec.SpecOps Spec.SpecProofs Spec.SpecReal Tree.Heap Tree.Ops
  Tree.Compat Tree.CompatSpec Tree.CompatTyped Tree.CompatProofs5 Tree.SpecWFReal.
From AV.Gen Require Import CompatSweepAll.
Open Scope list_scope.
Open Scope N_scope.

Theorem PairOK_real : PairOK RT.
Proof.
  apply pair_ok_reflect.
  - exact real_dt_bound.
  - rewrite compat_n_datatypes. exact compat_sweep_all_pair.
Qed.

Theorem NoKnown_real w f v : Typed RT w -> RootOk w f -> NoKnown RT w f v.
Proof. intros HT HR. exact (typed_no_known RT w f v PairOK_real HT HR). Qed.

Theorem f_check_exact_real w f v r :
  Typed RT w -> RootOk w f -> f_check RT w f v = Val r -> (fst r = [] <-> ValidIn RT w f v).
Proof. intros HT HR. exact (f_check_exact_typed RT w f v PairOK_real HT HR r). Qed.

Theorem mask_lookup_some_real w f v ty i n c cn tc ixs :
  Typed RT w ->
  Vis RT w f v ty i -> w_nodes w i = Some n -> In (CElem c) (n_content n) -> w_nodes w c = Some cn -> in_file f cn = true ->
  (find_sub_element RT ty (n_name cn) v = Val (Some (tc, ixs)) \/ find_sub_element RT ty (n_name cn) U32MAX = Val (Some (tc, ixs))) ->
  exists m, get_sub_element_version_mask RT (n_type n) ixs = Val (Some m).
Proof. intros HT. exact (mask_lookup_some RT w f v PairOK_real HT ty i n c cn tc ixs). Qed.

(* ---- non-vacuity on the real tables: the root with its first listed sub element is a typed world, the check is clean ---- *)
Definition real_root_ty : option (N * N) := match et_new RT (autosar_element RT) with Val t => Some t | _ => None end.
Definition real_first_child : option sub_item :=
  match real_root_ty with
  | Some t => match list_sub RT FUEL (snd t) with Val (it :: _) => Some it | _ => None end
  | None => None
  end.
Definition ex_world (rt : N * N) (it : sub_item) : world :=
  let n0 := mkNode (PModel 0) 0 rt [CElem 1] [] [] None in
  let n1 := mkNode (PElem 0) (it_name it) (it_type it) [] [] [] None in
  mkWorld (fun i => if i =? 0 then Some n0 else if i =? 1 then Some n1 else None) 2 [mkFile 0 [] 1 None] [mkModel 0 [0] [] []].

Example typed_real_example : exists rt it, real_root_ty = Some rt /\ real_first_child = Some it /\
  Typed RT (ex_world rt it) /\ RootOk (ex_world rt it) 0 /\
  exists m, f_check RT (ex_world rt it) 0 (it_mask it) = Val ([], m).
Proof.
  destruct real_root_ty as [rt|] eqn:Ert; [|vm_compute in Ert; discriminate].
  destruct real_first_child as [it|] eqn:Eit; [|vm_compute in Eit; discriminate].
  vm_compute in Ert. injection Ert as <-. vm_compute in Eit. injection Eit as <-.
  eexists. eexists. split; [reflexivity|]. split; [reflexivity|]. split; [|split].
  - intros i n c cn Hn Hin Hcn. cbn [ex_world w_nodes] in Hn, Hcn.
    destruct (i =? 0) eqn:E0.
    + apply N.eqb_eq in E0. subst i. injection Hn as <-. cbn [n_content] in Hin. destruct Hin as [Hin|[]]. injection Hin as <-.
      cbn in Hcn. injection Hcn as <-. split; [reflexivity|].
      exists U32MAX. eexists. eexists. split; [reflexivity|]. split; [vm_compute; reflexivity|reflexivity].
    + destruct (i =? 1); [|discriminate]. injection Hn as <-. destruct Hin.
  - intros r ty n (x & m & n0 & Hx & Hm & -> & Hn0 & ->) Hn p. cbn in Hx. injection Hx as <-. cbn in Hm. injection Hm as <-.
    cbn in Hn. injection Hn as <-. discriminate.
  - eexists. vm_compute. reflexivity.
Qed.

