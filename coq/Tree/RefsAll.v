(* Tree/RefsAll.v — C04/C05, specification side of the statements for all 26 constructors (no proofs).
     RefStr / RootsPlain   two facts about every reachable world (proved as invariants of all 26 operations in
                           Tree/IndexProofsNodeInv.v): a reference element holds string data; a model root has a type that is
                           neither named nor a reference type
     collision_x           the finding class of a move of a non-identifiable container to ANOTHER model: an identifiable
                           element inside the container gets a path that the destination index already has (there is no
                           uniqueness check on this route: finding C04-move-container-duplicates-paths, two-model form)
     Known04a / Known05a   the finding classes of C04 / C05 used by the closed statements for all 26 constructors *)
From AV Require Import Base.Bytes Base.Outcome Hash.HashModel Tree.Heap Tree.Ops Tree.Script Tree.Index Tree.Refs Tree.Follow Tree.Inv Tree.Copy.
Open Scope string_scope.
Open Scope list_scope.
Open Scope N_scope.

Section RefsAll.
Variable T : tables.

Definition RefStr (w : world) : Prop :=
  forall i n d, w_nodes w i = Some n -> isref T (n_type n) = true -> cdata_of T n = Some d -> exists s, d = DString s.
Definition RootsPlain (w : world) : Prop :=
  forall m x n, model_at w m = Some x -> w_nodes w (m_root x) = Some n ->
    named T (n_type n) = false /\ isref T (n_type n) = false.

Definition nocollision_x (isrc idst : list (list N * id)) (src dest : list N) : bool :=
  forallb (fun e => match strip_prefix src (fst e) with
                    | Some (c :: t) => match assoc_get (dest ++ c :: t) idst with None => true | Some _ => false end
                    | _ => true
                    end) isrc.
Definition collision_x (w : world) (h mv : id) : bool :=
  match w_nodes w h, w_nodes w mv with
  | Some n, Some mn =>
    match path_unchecked T mn w, path_unchecked T n w, model_of mv w, model_of h w with
    | Val (OK src, _), Val (OK dest, _), Val (OK ms, _), Val (OK m, _) =>
      match model_at w ms, model_at w m with
      | Some xs, Some xm => negb (nocollision_x (m_idents xs) (m_idents xm) src dest)
      | _, _ => false
      end
    | _, _, _, _ => false
    end
  | _, _ => false
  end.

(* ---------- the finding classes of the statements for all 26 constructors *)
Variable tab_el tab_en : nametab.
Variable check_fn : N -> list N -> res bool.
Variable LATEST : N.
Variable root_attrs : list (N * cdata).

(* C04: as Known04, without the side condition on the type of a model root (RootsPlain is an invariant) *)
Definition Known04a (w : world) (o : op) : bool :=
  match o with
  | OpRemoveFile _ _ => late_short T w
  (* copies: K04-front at the destination; a source with a SHORT-NAME element that is not in front (only reachable through
     another class of Known04).  The static class copy_container of Known04 is replaced by the collision test of copy_clean_b *)
  | OpCopy h other => front T LATEST w h (nm_of w other) None || late_short T w
  | OpCopyAt h other pos => front T LATEST w h (nm_of w other) (Some pos) || late_short T w
  | _ => Known04 T LATEST w o
  end.

(* copies: copy_clean without the duplicate check on the referrers (implied by the duplicate check on the walk of the copy) *)
Definition copy_clean_a (w w' : world) (h c : id) : bool :=
  match w_nodes w h with
  | Some nh =>
    match path_unchecked T nh w with
    | Val (OK path, _) =>
      let w3 := mkWorld (fun j => if j =? h then Some nh else w_nodes w' j) (w_next w') (w_files w') (w_models w') in
      let ids := walk (fuel_of w') w' c in
      match reg_entries T (fuel_of w') w3 path c with
      | Some (L, R) =>
        nodupN ids && (N.of_nat (List.length ids) =? w_next w' - w_next w)
        && nodupb (map fst L) && (identifiable T w' c || is_empty L)
        && forallb (node_ok T w') ids
      | None => false
      end
    | _ => false
    end
  | None => false
  end.

(* copies, what remains after the conditions that follow from the source world are discharged (Tree/IndexProofsCopyB.v):
   nobody twice in the walk of the copy, no two identifiable elements of the copy with one path, and - when the copy is not
   identifiable itself, so that no unique name is chosen - no path of an identifiable element inside it is already in the index of
   the destination's model (finding C04-copy-container-duplicates-paths; a copy into another model, as in duplicate, is fine) *)
Definition copy_clean_b (w w' : world) (h c : id) : bool :=
  match w_nodes w h with
  | Some nh =>
    match path_unchecked T nh w with
    | Val (OK path, _) =>
      let w3 := mkWorld (fun j => if j =? h then Some nh else w_nodes w' j) (w_next w') (w_files w') (w_models w') in
      let ids := walk (fuel_of w') w' c in
      match reg_entries T (fuel_of w') w3 path c with
      | Some (L, R) =>
        nodupN ids && nodupb (map fst L)
        && (identifiable T w' c ||
            match model_of h w with
            | Val (OK m, _) =>
              match model_at w m with
              | Some x => forallb (fun e => match assoc_get (fst e) (m_idents x) with None => true | Some _ => false end) L
              | None => false
              end
            | _ => false
            end)
      | None => false
      end
    | _ => false
    end
  | None => false
  end.

(* C05: as Known05, plus the two-model form of the container move; copies with the reduced condition *)
Definition Known05a (w : world) (o : op) : bool :=
  match o with
  | OpMove h mv | OpMoveAt h mv _ =>
    Known05 T tab_el tab_en check_fn LATEST root_attrs w o
    || (negb (same_model w h mv) && negb (identifiable T w mv) && collision_x w h mv)
  | OpCopy h _ | OpCopyAt h _ _ =>
    match run_op T tab_el tab_en check_fn LATEST root_attrs o w with
    | Val (ER _, w') => negb (w_next w' =? w_next w)
    | Val (OK (VElem c), w') => negb (copy_clean_b w w' h c)
    | _ => false
    end
  | _ => Known05 T tab_el tab_en check_fn LATEST root_attrs w o
  end.

(* ---------- AutosarModel::duplicate: new model, files, one copy per root child, file membership.  The side condition is the
   conjunction of the classes of the copy steps (C03's, C04's and C05's), decided along the run *)
Fixpoint dup_children_clean (croot : id) (items : list citem) (w : world) : bool :=
  match items with
  | [] => true
  | CData _ :: rest => dup_children_clean croot rest w
  | CElem e :: rest =>
    negb (Inv.Known T tab_el tab_en check_fn LATEST root_attrs w (OpCopy croot e))
    && negb (Known04a w (OpCopy croot e)) && negb (Known05a w (OpCopy croot e))
    && match e_create_copied_sub_element T LATEST croot e w with
       | Val (OK _, w1) => dup_children_clean croot rest w1
       | _ => true
       end
  end.
Definition dup_prefix (m : N) : W (N * node * model * list (list N * N)) :=
  (do x <- get_model m;
   do c <- new_model T root_attrs;
   do rn <- get_node (m_root x);
   do cx <- get_model c;
   modify_node (m_root cx) (fun r => set_comment (set_attrs r (n_attrs rn)) (n_comment rn));;
   do filemap <- dup_files T c (m_files x) [];
   wret (c, rn, cx, filemap))%W.
Definition dup_clean (w : world) (m : N) : bool :=
  match dup_prefix m w with
  | Val (OK (_, rn, cx, _), w1) => dup_children_clean (m_root cx) (n_content rn) w1
  | _ => true
  end.

End RefsAll.
