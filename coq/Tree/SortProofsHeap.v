(* Tree/SortProofsHeap.v — ElementRaw::sort on the heap (for every sort function `srt` that returns a permutation):
   - frame: nothing but content lists changes, and a content list changes only by a permutation of its sub-elements, only in
     nodes whose type has content mode Sequence/Choice/Bag and is not `ordered`; the node set, w_next, files, models (hence both
     index maps) are untouched; the result is always OK (sort_frame)
   - totality: on a heap that satisfies [SortReady] (no dangling ids, spec lookups of the node types do not panic, every child is
     findable in its parent's type under version mask u32::MAX, names inside their string tables, content lists well-founded with
     a rank below the fuel) sort returns OK - no Pan, no Fuel (sort_total).  SortReady is preserved by sort. *)
From Coq Require Import Permutation Lia.
From AV Require Import Base.Bytes Base.Outcome Base.Radix Hash.HashModel Tree.Heap Tree.Ops Tree.Sort Tree.SortProofsOrder.
Open Scope list_scope.
Open Scope N_scope.

(* ------------------------------------------------------------------ monad inversion *)
Lemma wbind_val {A B} (m : W A) (k : A -> W B) w r w' :
  wbind m k w = Val (r, w') ->
  (exists a w1, m w = Val (OK a, w1) /\ k a w1 = Val (r, w')) \/ (exists e, m w = Val (ER e, w') /\ r = ER e).
Proof.
  unfold wbind. destruct (m w) as [[[a|e] w1]|s|]; try discriminate.
  - intros H. left. eauto.
  - intros [= <- <-]. right. eauto.
Qed.
Lemma get_node_val i w r w' : get_node i w = Val (r, w') -> exists n, w_nodes w i = Some n /\ r = OK n /\ w' = w.
Proof. unfold get_node. destruct (w_nodes w i); try discriminate. intros [= <- <-]. eauto. Qed.
Lemma wl_val {A} (x : res A) w r w' : wlift x w = Val (r, w') -> exists a, x = Val a /\ r = OK a /\ w' = w.
Proof. unfold wlift. destruct x; try discriminate. intros [= <- <-]. eauto. Qed.

(* sub-elements of a content list *)
Definition celems (l : list citem) : list id :=
  flat_map (fun it => match it with CElem c => [c] | CData _ => [] end) l.

Lemma in_celems c l : In c (celems l) <-> In (CElem c) l.
Proof.
  unfold celems. rewrite in_flat_map. split.
  - intros (it & i & h). destruct it; cbn in h; [destruct h as [<- | []]; auto | destruct h].
  - intros i. exists (CElem c). split; auto. left; auto.
Qed.

Definition all_elems (l : list citem) : Prop := forall it, In it l -> exists c, it = CElem c.

Lemma all_elems_map l : all_elems (map CElem l).
Proof. intros it i. apply in_map_iff in i as (c & <- & _). eauto. Qed.

Lemma all_elems_id l : all_elems l -> map CElem (celems l) = l.
Proof.
  induction l as [| it l IH]; intros H; cbn; auto.
  destruct (H it (or_introl eq_refl)) as [c ->]. cbn. f_equal. apply IH. intros x i. apply H. right; auto.
Qed.

Lemma all_elems_perm l l' : Permutation l l' -> all_elems l -> all_elems l'.
Proof. intros P H it i. apply H. eapply Permutation_in; [apply Permutation_sym|]; eauto. Qed.

Lemma celems_map l : celems (map CElem l) = l.
Proof. unfold celems. induction l; cbn; congruence. Qed.

Lemma celems_perm l l' : Permutation l l' -> Permutation (celems l) (celems l').
Proof. unfold celems. induction 1; cbn; auto. - apply Permutation_app_head; auto. - destruct x, y; cbn; auto. apply perm_swap. - eapply Permutation_trans; eauto. Qed.

Section Heap.
Variable T : tables.
Variable tab_el tab_at tab_en : nametab.
Variable name_index name_definition_ref : N.
Variable srt : forall A, (A -> A -> comparison) -> list A -> list A.
Hypothesis srt_perm : forall A (c : A -> A -> comparison) l, Permutation l (srt A c l).

Notation sort_f' := (sort_f T tab_el tab_at tab_en name_index name_definition_ref srt).
Notation cmp_p' := (cmp_p T tab_el tab_at tab_en name_index name_definition_ref policy_cur).
Notation cmp_f' := (cmp_f T tab_el tab_at tab_en name_index name_definition_ref policy_cur).

(* ------------------------------------------------------------------ what sort may change *)
Definition same_but_content (n n' : node) : Prop :=
  n_parent n' = n_parent n /\ n_name n' = n_name n /\ n_type n' = n_type n /\ n_attrs n' = n_attrs n /\
  n_files n' = n_files n /\ n_comment n' = n_comment n.

(* reordering is permitted: content mode Sequence / Choice / Bag and not `ordered` *)
Definition sortable_ty (ty : N * N) : Prop :=
  exists m, content_mode T ty = Val m /\ ((m =? MCharacters) || (m =? MMixed)) = false /\ is_ordered T ty = Val false.

Definition node_rel (n n' : node) : Prop :=
  same_but_content n n' /\
  (n_content n' = n_content n \/
   (sortable_ty (n_type n) /\ Permutation (map CElem (celems (n_content n))) (n_content n'))).

Definition world_rel (w w' : world) : Prop :=
  w_next w' = w_next w /\ w_files w' = w_files w /\ w_models w' = w_models w /\
  forall j, match w_nodes w j, w_nodes w' j with
            | Some n, Some n' => node_rel n n'
            | None, None => True
            | _, _ => False
            end.

Lemma same_but_content_refl n : same_but_content n n.
Proof. repeat split. Qed.
Lemma same_but_content_trans a b c : same_but_content a b -> same_but_content b c -> same_but_content a c.
Proof. unfold same_but_content. intuition congruence. Qed.

Lemma node_rel_refl n : node_rel n n.
Proof. split; [apply same_but_content_refl | left; reflexivity]. Qed.

Lemma node_rel_trans a b c : node_rel a b -> node_rel b c -> node_rel a c.
Proof.
  intros [s1 c1] [s2 c2]. split; [eapply same_but_content_trans; eauto |].
  assert (ty : n_type b = n_type a) by apply s1.
  destruct c1 as [e1 | [so1 p1]]; destruct c2 as [e2 | [so2 p2]].
  - left. congruence.
  - right. rewrite ty, e1 in *. auto.
  - right. rewrite e2. auto.
  - right. split; auto.
    assert (ae : all_elems (n_content b)) by (eapply all_elems_perm; [exact p1 | apply all_elems_map]).
    rewrite (all_elems_id _ ae) in p2. eapply Permutation_trans; eauto.
Qed.

Lemma world_rel_refl w : world_rel w w.
Proof. repeat split. intros j. destruct (w_nodes w j); auto. apply node_rel_refl. Qed.

Lemma world_rel_trans a b c : world_rel a b -> world_rel b c -> world_rel a c.
Proof.
  intros (n1 & f1 & m1 & h1) (n2 & f2 & m2 & h2). repeat split; try congruence.
  intros j. specialize (h1 j). specialize (h2 j).
  destruct (w_nodes a j), (w_nodes b j), (w_nodes c j); try tauto. eapply node_rel_trans; eauto.
Qed.

(* ------------------------------------------------------------------ frame *)
Definition frame_ok (rec : id -> W unit) : Prop :=
  forall c w r w', rec c w = Val (r, w') -> r = OK tt /\ world_rel w w'.

Lemma keyed_loop_frame rec ty l : frame_ok rec ->
  forall w r w', keyed_loop T rec ty l w = Val (r, w') ->
    world_rel w w' /\ exists keyed, r = OK keyed /\ map snd keyed = celems l.
Proof.
  intros F. induction l as [| it l IH]; intros w r w' H.
  - cbn in H. injection H as <- <-. split; [apply world_rel_refl |]. exists []. auto.
  - destruct it as [c | d]; cbn [keyed_loop] in H; [| apply IH; exact H].
    apply wbind_val in H as [(u & w1 & E1 & H) | (e & E1 & _)]; [| apply F in E1 as [E1 _]; discriminate].
    apply F in E1 as [_ R1].
    apply wbind_val in H as [(cn & w2 & E2 & H) | (e & E2 & _)];
      [| apply get_node_val in E2 as (? & _ & E2 & _); discriminate].
    apply get_node_val in E2 as (cn' & Wc & E2 & ->). injection E2 as <-.
    apply wbind_val in H as [(fs & w3 & E3 & H) | (e & E3 & _)];
      [| apply wl_val in E3 as (? & _ & E3 & _); discriminate].
    apply wl_val in E3 as (fs' & Hfs & E3 & ->). injection E3 as <-.
    destruct fs as [[et idx] |]; [| discriminate].
    apply wbind_val in H as [(more & w4 & E4 & H) | (e & E4 & ->)].
    + apply IH in E4 as (R2 & keyed & E4 & Hk). injection E4 as ->.
      cbn in H. injection H as <- <-.
      split; [eapply world_rel_trans; eauto |]. exists ((idx, c) :: keyed). cbn. split; auto. unfold celems in *. cbn. congruence.
    + apply IH in E4 as (_ & keyed & E4 & _). discriminate.
Qed.

Lemma iter_loop_frame rec l : frame_ok rec ->
  forall w r w', iter_loop rec l w = Val (r, w') -> r = OK tt /\ world_rel w w'.
Proof.
  intros F. induction l as [| it l IH]; intros w r w' H.
  - cbn in H. injection H as <- <-. split; auto. apply world_rel_refl.
  - destruct it as [c | d]; cbn [iter_loop] in H; [| apply IH; exact H].
    apply wbind_val in H as [(u & w1 & E1 & H) | (e & E1 & _)]; [| apply F in E1 as [E1 _]; discriminate].
    apply F in E1 as [_ R1]. apply IH in H as [-> R2]. split; auto. eapply world_rel_trans; eauto.
Qed.

Lemma sort_frame f : frame_ok (sort_f' f).
Proof.
  induction f as [| f IH]; intros i w r w' H; [discriminate |].
  cbn [sort_f] in H.
  apply wbind_val in H as [(n & w1 & E1 & H) | (e & E1 & _)];
    [| apply get_node_val in E1 as (? & _ & E1 & _); discriminate].
  apply get_node_val in E1 as (n' & Wi & E1 & ->). injection E1 as <-.
  apply wbind_val in H as [(mode & w2 & E2 & H) | (e & E2 & _)];
    [| apply wl_val in E2 as (? & _ & E2 & _); discriminate].
  apply wl_val in E2 as (mode' & Hmode & E2 & ->). injection E2 as <-.
  destruct ((mode =? MCharacters) || (mode =? MMixed)) eqn:Em.
  { cbn in H. injection H as <- <-. split; auto. apply world_rel_refl. }
  apply wbind_val in H as [(ordered & w3 & E3 & H) | (e & E3 & _)];
    [| apply wl_val in E3 as (? & _ & E3 & _); discriminate].
  apply wl_val in E3 as (ordered' & Hord & E3 & ->). injection E3 as <-.
  destruct (negb ordered && (1 <? N.of_nat (List.length (n_content n)))) eqn:Eb; [| eapply iter_loop_frame; eauto].
  apply andb_prop in Eb as [Eo _]. apply negb_true_iff in Eo. subst ordered.
  apply wbind_val in H as [(keyed & w4 & E4 & H) | (e & E4 & _)];
    [| eapply keyed_loop_frame in E4 as (_ & ? & E4 & _); [discriminate | exact IH]].
  eapply keyed_loop_frame in E4 as (R1 & keyed' & E4 & Hk); [| exact IH]. injection E4 as <-.
  apply wbind_val in H as [(wc & w5 & E5 & H) | (e & E5 & _)]; [| discriminate].
  unfold wget in E5. injection E5 as <- <-.
  apply wbind_val in H as [(u & w6 & E6 & H) | (e & E6 & _)];
    [| apply wl_val in E6 as (? & _ & E6 & _); discriminate].
  apply wl_val in E6 as (u' & _ & _ & ->).
  unfold modify_node in H.
  apply wbind_val in H as [(n1 & w7 & E7 & H) | (e & E7 & _)];
    [| apply get_node_val in E7 as (? & _ & E7 & _); discriminate].
  apply get_node_val in E7 as (n1' & W1 & E7 & ->). injection E7 as <-.
  unfold set_node in H. injection H as <- <-. split; auto.
  destruct R1 as (nx & fl & md & nodes). repeat split; cbn; auto.
  intros j. specialize (nodes j). unfold upd. destruct (j =? i) eqn:Ej.
  - apply N.eqb_eq in Ej. subst j. rewrite Wi, W1 in nodes. rewrite Wi.
    destruct nodes as [sb _]. split.
    + unfold same_but_content in *. cbn. tauto.
    + right. split; [exists mode; auto |]. cbn.
      rewrite <- Hk. rewrite <- (map_map snd CElem). apply Permutation_map, Permutation_map. apply srt_perm.
  - exact nodes.
Qed.

(* ------------------------------------------------------------------ totality *)
Definition MAXV : N := 4294967295.

Definition cdata_named (d : cdata) : Prop := match d with DEnum e => to_str tab_en e <> None | _ => True end.

Record NodeReady (w : world) (rk : id -> nat) (i : id) (n : node) : Prop := {
  nr_kids : forall c, In (CElem c) (n_content n) ->
            exists cn, w_nodes w c = Some cn /\ (rk c < rk i)%nat /\
                       exists et idx, find_sub_element T (n_type n) (n_name cn) MAXV = Val (Some (et, idx));
  nr_mode : exists m, content_mode T (n_type n) = Val m;
  nr_ordered : exists b, is_ordered T (n_type n) = Val b;
  nr_named : exists b, is_named T (n_type n) = Val b;
  nr_name : to_str tab_el (n_name n) <> None;
  nr_data : forall d, In (CData d) (n_content n) -> cdata_named d;
  nr_attrs : forall a, In a (n_attrs n) -> to_str tab_at (fst a) <> None /\ cdata_named (snd a)
}.

Definition SortReady (w : world) (rk : id -> nat) : Prop :=
  forall i n, w_nodes w i = Some n -> NodeReady w rk i n.

Lemma node_rel_in_elem n n' c : node_rel n n' -> In (CElem c) (n_content n') -> In (CElem c) (n_content n).
Proof.
  intros [_ [e | [_ p]]] i; [congruence |].
  eapply Permutation_in in i; [| apply Permutation_sym; exact p].
  apply in_map_iff in i as (c' & [= ->] & i). apply in_celems. exact i.
Qed.

Lemma node_rel_in_data n n' d : node_rel n n' -> In (CData d) (n_content n') -> In (CData d) (n_content n).
Proof.
  intros [_ [e | [_ p]]] i; [congruence |].
  eapply Permutation_in in i; [| apply Permutation_sym; exact p].
  apply in_map_iff in i as (c' & [=] & _).
Qed.

Lemma SortReady_rel w w' rk : world_rel w w' -> SortReady w rk -> SortReady w' rk.
Proof.
  intros (_ & _ & _ & nodes) R i n' Wi.
  pose proof (nodes i) as h. rewrite Wi in h. destruct (w_nodes w i) as [n |] eqn:W0; [| destruct h].
  specialize (R i n W0). destruct h as [sb ct]. destruct R as [k m o nm nn dd aa].
  destruct sb as (_ & e_name & e_ty & e_at & _ & _).
  split.
  - intros c ic. apply (node_rel_in_elem n n' c (conj (conj eq_refl (conj e_name (conj e_ty (conj e_at (conj eq_refl eq_refl))))) ct)) in ic
      || (assert (ic' : In (CElem c) (n_content n)) by (destruct ct as [e | [_ p]]; [congruence |
            eapply Permutation_in in ic; [| apply Permutation_sym; exact p];
            apply in_map_iff in ic as (c' & [= ->] & ic); apply in_celems; exact ic]);
          clear ic; rename ic' into ic).
    destruct (k c ic) as (cn & Wc & lt & et & idx & F).
    pose proof (nodes c) as hc. rewrite Wc in hc. destruct (w_nodes w' c) as [cn' |]; [| destruct hc].
    exists cn'. split; auto. split; auto. rewrite e_ty. destruct hc as [(_ & en & _) _]. rewrite en. eauto.
  - rewrite e_ty. auto.
  - rewrite e_ty. auto.
  - rewrite e_ty. auto.
  - rewrite e_name. auto.
  - intros d id. apply dd. destruct ct as [e | [_ p]]; [congruence |].
    eapply Permutation_in in id; [| apply Permutation_sym; exact p]. apply in_map_iff in id as (c' & [=] & _).
  - rewrite e_at. auto.
Qed.

(* Element::cmp returns on a ready heap *)
Lemma character_data_val w rk i n : NodeReady w rk i n -> exists o, character_data T n = Val o.
Proof.
  intros R. unfold character_data. destruct (n_content n) as [| [c | d] [| ? ?]]; eauto.
  destruct (nr_mode _ _ _ _ R) as [m ->]. cbn. eauto.
Qed.

Lemma first_named_val w rk (R : SortReady w rk) name l i0 :
  (forall c, In (CElem c) l -> exists cn, w_nodes w c = Some cn /\ (rk c < rk i0)%nat) ->
  exists o, first_named_p w name l = Val o /\ forall c, o = Some c -> exists cn, w_nodes w c = Some cn.
Proof.
  induction l as [| [c | d] l IH]; intros K; cbn.
  - exists None. split; auto. discriminate.
  - destruct (K c (or_introl eq_refl)) as (cn & Wc & _). unfold nd. rewrite Wc. cbn.
    destruct (n_name cn =? name).
    + exists (Some c). split; auto. intros ? [= <-]. eauto.
    + apply IH. intros. apply K. right; auto.
  - apply IH. intros. apply K. right; auto.
Qed.

Lemma sub_cdata_val w rk (R : SortReady w rk) i n name : w_nodes w i = Some n -> exists o, sub_cdata T w n name = Val o.
Proof.
  intros Wi. pose proof (R i n Wi) as Rn. unfold sub_cdata.
  destruct (first_named_val w rk R name (n_content n) i) as (o & -> & Ho).
  { intros c ic. destruct (nr_kids _ _ _ _ Rn c ic) as (cn & Wc & lt & _). eauto. }
  cbn. destruct o as [c |]; [| eauto].
  destruct (Ho c eq_refl) as (cn & Wc). unfold nd. rewrite Wc. cbn. eapply character_data_val. apply (R c cn Wc).
Qed.

Lemma node_keys_val w rk (R : SortReady w rk) i n : w_nodes w i = Some n ->
  exists k, node_keys T tab_el tab_en name_index name_definition_ref w n = Val k.
Proof.
  intros Wi. pose proof (R i n Wi) as Rn. unfold node_keys.
  destruct (to_str tab_el (n_name n)) eqn:E; [| destruct (nr_name _ _ _ _ Rn E)]. cbn.
  unfold index_key. destruct (sub_cdata_val w rk R i n name_index Wi) as [o1 ->]. cbn.
  assert (exists o, item_name_p T w n = Val o) as [o2 ->].
  { unfold item_name_p. destruct (nr_named _ _ _ _ Rn) as [b ->]. cbn. destruct b; cbn; [| eauto].
    destruct (n_content n) as [| [s | d] rest] eqn:Ec; eauto.
    destruct (nr_kids _ _ _ _ Rn s) as (sn & Ws & _); [rewrite Ec; left; auto |].
    unfold nd. rewrite Ws. cbn. destruct (n_name sn =? name_short_name T); [| eauto].
    destruct (character_data_val w rk s sn (R s sn Ws)) as [o ->]. cbn. eauto. }
  cbn. unfold defref_key. destruct (sub_cdata_val w rk R i n name_definition_ref Wi) as [o3 ->]. cbn.
  assert (exists o, dest_key T tab_en n = Val o) as [o4 ->].
  { unfold dest_key, attr_value. destruct (find (fun a => fst a =? attr_dest T) (n_attrs n)) as [[an v] |] eqn:Ef; cbn; [| eauto].
    apply find_some in Ef as [ia _]. destruct (nr_attrs _ _ _ _ Rn _ ia) as [_ nv]. cbn in nv.
    destruct v; eauto. cbn in nv. destruct (to_str tab_en item); [cbn; eauto | congruence]. }
  cbn. eauto.
Qed.

Lemma cdata_cmp_val a b : cdata_named a -> cdata_named b -> exists c, cdata_cmp tab_en policy_cur a b = Val c.
Proof.
  destruct a, b; cbn; eauto. intros ha hb.
  destruct (to_str tab_en item); [| congruence]. destruct (to_str tab_en item0); [| congruence]. cbn. eauto.
Qed.

Lemma slice_cmp_val {A} (ec : A -> A -> res comparison) x : forall y,
  (forall i j, In i x -> In j y -> exists c, ec i j = Val c) -> exists c, slice_cmp ec x y = Val c.
Proof.
  induction x as [| i x IH]; intros [| j y] H; cbn; eauto.
  destruct (H i j (or_introl eq_refl) (or_introl eq_refl)) as [c ->]. cbn.
  destruct c; eauto; apply IH; intros; apply H; right; auto.
Qed.

Lemma cmp_f_val w rk (R : SortReady w rk) f : forall a b na nb,
  w_nodes w a = Some na -> w_nodes w b = Some nb -> (rk a < f)%nat -> exists c, cmp_f' w f a b = Val c.
Proof.
  induction f as [| f IH]; intros a b na nb Wa Wb lt; [lia |].
  cbn [cmp_f]. unfold nd. rewrite Wa, Wb. cbn.
  destruct (node_keys_val w rk R a na Wa) as [ka ->]. destruct (node_keys_val w rk R b nb Wb) as [kb ->]. cbn.
  destruct (head_stages policy_cur ka kb); [eauto |].
  pose proof (R a na Wa) as Ra. pose proof (R b nb Wb) as Rb.
  destruct (slice_cmp_val (item_cmp tab_en policy_cur (cmp_f' w f)) (n_content na) (n_content nb)) as [cc ->].
  { intros i j ii ij. destruct i as [x | d], j as [y | e]; cbn; eauto.
    - destruct (nr_kids _ _ _ _ Ra x ii) as (xn & Wx & ltx & _). destruct (nr_kids _ _ _ _ Rb y ij) as (yn & Wy & _).
      eapply IH; eauto. lia.
    - apply cdata_cmp_val; [apply (nr_data _ _ _ _ Ra) | apply (nr_data _ _ _ _ Rb)]; auto. }
  cbn.
  destruct (slice_cmp_val (attr_cmp tab_at tab_en policy_cur) (n_attrs na) (n_attrs nb)) as [ac ->]; [| cbn; eauto].
  intros i j ii ij. unfold attr_cmp.
  destruct (nr_attrs _ _ _ _ Ra i ii) as [n1 v1]. destruct (nr_attrs _ _ _ _ Rb j ij) as [n2 v2].
  destruct (to_str tab_at (fst i)); [| congruence]. destruct (to_str tab_at (fst j)); [| congruence]. cbn.
  destruct (cdata_cmp_val (snd i) (snd j) v1 v2) as [c ->]. cbn. eauto.
Qed.

Definition rank_bounded (w : world) (rk : id -> nat) : Prop := forall i, (rk i <= N.to_nat (w_next w))%nat.

Lemma all_pairs_val_ok w rk (R : SortReady w rk) (B : rank_bounded w rk) xs ys :
  (forall x, In x xs -> exists n, w_nodes w x = Some n) -> (forall y, In y ys -> exists n, w_nodes w y = Some n) ->
  all_pairs_val T tab_el tab_at tab_en name_index name_definition_ref w xs ys = Val tt.
Proof.
  intros Hx Hy. induction xs as [| x xs IH]; cbn [all_pairs_val]; auto.
  assert (row : row_val T tab_el tab_at tab_en name_index name_definition_ref w x ys = Val tt).
  { destruct (Hx x (or_introl eq_refl)) as [nx Wx]. clear IH.
    induction ys as [| y ys IHy]; cbn [row_val]; auto.
    destruct (Hy y (or_introl eq_refl)) as [ny Wy].
    assert (exists c, cmp_p' w x y = Val c) as [c ->].
    { unfold cmp_p. eapply cmp_f_val; eauto. pose proof (B x). lia. }
    cbn [bind]. apply IHy. intros. apply Hy. right; auto. }
  rewrite row. cbn [bind]. apply IH. intros. apply Hx. right; auto.
Qed.

Definition total_ok (rec : id -> W unit) (rk : id -> nat) (bound : nat) : Prop :=
  forall c w, SortReady w rk -> rank_bounded w rk -> (rk c < bound)%nat -> (exists n, w_nodes w c = Some n) ->
    exists w', rec c w = Val (OK tt, w').

Lemma keyed_loop_total rec rk bound (Fr : frame_ok rec) (Tt : total_ok rec rk bound) ty l :
  forall w, SortReady w rk -> rank_bounded w rk ->
    (forall c, In (CElem c) l -> exists cn, w_nodes w c = Some cn /\ (rk c < bound)%nat /\
                 exists et idx, find_sub_element T ty (n_name cn) MAXV = Val (Some (et, idx))) ->
    exists keyed w', keyed_loop T rec ty l w = Val (OK keyed, w').
Proof.
  induction l as [| it l IH]; intros w R B K; cbn [keyed_loop]; [unfold wret; eauto |].
  destruct it as [c | d]; [| apply IH; auto; intros; apply K; right; auto].
  destruct (K c (or_introl eq_refl)) as (cn & Wc & lt & et & idx & F).
  destruct (Tt c w R B lt (ex_intro _ cn Wc)) as [w1 E1].
  unfold wbind at 1. rewrite E1.
  pose proof (Fr _ _ _ _ E1) as [_ R1]. pose proof (SortReady_rel _ _ _ R1 R) as R'.
  assert (B' : rank_bounded w1 rk) by (intros j; destruct R1 as (-> & _); apply B).
  destruct R1 as (_ & _ & _ & nodes). pose proof (nodes c) as hc. rewrite Wc in hc.
  destruct (w_nodes w1 c) as [cn1 |] eqn:Wc1; [| destruct hc].
  unfold wbind at 1, get_node. rewrite Wc1.
  unfold wbind at 1, wl, wlift. destruct hc as [(_ & en & _) _]. rewrite en. unfold MAXV in F. rewrite F.
  destruct (IH w1 R' B') as (keyed & w2 & E2).
  { intros c' ic'. destruct (K c' (or_intror ic')) as (cn' & Wc' & lt' & et' & idx' & F').
    pose proof (nodes c') as h. rewrite Wc' in h. destruct (w_nodes w1 c') as [cn1' |]; [| destruct h].
    exists cn1'. split; auto. split; auto. destruct h as [(_ & en' & _) _]. rewrite en'. eauto. }
  unfold wbind. rewrite E2. unfold wret. eauto.
Qed.

Lemma iter_loop_total rec rk bound (Fr : frame_ok rec) (Tt : total_ok rec rk bound) l :
  forall w, SortReady w rk -> rank_bounded w rk ->
    (forall c, In (CElem c) l -> exists cn, w_nodes w c = Some cn /\ (rk c < bound)%nat) ->
    exists w', iter_loop rec l w = Val (OK tt, w').
Proof.
  induction l as [| it l IH]; intros w R B K; cbn [iter_loop]; [unfold wret; eauto |].
  destruct it as [c | d]; [| apply IH; auto; intros; apply K; right; auto].
  destruct (K c (or_introl eq_refl)) as (cn & Wc & lt).
  destruct (Tt c w R B lt (ex_intro _ cn Wc)) as [w1 E1].
  unfold wbind. rewrite E1.
  pose proof (Fr _ _ _ _ E1) as [_ R1]. pose proof (SortReady_rel _ _ _ R1 R) as R'.
  assert (B' : rank_bounded w1 rk) by (intros j; destruct R1 as (-> & _); apply B).
  apply IH; auto.
  intros c' ic'. destruct (K c' (or_intror ic')) as (cn' & Wc' & lt').
  destruct R1 as (_ & _ & _ & nodes). pose proof (nodes c') as h. rewrite Wc' in h.
  destruct (w_nodes w1 c') as [cn1' |]; [| destruct h]. eauto.
Qed.

Lemma sort_total rk f : total_ok (sort_f' f) rk f.
Proof.
  induction f as [| f IH]; intros i w R B lt [n Wi]; [lia |].
  pose proof (R i n Wi) as Rn.
  cbn [sort_f]. unfold wbind at 1, get_node. rewrite Wi.
  destruct (nr_mode _ _ _ _ Rn) as [mode Hm]. unfold wbind at 1, wl, wlift. rewrite Hm.
  destruct ((mode =? MCharacters) || (mode =? MMixed)); [unfold wret; eauto |].
  destruct (nr_ordered _ _ _ _ Rn) as [ordered Ho]. unfold wbind at 1. rewrite Ho.
  assert (IH' : total_ok (sort_f' f) rk (rk i)).
  { intros c w0 R0 B0 lt0 A0. apply IH; auto. lia. }
  destruct (negb ordered && (1 <? N.of_nat (List.length (n_content n)))).
  - destruct (keyed_loop_total (sort_f' f) rk (rk i) (sort_frame f) IH' (n_type n) (n_content n) w R B) as (keyed & w1 & E1).
    { intros c ic. destruct (nr_kids _ _ _ _ Rn c ic) as (cn & Wc & ltc & F). eauto. }
    unfold wbind at 1. rewrite E1.
    pose proof (keyed_loop_frame _ _ _ (sort_frame f) _ _ _ E1) as (R1 & keyed' & Ek & Hk). injection Ek as <-.
    pose proof (SortReady_rel _ _ _ R1 R) as R'.
    assert (B' : rank_bounded w1 rk) by (intros j; destruct R1 as (-> & _); apply B).
    unfold wbind at 1, wget.
    assert (A1 : forall x, In x (map snd keyed) -> exists nx, w_nodes w1 x = Some nx).
    { intros x ix. rewrite Hk in ix. apply in_celems in ix. destruct (nr_kids _ _ _ _ Rn x ix) as (xn & Wx & _).
      destruct R1 as (_ & _ & _ & nodes). pose proof (nodes x) as h. rewrite Wx in h.
      destruct (w_nodes w1 x); [eauto | destruct h]. }
    unfold wbind at 1, wl, wlift. rewrite (all_pairs_val_ok w1 rk R' B' _ _ A1 A1).
    unfold modify_node, wbind, get_node.
    destruct R1 as (_ & _ & _ & nodes). pose proof (nodes i) as h. rewrite Wi in h.
    destruct (w_nodes w1 i); [| destruct h]. unfold set_node. eauto.
  - apply (iter_loop_total (sort_f' f) rk (rk i) (sort_frame f) IH'); auto.
    intros c ic. destruct (nr_kids _ _ _ _ Rn c ic) as (cn & Wc & ltc & _). eauto.
Qed.

End Heap.
