(* Tree/FilesProofsBase.v — C10 proofs, layer 0: sets, effective membership, reachability. *)
From Coq Require Import PeanoNat Arith Lia.
From AV Require Import Base.Bytes Base.Outcome Hash.HashModel Tree.Heap Tree.Ops Tree.Script Tree.Serialize
  Tree.Inv Tree.InvProofsBase Tree.InvProofsCore Tree.InvProofsTree Tree.Files.
Open Scope string_scope.
Open Scope list_scope.
Open Scope N_scope.

(* ------------------------------------------------------------------ sets *)
Lemma is_empty_nil {A} (l : list A) : is_empty l = true <-> l = [].
Proof. destruct l; cbn; split; congruence. Qed.
Lemma is_empty_false {A} (l : list A) : is_empty l = false <-> l <> [].
Proof. destruct l; cbn; split; congruence. Qed.

Lemma set_mem_in x l : set_mem x l = true <-> In x l.
Proof.
  unfold set_mem. rewrite existsb_exists. split.
  - intros (y & Hy & E). apply N.eqb_eq in E. subst. exact Hy.
  - intros H. exists x. split; auto. apply N.eqb_refl.
Qed.
Lemma set_mem_false x l : set_mem x l = false <-> ~ In x l.
Proof. rewrite <- set_mem_in. destruct (set_mem x l); split; congruence. Qed.

Lemma set_add_in x y l : In y (set_add x l) <-> y = x \/ In y l.
Proof.
  induction l as [|z l IH]; cbn.
  - intuition.
  - destruct (x <? z) eqn:E1; cbn; [intuition|].
    destruct (x =? z) eqn:E2; cbn.
    + apply N.eqb_eq in E2. subst. intuition.
    + rewrite IH. intuition.
Qed.
Lemma set_add_nonempty x l : set_add x l <> [].
Proof. intros H. assert (In x (set_add x l)) by (apply set_add_in; auto). rewrite H in H0. destruct H0. Qed.

Lemma set_remove_in x y l : In y (set_remove x l) <-> y <> x /\ In y l.
Proof.
  unfold set_remove. rewrite filter_In. split.
  - intros (H & E). split; auto. apply Bool.negb_true_iff in E. apply N.eqb_neq in E. exact E.
  - intros (H & E). split; auto. apply Bool.negb_true_iff. apply N.eqb_neq. exact H.
Qed.
Lemma set_remove_idem x l : set_remove x (set_remove x l) = set_remove x l.
Proof.
  unfold set_remove. induction l as [|y l IH]; cbn; auto.
  destruct (negb (y =? x)) eqn:E; cbn; rewrite ?E, IH; auto.
Qed.
Lemma set_remove_incl x l : incl (set_remove x l) l.
Proof. intros y H. apply set_remove_in in H. tauto. Qed.
Lemma set_remove_mono x a b : incl a b -> incl (set_remove x a) (set_remove x b).
Proof. intros H y Hy. apply set_remove_in in Hy as (? & ?). apply set_remove_in. auto. Qed.
Lemma set_remove_notin x l : ~ In x l -> set_remove x l = l.
Proof.
  unfold set_remove. induction l as [|y l IH]; cbn; auto. intros H.
  destruct (y =? x) eqn:E; cbn.
  - apply N.eqb_eq in E. subst. exfalso. auto.
  - f_equal. auto.
Qed.

Lemma subset_incl a b : subset a b = true <-> incl a b.
Proof.
  unfold subset. rewrite forallb_forall. split; intros H x Hx.
  - apply set_mem_in. auto.
  - apply set_mem_in. auto.
Qed.

Lemma passes_some f n : passes (Some f) n = true <-> n_files n = [] \/ In f (n_files n).
Proof.
  cbn. rewrite Bool.orb_true_iff, is_empty_nil, set_mem_in. tauto.
Qed.

(* ------------------------------------------------------------------ effective membership *)
Lemma Eff_fun w i s : Eff w i s -> forall s', Eff w i s' -> s = s'.
Proof.
  induction 1 as [i n Hn Hf | i n p s Hn Hf Hp He IH]; intros s' H'.
  - destruct H' as [i n' Hn' Hf' | i n' p' s' Hn' Hf' Hp' He']; [congruence|].
    rewrite Hn in Hn'. injection Hn' as <-. contradiction.
  - destruct H' as [i n' Hn' Hf' | i n' p' s' Hn' Hf' Hp' He'].
    + rewrite Hn in Hn'. injection Hn' as <-. contradiction.
    + rewrite Hn in Hn'. injection Hn' as <-. rewrite Hp in Hp'. injection Hp' as <-. auto.
Qed.

Lemma Eff_up_inv w i n s : Eff w i s -> w_nodes w i = Some n -> n_files n = [] -> exists p, n_parent n = PElem p /\ Eff w p s.
Proof.
  intros H Hn Hf. destruct H as [i n' Hn' Hne | i n' p s Hn' Hf' Hp He].
  - rewrite Hn in Hn'. injection Hn' as <-. contradiction.
  - rewrite Hn in Hn'. injection Hn' as <-. eauto.
Qed.
Lemma Eff_local_inv w i n s : Eff w i s -> w_nodes w i = Some n -> n_files n <> [] -> s = n_files n.
Proof.
  intros H Hn Hf. destruct H as [i n' Hn' Hne | i n' p s Hn' Hf' Hp He].
  - rewrite Hn in Hn'. injection Hn' as <-. reflexivity.
  - rewrite Hn in Hn'. injection Hn' as <-. contradiction.
Qed.

Lemma Eff_nonempty w i s : Eff w i s -> s <> [].
Proof. induction 1; auto. Qed.

Lemma Eff_alloc w i s : Eff w i s -> allocated w i.
Proof. destruct 1; eexists; eauto. Qed.

(* the set is the local set of i or of one of its ancestors *)
Lemma Eff_owner w i s : Eff w i s -> exists a n, AncS w a i /\ w_nodes w a = Some n /\ n_files n = s /\ s <> [].
Proof.
  induction 1 as [i n Hn Hf | i n p s Hn Hf Hp He IH].
  - exists i, n. repeat split; auto. constructor.
  - destruct IH as (a & na & Ha & Hna & Hs & Hne). exists a, na. repeat split; auto.
    eapply A_up; eauto. exists n; auto.
Qed.

Lemma eff_fuel_sound fuel w : forall i s, eff_fuel fuel w i = Some s -> Eff w i s.
Proof.
  induction fuel as [|fuel IH]; intros i s; cbn [eff_fuel]; [discriminate|].
  destruct (w_nodes w i) as [n|] eqn:Hn; [|discriminate].
  destruct (is_empty (n_files n)) eqn:E.
  - apply is_empty_nil in E. destruct (n_parent n) as [| |p] eqn:Hp; try discriminate.
    intros H. eapply Eff_up; eauto.
  - intros [= <-]. apply is_empty_false in E. constructor; auto.
Qed.

Lemma eff_fuel_mono fuel w i s : eff_fuel fuel w i = Some s -> forall fuel', (fuel <= fuel')%nat -> eff_fuel fuel' w i = Some s.
Proof.
  revert i. induction fuel as [|fuel IH]; intros i H fuel' Hle; [discriminate|].
  destruct fuel' as [|fuel']; [lia|]. cbn [eff_fuel] in *.
  destruct (w_nodes w i) as [n|]; [|discriminate].
  destruct (is_empty (n_files n)); auto.
  destruct (n_parent n); try discriminate. apply IH; auto. lia.
Qed.

(* with h parent links above i, fuel h+1 is enough *)
Lemma eff_fuel_complete w i s : Eff w i s -> forall h, Depth w i h -> eff_fuel (S h) w i = Some s.
Proof.
  induction 1 as [i n Hn Hf | i n p s Hn Hf Hp He IH]; intros h Hd; cbn [eff_fuel]; rewrite Hn.
  - apply is_empty_false in Hf. rewrite Hf. reflexivity.
  - apply is_empty_nil in Hf. rewrite Hf, Hp.
    destruct Hd as [i n' Hn' Ht | i n' p' h Hn' Hp' Hd].
    + exfalso. rewrite Hn in Hn'. injection Hn' as <-. eapply Ht; eauto.
    + rewrite Hn in Hn'. injection Hn' as <-. rewrite Hp in Hp'. injection Hp' as <-. apply IH; auto.
Qed.

(* the executable eff agrees with the relation *)
Lemma eff_sound w i s : eff w i = Some s -> Eff w i s.
Proof. apply eff_fuel_sound. Qed.

Lemma eff_complete w i s : Core w -> Eff w i s -> eff w i = Some s.
Proof.
  intros C H. destruct (c_depth _ C i (Eff_alloc _ _ _ H)) as (h & Hd).
  pose proof (depth_bound _ _ _ C Hd) as B.
  eapply eff_fuel_mono; [eapply eff_fuel_complete; eauto|]. unfold fuel_of. lia.
Qed.

(* file_membership (the Rust walk) computes Eff *)
Lemma fm_walk_sound fuel w self : forall cur b s w',
  fm_walk fuel self cur w = Val (OK (b, s), w') -> w' = w /\ Eff w cur s.
Proof.
  induction fuel as [|fuel IH]; intros cur b s w' H; cbn [fm_walk] in H; [discriminate|].
  wstep H. winv E.
  destruct (negb (is_empty (n_files n))) eqn:Ef.
  - winv H. split; auto. constructor; auto. apply Bool.negb_true_iff in Ef. apply is_empty_false in Ef. exact Ef.
  - apply Bool.negb_false_iff, is_empty_nil in Ef.
    wstep H. unfold parent_of in E. destruct (n_parent n) as [| |p] eqn:Hp.
    + winv E.
    + winv E. winv H.
    + winv E. apply IH in H as (-> & He). split; auto. eapply Eff_up; eauto.
Qed.

Lemma file_membership_sound i w b s w' : file_membership i w = Val (OK (b, s), w') -> w' = w /\ Eff w i s.
Proof.
  unfold file_membership. intros H. wstep H. winv E. eapply fm_walk_sound; eauto.
Qed.

Lemma fm_walk_flag fuel w self : forall cur s w',
  fm_walk fuel self cur w = Val (OK (true, s), w') -> exists n, w_nodes w self = Some n /\ n_files n = s /\ s <> [].
Proof.
  induction fuel as [|fuel IH]; intros cur s w' H; cbn [fm_walk] in H; [discriminate|].
  wstep H. winv E.
  destruct (negb (is_empty (n_files n))) eqn:Ef.
  - apply wret_inv in H as (H & _). injection H as Hb Hs. symmetry in Hb. apply N.eqb_eq in Hb. subst cur s.
    exists n. repeat split; auto. apply Bool.negb_true_iff, is_empty_false in Ef. exact Ef.
  - wstep H. destruct a as [p|]; [eapply IH; eauto|winv H].
Qed.

Lemma file_membership_spec i w b s w' :
  file_membership i w = Val (OK (b, s), w') ->
  w' = w /\ Eff w i s /\ (b = true <-> exists n, w_nodes w i = Some n /\ n_files n <> []).
Proof.
  intros H. destruct (file_membership_sound _ _ _ _ _ H) as (-> & He). repeat split; auto.
  - intros ->. unfold file_membership in H. wstep H. winv E.
    apply fm_walk_flag in H as (n & Hn & <- & Hne). eauto.
  - intros (n & Hn & Hne). unfold file_membership in H. wstep H. winv E.
    unfold fuel_of in H. cbn [fm_walk] in H. wstep H. winv E.
    rewrite Hn in Hn0. injection Hn0 as <-.
    apply is_empty_false in Hne. rewrite Hne in H. cbn in H.
    apply wret_inv in H as (H & _). injection H as Hb _. rewrite N.eqb_refl in Hb. auto.
Qed.
