(* Tree/InvProofsOp2Lift.v — C03: TreeInv, CharsLeaf, OriginsRef (= RealInv) and DF over the alphabet op2.
   sort / sort_model permute content lists; set_version, check_version_compatibility, serialize change no node but
   the xsi:schemaLocation attribute of the root: all four invariants are kept.
   pending_real2 = OpDuplicate, OpLoad (see Tree/InvProofsOp2Full.v for Core over OpLoad). *)
From Coq Require Import PeanoNat Arith Permutation Lia.
From AV Require Import Base.Bytes Base.Outcome Hash.HashModel Tree.Heap Tree.Ops Tree.Script Tree.Inv
  Tree.InvProofsBase Tree.InvProofsCore Tree.InvProofsTree Tree.InvProofsPrim Tree.InvProofsData Tree.InvProofsNav Tree.InvProofs
  Tree.InvProofsFrame Tree.InvProofsChars Tree.InvProofsChars5 Tree.InvProofsOrigins Tree.InvProofsOrigins3
  Tree.InvProofsReal Tree.InvProofsDetFiles Tree.InvProofsDetFilesMain Tree.InvProofsOp2.
From AV Require Import Tree.Sort Tree.SortProofsHeap Tree.SortProofsOrder Tree.SortProofsMain Tree.Copy Tree.Compat
  Tree.Serialize Tree.Script2 Tree.InvLoad.
Open Scope string_scope.
Open Scope list_scope.
Open Scope N_scope.

Definition pending_real2 (o : op2) : bool :=
  match o with OpDuplicate _ | OpLoad _ _ _ _ => true | _ => false end.

(* what a step may do to the four invariants: types kept, Characters leaves stay leaves, origins only shrink,
   parents and local file sets kept, content lists permuted *)
Record lift (T : tables) (w w' : world) : Prop := mkLift {
  lf_c : frame (cNR T) (cNN T) w w';
  lf_o : osub w w';
  lf_p : pframe w w';
  lf_t : ptree w w'
}.

Lemma lift_nodes_eq T w w' :
  (forall x, w_nodes w' x = w_nodes w x) -> w_next w' = w_next w -> w_models w' = w_models w -> lift T w w'.
Proof.
  intros Hn Hx Hm. constructor.
  - apply frame_nodes_eq; [apply cNR_refl|exact Hn].
  - apply osub_models. exact Hm.
  - apply frame_nodes_eq; [apply pfNR_refl|exact Hn].
  - split; auto. split; [unfold roots; rewrite Hm; auto|]. intros i. unfold skel. rewrite Hn.
    destruct (w_nodes w i); auto.
Qed.

Lemma lift_RealInv T w w' : lift T w w' -> RealInv T w -> RealInv T w'.
Proof.
  intros L ((C & O) & CL & OR). split; [split|split].
  - eapply Core_ptree; [apply L|exact C].
  - eapply NoOrphan_ptree; [apply L|exact O].
  - eapply CharsLeaf_frame; [apply L|exact CL].
  - eapply OriginsRef_orel; [apply L|apply orel_osub; apply L|exact OR].
Qed.
Lemma lift_DF T w w' : lift T w w' -> Core w -> DF w -> DF w'.
Proof. intros L C D. eapply DF_pframe; eauto. apply L. Qed.

Lemma ptree_same_tree w w' : same_tree w w' -> ptree w w'.
Proof.
  intros (Hn & Hr & Hs). split; auto. split; auto. intros i. rewrite Hs. destruct (skel w i) as [[p ks]|]; auto.
Qed.

Section Lift.
Variable T : tables.
Variable tab_el tab_at tab_en : nametab.
Variable check_fn : N -> list N -> res bool.
Variable float_parse : list N -> option N.
Variable float_fmt : N -> list N.
Variable LATEST name_index name_definition_ref attr_schema_location : N.
Variable root_attrs : list (N * cdata).

Notation run2 := (run_op2 T tab_el tab_at tab_en check_fn float_parse float_fmt LATEST name_index name_definition_ref
                          attr_schema_location root_attrs).

Lemma lift_world_rel w w' : world_rel T w w' -> lift T w w'.
Proof.
  intros WR. pose proof WR as (Hn & Hf & Hm & Hj). constructor.
  - split.
    + intros i Hi. specialize (Hj i). destruct (w_nodes w i), (w_nodes w' i); try contradiction; congruence.
    + intros i n' Hn'. specialize (Hj i). rewrite Hn' in Hj. destruct (w_nodes w i) as [n|]; [|contradiction].
      left. exists n. split; auto. destruct Hj as ((_ & _ & Ht & _) & Hc). split; auto.
      intros _ Hk. unfold kids in *. destruct Hc as [->|(_ & Hperm)]; auto.
      apply celems_perm in Hperm. rewrite celems_map in Hperm. rewrite !celems_elems in Hperm.
      rewrite Hk in Hperm. apply Permutation_nil in Hperm. exact Hperm.
  - apply osub_models. exact Hm.
  - split.
    + intros i Hi. specialize (Hj i). destruct (w_nodes w i), (w_nodes w' i); try contradiction; congruence.
    + intros i n' Hn'. specialize (Hj i). rewrite Hn' in Hj. destruct (w_nodes w i) as [n|]; [|contradiction].
      left. exists n. split; auto. destruct Hj as ((Hp & _ & _ & _ & Hfl & _) & _). split; auto.
  - apply world_rel_ptree with (T := T). exact WR.
Qed.

Theorem lift_step2 o w r w' :
  pending_real2 o = false -> (forall o1, o <> Op1 o1) -> run2 o w = Val (r, w') -> lift T w w'.
Proof.
  intros Hp Hn1 H. destruct o; try discriminate Hp; cbn [run_op2] in H.
  - exfalso. eapply Hn1; eauto.
  - apply wmap_inv in H as (r0 & H & _). unfold e_sort in H.
    apply (e_sort_frame T tab_el tab_at tab_en name_index name_definition_ref isort_poly StableSort_isort) in H as (_ & WR).
    apply lift_world_rel. exact WR.
  - apply wmap_inv in H as (r0 & H & _). unfold m_sort in H.
    apply (m_sort_frame T tab_el tab_at tab_en name_index name_definition_ref isort_poly StableSort_isort) in H as (_ & WR).
    apply lift_world_rel. exact WR.
  - apply wmap_inv in H as (r0 & H & _). unfold f_set_version in H.
    wstepn H ce Ec.
    + unfold f_check_version_compatibility in Ec. destruct (f_check T w f v); try discriminate. injection Ec as _ <-.
      destruct ce as [errs mask]. destruct (is_empty errs); [|winv H; apply lift_nodes_eq; auto].
      wstepn H x Ex; winv Ex. unfold set_file in H. injection H as _ <-. apply lift_nodes_eq; auto.
    + unfold f_check_version_compatibility in Ec. destruct (f_check T w f v); discriminate.
  - apply wbind_inv in H as [(a & w1 & H1 & H2) | (e & H1 & _)];
      unfold f_check_version_compatibility in H1; destruct (f_check T w f v); try discriminate.
    injection H1 as _ <-. destruct a. apply wret_inv in H2 as (_ & ->). apply lift_nodes_eq; auto.
  - apply wmap_inv in H as (r0 & H & _). unfold f_serialize in H.
    assert (L0 : lift T w w) by (apply lift_nodes_eq; auto).
    wrun_ro H ltac:(exact L0).
    wstepn H o Ea.
    destruct (ser_heap _ _ _ _ _ _ _ _ _ _ _) in H; try discriminate. injection H as _ <-.
    constructor.
    + eapply (frp_try _ _ _ (cfp_raw_set_attribute T check_fn _ _ _ _)); eauto.
    + eapply (osp_try _ (osp_raw_set_attribute T check_fn _ _ _ _)); eauto.
    + eapply (frp_try _ _ _ (pfp_raw_set_attribute T check_fn _ _ _ _)); eauto.
    + apply ptree_same_tree. apply wtry_inv in Ea as (r1 & Ea & _). eapply stp_raw_set_attribute; eauto.
  - apply wmap_inv in H as (r0 & H & _). unfold e_serialize in H.
    destruct (ser_heap _ _ _ _ _ _ _ _ _ _ _) in H; try discriminate. injection H as _ <-. apply lift_nodes_eq; auto.
Qed.

(* ---------- OpDuplicate: a successful duplicate is a sequence of steps that keep RealInv ---------- *)
Definition ROK {A} (m : W A) : Prop := forall w a w', RealInv T w -> m w = Val (OK a, w') -> RealInv T w'.

Lemma ROK_ro {A} (m : W A) : ro m -> ROK m.
Proof. intros H w a w' I E. apply H in E. subst. exact I. Qed.
Lemma ROK_bind {A B} (m : W A) (k : A -> W B) : ROK m -> (forall a, ROK (k a)) -> ROK (wbind m k).
Proof.
  intros Hm Hk w b w' I H. apply wbind_inv in H as [(a & w1 & H1 & H2) | (e & H1 & [=])].
  eapply Hk; [|exact H2]. eapply Hm; eauto.
Qed.
Lemma ROK_op1 (RC : RefChars T) {A} (m : W A) (g : A -> value) (o1 : op) :
  (forall w, run_op T tab_el tab_en check_fn LATEST root_attrs o1 w = (do a <- m; wret (g a))%W w) ->
  (forall w, Known_failed_reparent T tab_el tab_en check_fn LATEST root_attrs w o1 = true ->
             exists e w', m w = Val (ER e, w')) ->
  ROK m.
Proof.
  intros Hrun HK w a w' I E.
  eapply (RealInv_step T tab_el tab_en check_fn LATEST root_attrs o1 w (OK (g a)) w'); auto.
  - destruct (Known_failed_reparent T tab_el tab_en check_fn LATEST root_attrs w o1) eqn:EK; auto.
    destruct (HK _ EK) as (e & w0 & E0). congruence.
  - unfold Inv.run. rewrite Hrun. unfold wbind. rewrite E. reflexivity.
Qed.
Lemma ROK_lift {A} (m : W A) : (forall w r w', m w = Val (r, w') -> lift T w w') -> ROK m.
Proof. intros H w a w' I E. eapply lift_RealInv; [eapply H; eauto|exact I]. Qed.

Lemma lift_modify_keep i f :
  (forall n, n_parent (f n) = n_parent n /\ n_type (f n) = n_type n /\ n_files (f n) = n_files n /\ n_content (f n) = n_content n) ->
  forall w r w', modify_node i f w = Val (r, w') -> lift T w w'.
Proof.
  intros Hf w r w' H. apply modify_node_wset in H as (n & Hn & _ & ->). destruct (Hf n) as (Hp & Ht & Hfl & Hc).
  constructor.
  - eapply frame_wset; [apply cNR_refl|exact Hn|]. split; auto. intros _ Hk. unfold kids in *. rewrite Hc. auto.
  - apply osub_models. reflexivity.
  - eapply frame_wset; [apply pfNR_refl|exact Hn|]. split; auto.
  - apply ptree_same_tree. eapply st_wset; eauto. unfold kids. rewrite Hc. reflexivity.
Qed.

(* set_files on one node: everything RealInv looks at is kept *)
Lemma ROK_set_files i g : ROK (modify_node i (fun x => set_files x (g x))).
Proof.
  intros w a w' ((C & O) & CL & OR) H. apply modify_node_wset in H as (n & Hn & _ & ->).
  assert (S : same_tree w (wset w i (set_files n (g n)))) by (eapply st_wset; eauto; reflexivity).
  assert (F : frame (cNR T) (cNN T) w (wset w i (set_files n (g n)))).
  { eapply frame_wset; [apply cNR_refl|exact Hn|]. split; auto. }
  split; [split; [eapply Core_same_tree; eauto|eapply NoOrphan_same_tree; eauto]|split].
  - eapply CharsLeaf_frame; eauto.
  - eapply OriginsRef_orel; [exact F|apply orel_osub; apply osub_models; reflexivity|exact OR].
Qed.

Section Dup.
Hypothesis RC : RefChars T.

Lemma ROK_new_model : ROK (new_model T root_attrs).
Proof.
  apply (ROK_op1 RC _ VModel OpNewModel); [reflexivity|]. intros w HK. discriminate HK.
Qed.
Lemma ROK_create_file c name version : ROK (m_create_file T c name version).
Proof.
  apply (ROK_op1 RC _ VFile (OpCreateFile c name version)); [reflexivity|]. intros w HK. discriminate HK.
Qed.
Lemma ROK_copy h other : ROK (e_create_copied_sub_element T LATEST h other).
Proof.
  apply (ROK_op1 RC _ VElem (OpCopy h other)); [reflexivity|]. intros w HK.
  unfold Known_failed_reparent, Inv.run in HK. cbn [run_op] in HK. unfold welem in HK.
  destruct (e_create_copied_sub_element T LATEST h other w) as [[[a|e] w1]| |] eqn:E;
    unfold wbind in HK; rewrite E in HK; try discriminate HK. eauto.
Qed.

Lemma ROK_dup_files c : forall files fm, ROK (dup_files T c files fm).
Proof.
  induction files as [|f rest IH]; intros fm; cbn [dup_files]; [apply ROK_ro; ro_tac|].
  apply ROK_bind; [apply ROK_ro; ro_tac|]. intros fl.
  apply ROK_bind; [apply ROK_create_file|]. intros nf.
  apply ROK_bind; [apply ROK_ro; ro_tac|]. intros nfl.
  apply ROK_bind; [|intros _; apply IH].
  apply ROK_lift. intros w r w' H. unfold set_file in H. injection H as _ <-. apply lift_nodes_eq; auto.
Qed.
Lemma ROK_dup_children croot : forall items, ROK (dup_children T LATEST croot items).
Proof.
  induction items as [|[e|d] rest IH]; cbn [dup_children]; [apply ROK_ro; ro_tac | | exact IH].
  apply ROK_bind; [apply ROK_copy | intros; exact IH].
Qed.
Lemma ROK_dup_membership fm : forall oids cids, ROK (dup_membership fm oids cids).
Proof.
  induction oids as [|o orest IH]; intros cids; cbn [dup_membership]; [apply ROK_ro; ro_tac|].
  destruct cids as [|c crest]; [apply ROK_ro; ro_tac|].
  apply ROK_bind; [apply ROK_ro; ro_tac|]. intros on.
  apply ROK_bind; [apply ROK_ro; ro_tac|]. intros wq.
  apply ROK_bind; [apply (ROK_set_files c (fun _ => translate_files wq fm (n_files on)))|]. intros _. apply IH.
Qed.

Lemma ROK_duplicate_body m : ROK (m_duplicate_body T LATEST root_attrs m).
Proof.
  unfold m_duplicate_body.
  apply ROK_bind; [apply ROK_ro; ro_tac|]. intros x.
  apply ROK_bind; [apply ROK_new_model|]. intros c.
  apply ROK_bind; [apply ROK_ro; ro_tac|]. intros rn.
  apply ROK_bind; [apply ROK_ro; ro_tac|]. intros cx.
  apply ROK_bind; [apply ROK_lift; apply lift_modify_keep; intros n; repeat split|]. intros _.
  apply ROK_bind; [apply ROK_dup_files|]. intros fm.
  apply ROK_bind; [apply ROK_dup_children|]. intros _.
  apply ROK_bind; [apply ROK_ro; ro_tac|]. intros wq.
  apply ROK_bind; [apply ROK_ro; ro_tac|]. intros oids.
  apply ROK_bind; [apply ROK_ro; ro_tac|]. intros cids.
  apply ROK_bind; [apply ROK_dup_membership|]. intros _. apply ROK_ro. ro_tac.
Qed.

(* AutosarModel::duplicate that returns Ok keeps RealInv; a failing one drops the half-built copy (its nodes stay
   allocated with the parent link of a model that no longer exists): class Known_dup_failed *)
Theorem RealInv_duplicate_ok m w c w' :
  RealInv T w -> m_duplicate T tab_el tab_en check_fn LATEST root_attrs m w = Val (OK c, w') -> RealInv T w'.
Proof.
  intros I H. unfold m_duplicate in H.
  destruct (m_duplicate_body T LATEST root_attrs m w) as [[[c0|e] w1]| |] eqn:E; try discriminate H.
  injection H as _ <-. eapply ROK_duplicate_body; eauto.
Qed.
End Dup.

(* the classes on which RealInv can break: failed re-parenting (Op1 move / copy), a duplicate that fails half-way *)
Definition Known_failed_reparent2 (w : world) (o : op2) : bool :=
  match o with Op1 o1 => Known_failed_reparent T tab_el tab_en check_fn LATEST root_attrs w o1 | _ => false end.
Definition Known_dup_failed (w : world) (o : op2) : bool :=
  match o with
  | OpDuplicate _ => match run2 o w with Val (ER _, _) => true | _ => false end
  | _ => false
  end.
Definition Known_real2 (w : world) (o : op2) : bool := Known_failed_reparent2 w o || Known_dup_failed w o.

(* PARTIAL: pending_op2 = OpLoad *)
Theorem RealInv_step2_partial o w r w' :
  RefChars T -> RealInv T w -> pending_op2 o = false -> Known_real2 w o = false ->
  run2 o w = Val (r, w') -> RealInv T w'.
Proof.
  intros RC I Hp HK H. apply orb_false_iff in HK as (HK1 & HK2).
  destruct o as [o1| | |m0| | | | |]; try discriminate Hp;
    try (eapply lift_RealInv; [eapply lift_step2; eauto; [reflexivity|intros o1; discriminate]|exact I]).
  - cbn [run_op2] in H. apply wmap_inv in H as (r0 & H & _). eapply RealInv_step; eauto.
  - unfold Known_dup_failed in HK2. rewrite H in HK2. cbn [run_op2] in H.
    apply wmap_inv in H as (r0 & H & ->). destruct r0 as [c|e]; [|discriminate HK2].
    eapply RealInv_duplicate_ok; eauto.
Qed.

Theorem DF_step2_partial o w r w' :
  TreeInv w -> DF w -> pending_real2 o = false -> run2 o w = Val (r, w') -> DF w'.
Proof.
  intros I D Hp H. destruct o as [o1| | | | | | | |]; try (eapply lift_DF; [eapply lift_step2; eauto; intros o1; discriminate|apply I|exact D]).
  cbn [run_op2] in H. apply wmap_inv in H as (r0 & H & _). eapply DF_step; eauto.
Qed.

(* histories over op2 *)
Fixpoint clean_real_ops2 (l : list op2) (w : world) : bool :=
  match l with
  | [] => true
  | o :: r => negb (pending_op2 o) && negb (Known_real2 w o) &&
              match run2 o w with Val (_, w') => clean_real_ops2 r w' | _ => true end
  end.

Theorem RealInv_histories2_partial l : forall w w',
  RefChars T -> RealInv T w -> clean_real_ops2 l w = true ->
  run_ops2 T tab_el tab_at tab_en check_fn float_parse float_fmt LATEST name_index name_definition_ref
           attr_schema_location root_attrs l w = Val w' -> RealInv T w'.
Proof.
  induction l as [|o l IH]; intros w w' RC I Hc H; cbn [run_ops2 clean_real_ops2] in *.
  - injection H as <-. exact I.
  - apply andb_prop in Hc as (Hc1 & Hc). apply andb_prop in Hc1 as (Hp & Hk).
    apply negb_true_iff in Hp. apply negb_true_iff in Hk.
    destruct (run2 o w) as [[r w1]| |] eqn:E; try discriminate H.
    eapply IH; [exact RC| |exact Hc|exact H]. eapply RealInv_step2_partial; eauto.
Qed.

End Lift.
