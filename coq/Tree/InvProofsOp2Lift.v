(* Tree/InvProofsOp2Lift.v — C03: TreeInv, CharsLeaf, OriginsRef (= RealInv) and DF over the alphabet op2.
   sort / sort_model permute content lists; set_version, check_version_compatibility, serialize change no node but
   the xsi:schemaLocation attribute of the root: all four invariants are kept.
   pending_real2 = OpDuplicate, OpLoad (see Tree/InvProofsOp2Full.v for Core over OpLoad). *)
From Coq Require Import PeanoNat Arith Permutation Lia.
From AV Require Import Base.Bytes Base.Outcome Hash.HashModel Tree.Heap Tree.Ops Tree.Script Tree.Inv
  Tree.InvProofsBase Tree.InvProofsCore Tree.InvProofsTree Tree.InvProofsPrim Tree.InvProofsData Tree.InvProofs
  Tree.InvProofsFrame Tree.InvProofsChars Tree.InvProofsChars5 Tree.InvProofsOrigins Tree.InvProofsOrigins3
  Tree.InvProofsReal Tree.InvProofsDetFiles Tree.InvProofsDetFilesMain Tree.InvProofsOp2.
From AV Require Import Tree.Sort Tree.SortProofsHeap Tree.SortProofsOrder Tree.SortProofsMain Tree.Copy Tree.Compat
  Tree.Serialize Tree.Script2 Tree.InvLoad.
Open Scope string_scope.
Open Scope list_scope.
Open Scope N_scope.

Definition pending_real2 (o : op2) : bool :=
  match o with OpDuplicate _ | OpLoad _ _ _ _ => true | _ => false end.

(* what a step may do to the four invariants: types kept, Characters leaves stay leaves, origins only shrink,
   parents and local file sets kept, content lists permuted *)
Record lift (T : tables) (w w' : world) : Prop := mkLift {
  lf_c : frame (cNR T) (cNN T) w w';
  lf_o : osub w w';
  lf_p : pframe w w';
  lf_t : ptree w w'
}.

Lemma lift_nodes_eq T w w' :
  (forall x, w_nodes w' x = w_nodes w x) -> w_next w' = w_next w -> w_models w' = w_models w -> lift T w w'.
Proof.
  intros Hn Hx Hm. constructor.
  - apply frame_nodes_eq; [apply cNR_refl|exact Hn].
  - apply osub_models. exact Hm.
  - apply frame_nodes_eq; [apply pfNR_refl|exact Hn].
  - split; auto. split; [unfold roots; rewrite Hm; auto|]. intros i. unfold skel. rewrite Hn.
    destruct (w_nodes w i); auto.
Qed.

Lemma lift_RealInv T w w' : lift T w w' -> RealInv T w -> RealInv T w'.
Proof.
  intros L ((C & O) & CL & OR). split; [split|split].
  - eapply Core_ptree; [apply L|exact C].
  - eapply NoOrphan_ptree; [apply L|exact O].
  - eapply CharsLeaf_frame; [apply L|exact CL].
  - eapply OriginsRef_orel; [apply L|apply orel_osub; apply L|exact OR].
Qed.
Lemma lift_DF T w w' : lift T w w' -> Core w -> DF w -> DF w'.
Proof. intros L C D. eapply DF_pframe; eauto. apply L. Qed.

Lemma ptree_same_tree w w' : same_tree w w' -> ptree w w'.
Proof.
  intros (Hn & Hr & Hs). split; auto. split; auto. intros i. rewrite Hs. destruct (skel w i) as [[p ks]|]; auto.
Qed.

Section Lift.
Variable T : tables.
Variable tab_el tab_at tab_en : nametab.
Variable check_fn : N -> list N -> res bool.
Variable float_parse : list N -> option N.
Variable float_fmt : N -> list N.
Variable LATEST name_index name_definition_ref attr_schema_location : N.
Variable root_attrs : list (N * cdata).

Notation run2 := (run_op2 T tab_el tab_at tab_en check_fn float_parse float_fmt LATEST name_index name_definition_ref
                          attr_schema_location root_attrs).

Lemma lift_world_rel w w' : world_rel T w w' -> lift T w w'.
Proof.
  intros WR. pose proof WR as (Hn & Hf & Hm & Hj). constructor.
  - split.
    + intros i Hi. specialize (Hj i). destruct (w_nodes w i), (w_nodes w' i); try contradiction; congruence.
    + intros i n' Hn'. specialize (Hj i). rewrite Hn' in Hj. destruct (w_nodes w i) as [n|]; [|contradiction].
      left. exists n. split; auto. destruct Hj as ((_ & _ & Ht & _) & Hc). split; auto.
      intros _ Hk. unfold kids in *. destruct Hc as [->|(_ & Hperm)]; auto.
      apply celems_perm in Hperm. rewrite celems_map in Hperm. rewrite !celems_elems in Hperm.
      rewrite Hk in Hperm. apply Permutation_nil in Hperm. exact Hperm.
  - apply osub_models. exact Hm.
  - split.
    + intros i Hi. specialize (Hj i). destruct (w_nodes w i), (w_nodes w' i); try contradiction; congruence.
    + intros i n' Hn'. specialize (Hj i). rewrite Hn' in Hj. destruct (w_nodes w i) as [n|]; [|contradiction].
      left. exists n. split; auto. destruct Hj as ((Hp & _ & _ & _ & Hfl & _) & _). split; auto.
  - apply world_rel_ptree with (T := T). exact WR.
Qed.

Theorem lift_step2 o w r w' :
  pending_real2 o = false -> (forall o1, o <> Op1 o1) -> run2 o w = Val (r, w') -> lift T w w'.
Proof.
  intros Hp Hn1 H. destruct o; try discriminate Hp; cbn [run_op2] in H.
  - exfalso. eapply Hn1; eauto.
  - apply wmap_inv in H as (r0 & H & _). unfold e_sort in H.
    apply (e_sort_frame T tab_el tab_at tab_en name_index name_definition_ref isort_poly StableSort_isort) in H as (_ & WR).
    apply lift_world_rel. exact WR.
  - apply wmap_inv in H as (r0 & H & _). unfold m_sort in H.
    apply (m_sort_frame T tab_el tab_at tab_en name_index name_definition_ref isort_poly StableSort_isort) in H as (_ & WR).
    apply lift_world_rel. exact WR.
  - apply wmap_inv in H as (r0 & H & _). unfold f_set_version in H.
    wstepn H ce Ec.
    + unfold f_check_version_compatibility in Ec. destruct (f_check T w f v); try discriminate. injection Ec as _ <-.
      destruct ce as [errs mask]. destruct (is_empty errs); [|winv H; apply lift_nodes_eq; auto].
      wstepn H x Ex; winv Ex. unfold set_file in H. injection H as _ <-. apply lift_nodes_eq; auto.
    + unfold f_check_version_compatibility in Ec. destruct (f_check T w f v); discriminate.
  - apply wbind_inv in H as [(a & w1 & H1 & H2) | (e & H1 & _)];
      unfold f_check_version_compatibility in H1; destruct (f_check T w f v); try discriminate.
    injection H1 as _ <-. destruct a. apply wret_inv in H2 as (_ & ->). apply lift_nodes_eq; auto.
  - apply wmap_inv in H as (r0 & H & _). unfold f_serialize in H.
    assert (L0 : lift T w w) by (apply lift_nodes_eq; auto).
    wrun_ro H ltac:(exact L0).
    wstepn H o Ea.
    destruct (ser_heap _ _ _ _ _ _ _ _ _ _ _) in H; try discriminate. injection H as _ <-.
    constructor.
    + eapply (frp_try _ _ _ (cfp_raw_set_attribute T check_fn _ _ _ _)); eauto.
    + eapply (osp_try _ (osp_raw_set_attribute T check_fn _ _ _ _)); eauto.
    + eapply (frp_try _ _ _ (pfp_raw_set_attribute T check_fn _ _ _ _)); eauto.
    + apply ptree_same_tree. apply wtry_inv in Ea as (r1 & Ea & _). eapply stp_raw_set_attribute; eauto.
  - apply wmap_inv in H as (r0 & H & _). unfold e_serialize in H.
    destruct (ser_heap _ _ _ _ _ _ _ _ _ _ _) in H; try discriminate. injection H as _ <-. apply lift_nodes_eq; auto.
Qed.

(* only failed re-parenting (Op1 move / copy) breaks the invariant *)
Definition Known_failed_reparent2 (w : world) (o : op2) : bool :=
  match o with Op1 o1 => Known_failed_reparent T tab_el tab_en check_fn LATEST root_attrs w o1 | _ => false end.

Theorem RealInv_step2_partial o w r w' :
  RefChars T -> RealInv T w -> pending_real2 o = false -> Known_failed_reparent2 w o = false ->
  run2 o w = Val (r, w') -> RealInv T w'.
Proof.
  intros RC I Hp HK H. destruct o as [o1| | | | | | | |]; try (eapply lift_RealInv; [eapply lift_step2; eauto; intros o1; discriminate|exact I]).
  cbn [run_op2] in H. apply wmap_inv in H as (r0 & H & _). eapply RealInv_step; eauto.
Qed.

Theorem DF_step2_partial o w r w' :
  TreeInv w -> DF w -> pending_real2 o = false -> run2 o w = Val (r, w') -> DF w'.
Proof.
  intros I D Hp H. destruct o as [o1| | | | | | | |]; try (eapply lift_DF; [eapply lift_step2; eauto; intros o1; discriminate|apply I|exact D]).
  cbn [run_op2] in H. apply wmap_inv in H as (r0 & H & _). eapply DF_step; eauto.
Qed.

(* histories over op2 *)
Fixpoint clean_real_ops2 (l : list op2) (w : world) : bool :=
  match l with
  | [] => true
  | o :: r => negb (pending_real2 o) && negb (Known_failed_reparent2 w o) &&
              match run2 o w with Val (_, w') => clean_real_ops2 r w' | _ => true end
  end.

Theorem RealInv_histories2_partial l : forall w w',
  RefChars T -> RealInv T w -> clean_real_ops2 l w = true ->
  run_ops2 T tab_el tab_at tab_en check_fn float_parse float_fmt LATEST name_index name_definition_ref
           attr_schema_location root_attrs l w = Val w' -> RealInv T w'.
Proof.
  induction l as [|o l IH]; intros w w' RC I Hc H; cbn [run_ops2 clean_real_ops2] in *.
  - injection H as <-. exact I.
  - apply andb_prop in Hc as (Hc1 & Hc). apply andb_prop in Hc1 as (Hp & Hk).
    apply negb_true_iff in Hp. apply negb_true_iff in Hk.
    destruct (run2 o w) as [[r w1]| |] eqn:E; try discriminate H.
    eapply IH; [exact RC| |exact Hc|exact H]. eapply RealInv_step2_partial; eauto.
Qed.

End Lift.
