(* Tree/FailTables.v — C11: the assumption tables_ok11 on the specification tables.
     check11_ty      a boolean test of one data type (version independent)
     check11_sound   if every data type passes, tables_ok11 holds
     real_tables_ok11  [F] the generated tables (Spec/SpecReal.v, RT) satisfy tables_ok11: swept over all data types by
                     vm_compute; types outside the table have no entry (PositiveMap.elements). *)
From Coq Require Import Lia FMapPositive.
From AV Require Import Base.Bytes Base.Outcome Hash.HashModel Tree.Heap Tree.Ops Tree.Script Tree.Fail Spec.SpecReal.
Open Scope list_scope.
Open Scope N_scope.

Section Check.
Variable T : tables.

Definition check11_ty (ty : N) : bool :=
  match short_name_version_mask T ty with
  | Val (Some _) =>
    match sub_slice T ty with
    | Val (start, _, d) =>
      negb (dt_mode d =? MCharacters) &&
      match subel T start with
      | Val (_, idx) =>
        match elem T idx with
        | Val e => match short_name_version_mask T (ed_type e) with Val None => true | _ => false end
        | _ => false
        end
      | _ => false
      end
    | _ => false
    end
  | _ => true
  end.

Lemma check11_sound : (forall ty, check11_ty ty = true) -> tables_ok11 T.
Proof.
  intros HC et version se idx Hnamed Hfind. specialize (HC (snd et)). unfold check11_ty in HC.
  unfold is_named_in_version in Hnamed.
  destruct (short_name_version_mask T (snd et)) as [[mask|]| |] eqn:Em; cbn in Hnamed; try discriminate Hnamed.
  injection Hnamed as Hnamed. apply Bool.negb_true_iff in Hnamed.
  (* open the definition of the mask *)
  unfold short_name_version_mask in Em.
  destruct (sub_slice T (snd et)) as [[[start stop] d]| |] eqn:Es; cbn in Em; try discriminate Em.
  destruct (start =? stop) eqn:Ess; [discriminate Em|].
  destruct (subel T start) as [[kind ix]| |] eqn:Esub; cbn in Em; try discriminate Em.
  destruct (kind =? 0) eqn:Ek; [|discriminate Em].
  destruct (elem T ix) as [e| |] eqn:Ee; cbn in Em; try discriminate Em.
  destruct (ed_name e =? name_short_name T) eqn:En; [|discriminate Em].
  destruct (vinfo T (dt_sub_ver d)) as [mk| |] eqn:Ev; cbn in Em; try discriminate Em. injection Em as ->.
  apply andb_true_iff in HC as (Hmode & Hse).
  destruct (short_name_version_mask T (ed_type e)) as [[m2|]| |] eqn:Em2; try discriminate Hse.
  split.
  - unfold content_mode. unfold sub_slice in Es.
    destruct (dt T (snd et)) as [d0| |]; cbn in Es; try discriminate Es.
    destruct (slice_chk _ _ _ _); cbn in Es; try discriminate Es. injection Es as _ _ <-.
    cbn. intros [= E]. rewrite E in Hmode. discriminate Hmode.
  - (* the SHORT-NAME found is the first sub-element *)
    unfold find_sub_element, FUEL in Hfind. cbn [find_sub] in Hfind. rewrite Es in Hfind. cbn [bind] in Hfind.
    assert (Hlen : exists k, N.to_nat (stop - start) = S k).
    { unfold sub_slice in Es. destruct (dt T (snd et)) as [d0| |]; cbn in Es; try discriminate Es.
      unfold slice_chk in Es. destruct ((dt_sub_end d0 <? dt_sub_start d0) || (n_subelements T <? dt_sub_end d0)) eqn:Eb;
        cbn in Es; [discriminate Es|]. injection Es as <- <- _.
      apply Bool.orb_false_iff in Eb as (Eb & _). apply N.ltb_ge in Eb. apply N.eqb_neq in Ess.
      destruct (N.to_nat (dt_sub_end d0 - dt_sub_start d0)) eqn:Ez; [lia|eauto]. }
    destruct Hlen as (k & Hk). rewrite Hk in Hfind.
    rewrite N.add_0_r in Hfind. rewrite Esub in Hfind. cbn [bind] in Hfind. rewrite Ek in Hfind.
    rewrite Ee in Hfind. cbn [bind] in Hfind. rewrite N.add_0_r, Ev in Hfind. cbn [bind] in Hfind.
    rewrite En in Hfind. rewrite N.land_comm, Hnamed in Hfind. cbn [negb andb] in Hfind.
    unfold et_new in Hfind. rewrite Ee in Hfind. cbn in Hfind. injection Hfind as <- _.
    unfold is_named_in_version. cbn [snd]. rewrite Em2. cbn. discriminate.
Qed.

End Check.

(* ---------- the generated tables ---------- *)
Lemma rt_dt_range ty d : T_datatypes RT ty = Some d -> ty < 5080.
Proof.
  unfold RT, get. cbn [T_datatypes]. intros H. apply PositiveMap.elements_correct in H.
  assert (HA : forallb (fun kv => Pos.pred_N (fst kv) <? 5080) (PositiveMap.elements m_datatypes) = true)
    by (vm_compute; reflexivity).
  rewrite forallb_forall in HA. apply HA in H. cbn [fst] in H. rewrite N.pos_pred_succ in H. apply N.ltb_lt. exact H.
Qed.

Definition ids_upto (n : N) : list N := map N.of_nat (seq 0 (N.to_nat n)).
Lemma ids_upto_in n i : i < n -> In i (ids_upto n).
Proof.
  intros H. unfold ids_upto. apply in_map_iff. exists (N.to_nat i). split; [apply N2Nat.id|]. apply in_seq. lia.
Qed.

Lemma rt_sweep11 : forallb (check11_ty RT) (ids_upto 5080) = true.
Proof. vm_compute. reflexivity. Qed.

Theorem real_tables_ok11 : tables_ok11 RT.
Proof.
  apply check11_sound. intros ty.
  destruct (N.ltb_spec ty 5080) as [Hlt|Hge].
  - pose proof rt_sweep11 as HS. rewrite forallb_forall in HS. apply HS. apply ids_upto_in. exact Hlt.
  - unfold check11_ty, short_name_version_mask, sub_slice, dt, unwrap.
    destruct (T_datatypes RT ty) as [d|] eqn:E; [apply rt_dt_range in E; lia|]. reflexivity.
Qed.
