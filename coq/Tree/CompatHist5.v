(* Tree/CompatHist5.v — the typing invariant over the whole operation alphabet `op` of Tree/Script.v and over all histories.
     op_ok T w o : the side condition of the attaching operations (move_element_here(_at), create_copied_sub_element(_at)):
                   the destination's type lists the element's name with the element's STORED datatype.  True for all others.
     typed_step  : Core w /\ TypedU T w is kept by every operation satisfying op_ok, whatever it returns (Core: C03's Core_step).
     typed_histories : lifted to all finite histories from the empty world. *)
From Coq Require Import PeanoNat Arith Lia.
From AV Require Import Base.Bytes Base.Outcome Hash.HashModel Spec.SpecOps Tree.Heap Tree.Ops Tree.Script Tree.Inv
  Tree.InvProofsBase Tree.InvProofsCore Tree.InvProofsPrim Tree.InvProofs
  Tree.Compat Tree.CompatSpec Tree.CompatTyped Tree.CompatProofs5 Tree.CompatProofs8 Tree.CompatFrame Tree.CompatFrameOps
  Tree.CompatHist1 Tree.CompatHist2 Tree.CompatHist3 Tree.CompatHist4.
Open Scope string_scope.
Open Scope list_scope.
Open Scope N_scope.

Section Hist.
Variable T : tables.
Variable tab_el tab_en : nametab.
Variable check_fn : N -> list N -> res bool.
Variable LATEST : N.
Variable root_attrs : list (N * cdata).

Notation run := (Inv.run T tab_el tab_en check_fn LATEST root_attrs).
Notation run_ops := (Inv.run_ops T tab_el tab_en check_fn LATEST root_attrs).

Definition op_ok (w : world) (o : op) : Prop :=
  match o with
  | OpCopy h other | OpCopyAt h other _ => attach_ok T w h other
  | OpMove h mv | OpMoveAt h mv _ => attach_ok T w h mv
  | _ => True
  end.

Fixpoint ok_ops (l : list op) (w : world) : Prop :=
  match l with
  | [] => True
  | o :: r => op_ok w o /\ match run o w with Val (_, w') => ok_ops r w' | _ => True end
  end.

Lemma typed_op o w r w' : Core w -> TypedU T w -> op_ok w o -> run o w = Val (r, w') -> TypedU T w'.
Proof.
  intros C HT Hok H. pose proof (core_bounded w C) as B.
  unfold Inv.run in H. destruct o; cbn [run_op welem wunit] in H; apply wmap_inv in H as (r0 & H & _); cbn [op_ok] in Hok.
  - exact (proj2 (JB_e_create_sub T LATEST h name _ _ _ H B HT)).
  - exact (proj2 (JB_e_create_sub_at T LATEST h name pos _ _ _ H B HT)).
  - exact (proj2 (JB_e_create_named T check_fn LATEST h name item _ _ _ H B HT)).
  - exact (proj2 (JB_e_create_named_at T check_fn LATEST h name item pos _ _ _ H B HT)).
  - exact (proj2 (copy_typed T LATEST h other _ _ _ H B HT Hok)).
  - exact (proj2 (copy_at_typed T LATEST h other pos _ _ _ H B HT Hok)).
  - exact (proj2 (move_typed T tab_en check_fn LATEST h mv _ _ _ H B HT Hok)).
  - exact (proj2 (move_at_typed T tab_en check_fn LATEST h mv pos _ _ _ H B HT Hok)).
  - exact (frp_typed_u T _ _ _ _ (fun w0 => frp_e_remove T w0 h sub) H HT).
  - exact (frp_typed_u T _ _ _ _ (fun w0 => frp_e_remove_kind T w0 h name) H HT).
  - exact (frp_typed_u T _ _ _ _ (fun w0 => frp_set_item_name T check_fn LATEST w0 h name) H HT).
  - exact (frp_typed_u T _ _ _ _ (fun w0 => frp_set_cdata T tab_en check_fn LATEST w0 h v) H HT).
  - exact (frp_typed_u T _ _ _ _ (fun w0 => frp_remove_cdata T w0 h) H HT).
  - exact (frp_typed_u T _ _ _ _ (fun w0 => frp_insert_citem T w0 h text pos) H HT).
  - exact (frp_typed_u T _ _ _ _ (fun w0 => frp_remove_citem T w0 h pos) H HT).
  - exact (frp_typed_u T _ _ _ _ (fun w0 => frp_set_ref_target T tab_el tab_en check_fn LATEST w0 h target) H HT).
  - exact (frp_typed_u T _ _ _ _ (fun w0 => frp_set_attribute T check_fn LATEST w0 h attr v) H HT).
  - exact (frp_typed_u T _ _ _ _ (fun w0 => frp_remove_attribute T w0 h attr) H HT).
  - exact (frp_typed_u T _ _ _ _ (fun w0 => frp_set_comment w0 h c) H HT).
  - exact (proj2 (JB_e_get_or_create T LATEST h name _ _ _ H B HT)).
  - exact (proj2 (JB_e_get_or_create_named T check_fn LATEST h name item _ _ _ H B HT)).
  - exact (proj2 (JB_new_model T root_attrs _ _ _ H B HT)).
  - exact (frp_typed_u T _ _ _ _ (fun w0 => frp_create_file T w0 m name version) H HT).
  - exact (frp_typed_u T _ _ _ _ (fun w0 => frp_remove_file T w0 m f) H HT).
  - exact (frp_typed_u T _ _ _ _ (fun w0 => frp_add_to_file T w0 h f) H HT).
  - exact (frp_typed_u T _ _ _ _ (fun w0 => frp_remove_from_file T w0 h f) H HT).
Qed.

Theorem typed_step o w r w' :
  Core w -> TypedU T w -> op_ok w o -> run o w = Val (r, w') -> Core w' /\ TypedU T w'.
Proof.
  intros C HT Hok H. split; [exact (Core_step T tab_el tab_en check_fn LATEST root_attrs o w r w' C H)|exact (typed_op o w r w' C HT Hok H)].
Qed.

Theorem typed_histories_from l : forall w w', Core w -> TypedU T w -> ok_ops l w -> run_ops l w = Val w' -> Core w' /\ TypedU T w'.
Proof.
  induction l as [|o l IH]; intros w w' C HT Hok H; cbn [Inv.run_ops] in H.
  - injection H as <-. auto.
  - cbn [ok_ops] in Hok. destruct Hok as (Ho & Hrest).
    destruct (run o w) as [[r w1]| |] eqn:E; try discriminate.
    destruct (typed_step o w r w1 C HT Ho E) as (C1 & T1). exact (IH w1 w' C1 T1 Hrest H).
Qed.

Theorem typed_histories l w' : ok_ops l empty_world -> run_ops l empty_world = Val w' -> Core w' /\ TypedU T w'.
Proof. intros Hok H. exact (typed_histories_from l empty_world w' empty_core (empty_typed T) Hok H). Qed.

End Hist.
