(* Tree/InvProofsOp2Live.v — C03: RealInvL = TreeInvL /\ CharsLeaf /\ OriginsRef over the WHOLE alphabet op2.
   TreeInvL (Tree/InvEBase.v) is Core /\ NoOrphanP: the tree invariant without RootsOnly, which the first load into a
   model breaks (the replaced root keeps its PModel link; RootsOnly for live nodes follows from Core, roots_only_live).
   Classes left: Known_failed_reparent (Op1 move / copy, finding), Known_dup_failed (a duplicate that fails half-way),
   Known_load = Known_load_shared (finding) || Known_load_rejected (rollback path). *)
From Coq Require Import PeanoNat Arith Permutation Lia.
From AV Require Import Base.Bytes Base.Outcome Hash.HashModel Tree.Heap Tree.Ops Tree.Script Tree.Inv
  Tree.InvProofsBase Tree.InvProofsCore Tree.InvProofsTree Tree.InvProofsPrim Tree.InvProofsData Tree.InvProofsNav Tree.InvProofs
  Tree.InvProofsFrame Tree.InvProofsChars Tree.InvProofsChars5 Tree.InvProofsOrigins Tree.InvProofsOrigins3
  Tree.InvProofsReal Tree.InvProofsDetFiles Tree.InvProofsOp2 Tree.InvEBase Tree.InvE_Main Tree.InvProofsOp2Lift.
From AV Require Import Tree.Sort Tree.Copy Tree.Compat Tree.Serialize Tree.Load Tree.Script2 Tree.InvLoad
  Tree.InvProofsLoadBase Tree.InvProofsLoad Tree.InvProofsLoadLive Tree.InvProofsOp2Full.
From AV Require Xml.Parser Xml.TablesOk Tree.InvProofsLoadParser.
Open Scope string_scope.
Open Scope list_scope.
Open Scope N_scope.

Lemma NoOrphanP_ptree w w' : ptree w w' -> NoOrphanP w -> NoOrphanP w'.
Proof. intros S O c p Hp. apply (ptree_lists _ _ _ _ S). apply O. apply (ptree_par _ _ _ _ S). auto. Qed.

Section Live2.
Variable T : tables.
Variable tab_el tab_at tab_en : nametab.
Variable check_fn : N -> list N -> res bool.
Variable float_parse : list N -> option N.
Variable float_fmt : N -> list N.
Variable LATEST name_index name_definition_ref attr_schema_location : N.
Variable root_attrs : list (N * cdata).

Notation run2 := (run_op2 T tab_el tab_at tab_en check_fn float_parse float_fmt LATEST name_index name_definition_ref
                          attr_schema_location root_attrs).
Notation run := (Inv.run T tab_el tab_en check_fn LATEST root_attrs).

Lemma RealInv_RealInvL w : RealInv T w -> RealInvL T w.
Proof. intros (I & CL & OR). split; [apply TreeInv_TreeInvL; exact I|split; auto]. Qed.
Lemma RealInvL_empty : RealInvL T empty_world.
Proof. apply RealInv_RealInvL. apply RealInv_empty. Qed.

(* Op1: only failed re-parenting breaks the invariant (as RealInv_step) *)
Theorem RealInvL_step o w r w' :
  RefChars T -> RealInvL T w -> Known_failed_reparent T tab_el tab_en check_fn LATEST root_attrs w o = false ->
  run o w = Val (r, w') -> RealInvL T w'.
Proof.
  intros RC (I & CL & O) HK H. pose proof I as (C & NO).
  split; [|split; [eapply CharsLeaf_step; eauto | eapply OriginsRef_step; eauto]].
  pose proof (origins_clean _ _ RC CL O) as OC.
  assert (GEN : Known_setcdata w o = false -> Known_refhead w o = false -> TreeInvL w').
  { intros K1 K3. eapply TreeInvL_step; eauto. unfold Inv.Known. rewrite K1, HK, K3. reflexivity. }
  destruct o; try (apply GEN; [reflexivity | first [reflexivity | cbn [Known_refhead]; apply dirty_origins_false; exact OC]]).
  - unfold Inv.run in H. cbn [run_op wunit] in H. apply wmap_inv in H as (r0 & H & _).
    eapply TreeInvL_same_tree; [eapply set_cdata_chars; eauto | exact I].
  - unfold Inv.run in H. cbn [run_op wunit] in H. apply wmap_inv in H as (r0 & H & _).
    eapply TreeInvL_same_tree; [eapply set_ref_target_chars; eauto | exact I].
Qed.

Lemma lift_RealInvL w w' : lift T w w' -> RealInvL T w -> RealInvL T w'.
Proof.
  intros L ((C & O) & CL & OR). split; [split|split].
  - eapply Core_ptree; [apply L|exact C].
  - eapply NoOrphanP_ptree; [apply L|exact O].
  - eapply CharsLeaf_frame; [apply L|exact CL].
  - eapply OriginsRef_orel; [apply L|apply orel_osub; apply L|exact OR].
Qed.

(* ---------- OpDuplicate: a successful duplicate is a sequence of steps that keep RealInvL ---------- *)
Definition LOK {A} (m : W A) : Prop := forall w a w', RealInvL T w -> m w = Val (OK a, w') -> RealInvL T w'.

Lemma LOK_ro {A} (m : W A) : ro m -> LOK m.
Proof. intros H w a w' I E. apply H in E. subst. exact I. Qed.
Lemma LOK_bind {A B} (m : W A) (k : A -> W B) : LOK m -> (forall a, LOK (k a)) -> LOK (wbind m k).
Proof.
  intros Hm Hk w b w' I H. apply wbind_inv in H as [(a & w1 & H1 & H2) | (e & H1 & [=])].
  eapply Hk; [|exact H2]. eapply Hm; eauto.
Qed.
Lemma LOK_op1 (RC : RefChars T) {A} (m : W A) (g : A -> value) (o1 : op) :
  (forall w, run_op T tab_el tab_en check_fn LATEST root_attrs o1 w = (do a <- m; wret (g a))%W w) ->
  (forall w, Known_failed_reparent T tab_el tab_en check_fn LATEST root_attrs w o1 = true ->
             exists e w', m w = Val (ER e, w')) ->
  LOK m.
Proof.
  intros Hrun HK w a w' I E.
  eapply (RealInvL_step o1 w (OK (g a)) w'); auto.
  - destruct (Known_failed_reparent T tab_el tab_en check_fn LATEST root_attrs w o1) eqn:EK; auto.
    destruct (HK _ EK) as (e & w0 & E0). congruence.
  - unfold Inv.run. rewrite Hrun. unfold wbind. rewrite E. reflexivity.
Qed.
Lemma LOK_lift {A} (m : W A) : (forall w r w', m w = Val (r, w') -> lift T w w') -> LOK m.
Proof. intros H w a w' I E. eapply lift_RealInvL; [eapply H; eauto|exact I]. Qed.

Lemma lift_modify_keep i f :
  (forall n, n_parent (f n) = n_parent n /\ n_type (f n) = n_type n /\ n_files (f n) = n_files n /\ n_content (f n) = n_content n) ->
  forall w r w', modify_node i f w = Val (r, w') -> lift T w w'.
Proof.
  intros Hf w r w' H. apply modify_node_wset in H as (n & Hn & _ & ->). destruct (Hf n) as (Hp & Ht & Hfl & Hc).
  constructor.
  - eapply frame_wset; [apply cNR_refl|exact Hn|]. split; auto. intros _ Hk. unfold kids in *. rewrite Hc. auto.
  - apply osub_models. reflexivity.
  - eapply frame_wset; [apply pfNR_refl|exact Hn|]. split; auto.
  - apply ptree_same_tree. eapply st_wset; eauto. unfold kids. rewrite Hc. reflexivity.
Qed.

(* set_files on one node: everything RealInvL looks at is kept *)
Lemma LOK_set_files i g : LOK (modify_node i (fun x => set_files x (g x))).
Proof.
  intros w a w' ((C & O) & CL & OR) H. apply modify_node_wset in H as (n & Hn & _ & ->).
  assert (S : same_tree w (wset w i (set_files n (g n)))) by (eapply st_wset; eauto; reflexivity).
  assert (F : frame (cNR T) (cNN T) w (wset w i (set_files n (g n)))).
  { eapply frame_wset; [apply cNR_refl|exact Hn|]. split; auto. }
  split; [split; [eapply Core_same_tree; eauto|eapply NoOrphanP_same_tree; eauto]|split].
  - eapply CharsLeaf_frame; eauto.
  - eapply OriginsRef_orel; [exact F|apply orel_osub; apply osub_models; reflexivity|exact OR].
Qed.

Section Dup.
Hypothesis RC : RefChars T.

Lemma LOK_new_model : LOK (new_model T root_attrs).
Proof.
  apply (LOK_op1 RC _ VModel OpNewModel); [reflexivity|]. intros w HK. discriminate HK.
Qed.
Lemma LOK_create_file c name version : LOK (m_create_file T c name version).
Proof.
  apply (LOK_op1 RC _ VFile (OpCreateFile c name version)); [reflexivity|]. intros w HK. discriminate HK.
Qed.
Lemma LOK_copy h other : LOK (e_create_copied_sub_element T LATEST h other).
Proof.
  apply (LOK_op1 RC _ VElem (OpCopy h other)); [reflexivity|]. intros w HK.
  unfold Known_failed_reparent, Inv.run in HK. cbn [run_op] in HK. unfold welem in HK.
  destruct (e_create_copied_sub_element T LATEST h other w) as [[[a|e] w1]| |] eqn:E;
    unfold wbind in HK; rewrite E in HK; try discriminate HK. eauto.
Qed.

Lemma LOK_dup_files c : forall files fm, LOK (dup_files T c files fm).
Proof.
  induction files as [|f rest IH]; intros fm; cbn [dup_files]; [apply LOK_ro; ro_tac|].
  apply LOK_bind; [apply LOK_ro; ro_tac|]. intros fl.
  apply LOK_bind; [apply LOK_create_file|]. intros nf.
  apply LOK_bind; [apply LOK_ro; ro_tac|]. intros nfl.
  apply LOK_bind; [|intros _; apply IH].
  apply LOK_lift. intros w r w' H. unfold set_file in H. injection H as _ <-. apply lift_nodes_eq; auto.
Qed.
Lemma LOK_dup_children croot : forall items, LOK (dup_children T LATEST croot items).
Proof.
  induction items as [|[e|d] rest IH]; cbn [dup_children]; [apply LOK_ro; ro_tac | | exact IH].
  apply LOK_bind; [apply LOK_copy | intros; exact IH].
Qed.
Lemma LOK_dup_membership fm : forall oids cids, LOK (dup_membership fm oids cids).
Proof.
  induction oids as [|o orest IH]; intros cids; cbn [dup_membership]; [apply LOK_ro; ro_tac|].
  destruct cids as [|c crest]; [apply LOK_ro; ro_tac|].
  apply LOK_bind; [apply LOK_ro; ro_tac|]. intros on.
  apply LOK_bind; [apply LOK_ro; ro_tac|]. intros wq.
  apply LOK_bind; [apply (LOK_set_files c (fun _ => translate_files wq fm (n_files on)))|]. intros _. apply IH.
Qed.

Lemma LOK_duplicate_body m : LOK (m_duplicate_body T LATEST root_attrs m).
Proof.
  unfold m_duplicate_body.
  apply LOK_bind; [apply LOK_ro; ro_tac|]. intros x.
  apply LOK_bind; [apply LOK_new_model|]. intros c.
  apply LOK_bind; [apply LOK_ro; ro_tac|]. intros rn.
  apply LOK_bind; [apply LOK_ro; ro_tac|]. intros cx.
  apply LOK_bind; [apply LOK_lift; apply lift_modify_keep; intros n; repeat split|]. intros _.
  apply LOK_bind; [apply LOK_dup_files|]. intros fm.
  apply LOK_bind; [apply LOK_dup_children|]. intros _.
  apply LOK_bind; [apply LOK_ro; ro_tac|]. intros wq.
  apply LOK_bind; [apply LOK_ro; apply ro_dfs_ids|]. intros oids.
  apply LOK_bind; [apply LOK_ro; apply ro_dfs_ids|]. intros cids.
  apply LOK_bind; [apply LOK_dup_membership|]. intros _. apply LOK_ro. ro_tac.
Qed.

(* AutosarModel::duplicate that returns Ok keeps RealInvL; a failing one drops the half-built copy (its nodes stay
   allocated with the parent link of a model that no longer exists): class Known_dup_failed *)
Theorem RealInvL_duplicate_ok m w c w' :
  RealInvL T w -> m_duplicate T tab_el tab_en check_fn LATEST root_attrs m w = Val (OK c, w') -> RealInvL T w'.
Proof.
  intros I H. unfold m_duplicate in H.
  destruct (m_duplicate_body T LATEST root_attrs m w) as [[[c0|e] w1]| |] eqn:E; try discriminate H.
  injection H as _ <-. eapply LOK_duplicate_body; eauto.
Qed.
End Dup.

(* ---------- OpLoad ---------- *)
Theorem RealInvL_load m buffer filename strict w r w' :
  TablesOk.tables_ok T = true -> RealInvL T w ->
  Known_load_shared T tab_el tab_at tab_en check_fn float_parse LATEST name_definition_ref w (OpLoad m buffer filename strict) = false ->
  r <> ER InvalidFileMerge ->
  m_load_buffer T tab_el tab_at tab_en check_fn float_parse LATEST name_definition_ref m buffer filename strict w = Val (r, w') ->
  RealInvL T w'.
Proof.
  intros OK I Hs Hrej H. unfold m_load_buffer in H.
  bstep H x wx E0; [|apply get_model_inv in E0 as (? & _ & [=] & _)]. apply get_model_inv in E0 as (x' & Hx & [= ->] & ->).
  bstep H w0 wx E1; [|apply wget_inv in E1 as ([=] & _)]. apply wget_inv in E1 as ([= ->] & ->).
  destruct (existsb _ _); [apply wfail_inv in H as (_ & ->); exact I|].
  unfold Known_load_shared, load_merge_point in Hs.
  destruct (Parser.load strict T tab_el tab_at tab_en check_fn float_parse buffer) as [[root st|pe st]| |] eqn:EP;
    try discriminate H.
  2:{ apply wfail_inv in H as (_ & ->). exact I. }
  destruct (InvProofsLoadParser.load_tree_facts T tab_el tab_at tab_en check_fn float_parse strict buffer root st OK EP) as (EC & ERf).
  assert (G : forall r0 w0, load_parsed T LATEST name_definition_ref m filename root st w = Val (r0, w0) ->
              r0 <> ER InvalidFileMerge -> RealInvL T w0).
  { intros r0 w0 HL Hr0. eapply (load_parsed_real T LATEST name_definition_ref m filename root st w r0 w0 I EC ERf); eauto.
    intros t w1 x1 Ei w2 Hx1 Hfirst. rewrite Ei in Hs. fold w2 in Hs. rewrite Hx1, Hfirst in Hs. exact Hs. }
  bstep H f0 wx E2.
  - apply wret_inv in H as (_ & ->). eapply G; eauto. discriminate.
  - subst r. eapply G; eauto. intros [= ->]. apply Hrej. reflexivity.
Qed.

(* ---------- the whole alphabet ---------- *)
Notation KReal2 := (Known_real2 T tab_el tab_at tab_en check_fn float_parse float_fmt LATEST name_index name_definition_ref
                                attr_schema_location root_attrs).
Notation KLoad := (Known_load T tab_el tab_at tab_en check_fn float_parse float_fmt LATEST name_index name_definition_ref
                              attr_schema_location root_attrs).

Theorem RealInvL_step2 o w r w' :
  RefChars T -> TablesOk.tables_ok T = true -> RealInvL T w ->
  KReal2 w o = false -> KLoad w o = false -> run2 o w = Val (r, w') -> RealInvL T w'.
Proof.
  intros RC OK I HK HL H. apply orb_false_iff in HK as (HK1 & HK2).
  destruct o as [o1| | |m0|m0 buffer filename strict| | | |];
    try (eapply lift_RealInvL; [eapply lift_step2; eauto; [reflexivity|intros o1; discriminate]|exact I]).
  - cbn [run_op2] in H. apply wmap_inv in H as (r0 & H & _). eapply RealInvL_step; eauto.
  - unfold Known_dup_failed in HK2. rewrite H in HK2. cbn [run_op2] in H.
    apply wmap_inv in H as (r0 & H & ->). destruct r0 as [c|e]; [|discriminate HK2].
    eapply RealInvL_duplicate_ok; eauto.
  - unfold Known_load in HL. apply orb_false_iff in HL as (Hs & Hr).
    unfold Known_load_rejected in Hr. rewrite H in Hr. cbn [run_op2] in H.
    apply wbind_inv in H as [([f ws] & w1 & H1 & H2) | (e & H1 & ->)].
    + apply wret_inv in H2 as (_ & ->). eapply RealInvL_load; eauto. discriminate.
    + eapply RealInvL_load; eauto. intros [= ->]. discriminate Hr.
Qed.

Fixpoint clean_ops2 (l : list op2) (w : world) : bool :=
  match l with
  | [] => true
  | o :: r => negb (KReal2 w o) && negb (KLoad w o) &&
              match run2 o w with Val (_, w') => clean_ops2 r w' | _ => true end
  end.

Theorem RealInvL_histories2 l : forall w w',
  RefChars T -> TablesOk.tables_ok T = true -> RealInvL T w -> clean_ops2 l w = true ->
  run_ops2 T tab_el tab_at tab_en check_fn float_parse float_fmt LATEST name_index name_definition_ref
           attr_schema_location root_attrs l w = Val w' -> RealInvL T w'.
Proof.
  induction l as [|o l IH]; intros w w' RC OK I Hc H; cbn [run_ops2 clean_ops2] in *.
  - injection H as <-. exact I.
  - apply andb_prop in Hc as (Hc1 & Hc). apply andb_prop in Hc1 as (Hk & Hl).
    apply negb_true_iff in Hk. apply negb_true_iff in Hl.
    destruct (run2 o w) as [[r w1]| |] eqn:E; try discriminate H.
    eapply IH; [exact RC|exact OK| |exact Hc|exact H]. eapply RealInvL_step2; eauto.
Qed.

End Live2.
