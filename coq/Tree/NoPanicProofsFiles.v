(* Tree/NoPanicProofsFiles.v — C12: the file-record invariant behind ArxmlFile::serialize / check_version_compatibility.
     ver_ok v      v is the value of one of the AutosarVersion discriminants (Spec/Versions.v, ver_enum): what a client can
                   pass where the API takes an `AutosarVersion`;
     file_ok w fl  the record's model exists and its version is such a value (so `self.version.filename()` is there);
     FOK w         every file record of w is file_ok;   NFE w (agent-c07, Tree/OrdHist.v): local file sets name existing files.
   Kept by all 26 operations: only create_file changes the file list (agent-c07's frame calculus fp, Tree/OrdFilesOps.v) —
   it appends a record with the model it was called on and the version it was given (op_wfv: that version is ver_ok);
   the number of models never decreases (grow_op). *)
From Coq Require Import Lia PeanoNat.
From AV Require Import Base.Bytes Base.Outcome Hash.HashModel Spec.SpecOps Spec.Versions Xml.TablesOk Tree.Heap Tree.Ops Tree.Script Tree.Inv.
From AV Require Import Tree.InvProofsBase Tree.InvProofsCore Tree.InvProofsPrim Tree.InvProofs Tree.FilesProofsBase Tree.Frame
  Tree.OrdFiles Tree.OrdFilesOps Tree.OrdHist Tree.CopyProofsIrp Tree.Serialize.
From AV Require Import Tree.NoPanic Tree.NoPanicProofsBase Tree.NoPanicFloat Tree.NoPanicProofsHist.
Open Scope string_scope.
Open Scope list_scope.
Open Scope N_scope.

Definition ver_ok (v : N) : Prop := In (Some v) (map ver_value iotaV).

Lemma ver_ok_filename v : ver_ok v -> exists s, filename_of_value v = Some s.
Proof.
  unfold ver_ok. intros H. vm_compute in H.
  repeat (destruct H as [H|H]; [injection H as <-; vm_compute; eauto|]). destruct H.
Qed.

Definition file_ok (w : world) (fl : file) : Prop :=
  f_model fl < N.of_nat (List.length (w_models w)) /\ ver_ok (f_version fl).
Definition FOK (w : world) : Prop := forall k fl, nth_opt (w_files w) k = Some fl -> file_ok w fl.
Definition FI (w : world) : Prop := NFE w /\ FOK w.

(* the version argument of create_file is an AutosarVersion *)
Definition op_wfv (o : op) : Prop := match o with OpCreateFile _ _ ver => ver_ok ver | _ => True end.

Lemma FI_empty : FI empty_world.
Proof. split; [split; [intros i n [=]|reflexivity]|intros k fl H; destruct k; discriminate]. Qed.

Lemma file_ok_grow w w' fl : (List.length (w_models w) <= List.length (w_models w'))%nat -> file_ok w fl -> file_ok w' fl.
Proof. intros G (A & B). split; [lia|exact B]. Qed.

Section Files.
Variable T : tables.
Variable tab_el tab_en : nametab.
Variable check_fn : N -> list N -> res bool.
Variable LATEST : N.
Variable root_attrs : list (N * cdata).
Notation run := (run_op T tab_el tab_en check_fn LATEST root_attrs).

Lemma files_sameP {A} (m : W A) w r w' : fp (w_files w) m -> (List.length (w_models w) <= List.length (w_models w'))%nat ->
  FI w -> m w = Val (r, w') -> FI w'.
Proof.
  intros Hm G (NF & FK) H. pose proof (Hm w r w' NF H) as NF'. pose proof (proj2 NF') as E.
  split; [unfold NFE; rewrite E; exact NF'|]. intros k fl Hk. rewrite E in Hk. exact (file_ok_grow _ _ _ G (FK _ _ Hk)).
Qed.

Lemma create_file_FI m name ver w r w' : m < N.of_nat (List.length (w_models w)) -> ver_ok ver ->
  (List.length (w_models w) <= List.length (w_models w'))%nat -> FI w ->
  m_create_file T m name ver w = Val (r, w') -> FI w'.
Proof.
  intros Lm Vv G (NF & FK) H. unfold m_create_file in H.
  wstepn H x Ex. wstepn H wc Ew. winv Ew.
  destruct (existsb _ (m_files x)); [winv H; split; auto|].
  apply wbind_inv in H as [(u & w1 & H1 & H2) | (e & H1 & _)]; [|discriminate H1].
  unfold wput in H1. injection H1 as _ <-.
  set (nf := mkFile m name ver None) in *. set (FL' := w_files w ++ [nf]) in *.
  set (w1 := mkWorld (w_nodes w) (w_next w) FL' (w_models w)) in *.
  assert (FK1 : FOK w1).
  { intros k y Hy. unfold w1 in Hy. cbn [w_files] in Hy. apply nth_opt_app_new in Hy as [Hy|(_ & ->)]; [exact (FK _ _ Hy)|].
    split; [exact Lm|exact Vv]. }
  assert (NF1 : NFw FL' w1).
  { split; [|reflexivity]. intros i n Hn f Hf. destruct (proj1 NF i n Hn f Hf) as (y & Hy). exists y. apply nth_opt_app_old. exact Hy. }
  assert (Pfid : Pf FL' (N.of_nat (List.length (w_files w)))).
  { exists nf. rewrite Nnat.Nat2N.id. apply nth_opt_app_last. }
  revert H2. match goal with |- ?k w1 = _ -> _ => assert (K : fp FL' k) end.
  { pose proof (fp_atfr T FL') as HA. fp_go. }
  intros H2. exact (files_sameP _ w1 r w' K G (conj NF1 FK1) H2).
Qed.

Lemma new_model_FI w r w' : (List.length (w_models w) <= List.length (w_models w'))%nat -> FI w ->
  new_model T root_attrs w = Val (r, w') -> FI w'.
Proof.
  intros G (NF & FK) H. unfold new_model in H.
  destruct (et_new T (autosar_element T)) as [ty| |]; destruct (elem T (autosar_element T)) as [ed| |]; try discriminate.
  injection H as _ <-. split.
  - split; [|reflexivity]. cbn [w_nodes w_files]. intros i n Hn. unfold upd in Hn.
    destruct (i =? w_next w); [injection Hn as <-; intros f []|exact (proj1 NF i n Hn)].
  - intros k fl Hk. cbn [w_files] in Hk. destruct (FK _ _ Hk) as (A & B). split; [|exact B]. cbn [w_models]. rewrite app_length. cbn. lia.
Qed.

Theorem FI_step o w r w' : FI w -> op_wf tab_el tab_en w o -> op_wfv o -> run o w = Val (r, w') -> FI w'.
Proof.
  intros I WF WV H.
  assert (G : (List.length (w_models w) <= List.length (w_models w'))%nat).
  { destruct (grow_op T tab_el tab_en check_fn LATEST root_attrs o w r w' H) as (_ & G & _). exact G. }
  destruct o; cbn [run_op] in H;
    try (apply welem_inv in H as (r0 & H)); try (apply wunit_inv in H as (r0 & H)).
  - exact (files_sameP _ _ _ _ (fp_e_create T LATEST _ h name) G I H).
  - exact (files_sameP _ _ _ _ (fp_e_create_at T LATEST _ h name pos) G I H).
  - exact (files_sameP _ _ _ _ (fp_e_named T check_fn LATEST _ h name item) G I H).
  - exact (files_sameP _ _ _ _ (fp_e_named_at T check_fn LATEST _ h name item pos) G I H).
  - exact (files_sameP _ _ _ _ (fp_e_copy T LATEST _ h other) G I H).
  - exact (files_sameP _ _ _ _ (fp_e_copy_at T LATEST _ h other pos) G I H).
  - exact (files_sameP _ _ _ _ (fp_e_move T tab_en check_fn LATEST _ h mv) G I H).
  - exact (files_sameP _ _ _ _ (fp_e_move_at T tab_en check_fn LATEST _ h mv pos) G I H).
  - exact (files_sameP _ _ _ _ (fp_e_remove T _ h sub) G I H).
  - exact (files_sameP _ _ _ _ (fp_e_remove_kind T _ h name) G I H).
  - exact (files_sameP _ _ _ _ (fp_set_item_name T check_fn LATEST _ h name) G I H).
  - exact (files_sameP _ _ _ _ (fp_set_cdata T tab_en check_fn LATEST _ h v) G I H).
  - exact (files_sameP _ _ _ _ (fp_remove_cdata T _ h) G I H).
  - exact (files_sameP _ _ _ _ (fp_insert_citem T _ h text pos) G I H).
  - exact (files_sameP _ _ _ _ (fp_remove_citem T _ h pos) G I H).
  - exact (files_sameP _ _ _ _ (fp_set_ref_target T tab_el tab_en check_fn LATEST _ h target) G I H).
  - exact (files_sameP _ _ _ _ (fp_set_attribute T check_fn LATEST _ h attr v) G I H).
  - apply wbind_inv in H as [(b & w1 & H1 & H2)|(e & H1 & _)]; [winv H2|];
      exact (files_sameP _ _ _ _ (fp_remove_attribute T _ h attr) G I H1).
  - exact (files_sameP _ _ _ _ (fp_set_comment _ h c) G I H).
  - exact (files_sameP _ _ _ _ (fp_get_or_create T LATEST _ h name) G I H).
  - exact (files_sameP _ _ _ _ (fp_get_or_create_named T check_fn LATEST _ h name item) G I H).
  - apply wbind_inv in H as [(b & w1 & H1 & H2)|(e & H1 & _)]; [winv H2|]; eapply new_model_FI; eauto.
  - cbn [NoPanic.op_wf] in WF. cbn [op_wfv] in WV.
    apply wbind_inv in H as [(b & w1 & H1 & H2)|(e & H1 & _)]; [winv H2|]; eapply create_file_FI; eauto.
  - exact (files_sameP _ _ _ _ (fp_remove_file T _ m f) G I H).
  - exact (files_sameP _ _ _ _ (fp_add_to_file T _ h f) G I H).
  - exact (files_sameP _ _ _ _ (fp_remove_from_file T _ h f) G I H).
Qed.

End Files.
