(* Tree/MergePure.v — merge_element as a function on PURE trees (MergeSpec.htree: element trees with the local file
   membership of every element), statement by statement the same algorithm as Tree/Load.v merge_element and with the
   SAME walk (Load.walk over Load.ckey): keys are read from the tree instead of the heap, node ids are the positions in
   the two content lists, the insertion range is computed from the element names of the content list.
   It is the bridge between the heap model and the specification: MergePureProofs*.v prove that [pmerge] yields the
   union of the partial views; the model runner evaluates [check_load] for every load of the correspondence streams
   (heap model vs [pmerge] on the trees read back from the heap), so a difference between the two shows up as a
   correspondence failure.   MODEL ONLY: definitions + Examples. *)
From AV Require Import Base.Bytes Base.Outcome Hash.HashModel Tree.Heap Tree.Ops Tree.Script Tree.Load Tree.MergeSpec.
From AV Require Xml.Lexer Xml.Parser.
Open Scope string_scope.
Open Scope list_scope.
Open Scope N_scope.

Definition h_name (h : htree) := match h with HNode n _ _ _ _ _ => n end.
Definition h_ty (h : htree) := match h with HNode _ t _ _ _ _ => t end.
Definition h_content (h : htree) := match h with HNode _ _ _ c _ _ => c end.
Definition h_set_local (h : htree) (l : list N) : htree :=
  match h with HNode n t a c cm _ => HNode n t a c cm l end.
Definition h_set_content (h : htree) (c : list (htree + cdata)) : htree :=
  match h with HNode n t a _ cm l => HNode n t a c cm l end.

(* decidable equality of pure trees *)
Definition cdata_eqb (a b : cdata) : bool :=
  match a, b with
  | DEnum x, DEnum y => x =? y
  | DString x, DString y => bytes_eqb x y
  | DUInt x, DUInt y => x =? y
  | DFloat x, DFloat y => x =? y
  | _, _ => false
  end.
Fixpoint attrs_eqb (a b : list (N * cdata)) : bool :=
  match a, b with
  | [], [] => true
  | (n1, v1) :: a', (n2, v2) :: b' => (n1 =? n2) && cdata_eqb v1 v2 && attrs_eqb a' b'
  | _, _ => false
  end.
Definition opt_eqb (a b : option (list N)) : bool :=
  match a, b with None, None => true | Some x, Some y => bytes_eqb x y | _, _ => false end.
Fixpoint htree_eqb (a b : htree) {struct a} : bool :=
  match a, b with
  | HNode n1 t1 a1 c1 cm1 l1, HNode n2 t2 a2 c2 cm2 l2 =>
    (n1 =? n2) && (fst t1 =? fst t2) && (snd t1 =? snd t2) && attrs_eqb a1 a2 && opt_eqb cm1 cm2 && bytes_eqb l1 l2 &&
    (fix go (x : list (htree + cdata)) (y : list (htree + cdata)) {struct x} : bool :=
       match x, y with
       | [], [] => true
       | inl h1 :: x', inl h2 :: y' => htree_eqb h1 h2 && go x' y'
       | inr d1 :: x', inr d2 :: y' => cdata_eqb d1 d2 && go x' y'
       | _, _ => false
       end) c1 c2
  end.

(* a parsed tree as a pure tree: no membership anywhere *)
Fixpoint htree_of_etree (e : Parser.etree) {struct e} : htree :=
  match e with
  | Parser.ENode name ty attrs content comment =>
    HNode name ty (map (fun a => (fst a, to_hc (snd a))) attrs)
      ((fix go (l : list (Parser.etree + Parser.cdata)) : list (htree + cdata) :=
          match l with
          | [] => []
          | inl c :: r => inl (htree_of_etree c) :: go r
          | inr d :: r => inr (to_hc d) :: go r
          end) content)
      comment []
  end.

Section Pure.
Variable T : tables.
Variable LATEST : N.
Variable name_definition_ref : N.
Variable fver : N -> option N.          (* version of the files that still exist *)

(* ---------- the accessors of Ops.v on pure trees ---------- *)
Definition h_character_data (h : htree) : res (option cdata) :=
  match h_content h with
  | [inr d] => (let* mode := content_mode T (h_ty h) in
                Val (if (mode =? MCharacters) || (mode =? MMixed) then Some d else None))%res
  | _ => Val None
  end.

Definition h_item_name (h : htree) : res (option (list N)) :=
  (let* named := is_named T (h_ty h) in
   if negb named then Val None else
   match h_content h with
   | inl s :: _ =>
     if h_name s =? name_short_name T then
       let* cd := h_character_data s in
       Val (match cd with Some (DString nm) => Some nm | _ => None end)
     else Val None
   | _ => Val None
   end)%res.

Definition h_is_identifiable (h : htree) : res bool :=
  (let* named := is_named T (h_ty h) in
   if negb named then Val false else
   match h_content h with
   | inl s :: _ => Val (h_name s =? name_short_name T)
   | _ => Val false
   end)%res.

Fixpoint h_first_named (name : N) (l : list (htree + cdata)) : option htree :=
  match l with
  | [] => None
  | inl c :: r => if h_name c =? name then Some c else h_first_named name r
  | inr _ :: r => h_first_named name r
  end.

Definition h_defref (h : htree) : res (option (list N)) :=
  match h_first_named name_definition_ref (h_content h) with
  | Some d => (let* cd := h_character_data d in Val (match cd with Some (DString s) => Some s | _ => None end))%res
  | None => Val None
  end.

Definition hkey (pty : N * N) (i : N) (h : htree) : ckey :=
  mkKey i (h_name h) (h_is_identifiable h) (h_item_name h) (h_defref h)
        (let* r := find_sub_element T pty (h_name h) 4294967295 in Val (option_map snd r))%res.

(* keys of the sub-elements; id = position in the content list *)
Fixpoint hkeys (pty : N * N) (i : N) (l : list (htree + cdata)) : list ckey :=
  match l with
  | [] => []
  | inl c :: r => hkey pty i c :: hkeys pty (i + 1) r
  | inr _ :: r => hkeys pty (i + 1) r
  end.

(* ---------- calc_element_insert_range on the element names of a content list (None = character data) ---------- *)
Fixpoint p_range_loop (ty : N * N) (version : N) (new_idx : list N) (items : list (option N)) (idx start_pos end_pos : N)
  {struct items} : res (out (N * N)) :=
  match items with
  | [] => Val (OK (start_pos, end_pos))
  | None :: rest => p_range_loop ty version new_idx rest (idx + 1) start_pos (idx + 1)
  | Some cname :: rest =>
    (let* ex0 := find_sub_element T ty cname version in
     let* ex := match ex0 with Some x => Val (Some x) | None => find_sub_element T ty cname 4294967295 end in
     match ex with
     | None => p_range_loop ty version new_idx rest (idx + 1) start_pos end_pos
     | Some (_, ex_idx) =>
       let* g := find_common_group T ty new_idx ex_idx in
       let* gd := dt T g in
       let mode := dt_mode gd in
       if mode =? MSequence then
         match lex_cmp new_idx ex_idx with
         | Lt => Val (OK (start_pos, end_pos))
         | Eq => let* c := repeat_conflict T ty new_idx in
                 if c then Val (ER ElementInsertionConflict)
                 else p_range_loop ty version new_idx rest (idx + 1) start_pos (idx + 1)
         | Gt => p_range_loop ty version new_idx rest (idx + 1) (idx + 1) (idx + 1)
         end
       else if mode =? MChoice then
         if list_eqbN new_idx ex_idx then
           let* c := repeat_conflict T ty new_idx in
           if c then Val (ER ElementInsertionConflict)
           else p_range_loop ty version new_idx rest (idx + 1) start_pos (idx + 1)
         else Val (ER ElementInsertionConflict)
       else if (mode =? MBag) || (mode =? MMixed) then
         p_range_loop ty version new_idx rest (idx + 1) start_pos (idx + 1)
       else Pan "elementraw.rs calc_element_insert_range: unreachable!()"
     end)%res
  end.

Definition item_name_of (it : htree + cdata) : option N := match it with inl c => Some (h_name c) | inr _ => None end.

Definition p_insert_range (ty : N * N) (content : list (htree + cdata)) (name version : N) : res (out (N * N)) :=
  (let* mode := content_mode T ty in
   if mode =? MCharacters then Val (ER IncorrectContentType) else
   let* f := find_sub_element T ty name version in
   match f with
   | None => Val (ER InvalidSubElement)
   | Some (_, new_idx) =>
     if (mode =? MBag) || (mode =? MMixed) then Val (OK (0, N.of_nat (List.length content)))
     else p_range_loop ty version new_idx (map item_name_of content) 0 0 0
   end)%res.

(* ---------- merge_element ---------- *)
Definition p_files_min_version (files : list N) : N :=
  match flat_map (fun f => match fver f with Some v => [v] | None => [] end) files with
  | [] => LATEST
  | v :: r => fold_left N.min r v
  end.

Fixpoint lookup_merge (i : id) (l : list (id * id)) : option id :=
  match l with [] => None | (a, b) :: r => if a =? i then Some b else lookup_merge i r end.

(* elements_a_only: an empty membership becomes `files` *)
Definition h_restrict (files : list N) (c : htree) : htree :=
  match c with HNode n t a cc cm loc => if is_empty loc then HNode n t a cc cm files else c end.
(* merge_sub_elements: a merged element with an explicit membership is now also in the new file *)
Definition h_bump (new_file : N) (c : htree) : htree :=
  if negb (is_empty (h_local c)) then h_set_local c (set_add new_file (h_local c)) else c.
(* import_new_items: the element is only in the new file *)
Definition h_import (new_file : N) (c : htree) : htree :=
  match c with HNode n t a cc cm loc => HNode n t a cc cm (set_add new_file loc) end.

(* import_new_items on the content list *)
Fixpoint p_import (ty : N * N) (b_content : list (htree + cdata)) (l : list (id * N)) (idx : N) (new_file min_ver_b : N)
         (cur : list (htree + cdata)) : res (out (list (htree + cdata))) :=
  match l with
  | [] => Val (OK cur)
  | (bid, insert_pos) :: r =>
    match nth_opt b_content (N.to_nat bid) with
    | Some (inl nb) =>
      (let* range := p_insert_range ty cur (h_name nb) min_ver_b in
       match range with
       | ER _ => Val (ER InvalidFileMerge)
       | OK (first_pos, last_pos) =>
         let dest := N.min (N.max (insert_pos + idx) first_pos) last_pos in
         if N.of_nat (List.length cur) <? dest then Pan "Vec::insert: index > len"
         else p_import ty b_content r (idx + 1) new_file min_ver_b (insert_at cur (N.to_nat dest) (inl (h_import new_file nb)))
       end)%res
    | _ => Pan "pmerge: b id does not denote an element"
    end
  end.

(* what happens to the sub-element c at position i of parent_a: restricted (a-only), merged with its partner in b
   (`rec` = merge_element one level down), or nothing *)
Definition child_step (rec : htree -> list N -> htree -> N -> res (out htree)) (wk : walked) (files : list N)
           (b_content : list (htree + cdata)) (new_file : N) (i : N) (c : htree) : res (out htree) :=
  if existsb (N.eqb i) (wk_a_only wk) then Val (OK (h_restrict files c))
  else match lookup_merge i (wk_merge wk) with
       | Some ib =>
         match nth_opt b_content (N.to_nat ib) with
         | Some (inl eb) =>
           let files' := if negb (is_empty (h_local c)) then h_local c else files in
           (let* mo := rec c files' eb new_file in
            match mo with OK ea' => Val (OK (h_bump new_file ea')) | ER e => Val (ER e) end)%res
         | _ => Pan "pmerge: merge pair does not denote an element of b"
         end
       | None => Val (OK c)
       end.

Fixpoint map_kids (f : N -> htree -> res (out htree)) (i : N) (l : list (htree + cdata)) {struct l}
  : res (out (list (htree + cdata))) :=
  match l with
  | [] => Val (OK [])
  | inr d :: r =>
    (let* ro := map_kids f (i + 1) r in
     match ro with OK rr => Val (OK (inr d :: rr)) | ER e => Val (ER e) end)%res
  | inl c :: r =>
    (let* co := f i c in
     match co with
     | ER e => Val (ER e)
     | OK c' =>
       let* ro := map_kids f (i + 1) r in
       match ro with OK rr => Val (OK (inl c' :: rr)) | ER e => Val (ER e) end
     end)%res
  end.

(* the heap algorithm restricts the a-only elements, imports the b-only ones and then merges the pairs; the three steps
   touch different sub-elements (and every error is InvalidFileMerge), so the pure version first maps the sub-elements
   of a (restricted / merged with the partner / unchanged) and then inserts the imported ones *)
Fixpoint pmerge (fuel : nat) (a : htree) (files : list N) (b : htree) (new_file : N) {struct fuel} : res (out htree) :=
  match fuel with
  | O => Fuel
  | S fl =>
    let pty := h_ty a in
    let la := hkeys pty 0 (h_content a) in
    let lb := hkeys pty 0 (h_content b) in
    let min_ver_a := p_files_min_version files in
    let min_ver_b := match fver new_file with Some v => v | None => LATEST end in
    let version := N.min min_ver_a min_ver_b in
    (let* splitable := splittable_in T pty version in
     let* wko := walk (S (List.length la + List.length lb)) la lb splitable (N.of_nat (List.length (h_content a))) 0 la lb
                      (mkWalked [] [] []) in
     match wko with
     | ER e => Val (ER e)
     | OK wk =>
       let* c1o := map_kids (child_step (pmerge fl) wk files (h_content b) new_file) 0 (h_content a) in
       match c1o with
       | ER e => Val (ER e)
       | OK c1 =>
         let* c2o := p_import pty (h_content b) (wk_b_only wk) 0 new_file min_ver_b c1 in
         match c2o with
         | ER e => Val (ER e)
         | OK c2 => Val (OK (h_set_content a c2))
         end
       end
     end)%res
  end.

(* merge_file_data on the tree of the model root *)
Definition pmerge_file (a : htree) (files : list N) (b : htree) (new_file : N) : res (out htree) :=
  (let* r := pmerge 1000 a files b new_file in
   match r with
   | ER e => Val (ER e)
   | OK a' => Val (OK (h_set_local a' (set_add new_file (h_local a'))))
   end)%res.

End Pure.

(* ------------------------------------------------------------------ the comparison the model runner performs *)
(* For a load into a model that already has files: the tree of the model read back from the heap before the load,
   merged purely with the parsed tree, must be the tree read back after the load (when the load succeeds); a merge
   error of one side must be a merge error of the other.  Returns None when the two agree, else a description. *)
Section Check.
Variable T : tables.
Variable LATEST name_definition_ref : N.

Definition check_load (w : world) (m : N) (root : Parser.etree) (version : N) (r : out N) (w' : world) : option string :=
  match nth_opt (w_models w) (N.to_nat m) with
  | None => None
  | Some x =>
    if is_empty (m_files x) then None else
    match abs_model w m with
    | None => Some "refine: the model tree cannot be read back before the load"
    | Some ha =>
      let fid := N.of_nat (List.length (w_files w)) in
      let fver := fun f => if f =? fid then Some version
                           else match nth_opt (w_files w) (N.to_nat f) with Some fl => Some (f_version fl) | None => None end in
      let files := fold_right set_add [] (m_files x) in
      match pmerge_file T LATEST name_definition_ref fver ha files (htree_of_etree root) fid, r with
      | Val (OK expected_tree), OK _ =>
        match abs_model w' m with
        | Some h' => if htree_eqb h' expected_tree then None else Some "refine: heap merge and pure merge differ"
        | None => Some "refine: the model tree cannot be read back after the load"
        end
      | Val (ER InvalidFileMerge), ER InvalidFileMerge => None
      | _, ER OverlappingDataError => None        (* rejected before the merge *)
      | _, ER DuplicateFilenameError => None      (* rejected before the parse *)
      | Val (OK _), ER _ => Some "refine: the heap merge failed, the pure merge succeeded"
      | Val (ER _), _ => Some "refine: the pure merge failed, the heap merge did not (or with another error)"
      | Pan _, _ => Some "refine: the pure merge panicked"
      | Fuel, _ => Some "refine: the pure merge ran out of fuel"
      end
    end
  end.

(* the same with the parse done here (entry point of the model runner) *)
Definition check_load_buffer (tab_el tab_at tab_en : nametab) (check_fn : N -> list N -> res bool)
           (float_parse : list N -> option N) (w : world) (m : N) (buffer : list N) (strict : bool)
           (r : out N) (w' : world) : option string :=
  match Parser.load strict T tab_el tab_at tab_en check_fn float_parse buffer with
  | Val (Parser.Ret root st) => check_load w m root (Parser.p_version st) r w'
  | _ => None
  end.

End Check.

(* on the tiny tables: both orders of the example split, and the conflict *)
Module TinyCheck.
Import TinyM.
Definition chk (first second : Parser.etree) : option (option string) :=
  match load_tree "f0" first new_world with
  | Val (OK _, w) =>
    match load_tree "f1" second w with
    | Val (r, w') => Some (check_load tiny LATEST DEFREF w 0 second 2 r w')
    | _ => None
    end
  | _ => None
  end.
Example refine_01 : chk file0 file1 = Some None. Proof. vm_compute. reflexivity. Qed.
Example refine_10 : chk file1 file0 = Some None. Proof. vm_compute. reflexivity. Qed.
End TinyCheck.
