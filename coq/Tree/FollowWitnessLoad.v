(* Tree/FollowWitnessLoad.v — C06 in loaded worlds: a witness built by the LOADER MODEL itself (Tree/Load.v load_parsed
   over the tiny tables of Tree/Index.v; the parser state is the specification-side one, MergeSpec.pstate_of).
     file a   /p1 (3) with SYSTEM /p1/S (6);  /p10 (8) with SYSTEM /p10/R (11) holding a reference 13 -> /p1/S
     file b   the same document again: everything is merged into the elements of file a, the incoming elements are
              dropped; the incoming reference element (26) stays in the referrer list of /p1/S as a DEAD entry
     file c   /p2 (29) with SYSTEM /p2/Q (32) holding a reference 34 -> /p1/S: imported, live, registered BEHIND 26
   In the result (i) the element made by AutosarModel::new (node 0) still carries PModel 0 although the root of model 0
   is node 1 (the stale root: TreeFacts fails, TreeFactsL is what remains), (ii) get_references_to("/p1/S") is
   [13; 26; 34] with 26 dead.  set_item_name(/p1, "q") rewrites 13 AND 34. *)
From Coq Require Import Lia.
From AV Require Import Base.Bytes Base.Outcome Hash.HashModel Tree.Heap Tree.Ops Tree.Script Tree.Index Tree.Refs
  Tree.IndexProofsBase Tree.Load Tree.MergeSpec Tree.Follow Tree.FollowL.
From AV Require Xml.Parser.
Import Tiny.
Open Scope list_scope.
Open Scope N_scope.

Definition sn (s : string) : Parser.etree := Parser.ENode nSHORT (3, 3) [] [inr (Parser.DString (BS s))] None.
Definition named (name : N) (s : string) (kids : list Parser.etree) : Parser.etree :=
  Parser.ENode name (name, name) [] (inl (sn s) :: map inl kids) None.
Definition plain (name : N) (kids : list Parser.etree) : Parser.etree :=
  Parser.ENode name (name, name) [] (map inl kids) None.
Definition ref (p : string) : Parser.etree :=
  Parser.ENode nREF (6, 6) [(0, Parser.DEnum 1)] [inr (Parser.DString (BS p))] None.

Definition new_world : world :=
  match new_model tiny [] (mkWorld (fun _ => None) 0 [] []) with Val (_, w) => w | _ => mkWorld (fun _ => None) 0 [] [] end.
Notation load_tree filename e := (load_parsed tiny LATEST 99 0 (BS filename) e (pstate_of tiny 2 e)).
Notation rename := (e_set_item_name tiny tiny_check_fn LATEST).

Definition file_a : Parser.etree :=
  plain nAUTOSAR [plain nPKGS [named nPKG "p1" [plain nELEMENTS [named nSYSTEM "S" []]];
                               named nPKG "p10" [plain nELEMENTS [named nSYSTEM "R" [ref "/p1/S"]]]]].
Definition file_c : Parser.etree :=
  plain nAUTOSAR [plain nPKGS [named nPKG "p2" [plain nELEMENTS [named nSYSTEM "Q" [ref "/p1/S"]]]]].

Definition three_loads : res world :=
  match load_tree "a" file_a new_world with
  | Val (OK _, wa) =>
    match load_tree "b" file_a wa with
    | Val (OK _, wb) => match load_tree "c" file_c wb with Val (OK _, wc) => Val wc | _ => Fuel end
    | _ => Fuel
    end
  | _ => Fuel
  end.

Theorem rename_skips_dead_witness :
  exists w w' n0 x,
    three_loads = Val w /\
    (* the stale root *)
    w_nodes w 0 = Some n0 /\ n_parent n0 = PModel 0 /\ model_at w 0 = Some x /\ m_root x = 1 /\
    (* a dead entry in front of a live referrer *)
    origins_of x (BS "/p1/S") = [13; 26; 34] /\ dead_before_live tiny w 0 (BS "/p1/S") 26 34 /\
    (* the rename *)
    live_ref tiny w 0 3 /\ SpecPath tiny w 0 3 (BS "/p1") /\
    rename 3 (BS "q") w = Val (OK tt, w') /\
    map (ref_text tiny w) [13; 34] = [Some (BS "/p1/S"); Some (BS "/p1/S")] /\
    map (ref_text tiny w') [13; 34] = [Some (BS "/q/S"); Some (BS "/q/S")].
Proof.
  destruct (three_loads) as [w| |] eqn:Hw; try (vm_compute in Hw; discriminate Hw).
  exists w. vm_compute in Hw. injection Hw as <-.
  eexists. eexists. eexists.
  split; [reflexivity|]. split; [vm_compute; reflexivity|]. split; [reflexivity|]. split; [vm_compute; reflexivity|].
  split; [reflexivity|]. split; [vm_compute; reflexivity|].
  split.
  { eexists. exists [13], [], []. split; [vm_compute; reflexivity|]. split; [vm_compute; reflexivity|].
    split; [eexists; split; [vm_compute; reflexivity|vm_compute; reflexivity]|].
    split; [|vm_compute; reflexivity].
    eexists. split; [vm_compute; reflexivity|]. cbn [m_root].
    apply (reach_step tiny _ _ 32); [apply (reach_step tiny _ _ 31); [apply (reach_step tiny _ _ 29); [apply (reach_step tiny _ _ 2); [apply (reach_step tiny _ _ 1); [apply reach_refl|]|]|]|]|];
      (eexists; split; [vm_compute; reflexivity|vm_compute; tauto]). }
  split.
  { eexists. split; [vm_compute; reflexivity|]. cbn [m_root].
    apply (reach_step tiny _ _ 2); [apply (reach_step tiny _ _ 1); [apply reach_refl|]|]; (eexists; split; [vm_compute; reflexivity|vm_compute; tauto]). }
  split.
  { eexists. split; [vm_compute; reflexivity|]. cbn [m_root]. exists (BS "/p1"). split; [|vm_compute; reflexivity].
    match goal with |- dpath _ ?W _ _ ?q => replace q with (([] ++ seg tiny W 2) ++ seg tiny W 3) by (vm_compute; reflexivity) end.
    eapply dp_step; [eapply dp_step; [apply dp_refl|]|]; (eexists; split; [vm_compute; reflexivity|vm_compute; tauto]). }
  split; [vm_compute; reflexivity|]. split; vm_compute; reflexivity.
Qed.

(* the load clause (C06_load_keeps_referrers) is not vacuous: the second load of the same document is a MERGE that is
   accepted; the referrer 13 registered by the first load is still registered under its text, the reference element of the
   second file (26) is appended *)
Definition w_load_a : world := match load_tree "a" file_a new_world with Val (_, w) => w | _ => new_world end.
Definition w_load_b : world := match load_tree "b" file_a w_load_a with Val (_, w) => w | _ => new_world end.

Example load_extends_referrers_example :
  exists xa xb,
    load_tree "a" file_a new_world = Val (OK 0, w_load_a) /\ load_tree "b" file_a w_load_a = Val (OK 1, w_load_b) /\
    model_at w_load_a 0 = Some xa /\ model_at w_load_b 0 = Some xb /\ m_files xa = [0] /\ NoDupKeys (m_origins xa) /\
    origins_of xa (BS "/p1/S") = [13] /\ origins_of xb (BS "/p1/S") = [13; 26].
Proof.
  destruct (model_at w_load_a 0) as [xa|] eqn:Ea; [|vm_compute in Ea; discriminate Ea].
  destruct (model_at w_load_b 0) as [xb|] eqn:Eb; [|vm_compute in Eb; discriminate Eb].
  exists xa, xb. vm_compute in Ea. injection Ea as <-. vm_compute in Eb. injection Eb as <-.
  split; [vm_compute; reflexivity|]. split; [vm_compute; reflexivity|]. split; [reflexivity|]. split; [reflexivity|].
  split; [reflexivity|]. split; [|split; vm_compute; reflexivity].
  unfold NoDupKeys. vm_compute. repeat constructor; intros [].
Qed.
