(* GENERATED from InvProofsDetFiles6.v by tools/c03_gen_invL.py: the same proof for DFL over TreeInvL, see Tree/InvL_Base.v *)
(* Tree/InvProofsDetFiles6.v — C03: DFL is preserved, part 6: file operations, new_model, set_item_name; DF_stepL. *)
From Coq Require Import PeanoNat Arith.
From AV Require Import Base.Bytes Base.Outcome Hash.HashModel Tree.Heap Tree.Ops Tree.Script Tree.Inv
  Tree.InvProofsBase Tree.InvProofsCore Tree.InvProofsTree Tree.InvProofsPrim Tree.InvEBase Tree.InvE_Create Tree.InvE_Remove Tree.InvE_Files Tree.InvE_Move Tree.InvE_Copy Tree.InvE_Main Tree.Load Tree.InvL_Base Tree.InvProofsCreate
  Tree.InvProofsData Tree.InvProofsRefs Tree.InvProofsRemove Tree.InvProofsFiles Tree.InvProofsMove
  Tree.InvProofsCopy Tree.InvProofsRename Tree.InvProofsFrame Tree.StaleProofs Tree.InvProofs
  Tree.InvProofsDetFiles Tree.InvProofsDetFiles2 Tree.InvProofsDetFiles3 Tree.InvL_3 Tree.InvProofsDetFiles4 Tree.InvL_4
  Tree.InvProofsDetFiles5 Tree.InvL_5.
Open Scope string_scope.
Open Scope list_scope.
Open Scope N_scope.

Notation pframe := (frame pfNR pfNN).
Notation pfp := (frp pfNR pfNN).

Lemma SD_startL w : DFL w -> SDL w w.
Proof. intros D. split; [apply same_tree_refl | exact D]. Qed.

Section DF6.
Variable T : tables.
Variable tab_el tab_en : nametab.
Variable check_fn : N -> list N -> res bool.
Variable LATEST : N.
Variable root_attrs : list (N * cdata).

(* ---------- add_to_file ---------- *)
Lemma e_add_to_file_dfL e f w r w' : Core w -> DFL w -> e_add_to_file T e f w = Val (r, w') -> DFL w'.
Proof.
  intros C D H. unfold e_add_to_file in H.
  wrun_ro H ltac:(exact D).
  match goal with Hq : model_of e w = Val (OK ?mm, w) |- _ =>
    apply model_of_top in Hq as (_ & t & Ht & Hr); destruct t as [|m1|]; try discriminate end.
  match goal with Hq : w_nodes w e = Some ?nx |- _ => rename nx into n; rename Hq into Hn end.
  wstepn H u Em.
  assert (S1 : SDL w w0).
  { eapply (SD_modifyL w w e); [apply SD_startL; auto | exact Ht | | exact Em]. intros nx. split; reflexivity. }
  wstepn H p Ep. 2:{ apply S1. }
  unfold parent_of in Ep. destruct (n_parent n) as [|mm|pi] eqn:Hpn; winv Ep.
  - winv H. apply S1.
  - wstepn H wq Eq; winv Eq.
    assert (Htpi : Top w pi (PModel m1)).
    { remember (PModel m1) as t eqn:Et. destruct Ht as [x nx Hnx Hnp | x nx p t Hnx Hpx Ht].
      - assert (nx = n) as -> by congruence. exfalso. eapply Hnp. eauto.
      - assert (nx = n) as -> by congruence. subst t. assert (p = pi) as -> by congruence. auto. }
    apply (atfr_dfL T _ _ _ _ _ _ _ _ C S1 Htpi H).
Qed.

(* ---------- create_file ---------- *)
Lemma m_create_file_dfL m name version w r w' : Core w -> DFL w -> m_create_file T m name version w = Val (r, w') -> DFL w'.
Proof.
  intros C D H. unfold m_create_file in H.
  wrun_ro H ltac:(exact D).
  wstepn H u Ep. apply wput_inv in Ep as (_ & ->).
  wstepn H u2 Em. apply modify_model_inv in Em as (y & Hy & _ & ->).
  wstepn H w2 Eg; winv Eg.
  match type of H with _ ?wa = _ => set (wk := wa) in * end.
  assert (S1 : SDL w wk).
  { split.
    - repeat split; auto. unfold wk, wmodels. cbn. cbn in Hy. rewrite nth_opt_nth_error in Hy.
      eapply roots_list_set; eauto.
    - assert (Hnodes : forall z, w_nodes wk z = w_nodes w z) by reflexivity.
      exact (DFL_pframe _ _ C (frame_nodes_eq pfNR pfNN pfNR_refl _ _ Hnodes) D). }
  wstepn H o Ea. winv H.
  apply wtry_inv in Ea as (r0 & Ea & _).
  match goal with Hx : nth_opt (w_models w) (N.to_nat m) = Some ?x0 |- _ =>
    assert (Hroot : exists nr, w_nodes w (m_root x0) = Some nr /\ n_parent nr = PModel m) end.
  { rewrite nth_opt_nth_error in Hx. assert (Hr : nth_error (roots w) (N.to_nat m) = Some (m_root x)).
    { unfold roots. rewrite nth_error_map, Hx. reflexivity. }
    destruct (c_roots _ C _ _ Hr) as (nr & Hnr & Hpr). exists nr. split; auto. rewrite Hpr. f_equal. lia. }
  destruct Hroot as (nr & Hnr & Hpr).
  assert (Htr : Top w (m_root x) (PModel m)).
  { rewrite <- Hpr. eapply T_here; eauto. rewrite Hpr. congruence. }
  apply (atfr_dfL T _ _ _ _ _ _ _ _ C S1 Htr Ea).
Qed.

(* ---------- remove_from_file ---------- *)
Lemma DFL_set_files_dead w s n fs : w_nodes w s = Some n -> (fs = [] \/ fs = [DEAD]) -> DFL w -> DFL (wset w s (set_files n fs)).
Proof.
  intros Hn Hfs D x nx Hd Hx.
  assert (S : same_tree w (wset w s (set_files n fs))) by (eapply st_wset; eauto; reflexivity).
  assert (Hd0 : Detached w x) by (unfold Detached in *; eapply top_same_tree; [apply same_tree_sym; exact S|exact Hd]).
  destruct (N.eq_dec x s) as [->|Hxs].
  - rewrite nodes_wset_eq in Hx. injection Hx as <-. exact Hfs.
  - rewrite nodes_wset_neq in Hx by auto. eapply D; eauto.
Qed.

Lemma DF_nonempty_topL w x n : Core w -> DFL w -> w_nodes w x = Some n -> n_files n <> [] -> n_files n <> [DEAD] -> exists m0, Top w x (PModel m0).
Proof.
  intros C D Hn Hf Hnd. assert (Ha : allocated w x) by (eexists; eauto). destruct (c_depth _ C _ Ha) as (h & Hd).
  destruct (depth_top _ _ _ Hd) as (t & Ht). destruct t as [|m0|p].
  - exfalso. destruct (D _ _ Ht Hn); auto.
  - eauto.
  - exfalso. eapply top_not_pelem; eauto.
Qed.

Lemma DFp_scanL f ids : DFpL (scan_loop f ids).
Proof.
  induction ids as [|s rest IH]; intros w r w' I D H; cbn [scan_loop] in H.
  - winv H. auto.
  - wstepn H sn Es; winv Es. destruct (negb (is_empty (n_files n))) eqn:Ee.
    + wstepn H u Ew. apply set_node_wset in Ew as (_ & ->).
      assert (Hf : n_files n <> []) by (destruct (n_files n); [discriminate | congruence]).
      assert (D1 : DFL (wset w s (set_files n (set_remove f (n_files n))))).
      { destruct (list_eq_dec N.eq_dec (n_files n) [DEAD]) as [Hdead|Hnd].
        - apply DFL_set_files_dead; [exact Hn| |exact D]. rewrite Hdead. unfold set_remove. cbn [filter]. match goal with |- context [if ?b then _ else _] => destruct b end; auto.
        - destruct (DF_nonempty_topL _ _ _ (proj1 I) D Hn Hf Hnd) as (m0 & Ht).
          apply (DF_set_filesL w s n _ m0); [exact Hn | reflexivity | reflexivity | exact Ht | exact D]. }
      assert (I1 : TreeInvL (wset w s (set_files n (set_remove f (n_files n))))).
      { eapply TreeInvL_same_tree; [|exact I]. eapply st_wset; eauto. }
      wstepn H r0 Er; [winv H|]; eapply IH; eauto.
    + eapply IH; eauto.
Qed.

Lemma e_remove_from_file_dfpL e f : DFpL (e_remove_from_file T e f).
Proof.
  intros w r w' I D H. pose proof I as (C & O). unfold e_remove_from_file in H.
  wrun_ro H ltac:(exact D).
  match goal with Hq : model_of e w = Val (OK ?mm, w) |- _ =>
    apply model_of_top in Hq as (_ & t & Ht & Hr); destruct t as [|m1|]; try discriminate end.
  match goal with Hq : w_nodes w e = Some ?nx |- _ => rename nx into n; rename Hq into Hn end.
  match goal with Hq : file_membership e w = Val (OK (_, ?cc), w) |- _ => rename cc into cur end.
  wstepn H u Er.
  2:{ destruct (is_empty (set_remove f cur)); [|winv Er].
      revert Er. unfold parent_of. destruct (n_parent n) as [|mm|pi]; intros Er; wrun Er idtac; auto. }
  match type of Er with _ = Val (_, ?wx) => rename wx into w1 end.
  assert (Hstep : DFL w1 /\ TreeInvL w1 /\ (is_empty (set_remove f cur) = false -> w1 = w)).
  { destruct (is_empty (set_remove f cur)); [|winv Er; auto].
    match type of Er with ?mm _ = _ => assert (P : PresE mm /\ DFpL mm) end.
    { split.
      - apply PresE_bind; [apply PresE_ro; ro_tac|]. intros [pi|]; [|apply PresE_ro; ro_tac].
        apply PresE_bind; [apply PresE_try, Pres_e_removeE | intros; apply PresE_ro; ro_tac].
      - apply DFp_bindL; [apply PresE_ro; ro_tac | apply DFp_roL; ro_tac |]. intros [pi|]; [|apply DFp_roL; ro_tac].
        apply DFp_bindL; [apply PresE_try, Pres_e_removeE | apply DFp_tryL, DF_e_removeL | intros; apply DFp_roL; ro_tac]. }
    destruct P as (P1 & P2). split; [eapply P2; eauto|]. split; [eapply TreeInvL_PresE; eauto | discriminate]. }
  destruct Hstep as (D1 & I1 & Hsame).
  wstepn H u2 Em.
  match type of Em with _ = Val (_, ?wx) => rename wx into w2 end.
  assert (I2 : TreeInvL w2).
  { eapply TreeInvL_same_tree; [|exact I1]. eapply (stp_modify_node e); [|exact Em]. intros nx. split; reflexivity. }
  assert (D2 : DFL w2).
  { destruct (is_empty (set_remove f cur)) eqn:Ee.
    - assert (Hr0 : set_remove f cur = []) by (destruct (set_remove f cur); [auto|discriminate]).
      rewrite Hr0 in Em. eapply (DFL_pframe w1 w2 (proj1 I1)); [|exact D1].
      refine ((_ : pfp (modify_node e (fun x => set_files x []))) _ _ _ Em).
      apply frp_modify_node; auto with frp. intros nx. split; [reflexivity | right; reflexivity].
    - rewrite (Hsame eq_refl) in *. apply modify_node_wset in Em as (n1 & Hn1 & _ & ->).
      apply (DF_set_filesL w e n1 _ m1); [exact Hn1 | reflexivity | reflexivity | exact Ht | exact D1]. }
  match type of H with ?mm _ = _ => assert (P : DFpL mm) end.
  { apply DFp_bindL; [apply PresE_ro; ro_tac | apply DFp_roL; ro_tac |]. intros wq.
    apply DFp_bindL; [apply PresE_ro; ro_tac | apply DFp_roL; ro_tac |]. intros ids.
    apply DFp_bindL; [apply PresE_stp; apply (stp_scan_loop f ids) | apply (DFp_scanL f ids) |].
    intros to_delete. induction to_delete as [|d rest IHd]; [apply DFp_roL; ro_tac|].
    apply DFp_bindL; [apply PresE_ro; ro_tac | apply DFp_roL; ro_tac |]. intros dn.
    apply DFp_bindL; [apply PresE_ro; ro_tac | apply DFp_roL; ro_tac |]. intros p.
    destruct p as [[pi|]|].
    + apply DFp_bindL; [| | intros; exact IHd].
      * apply PresE_bind; [apply PresE_try, Pres_e_removeE | intros; apply PresE_ro; ro_tac].
      * apply DFp_bindL; [apply PresE_try, Pres_e_removeE | apply DFp_tryL, DF_e_removeL | intros; apply DFp_roL; ro_tac].
    + apply DFp_bindL; [apply PresE_ro; ro_tac | apply DFp_roL; ro_tac | intros; exact IHd].
    + apply DFp_bindL; [apply PresE_ro; ro_tac | apply DFp_roL; ro_tac | intros; exact IHd]. }
  eapply P; eauto.
Qed.

(* ---------- remove_file ---------- *)
Lemma pfp_set_file_membership_nilL e : pfp (set_file_membership T e []).
Proof.
  unfold set_file_membership.
  fr_tac ltac:(first [ split; [reflexivity | right; reflexivity] | split; [reflexivity | left; reflexivity] ]).
Qed.

Lemma m_remove_file_dfpL m f : DFpL (m_remove_file T m f).
Proof.
  intros w r w' I D H. unfold m_remove_file in H.
  wrun_ro H ltac:(exact D).
  wstepn H u Es.
  match goal with Hx : nth_opt (w_models w) (N.to_nat m) = Some ?x0, Hi : index_of _ _ = Some ?k |- _ =>
    pose proof (stp_set_model_same m x0 (fun y => set_mfiles y (swap_remove_at (m_files y) k)) (fun y => eq_refl)
                  _ _ _ Hx Es) as ST end.
  apply set_model_inv in Es as (_ & ->).
  match type of H with _ ?wa = _ => set (w1 := wa) in * end.
  assert (I1 : TreeInvL w1) by (eapply TreeInvL_same_tree; eauto).
  assert (D1 : DFL w1).
  { assert (Hnodes : forall z, w_nodes w1 z = w_nodes w z) by reflexivity.
    exact (DFL_pframe _ _ (proj1 I) (frame_nodes_eq pfNR pfNN pfNR_refl _ _ Hnodes) D). }
  clearbody w1.
  match type of H with ?mm _ = _ => assert (P : DFpL mm) end.
  { destruct (is_empty _).
    - apply DFp_bindL; [apply PresE_ro; ro_tac | apply DFp_roL; ro_tac |]. intros rn.
      apply DFp_bindL.
      + induction (n_content rn) as [|[c|d] l IHl]; [apply PresE_ro; ro_tac | | exact IHl].
        apply PresE_bind; [apply PresE_try, Pres_e_removeE | intros; exact IHl].
      + induction (n_content rn) as [|[c|d] l IHl]; [apply DFp_roL; ro_tac | | exact IHl].
        apply DFp_bindL; [apply PresE_try, Pres_e_removeE | apply DFp_tryL, DF_e_removeL | intros; exact IHl].
      + intros _. apply DFp_bindL; [apply PresE_stp, stp_set_file_membership | apply DFp_pfpL, pfp_set_file_membership_nilL |].
        intros _. apply DFp_pfpL. pf_tac.
    - apply DFp_bindL; [apply PresE_try, Pres_e_remove_from_fileE | apply DFp_tryL, e_remove_from_file_dfpL |].
      intros _. apply DFp_roL. ro_tac. }
  eapply P; eauto.
Qed.

(* ---------- new_model ---------- *)
Lemma new_model_dfL w r w' : Core w -> DFL w -> new_model T root_attrs w = Val (r, w') -> DFL w'.
Proof.
  intros C D H. unfold new_model in H.
  destruct (et_new T (autosar_element T)) as [ty|s|]; destruct (elem T (autosar_element T)) as [ed|s'|];
    try discriminate.
  injection H as <- <-. eapply (DFL_pframe w); [exact C | | exact D].
  pose proof (core_fresh_none _ C) as Hf. apply skel_none in Hf. split.
  - intros i Hi. cbn. unfold upd. destruct (i =? w_next w); congruence.
  - intros i n' Hn'. cbn in Hn'. unfold upd in Hn'. destruct (i =? w_next w) eqn:E.
    + apply N.eqb_eq in E. subst i. injection Hn' as <-. right. split; auto. reflexivity.
    + left. exists n'. split; auto. apply pfNR_refl.
Qed.

(* ---------- set_item_name ---------- *)
Lemma set_item_name_pframeL h new_name w r w' :
  e_set_item_name T check_fn LATEST h new_name w = Val (r, w') -> pframe w w'.
Proof.
  intros H. unfold e_set_item_name in H.
  wrun_ro H ltac:(apply pframe_refl).
  match type of H with context [fix_identifiables ?mm ?op ?np] =>
    set (m0 := mm) in *; set (op0 := op) in *; set (np0 := np) in * end.
  match type of H with ?rest ?wa = _ => refine ((_ : pfp rest) wa _ _ H) end.
  apply frp_bind; [ fr_side .. | apply pfp_raw_set_cdata | ]. intros _.
  apply frp_bind; [ fr_side .. | apply pfp_fix_identifiables | ]. intros _.
  apply frp_bind; [ fr_side .. | apply frp_ro; [ fr_side .. | ro_tac ] | ]. intros x.
  change (pfp (each_loop (rename_ref_body m0 op0 np0) (map fst (m_origins x)))).
  apply pfp_each_loop. intros a'. apply pfp_rename_ref_body.
Qed.

End DF6.
