(* Tree/InvProofsChars3.v — C03: CharsLeaf / type frame, part 3: create family, moves, set_item_name. *)
From Coq Require Import PeanoNat Arith.
From AV Require Import Base.Bytes Base.Outcome Hash.HashModel Tree.Heap Tree.Ops Tree.Script Tree.Inv
  Tree.InvProofsBase Tree.InvProofsCore Tree.InvProofsTree Tree.InvProofsPrim Tree.InvProofsCreate
  Tree.InvProofsData Tree.InvProofsRefs Tree.InvProofsRemove Tree.InvProofsFiles Tree.InvProofsMove
  Tree.InvProofsCopy Tree.InvProofsRename Tree.InvProofsFrame Tree.InvProofsChars Tree.InvProofsChars2.
Open Scope string_scope.
Open Scope list_scope.
Open Scope N_scope.

Section CF3.
Variable T : tables.
Variable tab_el tab_en : nametab.
Variable check_fn : N -> list N -> res bool.
Variable LATEST : N.

Notation cfp := (frp (cNR T) (cNN T)).
Notation cframe := (frame (cNR T) (cNN T)).

Lemma cframe_alloc_leaf w nd r w' : Core w -> n_content nd = [] -> alloc nd w = Val (r, w') -> cframe w w'.
Proof.
  intros C Hc H. apply alloc_walloc in H as (_ & ->). apply frame_walloc; [apply cNR_refl | |].
  - apply (proj1 (skel_none _ _)). apply core_fresh_none. auto.
  - intros _. unfold kids. rewrite Hc. reflexivity.
Qed.

(* ---------- create ---------- *)
Lemma cframe_create_inner self name pos version w r w' n :
  Core w -> w_nodes w self = Some n -> ~ is_chars T n ->
  create_sub_element_inner T self name pos version w = Val (r, w') -> cframe w w'.
Proof.
  intros C Hn Hc H. unfold create_sub_element_inner in H.
  wrun_ro H ltac:(apply cframe_refl).
  wstepn H c Ea. match type of Ea with alloc ?nd _ = _ => pose proof (cframe_alloc_leaf _ nd _ _ C eq_refl Ea) as F1 end.
  apply alloc_walloc in Ea as ([= ->] & ->).
  wstepn H u Ei; [winv H|]; (eapply cframe_trans; [exact F1|]);
    (eapply cframe_content_insert; [rewrite nodes_walloc_old by (eapply core_not_fresh; eauto); exact Hn | exact Hc | exact Ei]).
Qed.

Definition cfC {A} (m : W A) : Prop := forall w r w', Core w -> m w = Val (r, w') -> cframe w w'.
Lemma cfC_cfp {A} (m : W A) : cfp m -> cfC m.
Proof. intros H w r w' _ E. eapply H; eauto. Qed.
Lemma cfC_bind_ro {A B} (m : W A) (k : A -> W B) : ro m -> (forall a, cfC (k a)) -> cfC (wbind m k).
Proof.
  intros Hm Hk w r w' C H. apply wbind_inv in H as [(a & w1 & H1 & H2) | (e & H1 & _)].
  - pose proof (Hm _ _ _ H1). subst. eapply Hk; eauto.
  - pose proof (Hm _ _ _ H1). subst. apply cframe_refl.
Qed.

Lemma cfC_raw_create_sub self name version : cfC (raw_create_sub_element T self name version).
Proof.
  intros w r w' C H. unfold raw_create_sub_element in H. wrun_ro H ltac:(apply cframe_refl).
  match goal with Hq : calc_element_insert_range T ?nn _ _ w = _ |- _ => pose proof (calc_not_chars _ _ _ _ _ _ Hq) as Hc end.
  eapply cframe_create_inner; eauto.
Qed.
Lemma cfC_raw_create_sub_at self name pos version : cfC (raw_create_sub_element_at T self name pos version).
Proof.
  intros w r w' C H. unfold raw_create_sub_element_at in H. wrun_ro H ltac:(apply cframe_refl).
  match goal with Hq : calc_element_insert_range T ?nn _ _ w = _ |- _ => pose proof (calc_not_chars _ _ _ _ _ _ Hq) as Hc end.
  eapply cframe_create_inner; eauto.
Qed.
Lemma cfC_e_create_sub h name : cfC (e_create_sub_element T LATEST h name).
Proof. unfold e_create_sub_element. apply cfC_bind_ro; [ro_tac | intros; apply cfC_raw_create_sub]. Qed.
Lemma cfC_e_create_sub_at h name pos : cfC (e_create_sub_element_at T LATEST h name pos).
Proof. unfold e_create_sub_element_at. apply cfC_bind_ro; [ro_tac | intros; apply cfC_raw_create_sub_at]. Qed.
Lemma cfC_e_get_or_create h name : cfC (e_get_or_create_sub_element T LATEST h name).
Proof.
  unfold e_get_or_create_sub_element. apply cfC_bind_ro; [ro_tac|]. intros v.
  apply cfC_bind_ro; [ro_tac|]. intros [c|]; [apply cfC_cfp; c_tac | apply cfC_raw_create_sub].
Qed.

Lemma cframe_create_named_inner self name item pos m version w r w' n :
  Core w -> w_nodes w self = Some n -> ~ is_chars T n ->
  create_named_sub_element_inner T check_fn self name item pos m version w = Val (r, w') -> cframe w w'.
Proof.
  intros C Hn Hc H. unfold create_named_sub_element_inner in H.
  wrun_ro H ltac:(apply cframe_refl).
  wstepn H c Ea.
  match type of Ea with alloc ?nd _ = _ => pose proof (cframe_alloc_leaf _ nd _ _ C eq_refl Ea) as F1 end.
  apply alloc_walloc in Ea as ([= ->] & ->).
  match type of F1 with cframe _ (walloc w ?nd0) => set (nd := nd0) in * end.
  assert (Hn1 : w_nodes (walloc w nd) self = Some n).
  { rewrite nodes_walloc_old by (eapply core_not_fresh; eauto). exact Hn. }
  wstepn H u Ei.
  2:{ eapply cframe_trans; [exact F1|]. exact (cframe_content_insert T self pos _ _ _ _ n Hn1 Hc Ei). }
  pose proof (cframe_content_insert T self pos _ _ _ _ n Hn1 Hc Ei) as F2.
  destruct (create_pair w self n nd pos _ _ C Hn eq_refl eq_refl Ei) as (C1 & _).
  wstepn H s Es.
  2:{ eapply cframe_trans; [exact F1|]. eapply cframe_trans; [exact F2|]. eapply cfC_raw_create_sub; eauto. }
  pose proof (cfC_raw_create_sub _ _ _ _ _ _ C1 Es) as F3.
  match type of H with ?mm ?wa = _ =>
    refine (cframe_trans T _ _ _ F1 (cframe_trans T _ _ _ F2 (cframe_trans T _ _ _ F3 ((_ : cfp mm) wa _ _ H)))) end.
  c_tac.
Qed.

Lemma cfC_raw_create_named self name item m version : cfC (raw_create_named_sub_element T check_fn self name item m version).
Proof.
  intros w r w' C H. unfold raw_create_named_sub_element in H. wrun_ro H ltac:(apply cframe_refl).
  match goal with Hq : calc_element_insert_range T ?nn _ _ w = _ |- _ => pose proof (calc_not_chars _ _ _ _ _ _ Hq) as Hc end.
  eapply cframe_create_named_inner; eauto.
Qed.
Lemma cfC_raw_create_named_at self name item pos m version :
  cfC (raw_create_named_sub_element_at T check_fn self name item pos m version).
Proof.
  intros w r w' C H. unfold raw_create_named_sub_element_at in H. wrun_ro H ltac:(apply cframe_refl).
  match goal with Hq : calc_element_insert_range T ?nn _ _ w = _ |- _ => pose proof (calc_not_chars _ _ _ _ _ _ Hq) as Hc end.
  eapply cframe_create_named_inner; eauto.
Qed.
Lemma cfC_e_create_named h name item : cfC (e_create_named_sub_element T check_fn LATEST h name item).
Proof.
  unfold e_create_named_sub_element. apply cfC_bind_ro; [ro_tac|]. intros m.
  apply cfC_bind_ro; [ro_tac | intros; apply cfC_raw_create_named].
Qed.
Lemma cfC_e_create_named_at h name item pos : cfC (e_create_named_sub_element_at T check_fn LATEST h name item pos).
Proof.
  unfold e_create_named_sub_element_at. apply cfC_bind_ro; [ro_tac|]. intros m.
  apply cfC_bind_ro; [ro_tac | intros; apply cfC_raw_create_named_at].
Qed.
Lemma cfC_e_get_or_create_named h name item : cfC (e_get_or_create_named_sub_element T check_fn LATEST h name item).
Proof.
  unfold e_get_or_create_named_sub_element. apply cfC_bind_ro; [ro_tac|]. intros m.
  apply cfC_bind_ro; [ro_tac|]. intros v. apply cfC_bind_ro; [ro_tac|]. intros n.
  apply cfC_bind_ro; [ro_tac|]. intros [c|]; [apply cfC_cfp; c_tac | apply cfC_raw_create_named].
Qed.

End CF3.
