(* Tree/OrdHistOps.v — C07, histories: every operation of Tree/Script.v keeps AllOrd T v (every child list in specification order
   for the version v), for every outcome, in a world where min_version answers v (MV: all files have version v).
     15 operations never add a sub-element and never allocate: Tree/OrdFrameOps.v (Sh);
     create / create_named / get_or_create: Tree/OrdHistAlloc.v (the insertion lies inside the computed range);
     copy: deep_copy keeps AllOrd for every allocated node (Tree/OrdHistCopy.v), the destination by C07_order_inv_copy's lemmas;
     move: the destination by C07_order_inv_move_all, every other node by the frame SI (Tree/OrdHistAttach.v);
     new_model: one node without content. *)
From Coq Require Import PeanoNat Arith Lia.
From AV Require Import Base.Bytes Base.Outcome Hash.HashModel Spec.SpecOps Tree.Heap Tree.Ops Tree.Script Tree.Inv
  Tree.InvProofsBase Tree.InvProofsCore Tree.InvProofsPrim Tree.InvProofsCreate Tree.InvProofsRefs Tree.InvProofsRemove
  Tree.Range Tree.SpecWF Tree.RangeProofsLoop Tree.RangeProofsCalc Tree.RangeProofsOps Tree.RangeProofsKeep Tree.RangeProofsMoveFinal
  Tree.RangeProofsCopy Tree.RangeProofsMovePos Tree.RangeProofsMoveSame
  Tree.CopyProofsDefs Tree.CopyProofsDeep Tree.CopyProofsCreate Tree.CopyProofsBridge
  Tree.OrdFrame Tree.OrdFrameOps Tree.OrdHistAlloc Tree.CompatHist3 Tree.OrdHistCopy Tree.OrdHistAttach.
Open Scope string_scope.
Open Scope list_scope.
Open Scope N_scope.

Lemma core_fresh w : Core w -> Fresh w.
Proof.
  intros C i Hi. destruct (w_nodes w i) as [n|] eqn:E; [|reflexivity].
  assert (L : i < w_next w) by (apply (c_alloc _ C); exists n; exact E). lia.
Qed.

Section Ops.
Variable T : tables.
Hypothesis WF : SpecWF T.
Variable tab_el tab_en : nametab.
Variable check_fn : N -> list N -> res bool.
Variable LATEST : N.
Variable root_attrs : list (N * cdata).
Variable v : N.

Notation AllOrd := (AllOrd T v).
Notation AP := (AP T v).

(* min_version answers v *)
Definition MV (w : world) : Prop := forall h vh w1, min_version LATEST h w = Val (OK vh, w1) -> vh = v.

Lemma shp_register_subtree w0 fuel : forall m cur i, shp w0 (register_subtree T fuel m cur i).
Proof. induction fuel as [|f IH]; intros m cur i; cbn [register_subtree]; sh_go. Qed.

(* ---------- copy ---------- *)
Lemma SI_copy_tail w0 self c pos m version n :
  SI self c pos w0
    (do cn0 <- get_node c;
     do nv <- wl (is_named_in_version T (n_type cn0) version);
     do id0 <- is_identifiable T cn0;
     if nv && negb id0 then wfail ItemNameRequired else
     do path <- path_unchecked T n;
     modify_node c (fun x => set_parent x (PElem self));;
     do cn <- get_node c;
     do ident <- is_identifiable T cn;
     (if ident then do _ <- make_unique_item_name T c m path; wret tt else wret tt);;
     do w2 <- wget;
     register_subtree T (fuel_of w2) m path c;;
     content_insert self pos (CElem c);;
     wret c)%W.
Proof.
  pose proof (shp_register_subtree w0) as HR.
  repeat first [ apply SI_bind; [ solve [ sh_go | apply HR ] | intros ? ] | si_step ].
Qed.

Lemma ccsei_allord self other pos m w r w' n o :
  Core w -> AllOrd w -> w_nodes w self = Some n -> w_nodes w other = Some o ->
  InsOK T v w self (n_name o) pos ->
  create_copied_sub_element_inner T self other pos m v w = Val (r, w') -> AllOrd w'.
Proof.
  intros C A Hn Ho (n1 & items & Hn1 & HI & HO) H. rewrite Hn in Hn1. injection Hn1 as <-.
  pose proof (Core_Closed _ C) as Cw. pose proof (core_fresh _ C) as F.
  destruct (ccsei_spec T _ _ _ _ _ _ _ _ Cw H) as (_ & (Hnext & Hold & _) & ns & Hns & Hspec).
  rewrite Hn in Hns. injection Hns as <-.
  (* the node self, from C13's characterisation *)
  assert (Hself : exists n' items', w_nodes w' self = Some n' /\ items_of w' (n_content n') = Some items' /\
                                     Ordered T (n_type n') v items').
  { assert (Hframe : forall i cn, w_nodes w i = Some cn -> exists cn', w_nodes w' i = Some cn' /\ n_name cn' = n_name cn).
    { intros i cn Hi. destruct (N.eq_dec i self) as [->|NE].
      - rewrite Hn in Hi. injection Hi as <-. destruct r as [c|e].
        + destruct Hspec as (Hh & _). eexists. split; [exact Hh|reflexivity].
        + eexists. split; [exact Hspec|reflexivity].
      - exists cn. split; [|reflexivity]. rewrite Hold; auto. eapply (proj1 Cw); eauto. }
    destruct r as [c|e].
    - destruct (copied_inner_items T self other n o pos m v w c w' items Cw Hn Ho HI H) as (n' & A1 & A2 & A3).
      exists n', (ins items (N.to_nat pos) (Some (n_name o))). rewrite A2. auto.
    - destruct (A _ _ Hn) as (items0 & HI0 & HO0). rewrite HI in HI0. injection HI0 as <-.
      exists n, items. split; [exact Hspec|]. split; [apply (items_of_frame w); auto|exact HO0]. }
  (* every other node: deep_copy, then Sh steps, then the insertion *)
  assert (Hoth : forall i x, i <> self -> w_nodes w' i = Some x ->
            exists it, items_of w' (n_content x) = Some it /\ Ordered T (n_type x) v it).
  { unfold create_copied_sub_element_inner in H.
    wstepn H nn En. winv En. wstepn H wc Ew. winv Ew. wstepn H anc Ea; [|intros i x _ Hx; exact (A _ _ Hx)].
    destruct anc; [winv H; intros i x _ Hx; exact (A _ _ Hx)|].
    apply wbind_inv in H as [(c & w1 & H1 & H2) | (e & H1 & ->)].
    - destruct (deep_copy_dco T v _ _ _ _ _ _ H1 A F) as (A1 & F1 & _ & _).
      pose proof (SI_copy_tail w1 self c pos m v n0 w1 r w' (Sh_refl w1) H2) as S.
      destruct (ShI_others T v self c pos w1 r w' A1 F1 S) as (_ & Ho' & _). exact Ho'.
    - destruct (deep_copy_dco T v _ _ _ _ _ _ H1 A F) as (A1 & _). intros i x _ Hx. exact (A1 _ _ Hx). }
  intros i x Hx. destruct (N.eq_dec i self) as [->|NE]; [|exact (Hoth i x NE Hx)].
  destruct Hself as (n' & items' & Hn' & HI' & HO'). rewrite Hn' in Hx. injection Hx as <-. eauto.
Qed.

Lemma raw_copy_allord self other m w r w' :
  Core w -> AllOrd w -> raw_create_copied_sub_element T self other m v w = Val (r, w') -> AllOrd w'.
Proof.
  intros C A H. unfold raw_create_copied_sub_element in H.
  wstepn H n En. winv En. wstepn H o Eo. winv Eo. wstepn H se Ec; [|exact A].
  destruct se as [lo hi]. pose proof (calc_bound T _ _ _ _ _ _ _ Ec) as Hb.
  apply (ccsei_allord self other hi m w r w' n0 n C A Hn Hn0); [|exact H].
  apply (range_insok T WF v w self n0 (n_name n) lo hi w hi A Hn Ec). lia.
Qed.

Lemma raw_copy_at_allord self other pos m w r w' :
  Core w -> AllOrd w -> raw_create_copied_sub_element_at T self other pos m v w = Val (r, w') -> AllOrd w'.
Proof.
  intros C A H. unfold raw_create_copied_sub_element_at in H.
  wstepn H n En. winv En. wstepn H o Eo. winv Eo. wstepn H se Ec; [|exact A].
  destruct se as [lo hi]. destruct ((lo <=? pos) && (pos <=? hi)) eqn:EP; [|winv H; exact A].
  apply andb_true_iff in EP as [E1 E2]. apply N.leb_le in E1. apply N.leb_le in E2.
  apply (ccsei_allord self other pos m w r w' n0 n C A Hn Hn0); [|exact H].
  apply (range_insok T WF v w self n0 (n_name n) lo hi w pos A Hn Ec). lia.
Qed.

(* ---------- move ---------- *)
Lemma assemble h w' :
  (forall i x, i <> h -> w_nodes w' i = Some x -> exists it, items_of w' (n_content x) = Some it /\ Ordered T (n_type x) v it) ->
  (forall x, w_nodes w' h = Some x -> exists it, items_of w' (n_content x) = Some it /\ Ordered T (n_type x) v it) ->
  AllOrd w'.
Proof. intros Ho Hh i x Hx. destruct (N.eq_dec i h) as [->|NE]; [exact (Hh x Hx)|exact (Ho i x NE Hx)]. Qed.

Lemma move_allord h mv w r w' :
  Core w -> AllOrd w -> MV w ->
  e_move_element_here T tab_en check_fn LATEST h mv w = Val (r, w') -> AllOrd w'.
Proof.
  intros C A M H0. pose proof (core_fresh _ C) as F. pose proof H0 as H. unfold e_move_element_here in H.
  destruct (h =? mv); [winv H; exact A|].
  wstepn H ms Ems; [|exact A]. wstepn H m Em; [|exact A]. wstepn H vs Evs; [|exact A]. wstepn H vh Ev; [|exact A].
  pose proof (M _ _ _ Evs) as ->. pose proof (M _ _ _ Ev) as ->.
  destruct (negb (v =? v)); [winv H; exact A|].
  wstepn H n En. winv En. wstepn H mn Emn. winv Emn. wstepn H se Ec; [|exact A]. destruct se as [lo e].
  destruct (A _ _ Hn) as (items & HI & HO).
  assert (Hdest : forall c, r = OK c -> forall x, w_nodes w' h = Some x ->
            exists it, items_of w' (n_content x) = Some it /\ Ordered T (n_type x) v it).
  { intros c -> x Hx.
    destruct (order_inv_move_all T WF tab_en check_fn LATEST h mv n0 n ms m v v w c w' items Hn Hn0 Ems Em Evs Ev HI HO (or_intror H0))
      as (n' & items' & Hn' & Ty & HI' & HO').
    rewrite Hn' in Hx. injection Hx as <-. rewrite Ty. eauto. }
  assert (Hsi : forall pos, ShI h mv pos w r w' -> AllOrd w').
  { intros pos S. destruct (ShI_others T v h mv pos w r w' A F S) as (_ & Ho & _).
    destruct r as [c|e0]; [|exact (Sh_allord T v _ _ S A)].
    apply (assemble h); [exact Ho|exact (Hdest c eq_refl)]. }
  destruct (m =? ms).
  - wstepn H sp Esp; [|exact A]. destruct sp as [p|]; [|winv H; exact A].
    destruct (p =? h); [winv H; exact A|].
    exact (Hsi e (SI_move_local T check_fn w h mv e m v w r w' (Sh_refl w) H)).
  - exact (Hsi e (SI_move_full T tab_en check_fn w h mv e m ms v w r w' (Sh_refl w) H)).
Qed.

Lemma move_at_allord h mv pos w r w' :
  Core w -> AllOrd w -> MV w ->
  e_move_element_here_at T tab_en check_fn LATEST h mv pos w = Val (r, w') -> AllOrd w'.
Proof.
  intros C A M H0. pose proof (core_fresh _ C) as F. pose proof H0 as H. unfold e_move_element_here_at in H.
  destruct (h =? mv); [winv H; exact A|].
  wstepn H ms Ems; [|exact A]. wstepn H m Em; [|exact A]. wstepn H vs Evs; [|exact A]. wstepn H vh Ev; [|exact A].
  pose proof (M _ _ _ Evs) as ->. pose proof (M _ _ _ Ev) as ->.
  destruct (negb (v =? v)); [winv H; exact A|].
  wstepn H n En. winv En. wstepn H mn Emn. winv Emn. wstepn H se Ec; [|exact A]. destruct se as [lo e].
  destruct (A _ _ Hn) as (items & HI & HO).
  assert (Hdest : forall c, r = OK c -> forall x, w_nodes w' h = Some x ->
            exists it, items_of w' (n_content x) = Some it /\ Ordered T (n_type x) v it).
  { intros c -> x Hx.
    destruct (order_inv_move_all T WF tab_en check_fn LATEST h mv n0 n ms m v v w c w' items Hn Hn0 Ems Em Evs Ev HI HO
                (or_introl (ex_intro _ pos H0))) as (n' & items' & Hn' & Ty & HI' & HO').
    rewrite Hn' in Hx. injection Hx as <-. rewrite Ty. eauto. }
  assert (Hsi : ShI h mv pos w r w' -> AllOrd w').
  { intros S. destruct (ShI_others T v h mv pos w r w' A F S) as (_ & Ho & _).
    destruct r as [c|e0]; [|exact (Sh_allord T v _ _ S A)].
    apply (assemble h); [exact Ho|exact (Hdest c eq_refl)]. }
  destruct ((lo <=? pos) && (pos <=? e)); [|winv H; exact A].
  destruct (m =? ms).
  - wstepn H sp Esp; [|exact A]. destruct sp as [p|]; [|winv H; exact A].
    destruct (p =? h).
    + (* reposition inside the same parent: only h changes *)
      unfold move_element_position in H. wstepn H nh Enh. winv Enh. rewrite Hn in Hn1. injection Hn1 as <-.
      destruct (pos <? e); [|winv H; exact A].
      destruct (index_of (citem_is mv) (n_content n0)) as [cur|]; [|winv H; exact A].
      wstepn H u Es. apply set_node_wset in Es as (_ & ->). winv H.
      apply (assemble h); [|exact (Hdest mv eq_refl)].
      intros i x NE Hx. rewrite nodes_wset_neq in Hx by exact NE. destruct (A _ _ Hx) as (it & HIx & HOx).
      exists it. split; [|exact HOx]. apply (items_of_frame w); [|exact HIx]. apply (NameExt_wset w h n0); auto.
    + exact (Hsi (SI_move_local T check_fn w h mv pos m v w r w' (Sh_refl w) H)).
  - exact (Hsi (SI_move_full T tab_en check_fn w h mv pos m ms v w r w' (Sh_refl w) H)).
Qed.

(* ---------- the public allocating calls ---------- *)
Lemma ap_allord {A} (m : W A) w r w' : OrdHistAlloc.AP T v m -> Core w -> AllOrd w -> m w = Val (r, w') -> AllOrd w'.
Proof. intros Hm C A0 H. exact (proj1 (Hm _ _ _ A0 (core_fresh _ C) H)). Qed.

Lemma create_allord h name w r w' : Core w -> AllOrd w -> MV w ->
  e_create_sub_element T LATEST h name w = Val (r, w') -> AllOrd w'.
Proof.
  intros C A M H. unfold e_create_sub_element in H. wstepn H vh Ev; [|exact A]. pose proof (M _ _ _ Ev) as ->.
  exact (ap_allord _ _ _ _ (AP_raw_create T WF v h name) C A H).
Qed.
Lemma create_at_allord h name pos w r w' : Core w -> AllOrd w -> MV w ->
  e_create_sub_element_at T LATEST h name pos w = Val (r, w') -> AllOrd w'.
Proof.
  intros C A M H. unfold e_create_sub_element_at in H. wstepn H vh Ev; [|exact A]. pose proof (M _ _ _ Ev) as ->.
  exact (ap_allord _ _ _ _ (AP_raw_create_at T WF v h name pos) C A H).
Qed.
Lemma named_allord h name item w r w' : Core w -> AllOrd w -> MV w ->
  e_create_named_sub_element T check_fn LATEST h name item w = Val (r, w') -> AllOrd w'.
Proof.
  intros C A M H. unfold e_create_named_sub_element in H. wstepn H m Em; [|exact A]. wstepn H vh Ev; [|exact A].
  pose proof (M _ _ _ Ev) as ->. exact (ap_allord _ _ _ _ (AP_raw_create_named T WF check_fn v h name item m) C A H).
Qed.
Lemma named_at_allord h name item pos w r w' : Core w -> AllOrd w -> MV w ->
  e_create_named_sub_element_at T check_fn LATEST h name item pos w = Val (r, w') -> AllOrd w'.
Proof.
  intros C A M H. unfold e_create_named_sub_element_at in H. wstepn H m Em; [|exact A]. wstepn H vh Ev; [|exact A].
  pose proof (M _ _ _ Ev) as ->. exact (ap_allord _ _ _ _ (AP_raw_create_named_at T WF check_fn v h name item pos m) C A H).
Qed.
Lemma get_or_create_allord h name w r w' : Core w -> AllOrd w -> MV w ->
  e_get_or_create_sub_element T LATEST h name w = Val (r, w') -> AllOrd w'.
Proof.
  intros C A M H. unfold e_get_or_create_sub_element in H. wstepn H vh Ev; [|exact A]. pose proof (M _ _ _ Ev) as ->.
  wstepn H s Es; [|exact A]. destruct s as [c|]; [winv H; exact A|].
  exact (ap_allord _ _ _ _ (AP_raw_create T WF v h name) C A H).
Qed.
Lemma get_or_create_named_allord h name item w r w' : Core w -> AllOrd w -> MV w ->
  e_get_or_create_named_sub_element T check_fn LATEST h name item w = Val (r, w') -> AllOrd w'.
Proof.
  intros C A M H. unfold e_get_or_create_named_sub_element in H. wstepn H m Em; [|exact A]. wstepn H vh Ev; [|exact A].
  pose proof (M _ _ _ Ev) as ->. wstepn H n En. winv En. wstepn H s Es; [|exact A]. destruct s as [c|]; [winv H; exact A|].
  exact (ap_allord _ _ _ _ (AP_raw_create_named T WF check_fn v h name item m) C A H).
Qed.
Lemma copy_allord h other w r w' : Core w -> AllOrd w -> MV w ->
  e_create_copied_sub_element T LATEST h other w = Val (r, w') -> AllOrd w'.
Proof.
  intros C A M H. unfold e_create_copied_sub_element in H. destruct (h =? other); [winv H; exact A|].
  wstepn H m Em; [|exact A]. wstepn H vh Ev; [|exact A]. pose proof (M _ _ _ Ev) as ->.
  exact (raw_copy_allord h other m w r w' C A H).
Qed.
Lemma copy_at_allord h other pos w r w' : Core w -> AllOrd w -> MV w ->
  e_create_copied_sub_element_at T LATEST h other pos w = Val (r, w') -> AllOrd w'.
Proof.
  intros C A M H. unfold e_create_copied_sub_element_at in H. destruct (h =? other); [winv H; exact A|].
  wstepn H m Em; [|exact A]. wstepn H vh Ev; [|exact A]. pose proof (M _ _ _ Ev) as ->.
  exact (raw_copy_at_allord h other pos m w r w' C A H).
Qed.

Lemma new_model_allord w r w' : Core w -> AllOrd w -> new_model T root_attrs w = Val (r, w') -> AllOrd w'.
Proof.
  intros C A H. pose proof (core_fresh _ C) as F. unfold new_model in H.
  destruct (et_new T (autosar_element T)) as [ty| |]; destruct (elem T (autosar_element T)) as [ed| |]; try discriminate.
  injection H as _ <-.
  set (nd := mkNode _ _ _ _ _ _ _).
  destruct (allord_alloc T v w nd A F eq_refl) as (A1 & _). intros i x Hx.
  destruct (A1 i x Hx) as (it & HI & HO). exists it. split; [|exact HO].
  apply (items_of_frame (walloc w nd)); [|exact HI]. intros j cn Hj. exists cn. split; [exact Hj|reflexivity].
Qed.

(* ---------- every operation ---------- *)
Lemma sh_allord_op {A} (m : W A) w r w' : (forall w0, shp w0 m) -> AllOrd w -> m w = Val (r, w') -> AllOrd w'.
Proof. intros Hm A0 H. exact (Sh_allord T v _ _ (Hm w w r w' (Sh_refl w) H) A0). Qed.

Lemma wunit_inv (m : W unit) w r w' : wunit m w = Val (r, w') -> exists r0, m w = Val (r0, w').
Proof. unfold wunit. intros H. apply wbind_inv in H as [(a & w1 & H1 & H2)|(e & H1 & _)]; [winv H2|]; eauto. Qed.
Lemma welem_inv (m : W id) w r w' : welem m w = Val (r, w') -> exists r0, m w = Val (r0, w').
Proof. unfold welem. intros H. apply wbind_inv in H as [(a & w1 & H1 & H2)|(e & H1 & _)]; [winv H2|]; eauto. Qed.

Theorem step_allord o w r w' :
  Core w -> AllOrd w -> MV w ->
  run_op T tab_el tab_en check_fn LATEST root_attrs o w = Val (r, w') -> AllOrd w'.
Proof.
  intros C A M H. destruct o; cbn [run_op] in H;
    try (apply welem_inv in H as (r0 & H)); try (apply wunit_inv in H as (r0 & H)).
  - eapply create_allord; eauto.
  - eapply create_at_allord; eauto.
  - eapply named_allord; eauto.
  - eapply named_at_allord; eauto.
  - eapply copy_allord; eauto.
  - eapply copy_at_allord; eauto.
  - eapply move_allord; eauto.
  - eapply move_at_allord; eauto.
  - exact (sh_allord_op _ _ _ _ (fun w0 => shp_e_remove T w0 h sub) A H).
  - exact (sh_allord_op _ _ _ _ (fun w0 => shp_e_remove_kind T w0 h name) A H).
  - exact (sh_allord_op _ _ _ _ (fun w0 => shp_set_item_name T check_fn LATEST w0 h name) A H).
  - exact (sh_allord_op _ _ _ _ (fun w0 => shp_set_cdata T tab_en check_fn LATEST w0 h v0) A H).
  - exact (sh_allord_op _ _ _ _ (fun w0 => shp_remove_cdata T w0 h) A H).
  - exact (sh_allord_op _ _ _ _ (fun w0 => shp_insert_citem T w0 h text pos) A H).
  - exact (sh_allord_op _ _ _ _ (fun w0 => shp_remove_citem T w0 h pos) A H).
  - exact (sh_allord_op _ _ _ _ (fun w0 => shp_set_ref_target T tab_el tab_en check_fn LATEST w0 h target) A H).
  - exact (sh_allord_op _ _ _ _ (fun w0 => shp_set_attribute T check_fn LATEST w0 h attr v0) A H).
  - apply wbind_inv in H as [(b & w1 & H1 & H2)|(e & H1 & _)]; [winv H2|];
      exact (sh_allord_op _ _ _ _ (fun w0 => shp_remove_attribute T w0 h attr) A H1).
  - exact (sh_allord_op _ _ _ _ (fun w0 => shp_set_comment w0 h c) A H).
  - eapply get_or_create_allord; eauto.
  - eapply get_or_create_named_allord; eauto.
  - apply wbind_inv in H as [(b & w1 & H1 & H2)|(e & H1 & _)]; [winv H2|]; eapply new_model_allord; eauto.
  - apply wbind_inv in H as [(b & w1 & H1 & H2)|(e & H1 & _)]; [winv H2|];
      exact (sh_allord_op _ _ _ _ (fun w0 => shp_create_file T w0 m name version) A H1).
  - exact (sh_allord_op _ _ _ _ (fun w0 => shp_remove_file T w0 m f) A H).
  - exact (sh_allord_op _ _ _ _ (fun w0 => shp_add_to_file T w0 h f) A H).
  - exact (sh_allord_op _ _ _ _ (fun w0 => shp_remove_from_file T w0 h f) A H).
Qed.

End Ops.
