(* Tree/MergePureProofsMain.v — C09 at the pure level, the main induction: [pmerge_rep]. *)
From Coq Require Import Sorting.Sorted Permutation.
From AV Require Import Base.Bytes Base.Outcome Hash.HashModel Tree.Heap Tree.Ops Tree.Load Tree.MergeSpec Tree.MergePure
  Tree.LoadProofsWalk Tree.MergePureProofsBase Tree.MergePureProofs.
From AV Require Xml.Lexer Xml.Parser.
Open Scope string_scope.
Open Scope list_scope.
Open Scope N_scope.

(* ------------------------------------------------------------------ generic facts about the pure algorithm *)
Section Generic.
Variable T : tables.
Variables LATEST defref : N.
Variable fver : N -> option N.

Lemma pmerge_unfold fl a files b new_file :
  pmerge T LATEST defref fver (S fl) a files b new_file =
  (let pty := h_ty a in
   let la := hkeys T defref pty 0 (h_content a) in
   let lb := hkeys T defref pty 0 (h_content b) in
   let min_ver_a := p_files_min_version LATEST fver files in
   let min_ver_b := match fver new_file with Some v => v | None => LATEST end in
   let version := N.min min_ver_a min_ver_b in
   let* splitable := splittable_in T pty version in
   let* wko := walk (S (List.length la + List.length lb)) la lb splitable (N.of_nat (List.length (h_content a))) 0 la lb
                    (mkWalked [] [] []) in
   match wko with
   | ER e => Val (ER e)
   | OK wk =>
     let* c1o := map_kids (child_step (pmerge T LATEST defref fver fl) wk files (h_content b) new_file) 0 (h_content a) in
     match c1o with
     | ER e => Val (ER e)
     | OK c1 =>
       let* c2o := p_import T pty (h_content b) (wk_b_only wk) 0 new_file min_ver_b c1 in
       match c2o with
       | ER e => Val (ER e)
       | OK c2 => Val (OK (h_set_content a c2))
       end
     end
   end)%res.
Proof. reflexivity. Qed.

Definition is_data (it : htree + cdata) : Prop := match it with inr _ => True | inl _ => False end.

Lemma hkeys_all_data ty l : Forall is_data l -> forall i, hkeys T defref ty i l = [].
Proof. induction 1 as [|[c|d] r H HF IH]; intros i; cbn [hkeys]; [reflexivity|destruct H|apply IH]. Qed.

Lemma map_kids_all_data f l : Forall is_data l -> forall i, map_kids f i l = Val (OK l).
Proof.
  induction 1 as [|[c|d] r H HF IH]; intros i; cbn [map_kids]; [reflexivity|destruct H|].
  rewrite IH. reflexivity.
Qed.

Lemma data_items_all_data l : Forall is_data (data_items l).
Proof. induction l as [|[c|d] r IH]; cbn [data_items]; [constructor|exact IH|constructor; [exact I|exact IH]]. Qed.

Lemma perm_forall {A} (P : A -> Prop) l l' : Permutation l l' -> Forall P l -> Forall P l'.
Proof. intros Hp HF. rewrite Forall_forall in *. intros x Hx. apply HF. eapply Permutation_in; [apply Permutation_sym; exact Hp|exact Hx]. Qed.

(* a permutation of a list of elements is a list of elements *)
Lemma perm_map_inl (hs' : list htree) (l : list (htree + cdata)) :
  Permutation l (map inl hs') -> exists hs, l = map inl hs /\ Permutation hs hs'.
Proof.
  intros Hp. remember (map inl hs') as m eqn:Em. revert hs' Em.
  induction Hp as [|x l l' Hp IH|x y l|l l' l'' Hp1 IH1 Hp2 IH2]; intros hs' Em.
  - destruct hs'; [|discriminate]. exists []. split; [reflexivity|constructor].
  - destruct hs' as [|h hs']; [discriminate|]. cbn [map] in Em. injection Em as -> ->.
    destruct (IH hs' eq_refl) as (hs & -> & P). exists (h :: hs). split; [reflexivity|]. constructor. exact P.
  - destruct hs' as [|h1 [|h2 hs']]; try discriminate. cbn [map] in Em. injection Em as -> -> ->.
    exists (h2 :: h1 :: hs'). split; [reflexivity|]. apply perm_swap.
  - destruct (IH2 hs' Em) as (hs2 & -> & P2). destruct (IH1 hs2 eq_refl) as (hs1 & -> & P1).
    exists hs1. split; [reflexivity|]. eapply perm_trans; eauto.
Qed.

(* mapping the sub-elements of a list of elements *)
Lemma map_kids_forall2 (f : N -> htree -> res (out htree)) (Q : htree -> mtree -> Prop) :
  forall hs ca from,
    List.length hs = List.length ca ->
    (forall k h c, nth_error hs k = Some h -> nth_error ca k = Some c ->
                   exists h', f (from + N.of_nat k) h = Val (OK h') /\ Q h' c) ->
    exists hs1, map_kids f from (map inl hs) = Val (OK (map inl hs1)) /\ Forall2 Q hs1 ca.
Proof.
  induction hs as [|h hs IH]; intros [|c ca] from Hl Hf; try discriminate.
  - exists []. split; [reflexivity|constructor].
  - destruct (Hf O h c eq_refl eq_refl) as (h' & E & Hq). rewrite N.add_0_r in E.
    destruct (IH ca (from + 1)) as (hs1 & E1 & F1).
    + cbn in Hl. lia.
    + intros k h0 c0 H1 H2. destruct (Hf (S k) h0 c0 H1 H2) as (h0' & E0 & Hq0). exists h0'. split; [|exact Hq0].
      rewrite <- E0. f_equal. lia.
    + exists (h' :: hs1). split; [|constructor; auto]. cbn [map map_kids]. rewrite E. cbn [bind]. rewrite E1. reflexivity.
Qed.

Lemma filter_or_perm {A} (p q : A -> bool) l :
  Permutation (filter p l ++ filter (fun x => q x && negb (p x)) l) (filter (fun x => p x || q x) l).
Proof.
  induction l as [|x l IH]; cbn [filter app]; [constructor|].
  destruct (p x) eqn:Ep; cbn [orb andb negb app].
  - rewrite andb_false_r. constructor. exact IH.
  - rewrite andb_true_r. destruct (q x).
    + eapply perm_trans; [apply Permutation_sym, Permutation_middle|]. constructor. exact IH.
    + exact IH.
Qed.

End Generic.

Section Main.
Variable T : tables.
Variables LATEST defref v : N.
Variable fver : N -> option N.
Hypothesis fver_v : forall f, fver f = Some v.

Lemma pview_name g t : h_name (pview g t) = m_name t.
Proof. destruct t. rewrite pview_unfold. reflexivity. Qed.

Lemma p_insert_range_bag ty cur name r :
  content_mode T ty = Val MBag -> find_sub_element T ty name v = Val (Some r) ->
  p_insert_range T ty cur name v = Val (OK (0, N.of_nat (List.length cur))).
Proof.
  intros Hm Hf. unfold p_insert_range. rewrite Hm. cbn [bind]. change (MBag =? MCharacters) with false. cbv iota.
  rewrite Hf. cbn [bind]. destruct r as [sub idx]. rewrite N.eqb_refl. reflexivity.
Qed.

(* import_new_items below a bag: every element of `imps` is inserted somewhere *)
Lemma p_import_bag ty bcontent g (Q : htree -> mtree -> Prop) :
  content_mode T ty = Val MBag ->
  forall bs imps,
    Forall2 (fun (p : id * N) c =>
               nth_opt bcontent (N.to_nat (fst p)) = Some (inl (pview g c)) /\
               (exists r, find_sub_element T ty (m_name c) v = Val (Some r)) /\
               Q (h_import g (pview g c)) c) bs imps ->
    forall idx hsx cx,
      Forall2 Q hsx cx ->
      exists hs2 c2l,
        p_import T ty bcontent bs idx g v (map inl hsx) = Val (OK (map inl hs2)) /\
        Forall2 Q hs2 c2l /\ Permutation c2l (cx ++ imps).
Proof.
  intros Hm bs imps HF. induction HF as [|[bid ip] c bs imps (Hn & (r & Hf) & Hq) HF IH]; intros idx hsx cx Hx.
  - exists hsx, cx. split; [reflexivity|]. split; [exact Hx|]. rewrite app_nil_r. apply Permutation_refl.
  - cbn [p_import]. cbn [fst] in Hn. rewrite Hn. rewrite pview_name.
    rewrite (p_insert_range_bag ty (map inl hsx) (m_name c) r Hm Hf). cbn [bind].
    set (dest := N.min (N.max (ip + idx) 0) (N.of_nat (List.length (map inl hsx)))).
    assert (Hd : (N.of_nat (List.length (map (@inl htree cdata) hsx)) <? dest) = false).
    { apply N.ltb_ge. unfold dest. lia. }
    rewrite Hd.
    replace (insert_at (map inl hsx) (N.to_nat dest) (inl (h_import g (pview g c))))
      with (map (@inl htree cdata) (insert_at hsx (N.to_nat dest) (h_import g (pview g c)))) by apply insert_at_map.
    destruct (IH (idx + 1) (insert_at hsx (N.to_nat dest) (h_import g (pview g c))) (insert_at cx (N.to_nat dest) c))
      as (hs2 & c2l & E & F2 & P2).
    { apply Forall2_insert_at; auto. }
    exists hs2, c2l. split; [exact E|]. split; [exact F2|].
    eapply perm_trans; [exact P2|].
    eapply perm_trans; [apply Permutation_app_tail; apply insert_at_perm|].
    cbn [app]. apply Permutation_middle.
Qed.

(* ---------- membership arithmetic ---------- *)
Lemma set_add_nonempty_l x l : set_add x l <> [].
Proof. destruct l as [|y l]; cbn [set_add]; [discriminate|]. destruct (x <? y); [discriminate|]. destruct (x =? y); discriminate. Qed.

Lemma bytes_eqb_false a b : a <> b -> bytes_eqb a b = false.
Proof. intros H. destruct (bytes_eqb a b) eqn:E; [apply bytes_eqb_spec in E; contradiction|reflexivity]. Qed.

Lemma set_add_inj g A B : sset A -> sset B -> ~ In g A -> ~ In g B -> set_add g A = set_add g B -> A = B.
Proof.
  intros HA HB Ha Hb E. apply sset_ext; auto. intros x. split; intros Hx.
  - assert (H : In x (set_add g B)) by (rewrite <- E; apply set_add_in; right; exact Hx).
    apply set_add_in in H as [->|H]; [contradiction|exact H].
  - assert (H : In x (set_add g A)) by (rewrite E; apply set_add_in; right; exact Hx).
    apply set_add_in in H as [->|H]; [contradiction|exact H].
Qed.

Lemma inF_sset F files : sset files -> sset (inF F files).
Proof. apply sset_filter. Qed.

Lemma inF_notin g F files : ~ In g F -> ~ In g (inF F files).
Proof. intros H Hin. apply inF_in in Hin as [_ Hin]. contradiction. Qed.

(* the effective set of a sub-element whose local membership is normalised *)
Lemma eff_of_norm S Sc : Sc <> [] ->
  (if negb (is_empty (norm (Some S) Sc)) then norm (Some S) Sc else S) = Sc.
Proof.
  intros Hne. unfold norm. destruct (bytes_eqb S Sc) eqn:E.
  - cbn. apply bytes_eqb_spec in E. exact E.
  - destruct Sc; [congruence|]. reflexivity.
Qed.

(* the local membership after a merged element was bumped *)
Lemma bump_norm g S Sc h :
  sset S -> sset Sc -> ~ In g S -> ~ In g Sc -> Sc <> [] ->
  h_local h = norm (Some S) Sc ->
  h_bump g h = h_set_local h (norm (Some (set_add g S)) (set_add g Sc)).
Proof.
  intros HS HSc Hg Hgc Hne Hl. unfold h_bump. rewrite Hl. unfold norm. destruct (bytes_eqb S Sc) eqn:E.
  - apply bytes_eqb_spec in E. subst Sc. cbn [is_empty negb]. rewrite bytes_eqb_refl.
    rewrite <- (h_set_local_same h) at 1. rewrite Hl. unfold norm. rewrite bytes_eqb_refl. reflexivity.
  - destruct Sc as [|x Sc']; [congruence|]. cbn [is_empty negb].
    rewrite bytes_eqb_false; [reflexivity|].
    intros E2. apply set_add_inj in E2; auto. subst S. rewrite bytes_eqb_refl in E. discriminate.
Qed.

(* the local membership after an a-only element was restricted *)
Lemma restrict_norm g S Sc h :
  In g (set_add g S) -> ~ In g Sc -> Sc <> [] ->
  h_local h = norm (Some S) Sc ->
  h_restrict S h = h_set_local h (norm (Some (set_add g S)) Sc).
Proof.
  intros _ Hgc Hne Hl. assert (E2 : bytes_eqb (set_add g S) Sc = false).
  { apply bytes_eqb_false. intros E. apply Hgc. rewrite <- E. apply set_add_in. left. reflexivity. }
  unfold norm at 1. rewrite E2. destruct h as [n t a c cm loc]. cbn [h_local] in Hl. subst loc.
  unfold h_restrict, norm. destruct (bytes_eqb S Sc) eqn:E.
  - apply bytes_eqb_spec in E. subst Sc. reflexivity.
  - destruct Sc as [|x Sc']; [congruence|]. reflexivity.
Qed.

(* the ids of the b-only elements denote the views of the elements that fail the test, in order *)
Lemma bonly_forall2 (kcore : mtree -> core) (test : pk -> bool) (testc : mtree -> bool) (bcontent : list (htree + cdata)) g :
  forall l,
  (forall i c, In c l -> test (pk_of i (kcore c)) = testc c) ->
  forall from,
    (forall j c, nth_error l j = Some c -> nth_opt bcontent (N.to_nat (from + N.of_nat j)) = Some (inl (pview g c))) ->
    forall bs : list (id * N),
      map fst bs = map pk_id (filter test (pks_from from (map kcore l))) ->
      Forall2 (fun p c => nth_opt bcontent (N.to_nat (fst p)) = Some (inl (pview g c))) bs (filter testc l).
Proof.
  induction l as [|c l IH]; intros Ht from Hn bs Hb; cbn [map pks_from filter] in *.
  - destruct bs; [constructor|discriminate].
  - assert (Hn' : forall j c0, nth_error l j = Some c0 ->
                                nth_opt bcontent (N.to_nat (from + 1 + N.of_nat j)) = Some (inl (pview g c0))).
    { intros j c0 Hj. specialize (Hn (S j) c0 Hj). rewrite <- Hn. f_equal. lia. }
    assert (Ht' : forall i c0, In c0 l -> test (pk_of i (kcore c0)) = testc c0) by (intros i c0 H0; apply Ht; right; exact H0).
    rewrite (Ht from c (or_introl eq_refl)) in Hb. destruct (testc c).
    + destruct bs as [|[bid ip] bs]; [discriminate|]. cbn [map fst pk_id pk_of] in Hb. injection Hb as -> Hb.
      constructor; [|apply (IH Ht' (from + 1)); auto].
      cbn [fst]. specialize (Hn O c eq_refl). rewrite N.add_0_r in Hn. exact Hn.
    + apply (IH Ht' (from + 1)); auto.
Qed.

Lemma nth_opt_map_inl (l : list htree) j :
  nth_opt (map (@inl htree cdata) l) j = option_map inl (nth_error l j).
Proof. revert j. induction l as [|x l IH]; intros [|j]; cbn; auto. Qed.


Lemma Forall2_impl_in {A B} (R R' : A -> B -> Prop) l1 l2 :
  Forall2 R l1 l2 -> (forall a b, In b l2 -> R a b -> R' a b) -> Forall2 R' l1 l2.
Proof.
  induction 1 as [|a b l1 l2 H HF IH]; intros Hi; constructor.
  - apply Hi; [left; reflexivity|exact H].
  - apply IH. intros a0 b0 Hb. apply Hi. right. exact Hb.
Qed.

Lemma Forall2_map_self {A B} (f : A -> B) (R : B -> A -> Prop) l : (forall x, In x l -> R (f x) x) -> Forall2 R (map f l) l.
Proof. induction l as [|x l IH]; intros H; cbn [map]; constructor; [apply H; left; reflexivity|apply IH; intros y Hy; apply H; right; exact Hy]. Qed.

Lemma pks_from_length l : forall from, List.length (pks_from from l) = List.length l.
Proof. induction l as [|c l IH]; intros from; cbn; auto. Qed.

Lemma map_inl_inj (a b : list htree) : map (@inl htree cdata) a = map inl b -> a = b.
Proof. revert b. induction a as [|x a IH]; intros [|y b]; cbn [map]; try discriminate; auto. intros [= -> E]. f_equal. auto. Qed.

Lemma filter_incl {A} (p : A -> bool) l : incl (filter p l) l.
Proof. intros x Hx. apply filter_In in Hx. tauto. Qed.

Lemma present_cons g F c : present (g :: F) c = present F c || ing g c.
Proof.
  unfold present, ing. destruct (set_mem g (mfiles c)) eqn:E.
  - rewrite orb_true_r. apply negb_true_iff. apply is_empty_false. intros Hnil. apply set_mem_in in E.
    assert (Hin : In g (inF (g :: F) (mfiles c))) by (apply inF_in; split; [exact E|left; reflexivity]).
    rewrite Hnil in Hin. destruct Hin.
  - rewrite orb_false_r. rewrite inF_cons_notin; [reflexivity|]. intros Hin. apply set_mem_in in Hin. congruence.
Qed.


Lemma Good_files t : Good T defref v t -> sset (mfiles t) /\ mfiles t <> [].
Proof. destruct t. intros H. apply Good_unfold in H as (H1 & H2 & _). cbn. auto. Qed.

Lemma in_nth_error {A} (l : list A) x : In x l -> exists k, nth_error l k = Some x.
Proof. apply In_nth_error. Qed.


Lemma filter_filter {A} (p q : A -> bool) l : filter p (filter q l) = filter (fun x => q x && p x) l.
Proof.
  induction l as [|x l IH]; cbn [filter]; [reflexivity|]. destruct (q x); cbn [filter andb]; [|exact IH].
  destruct (p x); rewrite IH; reflexivity.
Qed.

Lemma Forall2_in_r {A B} (R : A -> B -> Prop) (P : B -> Prop) l1 l2 :
  Forall2 R l1 l2 -> Forall P l2 -> Forall2 (fun a b => R a b /\ P b) l1 l2.
Proof. induction 1; intros HF; inversion HF; subst; constructor; auto. Qed.


Lemma nil_of_notin {A} (l : list A) : (forall x, ~ In x l) -> l = [].
Proof. destruct l as [|x l]; [reflexivity|]. intros H. exfalso. apply (H x). left. reflexivity. Qed.

Lemma classic_bag ty : bag_ty T ty \/ ~ bag_ty T ty.
Proof.
  unfold bag_ty. destruct (content_mode T ty) as [m| |] eqn:E1; try (right; intros [H _]; discriminate).
  destruct (is_named T ty) as [b| |] eqn:E2; try (right; intros [_ H]; discriminate).
  destruct (N.eq_dec m MBag) as [->|Hm]; [|right; intros [H _]; injection H as H; contradiction].
  destruct b; [right; intros [_ H]; discriminate|left; auto].
Qed.

(* ---------- import_new_items below a splittable sequence ---------- *)
Lemma insert_at_app_len {A} (a b : list A) x : insert_at (a ++ b) (List.length a) x = a ++ x :: b.
Proof. induction a as [|y a IH]; cbn [app List.length insert_at]; [destruct b; reflexivity|]. rewrite IH. reflexivity. Qed.

(* the insertion range of a new kind among present kinds that are ordered around it: one position *)
Lemma p_range_loop_seq ty (idx : mtree -> list N) (c : mtree) :
  forall A B i,
    (forall x, In x (A ++ B) -> exists sub, find_sub_element T ty (m_name x) v = Val (Some (sub, idx x))) ->
    (forall x, In x (A ++ B) -> exists g gd, find_common_group T ty (idx c) (idx x) = Val g /\ dt T g = Val gd /\ dt_mode gd = MSequence) ->
    (forall x, In x A -> lex_cmp (idx c) (idx x) = Gt) -> (forall x, In x B -> lex_cmp (idx c) (idx x) = Lt) ->
    p_range_loop T ty v (idx c) (map (fun x => Some (m_name x)) (A ++ B)) i i i =
    Val (OK (i + N.of_nat (List.length A), i + N.of_nat (List.length A))).
Proof.
  induction A as [|a A IH]; intros B i Hf Hg HA HB.
  - cbn [app List.length]. rewrite N.add_0_r. destruct B as [|b B]; cbn [map p_range_loop]; [reflexivity|].
    destruct (Hf b (or_introl eq_refl)) as (sub & E). rewrite E. cbn [bind].
    destruct (Hg b (or_introl eq_refl)) as (gr & gd & E1 & E2 & E3). rewrite E1. cbn [bind]. rewrite E2. cbn [bind]. rewrite E3.
    rewrite N.eqb_refl. rewrite (HB b (or_introl eq_refl)). reflexivity.
  - cbn [app map p_range_loop List.length].
    destruct (Hf a (or_introl eq_refl)) as (sub & E). rewrite E. cbn [bind].
    destruct (Hg a (or_introl eq_refl)) as (gr & gd & E1 & E2 & E3). rewrite E1. cbn [bind]. rewrite E2. cbn [bind]. rewrite E3.
    rewrite N.eqb_refl. rewrite (HA a (or_introl eq_refl)).
    rewrite IH; [f_equal; f_equal; f_equal; lia| | | |].
    + intros x Hx. apply Hf. right. exact Hx.
    + intros x Hx. apply Hg. right. exact Hx.
    + intros x Hx. apply HA. right. exact Hx.
    + exact HB.
Qed.

Lemma forall2_names (Q : htree -> mtree -> Prop) hs cs :
  (forall h c, Q h c -> h_name h = m_name c) -> Forall2 Q hs cs ->
  map item_name_of (map (@inl htree cdata) hs) = map (fun x => Some (m_name x)) cs.
Proof. intros HQ. induction 1 as [|h c hs cs H HF IH]; cbn [map item_name_of]; [reflexivity|]. rewrite (HQ h c H), IH. reflexivity. Qed.

Lemma forall2_cons_r_inv {A B} (R : A -> B -> Prop) l y l' :
  Forall2 R l (y :: l') -> exists x l0, l = x :: l0 /\ R x y /\ Forall2 R l0 l'.
Proof. intros H. inversion H; subst. eauto. Qed.

Lemma p_import_seq ty bcontent g (Q : htree -> mtree -> Prop) (idx : mtree -> list N) (ks : list mtree) (p q : mtree -> bool) :
  content_mode T ty = Val MSequence -> NoDup ks ->
  (forall c, In c ks -> exists sub, find_sub_element T ty (m_name c) v = Val (Some (sub, idx c))) ->
  (forall c x, In c ks -> In x ks -> c <> x ->
     exists gr gd, find_common_group T ty (idx c) (idx x) = Val gr /\ dt T gr = Val gd /\ dt_mode gd = MSequence) ->
  (forall l1 c l2, ks = l1 ++ c :: l2 ->
     (forall x, In x l1 -> lex_cmp (idx c) (idx x) = Gt) /\ (forall x, In x l2 -> lex_cmp (idx c) (idx x) = Lt)) ->
  (forall h c, Q h c -> h_name h = m_name c) ->
  (forall x, In x ks -> q x = true -> p x = false) ->
  forall todo done bs hsx idx0,
    ks = done ++ todo ->
    Forall2 (fun (b : id * N) c => nth_opt bcontent (N.to_nat (fst b)) = Some (inl (pview g c)) /\ Q (h_import g (pview g c)) c)
            bs (filter q todo) ->
    Forall2 Q hsx (filter (fun x => p x || q x) done ++ filter p todo) ->
    exists hs2, p_import T ty bcontent bs idx0 g v (map inl hsx) = Val (OK (map inl hs2)) /\
                Forall2 Q hs2 (filter (fun x => p x || q x) ks).
Proof.
  intros Hmode Hnd Hf Hgrp Hsorted HQ Hpq.
  induction todo as [|t todo IH]; intros done bs hsx idx0 Hks Hbs Hx.
  - cbn [filter] in Hbs, Hx. inversion Hbs; subst bs. cbn [p_import]. exists hsx. split; [reflexivity|].
    rewrite app_nil_r in Hx, Hks. rewrite Hks. exact Hx.
  - assert (Hks' : ks = (done ++ [t]) ++ todo) by (rewrite <- app_assoc; exact Hks).
    assert (Ht : In t ks) by (rewrite Hks; apply in_or_app; right; left; reflexivity).
    cbn [filter] in Hbs, Hx. destruct (q t) eqn:Eq.
    + (* t is imported *)
      pose proof (Hpq t Ht Eq) as Ep. rewrite Ep in Hx.
      apply forall2_cons_r_inv in Hbs as ([bid ip] & bs' & -> & (Hn & Hq) & Hbs'). cbn [fst] in Hn.
      set (A := filter (fun x => p x || q x) done) in *. set (B := filter p todo) in *.
      destruct (Hsorted done t todo Hks) as (HGt & HLt).
      assert (HinA : forall x, In x A -> In x done) by (intros x Hx0; apply filter_In in Hx0 as [H0 _]; exact H0).
      assert (HinB : forall x, In x B -> In x todo) by (intros x Hx0; apply filter_In in Hx0 as [H0 _]; exact H0).
      assert (Hin_ks : forall x, In x (A ++ B) -> In x ks /\ x <> t).
      { intros x Hx0. pose proof Hnd as Hnd0. rewrite Hks in Hnd0. apply NoDup_remove_2 in Hnd0.
        apply in_app_or in Hx0 as [Hx0|Hx0].
        - split; [rewrite Hks; apply in_or_app; left; auto|]. intros ->. apply Hnd0. apply in_or_app. left. auto.
        - split; [rewrite Hks; apply in_or_app; right; right; auto|]. intros ->. apply Hnd0. apply in_or_app. right. auto. }
      cbn [p_import]. rewrite Hn. rewrite pview_name.
      unfold p_insert_range. rewrite Hmode. cbn [bind]. change (MSequence =? MCharacters) with false. cbv iota.
      destruct (Hf t Ht) as (sub & Ef). rewrite Ef. cbn [bind].
      change ((MSequence =? MBag) || (MSequence =? MMixed)) with false. cbv iota.
      rewrite (forall2_names Q hsx (A ++ B) HQ Hx).
      rewrite (p_range_loop_seq ty idx t A B 0).
      2:{ intros x Hx0. apply Hf. apply Hin_ks. exact Hx0. }
      2:{ intros x Hx0. destruct (Hin_ks x Hx0) as (H1 & H2). apply Hgrp; auto. }
      2:{ intros x Hx0. apply HGt. auto. }
      2:{ intros x Hx0. apply HLt. auto. }
      cbn [bind]. rewrite N.add_0_l.
      set (k := N.of_nat (List.length A)).
      replace (N.min (N.max (ip + idx0) k) k) with k by lia.
      pose proof (Forall2_length _ _ _ Hx) as Hlen. rewrite app_length in Hlen.
      rewrite map_length.
      destruct (N.of_nat (List.length hsx) <? k) eqn:Elt; [apply N.ltb_lt in Elt; unfold k in Elt; lia|].
      unfold k. rewrite Nat2N.id. rewrite <- insert_at_map.
      apply (IH (done ++ [t]) bs' (insert_at hsx (List.length A) (h_import g (pview g t))) (idx0 + 1) Hks' Hbs').
      rewrite filter_app. cbn [filter]. rewrite Eq, orb_true_r. fold A. rewrite <- app_assoc. cbn [app].
      rewrite <- (insert_at_app_len A B t).
      replace (List.length A) with (List.length A) at 1 by reflexivity.
      apply Forall2_insert_at; [exact Hx|exact Hq].
    + (* t stays where it is *)
      apply (IH (done ++ [t]) bs hsx idx0 Hks' Hbs).
      rewrite filter_app. cbn [filter]. rewrite Eq, orb_false_r. rewrite <- app_assoc.
      destruct (p t); cbn [app]; exact Hx.
Qed.

(* the fuel only has to cover the depth of the master, or of the model it is merged into *)
Theorem pmerge_rep_gen : forall fuel t, Good T defref v t -> forall F g inh a,
  (depth t < fuel \/ hdepth a < fuel)%nat -> (forall f, In f (g :: F) -> fver f = Some v) ->
  ~ In g F -> In g (mfiles t) -> Rep T F inh t a ->
  exists a', pmerge T LATEST defref fver fuel a (inF F (mfiles t)) (pview g t) g = Val (OK a') /\
             h_local a' = h_local a /\
             forall inh', Rep T (g :: F) inh' t (h_set_local a' (norm inh' (inF (g :: F) (mfiles t)))).
Proof.
  induction fuel as [|fl IH]; intros [name ty attrs content comment files] HG F g inh a Hd Hfv HgF Hg HR; [destruct Hd; lia|].
  cbn [mfiles m_fileset] in *.
  pose proof HG as HG0.
  apply Good_unfold in HG as (Hs & Hne & (Hsub & (sp & Hsp) & Hnd & Hkind & (kcore & Hks & Hinj & Hid)) & Hkids).
  apply Rep_unfold in HR as (HS & hc & hc' & -> & HI & HP & Hord).
  set (S := inF F files) in *.
  assert (HS' : inF (g :: F) files = set_add g S) by (apply inF_cons_in; auto).
  rewrite pmerge_unfold. cbn [h_ty h_content]. rewrite pview_unfold. cbn [h_content].
  assert (HfvS : forall f, In f S -> fver f = Some v).
  { intros f Hf. apply Hfv. right. apply inF_in in Hf as [_ Hf]. exact Hf. }
  rewrite (pfmv_on LATEST v fver S HS HfvS), (Hfv g (or_introl eq_refl)), N.min_id. cbv zeta. rewrite Hsp. cbn [bind].
  destruct Hkind as [Hleaf|(Hcont & Hkind)].
  - (* a leaf: nothing to merge *)
    apply (RepItems_leaf _ F S content hc' Hleaf) in HI. subst hc'.
    assert (Hdata : Forall is_data hc).
    { eapply perm_forall; [apply Permutation_sym; exact HP|apply data_items_all_data]. }
    rewrite (hkeys_all_data T defref ty hc Hdata 0).
    rewrite (pview_items_leaf g content Hleaf), (hkeys_all_data T defref ty _ (data_items_all_data content) 0).
    cbn [List.length Nat.add walk bind]. cbn [wk_merge wk_a_only wk_b_only].
    rewrite (map_kids_all_data _ hc Hdata 0). cbn [bind p_import].
    eexists. split; [reflexivity|]. split; [reflexivity|]. intros inh'.
    apply Rep_unfold. split; [rewrite HS'; apply set_add_nonempty_l|].
    exists hc, (data_items content). cbn [h_set_content h_set_local]. split; [reflexivity|].
    split; [apply (RepItems_leaf _ (g :: F) _ content _ Hleaf); reflexivity|]. split; [exact HP|exact Hord].
  - (* sub-elements only *)
    set (ks := kids content) in *.
    rewrite Hcont in HI |- *. apply RepItems_elems in HI as (hs' & -> & HF').
    destruct (perm_map_inl hs' hc HP) as (hs & -> & HPs).
    set (R := fun h c => Rep T F (Some S) c h) in *.
    assert (Hca : exists ca, Permutation (filter (present F) ks) ca /\ Forall2 R hs ca /\
                             (~ bag_ty T ty -> ca = filter (present F) ks /\ hs = hs')).
    { destruct Hord as [Hbag|Heq].
      - destruct (Forall2_perm_l R hs' hs (Permutation_sym HPs) _ HF') as (ca & P & HFa).
        exists ca. split; [exact P|]. split; [exact HFa|]. intros Hn. contradiction.
      - apply map_inl_inj in Heq. subst hs'. exists (filter (present F) ks).
        split; [apply Permutation_refl|]. split; [exact HF'|]. auto. }
    destruct Hca as (ca & Pca & HFa & Hrig).
    set (cb := filter (ing g) ks).
    assert (Ha : incl ca ks).
    { intros c Hc. eapply (filter_incl (present F)). eapply Permutation_in; [apply Permutation_sym; exact Pca|exact Hc]. }
    assert (Hb : incl cb ks) by apply filter_incl.
    assert (Na : NoDup ca) by (eapply Permutation_NoDup; [exact Pca|apply NoDup_filter; exact Hnd]).
    assert (Nb : NoDup cb) by (apply NoDup_filter; exact Hnd).
    assert (Hpres : forall c, In c ca <-> In c ks /\ present F c = true).
    { intros c. rewrite <- filter_In. split; apply Permutation_in; [apply Permutation_sym|]; exact Pca. }
    rewrite pview_items_elems. fold cb.
    (* keys *)
    rewrite (hkeys_elems T defref ty kcore hs ca).
    2:{ eapply Forall2_impl_in; [exact HFa|]. intros h c Hc Hr i. destruct (Hks c (Ha c Hc)) as [K1 _]. eapply K1. exact Hr. }
    rewrite (hkeys_elems T defref ty kcore (map (pview g) cb) cb).
    2:{ apply Forall2_map_self. intros c Hc i. destruct (Hks c (Hb c Hc)) as [_ K2]. apply K2.
        apply filter_In in Hc as [_ Hc]. apply set_mem_in. exact Hc. }
    set (pa := pks_from 0 (map kcore ca)). set (pb := pks_from 0 (map kcore cb)).
    pose proof (keyed_pks kcore ks Hinj Hid ca cb Ha Hb Na Nb) as K. fold pa pb in K.
    rewrite !map_length.
    assert (Lpa : List.length pa = List.length ca) by (unfold pa; rewrite pks_from_length, map_length; reflexivity).
    assert (Lpb : List.length pb = List.length cb) by (unfold pb; rewrite pks_from_length, map_length; reflexivity).
    (* the walk *)
    assert (Hcb : forall c, In c cb <-> In c ks /\ ing g c = true) by (intros c; apply filter_In).
    assert (NC : NoConflict pa pb sp).
    { destruct Hkind as [(Hnb & Hall)|[(Hbag & Hsp1 & _)|(Hnb & Hsp1 & _)]].
      - right. intros a Hin _. apply in_pks_from in Hin as (k & c & Hk & ->).
        assert (Hc : In c ca) by (eapply nth_error_In; eauto).
        assert (Hcb' : In c cb).
        { apply Hcb. split; [apply Ha; exact Hc|]. unfold ing. apply set_mem_in. rewrite (Hall c (Ha c Hc)). exact Hg. }
        destruct (in_nth_error cb c Hcb') as (j & Hj).
        pose proof (partner_b_some kcore ks Hinj cb Hb Nb (N.of_nat k) j c (Ha c Hc) Hj) as Ep. fold pb in Ep.
        unfold has_partner. rewrite Ep. reflexivity.
      - left. rewrite Hsp in Hsp1. injection Hsp1 as ->. reflexivity.
      - left. rewrite Hsp in Hsp1. injection Hsp1 as ->. reflexivity. }
    destruct (walk_partition pa pb sp (N.of_nat (List.length hs)) K NC) as (wk & Ew & Em & Ea & Eb).
    rewrite Ew. cbn [bind].
    (* the sub-elements of a *)
    set (S' := set_add g S) in *.
    set (Q := fun h' c => Rep T (g :: F) (Some S') c h').
    assert (HSs : sset S) by (apply inF_sset; exact Hs).
    assert (HgS : ~ In g S) by (apply inF_notin; exact HgF).
    destruct (map_kids_forall2 (child_step (pmerge T LATEST defref fver fl) wk S (map inl (map (pview g) cb)) g) Q hs ca 0)
      as (hs1 & E1 & F1).
    { eapply Forall2_length; eauto. }
    { intros k h c Hh Hc.
      destruct (Forall2_nth R hs ca k h HFa Hh) as (c0 & Hc0 & Hr). rewrite Hc in Hc0. injection Hc0 as <-.
      assert (Hcin : In c ca) by (eapply nth_error_In; eauto).
      assert (Hck : In c ks) by (apply Ha; exact Hcin).
      pose proof (Hkids c Hck) as HGc. destruct (Good_files c HGc) as (Hsc & Hnec).
      assert (Hdc : (depth c < fl \/ hdepth h < fl)%nat).
      { destruct Hd as [Hd|Hd]; [left|right].
        - rewrite depth_unfold in Hd. assert (In (inl c) content) by (apply kids_in; exact Hck). apply depth_items_in in H. lia.
        - rewrite hdepth_unfold in Hd. assert (H : In (inl h) (map (@inl htree cdata) hs)) by (apply in_map; eapply nth_error_In; eauto).
          apply hdepth_items_in in H. lia. }
      destruct (Rep_shape T F (Some S) c h Hr) as (_ & _ & Hloc & HneSc).
      set (Sc := inF F (mfiles c)) in *.
      assert (Hapa : In (pk_of (N.of_nat k) (kcore c)) pa).
      { unfold pa. replace (N.of_nat k) with (0 + N.of_nat k) by lia. apply pks_from_nth. rewrite nth_error_map, Hc. reflexivity. }
      unfold child_step. rewrite N.add_0_l, Ea.
      change (N.of_nat k) with (pk_id (pk_of (N.of_nat k) (kcore c))) at 1.
      rewrite (a_only_of_mem pa pb _ (ky_ida _ _ K) Hapa).
      destruct (ing g c) eqn:Eg.
      - (* merged with its partner *)
        assert (Hcb' : In c cb) by (apply Hcb; auto).
        destruct (in_nth_error cb c Hcb') as (j & Hj).
        pose proof (partner_b_some kcore ks Hinj cb Hb Nb (N.of_nat k) j c Hck Hj) as Ep. fold pb in Ep.
        unfold has_partner. rewrite Ep. cbn [negb]. rewrite Em.
        change (N.of_nat k) with (pk_id (pk_of (N.of_nat k) (kcore c))) at 1.
        rewrite (lookup_merges_of pa pb _ (ky_ida _ _ K) Hapa), Ep. cbn [option_map pk_id pk_of].
        rewrite Nat2N.id, nth_opt_map_inl, nth_error_map, Hj. cbn [option_map].
        rewrite Hloc, (eff_of_norm S Sc HneSc).
        assert (Hgc : In g (mfiles c)) by (apply set_mem_in; exact Eg).
        destruct (IH c HGc F g (Some S) h Hdc Hfv HgF Hgc Hr) as (a' & Ea' & Hla' & Hra').
        fold Sc in Ea'. rewrite Ea'. cbn [bind].
        eexists. split; [reflexivity|]. unfold Q.
        rewrite (bump_norm g S Sc a' HSs (inF_sset F _ Hsc) HgS (inF_notin g F _ HgF) HneSc); [|rewrite Hla'; exact Hloc].
        specialize (Hra' (Some S')). rewrite (inF_cons_in g F (mfiles c) Hsc Hgc HgF) in Hra'. exact Hra'.
      - (* only in the model: restricted *)
        assert (Hncb : ~ In c cb) by (intros Hin; apply Hcb in Hin as [_ Hin]; congruence).
        pose proof (partner_b_none kcore ks Hinj cb Hb (N.of_nat k) c Hck Hncb) as Ep. fold pb in Ep.
        unfold has_partner. rewrite Ep. cbn [negb].
        eexists. split; [reflexivity|]. unfold Q.
        assert (Hngc : ~ In g (mfiles c)) by (intros Hin; apply set_mem_in in Hin; unfold ing in Eg; congruence).
        rewrite (restrict_norm g S Sc h); [| apply set_add_in; left; reflexivity | apply inF_notin; exact HgF | exact HneSc | exact Hloc].
        pose proof (Rep_notin T defref v (depth c) c (le_n _) HGc F g (Some S) h Hngc Hr) as Hr2.
        pose proof (Rep_inh T (g :: F) (Some S) (Some S') c h Hr2) as Hr3.
        rewrite (inF_cons_notin g F (mfiles c) Hngc) in Hr3. exact Hr3. }
    rewrite E1. cbn [bind].
    (* the elements that only the new file has *)
    set (cimp := filter (fun c => negb (present F c)) cb).
    assert (Htest : forall i c, In c cb -> negb (has_partner pa (pk_of i (kcore c))) = negb (present F c)).
    { intros i c Hc. f_equal. assert (Hck : In c ks) by (apply Hb; exact Hc).
      destruct (present F c) eqn:Ep.
      - assert (Hcin : In c ca) by (apply Hpres; auto). destruct (in_nth_error ca c Hcin) as (k & Hk).
        pose proof (partner_b_some kcore ks Hinj ca Ha Na i k c Hck Hk) as Epp. fold pa in Epp.
        unfold has_partner. rewrite Epp. reflexivity.
      - assert (Hnin : ~ In c ca) by (intros Hin; apply Hpres in Hin as [_ Hin]; congruence).
        pose proof (partner_b_none kcore ks Hinj ca Ha i c Hck Hnin) as Epp. fold pa in Epp.
        unfold has_partner. rewrite Epp. reflexivity. }
    assert (Hbs : Forall2 (fun (p : id * N) c => nth_opt (map (@inl htree cdata) (map (pview g) cb)) (N.to_nat (fst p)) = Some (inl (pview g c)))
                          (wk_b_only wk) cimp).
    { apply (bonly_forall2 kcore (fun p => negb (has_partner pa p)) (fun c => negb (present F c)) _ g cb Htest 0).
      - intros j c Hj. rewrite N.add_0_l, Nat2N.id, nth_opt_map_inl, nth_error_map, Hj. reflexivity.
      - exact Eb. }
    assert (Hcimp : forall c, In c cimp -> In c cb /\ present F c = false).
    { intros c Hc. apply filter_In in Hc as [H1 H2]. split; [exact H1|]. apply negb_true_iff. exact H2. }
    assert (HS'ne : S' <> [g]).
    { intros E. destruct S as [|x S0] eqn:ES; [congruence|].
      assert (Hx : In x S') by (apply set_add_in; right; left; reflexivity).
      rewrite E in Hx. destruct Hx as [<-|[]]. apply HgS. left. reflexivity. }
    assert (Himp : forall c, In c cimp -> Q (h_import g (pview g c)) c).
    { intros c Hc. destruct (Hcimp c Hc) as (Hcb' & Hnp). apply Hcb in Hcb' as (Hck & Hgc).
      pose proof (Hkids c Hck) as HGc. unfold Q.
      assert (Hnil : inF F (mfiles c) = []).
      { unfold present in Hnp. apply negb_false_iff in Hnp. apply is_empty_nil. exact Hnp. }
      pose proof (Rep_pview T defref v (depth c) c (le_n _) HGc F g (Some S') (proj1 (set_mem_in _ _) Hgc) Hnil) as Hr.
      replace (norm (Some S') [g]) with [g] in Hr by (unfold norm; rewrite bytes_eqb_false; auto).
      destruct c. rewrite pview_unfold in *. exact Hr. }
    (* import_new_items *)
    assert (Epres : forall c, present (g :: F) c = present F c || ing g c) by (intros c; apply present_cons).
    assert (Himport : exists hs2 c2l,
               p_import T ty (map inl (map (pview g) cb)) (wk_b_only wk) 0 g v (map inl hs1) = Val (OK (map inl hs2)) /\
               Forall2 Q hs2 c2l /\ Permutation c2l (ca ++ cimp) /\ (~ bag_ty T ty -> c2l = filter (present (g :: F)) ks)).
    { destruct Hkind as [(Hnb & Hall)|[((Hmode & Hnamed) & Hsp1 & Hfind)|(Hnb & Hsp1 & (Hmode & idx & Hfi & Hgrp & Hsorted))]].
      - (* all sub-elements are shared: nothing to import *)
        assert (Hnil : cimp = []).
        { apply nil_of_notin. intros c Hc. destruct (Hcimp c Hc) as (Hcb' & Hnp).
          apply Hcb in Hcb' as (Hck & _). unfold present in Hnp. rewrite (Hall c Hck) in Hnp. fold S in Hnp.
          apply negb_false_iff, is_empty_nil in Hnp. contradiction. }
        rewrite Hnil in Hbs. inversion Hbs as [E0|]. exists hs1, ca. cbn [p_import].
        split; [reflexivity|]. split; [exact F1|]. split; [rewrite Hnil, app_nil_r; apply Permutation_refl|].
        intros Hn. destruct (Hrig Hn) as (-> & _). symmetry. apply filter_ext_in. intros c Hc. rewrite Epres.
        assert (Hp : present F c = true).
        { unfold present. rewrite (Hall c Hc). fold S. destruct S; [congruence|reflexivity]. }
        rewrite Hp. reflexivity.
      - destruct (p_import_bag ty (map inl (map (pview g) cb)) g Q Hmode (wk_b_only wk) cimp) with (idx := 0) (hsx := hs1) (cx := ca)
          as (hs2 & c2l & E2 & F2 & P2).
        + assert (HFc : Forall (fun c => (exists r, find_sub_element T ty (m_name c) v = Val (Some r)) /\ Q (h_import g (pview g c)) c) cimp).
          { apply Forall_forall. intros c Hc. split; [|apply Himp; exact Hc].
            destruct (Hcimp c Hc) as (Hcb' & _). apply Hcb in Hcb' as (Hck & _). apply Hfind. exact Hck. }
          pose proof (Forall2_in_r _ _ _ _ Hbs HFc) as HB2.
          eapply Forall2_impl_in; [exact HB2|]. intros p c _ (H1 & H2 & H3). auto.
        + exact F1.
        + exists hs2, c2l. split; [exact E2|]. split; [exact F2|]. split; [exact P2|].
          intros Hn. exfalso. apply Hn. split; assumption.
      - (* a splittable sequence: every new sub-element is inserted at its place in the schema order *)
        destruct (Hrig Hnb) as (Eca & _).
        set (pp := present F). set (qq := fun c => ing g c && negb (present F c)).
        assert (Ecimp : cimp = filter qq ks) by (unfold cimp, cb, qq; apply filter_filter).
        destruct (p_import_seq ty (map inl (map (pview g) cb)) g Q idx ks pp qq Hmode Hnd Hfi Hgrp Hsorted) with
          (todo := ks) (done := @nil mtree) (bs := wk_b_only wk) (hsx := hs1) (idx0 := 0) as (hs2 & E2 & F2).
        + intros h c Hq. unfold Q in Hq. apply (Rep_shape T (g :: F) (Some S') c h Hq).
        + intros x _ Hx. unfold qq in Hx. apply andb_true_iff in Hx as [_ Hx]. apply negb_true_iff in Hx. exact Hx.
        + reflexivity.
        + rewrite <- Ecimp.
          assert (HFc : Forall (fun c => Q (h_import g (pview g c)) c) cimp) by (apply Forall_forall; exact Himp).
          pose proof (Forall2_in_r _ _ _ _ Hbs HFc) as HB2.
          eapply Forall2_impl_in; [exact HB2|]. intros p c _ (H1 & H2). auto.
        + cbn [filter app]. unfold pp. rewrite <- Eca. exact F1.
        + exists hs2, (filter (fun x => pp x || qq x) ks). split; [exact E2|]. split; [exact F2|].
          assert (Eext : filter (fun x => pp x || qq x) ks = filter (present (g :: F)) ks).
          { apply filter_ext. intros c. rewrite Epres. unfold pp, qq. destruct (present F c), (ing g c); reflexivity. }
          split; [|intros _; exact Eext].
          rewrite Eext, Eca, Ecimp. unfold qq.
          eapply perm_trans; [|apply Permutation_sym; apply (filter_or_perm (present F) (ing g) ks)].
          erewrite filter_ext; [apply Permutation_refl|]. intros c. apply Epres. }
    destruct Himport as (hs2 & c2l & E2 & F2 & P2 & Hrig2).
    rewrite E2. cbn [bind]. eexists. split; [reflexivity|]. split; [reflexivity|].
    intros inh'. cbn [h_set_content h_set_local]. apply Rep_unfold. rewrite HS'. fold S'.
    split; [apply set_add_nonempty_l|].
    (* the sub-elements present in g :: F, in the order of the master *)
    assert (Htarget : Permutation (ca ++ cimp) (filter (present (g :: F)) ks)).
    { eapply perm_trans; [apply Permutation_app_tail; apply Permutation_sym; exact Pca|].
      unfold cimp, cb. rewrite filter_filter.
      eapply perm_trans; [apply (filter_or_perm (present F) (ing g) ks)|].
      erewrite filter_ext; [apply Permutation_refl|]. intros c. symmetry. apply present_cons. }
    destruct (classic_bag ty) as [Hbag|Hnbag].
    + destruct (Forall2_perm_r Q c2l _ (perm_trans P2 Htarget) hs2 F2) as (hs2' & Ph & Fh).
      exists (map inl hs2), (map inl hs2'). split; [reflexivity|].
      split; [apply RepItems_elems; exists hs2'; split; [reflexivity|exact Fh]|].
      split; [apply Permutation_map; exact Ph|left; exact Hbag].
    + pose proof (Hrig2 Hnbag) as Ec2l.
      exists (map inl hs2), (map inl hs2). split; [reflexivity|].
      split; [|split; [apply Permutation_refl|right; reflexivity]].
      apply RepItems_elems. exists hs2. split; [reflexivity|]. rewrite <- Ec2l. exact F2.
Qed.

Theorem pmerge_rep : forall fuel t, (depth t < fuel)%nat -> Good T defref v t -> forall F g inh a,
  ~ In g F -> In g (mfiles t) -> Rep T F inh t a ->
  exists a', pmerge T LATEST defref fver fuel a (inF F (mfiles t)) (pview g t) g = Val (OK a') /\
             h_local a' = h_local a /\
             forall inh', Rep T (g :: F) inh' t (h_set_local a' (norm inh' (inF (g :: F) (mfiles t)))).
Proof. intros fuel t Hd HG F g inh a. apply pmerge_rep_gen; auto. Qed.

End Main.

Lemma NoDup_app_swap_cons {A} (g : A) gs F : NoDup (g :: gs ++ F) -> NoDup (gs ++ g :: F).
Proof. intros H. eapply Permutation_NoDup; [|exact H]. apply Permutation_middle. Qed.

(* ------------------------------------------------------------------ loading all the files of a master, one by one *)
Section LoadAll.
Variable T : tables.
Variables LATEST defref v : N.
Variable fver : N -> option N.
Hypothesis fver_v : forall f, fver f = Some v.

(* the first file of a model: its tree becomes the model, the root is in that file *)
Definition first_view (g : N) (t : mtree) : htree := h_set_local (pview g t) [g].

(* merge_file_data for the files gs in this order: merge_element at the root, then the root joins the new file *)
Fixpoint load_all_pure (fuel : nat) (t : mtree) (F : list N) (a : htree) (gs : list N) : res (out htree) :=
  match gs with
  | [] => Val (OK a)
  | g :: r =>
    (let* o := pmerge T LATEST defref fver fuel a (inF F (mfiles t)) (pview g t) g in
     match o with
     | ER e => Val (ER e)
     | OK a' => load_all_pure fuel t (g :: F) (h_set_local a' (set_add g (h_local a'))) r
     end)%res
  end.

Lemma first_view_rep t g : Good T defref v t -> In g (mfiles t) -> Rep T [g] None t (first_view g t).
Proof.
  intros HG Hg. unfold first_view.
  apply (Rep_pview T defref v (depth t) t (le_n _) HG [] g None Hg).
  unfold inF. clear. induction (mfiles t) as [|x l IH]; cbn; auto.
Qed.

Theorem load_all_rep fuel t : (depth t < fuel)%nat -> Good T defref v t ->
  forall gs F a,
    NoDup (gs ++ F) -> (forall g, In g gs -> In g (mfiles t)) -> Rep T F None t a ->
    exists a', load_all_pure fuel t F a gs = Val (OK a') /\ Rep T (rev gs ++ F) None t a'.
Proof.
  intros Hd HG. induction gs as [|g gs IH]; intros F a Hnd Hin HR.
  - exists a. split; [reflexivity|exact HR].
  - cbn [load_all_pure]. cbn [app] in Hnd. inversion Hnd as [|? ? Hnot Hnd']; subst.
    assert (HgF : ~ In g F) by (intros H; apply Hnot; apply in_or_app; right; exact H).
    assert (Hg : In g (mfiles t)) by (apply Hin; left; reflexivity).
    destruct (pmerge_rep T LATEST defref v fver fver_v fuel t Hd HG F g None a HgF Hg HR) as (a' & E & Hl & Hr).
    rewrite E. cbn [bind].
    destruct (Rep_shape T F None t a HR) as (_ & _ & Hloc & _). cbn [norm] in Hloc.
    destruct (Good_files T defref v t HG) as (Hs & _).
    specialize (Hr None). cbn [norm] in Hr. rewrite (inF_cons_in g F (mfiles t) Hs Hg HgF) in Hr.
    rewrite Hl, Hloc.
    destruct (IH (g :: F) (h_set_local a' (set_add g (inF F (mfiles t))))) as (a'' & E2 & R2).
    + apply NoDup_app_swap_cons. exact Hnd. 
    + intros g0 H0. apply Hin. right. exact H0.
    + exact Hr.
    + exists a''. split; [exact E2|]. cbn [rev]. rewrite <- app_assoc. exact R2.
Qed.

End LoadAll.
