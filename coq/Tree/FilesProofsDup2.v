(* Tree/FilesProofsDup2.v — C10 proofs, duplicate: the first loop of AutosarModel::duplicate (one new file per file of
   the original, Copy.dup_files) builds a file map that sends every file of the original (by name) to a file of the
   copy. *)
From Coq Require Import PeanoNat Arith Lia.
From AV Require Import Base.Bytes Base.Outcome Hash.HashModel Tree.Heap Tree.Ops Tree.Script Tree.Copy Tree.Inv Tree.InvProofsBase
  Tree.Files Tree.FilesProofsBase Tree.FilesProofsAdd Tree.FilesProofsOwned Tree.FilesProofsLoad3.
From AV Require Tree.CopyProofsReg.
Open Scope string_scope.
Open Scope list_scope.
Open Scope N_scope.

Definition MFc (w : world) (c : N) : list N := match model_b w c with Some x => m_files x | None => [] end.

Lemma MFc_map w w' c : map m_files (w_models w') = map m_files (w_models w) -> MFc w' c = MFc w c.
Proof.
  intros E. unfold MFc, model_b. rewrite !nth_opt_error.
  assert (nth_error (map m_files (w_models w')) (N.to_nat c) = nth_error (map m_files (w_models w)) (N.to_nat c)) as H by (rewrite E; reflexivity).
  rewrite !nth_error_map in H.
  destruct (nth_error (w_models w') (N.to_nat c)), (nth_error (w_models w) (N.to_nat c)); cbn in H; congruence.
Qed.

Section Dup2.
Variable T : tables.

(* create_file: the record is appended to the file table, its id to the file list of the model *)
Lemma create_file_effect c name version w fid w1 :
  m_create_file T c name version w = Val (OK fid, w1) ->
  fid = N.of_nat (List.length (w_files w)) /\
  w_files w1 = w_files w ++ [mkFile c name version None] /\
  exists x, model_b w c = Some x /\ MFc w1 c = m_files x ++ [fid].
Proof.
  intros H. unfold m_create_file in H.
  apply wbind_inv in H as [(x & w2 & H1 & H) | (e0 & H1 & [=])].
  apply get_model_inv in H1 as (x' & Hx & [= <-] & ->).
  apply wbind_inv in H as [(w0 & w2 & H1 & H) | (e0 & H1 & [=])].
  apply wget_inv in H1 as ([= ->] & ->).
  destruct (existsb _ (m_files x)); [apply wfail_inv in H as ([=] & _)|].
  apply wbind_inv in H as [(u & w2 & H1 & H) | (e0 & H1 & [=])]. injection H1 as _ <-.
  apply wbind_inv in H as [(u2 & w2 & H2 & H) | (e0 & H2 & [=])].
  apply modify_model_inv in H2 as (x0 & Hx0 & _ & ->). cbn in Hx0. assert (x0 = x) by congruence. subst x0.
  apply wbind_inv in H as [(w0 & w3 & H3 & H) | (e0 & H3 & [=])]. apply wget_inv in H3 as ([= ->] & ->).
  apply wbind_inv in H as [(o & w3 & H3 & H) | (e0 & H3 & [=])].
  apply wret_inv in H as (Efid & Ew). injection Efid as Efid. subst w3 fid. apply wtry_inv in H3 as (r0 & H3 & _).
  destruct (FilesProofsOwned.km_atfr T _ _ _ _ _ _ H3) as (M & F).
  split; [reflexivity|]. split; [rewrite F; reflexivity|]. exists x. split; [exact Hx|].
  unfold MFc, model_b. rewrite M. cbn. rewrite nth_opt_error, FilesProofsOwned.nth_error_list_set, Nat.eqb_refl.
  rewrite nth_opt_error in Hx. rewrite Hx. reflexivity.
Qed.

Lemma dup_files_map c : forall files fm w fm' w',
  (forall g, In g files -> exists gl, nth_opt (w_files w) (N.to_nat g) = Some gl) ->
  dup_files T c files fm w = Val (OK fm', w') ->
  (forall g fl, nth_opt (w_files w) (N.to_nat g) = Some fl -> nth_opt (w_files w') (N.to_nat g) = Some fl) /\
  incl (MFc w c) (MFc w' c) /\
  (forall k v, assoc_get k fm = Some v -> exists v', assoc_get k fm' = Some v') /\
  (forall k v, assoc_get k fm' = Some v -> assoc_get k fm = Some v \/ In v (MFc w' c)) /\
  (forall g, In g files -> exists gl v, nth_opt (w_files w) (N.to_nat g) = Some gl /\ assoc_get (f_name gl) fm' = Some v).
Proof.
  induction files as [|f rest IH]; intros fm w fm' w' Hex H; cbn [dup_files] in H.
  - apply wret_inv in H as ([= <-] & ->). split; auto. split; [apply incl_refl|]. split; [eauto|]. split; [auto|]. intros g [].
  - apply wbind_inv in H as [(fl & w1 & E & H) | (e & E & [=])]. apply get_file_inv in E as (fl' & Hfl & [= <-] & ->).
    apply wbind_inv in H as [(nf & w1 & Ec & H) | (e & Ec & [=])].
    destruct (create_file_effect c _ _ _ _ _ Ec) as (Enf & F1 & x & Hx & M1).
    apply wbind_inv in H as [(nfl & w2 & E2 & H) | (e & E2 & [=])]. apply get_file_inv in E2 as (nfl' & Hnfl & [= <-] & ->).
    apply wbind_inv in H as [(u & w2 & E2 & H) | (e & E2 & [=])]. unfold set_file in E2. injection E2 as _ <-.
    set (w2 := mkWorld _ _ _ _) in *.
    assert (forall g gl, nth_opt (w_files w) (N.to_nat g) = Some gl -> nth_opt (w_files w2) (N.to_nat g) = Some gl) as Old.
    { intros g gl Hg. unfold w2. cbn. rewrite nth_opt_error in *. rewrite FilesProofsOwned.nth_error_list_set.
      assert ((N.to_nat g < List.length (w_files w))%nat) as Hlt by (apply nth_error_Some; congruence).
      destruct (Nat.eqb (N.to_nat g) (N.to_nat nf)) eqn:Eq.
      - apply Nat.eqb_eq in Eq. rewrite Enf, Nnat.Nat2N.id in Eq. lia.
      - rewrite F1, nth_error_app1; auto. }
    assert (MFc w2 c = m_files x ++ [nf]) as M2 by (rewrite <- M1; reflexivity).
    destruct (IH (assoc_insert (f_name fl) nf fm) w2 fm' w') as (A & B & Cc & D & E); auto.
    { intros g Hg. destruct (Hex g (or_intror Hg)) as (gl & Hgl). exists gl. apply Old. exact Hgl. }
    split; [intros g gl Hg; apply A, Old, Hg|]. split.
    { intros y Hy. apply B. rewrite M2. apply in_or_app. left. unfold MFc in Hy. rewrite Hx in Hy. exact Hy. }
    split.
    { intros k v Hk. destruct (list_eq_dec N.eq_dec k (f_name fl)) as [->|Hne].
      - apply (Cc (f_name fl) nf). apply CopyProofsReg.assoc_get_insert_eq.
      - apply (Cc k v). rewrite CopyProofsReg.assoc_get_insert_neq; auto. }
    split.
    { intros k v Hk. destruct (D k v Hk) as [Hin|Hin]; auto.
      destruct (list_eq_dec N.eq_dec k (f_name fl)) as [->|Hne].
      - rewrite CopyProofsReg.assoc_get_insert_eq in Hin. injection Hin as <-. right. apply B. rewrite M2. apply in_or_app. right. left. reflexivity.
      - rewrite CopyProofsReg.assoc_get_insert_neq in Hin; auto. }
    intros g [<-|Hg].
    + exists fl. destruct (Cc (f_name fl) nf (CopyProofsReg.assoc_get_insert_eq _ _ _)) as (v' & Hv'). exists v'. auto.
    + destruct (E g Hg) as (gl & v & Hgl & Hv). destruct (Hex g (or_intror Hg)) as (gl0 & Hgl0).
      exists gl0, v. split; auto. rewrite (Old g gl0 Hgl0) in Hgl. injection Hgl as <-. exact Hv.
Qed.

End Dup2.
