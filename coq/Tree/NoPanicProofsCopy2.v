(* Tree/NoPanicProofsCopy2.v — C12, layer 7: create_copied_sub_element / _at never panic or run out of fuel:
   the ancestor loop, deep_copy (NoPanicProofsCopy.v), make_unique_item_name (pigeonhole, NoPanicProofsDec.v), the
   registration walk over the copy (height bounded because copied nodes list only larger ids), the final insertion at a
   position inside the content list of the destination (which nothing in between touches). *)
From Coq Require Import Lia.
From AV Require Import Base.Bytes Base.Outcome Hash.HashModel Spec.SpecOps Xml.TablesOk Tree.Heap Tree.Ops Tree.Script Tree.Inv.
From AV Require Import Tree.NoPanic Tree.NoPanicProofsBase Tree.NoPanicProofsOps1 Tree.NoPanicProofsClosed Tree.NoPanicProofsOps2.
From AV Require Import Tree.NoPanicProofsOps3 Tree.NoPanicProofsOps5 Tree.NoPanicProofsDepth Tree.NoPanicProofsDec Tree.NoPanicProofsCopy.
Open Scope string_scope.
Open Scope list_scope.
Open Scope N_scope.

(* the size assumption behind `format!("{counter}")` being injective on the counters that can occur *)
Definition SizeOk (w : world) : Prop := forall x, In x (w_models w) -> N.of_nat (List.length (m_idents x)) < 10 ^ 39.

Section Copy2.
Variable T : tables.
Variable tab_el tab_en : nametab.
Variable check_fn : N -> list N -> res bool.
Variable LATEST : N.
Variable root_attrs : list (N * cdata).
Hypothesis OK12 : tables_ok12 T = true.
Hypothesis CHECK : forall fn s, exists b, check_fn fn s = Val b.
Collection Env := T tab_el tab_en check_fn LATEST root_attrs OK12 CHECK.
Set Default Proof Using "Env".

Notation ENV f := (f T tab_el tab_en check_fn LATEST root_attrs OK12 CHECK) (only parsing).
Notation TOK := (ok12_tables T OK12) (only parsing).
Notation node_ok := (node_ok T tab_el tab_en).
Notation Closed := (Closed T tab_el tab_en).
Notation PanicFree := (PanicFree T tab_el tab_en).
Notation good := (good T tab_el tab_en).
Notation dc := (dc T tab_el tab_en).

(* ---------- the ancestor loop ---------- *)
Lemma ancestor_is_ok w other : Closed w -> forall i h, Depth w i h -> forall f, (S h < f)%nat ->
  rd (ancestor_is f (PElem i) other) w (fun _ => True).
Proof.
  intros C i h D. induction D as [x n Hn Ht | x n p h Hn Hp Dp IH]; intros f Hf; (destruct f as [|f]; [lia|]); cbn [ancestor_is].
  - destruct (x =? other); [apply rd_ret; exact I|].
    assert (L : x < w_next w) by (apply (cl_alloc _ _ _ _ C); congruence).
    eapply rd_bind; [apply (ENV rd_get_node w x (fun a => a = n) C L); intros n0 E _; congruence|]. intros a ->.
    destruct f as [|f]; [lia|]. cbn [ancestor_is]. destruct (n_parent n) as [|m|p] eqn:EP; try (apply rd_ret; exact I).
    exfalso. eapply Ht. reflexivity.
  - destruct (x =? other); [apply rd_ret; exact I|].
    assert (L : x < w_next w) by (apply (cl_alloc _ _ _ _ C); congruence).
    eapply rd_bind; [apply (ENV rd_get_node w x (fun a => a = n) C L); intros n0 E _; congruence|]. intros a ->.
    rewrite Hp. apply IH. lia.
Qed.

Lemma ancestor_is_pref_ok w p other : Closed w -> UpWF w -> match p with PElem i => i < w_next w | _ => True end ->
  rd (ancestor_is (fuel_of w) p other) w (fun _ => True).
Proof.
  intros C U L. destruct p as [|m|i]; try (unfold fuel_of; cbn [ancestor_is]; apply rd_ret; exact I).
  destruct (U i L) as (h & D). eapply ancestor_is_ok; eauto. eapply (depth_lt_fuel T tab_el tab_en); eauto.
Qed.

(* ---------- paths in a world whose old part is frozen ---------- *)
Lemma Depth_frozen w w' : Closed w -> frozen w w' -> forall i h, Depth w i h -> Depth w' i h.
Proof.
  intros C FR i h D. induction D as [x n Hn Ht | x n p h Hn Hp Dp IH].
  - assert (L : x < w_next w) by (apply (cl_alloc _ _ _ _ C); congruence).
    eapply D_top; [rewrite (FR x L); exact Hn|exact Ht].
  - assert (L : x < w_next w) by (apply (cl_alloc _ _ _ _ C); congruence).
    eapply D_step; [rewrite (FR x L); exact Hn|exact Hp|exact IH].
Qed.

Lemma path_unchecked_frozen w w' n : Closed w -> UpWF w -> Closed w' -> frozen w w' -> ext w w' ->
  node_ok w n -> rd (path_unchecked T n) w' (fun _ => True).
Proof.
  intros C U C' FR X NO. unfold path_unchecked.
  assert (NO' : node_ok w' n) by (eapply node_ok_ext; eauto).
  destruct (ENV item_name_ok w' n C' NO') as (own & EO).
  eapply rd_bind; [exists (OK own); split; [exact EO|]; intros a [= <-]; exact (eq_refl own)|]. intros a <-.
  eapply rd_bind; [exists (OK w'); split; [reflexivity|]; intros a [= <-]; exact (eq_refl w')|]. intros a <-.
  eapply (rd_bind _ _ _ (fun _ => True)); [|intros; apply rd_ret; exact I].
  destruct (n_parent n) as [|m|i] eqn:EP.
  - unfold fuel_of. cbn [up_names]. apply rd_fail.
  - unfold fuel_of. cbn [up_names]. apply rd_ret. exact I.
  - destruct NO as (_ & _ & _ & _ & P). rewrite EP in P. destruct (U i P) as (h & D).
    eapply rd_weaken; [apply (ENV up_names_ok w' C' i h (Depth_frozen w w' C FR i h D))|auto].
    pose proof (depth_lt_fuel T tab_el tab_en w i h C D). destruct X as (LN & _). unfold fuel_of in *. lia.
Qed.

(* ---------- make_unique_item_name ---------- *)
Definition cand (orig : list N) (k : nat) : list N :=
  match k with O => orig | S _ => orig ++ [95] ++ to_dec (N.of_nat k) end.

Lemma cand_inj orig i j : N.of_nat i < 10 ^ 40 -> N.of_nat j < 10 ^ 40 -> cand orig i = cand orig j -> i = j.
Proof.
  intros Li Lj E. destruct i as [|i], j as [|j]; cbn [cand] in E; [reflexivity| | |].
  - exfalso. rewrite <- (app_nil_r orig) in E at 1. apply app_inv_head in E. discriminate.
  - exfalso. rewrite <- (app_nil_r orig) in E at 2. apply app_inv_head in E. discriminate.
  - apply app_inv_head in E. injection E as E. apply to_dec_inj in E; [|exact Li|exact Lj]. lia.
Qed.

Lemma unique_loop_ok w m pp orig x : Closed w -> m < N.of_nat (List.length (w_models w)) ->
  nth_opt (w_models w) (N.to_nat m) = Some x ->
  forall fuel k j, (k <= j)%nat -> assoc_get (pp ++ [47] ++ cand orig j) (m_idents x) = None -> (j - k < fuel)%nat ->
  rd (unique_loop fuel m pp orig (cand orig k) (N.of_nat (S k))) w (fun _ => True).
Proof.
  intros C Lm EX. induction fuel as [|fuel IH]; intros k j KJ FREE F; [lia|]. cbn [unique_loop].
  eapply (rd_bind _ _ _ (fun a => a = assoc_get (pp ++ [47] ++ cand orig k) (m_idents x))).
  { exists (OK (assoc_get (pp ++ [47] ++ cand orig k) (m_idents x))). split; [|intros a [= <-]; reflexivity].
    unfold get_element_by_path, wbind. rewrite (get_model_val _ _ _ EX). reflexivity. }
  intros ex ->. destruct (assoc_get (pp ++ [47] ++ cand orig k) (m_idents x)) eqn:E; [|apply rd_ret; exact I].
  assert (K1 : (S k <= j)%nat).
  { destruct (PeanoNat.Nat.eq_dec k j) as [->|NE]; [congruence|lia]. }
  replace (N.of_nat (S k) + 1) with (N.of_nat (S (S k))) by lia.
  change (orig ++ [95] ++ to_dec (N.of_nat (S k))) with (cand orig (S k)).
  apply (IH (S k) j K1 FREE). lia.
Qed.

(* make_unique_item_name on a freshly copied element c: only its first sub-element (a larger id) may change *)
Lemma mu_copy N0 w0 w c m pp : Closed w -> SizeOk w -> dc N0 w0 w -> IncNew N0 w -> N0 <= c -> w_next w0 <= N0 -> c < w_next w ->
  m < N.of_nat (List.length (w_models w)) ->
  runsQ (make_unique_item_name T c m pp) w (fun (_ : out (list N)) w' => dc N0 w0 w' /\ IncNew N0 w' /\ w_next w' = w_next w /\ w_nodes w' c = w_nodes w c).
Proof.
  intros C SZ D INC Lc LN0 Lcw Lm. unfold make_unique_item_name.
  assert (SAME : dc N0 w0 w /\ IncNew N0 w /\ w_next w = w_next w /\ w_nodes w c = w_nodes w c) by auto.
  destruct (ENV get_node_ok w c C Lcw) as (n & EG & EN & NO).
  unfold runsQ. unfold wbind at 1. rewrite EG.
  destruct (ENV item_name_ok w n C NO) as (nm & ENM). unfold wbind at 1. rewrite ENM.
  destruct nm as [orig|]; [|exists (ER ElementNotIdentifiable), w; split; [reflexivity|exact SAME]].
  destruct (ENV get_model_ok w m C Lm) as (x & EGM & EX & MO). unfold wbind at 1. rewrite EGM.
  (* a free candidate among the first len+1 *)
  assert (INx : In x (w_models w)) by (eapply nth_opt_In; eauto).
  pose proof (SZ x INx) as SZx.
  destruct (pigeon (m_idents x) (fun k => pp ++ [47] ++ cand orig k)) as (j & Lj & FREE).
  { intros i j0 Hi Hj E. apply app_inv_head in E. apply app_inv_head in E. apply (cand_inj orig i j0); [| |exact E].
    - assert (N.of_nat i <= N.of_nat (List.length (m_idents x))) by lia. assert (10 ^ 39 < 10 ^ 40) by (apply N.pow_lt_mono_r; lia). lia.
    - assert (N.of_nat j0 <= N.of_nat (List.length (m_idents x))) by lia. assert (10 ^ 39 < 10 ^ 40) by (apply N.pow_lt_mono_r; lia). lia. }
  destruct (unique_loop_ok w m pp orig x C Lm EX (S (S (List.length (m_idents x)))) 0 j ltac:(lia) FREE ltac:(lia)) as (r & EU & _).
  change (cand orig 0) with orig in EU. change (N.of_nat 1) with 1 in EU.
  unfold wbind at 1. rewrite EU. destruct r as [[name counter]|e]; [|exists (ER e), w; split; [reflexivity|exact SAME]].
  destruct (1 <? counter).
  - destruct (n_content n) as [|[s|d] rest] eqn:ECN; try (exists (OK name), w; split; [reflexivity|exact SAME]).
    assert (Ls : s < w_next w). { pose proof NO as (_ & _ & K & _). apply K. rewrite ECN. left. reflexivity. }
    assert (CS : c < s). { eapply (INC c n s Lc EN). rewrite ECN. left. reflexivity. }
    destruct (ENV get_node_ok w s C Ls) as (sn & _ & ES & NOS).
    unfold wbind at 1. rewrite (modify_node_val s _ w sn ES).
    exists (OK name), (wset w s (set_content sn [CData (DString name)])). split; [reflexivity|].
    split; [|split; [|split; [reflexivity|cbn [wset w_nodes]; apply upd_other; lia]]].
    + apply (ENV dc_set_new N0 w0 w s sn _ C ltac:(lia) ES); [|intros y [[=]|[]]|exact D].
      destruct NOS as (A & B & _ & _ & P). split; [exact A|]. split; [exact B|]. cbn. split; [intros y [[=]|[]]|]. split; [intros d [[= <-]|[]]; exact I|exact P].
    + intros x0 nx y Lx Ex IN. cbn [wset w_nodes] in Ex. unfold upd in Ex. destruct (x0 =? s).
      * injection Ex as <-. destruct IN as [[=]|[]].
      * eapply INC; eauto.
  - exists (OK name), w. split; [reflexivity|exact SAME].
Qed.

(* ---------- the registration walk over the copy ---------- *)
Lemma reg_ok m : forall f i w cur, Closed w -> i < w_next w -> m < N.of_nat (List.length (w_models w)) -> hb w i f ->
  runsQ (register_subtree T f m cur i) w (good w (keepN w)).
Proof.
  induction f as [|f IH]; intros i w cur C L Lm H; [inversion H|].
  inversion H as [i0 f0 HK]; subst. cbn [register_subtree].
  destruct (ENV get_node_ok w i C L) as (n & EG & EN & NO).
  eapply (ENV good_rd); [exact C|exists (OK n); split; [exact EG|]; intros a [= <-]; exact (eq_refl n)|]. intros a <-.
  pose proof NO as (ET & _ & KIDS & _).
  destruct (ENV is_identifiable_ok w n C NO) as (ident & EID).
  eapply (ENV good_rd); [exact C|exists (OK ident); split; [exact EID|]; intros a [= <-]; exact (eq_refl ident)|]. intros a <-.
  assert (KN_refl : forall w0, keepN w0 tt w0) by (intros w0; split; [apply sameP_refl|split; reflexivity]).
  assert (KN_trans : forall a b c, keepN a tt b -> keepN b tt c -> keepN a tt c).
  { intros a b c (S1 & N1 & E1) (S2 & N2 & E2). split; [eapply sameP_trans; eauto|split; congruence]. }
  eapply (ENV good_bind _ _ w (fun _ w1 => keepN w tt w1)).
  { destruct ident; [|apply (ENV good_ret); [exact C|apply KN_refl]].
    eapply (ENV good_rd); [exact C|apply (ENV rd_item_name w n (fun _ => True) C NO); auto|]. intros nm _. cbv zeta.
    eapply (ENV good_bind _ _ w (fun _ w1 => keepN w tt w1)); [apply (ENV good_add_identifiable w m _ i C Lm L)|].
    intros [] w1 C1 X1 K1. apply (ENV good_ret); [exact C1|intros; exact K1]. }
  intros cur' w1 C1 X1 K1.
  destruct (is_ref_ok T TOK _ ET) as (isr & EI).
  eapply (ENV good_rd); [exact C1|apply (rd_wl _ isr w1 (fun a => a = isr) EI); reflexivity|]. intros a ->.
  assert (Lm1 : m < N.of_nat (List.length (w_models w1))) by (eapply (ENV ext_models); eauto).
  assert (L1 : i < w_next w1) by (eapply (ENV ext_next); eauto).
  eapply (ENV good_bind _ _ w1 (fun _ w2 => keepN w tt w2)).
  { destruct isr; [|apply (ENV good_ret); [exact C1|exact K1]].
    destruct (ENV character_data_ok w n NO) as (cd & ECD).
    eapply (ENV good_rd); [exact C1|apply (rd_wl _ cd w1 (fun a => a = cd) ECD); reflexivity|]. intros a ->.
    destruct cd as [[e|r|u|fl]|]; try (apply (ENV good_ret); [exact C1|exact K1]).
    eapply (ENV good_weaken); [apply (ENV good_add_reference_origin w1 m r i C1 Lm1 L1)|]. intros u w2 K2. eapply KN_trans; eauto. }
  intros [] w2 C2 X2 K2.
  assert (KLOOP : forall l w3, Closed w3 -> keepN w tt w3 -> m < N.of_nat (List.length (w_models w3)) ->
            (forall c, In (CElem c) l -> In (CElem c) (n_content n)) ->
            runsQ ((fix kids (l : list citem) : W unit :=
                      match l with
                      | [] => wret tt
                      | CElem c :: rest => wbind (register_subtree T f m cur' c) (fun _ => kids rest)
                      | CData _ :: rest => kids rest
                      end) l) w3 (good w3 (fun _ w4 => keepN w tt w4))).
  { induction l as [|[c|d] rest IHl]; intros w3 C3 K3 Lm3 SUB.
    - apply (ENV good_ret); [exact C3|exact K3].
    - assert (INc : In (CElem c) (n_content n)) by (apply SUB; left; reflexivity).
      destruct K3 as (S3 & N3 & E3).
      assert (Lc : c < w_next w3) by (rewrite N3; apply KIDS; exact INc).
      assert (Hc : hb w3 c f).
      { eapply hb_rmrel; [apply (rmrel_sameN w w3 E3 N3)|]. eapply HK; [exact EN|exact INc]. }
      eapply (ENV good_bind _ _ w3 (fun _ w4 => keepN w tt w4)).
      + eapply (ENV good_weaken); [apply (IH c w3 cur' C3 Lc Lm3 Hc)|]. intros u w4 K4. eapply KN_trans; [|exact K4]. split; [exact S3|split; assumption].
      + intros [] w4 C4 X4 K4. eapply (ENV good_weaken); [apply IHl; auto|].
        * eapply (ENV ext_models); eauto.
        * intros c0 H0. apply SUB. right. exact H0.
        * intros u w5 K5 w00 _. exact K5.
    - apply IHl; auto. intros c0 H0. apply SUB. right. exact H0. }
  eapply (ENV good_weaken); [apply KLOOP; auto|].
  - eapply (ENV ext_models); eauto.
  - intros u w3 K3 w00 _ w01 _. exact K3.
Qed.

(* ---------- create_copied_sub_element_inner ---------- *)
Lemma SizeOk_models w w' : w_models w' = w_models w -> SizeOk w -> SizeOk w'.
Proof. intros E S x IN. rewrite E in IN. apply S. exact IN. Qed.

Lemma np_ccsei w self other pos m version n :
  Closed w -> UpWF w -> HBall w -> SizeOk w -> w_nodes w self = Some n -> other < w_next w ->
  m < N.of_nat (List.length (w_models w)) -> pos <= N.of_nat (List.length (n_content n)) ->
  runs (create_copied_sub_element_inner T self other pos m version) w.
Proof.
  intros C U HB SZ EN Lo Lm LE. unfold create_copied_sub_element_inner.
  assert (L : self < w_next w) by (apply (cl_alloc _ _ _ _ C); congruence).
  pose proof (cl_node _ _ _ _ C _ _ EN) as NO.
  eapply runs_bind; [apply get_node_val; exact EN|]. intros ? [= <-].
  eapply runs_bind; [apply wget_val|]. intros ? [= <-].
  eapply rd_bind_runs.
  { apply (ancestor_is_pref_ok w (n_parent n) other C U). destruct NO as (_ & _ & _ & _ & P). destruct (n_parent n); auto. }
  intros anc _. destruct anc; [apply runs_fail|].
  set (N0 := w_next w).
  assert (INC0 : IncNew N0 w).
  { intros x nx y Lx Ex _. exfalso. assert (x < w_next w) by (apply (cl_alloc _ _ _ _ C); congruence). unfold N0 in Lx. lia. }
  destruct (ENV dc_deep_copy version (fuel_of w) other w N0 C ltac:(unfold N0; lia) Lo (HB other Lo)) as (r1 & w1 & E1 & D1 & R1).
  eapply runs_bind; [exact E1|]. intros c ->. destruct R1 as (Lc0 & Lc1).
  pose proof D1 as (C1 & X1 & F1 & I1 & M1).
  destruct (ENV get_node_ok w1 c C1 Lc1) as (cn0 & EG0 & EC0 & NO0).
  eapply runs_bind; [exact EG0|]. intros ? [= <-].
  pose proof NO0 as (ET0 & _).
  destruct (is_named_in_version_ok T TOK _ version ET0) as (nv & ENV0).
  eapply runs_bind; [apply wl_val; exact ENV0|]. intros ? [= <-].
  destruct (ENV is_identifiable_ok w1 cn0 C1 NO0) as (id0 & EID0).
  eapply runs_bind; [exact EID0|]. intros ? [= <-].
  destruct (nv && negb id0); [apply runs_fail|].
  eapply rd_bind_runs; [apply (path_unchecked_frozen w w1 n C U C1 F1 X1 NO)|]. intros path _.
  (* the copy is linked to its new parent *)
  assert (L1 : self < w_next w1) by (destruct X1 as (A & _); lia).
  set (w2 := wset w1 c (set_parent cn0 (PElem self))).
  eapply runs_bind; [apply (modify_node_val c _ w1 cn0 EC0)|]. intros ? [= <-]. fold w2.
  assert (D2 : dc N0 w w2).
  { apply (ENV dc_set_new N0 w w1 c cn0 _ C1 ltac:(unfold N0 in *; lia) EC0); [|intros y IN; left; exact IN|exact D1].
    destruct NO0 as (A & B & D & E & _). split; [exact A|]. split; [exact B|]. split; [exact D|]. split; [exact E|exact L1]. }
  pose proof D2 as (C2 & X2 & F2 & I2 & M2).
  assert (INC2 : IncNew N0 w2) by (apply I2; exact INC0).
  assert (Lc2 : c < w_next w2) by (unfold w2; cbn; exact Lc1).
  assert (Lm2 : m < N.of_nat (List.length (w_models w2))) by (rewrite M2; exact Lm).
  destruct (ENV get_node_ok w2 c C2 Lc2) as (cn & EGC & ECN & NOC).
  eapply runs_bind; [exact EGC|]. intros ? [= <-].
  destruct (ENV is_identifiable_ok w2 cn C2 NOC) as (ident & EID).
  eapply runs_bind; [exact EID|]. intros ? [= <-].
  (* make_unique_item_name *)
  assert (STEP : exists r3 w3, (if ident then wbind (make_unique_item_name T c m path) (fun _ => wret tt) else wret tt) w2 = Val (r3, w3) /\
                  dc N0 w w3 /\ IncNew N0 w3 /\ w_next w3 = w_next w2).
  { destruct ident; [|exists (OK tt), w2; split; [reflexivity|]; split; [exact D2|]; split; [exact INC2|reflexivity]].
    destruct (mu_copy N0 w w2 c m path C2 (SizeOk_models w w2 M2 SZ) D2 INC2 ltac:(unfold N0 in *; lia) ltac:(unfold N0; lia) Lc2 Lm2)
      as (r3 & w3 & E3 & D3 & INC3 & N3 & _).
    unfold wbind. rewrite E3. destruct r3; eexists _, w3; (split; [reflexivity|]); split; auto. }
  destruct STEP as (r3 & w3 & E3 & D3 & INC3 & N3).
  eapply runs_bind; [exact E3|]. intros ? ->.
  pose proof D3 as (C3 & X3 & F3 & I3 & M3).
  eapply runs_bind; [apply wget_val|]. intros ? [= <-].
  assert (Lc3 : c < w_next w3) by (rewrite N3; exact Lc2).
  assert (Lm3 : m < N.of_nat (List.length (w_models w3))) by (rewrite M3; exact Lm).
  assert (H3 : hb w3 c (fuel_of w3)).
  { eapply hb_mono; [apply (hb_IncNew N0 w3 INC3) with (k := (N.to_nat (w_next w3) - N.to_nat c)%nat) (x := c)|].
    - intros x nx Ex y IN. pose proof (cl_node _ _ _ _ C3 _ _ Ex) as (_ & _ & K & _). apply K. exact IN.
    - unfold N0 in *. lia.
    - lia.
    - unfold fuel_of. lia. }
  destruct (reg_ok m (fuel_of w3) c w3 path C3 Lc3 Lm3 H3) as (r4 & w4 & E4 & C4 & X4 & K4).
  eapply runs_bind; [exact E4|]. intros [] ->. destruct K4 as (_ & N4 & EN4).
  eapply runs_then; [|intros; apply runs_ret].
  apply (ENV content_insert_runs w4 self pos (CElem c) n); [|exact LE].
  rewrite EN4. rewrite (F3 self L). exact EN.
Qed.

Lemma np_copy w h other : PanicFree w -> SizeOk w -> h < w_next w -> other < w_next w ->
  runs (e_create_copied_sub_element T LATEST h other) w.
Proof.
  intros PF SZ L Lo. pose proof PF as [C U CU]. pose proof (Live12_of_PanicFree T tab_el tab_en check_fn LATEST root_attrs OK12 CHECK w PF) as (_ & HB).
  unfold e_create_copied_sub_element. destruct (h =? other); [apply runs_fail|].
  eapply rd_bind_runs; [apply (ENV model_of_ok w h C U L)|]. intros m Lm.
  eapply rd_bind_runs; [apply (ENV min_version_ok w h C U L)|]. intros v _.
  unfold raw_create_copied_sub_element.
  destruct (ENV get_node_ok w h C L) as (n & EG & EN & NO).
  eapply runs_bind; [exact EG|]. intros ? [= <-].
  eapply rd_bind_runs; [apply (ENV rd_get_node w other (fun _ => True) C Lo); auto|]. intros o _.
  eapply rd_bind_runs; [apply (ENV calc_range_ok w n (n_name o) v C NO)|]. intros [s e] [_ LE].
  eapply np_ccsei; eauto.
Qed.

Lemma np_copy_at w h other pos : PanicFree w -> SizeOk w -> h < w_next w -> other < w_next w ->
  runs (e_create_copied_sub_element_at T LATEST h other pos) w.
Proof.
  intros PF SZ L Lo. pose proof PF as [C U CU]. pose proof (Live12_of_PanicFree T tab_el tab_en check_fn LATEST root_attrs OK12 CHECK w PF) as (_ & HB).
  unfold e_create_copied_sub_element_at. destruct (h =? other); [apply runs_fail|].
  eapply rd_bind_runs; [apply (ENV model_of_ok w h C U L)|]. intros m Lm.
  eapply rd_bind_runs; [apply (ENV min_version_ok w h C U L)|]. intros v _.
  unfold raw_create_copied_sub_element_at.
  destruct (ENV get_node_ok w h C L) as (n & EG & EN & NO).
  eapply runs_bind; [exact EG|]. intros ? [= <-].
  eapply rd_bind_runs; [apply (ENV rd_get_node w other (fun _ => True) C Lo); auto|]. intros o _.
  eapply rd_bind_runs; [apply (ENV calc_range_ok w n (n_name o) v C NO)|]. intros [s e] [_ LE]. cbn [fst snd] in LE.
  destruct ((s <=? pos) && (pos <=? e)) eqn:B; [|apply runs_fail].
  apply andb_true_iff in B as [_ B]. apply N.leb_le in B.
  eapply np_ccsei; eauto. lia.
Qed.

End Copy2.
