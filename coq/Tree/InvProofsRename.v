(* Tree/InvProofsRename.v — C03 proofs: set_item_name and set_reference_target. *)
From Coq Require Import PeanoNat Arith.
From AV Require Import Base.Bytes Base.Outcome Hash.HashModel Tree.Heap Tree.Ops Tree.Script Tree.Inv
  Tree.InvProofsBase Tree.InvProofsCore Tree.InvProofsTree Tree.InvProofsPrim Tree.InvProofsCreate
  Tree.InvProofsData Tree.InvProofsRefs Tree.InvProofsRemove Tree.InvProofsMove.
Open Scope string_scope.
Open Scope list_scope.
Open Scope N_scope.

Section Rename.
Variable T : tables.
Variable tab_el tab_en : nametab.
Variable check_fn : N -> list N -> res bool.
Variable LATEST : N.

(* ---------- the loops of set_item_name ---------- *)
Definition ow_loop (refpath_new : list N) : list id -> W unit :=
  fix upd_refs (rl : list id) : W unit :=
    match rl with
    | [] => wret tt
    | re :: rr =>
      (do rn <- get_node re;
       match n_content rn with
       | [] => set_node re (set_content rn [CData (DString refpath_new)])
       | _ :: tl => set_node re (set_content rn (CData (DString refpath_new) :: tl))
       end;; upd_refs rr)%W
    end.

(* one overwrite, given the node that was just read *)
Lemma ow_set_inv p re (rn : node) w r w' :
  match n_content rn with
  | [] => set_node re (set_content rn [CData (DString p)])
  | _ :: tl => set_node re (set_content rn (CData (DString p) :: tl))
  end w = Val (r, w') ->
  r = OK tt /\
  w' = wset w re (set_content rn (CData (DString p) :: match n_content rn with [] => [] | _ :: t => t end)).
Proof. destruct (n_content rn); intros H; apply set_node_wset in H as (-> & ->); auto. Qed.

Lemma bnp_ow_loop w0 p rl : OriginsClean w0 -> (forall re, In re rl -> in_origins w0 re) -> bnp w0 (ow_loop p rl).
Proof.
  intros Hc. induction rl as [|re rr IH]; intros Hin; cbn [ow_loop]; [apply bnp_ro; ro_tac|].
  intros w r w' B H. wstepn H rn En; winv En. wstepn H u Es.
  - apply ow_set_inv in Es as (_ & ->). eapply IH; [| |exact H].
    + intros re' Hre'. apply Hin. right; auto.
    + eapply bn_trans; [exact B|]. apply (bn_overwrite w re n); auto.
      apply (proj1 (proj2 B)). apply Hc. apply Hin. left; auto.
  - apply ow_set_inv in Es as ([=] & _).
Qed.

Lemma shrp_ow_loop p rl : shrp (ow_loop p rl).
Proof.
  induction rl as [|re rr IH]; cbn [ow_loop]; [apply shrp_stp; stp_tac|].
  intros w r w' C H. wstepn H rn En; winv En. wstepn H u Es.
  2:{ apply ow_set_inv in Es as ([=] & _). }
  apply ow_set_inv in Es as (_ & ->).
  set (n' := set_content n _) in *.
  assert (Hk : kids n' = kids n \/ exists c, kids n = c :: kids n').
  { unfold n', kids. cbn. destruct (n_content n) as [|[c|d] t]; auto. right. exists c. reflexivity. }
  pose proof (c_nodup _ C _ _ Hn) as Hnd.
  assert (S1 : shr w (wset w re n')).
  { apply (shr_upd1 w _ re (n_parent n) (kids n) (kids n')); auto.
    - apply upd1_wset.
    - apply skel_some; auto.
    - rewrite skel_wset_eq. reflexivity.
    - destruct Hk as [->|(c & ->)]; [apply incl_refl | apply incl_tl, incl_refl].
    - destruct Hk as [->|(c & Hk)]; auto. rewrite Hk in Hnd. inversion Hnd; auto. }
  eapply shr_trans; [exact S1|]. eapply IH; eauto. eapply Core_shr; eauto.
Qed.

Definition rename_ref_body (m : N) (old_path new_path : list N) (refpath : list N) : W unit :=
  match strip_prefix old_path refpath with
  | Some partial =>
    if is_empty partial || starts_with_slash partial then
      (do y <- get_model m;
       match assoc_get refpath (m_origins y) with
       | Some reflist =>
         set_model m (set_origins y (assoc_remove refpath (m_origins y)));;
         let refpath_new := new_path ++ partial in
         ow_loop refpath_new reflist;;
         modify_model m (fun z => set_origins z (match assoc_get refpath_new (m_origins z) with
                                                  | Some l0 => assoc_insert refpath_new (l0 ++ reflist) (m_origins z)
                                                  | None => m_origins z ++ [(refpath_new, reflist)] end))
       | None => wret tt
       end)%W
    else wret tt
  | None => wret tt
  end.

Lemma bnp_rename_ref_body w0 m op np refpath : OriginsClean w0 -> bnp w0 (rename_ref_body m op np refpath).
Proof.
  intros Hc w r w' B H. unfold rename_ref_body in H.
  destruct (strip_prefix op refpath) as [partial|]; [|winv H; auto].
  destruct (is_empty partial || starts_with_slash partial); [|winv H; auto].
  wstepn H x Ex; winv Ex.
  destruct (assoc_get refpath (m_origins x0)) as [refs|] eqn:Hg; [|winv H; auto].
  assert (Hrefs : forall re, In re refs -> in_origins w0 re).
  { intros re Hre. apply (proj2 (proj2 B)). apply assoc_get_in in Hg as (k' & Hk'). eapply in_origins_get; eauto. }
  wstepn H u Es. apply set_model_inv in Es as (_ & ->).
  assert (B1 : bn w0 (wmodels w (list_set (w_models w) (N.to_nat m) (set_origins x0 (assoc_remove refpath (m_origins x0)))))).
  { eapply bn0_set_model; eauto. intros k l re Hk Hre. apply (proj2 (proj2 B)).
    cbn in Hk. apply assoc_remove_in in Hk. eapply in_origins_get; eauto. }
  wstepn H u2 El.
  2:{ eapply bnp_ow_loop; eauto. }
  assert (B2 : bn w0 w1) by (eapply bnp_ow_loop; eauto).
  apply modify_model_inv in H as (y & Hy & _ & ->).
  eapply bn0_set_model; eauto.
  intros k l re Hk Hre. cbn in Hk.
  destruct (assoc_get (np ++ partial) (m_origins y)) as [l0|] eqn:Hg0.
  - apply assoc_insert_in in Hk as [Hk| ->].
    + apply (proj2 (proj2 B2)). eapply in_origins_get; eauto.
    + apply in_app_or in Hre as [Hre|Hre]; auto.
      apply (proj2 (proj2 B2)). apply assoc_get_in in Hg0 as (k' & Hk'). eapply in_origins_get; eauto.
  - apply in_app_or in Hk as [Hk|[[= <- <-]|[]]]; auto.
    apply (proj2 (proj2 B2)). eapply in_origins_get; eauto.
Qed.

Lemma shrp_rename_ref_body m op np refpath : shrp (rename_ref_body m op np refpath).
Proof.
  unfold rename_ref_body. destruct (strip_prefix op refpath) as [partial|]; [|apply shrp_stp; stp_tac].
  destruct (is_empty partial || starts_with_slash partial); [|apply shrp_stp; stp_tac].
  intros w r w' C H. wstepn H x Ex; winv Ex.
  destruct (assoc_get refpath (m_origins x0)); [|winv H; apply shr_refl; auto].
  wstepn H u Es.
  pose proof (stp_set_model_same m x0 (fun y => set_origins y (assoc_remove refpath (m_origins y)))
                (fun y => eq_refl) _ _ _ Hx Es) as ST.
  assert (C1 : Core w0) by (eapply Core_same_tree; eauto).
  eapply shr_trans; [apply same_tree_shr; eauto|].
  match type of H with ?mm ?wa = _ => refine ((_ : shrp mm) wa _ _ C1 H) end.
  apply shrp_bind; [apply shrp_ow_loop | intros; apply shrp_stp; stp_tac].
Qed.

(* ---------- set_item_name ---------- *)
Lemma set_item_name_spec h new_name w r w' :
  e_set_item_name T check_fn LATEST h new_name w = Val (r, w') -> Core w ->
  Core w' /\ (OriginsClean w -> same_tree w w').
Proof.
  intros H C. unfold e_set_item_name in H.
  assert (F : Core w /\ (OriginsClean w -> same_tree w w)) by (split; auto; intros; apply same_tree_refl).
  wrun_ro H ltac:(exact F).
  match goal with Hi : item_name T ?n0 w = Val (OK (Some ?cur), w) |- _ =>
    apply item_name_some in Hi as (s & rest & sn & Hc & Hs & Hsc) end.
  match goal with Hq : n_content _ = CElem ?s0 :: _ |- _ =>
    assert (s0 = s) as -> by congruence end.
  assert (Hhead : node_head_elem w s = false) by (unfold node_head_elem, head_elem; rewrite Hs, Hsc; reflexivity).
  wstepn H u Er.
  2:{ pose proof (raw_set_cdata_st _ _ _ _ _ _ _ _ Er Hhead) as ST. split; [eapply Core_same_tree; eauto|auto]. }
  pose proof (raw_set_cdata_st _ _ _ _ _ _ _ _ Er Hhead) as ST1.
  match type of Er with _ = Val (_, ?wx) => rename wx into w1 end.
  assert (C1 : Core w1) by (eapply Core_same_tree; eauto).
  assert (B01 : hb w w1).
  { apply raw_set_cdata_inv in Er as [->|(n1 & Hn1 & _ & ->)]; [apply hb_refl|].
    assert (n1 = sn) as -> by congruence. rewrite Hsc.
    apply (bn_overwrite w s sn (DString new_name) []); auto. rewrite Hsc. reflexivity. }
  match type of H with context [fix_identifiables ?mm ?op ?np] =>
    set (m0 := mm) in *; set (op0 := op) in *; set (np0 := np) in * end.
  match type of H with ?rest w1 = _ =>
    assert (SH : shrp rest); [|assert (BN : OriginsClean w1 -> bnp w1 rest)] end.
  { apply shrp_bind; [apply shrp_stp; stp_tac|]. intros _.
    apply shrp_bind; [apply shrp_stp; stp_tac|]. intros x.
    change (shrp (each_loop (rename_ref_body m0 op0 np0) (map fst (m_origins x)))).
    apply shrp_each_loop. intros a'. apply shrp_rename_ref_body. }
  { intros Hc1. apply bnp_bind; [apply bnp_fix_identifiables|]. intros _.
    apply bnp_bind; [apply bnp_ro; ro_tac|]. intros x.
    change (bnp w1 (each_loop (rename_ref_body m0 op0 np0) (map fst (m_origins x)))).
    apply bnp_each_loop. intros a'. apply bnp_rename_ref_body; auto. }
  split.
  - eapply Core_shr; [eapply SH; eauto | auto].
  - intros Hcl. eapply same_tree_trans; [exact ST1|].
    apply (proj1 (BN (hb_clean _ _ Hcl B01) w1 r w' (bn_refl w1) H)).
Qed.

(* ---------- set_reference_target ---------- *)
Lemma raw_set_attribute_inv h attr v version w r w' :
  raw_set_attribute T check_fn h attr v version w = Val (r, w') ->
  w' = w \/ exists n a, w_nodes w h = Some n /\ w' = wset w h (set_attrs n a).
Proof.
  intros H. unfold raw_set_attribute in H. wrun H ltac:(auto). right. eauto.
Qed.

Lemma sthp_raw_set_attribute w0 h attr v version : sthp w0 (raw_set_attribute T check_fn h attr v version).
Proof.
  apply sthp_of_step. intros w r w' H. apply raw_set_attribute_inv in H as [->|(n & a & Hn & ->)]; [apply sth_refl|].
  split; [eapply st_wset; eauto|].
  intros i Hi. unfold node_head_elem in *. destruct (N.eq_dec i h) as [->|Hih].
  - rewrite nodes_wset_eq. rewrite Hn in Hi. exact Hi.
  - rewrite nodes_wset_neq by auto. exact Hi.
Qed.

Lemma nfp_fix_reference_origins m a b e : nfp (fix_reference_origins m a b e).
Proof. unfold fix_reference_origins. nfp_tac. Qed.

Lemma set_ref_target_spec h target w r w' :
  e_set_reference_target T tab_el tab_en check_fn LATEST h target w = Val (r, w') -> Core w ->
  Core w' /\ (node_head_elem w h = false -> same_tree w w').
Proof.
  intros H C. unfold e_set_reference_target in H.
  assert (F : Core w /\ (node_head_elem w h = false -> same_tree w w)) by (split; auto; intros; apply same_tree_refl).
  wrun_ro H ltac:(exact F).
  match type of H with ?rest w = _ =>
    assert (SH : shrp rest); [|assert (BN : node_head_elem w h = false -> sthp w rest)] end.
  - apply shrp_bind; [apply shrp_stp, stp_try, stp_raw_set_attribute|]. intros [u|]; [|apply shrp_stp; stp_tac].
    apply shrp_bind; [apply shrp_stp; stp_tac|]. intros n2.
    apply shrp_bind; [apply shrp_stp; stp_tac|]. intros cd.
    apply shrp_bind; [apply shrp_stp; stp_tac|]. intros _. apply shrp_raw_set_cdata.
  - intros Hh. apply sthp_bind.
    { intros wa ra wb Ba Ea. apply wtry_inv in Ea as (r0 & Ea & _). eapply sthp_raw_set_attribute; eauto. }
    intros [u|]; [|apply sthp_ro; ro_tac].
    apply sthp_bind; [apply sthp_ro; ro_tac|]. intros n2.
    apply sthp_bind; [apply sthp_ro; ro_tac|]. intros cd.
    apply sthp_bind.
    { destruct cd as [[| | |]|]; first [apply sthp_nfp, nfp_fix_reference_origins
                                       | apply sthp_nfp, nfp_add_reference_origin]. }
    intros _. apply sthp_raw_set_cdata; auto.
  - split; [eapply Core_shr; [eapply SH; eauto | auto] | intros Hh; apply (proj1 (BN Hh w r w' (sth_refl w) H))].
Qed.

End Rename.
