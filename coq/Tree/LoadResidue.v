(* Tree/LoadResidue.v — C11, load half: what a WHOLE rejected load (InvalidFileMerge) leaves.
   Stages of load_parsed when the merge is rejected:
     install        the parsed tree on fresh nodes                                   (LoadProofs.above)
     register       the file record is appended
     merge stage    LoadEffects.WorldEff: memberships made explicit / new file added, imported elements inserted
     rollback       Element::remove_from_file(new file) at the model root, result ignored   [RemEff] below
     cleanup        unreachable nodes of the parsed tree die, the file record is dropped    [KillEff], [DropEff]
   [Residue] is the composition; [load_reject_residue]: every load rejected with InvalidFileMerge is in it. *)
From Coq Require Import Permutation.
From AV Require Import Base.Bytes Base.Outcome Hash.HashModel Tree.Heap Tree.Ops Tree.Script Tree.Load Tree.Observe
  Tree.LoadProofsBase Tree.LoadProofs Tree.LoadEffects.
From AV Require Tree.LoadRefineMain Tree.MergeSpec.
From AV Require Xml.Lexer Xml.Parser.
Open Scope string_scope.
Open Scope list_scope.
Open Scope N_scope.

(* ------------------------------------------------------------------ effects, generically *)
Section EffR.
Variable R : world -> world -> Prop.
Hypothesis R_refl : forall w, R w w.
Hypothesis R_trans : forall a b c, R a b -> R b c -> R a c.

Definition effAt {A} (m : W A) (w : world) : Prop := forall r w', m w = Val (r, w') -> R w w'.
Definition effR {A} (m : W A) : Prop := forall w, effAt m w.

Lemma effR_ro {A} (m : W A) : ro m -> effR m.
Proof. intros H w r w' E. apply H in E. subst. apply R_refl. Qed.
Lemma effAt_bind {A B} (m : W A) (k : A -> W B) w :
  effAt m w -> (forall a w1, m w = Val (OK a, w1) -> effAt (k a) w1) -> effAt (wbind m k) w.
Proof.
  intros Hm Hk r w' H. apply wbind_inv in H as [(a & w1 & H1 & H2) | (e & H1 & _)].
  - eapply R_trans; [eapply Hm; eauto|eapply Hk; eauto].
  - eapply Hm; eauto.
Qed.
Lemma effR_bind {A B} (m : W A) (k : A -> W B) : effR m -> (forall a, effR (k a)) -> effR (wbind m k).
Proof. intros Hm Hk w. apply effAt_bind; [apply Hm|]. intros a w1 _. apply Hk. Qed.
Lemma effR_try {A} (m : W A) : effR m -> effR (wtry m).
Proof. intros Hm w r w' H. apply wtry_inv in H as (r0 & H & _). eapply Hm; eauto. Qed.
Lemma effR_catch {A} (m : W A) : effR m -> effR (wcatch m).
Proof. intros Hm w r w' H. apply wcatch_inv in H as (r0 & H & _). eapply Hm; eauto. Qed.
(* reading a node first: the continuation runs in the same world and knows the node *)
Lemma effAt_get_node {B} i (k : node -> W B) w :
  (forall n, w_nodes w i = Some n -> effAt (k n) w) -> effAt (wbind (get_node i) k) w.
Proof.
  intros Hk r w' H. apply wbind_inv in H as [(n & w1 & H1 & H2) | (e & H1 & _)].
  - apply get_node_inv in H1 as (n' & Hn & [= <-] & ->). eapply Hk; eauto.
  - apply get_node_inv in H1 as (? & _ & [=] & _).
Qed.
End EffR.

Lemma forall2_refl {A} (R : A -> A -> Prop) l : (forall x, R x x) -> Forall2 R l l.
Proof. intros H. induction l; constructor; auto. Qed.
Lemma forall2_trans {A} (R : A -> A -> Prop) :
  (forall a b c, R a b -> R b c -> R a c) -> forall l1 l2 l3, Forall2 R l1 l2 -> Forall2 R l2 l3 -> Forall2 R l1 l3.
Proof.
  intros Ht l1 l2 l3 H. revert l3. induction H as [|a b l1 l2 Hab H IH]; intros l3 H2; inversion H2; subst; constructor; eauto.
Qed.
Lemma forall2_list_set {A} (R : A -> A -> Prop) l k x x' :
  (forall y, R y y) -> nth_opt l k = Some x -> R x x' -> Forall2 R l (list_set l k x').
Proof.
  intros Hr. revert k. induction l as [|y l IH]; intros [|k] Hn Hx; cbn in *; try discriminate.
  - injection Hn as ->. constructor; [exact Hx|apply forall2_refl; exact Hr].
  - constructor; [apply Hr|apply IH; auto].
Qed.

(* ------------------------------------------------------------------ the rollback: remove_from_file *)
(* membership: the file is removed from some set, or the set is cleared (a deleted element) *)
Inductive FilesRem (f : N) : list N -> list N -> Prop :=
| fr_refl a : FilesRem f a a
| fr_remove a c b : FilesRem f (set_remove f c) b -> FilesRem f a b
| fr_clear a b : FilesRem f [] b -> FilesRem f a b.
(* content: items removed, nothing inserted or reordered *)
Inductive ContentRem : list citem -> list citem -> Prop :=
| cr_refl c : ContentRem c c
| cr_remove c k c' : ContentRem (remove_at c k) c' -> ContentRem c c'
| cr_clear c c' : ContentRem [] c' -> ContentRem c c'.
(* the path index: entries removed (IndexMap::swap_remove) *)
Inductive IdentsRem : list (list N * id) -> list (list N * id) -> Prop :=
| ir_refl l : IdentsRem l l
| ir_remove l p l' : IdentsRem (assoc_swap_remove p l) l' -> IdentsRem l l'.
(* the reference index: one origin removed from the entry of a reference text *)
Definition origin_removed (r : list N) (e : id) (o : list (list N * list id)) : list (list N * list id) :=
  match assoc_get r o with
  | Some l => let l' := remove_first e l in if is_empty l' then assoc_remove r o else assoc_insert r l' o
  | None => o
  end.
Inductive OriginsRem : list (list N * list id) -> list (list N * list id) -> Prop :=
| or_refl l : OriginsRem l l
| or_remove l r e l' : OriginsRem (origin_removed r e l) l' -> OriginsRem l l'.

Lemma FilesRem_trans f a b c : FilesRem f a b -> FilesRem f b c -> FilesRem f a c.
Proof. induction 1; intros H2; auto; [eapply fr_remove|eapply fr_clear]; eauto. Qed.
Lemma ContentRem_trans a b c : ContentRem a b -> ContentRem b c -> ContentRem a c.
Proof. induction 1; intros H2; auto; [eapply cr_remove|eapply cr_clear]; eauto. Qed.
Lemma IdentsRem_trans a b c : IdentsRem a b -> IdentsRem b c -> IdentsRem a c.
Proof. induction 1; intros H2; auto. eapply ir_remove; eauto. Qed.
Lemma OriginsRem_trans a b c : OriginsRem a b -> OriginsRem b c -> OriginsRem a c.
Proof. induction 1; intros H2; auto. eapply or_remove; eauto. Qed.

Record NodeRem (f : N) (n n' : node) : Prop := mkNodeRem {
  nr_name : n_name n' = n_name n;
  nr_type : n_type n' = n_type n;
  nr_attrs : n_attrs n' = n_attrs n;
  nr_comment : n_comment n' = n_comment n;
  nr_parent : n_parent n' = n_parent n \/ n_parent n' = PNone;
  nr_files : FilesRem f (n_files n) (n_files n');
  nr_content : ContentRem (n_content n) (n_content n')
}.
Record ModelRem (x x' : model) : Prop := mkModelRem {
  mr_root : m_root x' = m_root x;
  mr_files : m_files x' = m_files x;
  mr_idents : IdentsRem (m_idents x) (m_idents x');
  mr_origins : OriginsRem (m_origins x) (m_origins x')
}.

Lemma NodeRem_refl f n : NodeRem f n n.
Proof. constructor; auto; [apply fr_refl|apply cr_refl]. Qed.
Lemma NodeRem_trans f a b c : NodeRem f a b -> NodeRem f b c -> NodeRem f a c.
Proof.
  intros [A1 A2 A3 A4 A5 A6 A7] [B1 B2 B3 B4 B5 B6 B7]. constructor; try congruence.
  - destruct B5 as [B5|B5]; [rewrite B5; exact A5|right; exact B5].
  - eapply FilesRem_trans; eauto.
  - eapply ContentRem_trans; eauto.
Qed.
Lemma ModelRem_refl x : ModelRem x x.
Proof. constructor; auto; [apply ir_refl|apply or_refl]. Qed.
Lemma ModelRem_trans a b c : ModelRem a b -> ModelRem b c -> ModelRem a c.
Proof.
  intros [A1 A2 A3 A4] [B1 B2 B3 B4]. constructor; try congruence;
    [eapply IdentsRem_trans; eauto|eapply OriginsRem_trans; eauto].
Qed.

Definition RemEff (f : N) (w w' : world) : Prop :=
  w_next w' = w_next w /\ w_files w' = w_files w /\ Forall2 ModelRem (w_models w) (w_models w') /\
  forall i, match w_nodes w i, w_nodes w' i with
            | Some n, Some n' => NodeRem f n n'
            | None, None => True
            | _, _ => False
            end.

Lemma RemEff_refl f w : RemEff f w w.
Proof.
  repeat split; auto; [apply forall2_refl, ModelRem_refl|]. intros i. destruct (w_nodes w i); [apply NodeRem_refl|exact I].
Qed.
Lemma RemEff_trans f w1 w2 w3 : RemEff f w1 w2 -> RemEff f w2 w3 -> RemEff f w1 w3.
Proof.
  intros (A1 & A2 & A3 & A4) (B1 & B2 & B3 & B4). repeat split; try congruence.
  - eapply forall2_trans; [apply ModelRem_trans|exact A3|exact B3].
  - intros i. specialize (A4 i). specialize (B4 i).
    destruct (w_nodes w1 i), (w_nodes w2 i), (w_nodes w3 i); try contradiction; auto. eapply NodeRem_trans; eauto.
Qed.

Lemma rem_upd f w i n n' :
  w_nodes w i = Some n -> NodeRem f n n' ->
  RemEff f w (mkWorld (upd (w_nodes w) i n') (w_next w) (w_files w) (w_models w)).
Proof.
  intros Hn He. repeat split; auto; [apply forall2_refl, ModelRem_refl|]. intros j. cbn [w_nodes].
  destruct (N.eq_dec j i) as [->|Hne].
  - rewrite upd_eq, Hn. exact He.
  - rewrite upd_neq by exact Hne. destruct (w_nodes w j); [apply NodeRem_refl|exact I].
Qed.
Lemma rem_modify_node f i g : (forall n, NodeRem f n (g n)) -> effR (RemEff f) (modify_node i g).
Proof. intros Hg w r w' H. apply modify_node_inv in H as (n & Hn & _ & ->). apply rem_upd with n; auto. Qed.
Lemma rem_modify_model f m g : (forall x, ModelRem x (g x)) -> effR (RemEff f) (modify_model m g).
Proof.
  intros Hg w r w' H. apply modify_model_inv in H as (x & Hx & _ & ->). repeat split; auto.
  - cbn [w_models]. eapply forall2_list_set; [apply ModelRem_refl|exact Hx|apply Hg].
  - intros i. cbn [w_nodes]. destruct (w_nodes w i); [apply NodeRem_refl|exact I].
Qed.

Section Rollback.
Variable T : tables.
Variable f : N.
Let E {A} (m : W A) := effR (RemEff f) m.
Let Erefl := RemEff_refl f.
Let Etrans := RemEff_trans f.

Lemma rem_remove_identifiable m p : E (remove_identifiable m p).
Proof.
  unfold remove_identifiable. apply rem_modify_model. intros x. constructor; cbn; auto; [|apply or_refl].
  eapply ir_remove. apply ir_refl.
Qed.
Lemma rem_remove_reference_origin m r e : E (remove_reference_origin m r e).
Proof.
  unfold remove_reference_origin. apply rem_modify_model. intros x. constructor; cbn; auto; [apply ir_refl|].
  eapply or_remove with (r := r) (e := e). apply or_refl.
Qed.

Lemma rem_remove_internal fuel : forall i m path, E (remove_internal T fuel i m path).
Proof.
  induction fuel as [|fl IH]; intros i m path; cbn [remove_internal]; [apply (effR_ro _ Erefl), ro_fuel|].
  apply (effR_bind _ Etrans); [apply (effR_ro _ Erefl), ro_get_node|intros n].
  apply (effR_bind _ Etrans); [apply (effR_ro _ Erefl), ro_is_identifiable|intros ident].
  apply (effR_bind _ Etrans).
  { destruct ident; [|apply (effR_ro _ Erefl), ro_ret].
    apply (effR_bind _ Etrans); [apply (effR_ro _ Erefl), ro_item_name|intros nm].
    destruct nm as [x|]; [|apply (effR_ro _ Erefl), ro_ret].
    apply (effR_bind _ Etrans); [apply rem_remove_identifiable|intros _; apply (effR_ro _ Erefl), ro_ret]. }
  intros path'.
  apply (effR_bind _ Etrans); [apply (effR_ro _ Erefl), ro_wl|intros isr].
  apply (effR_bind _ Etrans).
  { destruct isr; [|apply (effR_ro _ Erefl), ro_ret].
    apply (effR_bind _ Etrans); [apply (effR_ro _ Erefl), ro_wl|intros cd].
    destruct cd as [[| s | |]|]; try (apply (effR_ro _ Erefl), ro_ret). apply rem_remove_reference_origin. }
  intros _.
  apply (effR_bind _ Etrans).
  { induction (n_content n) as [|[c|d] rest IHr]; [apply (effR_ro _ Erefl), ro_ret| |exact IHr].
    apply (effR_bind _ Etrans); [apply IH|intros _; exact IHr]. }
  intros _. apply rem_modify_node. intros x. constructor; cbn; auto; [apply fr_clear, fr_refl|apply cr_clear, cr_refl].
Qed.

Lemma rem_raw_remove_sub_element self sub m : E (raw_remove_sub_element T self sub m).
Proof.
  unfold raw_remove_sub_element.
  apply (effR_bind _ Etrans); [apply (effR_ro _ Erefl), ro_get_node|intros n].
  apply (effR_bind _ Etrans); [apply (effR_ro _ Erefl), ro_path_unchecked|intros path].
  destruct (index_of _ _) as [pos|]; [|apply (effR_ro _ Erefl), ro_fail].
  apply (effR_bind _ Etrans); [apply (effR_ro _ Erefl), ro_wl|intros named].
  apply (effR_bind _ Etrans); [apply (effR_ro _ Erefl), ro_get_node|intros sn].
  destruct (_ && _); [apply (effR_ro _ Erefl), ro_fail|].
  apply (effR_bind _ Etrans); [apply (effR_ro _ Erefl), ro_wget|intros w0].
  apply (effR_bind _ Etrans); [apply rem_remove_internal|intros _].
  apply rem_modify_node. intros x. constructor; cbn; auto; [apply fr_refl|]. eapply cr_remove. apply cr_refl.
Qed.

Lemma rem_e_remove_sub_element h sub : E (e_remove_sub_element T h sub).
Proof.
  unfold e_remove_sub_element. destruct (h =? sub); [apply (effR_ro _ Erefl), ro_fail|].
  apply (effR_bind _ Etrans); [apply (effR_ro _ Erefl), ro_model_of|intros m]. apply rem_raw_remove_sub_element.
Qed.

Theorem rem_e_remove_from_file e : E (e_remove_from_file T e f).
Proof.
  unfold e_remove_from_file.
  apply (effR_bind _ Etrans); [apply (effR_ro _ Erefl), ro_get_node|intros n].
  apply (effR_bind _ Etrans); [apply (effR_ro _ Erefl), ro_parent_splittable|intros ps].
  destruct (negb ps); [apply (effR_ro _ Erefl), ro_fail|].
  apply (effR_bind _ Etrans); [apply (effR_ro _ Erefl), ro_file_model|intros fm].
  apply (effR_bind _ Etrans); [apply (effR_ro _ Erefl), ro_model_of|intros m].
  destruct (negb (fm =? m)); [apply (effR_ro _ Erefl), ro_fail|].
  apply (effR_bind _ Etrans); [apply (effR_ro _ Erefl), ro_file_membership|intros [loc cur]].
  apply (effR_bind _ Etrans).
  { destruct (is_empty (set_remove f cur)); [|apply (effR_ro _ Erefl), ro_ret].
    apply (effR_bind _ Etrans); [apply (effR_ro _ Erefl), ro_parent_of|intros p].
    destruct p as [pi|]; [|apply (effR_ro _ Erefl), ro_ret].
    apply (effR_bind _ Etrans); [apply (effR_try _), rem_e_remove_sub_element|intros _; apply (effR_ro _ Erefl), ro_ret]. }
  intros _.
  apply (effR_bind _ Etrans).
  { apply rem_modify_node. intros x. constructor; cbn; auto; [|apply cr_refl]. eapply fr_remove with (c := cur). apply fr_refl. }
  intros _.
  apply (effR_bind _ Etrans); [apply (effR_ro _ Erefl), ro_wget|intros w0].
  apply (effR_bind _ Etrans); [apply (effR_ro _ Erefl), ro_dfs_ids|intros ids].
  apply (effR_bind _ Etrans).
  { induction ids as [|s rest IHs]; [apply (effR_ro _ Erefl), ro_ret|].
    intros w. apply (effAt_get_node (RemEff f)). intros sn Hsn.
    destruct (negb (is_empty (n_files sn))); [|apply IHs].
    apply (effAt_bind _ Etrans).
    - intros r w' H. apply set_node_inv in H as (_ & ->). apply rem_upd with sn; [exact Hsn|].
      constructor; cbn; auto; [|apply cr_refl]. eapply fr_remove with (c := n_files sn). apply fr_refl.
    - intros _ w1 _. apply (effAt_bind _ Etrans); [apply IHs|]. intros r0 w2 _. apply (effR_ro _ Erefl), ro_ret. }
  intros to_delete.
  induction to_delete as [|d rest IHd]; [apply (effR_ro _ Erefl), ro_ret|].
  apply (effR_bind _ Etrans); [apply (effR_ro _ Erefl), ro_get_node|intros dn].
  apply (effR_bind _ Etrans); [apply (effR_ro _ Erefl), ro_try, ro_parent_of|intros p].
  apply (effR_bind _ Etrans); [|intros _; exact IHd].
  destruct p as [[pi|]|]; try (apply (effR_ro _ Erefl), ro_ret).
  apply (effR_bind _ Etrans); [apply (effR_try _), rem_e_remove_sub_element|intros _; apply (effR_ro _ Erefl), ro_ret].
Qed.

End Rollback.

(* ------------------------------------------------------------------ cleanup: kill_unreachable, drop_file *)
Lemma cdata_only_idem l : cdata_only (cdata_only l) = cdata_only l.
Proof.
  unfold cdata_only. induction l as [|[c|d] r IH]; cbn [filter]; [reflexivity|exact IH|]. cbn [filter]. rewrite IH. reflexivity.
Qed.
Lemma kill_idem n : kill (kill n) = kill n.
Proof. unfold kill. cbn. rewrite cdata_only_idem. reflexivity. Qed.

Definition KillEff (base : N) (w w' : world) : Prop :=
  w_next w' = w_next w /\ w_files w' = w_files w /\ w_models w' = w_models w /\
  (forall i, i < base -> w_nodes w' i = w_nodes w i) /\
  (forall i, w_nodes w' i = w_nodes w i \/ exists n, w_nodes w i = Some n /\ w_nodes w' i = Some (kill n)).

Lemma fold_kill_cases keep ids : forall (g : id -> option node) j,
  let g' := fold_left (fun g i => if existsb (N.eqb i) keep then g
                                  else match g i with Some n => upd g i (kill n) | None => g end) ids g in
  g' j = g j \/ exists n, g j = Some n /\ g' j = Some (kill n).
Proof.
  induction ids as [|i ids IH]; intros g j; cbn [fold_left]; [left; reflexivity|].
  destruct (existsb (N.eqb i) keep); [apply IH|].
  destruct (g i) as [n|] eqn:Ei; [|apply IH].
  destruct (IH (upd g i (kill n)) j) as [H|(n' & H1 & H2)].
  - destruct (N.eq_dec j i) as [->|Hne].
    + right. exists n. split; [exact Ei|]. rewrite H. apply upd_eq.
    + left. rewrite H. apply upd_neq. exact Hne.
  - destruct (N.eq_dec j i) as [->|Hne].
    + right. exists n. split; [exact Ei|]. rewrite upd_eq in H1. injection H1 as <-. rewrite H2, kill_idem. reflexivity.
    + right. exists n'. rewrite upd_neq in H1 by exact Hne. auto.
Qed.

Lemma kill_unreachable_eff base keep w r w' : kill_unreachable base keep w = Val (r, w') -> r = OK tt /\ KillEff base w w'.
Proof.
  intros H. pose proof (above_kill_unreachable base base keep w r w' (N.le_refl _) H) as (_ & A2 & _).
  unfold kill_unreachable in H. injection H as <- <-. split; [reflexivity|]. repeat split; auto.
  intros i. cbn [w_nodes]. apply fold_kill_cases.
Qed.

Definition DropEff (f : N) (w w' : world) : Prop :=
  w_next w' = w_next w /\ w_files w' = removelast (w_files w) /\ w_models w' = w_models w /\
  forall i, w_nodes w' i = option_map (rename_file f (DEAD_FILE_BASE + w_next w)) (w_nodes w i).

Lemma drop_file_eff f w r w' : drop_file f w = Val (r, w') -> DropEff f w w'.
Proof.
  unfold drop_file, DropEff. set (d := DEAD_FILE_BASE + w_next w). clearbody d. intros H. injection H as _ <-.
  cbn [w_next w_files w_models w_nodes]. auto.
Qed.

(* ------------------------------------------------------------------ the residue of a rejected load *)
Definition Residue (m fid : N) (fl : file) (w w' : world) : Prop :=
  exists w1 wM wR wK,
    above (w_next w) w w1 /\
    WorldEff fid (mkWorld (w_nodes w1) (w_next w1) (w_files w1 ++ [fl]) (w_models w1)) wM /\
    RemEff fid wM wR /\ KillEff (w_next w) wR wK /\ DropEff fid wK w'.

Section Reject.
Variable T : tables.
Variables LATEST defref : N.

(* the stages of a load rejected with InvalidFileMerge, as equations *)
Lemma load_parsed_reject_inv m filename root st w w' :
  load_parsed T LATEST defref m filename root st w = Val (ER InvalidFileMerge, w') ->
  let fid := N.of_nat (List.length (w_files w)) in
  let fl := mkFile m filename (Parser.p_version st) (Parser.p_standalone st) in
  exists t w1 x wM x1 o wR keep wK,
    install PNone root w = Val (OK t, w1) /\
    let w1' := mkWorld (w_nodes w1) (w_next w1) (w_files w1 ++ [fl]) (w_models w1) in
    nth_opt (w_models w1') (N.to_nat m) = Some x /\ is_empty (m_files x) = false /\
    merge_file_data T LATEST defref m (it_id t) fid w1' = Val (ER InvalidFileMerge, wM) /\
    nth_opt (w_models wM) (N.to_nat m) = Some x1 /\
    wtry (e_remove_from_file T (m_root x1) fid) wM = Val (o, wR) /\
    kill_unreachable (w_next w) keep wR = Val (OK tt, wK) /\
    drop_file fid wK = Val (OK tt, w').
Proof.
  intros H fid fl. unfold load_parsed in H.
  apply wbind_inv in H as [(w0 & w0' & H0 & H) | (e' & H0 & _)]; [|apply wget_inv in H0 as ([=] & _)].
  apply wget_inv in H0 as (E0 & E0'). injection E0 as E0. subst w0 w0'.
  apply wbind_inv in H as [(t & w1 & H1 & H) | (e' & H1 & _)]; [|exfalso; eapply (errs_install (fun _ => False)); eauto].
  apply wbind_inv in H as [(w1' & w1'' & H2 & H) | (e' & H2 & _)]; [|apply wget_inv in H2 as ([=] & _)].
  apply wget_inv in H2 as (E2 & E2'). injection E2 as E2. subst w1' w1''.
  apply wbind_inv in H as [(x0 & w2 & H3 & H) | (e' & H3 & _)]; [|apply get_model_inv in H3 as (? & _ & [=] & _)].
  apply get_model_inv in H3 as (x0' & _ & _ & ->).
  apply wbind_inv in H as [(ov & w3 & H4 & H) | (e' & H4 & _)]; [|apply wl_inv in H4 as (? & _ & [=] & _)].
  apply wl_inv in H4 as (ov' & _ & _ & ->).
  destruct ov.
  { apply wbind_inv in H as [(u & w4 & H5 & H) | (e' & H5 & _)]; [|unfold kill_unreachable in H5; discriminate].
    apply wfail_inv in H as ([=] & _). }
  apply wbind_inv in H as [(u & w4 & H5 & H) | (e' & H5 & _)]; [|unfold wput in H5; discriminate].
  unfold wput in H5. injection H5 as _ <-. fold fid in H. fold fl in H.
  set (w1' := mkWorld (w_nodes w1) (w_next w1) (w_files w1 ++ [fl]) (w_models w1)) in *.
  apply wbind_inv in H as [(x & w5 & H6 & H) | (e' & H6 & _)]; [|apply get_model_inv in H6 as (? & _ & [=] & _)].
  apply get_model_inv in H6 as (x' & Hx & [= <-] & ->).
  apply wbind_inv in H as [(r & w6 & H7 & H) | (e' & H7 & _)]; [|apply wcatch_inv in H7 as (? & _ & [=])].
  apply wcatch_inv in H7 as (r0 & H7 & [= ->]).
  apply wbind_inv in H as [(x3 & w7 & H8 & H) | (e' & H8 & _)]; [|apply get_model_inv in H8 as (? & _ & [=] & _)].
  apply get_model_inv in H8 as (x3' & _ & _ & ->).
  apply wbind_inv in H as [(w8 & w8' & H9 & H) | (e' & H9 & _)]; [|apply wget_inv in H9 as ([=] & _)].
  apply wget_inv in H9 as (_ & ->).
  apply wbind_inv in H as [(keep & w9 & H10 & H) | (e' & H10 & _)]; [|eapply (errs_dfs_ids (fun _ => False)) in H10; destruct H10].
  apply ro_dfs_ids in H10. subst w9.
  apply wbind_inv in H as [(u2 & wK & H11 & H) | (e' & H11 & _)]; [|unfold kill_unreachable in H11; discriminate].
  assert (Eu2 : u2 = tt) by (destruct u2; reflexivity). subst u2.
  destruct r0 as [u0|e0]; [apply wret_inv in H as ([=] & _)|].
  apply wbind_inv in H as [(u1 & w11 & H12 & H13) | (e' & H12 & _)]; [|unfold drop_file in H12; discriminate].
  assert (Eu1 : u1 = tt) by (destruct u1; reflexivity). subst u1.
  apply wfail_inv in H13 as ([= <-] & ->).
  apply wbind_inv in H7 as [(ua & wa & Ha & Hb) | (e' & Ha & [= <-])].
  { exfalso. apply wbind_inv in Hb as [(u3 & wb & Hb1 & Hb2) | (e' & Hb1 & [= <-])];
      [|eapply (errs_fill_identifiables (fun _ => False)); eauto].
    apply wbind_inv in Hb2 as [(u4 & wc & Hc1 & Hc2) | (e' & Hc1 & [= <-])];
      [|eapply (errs_fill_references (fun _ => False)); eauto].
    eapply (errs_modify_model (fun _ => False)); eauto. }
  destruct (is_empty (m_files x)) eqn:Eemp.
  { exfalso. revert Ha. apply (errs_bind (fun _ => False)); [apply errs_modify_node|intros _].
    apply errs_bind; [apply errs_modify_node|intros _]. apply errs_modify_model. }
  apply wbind_inv in Ha as [(mr & wM & Hm1 & Hm2) | (e' & Hm1 & _)]; [|apply wcatch_inv in Hm1 as (? & _ & [=])].
  apply wcatch_inv in Hm1 as (r1 & Hm1 & [= ->]).
  destruct r1 as [ub|e1]; [apply wret_inv in Hm2 as ([=] & _)|].
  apply wbind_inv in Hm2 as [(x1 & wd & Hd1 & Hd2) | (e' & Hd1 & _)]; [|apply get_model_inv in Hd1 as (? & _ & [=] & _)].
  apply get_model_inv in Hd1 as (x1' & Hx1 & [= <-] & ->).
  apply wbind_inv in Hd2 as [(o & we & He1 & He2) | (e' & He1 & _)]; [|apply wtry_inv in He1 as (? & _ & [=])].
  apply wfail_inv in He2 as ([= ->] & ->).
  exists t, w1, x, wM, x1, (OK o), we, keep, wK. split; [exact H1|]. cbv zeta. fold w1'.
  split; [exact Hx|]. split; [exact Eemp|]. split; [exact Hm1|]. split; [exact Hx1|]. split; [exact He1|].
  split; [exact H11|exact H12].
Qed.

Theorem load_parsed_reject_residue m filename root st w w' :
  load_parsed T LATEST defref m filename root st w = Val (ER InvalidFileMerge, w') ->
  Residue m (N.of_nat (List.length (w_files w))) (mkFile m filename (Parser.p_version st) (Parser.p_standalone st)) w w'.
Proof.
  intros H. destruct (load_parsed_reject_inv m filename root st w w' H)
    as (t & w1 & x & wM & x1 & o & wR & keep & wK & H1 & Hx & Eemp & Hm & Hx1 & Hr & Hk & Hd).
  exists w1, wM, wR, wK.
  split; [apply (above_install (w_next w) _ _ _ _ _ (N.le_refl _) H1)|].
  split; [eapply merge_file_data_effects; eauto|].
  split; [eapply (effR_try (RemEff _)); [apply rem_e_remove_from_file|exact Hr]|].
  split; [apply kill_unreachable_eff in Hk as (_ & HK); exact HK|].
  eapply drop_file_eff; exact Hd.
Qed.

End Reject.

(* ------------------------------------------------------------------ the residue, component by component *)
Definition rename_files (f d : N) (fs : list N) : list N := if set_mem f fs then set_add d (set_remove f fs) else fs.

Record NodeResidue (fid d : N) (n n' : node) : Prop := mkNodeResidue {
  rs_name : n_name n' = n_name n;
  rs_type : n_type n' = n_type n;
  rs_attrs : n_attrs n' = n_attrs n;
  rs_comment : n_comment n' = n_comment n;
  rs_parent : n_parent n' = n_parent n \/ (exists a, n_parent n' = PElem a) \/ n_parent n' = PNone;
  rs_files : exists f1 f2, FilesEff fid (n_files n) f1 /\ FilesRem fid f1 f2 /\ n_files n' = rename_files fid d f2;
  rs_content : exists c1, ContentEff (n_content n) c1 /\ ContentRem c1 (n_content n')
}.

Lemma removelast_snoc {A} (l : list A) x : removelast (l ++ [x]) = l.
Proof. apply removelast_last. Qed.

(* what was there before the rejected load: the bound only grows, the files are the same, every model record keeps its
   root and file list and only loses index entries, every node keeps name, type, attributes and comment; its parent,
   membership and content changed at most as the stages allow *)
Theorem residue_components m fid fl w w' :
  Residue m fid fl w w' ->
  w_next w <= w_next w' /\ w_files w' = w_files w /\ Forall2 ModelRem (w_models w) (w_models w') /\
  exists d, forall i, i < w_next w ->
    match w_nodes w i, w_nodes w' i with
    | Some n, Some n' => NodeResidue fid d n n'
    | None, None => True
    | _, _ => False
    end.
Proof.
  intros (w1 & wM & wR & wK & (A1 & A2 & A3 & A4) & (M1 & M2 & M3 & M4) & (R1 & R2 & R3 & R4) & (K1 & K2 & K3 & K4 & K5) & (D1 & D2 & D3 & D4)).
  cbn [w_next w_files w_models w_nodes] in *.
  split; [lia|]. split; [rewrite D2, K2, R2, M2, A3; apply removelast_snoc|].
  split; [rewrite D3, K3, <- A4, <- M3; exact R3|].
  exists (DEAD_FILE_BASE + w_next wK). intros i Hi.
  rewrite D4, (K4 i Hi). specialize (M4 i). specialize (R4 i). rewrite (A2 i Hi) in M4.
  destruct (w_nodes w i) as [n|], (w_nodes wM i) as [n1|], (w_nodes wR i) as [n2|]; try contradiction; cbn [option_map]; auto.
  destruct M4 as [E1 E2 E3 E4 E5 E6 E7]. destruct R4 as [F1 F2 F3 F4 F5 F6 F7].
  unfold rename_file. constructor.
  - destruct (set_mem fid (n_files n2)); cbn; congruence.
  - destruct (set_mem fid (n_files n2)); cbn; congruence.
  - destruct (set_mem fid (n_files n2)); cbn; congruence.
  - destruct (set_mem fid (n_files n2)); cbn; congruence.
  - assert (P : n_parent n2 = n_parent n \/ (exists a, n_parent n2 = PElem a) \/ n_parent n2 = PNone).
    { destruct F5 as [F5|F5]; [rewrite F5; destruct E5 as [E5|E5]; auto|auto]. }
    destruct (set_mem fid (n_files n2)); cbn; exact P.
  - exists (n_files n1), (n_files n2). split; [exact E6|]. split; [exact F6|].
    unfold rename_files. destruct (set_mem fid (n_files n2)); reflexivity.
  - exists (n_content n1). split; [exact E7|]. destruct (set_mem fid (n_files n2)); cbn; exact F7.
Qed.

(* the same, read off the observation of C11 (Tree/Observe.v) *)
Lemma nth_error_ids_below n k : (k < N.to_nat n)%nat -> nth_error (ids_below n) k = Some (N.of_nat k).
Proof.
  intros H. unfold ids_below. rewrite nth_error_map. rewrite (nth_error_nth' _ O) by (rewrite seq_length; exact H).
  rewrite seq_nth by exact H. reflexivity.
Qed.
Lemma nth_error_observe w k : (k < N.to_nat (w_next w))%nat -> nth_error (o_nodes (observe w)) k = Some (w_nodes w (N.of_nat k)).
Proof. intros H. unfold observe. cbn [o_nodes]. rewrite nth_error_map, nth_error_ids_below by exact H. reflexivity. Qed.

Theorem residue_observable m fid fl w w' :
  Residue m fid fl w w' ->
  o_next (observe w) <= o_next (observe w') /\
  o_files (observe w') = o_files (observe w) /\
  Forall2 ModelRem (o_models (observe w)) (o_models (observe w')) /\
  exists d, forall k, (k < N.to_nat (o_next (observe w)))%nat ->
    match nth_error (o_nodes (observe w)) k, nth_error (o_nodes (observe w')) k with
    | Some (Some n), Some (Some n') => NodeResidue fid d n n'
    | Some None, Some None => True
    | _, _ => False
    end.
Proof.
  intros H. destruct (residue_components m fid fl w w' H) as (H1 & H2 & H3 & d & H4).
  split; [exact H1|]. split; [exact H2|]. split; [exact H3|]. exists d. intros k Hk. cbn [observe o_next] in Hk.
  rewrite (nth_error_observe w k Hk), (nth_error_observe w' k) by lia.
  apply H4. lia.
Qed.

(* ------------------------------------------------------------------ AutosarModel::load_buffer *)
Section RejectBuffer.
Variable T : tables.
Variables tab_el tab_at tab_en : nametab.
Variable check_fn : N -> list N -> res bool.
Variable float_parse : list N -> option N.
Variables LATEST defref : N.

Theorem load_reject_residue m buffer filename strict w w' :
  m_load_buffer T tab_el tab_at tab_en check_fn float_parse LATEST defref m buffer filename strict w
    = Val (ER InvalidFileMerge, w') ->
  exists root st,
    Parser.load strict T tab_el tab_at tab_en check_fn float_parse buffer = Val (Parser.Ret root st) /\
    Residue m (N.of_nat (List.length (w_files w))) (mkFile m filename (Parser.p_version st) (Parser.p_standalone st)) w w'.
Proof.
  unfold m_load_buffer. intros H.
  apply wbind_inv in H as [(x & w1 & H1 & H) | (e' & H1 & _)]; [|apply get_model_inv in H1 as (? & _ & [=] & _)].
  apply get_model_inv in H1 as (x' & _ & _ & ->).
  apply wbind_inv in H as [(w0 & w2 & H2 & H) | (e' & H2 & _)]; [|apply wget_inv in H2 as ([=] & _)].
  apply wget_inv in H2 as (E2 & ->). injection E2 as ->.
  destruct (existsb _ (m_files x)); [apply wfail_inv in H as ([=] & _)|].
  destruct (Parser.load _ _ _ _ _ _ _ _) as [[root st|pe st]| |];
    [|apply wfail_inv in H as ([=] & _)|discriminate H|discriminate H].
  exists root, st. split; [reflexivity|].
  apply wbind_inv in H as [(fo & w3 & H3 & H) | (e' & H3 & [= <-])]; [apply wret_inv in H as ([=] & _)|].
  eapply load_parsed_reject_residue; eauto.
Qed.

End RejectBuffer.

(* ====================================================================== when NOTHING observable changes *)
(* extensional equality of worlds (the node store is a function) *)
Definition weq (w w' : world) : Prop :=
  w_next w' = w_next w /\ w_files w' = w_files w /\ w_models w' = w_models w /\ forall i, w_nodes w' i = w_nodes w i.
Lemma weq_refl w : weq w w. Proof. repeat split; auto. Qed.
Lemma weq_trans a b c : weq a b -> weq b c -> weq a c.
Proof. intros (A1 & A2 & A3 & A4) (B1 & B2 & B3 & B4). repeat split; try congruence. Qed.

(* no membership mentions the file f *)
Definition FreshIn (f : N) (w : world) : Prop := forall i n, w_nodes w i = Some n -> ~ In f (n_files n).
Lemma FreshIn_weq f w w' : weq w w' -> FreshIn f w -> FreshIn f w'.
Proof. intros (_ & _ & _ & H) HF i n Hn. rewrite H in Hn. eapply HF; eauto. Qed.

Lemma set_remove_notin f l : ~ In f l -> set_remove f l = l.
Proof.
  unfold set_remove. induction l as [|y l IH]; intros H; cbn [filter]; [reflexivity|].
  destruct (y =? f) eqn:E; [apply N.eqb_eq in E; exfalso; apply H; left; exact E|]. cbn [negb]. f_equal. apply IH.
  intros H0. apply H. right. exact H0.
Qed.
Lemma set_files_same n : set_files n (n_files n) = n. Proof. destruct n; reflexivity. Qed.
Lemma weq_upd_same w i n : w_nodes w i = Some n -> weq w (mkWorld (upd (w_nodes w) i n) (w_next w) (w_files w) (w_models w)).
Proof.
  intros H. repeat split; auto. intros j. cbn [w_nodes]. destruct (N.eq_dec j i) as [->|Hne]; [rewrite upd_eq; auto|apply upd_neq; exact Hne].
Qed.

Section Quiet.
Variable T : tables.
Variables LATEST defref : N.

(* ---------- the rollback does nothing when no membership mentions the file ---------- *)
Fixpoint rf_scan (f : N) (l : list id) : W (list id) :=
  match l with
  | [] => wret []
  | s :: rest =>
    (do sn <- get_node s;
     if negb (is_empty (n_files sn)) then
       let fs := set_remove f (n_files sn) in
       set_node s (set_files sn fs);;
       do r <- rf_scan f rest;
       wret (if is_empty fs then s :: r else r)
     else rf_scan f rest)%W
  end.

Lemma rf_scan_fresh f : forall l w r w', FreshIn f w -> rf_scan f l w = Val (r, w') -> weq w w' /\ (forall x, r = OK x -> x = []).
Proof.
  induction l as [|s rest IH]; intros w r w' HF H; cbn [rf_scan] in H.
  - apply wret_inv in H as (-> & ->). split; [apply weq_refl|]. intros x [= <-]. reflexivity.
  - apply wbind_inv in H as [(sn & w1 & H1 & H) | (e & H1 & _)]; [|apply get_node_inv in H1 as (? & _ & [=] & _)].
    apply get_node_inv in H1 as (sn' & Hsn & [= <-] & ->).
    destruct (is_empty (n_files sn)) eqn:Ee; cbn [negb] in H; [eapply IH; eauto|].
    rewrite (set_remove_notin f (n_files sn) (HF s sn Hsn)), set_files_same in H.
    apply wbind_inv in H as [(u & w1 & H1 & H) | (e & H1 & _)]; [|apply set_node_inv in H1 as ([=] & _)].
    apply set_node_inv in H1 as (_ & ->).
    pose proof (weq_upd_same w s sn Hsn) as W1.
    apply wbind_inv in H as [(r0 & w2 & H2 & H) | (e & H2 & ->)].
    + destruct (IH _ _ _ (FreshIn_weq f _ _ W1 HF) H2) as (W2 & Hr). rewrite (Hr r0 eq_refl) in H. rewrite Ee in H.
      apply wret_inv in H as (-> & ->). split; [eapply weq_trans; eauto|]. intros x [= <-]. reflexivity.
    + destruct (IH _ _ _ (FreshIn_weq f _ _ W1 HF) H2) as (W2 & _). split; [eapply weq_trans; eauto|]. intros x [=].
Qed.

Lemma e_remove_from_file_scan e f w :
  e_remove_from_file T e f w =
  (do n <- get_node e;
   do ps <- parent_splittable T n;
   if negb ps then wfail FilesetModificationForbidden else
   do fm <- file_model f;
   do m <- model_of e;
   if negb (fm =? m) then wfail InvalidFile else
   do '(_, cur) <- file_membership e;
   let restricted := set_remove f cur in
   (if is_empty restricted then
      do p <- parent_of n;
      match p with
      | Some pi => do _ <- wtry (e_remove_sub_element T pi e); wret tt
      | None => wret tt
      end
    else wret tt);;
   modify_node e (fun x => set_files x restricted);;
   do w <- wget;
   do ids <- dfs_ids (fuel_of w) e;
   do to_delete <- rf_scan f ids;
   (fix del (l : list id) : W unit :=
      match l with
      | [] => wret tt
      | d :: rest =>
        do dn <- get_node d;
        do p <- wtry (parent_of dn);
        (match p with
         | Some (Some pi) => do _ <- wtry (e_remove_sub_element T pi d); wret tt
         | _ => wret tt
         end);; del rest
      end) to_delete)%W w.
Proof.
  unfold e_remove_from_file.
  apply LoadRefineMain.wbind_ext. intros n w1. apply LoadRefineMain.wbind_ext. intros ps w2.
  destruct (negb ps); [reflexivity|].
  apply LoadRefineMain.wbind_ext. intros fm w3. apply LoadRefineMain.wbind_ext. intros m w4.
  destruct (negb (fm =? m)); [reflexivity|].
  apply LoadRefineMain.wbind_ext. intros [loc cur] w5. apply LoadRefineMain.wbind_ext. intros u1 w6.
  apply LoadRefineMain.wbind_ext. intros u2 w7. apply LoadRefineMain.wbind_ext. intros w0 w8.
  apply LoadRefineMain.wbind_ext. intros ids w9. apply LoadRefineMain.wbind_ext2.
  induction ids as [|s rest IHs]; intros w10; cbn [rf_scan]; [reflexivity|].
  apply LoadRefineMain.wbind_ext. intros sn w11. destruct (negb (is_empty (n_files sn))); [|apply IHs].
  apply LoadRefineMain.wbind_ext. intros u3 w12. apply LoadRefineMain.wbind_ext2. exact IHs.
Qed.

Lemma rollback_fresh e f w r w' :
  FreshIn f w -> (forall n, w_nodes w e = Some n -> n_files n <> []) ->
  e_remove_from_file T e f w = Val (r, w') -> weq w w'.
Proof.
  intros HF Hroot H. rewrite e_remove_from_file_scan in H.
  apply wbind_inv in H as [(n & w1 & H1 & H) | (e0 & H1 & _)]; [|apply get_node_inv in H1 as (? & _ & [=] & _)].
  apply get_node_inv in H1 as (n' & Hn & [= <-] & ->).
  apply wbind_inv in H as [(ps & w1 & H1 & H) | (e0 & H1 & _)]; apply ro_parent_splittable in H1; subst; [|apply weq_refl].
  destruct (negb ps); [apply wfail_inv in H as (_ & ->); apply weq_refl|].
  apply wbind_inv in H as [(fm & w1 & H1 & H) | (e0 & H1 & _)]; apply ro_file_model in H1; subst; [|apply weq_refl].
  apply wbind_inv in H as [(m & w1 & H1 & H) | (e0 & H1 & _)]; apply ro_model_of in H1; subst; [|apply weq_refl].
  destruct (negb (fm =? m)); [apply wfail_inv in H as (_ & ->); apply weq_refl|].
  apply wbind_inv in H as [([loc cur] & w1 & H1 & H) | (e0 & H1 & _)]; [|apply ro_file_membership in H1; subst; apply weq_refl].
  assert (Ecur : cur = n_files n /\ w1 = w).
  { pose proof (Hroot n Hn) as Hne. unfold file_membership, wbind, wget in H1. cbn [fuel_of fm_walk] in H1.
    unfold wbind, get_node in H1. rewrite Hn in H1. destruct (n_files n) as [|f0 fr] eqn:Ef; [congruence|].
    cbn [is_empty negb] in H1. unfold wret in H1. injection H1 as _ <- <-. auto. }
  destruct Ecur as (-> & ->). clear H1.
  rewrite (set_remove_notin f (n_files n) (HF e n Hn)) in H.
  assert (Ee : is_empty (n_files n) = false) by (pose proof (Hroot n Hn); destruct (n_files n); [congruence|reflexivity]).
  cbv zeta in H. rewrite Ee in H.
  apply wbind_inv in H as [(u & w1 & H1 & H) | (e0 & H1 & _)]; [|apply wret_inv in H1 as ([=] & _)].
  apply wret_inv in H1 as (_ & ->).
  apply wbind_inv in H as [(u2 & w1 & H1 & H) | (e0 & H1 & _)]; [|apply modify_node_inv in H1 as (? & _ & [=] & _)].
  apply modify_node_inv in H1 as (n2 & Hn2 & _ & ->). rewrite Hn in Hn2. injection Hn2 as <-. rewrite set_files_same in H.
  pose proof (weq_upd_same w e n Hn) as W1. set (w1 := mkWorld _ _ _ _) in *.
  apply wbind_inv in H as [(w0 & w2 & H1 & H) | (e0 & H1 & _)]; [|apply wget_inv in H1 as ([=] & _)].
  apply wget_inv in H1 as (_ & ->).
  apply wbind_inv in H as [(ids & w2 & H1 & H) | (e0 & H1 & _)]; apply ro_dfs_ids in H1; subst; [|exact W1].
  apply wbind_inv in H as [(td & w2 & H1 & H) | (e0 & H1 & ->)].
  - destruct (rf_scan_fresh f ids w1 _ _ (FreshIn_weq f _ _ W1 HF) H1) as (W2 & Htd). rewrite (Htd td eq_refl) in H.
    apply wret_inv in H as (_ & ->). eapply weq_trans; eauto.
  - destruct (rf_scan_fresh f ids w1 _ _ (FreshIn_weq f _ _ W1 HF) H1) as (W2 & _). eapply weq_trans; eauto.
Qed.


(* ---------- install: the new nodes have no membership ---------- *)
Definition FK (w w1 : world) : Prop :=
  forall i n1, w_nodes w1 i = Some n1 -> n_files n1 = [] \/ exists n, w_nodes w i = Some n /\ n_files n1 = n_files n.
Lemma FK_refl w : FK w w. Proof. intros i n H. right. eauto. Qed.
Lemma FK_trans a b c : FK a b -> FK b c -> FK a c.
Proof.
  intros H1 H2 i n3 H3. destruct (H2 i n3 H3) as [E|(n2 & Hn2 & E)]; [left; exact E|].
  destruct (H1 i n2 Hn2) as [E2|(n1 & Hn1 & E2)]; [left; congruence|right; exists n1; split; [exact Hn1|congruence]].
Qed.

Lemma FK_install : forall e parent, effR FK (install parent e).
Proof.
  fix IH 1. intros [name ty attrs content comment] parent. cbn [install].
  apply (effR_bind FK FK_trans).
  { intros w r w' H. apply alloc_inv in H as (_ & ->). intros i n1 H1. cbn [w_nodes] in H1.
    destruct (N.eq_dec i (w_next w)) as [->|Hne]; [rewrite upd_eq in H1; injection H1 as <-; left; reflexivity|].
    rewrite upd_neq in H1 by exact Hne. right. eauto. }
  intros i. apply (effR_bind FK FK_trans).
  - induction content as [|[c|d] r IHr].
    + apply (effR_ro FK FK_refl), ro_ret.
    + apply (effR_bind FK FK_trans); [apply IH|intros t]. apply (effR_bind FK FK_trans); [exact IHr|intros [cs ts]].
      apply (effR_ro FK FK_refl), ro_ret.
    + apply (effR_bind FK FK_trans); [exact IHr|intros [cs ts]]. apply (effR_ro FK FK_refl), ro_ret.
  - intros [items kids]. apply (effR_bind FK FK_trans); [|intros _; apply (effR_ro FK FK_refl), ro_ret].
    intros w r w' H. apply modify_node_inv in H as (n & Hn & _ & ->). intros j n1 H1. cbn [w_nodes] in H1.
    destruct (N.eq_dec j i) as [->|Hne]; [rewrite upd_eq in H1; injection H1 as <-; right; exists n; auto|].
    rewrite upd_neq in H1 by exact Hne. right. eauto.
Qed.

Lemma FreshIn_FK f w w1 : FK w w1 -> FreshIn f w -> FreshIn f w1.
Proof.
  intros HK HF i n1 H1. destruct (HK i n1 H1) as [E|(n & Hn & E)]; rewrite E; [intros []|eapply HF; eauto].
Qed.

(* ---------- the merge stage is quiet: the conflict is found before anything is restricted, imported or given the new
   file — every step executed before it is the identity on the node it touches (sub-elements that only the model has
   already have an explicit membership, nothing is imported, the pairs merged before the conflict merge without any
   change and inherit their membership).  [qrun] follows the merge and returns Some (rejected?, world) in that case ---------- *)
Definition bumpf (nf : N) (x : node) : node := if negb (is_empty (n_files x)) then set_files x (set_add nf (n_files x)) else x.

Fixpoint qsubs (rec : world -> id -> list N -> id -> option (bool * world)) (files : list N) (nf : N)
         (l : list (id * id)) (w : world) {struct l} : option (bool * world) :=
  match l with
  | [] => Some (false, w)
  | (ea, eb) :: r =>
    match w_nodes w ea with
    | None => None
    | Some nea =>
      match rec w ea (if negb (is_empty (n_files nea)) then n_files nea else files) eb with
      | None => None
      | Some (true, w2) => Some (true, w2)
      | Some (false, w2) =>
        match w_nodes w2 ea with
        | Some n2 =>
          if is_empty (n_files n2) then
            match modify_node ea (bumpf nf) w2 with
            | Val (OK _, w3) => qsubs rec files nf r w3
            | _ => None
            end
          else None
        | None => None
        end
      end
    end
  end.

Fixpoint qrun (fuel : nat) (w : world) (pa : id) (files : list N) (pb : id) (nf : N) {struct fuel} : option (bool * world) :=
  match fuel with
  | O => None
  | S fl =>
    match w_nodes w pa, w_nodes w pb with
    | Some na, Some nb =>
      let pty := n_type na in
      match keys_of T defref w pty (n_content na), keys_of T defref w pty (n_content nb),
            splittable_in T pty (N.min (files_min_version LATEST w files)
                                       (match nth_opt (w_files w) (N.to_nat nf) with Some x => f_version x | None => LATEST end)) with
      | Val la, Val lb, Val sp =>
        match walk (S (List.length la + List.length lb)) la lb sp (N.of_nat (List.length (n_content na))) 0 la lb (mkWalked [] [] []) with
        | Val (ER _) => Some (true, w)
        | Val (OK wk) =>
          if forallb (fun e => match w_nodes w e with Some n => negb (is_empty (n_files n)) | None => false end) (wk_a_only wk) &&
             is_empty (wk_b_only wk)
          then match restrict_a_only (wk_a_only wk) files w with
               | Val (OK _, w1) => qsubs (fun w a f b => qrun fl w a f b nf) files nf (wk_merge wk) w1
               | _ => None
               end
          else None
        | _ => None
        end
      | _, _, _ => None
      end
    | _, _ => None
    end
  end.

Definition quiet (fuel : nat) (w : world) (pa : id) (files : list N) (pb : id) (nf : N) : bool :=
  match qrun fuel w pa files pb nf with Some (true, _) => true | _ => false end.

Lemma restrict_weq files : forall l w r w',
  forallb (fun e => match w_nodes w e with Some n => negb (is_empty (n_files n)) | None => false end) l = true ->
  restrict_a_only l files w = Val (r, w') -> weq w w'.
Proof.
  induction l as [|e l IH]; intros w r w' Hall H; cbn [restrict_a_only] in H.
  - apply wret_inv in H as (_ & ->). apply weq_refl.
  - cbn [forallb] in Hall. apply andb_true_iff in Hall as [He Hall].
    destruct (w_nodes w e) as [n|] eqn:En; [|discriminate].
    apply wbind_inv in H as [(u & w1 & H1 & H) | (e0 & H1 & _)]; [|apply modify_node_inv in H1 as (? & _ & [=] & _)].
    apply modify_node_inv in H1 as (n' & Hn' & _ & ->). rewrite En in Hn'. injection Hn' as <-.
    apply negb_true_iff in He. rewrite He in H.
    pose proof (weq_upd_same w e n En) as W1. eapply weq_trans; [exact W1|]. eapply IH; [|exact H].
    destruct W1 as (_ & _ & _ & W1). clear -Hall W1. induction l as [|x l IHl]; [reflexivity|]. cbn [forallb] in *.
    apply andb_true_iff in Hall as [H1 H2]. rewrite W1, H1. cbn [andb]. apply IHl. exact H2.
Qed.

Definition qout (b : bool) : out unit := if b then ER InvalidFileMerge else OK tt.

Theorem qrun_sound : forall fuel w pa files pb nf b w',
  qrun fuel w pa files pb nf = Some (b, w') ->
  merge_element T LATEST defref fuel pa files pb nf w = Val (qout b, w') /\ weq w w'.
Proof.
  induction fuel as [|fl IH]; intros w pa files pb nf b w' Hq; [discriminate|].
  cbn [qrun] in Hq. rewrite LoadRefineMain.merge_element_unfold.
  destruct (w_nodes w pa) as [na|] eqn:Ena; [|discriminate]. destruct (w_nodes w pb) as [nb|] eqn:Enb; [|discriminate].
  cbv zeta in Hq.
  destruct (keys_of T defref w (n_type na) (n_content na)) as [la| |] eqn:Ela; try discriminate.
  destruct (keys_of T defref w (n_type na) (n_content nb)) as [lb| |] eqn:Elb; try discriminate.
  destruct (splittable_in T (n_type na) _) as [sp| |] eqn:Esp; try discriminate.
  unfold wbind at 1. cbn [wget]. unfold wbind at 1. unfold get_node at 1. rewrite Ena.
  unfold wbind at 1. unfold get_node at 1. rewrite Enb. cbv zeta.
  rewrite LoadRefineHeap.wbind_wl, Ela, LoadRefineHeap.wbind_wl, Elb, LoadRefineHeap.wbind_wl, Esp.
  destruct (walk _ la lb sp _ 0 la lb _) as [[wk|e]| |] eqn:Ew; try discriminate.
  - destruct (forallb _ (wk_a_only wk) && is_empty (wk_b_only wk)) eqn:Hc; [|discriminate].
    apply andb_true_iff in Hc as [Hall Hb].
    destruct (restrict_a_only (wk_a_only wk) files w) as [[[u|e] w1]| |] eqn:Er; try discriminate.
    pose proof (restrict_weq files _ _ _ _ Hall Er) as W1.
    unfold wbind at 1. unfold wbind at 1. rewrite Er.
    destruct (wk_b_only wk); [|discriminate]. cbn [import_new_items]. unfold wbind at 1. cbn [wret].
    assert (G : forall l w1 b w', qsubs (fun w a f b => qrun fl w a f b nf) files nf l w1 = Some (b, w') ->
                LoadRefineMain.subs_loop T LATEST defref fl files nf l w1 = Val (qout b, w') /\ weq w1 w').
    { clear -IH. induction l as [|[ea eb] r IHl]; intros w1 b w' Hs; cbn [qsubs] in Hs.
      - injection Hs as <- <-. split; [reflexivity|apply weq_refl].
      - cbn [LoadRefineMain.subs_loop].
        destruct (w_nodes w1 ea) as [nea|] eqn:Eea; [|discriminate].
        destruct (qrun fl w1 ea _ eb nf) as [[[|] w2]|] eqn:Eq; [| |discriminate].
        + injection Hs as <- <-. destruct (IH _ _ _ _ _ _ _ Eq) as (E2 & W2).
          split; [|exact W2]. unfold wbind at 1. unfold get_node at 1. rewrite Eea. unfold wbind at 1. rewrite E2. reflexivity.
        + destruct (IH _ _ _ _ _ _ _ Eq) as (E2 & W2).
          destruct (w_nodes w2 ea) as [n2|] eqn:En2; [|discriminate].
          destruct (is_empty (n_files n2)) eqn:Ee; [|discriminate].
          destruct (modify_node ea (bumpf nf) w2) as [[[u3|e3] w3]| |] eqn:Em; try discriminate.
          destruct (IHl _ _ _ Hs) as (E3 & W3).
          assert (W23 : weq w2 w3).
          { apply modify_node_inv in Em as (n2' & Hn2' & _ & ->). rewrite En2 in Hn2'. injection Hn2' as <-.
            unfold bumpf. rewrite Ee. cbn [negb]. apply weq_upd_same. exact En2. }
          split; [|eapply weq_trans; [exact W2|eapply weq_trans; eauto]].
          unfold wbind at 1. unfold get_node at 1. rewrite Eea. unfold wbind at 1. rewrite E2. cbn [qout].
          unfold wbind at 1. fold (bumpf nf). rewrite Em. exact E3. }
    destruct (G _ _ _ _ Hq) as (E & W). split; [exact E|eapply weq_trans; eauto].
  - injection Hq as <- <-. split; [|apply weq_refl]. unfold wbind at 1.
    rewrite (walk_err _ _ _ _ _ _ _ _ _ _ Ew). reflexivity.
Qed.

Theorem quiet_sound fuel w pa files pb nf :
  quiet fuel w pa files pb nf = true ->
  exists w', merge_element T LATEST defref fuel pa files pb nf w = Val (ER InvalidFileMerge, w') /\ weq w w'.
Proof.
  unfold quiet. destruct (qrun fuel w pa files pb nf) as [[[|] w']|] eqn:E; try discriminate. intros _.
  exists w'. exact (qrun_sound _ _ _ _ _ _ _ _ E).
Qed.

End Quiet.

Section QuietLoad.
Variable T : tables.
Variables LATEST defref : N.

(* decidable: run the install, then follow the leftmost merge path of the merge (no effect is executed that is not undone
   by running it on the world itself) *)
Definition quiet_load (m : N) (filename : list N) (root : Parser.etree) (st : Parser.pstate) (w : world) : bool :=
  match install PNone root w with
  | Val (OK t, w1) =>
    let fid := N.of_nat (List.length (w_files w)) in
    let w1' := mkWorld (w_nodes w1) (w_next w1)
                       (w_files w1 ++ [mkFile m filename (Parser.p_version st) (Parser.p_standalone st)]) (w_models w1) in
    match nth_opt (w_models w1') (N.to_nat m) with
    | Some x =>
      match w_nodes w1' (m_root x) with Some rn => negb (is_empty (n_files rn)) | None => false end &&
      quiet T LATEST defref (fuel_of w1') w1' (m_root x) (fold_right set_add [] (m_files x)) (it_id t) fid
    | None => false
    end
  | _ => false
  end.

Lemma set_mem_false f l : ~ In f l -> set_mem f l = false.
Proof.
  intros H. unfold set_mem. destruct (existsb (N.eqb f) l) eqn:E; [|reflexivity].
  apply existsb_exists in E as (x & Hx & Ex). apply N.eqb_eq in Ex. subst x. contradiction.
Qed.

(* a rejected load whose conflict is found that early leaves no trace: the conclusion of C11 *)
Theorem quiet_load_no_effect m filename root st w w' :
  FreshIn (N.of_nat (List.length (w_files w))) w ->
  quiet_load m filename root st w = true ->
  load_parsed T LATEST defref m filename root st w = Val (ER InvalidFileMerge, w') ->
  obs_eq_upto_garbage w w'.
Proof.
  intros HF Hq H.
  destruct (load_parsed_reject_inv T LATEST defref m filename root st w w' H)
    as (t & w1 & x & wM & x1 & o & wR & keep & wK & H1 & Hx & Eemp & Hm & Hx1 & Hr & Hk & Hd).
  cbv zeta in Hx, Hm. unfold quiet_load in Hq. rewrite H1 in Hq. cbv zeta in Hq.
  set (fid := N.of_nat (List.length (w_files w))) in *.
  set (w1' := mkWorld (w_nodes w1) (w_next w1) (w_files w1 ++ [mkFile m filename (Parser.p_version st) (Parser.p_standalone st)]) (w_models w1)) in *.
  rewrite Hx in Hq. apply andb_true_iff in Hq as [Hroot Hq].
  destruct (quiet_sound T LATEST defref _ _ _ _ _ _ Hq) as (wM' & EM & WM).
  assert (EwM : wM = wM').
  { unfold merge_file_data in Hm. unfold wbind at 1 in Hm. unfold get_model at 1 in Hm. rewrite Hx in Hm.
    unfold wbind at 1 in Hm. cbn [wget] in Hm. unfold wbind at 1 in Hm. rewrite EM in Hm. injection Hm as <-. reflexivity. }
  subst wM'.
  pose proof (above_install (w_next w) _ _ _ _ _ (N.le_refl _) H1) as (A1 & A2 & A3 & A4).
  assert (HF1 : FreshIn fid w1') by (intros i n Hn; eapply (FreshIn_FK fid w w1 (FK_install root PNone w _ _ H1) HF); exact Hn).
  pose proof (FreshIn_weq fid _ _ WM HF1) as HFM.
  destruct WM as (M1 & M2 & M3 & M4).
  assert (Ex1 : x1 = x) by (rewrite M3, Hx in Hx1; injection Hx1 as <-; reflexivity). subst x1.
  apply wtry_inv in Hr as (r0 & Hr & _).
  assert (WR : weq wM wR).
  { eapply (rollback_fresh T (m_root x) fid wM r0 wR HFM); [|exact Hr].
    intros n Hn. rewrite M4 in Hn. rewrite Hn in Hroot. apply negb_true_iff in Hroot. intros E. rewrite E in Hroot. discriminate. }
  destruct WR as (R1 & R2 & R3 & R4).
  apply kill_unreachable_eff in Hk as (_ & (K1 & K2 & K3 & K4 & _)).
  apply drop_file_eff in Hd as (D1 & D2 & D3 & D4).
  cbn [w_next w_files w_models w_nodes w1'] in *.
  split; [lia|]. split; [|split].
  - intros i Hi. rewrite D4, (K4 i Hi), R4, M4, (A2 i Hi).
    destruct (w_nodes w i) as [n|] eqn:En; [|reflexivity]. cbn [option_map]. f_equal.
    unfold rename_file. rewrite (set_mem_false fid (n_files n) (HF i n En)). reflexivity.
  - rewrite D2, K2, R2, M2, A3. apply removelast_snoc.
  - rewrite D3, K3, R3, M3. exact A4.
Qed.

End QuietLoad.

(* ---------- on the tiny tables: a conflict that is found early leaves no trace, one that is found after a membership
   was made explicit is not quiet (it is the residue example of LoadProofsRefuted.v) ---------- *)
Module QuietExample.
Import MergeSpec.TinyM.
Definition conf_a2 : Parser.etree :=
  plain nAUTOSAR [plain nPKGS [named nPKG "p" [plain nELEMENTS [named nSYSTEM "s" [named nSPROPS "x" []]]]]].
Definition conf_a : Parser.etree :=
  plain nAUTOSAR [plain nPKGS [named nPKG "p" [plain nELEMENTS [named nUNIT "t" []; named nSYSTEM "s" [named nSPROPS "x" []]]]]].
Definition conf_b : Parser.etree :=
  plain nAUTOSAR [plain nPKGS [named nPKG "p" [plain nELEMENTS [named nSYSTEM "s" [named nSPROPS "y" []]]]]].
Definition after (e : Parser.etree) : world := match load_all [("a", e)] new_world with Val (_, w) => w | _ => new_world end.

Example quiet_yes : quiet_load tiny LATEST DEFREF 0 (BS "b") conf_b (MergeSpec.pstate_of tiny 2 conf_b) (after conf_a2) = true.
Proof. vm_compute. reflexivity. Qed.
Example quiet_yes_rejected :
  match load_tree "b" conf_b (after conf_a2) with Val (ER InvalidFileMerge, _) => true | _ => false end = true.
Proof. vm_compute. reflexivity. Qed.
Example quiet_no : quiet_load tiny LATEST DEFREF 0 (BS "b") conf_b (MergeSpec.pstate_of tiny 2 conf_b) (after conf_a) = false.
Proof. vm_compute. reflexivity. Qed.
End QuietExample.

(* ------------------------------------------------------------------ AutosarModel::load_buffer, summary *)
Section Summary.
Variable T : tables.
Variables tab_el tab_at tab_en : nametab.
Variable check_fn : N -> list N -> res bool.
Variable float_parse : list N -> option N.
Variables LATEST defref : N.

Theorem load_reject_observable m buffer filename strict w w' :
  m_load_buffer T tab_el tab_at tab_en check_fn float_parse LATEST defref m buffer filename strict w
    = Val (ER InvalidFileMerge, w') ->
  let fid := N.of_nat (List.length (w_files w)) in
  o_next (observe w) <= o_next (observe w') /\
  o_files (observe w') = o_files (observe w) /\
  Forall2 ModelRem (o_models (observe w)) (o_models (observe w')) /\
  exists d, forall k, (k < N.to_nat (o_next (observe w)))%nat ->
    match nth_error (o_nodes (observe w)) k, nth_error (o_nodes (observe w')) k with
    | Some (Some n), Some (Some n') => NodeResidue fid d n n'
    | Some None, Some None => True
    | _, _ => False
    end.
Proof.
  intros H fid. destruct (load_reject_residue T tab_el tab_at tab_en check_fn float_parse LATEST defref _ _ _ _ _ _ H) as (root & st & _ & HR).
  eapply residue_observable; exact HR.
Qed.

Theorem load_reject_quiet m buffer filename strict w w' root st :
  Parser.load strict T tab_el tab_at tab_en check_fn float_parse buffer = Val (Parser.Ret root st) ->
  FreshIn (N.of_nat (List.length (w_files w))) w ->
  quiet_load T LATEST defref m filename root st w = true ->
  m_load_buffer T tab_el tab_at tab_en check_fn float_parse LATEST defref m buffer filename strict w
    = Val (ER InvalidFileMerge, w') ->
  obs_eq_upto_garbage w w'.
Proof.
  intros Hp HF Hq H. unfold m_load_buffer in H.
  apply wbind_inv in H as [(x & w1 & H1 & H) | (e' & H1 & _)]; [|apply get_model_inv in H1 as (? & _ & [=] & _)].
  apply get_model_inv in H1 as (x' & _ & _ & ->).
  apply wbind_inv in H as [(w0 & w2 & H2 & H) | (e' & H2 & _)]; [|apply wget_inv in H2 as ([=] & _)].
  apply wget_inv in H2 as (E2 & ->). injection E2 as ->.
  destruct (existsb _ (m_files x)); [apply wfail_inv in H as ([=] & _)|].
  rewrite Hp in H.
  apply wbind_inv in H as [(fo & w3 & H3 & H) | (e' & H3 & [= <-])]; [apply wret_inv in H as ([=] & _)|].
  eapply quiet_load_no_effect; eauto.
Qed.

End Summary.

(* ====================================================================== rejected loads that import nothing *)
(* When the merge reaches the conflict without importing any element of the new tree, the rollback has nothing to delete:
   both index maps, the files, and the parent, content, name, type, attributes and comment of every old node are as before
   the load; only file memberships can differ. *)
Inductive FilesIF (nf : N) : list N -> list N -> Prop :=
| fi_refl f : FilesIF nf f f
| fi_restrict fs f' : ~ In nf fs -> FilesIF nf fs f' -> FilesIF nf [] f'
| fi_bump f f' : f <> [] -> FilesIF nf (set_add nf f) f' -> FilesIF nf f f'.
Lemma FilesIF_trans nf a b c : FilesIF nf a b -> FilesIF nf b c -> FilesIF nf a c.
Proof. induction 1; intros H2; auto; [eapply fi_restrict|eapply fi_bump]; eauto. Qed.

Definition same_but_files (n n' : node) : Prop := n' = set_files n (n_files n').
Lemma same_but_files_refl n : same_but_files n n. Proof. unfold same_but_files. destruct n; reflexivity. Qed.
Lemma same_but_files_trans a b c : same_but_files a b -> same_but_files b c -> same_but_files a c.
Proof. unfold same_but_files. intros H1 H2. rewrite H2, H1. destruct a; reflexivity. Qed.
Lemma same_but_files_set n f : same_but_files n (set_files n f). Proof. unfold same_but_files. destruct n; reflexivity. Qed.

Definition IFE (nf : N) (w w' : world) : Prop :=
  w_next w' = w_next w /\ w_files w' = w_files w /\ w_models w' = w_models w /\
  forall i, match w_nodes w i, w_nodes w' i with
            | Some n, Some n' => same_but_files n n' /\ FilesIF nf (n_files n) (n_files n')
            | None, None => True
            | _, _ => False
            end.
Lemma IFE_refl nf w : IFE nf w w.
Proof. repeat split; auto. intros i. destruct (w_nodes w i); [split; [apply same_but_files_refl|apply fi_refl]|exact I]. Qed.
Lemma IFE_trans nf a b c : IFE nf a b -> IFE nf b c -> IFE nf a c.
Proof.
  intros (A1 & A2 & A3 & A4) (B1 & B2 & B3 & B4). repeat split; try congruence. intros i. specialize (A4 i). specialize (B4 i).
  destruct (w_nodes a i), (w_nodes b i), (w_nodes c i); try contradiction; auto.
  destruct A4, B4. split; [eapply same_but_files_trans; eauto|eapply FilesIF_trans; eauto].
Qed.
Lemma IFE_upd nf w i n f' :
  w_nodes w i = Some n -> FilesIF nf (n_files n) f' ->
  IFE nf w (mkWorld (upd (w_nodes w) i (set_files n f')) (w_next w) (w_files w) (w_models w)).
Proof.
  intros Hn Hf. repeat split; auto. intros j. cbn [w_nodes]. destruct (N.eq_dec j i) as [->|Hne].
  - rewrite upd_eq, Hn. split; [apply same_but_files_set|exact Hf].
  - rewrite upd_neq by exact Hne. destruct (w_nodes w j); [split; [apply same_but_files_refl|apply fi_refl]|exact I].
Qed.

Lemma IFE_upd_same nf w i n :
  w_nodes w i = Some n -> IFE nf w (mkWorld (upd (w_nodes w) i n) (w_next w) (w_files w) (w_models w)).
Proof.
  intros Hn. repeat split; auto. intros j. cbn [w_nodes]. destruct (N.eq_dec j i) as [->|Hne].
  - rewrite upd_eq, Hn. split; [apply same_but_files_refl|apply fi_refl].
  - rewrite upd_neq by exact Hne. destruct (w_nodes w j); [split; [apply same_but_files_refl|apply fi_refl]|exact I].
Qed.

Section ImportFree.
Variable T : tables.
Variables LATEST defref : N.

Lemma restrict_IFE nf files : ~ In nf files -> forall l w r w', restrict_a_only l files w = Val (r, w') -> IFE nf w w'.
Proof.
  intros Hnf. induction l as [|e l IH]; intros w r w' H; cbn [restrict_a_only] in H.
  - apply wret_inv in H as (_ & ->). apply IFE_refl.
  - apply wbind_inv in H as [(u & w1 & H1 & H) | (e0 & H1 & _)]; [|apply modify_node_inv in H1 as (? & _ & [=] & _)].
    apply modify_node_inv in H1 as (n & Hn & _ & ->). eapply IFE_trans; [|eapply IH; exact H].
    destruct (n_files n) as [|f0 fr] eqn:Ef; cbn [is_empty].
    + apply IFE_upd; [exact Hn|]. rewrite Ef. eapply fi_restrict; [exact Hnf|apply fi_refl].
    + apply IFE_upd_same. exact Hn.
Qed.

Lemma bump_IFE nf ea w r w' : modify_node ea (bumpf nf) w = Val (r, w') -> IFE nf w w'.
Proof.
  intros H. apply modify_node_inv in H as (n & Hn & _ & ->). unfold bumpf.
  destruct (n_files n) as [|f0 fr] eqn:Ef; cbn [is_empty negb].
  - apply IFE_upd_same. exact Hn.
  - apply IFE_upd; [exact Hn|]. rewrite Ef. eapply fi_bump; [discriminate|apply fi_refl].
Qed.

Fixpoint isubs (rec : world -> id -> list N -> id -> option (bool * world)) (files : list N) (nf : N)
         (l : list (id * id)) (w : world) {struct l} : option (bool * world) :=
  match l with
  | [] => Some (false, w)
  | (ea, eb) :: r =>
    match w_nodes w ea with
    | None => None
    | Some nea =>
      match rec w ea (if negb (is_empty (n_files nea)) then n_files nea else files) eb with
      | None => None
      | Some (true, w2) => Some (true, w2)
      | Some (false, w2) =>
        match modify_node ea (bumpf nf) w2 with
        | Val (OK _, w3) => isubs rec files nf r w3
        | _ => None
        end
      end
    end
  end.

(* follow the merge; Some (rejected?, world after) when no level that is reached imports anything *)
Fixpoint irun (fuel : nat) (w : world) (pa : id) (files : list N) (pb : id) (nf : N) {struct fuel} : option (bool * world) :=
  match fuel with
  | O => None
  | S fl =>
    match w_nodes w pa, w_nodes w pb with
    | Some na, Some nb =>
      let pty := n_type na in
      match keys_of T defref w pty (n_content na), keys_of T defref w pty (n_content nb),
            splittable_in T pty (N.min (files_min_version LATEST w files)
                                       (match nth_opt (w_files w) (N.to_nat nf) with Some x => f_version x | None => LATEST end)) with
      | Val la, Val lb, Val sp =>
        match walk (S (List.length la + List.length lb)) la lb sp (N.of_nat (List.length (n_content na))) 0 la lb (mkWalked [] [] []) with
        | Val (ER _) => Some (true, w)
        | Val (OK wk) =>
          if negb (set_mem nf files) && is_empty (wk_b_only wk)
          then match restrict_a_only (wk_a_only wk) files w with
               | Val (OK _, w1) => isubs (fun w a f b => irun fl w a f b nf) files nf (wk_merge wk) w1
               | _ => None
               end
          else None
        | _ => None
        end
      | _, _, _ => None
      end
    | _, _ => None
    end
  end.

Lemma set_mem_false_notin f l : set_mem f l = false -> ~ In f l.
Proof.
  unfold set_mem. intros H Hin. assert (E : existsb (N.eqb f) l = true) by (apply existsb_exists; exists f; split; [exact Hin|apply N.eqb_refl]).
  congruence.
Qed.

Theorem irun_sound : forall fuel w pa files pb nf b w',
  irun fuel w pa files pb nf = Some (b, w') ->
  merge_element T LATEST defref fuel pa files pb nf w = Val (qout b, w') /\ IFE nf w w'.
Proof.
  induction fuel as [|fl IH]; intros w pa files pb nf b w' Hq; [discriminate|].
  cbn [irun] in Hq. rewrite LoadRefineMain.merge_element_unfold.
  destruct (w_nodes w pa) as [na|] eqn:Ena; [|discriminate]. destruct (w_nodes w pb) as [nb|] eqn:Enb; [|discriminate].
  cbv zeta in Hq.
  destruct (keys_of T defref w (n_type na) (n_content na)) as [la| |] eqn:Ela; try discriminate.
  destruct (keys_of T defref w (n_type na) (n_content nb)) as [lb| |] eqn:Elb; try discriminate.
  destruct (splittable_in T (n_type na) _) as [sp| |] eqn:Esp; try discriminate.
  unfold wbind at 1. cbn [wget]. unfold wbind at 1. unfold get_node at 1. rewrite Ena.
  unfold wbind at 1. unfold get_node at 1. rewrite Enb. cbv zeta.
  rewrite LoadRefineHeap.wbind_wl, Ela, LoadRefineHeap.wbind_wl, Elb, LoadRefineHeap.wbind_wl, Esp.
  destruct (walk _ la lb sp _ 0 la lb _) as [[wk|e]| |] eqn:Ew; try discriminate.
  - destruct (negb (set_mem nf files) && is_empty (wk_b_only wk)) eqn:Hc; [|discriminate].
    apply andb_true_iff in Hc as [Hnf Hb]. apply negb_true_iff in Hnf. apply set_mem_false_notin in Hnf.
    destruct (restrict_a_only (wk_a_only wk) files w) as [[[u|e] w1]| |] eqn:Er; try discriminate.
    pose proof (restrict_IFE nf files Hnf _ _ _ _ Er) as W1.
    unfold wbind at 1. unfold wbind at 1. rewrite Er.
    destruct (wk_b_only wk); [|discriminate]. cbn [import_new_items]. unfold wbind at 1. cbn [wret].
    assert (G : forall l w1 b w', isubs (fun w a f b => irun fl w a f b nf) files nf l w1 = Some (b, w') ->
                LoadRefineMain.subs_loop T LATEST defref fl files nf l w1 = Val (qout b, w') /\ IFE nf w1 w').
    { clear -IH. induction l as [|[ea eb] r IHl]; intros w1 b w' Hs; cbn [isubs] in Hs.
      - injection Hs as <- <-. split; [reflexivity|apply IFE_refl].
      - cbn [LoadRefineMain.subs_loop].
        destruct (w_nodes w1 ea) as [nea|] eqn:Eea; [|discriminate].
        destruct (irun fl w1 ea _ eb nf) as [[[|] w2]|] eqn:Eq; [| |discriminate].
        + injection Hs as <- <-. destruct (IH _ _ _ _ _ _ _ Eq) as (E2 & W2).
          split; [|exact W2]. unfold wbind at 1. unfold get_node at 1. rewrite Eea. unfold wbind at 1. rewrite E2. reflexivity.
        + destruct (IH _ _ _ _ _ _ _ Eq) as (E2 & W2).
          destruct (modify_node ea (bumpf nf) w2) as [[[u3|e3] w3]| |] eqn:Em; try discriminate.
          destruct (IHl _ _ _ Hs) as (E3 & W3).
          pose proof (bump_IFE nf ea w2 _ _ Em) as W23.
          split; [|eapply IFE_trans; [exact W2|eapply IFE_trans; eauto]].
          unfold wbind at 1. unfold get_node at 1. rewrite Eea. unfold wbind at 1. rewrite E2. cbn [qout].
          unfold wbind at 1. fold (bumpf nf). rewrite Em. exact E3. }
    destruct (G _ _ _ _ Hq) as (E & W). split; [exact E|eapply IFE_trans; eauto].
  - injection Hq as <- <-. split; [|apply IFE_refl]. unfold wbind at 1.
    rewrite (walk_err _ _ _ _ _ _ _ _ _ _ Ew). reflexivity.
Qed.

End ImportFree.

(* ---------- the rollback when nothing becomes empty: the file is stripped from the memberships it visits, nothing else ---------- *)
Definition strip (f : N) (n : node) : node := set_files n (set_remove f (n_files n)).
Lemma set_remove_idem f l : set_remove f (set_remove f l) = set_remove f l.
Proof.
  unfold set_remove. induction l as [|y l IH]; cbn [filter]; [reflexivity|].
  destruct (negb (y =? f)) eqn:E; cbn [filter]; [rewrite E, IH; reflexivity|exact IH].
Qed.
Lemma strip_idem f n : strip f (strip f n) = strip f n.
Proof. unfold strip. destruct n. cbn -[set_remove]. rewrite set_remove_idem. reflexivity. Qed.

Definition SE (f : N) (w w' : world) : Prop :=
  w_next w' = w_next w /\ w_files w' = w_files w /\ w_models w' = w_models w /\
  forall i, w_nodes w' i = w_nodes w i \/ exists n, w_nodes w i = Some n /\ w_nodes w' i = Some (strip f n).
Lemma SE_refl f w : SE f w w. Proof. repeat split; auto. Qed.
Lemma SE_trans f a b c : SE f a b -> SE f b c -> SE f a c.
Proof.
  intros (A1 & A2 & A3 & A4) (B1 & B2 & B3 & B4). repeat split; try congruence. intros i.
  destruct (B4 i) as [E|(nb & Hb & Hc)]; destruct (A4 i) as [E'|(na & Ha & Hb')].
  - left. congruence.
  - right. exists na. split; [exact Ha|congruence].
  - right. exists nb. split; [congruence|exact Hc].
  - right. exists na. split; [exact Ha|]. rewrite Hb' in Hb. injection Hb as <-. rewrite Hc, strip_idem. reflexivity.
Qed.

(* no membership is exactly {f} *)
Definition ND (f : N) (w : world) : Prop :=
  forall i n, w_nodes w i = Some n -> n_files n <> [] -> set_remove f (n_files n) <> [].
Lemma ND_SE f w w' : SE f w w' -> ND f w -> ND f w'.
Proof.
  intros (_ & _ & _ & H) HN i n' Hn' Hne. destruct (H i) as [E|(n & Hn & E)].
  - rewrite E in Hn'. eapply HN; eauto.
  - rewrite E in Hn'. injection Hn' as <-. unfold strip in *. destruct n; cbn -[set_remove] in *. rewrite set_remove_idem. exact Hne.
Qed.
Lemma SE_upd_strip f w i n :
  w_nodes w i = Some n -> SE f w (mkWorld (upd (w_nodes w) i (strip f n)) (w_next w) (w_files w) (w_models w)).
Proof.
  intros Hn. repeat split; auto. intros j. cbn [w_nodes]. destruct (N.eq_dec j i) as [->|Hne].
  - right. exists n. rewrite upd_eq. auto.
  - left. apply upd_neq. exact Hne.
Qed.

Section RollbackStrip.
Variable T : tables.

Lemma rf_scan_strip f : forall l w r w', ND f w -> rf_scan f l w = Val (r, w') -> SE f w w' /\ (forall x, r = OK x -> x = []).
Proof.
  induction l as [|s rest IH]; intros w r w' HN H; cbn [rf_scan] in H.
  - apply wret_inv in H as (-> & ->). split; [apply SE_refl|]. intros x [= <-]. reflexivity.
  - apply wbind_inv in H as [(sn & w1 & H1 & H) | (e & H1 & _)]; [|apply get_node_inv in H1 as (? & _ & [=] & _)].
    apply get_node_inv in H1 as (sn' & Hsn & [= <-] & ->).
    destruct (is_empty (n_files sn)) eqn:Ee; cbn [negb] in H; [eapply IH; eauto|].
    assert (Hne : n_files sn <> []) by (intros E; rewrite E in Ee; discriminate).
    pose proof (HN s sn Hsn Hne) as Hfs. cbv zeta in H.
    apply wbind_inv in H as [(u & w1 & H1 & H) | (e & H1 & _)]; [|apply set_node_inv in H1 as ([=] & _)].
    apply set_node_inv in H1 as (_ & ->). fold (strip f sn) in H.
    pose proof (SE_upd_strip f w s sn Hsn) as W1.
    assert (Eemp : is_empty (set_remove f (n_files sn)) = false) by (destruct (set_remove f (n_files sn)); [congruence|reflexivity]).
    apply wbind_inv in H as [(r0 & w2 & H2 & H) | (e & H2 & ->)].
    + destruct (IH _ _ _ (ND_SE f _ _ W1 HN) H2) as (W2 & Hr). rewrite (Hr r0 eq_refl) in H. rewrite Eemp in H.
      apply wret_inv in H as (-> & ->). split; [eapply SE_trans; eauto|]. intros x [= <-]. reflexivity.
    + destruct (IH _ _ _ (ND_SE f _ _ W1 HN) H2) as (W2 & _). split; [eapply SE_trans; eauto|]. intros x [=].
Qed.

Lemma rollback_strip e f w r w' :
  ND f w -> (forall n, w_nodes w e = Some n -> n_files n <> []) ->
  e_remove_from_file T e f w = Val (r, w') -> SE f w w'.
Proof.
  intros HN Hroot H. rewrite e_remove_from_file_scan in H.
  apply wbind_inv in H as [(n & w1 & H1 & H) | (e0 & H1 & _)]; [|apply get_node_inv in H1 as (? & _ & [=] & _)].
  apply get_node_inv in H1 as (n' & Hn & [= <-] & ->).
  apply wbind_inv in H as [(ps & w1 & H1 & H) | (e0 & H1 & _)]; apply ro_parent_splittable in H1; subst; [|apply SE_refl].
  destruct (negb ps); [apply wfail_inv in H as (_ & ->); apply SE_refl|].
  apply wbind_inv in H as [(fm & w1 & H1 & H) | (e0 & H1 & _)]; apply ro_file_model in H1; subst; [|apply SE_refl].
  apply wbind_inv in H as [(m & w1 & H1 & H) | (e0 & H1 & _)]; apply ro_model_of in H1; subst; [|apply SE_refl].
  destruct (negb (fm =? m)); [apply wfail_inv in H as (_ & ->); apply SE_refl|].
  apply wbind_inv in H as [([loc cur] & w1 & H1 & H) | (e0 & H1 & _)]; [|apply ro_file_membership in H1; subst; apply SE_refl].
  pose proof (Hroot n Hn) as Hne.
  assert (Ecur : cur = n_files n /\ w1 = w).
  { unfold file_membership, wbind, wget in H1. cbn [fuel_of fm_walk] in H1.
    unfold wbind, get_node in H1. rewrite Hn in H1. destruct (n_files n) as [|f0 fr] eqn:Ef; [congruence|].
    cbn [is_empty negb] in H1. unfold wret in H1. injection H1 as _ <- <-. auto. }
  destruct Ecur as (-> & ->). clear H1.
  pose proof (HN e n Hn Hne) as Hfs.
  assert (Ee : is_empty (set_remove f (n_files n)) = false) by (destruct (set_remove f (n_files n)); [congruence|reflexivity]).
  cbv zeta in H. rewrite Ee in H.
  apply wbind_inv in H as [(u & w1 & H1 & H) | (e0 & H1 & _)]; [|apply wret_inv in H1 as ([=] & _)].
  apply wret_inv in H1 as (_ & ->).
  apply wbind_inv in H as [(u2 & w1 & H1 & H) | (e0 & H1 & _)]; [|apply modify_node_inv in H1 as (? & _ & [=] & _)].
  apply modify_node_inv in H1 as (n2 & Hn2 & _ & ->). rewrite Hn in Hn2. injection Hn2 as <-. fold (strip f n) in H.
  pose proof (SE_upd_strip f w e n Hn) as W1. set (w1 := mkWorld _ _ _ _) in *.
  apply wbind_inv in H as [(w0 & w2 & H1 & H) | (e0 & H1 & _)]; [|apply wget_inv in H1 as ([=] & _)].
  apply wget_inv in H1 as (_ & ->).
  apply wbind_inv in H as [(ids & w2 & H1 & H) | (e0 & H1 & _)]; apply ro_dfs_ids in H1; subst; [|exact W1].
  apply wbind_inv in H as [(td & w2 & H1 & H) | (e0 & H1 & ->)].
  - destruct (rf_scan_strip f ids w1 _ _ (ND_SE f _ _ W1 HN) H1) as (W2 & Htd). rewrite (Htd td eq_refl) in H.
    apply wret_inv in H as (_ & ->). eapply SE_trans; eauto.
  - destruct (rf_scan_strip f ids w1 _ _ (ND_SE f _ _ W1 HN) H1) as (W2 & _). eapply SE_trans; eauto.
Qed.

End RollbackStrip.

Lemma set_remove_set_add x : forall l, set_remove x (set_add x l) = set_remove x l.
Proof.
  unfold set_remove. induction l as [|y l IH]; cbn [set_add filter].
  - rewrite N.eqb_refl. reflexivity.
  - destruct (x <? y) eqn:E1; [cbn [filter]; rewrite N.eqb_refl; reflexivity|].
    destruct (x =? y) eqn:E2; [reflexivity|]. cbn [filter]. rewrite IH. reflexivity.
Qed.
Lemma set_add_nonempty x l : set_add x l <> [].
Proof. destruct l as [|y l]; cbn [set_add]; [discriminate|]. destruct (x <? y); [discriminate|]. destruct (x =? y); discriminate. Qed.

Lemma FilesIF_nd nf f f1 : FilesIF nf f f1 -> (f = [] \/ set_remove nf f <> []) -> (f1 = [] \/ set_remove nf f1 <> []).
Proof.
  induction 1 as [f|fs f' Hnf H IH|f f' Hne H IH]; intros H0; [exact H0| |].
  - apply IH. rewrite (set_remove_notin nf fs Hnf). destruct fs; [left; reflexivity|right; discriminate].
  - apply IH. right. rewrite set_remove_set_add. destruct H0 as [E|E]; [contradiction|exact E].
Qed.
Lemma FilesIF_nonempty nf f f1 : FilesIF nf f f1 -> f <> [] -> f1 <> [].
Proof.
  induction 1 as [f|fs f' Hnf H IH|f f' Hne H IH]; intros H0; [exact H0|congruence|]. apply IH. apply set_add_nonempty.
Qed.

Lemma n_files_set_files n f : n_files (set_files n f) = f. Proof. destruct n; reflexivity. Qed.

Section ImportFreeLoad.
Variable T : tables.
Variables LATEST defref : N.

Definition import_free_load (m : N) (filename : list N) (root : Parser.etree) (st : Parser.pstate) (w : world) : bool :=
  match install PNone root w with
  | Val (OK t, w1) =>
    let fid := N.of_nat (List.length (w_files w)) in
    let w1' := mkWorld (w_nodes w1) (w_next w1)
                       (w_files w1 ++ [mkFile m filename (Parser.p_version st) (Parser.p_standalone st)]) (w_models w1) in
    match nth_opt (w_models w1') (N.to_nat m) with
    | Some x =>
      match w_nodes w1' (m_root x) with Some rn => negb (is_empty (n_files rn)) | None => false end &&
      match irun T LATEST defref (fuel_of w1') w1' (m_root x) (fold_right set_add [] (m_files x)) (it_id t) fid with
      | Some (true, _) => true
      | _ => false
      end
    | None => false
    end
  | _ => false
  end.

(* a rejected load that imported nothing: the index maps, the files and everything of the old nodes except the file
   membership are as before; a membership is what the merge stage made of it (FilesIF: made explicit, the new file added),
   with the new file removed again where the rollback came by, and renamed to a dead file where it did not *)
Theorem import_free_residue m filename root st w w' :
  FreshIn (N.of_nat (List.length (w_files w))) w ->
  import_free_load m filename root st w = true ->
  load_parsed T LATEST defref m filename root st w = Val (ER InvalidFileMerge, w') ->
  let fid := N.of_nat (List.length (w_files w)) in
  w_next w <= w_next w' /\ w_files w' = w_files w /\ w_models w' = w_models w /\
  exists d, forall i, i < w_next w ->
    match w_nodes w i, w_nodes w' i with
    | Some n, Some n' =>
      same_but_files n n' /\
      exists f1, FilesIF fid (n_files n) f1 /\
                 (n_files n' = rename_files fid d f1 \/ n_files n' = set_remove fid f1)
    | None, None => True
    | _, _ => False
    end.
Proof.
  intros HF Hq H fid0. subst fid0.
  destruct (load_parsed_reject_inv T LATEST defref m filename root st w w' H)
    as (t & w1 & x & wM & x1 & o & wR & keep & wK & H1 & Hx & Eemp & Hm & Hx1 & Hr & Hk & Hd).
  cbv zeta in Hx, Hm. unfold import_free_load in Hq. rewrite H1 in Hq. cbv zeta in Hq.
  set (fid := N.of_nat (List.length (w_files w))) in *.
  set (w1' := mkWorld (w_nodes w1) (w_next w1) (w_files w1 ++ [mkFile m filename (Parser.p_version st) (Parser.p_standalone st)]) (w_models w1)) in *.
  rewrite Hx in Hq. apply andb_true_iff in Hq as [Hroot Hq].
  destruct (irun T LATEST defref (fuel_of w1') w1' (m_root x) (fold_right set_add [] (m_files x)) (it_id t) fid) as [[[|] wM']|] eqn:Ei;
    try discriminate.
  destruct (irun_sound T LATEST defref _ _ _ _ _ _ _ _ Ei) as (EM & WM). cbn [qout] in EM.
  assert (EwM : wM = wM').
  { unfold merge_file_data in Hm. unfold wbind at 1 in Hm. unfold get_model at 1 in Hm. rewrite Hx in Hm.
    unfold wbind at 1 in Hm. cbn [wget] in Hm. unfold wbind at 1 in Hm. rewrite EM in Hm. injection Hm as <-. reflexivity. }
  subst wM'.
  pose proof (above_install (w_next w) _ _ _ _ _ (N.le_refl _) H1) as (A1 & A2 & A3 & A4).
  assert (HF1 : FreshIn fid w1') by (intros i n Hn; eapply (FreshIn_FK fid w w1 (FK_install root PNone w _ _ H1) HF); exact Hn).
  destruct WM as (M1 & M2 & M3 & M4).
  assert (HND : ND fid wM).
  { intros i nM HnM Hne. specialize (M4 i). rewrite HnM in M4. destruct (w_nodes w1' i) as [n|] eqn:En; [|contradiction].
    destruct M4 as (_ & Hfi). destruct (FilesIF_nd fid _ _ Hfi) as [E|E]; [|contradiction|exact E].
    rewrite (set_remove_notin fid (n_files n) (HF1 i n En)). destruct (n_files n); [left; reflexivity|right; discriminate]. }
  assert (Ex1 : x1 = x) by (rewrite M3, Hx in Hx1; injection Hx1 as <-; reflexivity). subst x1.
  apply wtry_inv in Hr as (r0 & Hr & _).
  assert (WR : SE fid wM wR).
  { eapply (rollback_strip T (m_root x) fid wM r0 wR HND); [|exact Hr].
    intros nM HnM. specialize (M4 (m_root x)). rewrite HnM in M4. destruct (w_nodes w1' (m_root x)) as [rn|] eqn:Ern; [|contradiction].
    destruct M4 as (_ & Hfi). apply (FilesIF_nonempty fid _ _ Hfi). apply negb_true_iff in Hroot. intros E. rewrite E in Hroot. discriminate. }
  destruct WR as (R1 & R2 & R3 & R4).
  apply kill_unreachable_eff in Hk as (_ & (K1 & K2 & K3 & K4 & _)).
  apply drop_file_eff in Hd as (D1 & D2 & D3 & D4).
  cbn [w_next w_files w_models w_nodes w1'] in *.
  split; [lia|]. split; [rewrite D2, K2, R2, M2, A3; apply removelast_snoc|]. split; [rewrite D3, K3, R3, M3; exact A4|].
  exists (DEAD_FILE_BASE + w_next wK). intros i Hi.
  rewrite D4, (K4 i Hi). specialize (M4 i). rewrite (A2 i Hi) in M4.
  destruct (w_nodes w i) as [n|] eqn:En.
  - destruct (w_nodes wM i) as [nM|] eqn:EnM; [|contradiction]. destruct M4 as (Hs & Hfi).
    destruct (R4 i) as [E|(nM' & HnM' & E)].
    + rewrite E, EnM. cbn [option_map]. unfold rename_file, rename_files.
      destruct (set_mem fid (n_files nM)) eqn:Em.
      * split; [eapply same_but_files_trans; [exact Hs|apply same_but_files_set]|].
        exists (n_files nM). split; [exact Hfi|]. left. rewrite n_files_set_files, ?Em. reflexivity.
      * split; [exact Hs|]. exists (n_files nM). split; [exact Hfi|]. left. rewrite ?Em. reflexivity.
    + rewrite EnM in HnM'. injection HnM' as <-. rewrite E. cbn [option_map]. unfold rename_file.
      assert (Em : set_mem fid (n_files (strip fid nM)) = false).
      { apply set_mem_false. unfold strip. rewrite n_files_set_files. unfold set_remove. intros Hin. apply filter_In in Hin as [_ Hin].
        rewrite N.eqb_refl in Hin. discriminate. }
      rewrite Em. split; [eapply same_but_files_trans; [exact Hs|apply same_but_files_set]|].
      exists (n_files nM). split; [exact Hfi|]. right. unfold strip. apply n_files_set_files.
  - destruct (w_nodes wM i) as [nM|] eqn:EnM; [contradiction|].
    destruct (R4 i) as [E|(nM' & HnM' & _)]; [rewrite E, EnM; exact I|congruence].
Qed.

End ImportFreeLoad.

(* the residue example imports nothing (its trace is the membership of UNIT t made explicit) *)
Example import_free_example :
  import_free_load MergeSpec.TinyM.tiny MergeSpec.TinyM.LATEST MergeSpec.TinyM.DEFREF 0 (BS "b") QuietExample.conf_b
                   (MergeSpec.pstate_of MergeSpec.TinyM.tiny 2 QuietExample.conf_b) (QuietExample.after QuietExample.conf_a) = true.
Proof. vm_compute. reflexivity. Qed.

Section SummaryIF.
Variable T : tables.
Variables tab_el tab_at tab_en : nametab.
Variable check_fn : N -> list N -> res bool.
Variable float_parse : list N -> option N.
Variables LATEST defref : N.

Theorem load_reject_import_free m buffer filename strict w w' root st :
  Parser.load strict T tab_el tab_at tab_en check_fn float_parse buffer = Val (Parser.Ret root st) ->
  FreshIn (N.of_nat (List.length (w_files w))) w ->
  import_free_load T LATEST defref m filename root st w = true ->
  m_load_buffer T tab_el tab_at tab_en check_fn float_parse LATEST defref m buffer filename strict w
    = Val (ER InvalidFileMerge, w') ->
  let fid := N.of_nat (List.length (w_files w)) in
  w_next w <= w_next w' /\ w_files w' = w_files w /\ w_models w' = w_models w /\
  exists d, forall i, i < w_next w ->
    match w_nodes w i, w_nodes w' i with
    | Some n, Some n' =>
      same_but_files n n' /\
      exists f1, FilesIF fid (n_files n) f1 /\
                 (n_files n' = rename_files fid d f1 \/ n_files n' = set_remove fid f1)
    | None, None => True
    | _, _ => False
    end.
Proof.
  intros Hp HF Hq H. unfold m_load_buffer in H.
  apply wbind_inv in H as [(x & w1 & H1 & H) | (e' & H1 & _)]; [|apply get_model_inv in H1 as (? & _ & [=] & _)].
  apply get_model_inv in H1 as (x' & _ & _ & ->).
  apply wbind_inv in H as [(w0 & w2 & H2 & H) | (e' & H2 & _)]; [|apply wget_inv in H2 as ([=] & _)].
  apply wget_inv in H2 as (E2 & ->). injection E2 as ->.
  destruct (existsb _ (m_files x)); [apply wfail_inv in H as ([=] & _)|].
  rewrite Hp in H.
  apply wbind_inv in H as [(fo & w3 & H3 & H) | (e' & H3 & [= <-])]; [apply wret_inv in H as ([=] & _)|].
  eapply import_free_residue; eauto.
Qed.

End SummaryIF.
