(* Tree/RangeProofsAttach.v — C07: when is attaching an EXISTING element (move_element_here[_at], create_copied_sub_element[_at])
   harmless for the loader although the element keeps its stored type?
   (A) loader_walk_of_typed: in a world whose parent/child edges are TypedU (C17: the parent's stored type lists the child's
       name, in SOME version set, with the child's stored DATATYPE) and on tables with PairOK (one datatype never lists a name
       with two datatypes that differ below), a set of elements whose child lists are in the specification order of their
       STORED types is read by the loader without complaint, whatever type (of a related datatype) the loader starts with:
       LoaderWalk (Tree/Project.v).
   (B) move / copy keep the hypotheses of (A) under agent-c17's side condition attach_ok (Tree/CompatHist4.v) — the typing part
       is C17's move_typed / copy_typed, the order part is C07's order invariant.
   The side condition is necessary: Tree/RangeProofsReal.v move_keeps_source_type. *)
From Coq Require Import Arith Lia.
From AV Require Import Base.Bytes Base.Outcome Hash.HashModel Spec.SpecOps Tree.Heap Tree.Ops Tree.Script Tree.Inv Tree.InvProofsBase
  Tree.Range Tree.SpecWF Tree.RangeProofsLoop Tree.RangeProofsLoader Tree.RangeProofsKeep Tree.RangeProofsMoveFinal Tree.Project
  Tree.CompatTyped Tree.CompatProofs5 Tree.CompatFrame Tree.CompatHist1 Tree.CompatHist4 Tree.RangeProofsInv.
Open Scope list_scope.
Open Scope N_scope.

Section Walk.
Variable T : tables.
Hypothesis WF : SpecWF T.
Hypothesis HP : PairOK T.

(* ---- the loader's checks read the datatype only ---- *)
Lemma idx_of_snd ty ty' v name : snd ty = snd ty' -> idx_of T ty v name = idx_of T ty' v name.
Proof. intros E. unfold idx_of. rewrite (find_sub_element_snd T ty ty' name v E). reflexivity. Qed.

Lemma choice_conflict_snd ty ty' prev ix : snd ty = snd ty' -> choice_conflict T ty prev ix = choice_conflict T ty' prev ix.
Proof. intros E. unfold choice_conflict, find_common_group. rewrite E. reflexivity. Qed.

Lemma too_many_snd ty ty' ix name seen : snd ty = snd ty' -> too_many T ty ix name seen = too_many T ty' ix name seen.
Proof.
  intros E. destruct ty as [a b], ty' as [a' b']. cbn [snd] in E. subst b'. reflexivity.
Qed.

Lemma loader_scan_snd ty ty' v : snd ty = snd ty' ->
  forall items prev seen, loader_scan T ty v prev seen items = loader_scan T ty' v prev seen items.
Proof.
  intros E. induction items as [|[name|] r IH]; intros prev seen; cbn [loader_scan]; [reflexivity| |apply IH].
  rewrite (idx_of_snd ty ty' v name E). destruct (idx_of T ty' v name) as [ix|]; [|reflexivity].
  rewrite (choice_conflict_snd ty ty' prev ix E), (too_many_snd ty ty' ix name seen E), IH. reflexivity.
Qed.

Lemma loader_accepts_snd ty ty' v items : snd ty = snd ty' -> LoaderAccepts T ty v items -> LoaderAccepts T ty' v items.
Proof. intros E. unfold LoaderAccepts, loader_complaints. rewrite (loader_scan_snd ty ty' v E). auto. Qed.

(* ---- a child list without sub-elements passes for every type ---- *)
Lemma loader_scan_no_elems ty v : forall items prev seen, somes items = [] -> loader_scan T ty v prev seen items = Some [].
Proof.
  induction items as [|[name|] r IH]; intros prev seen H; cbn [loader_scan]; [reflexivity|discriminate|].
  apply IH. exact H.
Qed.

(* every sub-element name of an ordered child list resolves *)
Lemma ordered_resolves ty v : forall items name, Ordered T ty v items -> In (Some name) items ->
  exists et ix, find_sub_element T ty name v = Val (Some (et, ix)).
Proof.
  unfold Ordered, orderedb. intros items name H Hin.
  destruct (paths_of T ty v items) as [pl|] eqn:E; [|discriminate]. clear H. revert pl E.
  induction items as [|[x|] r IH]; intros pl E; [destruct Hin| |].
  - cbn [paths_of] in E. destruct (idx_of T ty v x) as [ix|] eqn:EI; [|discriminate].
    destruct (paths_of T ty v r) as [l|] eqn:ER; [|discriminate].
    destruct Hin as [[= ->]|Hin]; [|eapply IH; eauto].
    unfold idx_of in EI. destruct (find_sub_element T ty name v) as [[[et ix']|]| |]; try discriminate. eauto.
  - cbn [paths_of] in E. destruct Hin as [[=]|Hin]. eapply IH; eauto.
Qed.

Lemma items_of_in w : forall c items i cn, items_of w c = Some items -> In (CElem i) c -> w_nodes w i = Some cn ->
  In (Some (n_name cn)) items.
Proof.
  induction c as [|x c IH]; intros items i cn H Hin Hi; [destruct Hin|].
  cbn [items_of] in H. destruct (item_of w x) as [it|] eqn:EI; [|discriminate].
  destruct (items_of w c) as [xs|] eqn:EL; [|discriminate]. injection H as <-.
  destruct Hin as [->|Hin]; [|right; eapply IH; eauto].
  left. cbn [item_of] in EI. rewrite Hi in EI. injection EI as <-. reflexivity.
Qed.

Lemma leaf_no_elems ty v items : leafb T (snd ty) = true -> Ordered T ty v items -> somes items = [].
Proof.
  intros HL HO. destruct (somes items) as [|x l] eqn:E; [reflexivity|]. exfalso.
  assert (Hin : In (Some x) items).
  { clear - E. revert x l E. induction items as [|[y|] r IH]; intros x l E; [discriminate| |].
    - cbn in E. injection E as -> _. left. reflexivity.
    - right. eapply IH. exact E. }
  destruct (ordered_resolves ty v items x HO Hin) as (et & ix & H).
  pose proof (leaf_finds_nothing T ty x v _ HL H). discriminate.
Qed.

Lemma rel_ok_trans a b c : rel_ok T a b = true -> rel_ok T b c = true -> rel_ok T a c = true.
Proof.
  unfold rel_ok. intros H1 H2. apply orb_true_iff in H1. apply orb_true_iff in H2. apply orb_true_iff.
  destruct H1 as [H1|H1], H2 as [H2|H2].
  - left. apply N.eqb_eq in H1. apply N.eqb_eq in H2. apply N.eqb_eq. congruence.
  - apply N.eqb_eq in H1. subst. right. exact H2.
  - apply N.eqb_eq in H2. subst. right. exact H1.
  - right. apply andb_true_iff in H1 as [A _]. apply andb_true_iff in H2 as [_ B]. rewrite A, B. reflexivity.
Qed.

Lemma rel_ok_sym a b : rel_ok T a b = true -> rel_ok T b a = true.
Proof.
  unfold rel_ok. intros H. apply orb_true_iff in H. apply orb_true_iff. destruct H as [H|H].
  - left. apply N.eqb_eq in H. apply N.eqb_eq. auto.
  - right. apply andb_true_iff in H as [A B]. rewrite A, B. reflexivity.
Qed.

(* (A) *)
Theorem loader_walk_of_typed (w : world) (v : N) (S : id -> Prop) :
  TypedU T w -> OrdSet T w v S ->
  forall fuel i n lt, S i -> w_nodes w i = Some n -> rel_ok T (snd lt) (snd (n_type n)) = true -> LoaderWalk T fuel w v i lt.
Proof.
  intros HT HS. induction fuel as [|f IH]; intros i n lt Si Hn HR; [exact I|].
  cbn [LoaderWalk]. destruct (HS i Si) as (n0 & items & Hn0 & HI & HO & Hcl). rewrite Hn in Hn0. injection Hn0 as <-.
  exists n, items. split; [exact Hn|]. split; [exact HI|].
  unfold rel_ok in HR. apply orb_true_iff in HR as [HE|HL].
  - apply N.eqb_eq in HE. split.
    + apply (loader_accepts_snd (n_type n) lt v items); [auto|]. apply (ordered_loader_accepts T WF). exact HO.
    + intros c cn Hin Hc.
      destruct (ordered_resolves _ _ _ _ HO (items_of_in w _ _ _ _ HI Hin Hc)) as (et & ix & HF).
      exists et, ix. split; [rewrite (find_sub_element_snd T lt (n_type n) _ _ HE); exact HF|].
      apply (IH c cn et (Hcl c Hin) Hc).
      destruct (HT i n c cn Hn Hin Hc) as (u & et1 & ix1 & HF1 & HE1). rewrite <- HE1.
      unfold find_sub_element in HF, HF1. exact (HP _ _ _ _ _ _ _ _ HF HF1).
  - apply andb_true_iff in HL as [_ HL]. pose proof (leaf_no_elems _ _ _ HL HO) as HN. split.
    + unfold LoaderAccepts, loader_complaints. apply loader_scan_no_elems. exact HN.
    + intros c cn Hin Hc. exfalso. pose proof (items_of_in w _ _ _ _ HI Hin Hc) as Hi.
      clear - HN Hi. induction items as [|[y|] r IHr]; [destruct Hi|discriminate|].
      destruct Hi as [[=]|Hi]. apply IHr; auto.
Qed.

End Walk.

(* ------------------------------------------------------------------ (B) move *)
(* what an attaching call does to the sub-element lists (from C17's frame FrI) *)
Lemma FrI_children self c w0 w' : FrI self c w0 w' ->
  forall j x, w_nodes w' j = Some x -> exists x0, w_nodes w0 j = Some x0 /\
    forall k, In (CElem k) (n_content x) -> In (CElem k) (n_content x0) \/ (j = self /\ k = c).
Proof.
  intros [F|(w4 & n4 & pos & F & H4 & ->)] j x Hx.
  - destruct (proj2 F j x Hx) as (x0 & H0 & (_ & _ & HC)). exists x0. split; [exact H0|]. intros k Hk. left. auto.
  - unfold wset in Hx. cbn [w_nodes] in Hx. unfold upd in Hx. destruct (j =? self) eqn:E.
    + apply N.eqb_eq in E. subst j. injection Hx as <-.
      destruct (proj2 F self n4 H4) as (x0 & H0 & (_ & _ & HC)). exists x0. split; [exact H0|].
      cbn [n_content set_content]. intros k Hk. apply InvProofsBase.in_elems in Hk.
      apply InvProofsPrim.elems_insert_in in Hk as [->|Hk]; [right; auto|]. left. apply HC. apply InvProofsBase.in_elems. exact Hk.
    + destruct (proj2 F j x Hx) as (x0 & H0 & (_ & _ & HC)). exists x0. split; [exact H0|]. intros k Hk. left. auto.
Qed.

Section Move.
Variable T : tables.
Variable tab_en : nametab.
Variable check_fn : N -> list N -> res bool.
Variable LATEST : N.
Hypothesis WF : SpecWF T.
Hypothesis HP : PairOK T.

Theorem move_attach_walk h mv n mn ms m vs v w c w' (S : id -> Prop) :
  w_nodes w h = Some n -> w_nodes w mv = Some mn -> n_parent mn <> PElem h ->
  model_of mv w = Val (OK ms, w) -> model_of h w = Val (OK m, w) ->
  min_version LATEST mv w = Val (OK vs, w) -> min_version LATEST h w = Val (OK v, w) ->
  Bounded w -> TypedU T w -> attach_ok T w h mv ->
  OrdSet T w v S -> S h -> S mv ->
  (exists pos, e_move_element_here_at T tab_en check_fn LATEST h mv pos w = Val (OK c, w')) \/
  e_move_element_here T tab_en check_fn LATEST h mv w = Val (OK c, w') ->
  Bounded w' /\ TypedU T w' /\ OrdSet T w' v S /\
  forall fuel i ni lt, S i -> w_nodes w' i = Some ni -> rel_ok T (snd lt) (snd (n_type ni)) = true -> LoaderWalk T fuel w' v i lt.
Proof.
  intros Hn Hmn Hp Hms Hm Hvs Hv B HT Hok HS Sh Smv H.
  assert (HBT : Bounded w' /\ TypedU T w').
  { destruct H as [(pos & H)|H]; [eapply move_at_typed; eauto|eapply move_typed; eauto]. }
  assert (HF : FrI h mv w w').
  { destruct H as [(pos & H)|H].
    - exact (FI_e_move_at T tab_en check_fn LATEST w h mv pos w _ w' (Fr_refl w) H).
    - exact (FI_e_move T tab_en check_fn LATEST w h mv w _ w' (Fr_refl w) H). }
  destruct (HS h Sh) as (n0 & items & Hn0 & HI & HO & _). rewrite Hn in Hn0. injection Hn0 as <-.
  destruct (order_inv_move T tab_en check_fn LATEST WF h mv n mn ms m vs v w c w' items Hn Hmn Hms Hm Hvs Hv HI HO) as (_ & HM).
  destruct (HM Hp H) as ((n' & items' & Hn' & Hty' & HI' & HO') & Hoth).
  assert (HS' : OrdSet T w' v S).
  { intros i Si. destruct (HS i Si) as (ni & itemsi & Hni & HIi & HOi & Hcl).
    destruct (N.eq_dec i h) as [->|NE].
    - exists n', items'. split; [exact Hn'|]. split; [exact HI'|]. split; [rewrite Hty'; exact HO'|].
      intros k Hk. destruct (FrI_children _ _ _ _ HF h n' Hn') as (x0 & H0 & HC). rewrite Hn in H0. injection H0 as <-.
      destruct (HC k Hk) as [Hk0|(_ & ->)]; [|exact Smv].
      rewrite Hn in Hni. injection Hni as <-. auto.
    - destruct (Hoth i ni itemsi v NE Hni HIi HOi) as (ni' & itemsi' & Hni' & Htyi & HIi' & HOi').
      exists ni', itemsi'. split; [exact Hni'|]. split; [exact HIi'|]. split; [rewrite Htyi; exact HOi'|].
      intros k Hk. destruct (FrI_children _ _ _ _ HF i ni' Hni') as (x0 & H0 & HC). rewrite Hni in H0. injection H0 as <-.
      destruct (HC k Hk) as [Hk0|(E & _)]; [auto|contradiction]. }
  split; [exact (proj1 HBT)|]. split; [exact (proj2 HBT)|]. split; [exact HS'|].
  intros fuel i ni lt Si Hi HR. exact (loader_walk_of_typed T WF HP w' v S (proj2 HBT) HS' fuel i ni lt Si Hi HR).
Qed.

End Move.
