(* Tree/FilesProofsAdd.v — C10 proofs, layer 6: add_to_file_restricted (the walk up the tree), Element::add_to_file and
   AutosarModel::create_file preserve the invariant of the model they act on and leave everything else alone. *)
From Coq Require Import PeanoNat Arith Lia.
From AV Require Import Base.Bytes Base.Outcome Hash.HashModel Tree.Heap Tree.Ops Tree.Script Tree.Serialize
  Tree.Inv Tree.InvProofsBase Tree.InvProofsCore Tree.InvProofsTree Tree.Files Tree.FilesProofsBase Tree.FilesProofsProj
  Tree.FilesProofsFrame Tree.FilesProofsSet Tree.FilesProofsHole.
Open Scope string_scope.
Open Scope list_scope.
Open Scope N_scope.

(* ------------------------------------------------------------------ worlds with the same nodes *)
Definition weq (w w' : world) : Prop :=
  w_next w' = w_next w /\ w_models w' = w_models w /\ w_files w' = w_files w /\ forall i, w_nodes w' i = w_nodes w i.

Lemma weq_same_tree w w' : weq w w' -> same_tree w w'.
Proof.
  intros (N & M & _ & H). repeat split; auto.
  - unfold roots. rewrite M. reflexivity.
  - intros i. unfold skel. rewrite H. reflexivity.
Qed.
Lemma weq_eff w w' i s : weq w w' -> Eff w i s -> Eff w' i s.
Proof.
  intros (_ & _ & _ & H). induction 1 as [i n Hn Hf | i n p s Hn Hf Hp He IH].
  - constructor; auto. rewrite H. exact Hn.
  - eapply Eff_up; eauto. rewrite H. exact Hn.
Qed.
Lemma weq_sym w w' : weq w w' -> weq w' w.
Proof. intros (N & M & F & H). repeat split; auto. Qed.

(* writing back the node that is already there *)
Lemma set_files_eta n : set_files n (n_files n) = n.
Proof. destruct n. reflexivity. Qed.
Lemma weq_wset_same w i n : w_nodes w i = Some n -> weq w (wset w i n).
Proof.
  intros Hn. repeat split; auto. intros x. cbn. unfold upd. destruct (x =? i) eqn:E; auto.
  apply N.eqb_eq in E. subst. auto.
Qed.

(* ------------------------------------------------------------------ changes confined to the elements of one model *)
Record Under (w w' : world) (root : id) : Prop := mkUnder {
  un_tree : same_tree w w';
  un_models : w_models w' = w_models w;
  un_files : w_files w' = w_files w;
  un_out : forall i, ~ Reach w root i -> w_nodes w' i = w_nodes w i;
  (* nobody's parent, type or content changes; a non-empty local set only changes at ... nothing is said here *)
  un_kept : forall i n, w_nodes w i = Some n -> exists n', w_nodes w' i = Some n' /\ n_parent n' = n_parent n /\
                                                           n_type n' = n_type n /\ n_content n' = n_content n
}.

Lemma under_refl w root : Under w w root.
Proof. constructor; auto. - apply same_tree_refl. - intros i n H. exists n. auto. Qed.
Lemma under_trans a b c root : Under a b root -> Under b c root -> Under a c root.
Proof.
  intros [T1 M1 F1 O1 K1] [T2 M2 F2 O2 K2]. constructor; try congruence.
  - eapply same_tree_trans; eauto.
  - intros i Hi. rewrite O2; auto. intros H. apply Hi. eapply reach_same_tree; [apply same_tree_sym; eauto|exact H].
  - intros i n Hn. destruct (K1 _ _ Hn) as (n1 & H1 & P1 & Ty1 & C1). destruct (K2 _ _ H1) as (n2 & H2 & P2 & Ty2 & C2).
    exists n2. repeat split; congruence.
Qed.
Lemma under_weq w w' root : weq w w' -> Under w w' root.
Proof.
  intros E. pose proof (weq_same_tree _ _ E) as S. destruct E as (N & M & F & H). constructor; auto.
  intros i n Hn. exists n. rewrite H. auto.
Qed.
Lemma under_fset w c s root : Reach w root c -> Under w (fset w c s) root.
Proof.
  intros Hr. constructor.
  - apply fset_same_tree.
  - apply fset_models.
  - apply fset_files.
  - intros i Hi. apply fset_neq. intros ->. contradiction.
  - intros i n Hn. destruct (N.eq_dec i c) as [->|Hne].
    + exists (set_files n s). rewrite (fset_eq _ _ _ _ Hn). auto.
    + exists n. rewrite fset_neq; auto.
Qed.
Lemma under_core w w' root : Under w w' root -> Core w -> Core w'.
Proof. intros U. apply Core_same_tree. apply (un_tree _ _ _ U). Qed.
Lemma under_reach w w' root r i : Under w w' root -> (Reach w' r i <-> Reach w r i).
Proof. intros U. symmetry. apply reach_same_tree_iff. apply (un_tree _ _ _ U). Qed.

Section Add.
Variable T : tables.

Lemma weq_hole w w' x f hole : weq w w' -> HoleInv T w x f hole -> HoleInv T w' x f hole.
Proof.
  intros E [A B H S D]. pose proof (weq_same_tree _ _ E) as ST.
  assert (forall i s, Eff w i s -> Eff w' i s) as WE by (intros i s; apply weq_eff; exact E).
  pose proof (fun r i => proj2 (reach_same_tree_iff w w' r i ST)) as RB.
  destruct E as (N & M & F & Hn).
  constructor.
  - intros i n Hr Hi. rewrite Hn in Hi. eapply A; eauto.
  - intros i n p Hr Hi Hne Hp Hh. rewrite Hn in Hi. destruct (B i n p (RB _ _ Hr) Hi Hne Hp Hh) as (s & Hs & Hi'). eauto.
  - intros h n p Eh Hi Hp. rewrite Hn in Hi. destruct (H h n p Eh Hi Hp) as (s & Hs & Hi'). eauto.
  - intros i n p pn Hr Hi Hne Hp Hpn. rewrite Hn in Hi, Hpn. eapply S; eauto.
  - intros Hne i Hr. destruct (D Hne i (RB _ _ Hr)) as (s & Hs). eauto.
Qed.

(* ---------- the loop over the children of a splittable element ---------- *)
Definition kids_loop (s : list N) : list citem -> W unit :=
  fix kids (l : list citem) : W unit :=
    match l with
    | [] => wret tt
    | CElem c :: rest =>
      wbind (modify_node c (fun x => if is_empty (n_files x) then set_files x s else x)) (fun _ => kids rest)
    | CData _ :: rest => kids rest
    end.

(* what materializing does to any node: parent, type, content and every non-empty set stay *)
Definition MatRel (w w' : world) : Prop :=
  (forall i t, Eff w i t <-> Eff w' i t) /\
  (forall i n, w_nodes w i = Some n -> exists n', w_nodes w' i = Some n' /\ n_parent n' = n_parent n /\
                                                  n_type n' = n_type n /\ (n_files n <> [] -> n_files n' = n_files n)).
Lemma matrel_refl w : MatRel w w.
Proof. split; [tauto|]. intros i n H. exists n. auto. Qed.
Lemma matrel_trans a b c : MatRel a b -> MatRel b c -> MatRel a c.
Proof.
  intros (E1 & K1) (E2 & K2). split.
  - intros i t. rewrite E1. apply E2.
  - intros i n Hn. destruct (K1 _ _ Hn) as (n1 & H1 & P1 & T1 & F1). destruct (K2 _ _ H1) as (n2 & H2 & P2 & T2 & F2).
    exists n2. repeat split; try congruence. intros Hne. rewrite F2; auto. rewrite F1; auto.
Qed.

Lemma kids_loop_spec x f hole cur s : forall l w qn r w',
  Core w -> In x (w_models w) -> HoleInv T w x f hole -> Reach w (m_root x) cur -> Eff w cur s ->
  w_nodes w cur = Some qn -> split_ok T qn -> (forall c, In c (elems l) -> lists w cur c) ->
  kids_loop s l w = Val (r, w') ->
  HoleInv T w' x f hole /\ Under w w' (m_root x) /\ MatRel w w' /\ (forall i, ~ In i (elems l) -> w_nodes w' i = w_nodes w i).
Proof.
  induction l as [|[c|d] l IH]; intros w qn r w' C Hx HI Hrc Hs Hq Hsp Hl H; cbn [kids_loop] in H.
  - apply wret_inv in H as (_ & ->). split; auto. split; [apply under_refl |]. split; [apply matrel_refl | auto].
  - apply wbind_inv in H as [(u & w1 & H1 & H2) | (e & H1 & _)];
      [|apply modify_node_wset in H1 as (? & _ & [=] & _)].
    apply modify_node_wset in H1 as (cn & Hcn & _ & ->).
    assert (lists w cur c) as Hlc by (apply Hl; cbn; auto).
    assert (Reach w (m_root x) c) as Hrcc by (eapply R_kid; eauto).
    pose proof (c_up _ C _ _ Hlc) as (cn' & Hcn' & Hpar). assert (cn' = cn) by congruence. subst cn'.
    (* the step *)
    assert (exists w1, (wset w c (if is_empty (n_files cn) then set_files cn s else cn)) = w1 /\
                       HoleInv T w1 x f hole /\ Under w w1 (m_root x) /\ MatRel w w1 /\ Core w1 /\
                       (forall i, i <> c -> w_nodes w1 i = w_nodes w i)) as (w1 & E1 & HI1 & U1 & M1 & C1 & O1).
    { destruct (is_empty (n_files cn)) eqn:Ee.
      - apply is_empty_nil in Ee. assert (Eff w c s) as Hcs by (eapply Eff_up; eauto).
        exists (fset w c s). split; [unfold fset; rewrite Hcn; reflexivity|]. split; [eapply hole_materialize; eauto|].
        split; [apply under_fset; auto|]. split; [|split; [apply fset_core; auto | intros i Hi; apply fset_neq; auto]]. split.
        + intros i t. symmetry. apply (mat_iff w c s cn); auto.
        + intros i n Hn. destruct (N.eq_dec i c) as [->|Hne].
          * exists (set_files n s). rewrite (fset_eq _ _ _ _ Hn). repeat split; auto. intros Hne. congruence.
          * exists n. rewrite fset_neq; auto.
      - exists (wset w c cn). split; auto. pose proof (weq_wset_same _ _ _ Hcn) as E.
        split; [eapply weq_hole; eauto|]. split; [apply under_weq; auto|]. split.
        + split.
          * intros i t. split; [apply weq_eff; auto | apply weq_eff; apply weq_sym; auto].
          * intros i n Hn. exists n. destruct E as (_ & _ & _ & E). rewrite E. auto.
        + split; [eapply Core_same_tree; [apply weq_same_tree; eauto|auto]|]. intros i Hi. cbn. apply upd_neq. auto. }
    rewrite E1 in H2. clear E1.
    destruct M1 as (ME & MK). destruct (MK _ _ Hq) as (qn1 & Hq1 & _ & Ty & _).
    assert (In x (w_models w1)) as Hx1 by (rewrite (un_models _ _ _ U1); auto).
    destruct (IH w1 qn1 r w' C1 Hx1 HI1) as (HI2 & U2 & M2 & O2); auto.
    + apply (under_reach _ _ _ _ _ U1). auto.
    + apply ME. auto.
    + eapply split_ok_type; eauto.
    + intros c' Hc'. eapply lists_same_tree; [apply (un_tree _ _ _ U1)|]. apply Hl. cbn. auto.
    + split; auto. split; [eapply under_trans; eauto|]. split; [eapply matrel_trans; eauto; split; auto|].
      intros i Hi. rewrite elems_cons_elem in Hi. rewrite O2, O1; auto; intros E; apply Hi; cbn; auto.
  - eapply IH; eauto.
Qed.

(* ---------- file_membership that fails ---------- *)
Lemma fm_walk_err fuel w self : forall cur e w', fm_walk fuel self cur w = Val (ER e, w') -> forall s, ~ Eff w cur s.
Proof.
  induction fuel as [|fuel IH]; intros cur e w' H s Hs; cbn [fm_walk] in H; [discriminate|].
  apply wbind_inv in H as [(n & w1 & H1 & H) | (e0 & H1 & _)]; [|apply get_node_inv in H1 as (? & _ & [=] & _)].
  apply get_node_inv in H1 as (n' & Hn & [= <-] & ->).
  destruct (negb (is_empty (n_files n))) eqn:Ef; [discriminate|].
  apply Bool.negb_false_iff, is_empty_nil in Ef.
  destruct (Eff_up_inv _ _ _ _ Hs Hn Ef) as (p & Hp & Hps).
  unfold parent_of in H. rewrite Hp in H.
  apply wbind_inv in H as [(a & w1 & H1 & H) | (e0 & H1 & _)]; [|discriminate].
  apply wret_inv in H1 as ([= ->] & ->). eapply IH; eauto.
Qed.

Lemma file_membership_err i w e w' : file_membership i w = Val (ER e, w') -> forall s, ~ Eff w i s.
Proof.
  unfold file_membership. intros H.
  apply wbind_inv in H as [(a & w1 & H1 & H) | (e0 & H1 & _)]; [|discriminate].
  apply wget_inv in H1 as ([= ->] & ->). eapply fm_walk_err; eauto.
Qed.

Definition nonsplit (w : world) (i : id) : Prop := exists n, w_nodes w i = Some n /\ splittable T (n_type n) = Val 0.

Definition HoleSide (w : world) (cur : id) (hole : option id) : Prop :=
  forall h, hole = Some h ->
  exists hn p, w_nodes w h = Some hn /\ n_parent hn = PElem p /\ Inh w cur p /\ (p = cur \/ nonsplit w cur).

Lemma inh_ancs w cur i : Inh w cur i -> AncS w cur i.
Proof. induction 1 as [|i n q Hn Hf Hq Hi IH]; [constructor|]. eapply A_up; eauto. exists n; auto. Qed.
Lemma inh_top w cur i n pp : Inh w cur i -> w_nodes w cur = Some n -> n_files n = [] -> n_parent n = PElem pp -> Inh w pp i.
Proof.
  induction 1 as [|i m q Hm Hf Hq Hi IH]; intros Hn He Hp.
  - eapply Inh_up; eauto. constructor.
  - eapply Inh_up; eauto.
Qed.
Lemma not_own_parent w c p : Core w -> par w c p -> c <> p.
Proof.
  intros C Hp ->. destruct Hp as (n & Hn & Hpn).
  assert (exists h, Depth w p h) as Hd by (apply (c_depth _ C); exists n; auto).
  eapply ancs_par_irrefl; eauto; [exists n; eauto | constructor].
Qed.

Lemma atfr_unfold fl e f :
  add_to_file_restricted T (S fl) e f =
  wbind (wtry (file_membership e)) (fun fm =>
    let '(local, cur) := match fm with Some x => x | None => (true, []) end in
    if set_mem f cur then wret tt else
    wbind (get_node e) (fun n =>
    wbind (wl (splittable T (n_type n))) (fun sp =>
    wbind (if negb (sp =? 0) then kids_loop cur (n_content n) else wret tt) (fun _ =>
    wbind (parent_splittable T n) (fun ps =>
    wbind (if ps || local then modify_node e (fun x => set_files x (set_add f cur)) else wret tt) (fun _ =>
    wbind (parent_of n) (fun p =>
    match p with Some pi => add_to_file_restricted T fl pi f | None => wret tt end))))))).
Proof. reflexivity. Qed.

Lemma hole_none_inv w x f : HoleInv T w x f None -> FilesInvM T w x.
Proof. intros [A B H S D]. constructor; auto. intros i n p Hr Hn Hne Hp. eapply B; eauto. discriminate. Qed.

Lemma parent_splittable_spec n w r w' : parent_splittable T n w = Val (r, w') ->
  w' = w /\
  ((n_parent n = PNone /\ exists e, r = ER e) \/
   (exists m, n_parent n = PModel m /\ r = OK true) \/
   (exists p pn sv, n_parent n = PElem p /\ w_nodes w p = Some pn /\ splittable T (n_type pn) = Val sv /\ r = OK (negb (sv =? 0)))).
Proof.
  intros H. assert (w' = w) as -> by (refine ((_ : ro (parent_splittable T n)) _ _ _ H); ro_tac). split; auto.
  unfold parent_splittable, parent_of in H. destruct (n_parent n) as [|m|p] eqn:Hp.
  - left. split; auto. apply wbind_inv in H as [(a & w1 & H1 & H) | (e0 & H1 & ->)]; [discriminate|eauto].
  - right. left. exists m. split; auto.
    apply wbind_inv in H as [(a & w1 & H1 & H) | (e0 & H1 & ->)]; [|discriminate].
    apply wret_inv in H1 as ([= ->] & ->). apply wret_inv in H as (-> & _). reflexivity.
  - right. right.
    apply wbind_inv in H as [(a & w1 & H1 & H) | (e0 & H1 & ->)]; [|discriminate].
    apply wret_inv in H1 as ([= ->] & ->).
    apply wbind_inv in H as [(pn & w1 & H1 & H) | (e0 & H1 & ->)]; [|apply get_node_inv in H1 as (? & _ & [=] & _)].
    apply get_node_inv in H1 as (pn' & Hpn & [= <-] & ->).
    apply wbind_inv in H as [(sv & w1 & H1 & H) | (e0 & H1 & ->)]; [|apply wl_inv in H1 as (? & _ & [=] & _)].
    apply wl_inv in H1 as (sv' & Hsv & [= <-] & ->). apply wret_inv in H as (-> & _).
    exists p, pn, sv. auto.
Qed.

Lemma atfr_spec x f : forall fuel cur w r w' hole,
  Core w -> In x (w_models w) -> In f (m_files x) -> Reach w (m_root x) cur ->
  HoleInv T w x f hole -> hole <> Some cur -> HoleSide w cur hole ->
  add_to_file_restricted T fuel cur f w = Val (r, w') ->
  FilesInvM T w' x /\ Under w w' (m_root x).
Proof.
  induction fuel as [|fl IH]; intros cur w r w' hole C Hx Hf Hrc HI Hnh HS H; [discriminate|].
  rewrite atfr_unfold in H.
  assert (m_files x <> []) as Hne by (intros E; rewrite E in Hf; destruct Hf).
  destruct (hi_eff _ _ _ _ _ HI Hne cur Hrc) as (s & Hs).
  (* file_membership *)
  apply wbind_inv in H as [(fm & w1 & H1 & H) | (e0 & H1 & _)]; [|apply wtry_inv in H1 as (? & _ & [=])].
  apply wtry_inv in H1 as (r0 & H1 & E0). injection E0 as ->.
  destruct r0 as [[local s']|e0].
  2:{ exfalso. eapply file_membership_err; eauto. }
  destruct (file_membership_spec _ _ _ _ _ H1) as (-> & Hs' & Hloc).
  assert (s' = s) as -> by (eapply Eff_fun; eauto). clear H1.
  destruct (set_mem f s) eqn:Hmem.
  { (* f is already there: the walk stops, the hole (if any) is closed *)
    apply wret_inv in H as (_ & ->). split; [|apply under_refl]. apply set_mem_in in Hmem.
    destruct hole as [h|]; [|apply hole_none_inv with f; auto].
    eapply hole_close; eauto. intros hn p Hhn Hp.
    destruct (HS h eq_refl) as (hn' & p' & Hhn' & Hp' & Hi & _).
    assert (hn' = hn) by congruence. subst hn'. assert (p' = p) by congruence. subst p'.
    destruct (hi_hole _ _ _ _ _ HI h hn p eq_refl Hhn Hp) as (s0 & Hs0 & Hg).
    assert (s0 = s) as -> by (eapply Eff_fun; eauto; eapply inh_eff; eauto).
    exists s. split; auto. intros g Hgi. destruct (Hg g Hgi) as [->|]; auto. }
  apply wbind_inv in H as [(n & w1 & H1 & H) | (e0 & H1 & _)]; [|apply get_node_inv in H1 as (? & _ & [=] & _)].
  apply get_node_inv in H1 as (n' & Hn & [= <-] & ->).
  apply wbind_inv in H as [(sp & w1 & H1 & H) | (e0 & H1 & _)]; [|apply wl_inv in H1 as (? & _ & [=] & _)].
  apply wl_inv in H1 as (sp' & Hsp & [= <-] & ->).
  (* the children *)
  apply wbind_inv in H as [(u & w2 & H2 & H) | (e0 & H2 & _)].
  2:{ exfalso. destruct (negb (sp =? 0)); [|discriminate].
      assert (forall l w0 e1 w3, kids_loop s l w0 = Val (ER e1, w3) -> False) as NE.
      { induction l as [|[c|d] l IHl]; intros w0 e1 w3 Hk; cbn [kids_loop] in Hk; [discriminate| |eauto].
        apply wbind_inv in Hk as [(? & ? & _ & Hk) | (? & Hk & _)]; [eauto|].
        apply modify_node_wset in Hk as (? & _ & [=] & _). }
      eapply NE; eauto. }
  assert (HoleInv T w2 x f hole /\ Under w w2 (m_root x) /\ Eff w2 cur s /\ HoleSide w2 cur hole /\
          exists n2, w_nodes w2 cur = Some n2 /\ n_parent n2 = n_parent n /\ n_files n2 = n_files n) as (HI2 & U2 & Hs2 & HS2 & n2 & Hn2 & Pp2 & Ff2).
  { destruct (negb (sp =? 0)) eqn:Esp.
    - assert (split_ok T n) as Hsplit by (exists sp; split; auto; apply Bool.negb_true_iff, N.eqb_neq in Esp; exact Esp).
      destruct (kids_loop_spec x f hole cur s (n_content n) w n (OK u) w2) as (HIk & Uk & (ME & MK) & OK2); auto.
      { intros c Hc. exists n. split; auto. }
      assert (w_nodes w2 cur = w_nodes w cur) as Ecur.
      { apply OK2. intros Hin. assert (lists w cur cur) as Hl by (exists n; split; auto).
        eapply not_own_parent; eauto. apply (c_up _ C). exact Hl. }
      split; auto. split; auto. split; [apply ME; auto|]. split.
      + intros h Eh. destruct (HS h Eh) as (hn0 & p & Hhn0 & Hp0 & Hi & [->|(qn & Hqn & Hq0)]).
        * destruct (un_kept _ _ _ Uk _ _ Hhn0) as (hn & Hhn & Pp & _). exists hn, cur. repeat split; auto; try congruence. constructor.
        * exfalso. assert (qn = n) by congruence. subst qn. destruct Hsplit as (sv & Hsv & Hnz). congruence.
      + exists n. rewrite Ecur. auto.
    - apply wret_inv in H2 as (_ & ->). split; auto. split; [apply under_refl|]. split; auto. split; auto. exists n. auto. }
  clear H2.
  assert (Core w2) as C2 by (eapply under_core; eauto).
  assert (In x (w_models w2)) as Hx2 by (rewrite (un_models _ _ _ U2); auto).
  assert (Reach w2 (m_root x) cur) as Hrc2 by (apply (under_reach _ _ _ _ _ U2); auto).
  (* parent_splittable *)
  apply wbind_inv in H as [(ps & w3 & H3 & H) | (e0 & H3 & _)].
  2:{ exfalso. apply parent_splittable_spec in H3 as (_ & [(Hp & _)|[(m & _ & [=])|(p & pn & sv & _ & _ & _ & [=])]]).
      destruct (root_node _ _ C Hx) as (rn & k & Hrn & Hrp).
      destruct (reach_cases _ _ _ Hrc) as [->|(q & _ & Hl)]; [congruence|].
      destruct (c_up _ C _ _ Hl) as (cn & Hcn & Hcp). congruence. }
  apply parent_splittable_spec in H3 as (-> & Hps).
  (* the element itself *)
  apply wbind_inv in H as [(u3 & w3 & H3 & H) | (e0 & H3 & _)].
  2:{ exfalso. destruct (ps || local); [apply modify_node_wset in H3 as (? & _ & [=] & _)|discriminate]. }
  assert (exists hole3, HoleInv T w3 x f hole3 /\ Under w2 w3 (m_root x) /\
            (forall pi, n_parent n = PElem pi -> hole3 <> Some pi /\ HoleSide w3 pi hole3) /\
            (forall m, n_parent n = PModel m ->
               hole3 = Some cur /\ exists n3, w_nodes w3 cur = Some n3 /\ n_parent n3 = PModel m))
    as (hole3 & HI3 & U3 & HS3 & HR3).
  { destruct (ps || local) eqn:Eupd.
    - apply modify_files_fset in H3 as (_ & -> & _).
      exists (Some cur). split.
      + eapply hole_extend; eauto.
        * destruct local eqn:El.
          -- left. rewrite Ff2. destruct (proj1 Hloc eq_refl) as (n0 & Hn0 & Hne0). congruence.
          -- right. rewrite Bool.orb_false_r in Eupd. subst ps. intros p pn Hp Hpn. rewrite Pp2 in Hp.
             destruct Hps as [(Hp0 & _)|[(m & Hpm & _)|(p0 & pn0 & sv & Hp0 & Hpn0 & Hsv & E)]]; try congruence.
             assert (p0 = p) by congruence. subst p0. assert (pn0 = pn) by congruence. subst pn0.
             exists sv. split; auto. injection E as E. symmetry in E. apply Bool.negb_true_iff, N.eqb_neq in E. exact E.
        * intros h hn p Eh Hhn Hp. destruct (HS2 h Eh) as (hn' & p' & Hhn' & Hp' & Hi & _).
          assert (hn' = hn) by congruence. subst hn'. assert (p' = p) by congruence. subst p'. exact Hi.
      + split; [apply under_fset; auto|]. split.
        * intros pi Hpi. split.
          -- intros [= E]. eapply (not_own_parent w cur pi); eauto. exists n; auto.
          -- intros h [= <-]. exists (set_files n2 (set_add f s)), pi.
             rewrite (fset_eq _ _ _ _ Hn2). cbn. repeat split; auto; try congruence. constructor.
        * intros m Hm. split; auto. exists (set_files n2 (set_add f s)). rewrite (fset_eq _ _ _ _ Hn2). cbn. split; auto. congruence.
    - apply wret_inv in H3 as (_ & ->). apply Bool.orb_false_iff in Eupd as (-> & ->).
      destruct Hps as [(Hp0 & _ & [=])|[(m & _ & [=])|(p0 & pn0 & sv & Hp0 & Hpn0 & Hsv & E)]].
      injection E as E. symmetry in E. apply Bool.negb_false_iff, N.eqb_eq in E. subst sv.
      assert (n_files n = []) as Hempty.
      { destruct (n_files n) eqn:Ee; auto. exfalso. assert (false = true) as Ab; [|discriminate].
        apply Hloc. exists n. split; auto. congruence. }
      exists hole. split; auto. split; [apply under_refl|]. split; [|intros m Hm; congruence].
      intros pi Hpi. assert (pi = p0) by congruence. subst pi.
      assert (par w2 cur p0) as Hpar2 by (exists n2; split; auto; congruence).
      split.
      + intros Eh. destruct (HS2 p0 Eh) as (hn & p & Hhn & Hp & Hi & _).
        assert (AncS w2 cur p0) as Ha by (eapply A_up; [exists hn; eauto | apply inh_ancs; auto]).
        eapply ancs_par_irrefl; eauto. apply (c_depth _ C2). exists n2; auto.
      + intros h Eh. destruct (HS2 h Eh) as (hn & p & Hhn & Hp & Hi & _). exists hn, p. repeat split; auto.
        * eapply inh_top; eauto; congruence.
        * right. exists pn0. auto. }
  assert (Core w3) as C3 by (eapply under_core; eauto).
  assert (In x (w_models w3)) as Hx3 by (rewrite (un_models _ _ _ U3); auto).
  (* up *)
  apply wbind_inv in H as [(p & w4 & H4 & H) | (e0 & H4 & _)].
  2:{ exfalso. unfold parent_of in H4. destruct (n_parent n) eqn:Hp; try discriminate.
      destruct Hps as [(_ & _ & [=])|[(m & Hpm & _)|(p0 & ? & ? & Hp0 & _)]]; congruence. }
  unfold parent_of in H4. destruct (n_parent n) as [|m|pi] eqn:Hp; try discriminate; apply wret_inv in H4 as ([= ->] & ->).
  - (* cur is the root: done *)
    apply wret_inv in H as (_ & ->). split; [|eapply under_trans; eauto].
    destruct (HR3 m eq_refl) as (-> & n3 & Hn3 & Hp3).
    eapply hole_close; eauto. intros hn p Hhn Hpp. congruence.
  - destruct (HS3 pi eq_refl) as (Hnp & HSp).
    assert (Reach w3 (m_root x) pi) as Hrp.
    { apply (under_reach _ _ _ _ _ U3). apply (under_reach _ _ _ _ _ U2).
      eapply reach_par; eauto. exists n; auto. }
    destruct (IH pi w3 r w' hole3 C3 Hx3 Hf Hrp HI3 Hnp HSp H) as (FI & U4).
    split; auto. eapply under_trans; [eauto|]. eapply under_trans; eauto.
Qed.

(* ---------- the model an element belongs to ---------- *)
Lemma nth_opt_error {A} (l : list A) k : nth_opt l k = nth_error l k.
Proof. revert k. induction l as [|a l IH]; intros [|k]; cbn; auto. Qed.

Lemma model_walk_top fuel : forall i w m w', model_walk fuel i w = Val (OK m, w') ->
  exists r rn, AncS w r i /\ w_nodes w r = Some rn /\ n_parent rn = PModel m.
Proof.
  induction fuel as [|fuel IH]; intros i w m w' H; cbn [model_walk] in H; [discriminate|].
  apply wbind_inv in H as [(n & w1 & H1 & H) | (e0 & H1 & [=])].
  apply get_node_inv in H1 as (n' & Hn & [= <-] & ->).
  destruct (n_parent n) as [|m0|p] eqn:Hp.
  - discriminate.
  - apply wret_inv in H as ([= ->] & _). exists i, n. split; [constructor|auto].
  - destruct (IH _ _ _ _ H) as (r & rn & Ha & Hr & Hrp). exists r, rn. split; auto.
    eapply A_up; eauto. exists n; auto.
Qed.

Lemma ancs_reach w r i : (forall c p, par w c p -> lists w p c) -> allocated w r -> AncS w r i -> Reach w r i.
Proof.
  intros NO Hr H. induction H as [|i p Hp Ha IH]; [constructor; auto|]. eapply R_kid; eauto.
Qed.

Lemma model_of_reach e w m w' : TreeInv w -> model_of e w = Val (OK m, w') ->
  exists x, nth_opt (w_models w) (N.to_nat m) = Some x /\ In x (w_models w) /\ Reach w (m_root x) e.
Proof.
  intros (C & NO & RO) H. unfold model_of in H.
  apply wbind_inv in H as [(w0 & w1 & H1 & H) | (e0 & H1 & [=])]. apply wget_inv in H1 as ([= ->] & ->).
  destruct (model_walk_top _ _ _ _ _ H) as (r & rn & Ha & Hr & Hp).
  pose proof (RO _ _ _ Hr Hp) as Hroot. unfold roots in Hroot.
  destruct (nth_error (w_models w) (N.to_nat m)) as [x|] eqn:Hx.
  2:{ rewrite nth_error_map, Hx in Hroot. discriminate. }
  rewrite nth_error_map, Hx in Hroot. injection Hroot as <-.
  exists x. rewrite nth_opt_error. split; auto. split; [eapply nth_error_In; eauto|].
  apply ancs_reach; auto. exists rn; auto.
Qed.

(* ---------- models that are not touched ---------- *)
Lemma reach_ancs_root w r i : Core w -> Reach w r i -> AncS w r i.
Proof.
  intros C H. induction H as [H|p c Hp IH Hl]; [constructor|]. eapply A_up; eauto. apply (c_up _ C). exact Hl.
Qed.

Lemma two_tops w r1 r2 i : (forall p, ~ par w r1 p) -> (forall p, ~ par w r2 p) -> AncS w r1 i -> AncS w r2 i -> r1 = r2.
Proof.
  intros N1 N2 H1. revert r2 N2. induction H1 as [|i p Hp Ha IH]; intros r2 N2 H2.
  - destruct H2 as [|x q Hq Hb]; [reflexivity|]. exfalso. eapply N1; eauto.
  - destruct H2 as [|x q Hq Hb].
    + exfalso. eapply N2; eauto.
    + assert (q = p) by (eapply par_fun; eauto). subst. eapply IH; eauto.
Qed.

Lemma reach_one_root w x y i : Core w -> In x (w_models w) -> In y (w_models w) ->
  Reach w (m_root x) i -> Reach w (m_root y) i -> m_root x = m_root y.
Proof.
  intros C Hx Hy H1 H2. apply (two_tops w (m_root x) (m_root y) i).
  - intros p. apply root_no_par; auto.
  - intros p. apply root_no_par; auto.
  - apply reach_ancs_root; eauto.
  - apply reach_ancs_root; eauto.
Qed.

Lemma under_other w w' x y : Core w -> Under w w' (m_root x) -> In x (w_models w) -> In y (w_models w) ->
  m_root y <> m_root x -> FilesInvM T w y -> FilesInvM T w' y.
Proof.
  intros C U Hx Hy Hne [A B S D].
  assert (forall i, Reach w (m_root y) i -> w_nodes w' i = w_nodes w i) as Same.
  { intros i Hr. apply (un_out _ _ _ U). intros Hr'. apply Hne. symmetry. eapply reach_one_root; eauto. }
  assert (forall i s, Eff w i s -> Reach w (m_root y) i -> Eff w' i s) as Tr.
  { intros i s He. induction He as [i n Hn Hf | i n p s Hn Hf Hp He IH]; intros Hr.
    - constructor; auto. rewrite Same; auto.
    - eapply Eff_up; eauto; [rewrite Same; auto|]. apply IH. eapply reach_par; eauto. exists n; auto. }
  pose proof (fun i => proj1 (under_reach _ _ _ (m_root y) i U)) as RB.
  constructor.
  - intros i n Hr Hn. apply RB in Hr. rewrite Same in Hn; auto. apply (A i n); auto.
  - intros i n p Hr Hn Hf Hp. apply RB in Hr. rewrite Same in Hn; auto.
    destruct (B i n p Hr Hn Hf Hp) as (s & Hs & Hi). exists s. split; auto. apply Tr; auto.
    eapply reach_par; eauto. exists n; auto.
  - intros i n p pn Hr Hn Hf Hp Hpn. apply RB in Hr. rewrite Same in Hn; auto.
    assert (Reach w (m_root y) p) as Hrp by (eapply reach_par; eauto; exists n; auto).
    rewrite Same in Hpn; auto. apply (S i n p pn); auto.
  - intros Hf i Hr. apply RB in Hr. destruct (D Hf i Hr) as (s & Hs). exists s. apply Tr; auto.
Qed.

(* in a well-formed world two entries of the model list with the same root are the same entry *)
Lemma same_root_same_model w x y : Core w -> In x (w_models w) -> In y (w_models w) -> m_root x = m_root y -> x = y.
Proof.
  intros C Hx Hy E. apply In_nth_error in Hx as (k1 & H1). apply In_nth_error in Hy as (k2 & H2).
  assert (nth_error (roots w) k1 = Some (m_root x)) as R1 by (unfold roots; rewrite nth_error_map, H1; reflexivity).
  assert (nth_error (roots w) k2 = Some (m_root y)) as R2 by (unfold roots; rewrite nth_error_map, H2; reflexivity).
  destruct (c_roots _ C _ _ R1) as (n1 & Hn1 & Hp1). destruct (c_roots _ C _ _ R2) as (n2 & Hn2 & Hp2).
  rewrite E in Hn1. assert (n1 = n2) by congruence. subst.
  assert (N.of_nat k1 = N.of_nat k2) as Ek by congruence. apply Nnat.Nat2N.inj in Ek. subst. congruence.
Qed.

(* everything together: an update confined to model x that re-establishes x's invariant keeps FilesInv *)
Lemma under_all w w' x : Core w -> In x (w_models w) -> Under w w' (m_root x) -> FilesInv T w -> FilesInvM T w' x -> FilesInv T w'.
Proof.
  intros C Hx U FI FIx y Hy. rewrite (un_models _ _ _ U) in Hy.
  destruct (N.eq_dec (m_root y) (m_root x)) as [E|Hne].
  - assert (y = x) by (eapply same_root_same_model; eauto). subst. exact FIx.
  - eapply under_other; eauto.
Qed.

(* ---------- Element::add_to_file ---------- *)
Theorem add_to_file_inv e f w r w' :
  TreeInv w -> FilesInv T w -> Known_add_foreign w (OpAddToFile e f) = false ->
  e_add_to_file T e f w = Val (r, w') -> FilesInv T w'.
Proof.
  intros TI FI HK H. pose proof TI as (C & _). unfold e_add_to_file in H.
  apply wbind_inv in H as [(n & w1 & H1 & H) | (e0 & H1 & _)]; [|apply get_node_inv in H1 as (? & _ & [=] & _)].
  apply get_node_inv in H1 as (n' & Hn & [= <-] & ->).
  apply wbind_inv in H as [(ps & w1 & H1 & H) | (e0 & H1 & _)].
  2:{ apply parent_splittable_spec in H1 as (-> & _). exact FI. }
  apply parent_splittable_spec in H1 as (-> & Hps).
  destruct ps; cbn [negb] in H; [|apply wfail_inv in H as (_ & ->); exact FI].
  apply wbind_inv in H as [(fm & w1 & H1 & H) | (e0 & H1 & _)].
  2:{ assert (w' = w) as -> by (refine ((_ : ro (file_model f)) _ _ _ H1); ro_tac). exact FI. }
  assert (w1 = w) as -> by (refine ((_ : ro (file_model f)) _ _ _ H1); ro_tac).
  unfold file_model in H1.
  apply wbind_inv in H1 as [(fl & w1 & H0 & H1) | (e0 & H0 & [=])].
  apply get_file_inv in H0 as (fl' & Hfl & [= <-] & ->). apply wret_inv in H1 as ([= ->] & _).
  apply wbind_inv in H as [(m & w1 & H1 & H) | (e0 & H1 & _)].
  2:{ assert (w' = w) as -> by (refine ((_ : ro (model_of e)) _ _ _ H1); ro_tac). exact FI. }
  assert (w1 = w) as -> by (refine ((_ : ro (model_of e)) _ _ _ H1); ro_tac).
  destruct (f_model fl =? m) eqn:Em; cbn [negb] in H; [|apply wfail_inv in H as (_ & ->); exact FI].
  destruct (model_of_reach _ _ _ _ TI H1) as (x & Hxm & Hx & Hre).
  assert (In f (m_files x)) as Hf.
  { unfold Known_add_foreign, model_of_b, model_b in HK. rewrite H1, Hfl, Em, Hxm in HK. cbn in HK.
    apply Bool.negb_false_iff in HK. apply set_mem_in. exact HK. }
  apply wbind_inv in H as [([loc cur] & w1 & H2 & H) | (e0 & H2 & _)].
  2:{ assert (w' = w) as -> by (refine ((_ : ro (file_membership e)) _ _ _ H2); ro_tac). exact FI. }
  destruct (file_membership_spec _ _ _ _ _ H2) as (-> & Hcur & _). clear H2.
  destruct (set_mem f cur) eqn:Hmem; [apply wret_inv in H as (_ & ->); exact FI|].
  apply wbind_inv in H as [(u & w1 & H2 & H) | (e0 & H2 & _)]; [|apply modify_node_wset in H2 as (? & _ & [=] & _)].
  apply modify_files_fset in H2 as (_ & -> & _).
  pose proof (FI x Hx) as FIx.
  assert (HoleInv T (fset w e (set_add f cur)) x f (Some e)) as HI1.
  { eapply hole_extend; eauto.
    - apply hole_of_inv. exact FIx.
    - right. intros p pn Hp Hpn.
      destruct Hps as [(Hp0 & _)|[(m0 & Hpm & _)|(p0 & pn0 & sv & Hp0 & Hpn0 & Hsv & E)]]; try congruence.
      assert (p0 = p) by congruence. subst p0. assert (pn0 = pn) by congruence. subst pn0.
      exists sv. split; auto. injection E as E. symmetry in E. apply Bool.negb_true_iff, N.eqb_neq in E. exact E.
    - intros h hn p [=].
    - discriminate. }
  assert (Under w (fset w e (set_add f cur)) (m_root x)) as U1 by (apply under_fset; auto).
  apply wbind_inv in H as [(p & w1 & H2 & H) | (e0 & H2 & _)].
  2:{ unfold parent_of in H2. destruct (n_parent n) eqn:Hp; try discriminate.
      destruct Hps as [(_ & _ & [=])|[(m0 & Hpm & _)|(p0 & ? & ? & Hp0 & _)]]; congruence. }
  unfold parent_of in H2. destruct (n_parent n) as [|m0|pi] eqn:Hp; try discriminate; apply wret_inv in H2 as ([= ->] & ->).
  - apply wret_inv in H as (_ & ->). apply (under_all w (fset w e (set_add f cur)) x); auto.
    eapply hole_close; eauto. intros hn p Hhn Hpp. rewrite (fset_eq _ _ _ _ Hn) in Hhn. injection Hhn as <-. cbn in Hpp. congruence.
  - apply wbind_inv in H as [(w0 & w1 & H2 & H) | (e0 & H2 & _)]; [|apply wget_inv in H2 as ([=] & _)].
    apply wget_inv in H2 as ([= ->] & ->).
    assert (Core (fset w e (set_add f cur))) as C1 by (apply fset_core; auto).
    destruct (atfr_spec x f (fuel_of (fset w e (set_add f cur))) pi (fset w e (set_add f cur)) r w' (Some e) C1) as (FIx' & U2); auto.
    + rewrite fset_models. auto.
    + apply fset_reach. eapply reach_par; eauto. exists n; auto.
    + intros [= E]. eapply (not_own_parent w e pi); eauto. exists n; auto.
    + intros h [= <-]. exists (set_files n (set_add f cur)), pi. rewrite (fset_eq _ _ _ _ Hn). cbn.
      repeat split; auto. constructor.
    + apply (under_all w w' x); auto. eapply under_trans; eauto.
Qed.

(* ---------- AutosarModel::create_file ---------- *)
Lemma in_list_set {A} (l : list A) k v y : In y (list_set l k v) -> y = v \/ In y l.
Proof.
  revert k. induction l as [|a l IH]; intros [|k] H; cbn in *; auto.
  - destruct H as [<-|H]; auto.
  - destruct H as [<-|H]; auto. destruct (IH _ H); auto.
Qed.
Lemma list_set_in {A} (l : list A) k v x : nth_opt l k = Some x -> In v (list_set l k v).
Proof. revert k. induction l as [|a l IH]; intros [|k] H; cbn in *; try discriminate; eauto. Qed.

Lemma nodes_eff w w' i s : (forall j, w_nodes w' j = w_nodes w j) -> Eff w i s -> Eff w' i s.
Proof.
  intros H. induction 1 as [i n Hn Hf | i n p s Hn Hf Hp He IH].
  - constructor; auto. rewrite H. exact Hn.
  - eapply Eff_up; eauto. rewrite H. exact Hn.
Qed.
Lemma nodes_reach w w' r i : (forall j, w_nodes w' j = w_nodes w j) -> Reach w r i -> Reach w' r i.
Proof.
  intros H. induction 1 as [(n & Hn)|p c Hp IH (pn & Hpn & Hc)].
  - constructor. exists n. rewrite H. exact Hn.
  - eapply R_kid; eauto. exists pn. rewrite H. auto.
Qed.

(* the same nodes, a model record with the same root and a larger file list *)
Lemma inv_more_files w w' x x' :
  (forall j, w_nodes w' j = w_nodes w j) -> m_root x' = m_root x -> incl (m_files x) (m_files x') ->
  (m_files x' <> [] -> m_files x <> []) -> FilesInvM T w x -> FilesInvM T w' x'.
Proof.
  intros Hn Hr Hi Hne [A B S D].
  assert (forall j, w_nodes w j = w_nodes w' j) as Hn' by (intros j; symmetry; apply Hn).
  assert (forall i, Reach w' (m_root x') i -> Reach w (m_root x) i) as RB by (intros i Hi'; rewrite <- Hr; eapply nodes_reach; eauto).
  constructor.
  - intros i n Hri Hi'. rewrite Hn in Hi'. eapply incl_tran; [eapply A; eauto|exact Hi].
  - intros i n p Hri Hi' Hf Hp. rewrite Hn in Hi'. destruct (B i n p (RB _ Hri) Hi' Hf Hp) as (s & Hs & Hin).
    exists s. split; auto. eapply nodes_eff; eauto.
  - intros i n p pn Hri Hi' Hf Hp Hpn. rewrite Hn in Hi', Hpn. apply (S i n p pn); auto.
  - intros Hf i Hri. destruct (D (Hne Hf) i (RB _ Hri)) as (s & Hs). exists s. eapply nodes_eff; eauto.
Qed.

(* with s = [] the loop over the children changes nothing when all of them have empty sets *)
Lemma kids_loop_nil : forall l w r w',
  (forall c cn, In c (elems l) -> w_nodes w c = Some cn -> n_files cn = []) ->
  kids_loop [] l w = Val (r, w') -> w_next w' = w_next w /\ w_models w' = w_models w /\ w_files w' = w_files w /\ forall i, w_nodes w' i = w_nodes w i.
Proof.
  induction l as [|[c|d] l IH]; intros w r w' He H; cbn [kids_loop] in H.
  - apply wret_inv in H as (_ & ->). auto.
  - apply wbind_inv in H as [(u & w1 & H1 & H) | (e & H1 & _)]; [|apply modify_node_wset in H1 as (? & _ & [=] & _)].
    apply modify_node_wset in H1 as (cn & Hcn & _ & ->).
    assert (n_files cn = []) as Hf by (eapply He; eauto; cbn; auto).
    assert ((if is_empty (n_files cn) then set_files cn [] else cn) = cn) as E.
    { rewrite Hf. cbn. rewrite <- Hf at 1. apply set_files_eta. }
    rewrite E in H. pose proof (weq_wset_same _ _ _ Hcn) as (N & M & F & Hn).
    destruct (IH _ _ _ (fun c0 cn0 Hc0 Hcn0 => He c0 cn0 (or_intror Hc0) ltac:(rewrite <- Hn; exact Hcn0)) H) as (N2 & M2 & F2 & Hn2).
    repeat split; try congruence.
  - eapply IH; eauto.
Qed.

Lemma in_list_set_pos {A} (l : list A) k v y : In y (list_set l k v) -> y = v \/ exists j, j <> k /\ nth_error l j = Some y.
Proof.
  revert k. induction l as [|a l IH]; intros [|k] H; cbn in *; try tauto.
  - destruct H as [<-|H]; auto. right. apply In_nth_error in H as (j & Hj). exists (S j). split; auto.
  - destruct H as [<-|H]; [right; exists O; split; auto|].
    destruct (IH _ H) as [->|(j & Hj & Hy)]; auto. right. exists (S j). split; auto.
Qed.

Lemma diff_pos_diff_root w j k y x : Core w -> nth_error (w_models w) j = Some y -> nth_error (w_models w) k = Some x ->
  j <> k -> m_root y <> m_root x.
Proof.
  intros C Hy Hx Hne E.
  assert (nth_error (roots w) j = Some (m_root y)) as R1 by (unfold roots; rewrite nth_error_map, Hy; reflexivity).
  assert (nth_error (roots w) k = Some (m_root x)) as R2 by (unfold roots; rewrite nth_error_map, Hx; reflexivity).
  destruct (c_roots _ C _ _ R1) as (n1 & Hn1 & Hp1). destruct (c_roots _ C _ _ R2) as (n2 & Hn2 & Hp2).
  rewrite E in Hn1. assert (n1 = n2) by congruence. subst.
  assert (N.of_nat j = N.of_nat k) as Ek by congruence. apply Nnat.Nat2N.inj in Ek. contradiction.
Qed.

Lemma under_all' w w' x : Core w -> In x (w_models w) -> Under w w' (m_root x) ->
  (forall y, In y (w_models w) -> m_root y <> m_root x -> FilesInvM T w y) -> FilesInvM T w' x -> FilesInv T w'.
Proof.
  intros C Hx U FI FIx y Hy. rewrite (un_models _ _ _ U) in Hy.
  destruct (N.eq_dec (m_root y) (m_root x)) as [E|Hne].
  - assert (y = x) by (eapply same_root_same_model; eauto). subst. exact FIx.
  - eapply under_other; eauto.
Qed.

Theorem create_file_inv m name version w r w' :
  TreeInv w -> FilesInv T w -> m_create_file T m name version w = Val (r, w') -> FilesInv T w'.
Proof.
  intros TI FI H. pose proof TI as (C & _). unfold m_create_file in H.
  apply wbind_inv in H as [(x & w1 & H1 & H) | (e0 & H1 & _)]; [|apply get_model_inv in H1 as (? & _ & [=] & _)].
  apply get_model_inv in H1 as (x' & Hx & [= <-] & ->).
  apply wbind_inv in H as [(w0 & w1 & H1 & H) | (e0 & H1 & _)]; [|apply wget_inv in H1 as ([=] & _)].
  apply wget_inv in H1 as ([= ->] & ->).
  destruct (existsb _ (m_files x)); [apply wfail_inv in H as (_ & ->); exact FI|].
  set (fid := N.of_nat (List.length (w_files w))) in *.
  apply wbind_inv in H as [(u & w1 & H1 & H) | (e0 & H1 & _)]; [|discriminate].
  injection H1 as _ <-.
  apply wbind_inv in H as [(u2 & w2 & H2 & H) | (e0 & H2 & _)]; [|apply modify_model_inv in H2 as (? & _ & [=] & _)].
  apply modify_model_inv in H2 as (x0 & Hx0 & _ & ->). cbn in Hx0. assert (x0 = x) by congruence. subst x0.
  set (x2 := set_mfiles x (m_files x ++ [fid])) in *.
  match type of H with wbind wget _ ?W = _ => set (w2 := W) in * end.
  apply wbind_inv in H as [(w0 & w3 & H3 & H) | (e0 & H3 & _)]; [|apply wget_inv in H3 as ([=] & _)].
  apply wget_inv in H3 as ([= ->] & ->).
  apply wbind_inv in H as [(o & w3 & H3 & H) | (e0 & H3 & _)]; [|apply wtry_inv in H3 as (? & _ & [=])].
  apply wret_inv in H as (_ & Ew). subst w3. apply wtry_inv in H3 as (r0 & H3 & _).
  assert (In x (w_models w)) as Hxin by (eapply nth_opt_In; eauto).
  pose proof (FI x Hxin) as FIx.
  assert (forall j, w_nodes w2 j = w_nodes w j) as Hn2 by reflexivity.
  assert (same_tree w w2) as ST.
  { repeat split; auto. unfold roots, w2. cbn. apply list_set_map. intros y Hy. rewrite <- nth_opt_error in Hy.
    assert (y = x) by congruence. subst. reflexivity. }
  assert (Core w2) as C2 by (eapply Core_same_tree; eauto).
  assert (In x2 (w_models w2)) as Hx2 by (unfold w2; cbn; eapply list_set_in; eauto).
  assert (In fid (m_files x2)) as Hfid by (unfold x2; cbn; apply in_or_app; right; cbn; auto).
  assert (forall y, In y (w_models w2) -> m_root y <> m_root x2 -> FilesInvM T w2 y) as Others.
  { intros y Hy Hne. unfold w2 in Hy. cbn in Hy. apply in_list_set_pos in Hy as [->|(j & Hj & Hy)]; [congruence|].
    apply (inv_more_files w w2 y y); auto; try apply incl_refl. apply FI. eapply nth_error_In; eauto. }
  assert (incl (m_files x) (m_files x2)) as Hincl by (intros g Hg; unfold x2; cbn; apply in_or_app; left; exact Hg).
  destruct (m_files x) as [|g0 fs] eqn:Hfiles.
  2:{ (* the model already has files *)
      assert (FilesInvM T w2 x2) as FI2.
      { apply (inv_more_files w w2 x x2); auto.
        - rewrite Hfiles. exact Hincl.
        - intros _. congruence. }
      destruct (atfr_spec x2 fid (fuel_of w2) (m_root x) w2 r0 w' None C2) as (FI' & U'); auto.
      - constructor. destruct (root_node _ _ C Hxin) as (rn & k & Hrn & _). exists rn. exact Hrn.
      - apply hole_of_inv. exact FI2.
      - discriminate.
      - intros h [=].
      - apply (under_all' w2 w' x2); auto. }
  (* the first file of the model: nobody has a set yet *)
  assert (forall i n, Reach w (m_root x) i -> w_nodes w i = Some n -> n_files n = []) as Empty.
  { intros i n Hr Hn. pose proof (fi_sub _ _ _ FIx i n Hr Hn) as Hi. rewrite Hfiles in Hi.
    destruct (n_files n) as [|g l]; auto. exfalso. apply (Hi g). left. reflexivity. }
  assert (forall i s, Reach w (m_root x) i -> ~ Eff w i s) as NoEff.
  { intros i s Hr He. destruct (Eff_owner _ _ _ He) as (a & na & Ha & Hna & Hs & Hne).
    apply Hne. rewrite <- Hs. apply (Empty a na); auto. eapply reach_ancs; eauto. }
  destruct (root_node _ _ C Hxin) as (rn & k & Hrn & Hrp).
  assert (Reach w (m_root x) (m_root x)) as Hrr by (constructor; exists rn; auto).
  unfold fuel_of in H3. rewrite atfr_unfold in H3.
  apply wbind_inv in H3 as [(fm & w3 & H4 & H3) | (e0 & H4 & _)]; [|apply wtry_inv in H4 as (? & _ & [=])].
  apply wtry_inv in H4 as (r1 & H4 & E1). injection E1 as ->.
  destruct r1 as [[loc s]|e1].
  { exfalso. destruct (file_membership_spec _ _ _ _ _ H4) as (_ & He & _).
    eapply NoEff; eauto. eapply nodes_eff; [|exact He]. intros j. reflexivity. }
  assert (w3 = w2) as -> by (refine ((_ : ro (file_membership (m_root x))) _ _ _ H4); ro_tac). clear H4.
  cbn [set_mem existsb] in H3.
  apply wbind_inv in H3 as [(n & w3 & H4 & H3) | (e0 & H4 & _)]; [|apply get_node_inv in H4 as (? & _ & [=] & _)].
  apply get_node_inv in H4 as (n' & Hn & [= <-] & ->). rewrite Hn2 in Hn. assert (n = rn) by congruence. subst n.
  apply wbind_inv in H3 as [(sp & w3 & H4 & H3) | (e0 & H4 & _)]; [|apply wl_inv in H4 as (? & _ & [=] & _)].
  apply wl_inv in H4 as (sp' & Hsp & [= <-] & ->).
  apply wbind_inv in H3 as [(u3 & w3 & H4 & H3) | (e0 & H4 & _)].
  2:{ exfalso. destruct (negb (sp =? 0)); [|discriminate].
      assert (forall l w0 e9 w4, kids_loop [] l w0 = Val (ER e9, w4) -> False) as NE.
      { induction l as [|[c|d] l IHl]; intros w0 e9 w4 Hk; cbn [kids_loop] in Hk; [discriminate| |eauto].
        apply wbind_inv in Hk as [(? & ? & _ & Hk) | (? & Hk & _)]; [eauto|].
        apply modify_node_wset in Hk as (? & _ & [=] & _). }
      eapply NE; eauto. }
  assert (w_next w3 = w_next w2 /\ w_models w3 = w_models w2 /\ w_files w3 = w_files w2 /\ forall i, w_nodes w3 i = w_nodes w2 i)
    as E3.
  { destruct (negb (sp =? 0)).
    - eapply kids_loop_nil; eauto. intros c cn Hc Hcn. rewrite Hn2 in Hcn. apply (Empty c cn); auto.
      apply (R_kid w (m_root x) (m_root x) c); auto. exists rn. split; auto.
    - apply wret_inv in H4 as (_ & ->). auto. }
  clear H4. destruct E3 as (N3 & M3 & F3 & Hn3).
  apply wbind_inv in H3 as [(ps & w4 & H4 & H3) | (e0 & H4 & _)].
  2:{ exfalso. apply parent_splittable_spec in H4 as (_ & [(Hp & _)|[(m0 & _ & [=])|(p & pn & sv & Hp & _)]]); congruence. }
  apply parent_splittable_spec in H4 as (-> & [(Hp & _)|[(m0 & _ & [= ->])|(p & pn & sv & Hp & _)]]); try congruence.
  cbn [orb] in H3.
  apply wbind_inv in H3 as [(u4 & w4 & H4 & H3) | (e0 & H4 & _)]; [|apply modify_node_wset in H4 as (? & _ & [=] & _)].
  apply modify_files_fset in H4 as (_ & -> & _).
  unfold parent_of in H3. rewrite Hrp in H3.
  apply wbind_inv in H3 as [(p & w4 & H4 & H3) | (e0 & H4 & _)]; [|discriminate].
  apply wret_inv in H4 as ([= ->] & ->). apply wret_inv in H3 as (_ & ->).
  cbn [set_add].
  (* the resulting world *)
  set (w4 := fset w3 (m_root x) [fid]).
  assert (w_nodes w3 (m_root x) = Some rn) as Hrn3 by (rewrite Hn3, Hn2; auto).
  assert (forall i, i <> m_root x -> w_nodes w4 i = w_nodes w i) as Hoth by (intros i Hi; unfold w4; rewrite fset_neq, Hn3, Hn2; auto).
  assert (w_nodes w4 (m_root x) = Some (set_files rn [fid])) as Hroot4 by (unfold w4; apply fset_eq; auto).
  assert (weq w2 w3) as E23 by (repeat split; auto).
  assert (Under w2 w4 (m_root x2)) as U4.
  { eapply under_trans; [apply under_weq; eauto|]. apply under_fset.
    apply (reach_same_tree w w3); auto. eapply same_tree_trans; eauto. apply weq_same_tree. auto. }
  assert (forall i, Reach w4 (m_root x) i -> Reach w (m_root x) i) as RB.
  { intros i Hi. apply (under_reach _ _ _ _ _ U4) in Hi. eapply reach_same_tree; [apply same_tree_sym; eauto|exact Hi]. }
  apply (under_all' w2 w4 x2); auto.
  constructor.
  - intros i n Hr Hi. destruct (N.eq_dec i (m_root x)) as [->|Hne].
    + assert (n = set_files rn [fid]) by congruence. subst. cbn. intros g [<-|[]]. exact Hfid.
    + rewrite Hoth in Hi; auto. assert (n_files n = []) as -> by (apply (Empty i n); auto; apply RB; exact Hr). intros g [].
  - intros i n p Hr Hi Hf Hp. exfalso. destruct (N.eq_dec i (m_root x)) as [->|Hne].
    + assert (n = set_files rn [fid]) by congruence. subst. cbn in Hp. congruence.
    + rewrite Hoth in Hi; auto. apply Hf. apply (Empty i n); auto; apply RB; exact Hr.
  - intros i n p pn Hr Hi Hf Hp. exfalso. destruct (N.eq_dec i (m_root x)) as [->|Hne].
    + assert (n = set_files rn [fid]) by congruence. subst. cbn in Hp. congruence.
    + rewrite Hoth in Hi; auto. apply Hf. apply (Empty i n); auto; apply RB; exact Hr.
  - intros _ i Hr. exists [fid]. cbn in Hr. induction Hr as [Hr|p c Hp IH Hl].
    + replace [fid] with (n_files (set_files rn [fid])) by reflexivity. constructor; auto. cbn. discriminate.
    + destruct (N.eq_dec c (m_root x)) as [->|Hne].
      * replace [fid] with (n_files (set_files rn [fid])) by reflexivity. constructor; auto. cbn. discriminate.
      * assert (Core w4) as C4 by (eapply under_core; eauto).
        destruct (c_up _ C4 _ _ Hl) as (cn & Hcn & Hcp).
        eapply Eff_up; eauto. rewrite Hoth in Hcn; auto. apply (Empty c cn); auto; apply RB; eapply R_kid; eauto.
Qed.

End Add.
