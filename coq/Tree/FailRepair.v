(* Tree/FailRepair.v — C11: what validate-before-mutate would need for the three Known11 classes (no change of the model:
   Ops.v mirrors the code as it is; these are statements ABOUT it).
     K11_setref_precheck     PROVED: whenever set_reference_target fails late, the very text write that failed would have
                             failed in the UNMODIFIED world with nothing written (raw_set_character_data validates before
                             it writes and its verdict depends on the element's type, the number of its content items and
                             the value only).  So performing the text write BEFORE the DEST attribute and the
                             referrer-map update makes the call atomic.
     move_noname_check /     the two read-only checks that would have to run before `detach_from` in move_element_local /
     move_refs_check         move_element_full (definitions; their sufficiency is argued in the header of Tree/Fail.v and
                             confirmed by the characterisation C11_known_characterised: a late failure is either
                             ElementNotIdentifiable from make_unique_item_name or IncorrectContentType from a referrer
                             rewrite):
                               (a) the moved element, if identifiable by structure, has an item name;
                               (b) every referrer of a path of the moved subtree accepts the text it will get - or,
                                   simpler and sufficient, the referrers are written directly (content[0] := text) as
                                   set_item_name does, which cannot fail. *)
From AV Require Import Base.Bytes Base.Outcome Hash.HashModel Tree.Heap Tree.Ops Tree.Script
  Tree.FailProofsBase Tree.FailProofsOps Tree.Fail Tree.FailProofsLate.
Open Scope string_scope.
Open Scope list_scope.
Open Scope N_scope.

Section Repair.
Variable T : tables.
Variable tab_el tab_en : nametab.
Variable check_fn : N -> list N -> res bool.
Variable LATEST : N.

(* the verdict of the validated text write depends on the node's type and content only *)
Lemma rscd_err_transfer i v ver w1 w2 n1 n2 e w2' :
  w_nodes w1 i = Some n1 -> w_nodes w2 i = Some n2 -> n_type n2 = n_type n1 -> n_content n2 = n_content n1 ->
  raw_set_character_data T check_fn i v ver w2 = Val (ER e, w2') ->
  raw_set_character_data T check_fn i v ver w1 = Val (ER e, w1).
Proof.
  intros H1 H2 Ht Hc H. unfold raw_set_character_data in *.
  unfold wbind at 1. unfold get_node at 1. rewrite H1.
  wer H; [|noer]. winvs. assert (n = n2) by congruence. subst n. rewrite Ht, Hc in H.
  wer H; [|noer]. winvs. unfold wbind at 1. unfold wl, wlift. rewrite Hv.
  match type of H with (if ?b then _ else _) _ = _ => destruct b end;
    [|apply wfail_inv in H as ([= <-] & _); reflexivity].
  wer H; [|noer]. winvs. unfold wbind at 1. rewrite Hv0.
  match goal with Hx : chardata_spec T (n_type n1) = Val ?sp |- _ => destruct sp as [cs|] end;
    [|apply wfail_inv in H as ([= <-] & _); reflexivity].
  wer H; [|noer]. winvs. unfold wbind at 1. rewrite Hv1.
  match goal with Hx : check_value check_fn v cs ver = Val ?b |- _ => destruct b end;
    [exfalso; noer|apply wfail_inv in H as ([= <-] & _); reflexivity].
Qed.

Lemma nodes_fix_ro m a b e w r w' : fix_reference_origins m a b e w = Val (r, w') -> w_nodes w' = w_nodes w.
Proof.
  unfold fix_reference_origins. destruct (bytes_eqb a b); [intros H; apply wret_inv in H as (_ & ->); reflexivity|].
  intros H. apply modify_model_inv in H as (x & _ & _ & ->). reflexivity.
Qed.
Lemma nodes_add_ro m a e w r w' : add_reference_origin m a e w = Val (r, w') -> w_nodes w' = w_nodes w.
Proof. unfold add_reference_origin. intros H. apply modify_model_inv in H as (x & _ & _ & ->). reflexivity. Qed.

(* set_reference_target: a late failure is the failure of a write that could have been attempted first *)
Theorem K11_setref_precheck h target w e w' :
  e_set_reference_target T tab_el tab_en check_fn LATEST h target w = Val (ER e, w') ->
  w' = w \/
  (e = IncorrectContentType /\
   exists new_ref version,
     path_id T target w = Val (OK new_ref, w) /\ min_version LATEST h w = Val (OK version, w) /\
     raw_set_character_data T check_fn h (DString new_ref) version w = Val (ER IncorrectContentType, w)).
Proof.
  intros H. unfold e_set_reference_target in H.
  wer H; [|left; reflexivity]. winvs. wer H; [|left; reflexivity]. winvs.
  match type of H with (if ?b then _ else _) _ = _ => destruct b end; [winvs; left; reflexivity|].
  wer H; [|left; reflexivity]. match goal with E : path_id T target w = _ |- _ => rename E into Epath end.
  wer H; [|left; reflexivity]. winvs. wer H; [|left; reflexivity]. winvs.
  wer H; [|left; reflexivity].
  match type of H with (match ?x with _ => _ end) _ = _ => destruct x as [item|] end; [|winvs; left; reflexivity].
  wer H; [|left; reflexivity]. wer H; [|left; reflexivity].
  match goal with E : min_version LATEST h w = _ |- _ => rename E into Ever end.
  wer H; [|noer].
  match goal with E : wtry _ _ = Val _ |- _ => apply wtry_inv in E as ([u|e0] & Et & Q); injection Q as -> end.
  2:{ left. apply nf_raw_set_attribute in Et. subst. winvs. reflexivity. }
  right.
  (* the attribute write: node h keeps its type and content *)
  unfold raw_set_attribute in Et. wok Et. winvs. wok Et. winvs.
  match type of Et with (match ?x with _ => _ end) _ = _ => destruct x as [[[[q1 q2] q3] q4]|] end; [|discriminate Et].
  match type of Et with (if ?b then _ else _) _ = _ => destruct b end; [discriminate Et|].
  wok Et. winvs.
  match type of Et with (if ?b then _ else _) _ = _ => destruct b end; [|discriminate Et].
  apply set_node_inv in Et as (_ & ->).
  same_nodes. match goal with Hx : w_nodes w h = Some ?x |- _ => pose (nh := x); pose proof (Hx : w_nodes w h = Some nh) as Hnh end.
  wer H; [|noer]. winvs. wer H; [|noer]. wer H; [|noer].
  rename H into Efail.
  match goal with E : _ ?wa = Val (OK _, w0) |- _ =>
    assert (Hn03 : w_nodes w0 = w_nodes wa)
      by (destruct a2 as [[| s0 | |]|]; first [exact (nodes_fix_ro _ _ _ _ _ _ _ E) | exact (nodes_add_ro _ _ _ _ _ _ E)]) end.
  assert (Hw3 : exists n3, w_nodes w0 h = Some n3 /\ n_type n3 = n_type nh /\ n_content n3 = n_content nh).
  { rewrite Hn03. cbn [w_nodes]. rewrite upd_eq. eexists. split; [reflexivity|split; reflexivity]. }
  destruct Hw3 as (n3 & Hn3 & Ht3 & Hc3).
  pose proof (rscd_err_transfer h _ _ w _ nh n3 _ _ Hnh Hn3 Ht3 Hc3 Efail) as Hin_w.
  apply raw_set_character_data_err in Efail as (-> & _). split; [reflexivity|].
  eexists _, _. split; [exact Epath|]. split; [exact Ever|]. exact Hin_w.
Qed.

(* the read-only check (a) for the two move classes, as an executable predicate of the unmodified world: the moved
   element is not "identifiable by structure without an item name".  (b) has no such simple form - the new text depends on
   the name make_unique_item_name chooses - which is why the direct write of set_item_name is the better repair. *)
Definition move_noname_check (w : world) (mv : id) : bool :=
  match w_nodes w mv with
  | Some mn =>
    match is_identifiable T mn w, item_name T mn w with
    | Val (OK true, _), Val (OK None, _) => false
    | _, _ => true
    end
  | None => true
  end.

End Repair.
