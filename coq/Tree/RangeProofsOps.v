(* Tree/RangeProofsOps.v — C07 proofs, layer 3: creation succeeds exactly inside the reported range, the listing of
   list_valid_sub_elements says exactly what can be created, and successful creation keeps the child list ordered. *)
From Coq Require Import Arith.
From AV Require Import Base.Bytes Base.Outcome Hash.HashModel Spec.SpecOps Tree.Heap Tree.Ops Tree.Script Tree.Inv Tree.InvProofsBase
  Tree.Range Tree.RangeProofsPath Tree.SpecWF Tree.RangeProofsLoop Tree.RangeProofsCalc Tree.ValidSubs.
Open Scope list_scope.
Open Scope N_scope.

Lemma insert_at_ins {A} (l : list A) k x : insert_at l k x = ins l k x.
Proof. revert k. induction l as [|y l IH]; intros [|k]; cbn [insert_at ins]; try reflexivity; try (rewrite IH; reflexivity). Qed.

Section OpsProofs.
Variable T : tables.
Variable LATEST : N.

(* the range never exceeds the content (no table fact needed): Vec::insert cannot panic *)
Lemma range_loop_bound ty v new : forall l idx s e w lo hi w',
  s <= e <= idx -> range_loop T ty v new l idx s e w = Val (OK (lo, hi), w') -> lo <= hi <= idx + N.of_nat (List.length l).
Proof.
  induction l as [|c l IH]; intros idx s e w lo hi w' He H.
  - cbn [range_loop] in H. apply wret_inv in H as [[= <- <-] _]. cbn [List.length]. lia.
  - cbn [List.length]. rewrite Nat2N.inj_succ.
    destruct c as [c|d]; cbn [range_loop] in H.
    + unfold wbind, get_node, wl, wlift in H.
      destruct (w_nodes w c) as [cn|]; [|discriminate]. cbn beta iota in H.
      assert (G : forall (ex1 : option (etype * list N)) w1,
                 match ex1 with
                 | None => range_loop T ty v new l (idx + 1) s e
                 | Some (_, ex_idx) =>
                   (do g <- wl (find_common_group T ty new ex_idx);
                    do gd <- wl (dt T g);
                    let mode := dt_mode gd in
                    if mode =? MSequence then
                      match lex_cmp new ex_idx with
                      | Lt => wret (s, e)
                      | Eq => do c <- wl (repeat_conflict T ty new);
                              if c then wfail ElementInsertionConflict
                              else range_loop T ty v new l (idx + 1) s (idx + 1)
                      | Gt => range_loop T ty v new l (idx + 1) (idx + 1) (idx + 1)
                      end
                    else if mode =? MChoice then
                      if list_eqbN new ex_idx then
                        do c <- wl (repeat_conflict T ty new);
                        if c then wfail ElementInsertionConflict
                        else range_loop T ty v new l (idx + 1) s (idx + 1)
                      else wfail ElementInsertionConflict
                    else if (mode =? MBag) || (mode =? MMixed) then
                      range_loop T ty v new l (idx + 1) s (idx + 1)
                    else wpanic "elementraw.rs calc_element_insert_range: unreachable!()")%W
                 end w1 = Val (OK (lo, hi), w') -> lo <= hi <= idx + 1 + N.of_nat (List.length l)).
      { intros [[et ex]|] w1 H1.
        - unfold wbind, wl, wlift in H1.
          destruct (find_common_group T ty new ex) as [g| |]; try discriminate. cbn beta iota in H1.
          destruct (dt T g) as [gd| |]; try discriminate. cbn beta iota in H1.
          destruct (dt_mode gd =? MSequence).
          { destruct (lex_cmp new ex).
            - destruct (repeat_conflict T ty new) as [[|]| |]; try discriminate. cbn beta iota in H1. apply IH in H1; lia.
            - apply wret_inv in H1 as [[= <- <-] _]. lia.
            - apply IH in H1; lia. }
          destruct (dt_mode gd =? MChoice).
          { destruct (list_eqbN new ex); [|discriminate].
            destruct (repeat_conflict T ty new) as [[|]| |]; try discriminate. cbn beta iota in H1. apply IH in H1; lia. }
          destruct ((dt_mode gd =? MBag) || (dt_mode gd =? MMixed)); [|discriminate].
          apply IH in H1; lia.
        - apply IH in H1; lia. }
      destruct (find_sub_element T ty (n_name cn) v) as [[x|]| |]; try discriminate; cbn beta iota in H.
      * unfold wret at 1 in H. cbn beta iota in H. apply (G (Some x) w) in H. lia.
      * destruct (find_sub_element T ty (n_name cn) 4294967295) as [ex1| |]; try discriminate. cbn beta iota in H.
        apply (G ex1 w) in H. lia.
    + apply IH in H; lia.
Qed.

Lemma calc_bound n name v w lo hi w' :
  calc_element_insert_range T n name v w = Val (OK (lo, hi), w') -> lo <= hi <= N.of_nat (List.length (n_content n)).
Proof.
  intros H. destruct (calc_cases T _ _ _ _ _ _ H) as (d & Hd & [(_ & X & _) | [(_ & _ & X & _) | (NC & new & EX & Hcase)]]); try discriminate.
  destruct Hcase as [(_ & HR & _) | (_ & HR)].
  - injection HR as -> ->. lia.
  - apply range_loop_bound in HR; lia.
Qed.

Lemma calc_ro n name v w r w' : calc_element_insert_range T n name v w = Val (r, w') -> w' = w.
Proof. apply (ro_calc_range T). Qed.

(* ------------------------------------------------------------------ create_sub_element_at *)
(* the world after a successful creation of a `name` child of type et at position pos of h *)
Definition after_create (w : world) (h : id) (n : node) (name pos : N) (et : etype) : world :=
  let c := w_next w in
  mkWorld (upd (upd (w_nodes w) c (new_node (PElem h) name et)) h
               (set_content n (insert_at (n_content n) (N.to_nat pos) (CElem c))))
          (c + 1) (w_files w) (w_models w).

Section Create.
Variables (h : id) (n : node) (v name : N) (w : world).
Hypothesis Hn : w_nodes w h = Some n.
Hypothesis Hfresh : w_nodes w (w_next w) = None.
Hypothesis Hv : min_version LATEST h w = Val (OK v, w).

Lemma h_not_fresh : (h =? w_next w) = false.
Proof. apply N.eqb_neq. intros E. rewrite <- E in Hfresh. congruence. Qed.

Lemma create_at_unfold pos :
  e_create_sub_element_at T LATEST h name pos w =
  match calc_element_insert_range T n name v w with
  | Val (OK (s, e), w1) =>
    if (s <=? pos) && (pos <=? e) then create_sub_element_inner T h name pos v w1 else Val (ER InvalidPosition, w1)
  | Val (ER er, w1) => Val (ER er, w1)
  | Pan st => Pan st
  | Fuel => Fuel
  end.
Proof.
  unfold e_create_sub_element_at, wbind. rewrite Hv. unfold raw_create_sub_element_at, wbind, get_node. rewrite Hn.
  destruct (calc_element_insert_range T n name v w) as [[[[s e]|er] w1]| |]; try reflexivity.
  destruct ((s <=? pos) && (pos <=? e)); reflexivity.
Qed.

Lemma create_at_err pos er w1 :
  calc_element_insert_range T n name v w = Val (ER er, w1) ->
  e_create_sub_element_at T LATEST h name pos w = Val (ER er, w).
Proof. intros H. rewrite create_at_unfold, H. apply calc_ro in H. subst. reflexivity. Qed.

Lemma create_at_outside pos lo hi w1 :
  calc_element_insert_range T n name v w = Val (OK (lo, hi), w1) -> ~ (lo <= pos <= hi) ->
  e_create_sub_element_at T LATEST h name pos w = Val (ER InvalidPosition, w).
Proof.
  intros H Hp. rewrite create_at_unfold, H. apply calc_ro in H. subst.
  replace ((lo <=? pos) && (pos <=? hi)) with false; [reflexivity|].
  symmetry. apply andb_false_iff. destruct (lo <=? pos) eqn:E1; [|left; reflexivity]. right.
  apply N.leb_le in E1. apply N.leb_gt. lia.
Qed.

Lemma create_at_inside pos lo hi w1 et ix nv :
  calc_element_insert_range T n name v w = Val (OK (lo, hi), w1) -> lo <= pos <= hi ->
  find_sub_element T (n_type n) name v = Val (Some (et, ix)) -> is_named_in_version T et v = Val nv ->
  e_create_sub_element_at T LATEST h name pos w =
  if nv then Val (ER ItemNameRequired, w) else Val (OK (w_next w), after_create w h n name pos et).
Proof.
  intros H Hp Hf Hnv. rewrite create_at_unfold, H. pose proof (calc_bound _ _ _ _ _ _ _ H) as Hb. apply calc_ro in H. subst.
  replace ((lo <=? pos) && (pos <=? hi)) with true by (symmetry; apply andb_true_iff; split; apply N.leb_le; lia).
  unfold create_sub_element_inner, wbind, get_node, wl, wlift. rewrite Hn, Hf, Hnv.
  destruct nv; [reflexivity|].
  unfold alloc, content_insert, wbind, get_node. cbn [w_nodes w_next].
  unfold upd at 1. rewrite h_not_fresh, Hn.
  replace (N.of_nat (List.length (n_content n)) <? pos) with false by (symmetry; apply N.ltb_ge; lia).
  unfold set_node, wret. cbn [w_nodes w_next w_files w_models]. reflexivity.
Qed.

(* names of allocated nodes are kept *)
Lemma after_create_names pos et i cn :
  w_nodes w i = Some cn -> exists cn', w_nodes (after_create w h n name pos et) i = Some cn' /\ n_name cn' = n_name cn.
Proof.
  intros Hi. unfold after_create. cbn [w_nodes]. unfold upd.
  destruct (i =? h) eqn:E1.
  - apply N.eqb_eq in E1. subst i. rewrite Hn in Hi. injection Hi as <-. eexists. split; [reflexivity|reflexivity].
  - destruct (i =? w_next w) eqn:E2.
    + apply N.eqb_eq in E2. subst i. congruence.
    + eauto.
Qed.

Lemma items_of_frame (w2 : world) l items :
  (forall i cn, w_nodes w i = Some cn -> exists cn', w_nodes w2 i = Some cn' /\ n_name cn' = n_name cn) ->
  items_of w l = Some items -> items_of w2 l = Some items.
Proof.
  intros F. revert items. induction l as [|c l IH]; intros items; cbn [items_of]; [auto|].
  destruct (item_of w c) as [x|] eqn:EI; [|discriminate]. destruct (items_of w l) as [xs|]; [|discriminate].
  intros [= <-]. rewrite (IH xs eq_refl).
  destruct c as [i|d]; cbn [item_of] in *; [|injection EI as <-; reflexivity].
  destruct (w_nodes w i) as [cn|] eqn:EN; [|discriminate]. injection EI as <-.
  destruct (F _ _ EN) as (cn' & -> & ->). reflexivity.
Qed.

Lemma items_of_insert (w2 : world) l items k c x :
  items_of w2 l = Some items -> item_of w2 c = Some x ->
  items_of w2 (insert_at l k c) = Some (ins items k x).
Proof.
  revert items k. induction l as [|y l IH]; intros items k; cbn [items_of].
  - intros [= <-] Hc. destruct k; cbn [insert_at ins items_of]; rewrite Hc; reflexivity.
  - destruct (item_of w2 y) as [iy|] eqn:EY; [|discriminate]. destruct (items_of w2 l) as [xs|] eqn:EL; [|discriminate].
    intros [= <-] Hc. destruct k as [|k]; cbn [insert_at ins items_of].
    + rewrite Hc, EY, EL. reflexivity.
    + rewrite EY, (IH xs k eq_refl Hc). reflexivity.
Qed.

Lemma items_after_create pos et items :
  items_of w (n_content n) = Some items ->
  exists n', w_nodes (after_create w h n name pos et) h = Some n' /\ n_type n' = n_type n /\
    items_of (after_create w h n name pos et) (n_content n') = Some (ins items (N.to_nat pos) (Some name)).
Proof.
  intros HI. eexists. split.
  - unfold after_create. cbn [w_nodes]. unfold upd at 1. rewrite N.eqb_refl. reflexivity.
  - split; [reflexivity|]. cbn [n_content set_content].
    apply items_of_insert.
    + apply items_of_frame; [|exact HI]. intros i cn Hi. apply after_create_names. exact Hi.
    + unfold after_create. cbn [item_of w_nodes]. unfold upd. rewrite (N.eqb_sym (w_next w) h), h_not_fresh, N.eqb_refl. reflexivity.
Qed.

Lemma create_at_success_inv pos c w' :
  e_create_sub_element_at T LATEST h name pos w = Val (OK c, w') ->
  exists lo hi et ix,
    calc_element_insert_range T n name v w = Val (OK (lo, hi), w) /\ lo <= pos <= hi /\
    find_sub_element T (n_type n) name v = Val (Some (et, ix)) /\ is_named_in_version T et v = Val false /\
    c = w_next w /\ w' = after_create w h n name pos et.
Proof.
  intros H.
  destruct (calc_element_insert_range T n name v w) as [[[[lo hi]|er] w1]| |] eqn:EC.
  - pose proof (calc_ro _ _ _ _ _ _ EC) as ->.
    destruct (calc_cases T _ _ _ _ _ _ EC) as (d & Hd & [(_ & X & _) | [(_ & _ & X & _) | (NC & new & EX & _)]]); try discriminate.
    apply idx_of_find in EX as (et & EF).
    assert (Hp : lo <= pos <= hi).
    { destruct (N.le_gt_cases lo pos) as [L1|G1]; [destruct (N.le_gt_cases pos hi) as [L2|G2]; [lia|]|].
      - rewrite (create_at_outside pos lo hi w EC) in H by lia. discriminate.
      - rewrite (create_at_outside pos lo hi w EC) in H by lia. discriminate. }
    destruct (is_named_in_version T et v) as [nv| |] eqn:ENV.
    + rewrite (create_at_inside pos lo hi w et new nv EC Hp EF ENV) in H. destruct nv; [discriminate|].
      injection H as <- <-. exists lo, hi, et, new. repeat split; auto; lia.
    + rewrite create_at_unfold, EC in H.
      replace ((lo <=? pos) && (pos <=? hi)) with true in H by (symmetry; apply andb_true_iff; split; apply N.leb_le; lia).
      unfold create_sub_element_inner, wbind, get_node, wl, wlift in H. rewrite Hn, EF, ENV in H. discriminate.
    + rewrite create_at_unfold, EC in H.
      replace ((lo <=? pos) && (pos <=? hi)) with true in H by (symmetry; apply andb_true_iff; split; apply N.leb_le; lia).
      unfold create_sub_element_inner, wbind, get_node, wl, wlift in H. rewrite Hn, EF, ENV in H. discriminate.
  - rewrite (create_at_err pos er w1 EC) in H. discriminate.
  - rewrite create_at_unfold, EC in H. discriminate.
  - rewrite create_at_unfold, EC in H. discriminate.
Qed.

(* creation at the default position is creation at the end of the range *)
Lemma create_default_eq lo hi w1 :
  calc_element_insert_range T n name v w = Val (OK (lo, hi), w1) ->
  e_create_sub_element T LATEST h name w = e_create_sub_element_at T LATEST h name hi w.
Proof.
  intros EC. pose proof (calc_bound _ _ _ _ _ _ _ EC) as Hb.
  rewrite create_at_unfold, EC.
  replace ((lo <=? hi) && (hi <=? hi)) with true by (symmetry; apply andb_true_iff; split; apply N.leb_le; lia).
  unfold e_create_sub_element, wbind. rewrite Hv. unfold raw_create_sub_element, wbind, get_node. rewrite Hn, EC. reflexivity.
Qed.

Lemma create_default_err er w1 :
  calc_element_insert_range T n name v w = Val (ER er, w1) ->
  e_create_sub_element T LATEST h name w = Val (ER er, w).
Proof.
  intros EC. unfold e_create_sub_element, wbind. rewrite Hv. unfold raw_create_sub_element, wbind, get_node. rewrite Hn, EC.
  apply calc_ro in EC. subst. reflexivity.
Qed.

End Create.

(* ------------------------------------------------------------------ the op-level statements *)
Theorem create_iff_range h n v name w lo hi w1 et ix :
  w_nodes w h = Some n -> w_nodes w (w_next w) = None -> min_version LATEST h w = Val (OK v, w) ->
  calc_element_insert_range T n name v w = Val (OK (lo, hi), w1) ->
  find_sub_element T (n_type n) name v = Val (Some (et, ix)) -> is_named_in_version T et v = Val false ->
  forall pos, (exists c w', e_create_sub_element_at T LATEST h name pos w = Val (OK c, w')) <-> lo <= pos <= hi.
Proof.
  intros Hn Hf Hv EC EF ENV pos. split.
  - intros (c & w' & H). destruct (create_at_success_inv h n v name w Hn Hf Hv pos c w' H) as (lo' & hi' & _ & _ & EC' & Hp & _).
    rewrite EC in EC'. injection EC' as <- <- _. exact Hp.
  - intros Hp. rewrite (create_at_inside h n v name w Hn Hf Hv pos lo hi w1 et ix false EC Hp EF ENV). eauto.
Qed.

Theorem create_err_all_positions h n v name w er w1 :
  w_nodes w h = Some n -> min_version LATEST h w = Val (OK v, w) ->
  calc_element_insert_range T n name v w = Val (ER er, w1) ->
  forall pos, e_create_sub_element_at T LATEST h name pos w = Val (ER er, w).
Proof. intros Hn Hv EC pos. eapply create_at_err; eauto. Qed.

Section Inv.
Hypothesis WF : SpecWF T.

(* a successful create_sub_element_at keeps the child list of the parent in specification order *)
Theorem create_at_order_inv h n v name w pos c w' items :
  w_nodes w h = Some n -> w_nodes w (w_next w) = None -> min_version LATEST h w = Val (OK v, w) ->
  items_of w (n_content n) = Some items -> Ordered T (n_type n) v items ->
  e_create_sub_element_at T LATEST h name pos w = Val (OK c, w') ->
  exists n', w_nodes w' h = Some n' /\ n_type n' = n_type n /\
    items_of w' (n_content n') = Some (ins items (N.to_nat pos) (Some name)) /\
    Ordered T (n_type n) v (ins items (N.to_nat pos) (Some name)).
Proof.
  intros Hn Hf Hv HI HO H.
  destruct (create_at_success_inv h n v name w Hn Hf Hv pos c w' H) as (lo & hi & et & ix & EC & Hp & EF & ENV & -> & ->).
  destruct (items_after_create h n name w Hn Hf pos et items HI) as (n' & Hn' & Hty & HI').
  exists n'. split; [exact Hn'|]. split; [exact Hty|]. split; [exact HI'|].
  destruct (range_exact T WF n name v w lo hi w items HI HO EC) as (_ & _ & Hhi & Hiff).
  apply Hiff; lia.
Qed.

Theorem create_order_inv h n v name w c w' items :
  w_nodes w h = Some n -> w_nodes w (w_next w) = None -> min_version LATEST h w = Val (OK v, w) ->
  items_of w (n_content n) = Some items -> Ordered T (n_type n) v items ->
  e_create_sub_element T LATEST h name w = Val (OK c, w') ->
  exists n' items', w_nodes w' h = Some n' /\ n_type n' = n_type n /\
    items_of w' (n_content n') = Some items' /\ Ordered T (n_type n) v items'.
Proof.
  intros Hn Hf Hv HI HO H.
  destruct (calc_element_insert_range T n name v w) as [[[[lo hi]|er] w1]| |] eqn:EC.
  - rewrite (create_default_eq h n v name w Hn Hv lo hi w1 EC) in H.
    destruct (create_at_order_inv h n v name w hi c w' items Hn Hf Hv HI HO H) as (n' & A & B & C & D).
    exists n', (ins items (N.to_nat hi) (Some name)). auto.
  - rewrite (create_default_err h n v name w Hn Hv er w1 EC) in H. discriminate.
  - unfold e_create_sub_element, wbind in H. rewrite Hv in H. unfold raw_create_sub_element, wbind, get_node in H.
    rewrite Hn, EC in H. discriminate.
  - unfold e_create_sub_element, wbind in H. rewrite Hv in H. unfold raw_create_sub_element, wbind, get_node in H.
    rewrite Hn, EC in H. discriminate.
Qed.

(* removing any child keeps the order *)
Lemma all_pairs_ok_remove ty l k : all_pairs_ok T ty l = true -> all_pairs_ok T ty (remove_at l k) = true.
Proof.
  revert k. induction l as [|a l IH]; intros k H; [destruct k; exact H|].
  cbn [all_pairs_ok] in H. apply andb_true_iff in H as [H1 H2].
  destruct k as [|k]; cbn [remove_at]; [exact H2|].
  cbn [all_pairs_ok]. apply andb_true_iff. split; [|apply IH; exact H2].
  rewrite forallb_forall in *. intros x Hx. apply H1.
  clear - Hx. revert k Hx. induction l as [|y l IHl]; intros k Hx; [destruct k; destruct Hx|].
  destruct k as [|k]; cbn [remove_at] in Hx; [right; exact Hx|].
  destruct Hx as [<-|Hx]; [left; reflexivity | right; eapply IHl; eauto].
Qed.

Lemma opaths_remove ty v : forall items ol k, opaths T ty v items = Some ol -> opaths T ty v (remove_at items k) = Some (remove_at ol k).
Proof.
  induction items as [|[nm|] r IH]; intros ol k; cbn [opaths].
  - intros [= <-]. destruct k; reflexivity.
  - destruct (idx_of T ty v nm) as [ix|] eqn:EX; [|discriminate]. destruct (opaths T ty v r) as [l|] eqn:EO; [|discriminate].
    intros [= <-]. destruct k as [|k]; cbn [remove_at]; [exact EO|]. cbn [opaths]. rewrite EX, (IH l k eq_refl). reflexivity.
  - destruct (opaths T ty v r) as [l|] eqn:EO; [|discriminate]. cbn [option_map].
    intros [= <-]. destruct k as [|k]; cbn [remove_at]; [exact EO|]. cbn [opaths]. rewrite (IH l k eq_refl). reflexivity.
Qed.

Lemma somes_remove {A} : forall (ol : list (option A)) k, somes (remove_at ol k) = somes ol \/ exists j, somes (remove_at ol k) = remove_at (somes ol) j.
Proof.
  induction ol as [|[x|] r IH]; intros k.
  - left. destruct k; reflexivity.
  - destruct k as [|k]; cbn [remove_at].
    + right. exists 0%nat. reflexivity.
    + cbn [somes flat_map app]. change (flat_map _ (remove_at r k)) with (somes (remove_at r k)). change (flat_map _ r) with (somes r).
      destruct (IH k) as [E|(j & E)]; rewrite E; [left; reflexivity | right; exists (S j); reflexivity].
  - destruct k as [|k]; cbn [remove_at]; [left; reflexivity|].
    cbn [somes flat_map app]. apply IH.
Qed.

Theorem remove_order_inv ty v items k : Ordered T ty v items -> Ordered T ty v (remove_at items k).
Proof.
  unfold Ordered, orderedb. rewrite !paths_of_opaths.
  destruct (opaths T ty v items) as [ol|] eqn:EO; cbn [option_map]; [|discriminate].
  rewrite (opaths_remove ty v items ol k EO). cbn [option_map]. intros H.
  destruct (somes_remove ol k) as [E|(j & E)]; rewrite E; [exact H | apply all_pairs_ok_remove; exact H].
Qed.

End Inv.

(* ------------------------------------------------------------------ list_valid_sub_elements *)
Lemma valid_loop_spec n v : forall l w r w',
  valid_loop T n v l w = Val (OK r, w') ->
  w' = w /\ forall vi, In vi r ->
    exists r0, calc_element_insert_range T n (vi_name vi) v w = Val (r0, w) /\
               vi_allowed vi = match r0 with OK _ => true | ER _ => false end.
Proof.
  induction l as [|[[[name et] mask] nm] l IH]; intros w r w' H.
  - cbn [valid_loop] in H. apply wret_inv in H as [[= ->] ->]. split; [reflexivity|]. intros vi [].
  - cbn [valid_loop] in H. destruct (compatible v mask).
    + unfold wbind at 1 in H. unfold wcatch in H.
      destruct (calc_element_insert_range T n name v w) as [[r0 w1]| |] eqn:EC; try discriminate.
      pose proof (calc_ro _ _ _ _ _ _ EC) as ->.
      unfold wbind at 1 in H.
      destruct (valid_loop T n v l w) as [[[tl|er] w2]| |] eqn:EL; try discriminate.
      apply wret_inv in H as [[= ->] ->].
      destruct (IH _ _ _ EL) as [-> IH2]. split; [reflexivity|].
      intros vi [<-|Hin]; [|apply IH2; exact Hin]. cbn [vi_name vi_allowed]. exists r0. split; [exact EC|reflexivity].
    + apply IH. exact H.
Qed.

Theorem list_valid_spec h n v w r w' :
  w_nodes w h = Some n -> min_version LATEST h w = Val (OK v, w) ->
  list_valid_sub_elements T LATEST h w = Val (OK r, w') ->
  w' = w /\ forall vi, In vi r ->
    exists r0, calc_element_insert_range T n (vi_name vi) v w = Val (r0, w) /\
               vi_allowed vi = match r0 with OK _ => true | ER _ => false end.
Proof.
  intros Hn Hv H. unfold list_valid_sub_elements, wbind, get_node, wtry in H. rewrite Hn, Hv in H.
  unfold wlift in H. destruct (sub_element_spec_list T (n_type n)) as [l| |]; try discriminate.
  eapply valid_loop_spec; eauto.
Qed.

(* exactly the (not named) sub-elements reported as allowed can be created *)
Theorem allowed_iff_create h n v w r w' vi et ix :
  w_nodes w h = Some n -> w_nodes w (w_next w) = None -> min_version LATEST h w = Val (OK v, w) ->
  list_valid_sub_elements T LATEST h w = Val (OK r, w') -> In vi r ->
  find_sub_element T (n_type n) (vi_name vi) v = Val (Some (et, ix)) -> is_named_in_version T et v = Val false ->
  (vi_allowed vi = true <-> exists c w2, e_create_sub_element T LATEST h (vi_name vi) w = Val (OK c, w2)).
Proof.
  intros Hn Hf Hv HL Hin EF ENV.
  destruct (list_valid_spec h n v w r w' Hn Hv HL) as [_ HS]. destruct (HS vi Hin) as (r0 & EC & EA).
  destruct r0 as [[lo hi]|er].
  - rewrite EA. split; [intros _|reflexivity].
    rewrite (create_default_eq h n v (vi_name vi) w Hn Hv lo hi w EC).
    pose proof (calc_bound _ _ _ _ _ _ _ EC) as Hb.
    rewrite (create_at_inside h n v (vi_name vi) w Hn Hf Hv hi lo hi w et ix false EC ltac:(lia) EF ENV). eauto.
  - rewrite EA. split; [discriminate|]. intros (c & w2 & H).
    rewrite (create_default_err h n v (vi_name vi) w Hn Hv er w EC) in H. discriminate.
Qed.

End OpsProofs.

(* ------------------------------------------------------------------ named creation: only inside the range *)
Lemma create_named_at_only_in_range :
  forall (T : tables) (check_fn : N -> list N -> res bool) (LATEST : N)
         (h : id) (n : node) (m v name : N) (item : list N) (pos : N) (w : world) (c : id) (w' : world),
  w_nodes w h = Some n ->
  model_of h w = Val (OK m, w) -> min_version LATEST h w = Val (OK v, w) ->
  e_create_named_sub_element_at T check_fn LATEST h name item pos w = Val (OK c, w') ->
  exists lo hi et ix,
    calc_element_insert_range T n name v w = Val (OK (lo, hi), w) /\ lo <= pos <= hi /\ item <> [] /\
    find_sub_element T (n_type n) name v = Val (Some (et, ix)) /\ is_named_in_version T et v = Val true.
Proof.
  intros T check_fn LATEST h n m v name item pos w c w' Hn Hm Hv H.
  unfold e_create_named_sub_element_at, wbind in H. rewrite Hm, Hv in H.
  unfold raw_create_named_sub_element_at, wbind, get_node in H. rewrite Hn in H.
  destruct (calc_element_insert_range T n name v w) as [[[[lo hi]|er] w1]| |] eqn:EC; try discriminate.
  pose proof (calc_ro T _ _ _ _ _ _ EC) as ->.
  destruct ((lo <=? pos) && (pos <=? hi)) eqn:EP; [|discriminate].
  apply andb_true_iff in EP as [E1 E2]. apply N.leb_le in E1. apply N.leb_le in E2.
  unfold create_named_sub_element_inner in H.
  destruct item as [|i0 item']; [discriminate|]. cbn [is_empty] in H.
  unfold wbind at 1 in H. unfold get_node in H. rewrite Hn in H.
  unfold wbind at 1 in H. unfold wl, wlift in H.
  destruct (find_sub_element T (n_type n) name v) as [[[et ix]|]| |] eqn:EF; try discriminate.
  unfold wbind at 1 in H.
  destruct (is_named_in_version T et v) as [[|]| |] eqn:ENV; try discriminate.
  exists lo, hi, et, ix. repeat split; auto; discriminate.
Qed.

(* the three proved cases of the order invariant, as one statement (Properties/C07.v C07_order_inv_partial) *)
Lemma order_inv_partial :
  forall (T : tables) (LATEST : N), SpecWF T ->
  (forall (h : id) (n : node) (v name : N) (w : world) (pos : N) (c : id) (w' : world) (items : list (option N)),
     w_nodes w h = Some n -> w_nodes w (w_next w) = None ->
     min_version LATEST h w = Val (OK v, w) ->
     items_of w (n_content n) = Some items -> Ordered T (n_type n) v items ->
     e_create_sub_element_at T LATEST h name pos w = Val (OK c, w') ->
     exists n' : node,
       w_nodes w' h = Some n' /\ n_type n' = n_type n /\
       items_of w' (n_content n') = Some (ins items (N.to_nat pos) (Some name)) /\
       Ordered T (n_type n) v (ins items (N.to_nat pos) (Some name))) /\
  (forall (h : id) (n : node) (v name : N) (w : world) (c : id) (w' : world) (items : list (option N)),
     w_nodes w h = Some n -> w_nodes w (w_next w) = None ->
     min_version LATEST h w = Val (OK v, w) ->
     items_of w (n_content n) = Some items -> Ordered T (n_type n) v items ->
     e_create_sub_element T LATEST h name w = Val (OK c, w') ->
     exists (n' : node) (items' : list (option N)),
       w_nodes w' h = Some n' /\ n_type n' = n_type n /\
       items_of w' (n_content n') = Some items' /\ Ordered T (n_type n) v items') /\
  (forall (ty : etype) (v : N) (items : list (option N)) (k : nat),
     Ordered T ty v items -> Ordered T ty v (remove_at items k)).
Proof.
  intros T LATEST WF. split; [|split].
  - exact (create_at_order_inv T LATEST WF).
  - exact (create_order_inv T LATEST WF).
  - exact (remove_order_inv T).
Qed.
