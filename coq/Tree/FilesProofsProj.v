(* Tree/FilesProofsProj.v — C10 proofs, layer 1: what a file's text contains.
   Under FilesInv the serializer's filter (every node on the way passes) selects exactly the elements whose effective
   set contains the file; every element is selected for at least one file; ser_ids enumerates the selected set and
   ser_heap visits nothing else. *)
From Coq Require Import PeanoNat Arith Lia.
From AV Require Import Base.Bytes Base.Outcome Hash.HashModel Tree.Heap Tree.Ops Tree.Script Tree.Serialize
  Tree.Inv Tree.InvProofsBase Tree.InvProofsCore Tree.InvProofsTree Tree.Files Tree.FilesProofsBase.
Open Scope string_scope.
Open Scope list_scope.
Open Scope N_scope.

(* ------------------------------------------------------------------ reachability from a model root *)
Lemma root_node w x : Core w -> In x (w_models w) ->
  exists n k, w_nodes w (m_root x) = Some n /\ n_parent n = PModel k.
Proof.
  intros C Hx. assert (In (m_root x) (roots w)) as Hr by (unfold roots; apply in_map; exact Hx).
  apply In_nth_error in Hr as (k & Hk). destruct (c_roots _ C _ _ Hk) as (n & Hn & Hp). eauto.
Qed.

Lemma root_no_par w x p : Core w -> In x (w_models w) -> ~ par w (m_root x) p.
Proof.
  intros C Hx (n & Hn & Hp). destruct (root_node _ _ C Hx) as (n' & k & Hn' & Hp'). congruence.
Qed.

Lemma reach_cases w r i : Reach w r i -> i = r \/ exists p, Reach w r p /\ lists w p i.
Proof. destruct 1; eauto. Qed.

Lemma reach_alloc w r i : Core w -> Reach w r i -> allocated w i.
Proof.
  intros C H. destruct H as [H|p c Hp Hl]; auto.
  destruct (c_up _ C _ _ Hl) as (n & Hn & _). exists n; auto.
Qed.

(* the parent link of a reached element (other than a model root) points to a reached lister *)
Lemma reach_par w x i p : Core w -> In x (w_models w) -> Reach w (m_root x) i -> par w i p ->
  Reach w (m_root x) p /\ lists w p i.
Proof.
  intros C Hx Hr Hp. destruct (reach_cases _ _ _ Hr) as [->|(q & Hq & Hl)].
  - exfalso. eapply root_no_par; eauto.
  - pose proof (c_up _ C _ _ Hl) as Hp'. rewrite (par_fun _ _ _ _ Hp Hp'). auto.
Qed.

(* a reached element that is not the root has an element parent *)
Lemma reach_has_par w r i : Core w -> Reach w r i -> i <> r -> exists p, par w i p /\ Reach w r p /\ lists w p i.
Proof.
  intros C Hr Hne. destruct (reach_cases _ _ _ Hr) as [->|(q & Hq & Hl)]; [congruence|].
  exists q. repeat split; auto. apply c_up; auto.
Qed.

(* ancestors of a reached element, up to the root, are reached *)
Lemma reach_ancs w x i a : Core w -> In x (w_models w) -> Reach w (m_root x) i -> AncS w a i -> Reach w (m_root x) a.
Proof.
  intros C Hx Hr Ha. induction Ha as [|i p Hp Ha IH]; auto.
  apply IH. eapply reach_par; eauto.
Qed.

Lemma Eff_incl_files T w x i s : Core w -> In x (w_models w) -> FilesInvM T w x -> Reach w (m_root x) i -> Eff w i s ->
  incl s (m_files x).
Proof.
  intros C Hx F Hr He. destruct (Eff_owner _ _ _ He) as (a & n & Ha & Hn & <- & _).
  apply (fi_sub _ _ _ F a n); auto. eapply reach_ancs; eauto.
Qed.

Section Proj.
Variable T : tables.

Definition Recursible (w : world) : Prop := forall i n, w_nodes w i = Some n -> kids n <> [] -> recurses T n.

Lemma proj_reach w ff r i : Proj T w ff r i -> Reach w r i.
Proof.
  induction 1 as [H|p pn c cn Hp IH Hpn Hrec Hc Hcn Hpass]; [constructor; auto|].
  eapply R_kid; eauto. exists pn; auto.
Qed.

(* written to f => attributed to f *)
Lemma proj_attributed w x f : Core w -> In x (w_models w) -> Attributed w (m_root x) f ->
  forall i, Proj T w (Some f) (m_root x) i -> Attributed w i f.
Proof.
  intros C Hx Hroot i H. induction H as [H|p pn c cn Hp IH Hpn Hrec Hc Hcn Hpass]; auto.
  destruct IH as (s & Hs & Hf).
  assert (par w c p) as (cn' & Hcn' & Hpar) by (apply (c_up _ C); exists pn; auto).
  rewrite Hcn in Hcn'. injection Hcn' as <-.
  apply passes_some in Hpass as [He|Hin].
  - exists s. split; auto. eapply Eff_up; eauto.
  - exists (n_files cn). split; auto. constructor; auto. intros E. rewrite E in Hin. destruct Hin.
Qed.

(* attributed to f => written to f: needs (b) on the way up *)
Lemma attributed_proj w x f : Core w -> In x (w_models w) -> FilesInvM T w x -> Recursible w ->
  forall i, Reach w (m_root x) i -> Attributed w i f -> Proj T w (Some f) (m_root x) i.
Proof.
  intros C Hx F Hrec i Hr. induction Hr as [H|p c Hp IH Hl]; intros (s & Hs & Hf); [constructor; auto|].
  destruct Hl as (pn & Hpn & Hc).
  assert (par w c p) as (cn & Hcn & Hpar) by (apply (c_up _ C); exists pn; auto).
  assert (Reach w (m_root x) c) as Hrc by (eapply R_kid; eauto; exists pn; auto).
  assert (Attributed w p f /\ passes (Some f) cn = true) as (Hap & Hpass).
  { inversion Hs as [i n Hn Hne E1 E2 | i n q s' Hn He Hq Hs' E1 E2]; subst.
    - rewrite Hcn in Hn. injection Hn as <-.
      destruct (fi_par _ _ _ F c cn p Hrc Hcn Hne Hpar) as (sp & Hsp & Hincl).
      split; [exists sp; auto|]. apply passes_some. auto.
    - rewrite Hcn in Hn. injection Hn as <-. rewrite Hpar in Hq. injection Hq as <-.
      split; [exists s; auto|]. apply passes_some. auto. }
  eapply Proj_kid; eauto. apply (Hrec p pn Hpn). intros E. rewrite E in Hc. destruct Hc.
Qed.

(* every element of a model with files is written to at least one of the model's files *)
Lemma nothing_lost w x : Core w -> In x (w_models w) -> FilesInvM T w x -> Recursible w -> m_files x <> [] ->
  forall i, Reach w (m_root x) i -> exists f, In f (m_files x) /\ Proj T w (Some f) (m_root x) i.
Proof.
  intros C Hx F Hrec Hne i Hr.
  destruct (fi_eff _ _ _ F Hne i Hr) as (s & Hs).
  destruct s as [|f s'] eqn:E; [exfalso; eapply Eff_nonempty; eauto|]. rewrite <- E in Hs.
  exists f. split.
  - eapply (Eff_incl_files T); eauto. rewrite E. left. reflexivity.
  - eapply attributed_proj; eauto. exists s. split; auto. rewrite E. left. reflexivity.
Qed.

(* ------------------------------------------------------------------ ser_ids enumerates Proj *)
Lemma proj_top w ff i n c cn x :
  w_nodes w i = Some n -> recurses T n -> In c (kids n) -> w_nodes w c = Some cn -> passes ff cn = true ->
  Proj T w ff c x -> Proj T w ff i x.
Proof.
  intros Hn Hrec Hc Hcn Hpass H. induction H as [H|p pn y yn Hp IH Hpn Hrp Hy Hyn Hpy].
  - apply (Proj_kid T w ff i i n c cn); auto. constructor. exists n; auto.
  - apply (Proj_kid T w ff i p pn y yn); auto.
Qed.

Lemma proj_cases w ff i x : Proj T w ff i x ->
  x = i \/ exists n c cn, w_nodes w i = Some n /\ recurses T n /\ In c (kids n) /\ w_nodes w c = Some cn /\
                          passes ff cn = true /\ Proj T w ff c x.
Proof.
  induction 1 as [H|p pn y yn Hp IH Hpn Hrp Hy Hyn Hpy]; auto. right.
  destruct IH as [->|(n & c & cn & Hn & Hrec & Hc & Hcn & Hpass & Hpc)].
  - exists pn, y, yn. repeat split; auto. constructor. exists yn; auto.
  - exists n, c, cn. repeat split; auto. eapply Proj_kid; eauto.
Qed.

(* the inner loop of ser_ids as a function of the remaining content *)
Definition ids_subs (fl : nat) (w : world) (ff : option N) : list citem -> res (list id) :=
  fix subs (l : list citem) : res (list id) :=
    match l with
    | [] => Val []
    | CElem c :: l' =>
      match w_nodes w c with
      | None => Pan "dangling node id"
      | Some cn =>
        if passes ff cn then (let* a := ser_ids T fl w ff c in let* b := subs l' in Val (a ++ b))%res
        else subs l'
      end
    | CData _ :: l' => subs l'
    end.

Lemma ser_ids_unfold fl w ff i :
  ser_ids T (S fl) w ff i =
  match w_nodes w i with
  | None => Pan "dangling node id"
  | Some n =>
    match n_content n with
    | [] => Val [i]
    | _ :: _ =>
      (let* mode := content_mode T (n_type n) in
       if mode =? MCharacters then Val [i] else
       let* body := ids_subs fl w ff (n_content n) in Val (i :: body))%res
    end
  end.
Proof. reflexivity. Qed.

Lemma ids_subs_spec fl w ff
  (IH : forall c l, ser_ids T fl w ff c = Val l -> forall x, In x l <-> Proj T w ff c x) :
  forall l body, ids_subs fl w ff l = Val body ->
  forall x, In x body <-> exists c cn, In c (elems l) /\ w_nodes w c = Some cn /\ passes ff cn = true /\ Proj T w ff c x.
Proof.
  induction l as [|[c|d] l IHl]; intros body H x; cbn [ids_subs] in H.
  - injection H as <-. split; [intros []|intros (c & cn & [] & _)].
  - destruct (w_nodes w c) as [cn|] eqn:Hcn; [|discriminate].
    destruct (passes ff cn) eqn:Hp.
    + apply bind_val in H as (a & Ha & H). apply bind_val in H as (b & Hb & H). injection H as <-.
      rewrite in_app_iff, (IH _ _ Ha x), (IHl _ Hb x). rewrite elems_cons_elem. split.
      * intros [Hx|(c' & cn' & Hc' & R)]; [exists c, cn; cbn; auto | exists c', cn'; cbn; tauto].
      * intros (c' & cn' & [<-|Hc'] & Hn' & Hp' & Hx); [left; auto | right; exists c', cn'; auto].
    + rewrite (IHl _ H x), elems_cons_elem. split.
      * intros (c' & cn' & Hc' & R). exists c', cn'. cbn. tauto.
      * intros (c' & cn' & [<-|Hc'] & Hn' & Hp' & Hx); [congruence | exists c', cn'; auto].
  - rewrite elems_cons_data. apply IHl. exact H.
Qed.

Theorem ser_ids_proj fuel w ff : forall i l, ser_ids T fuel w ff i = Val l -> forall x, In x l <-> Proj T w ff i x.
Proof.
  induction fuel as [|fl IH]; intros i l H x; [discriminate|].
  rewrite ser_ids_unfold in H. destruct (w_nodes w i) as [n|] eqn:Hn; [|discriminate].
  assert (Proj T w ff i i) as Hself by (constructor; exists n; auto).
  assert (forall y, Proj T w ff i y -> kids n = [] \/ ~ recurses T n -> y = i) as Hleaf.
  { intros y Hy Hk. destruct (proj_cases _ _ _ _ Hy) as [->|(n' & c & cn & Hn' & Hrec & Hc & _)]; auto.
    assert (n' = n) by congruence. subst n'. destruct Hk as [Hk|Hk]; [rewrite Hk in Hc; destruct Hc | contradiction]. }
  destruct (n_content n) as [|it rest] eqn:Hc.
  - injection H as <-. split; [intros [<-|[]]; auto|]. intros Hy. left. symmetry. apply Hleaf; auto.
    left. unfold kids. rewrite Hc. reflexivity.
  - apply bind_val in H as (mode & Hm & H).
    destruct (mode =? MCharacters) eqn:Hch.
    + injection H as <-. split; [intros [<-|[]]; auto|]. intros Hy. left. symmetry. apply Hleaf; auto.
      right. intros (mode' & Hm' & Hf). congruence.
    + apply bind_val in H as (body & Hb & H). injection H as <-.
      assert (recurses T n) as Hrec by (exists mode; auto).
      cbn [In]. rewrite (ids_subs_spec fl w ff (IH) _ _ Hb x). split.
      * intros [<-|(c & cn & Hcin & Hcn & Hp & Hx)]; auto.
        eapply proj_top; eauto. unfold kids. rewrite Hc. exact Hcin.
      * intros Hy. destruct (proj_cases _ _ _ _ Hy) as [->|(n' & c & cn & Hn' & _ & Hcin & Hcn & Hp & Hx)]; auto.
        right. assert (n' = n) by congruence. subst n'. exists c, cn. repeat split; auto.
        unfold kids in Hcin. rewrite Hc in Hcin. exact Hcin.
Qed.

End Proj.

(* ------------------------------------------------------------------ ser_heap visits what ser_ids lists *)
Section Heap.
Variable T : tables.
Variable tab_el tab_at tab_en : nametab.
Variable float_fmt : N -> list N.

Let SH := ser_heap T tab_el tab_at tab_en float_fmt.

Definition heap_items (fl : nat) (w : world) (ff : option N) (indent : nat) : list citem -> res (list N) :=
  fix items (l : list citem) : res (list N) :=
    match l with
    | [] => Val []
    | CElem c :: l' =>
      match w_nodes w c with
      | None => Pan "dangling node id"
      | Some cn =>
        if passes ff cn then
          (let* a := SH fl w ff c (S indent) true in let* b := items l' in Val (a ++ b))%res
        else items l'
      end
    | CData d :: l' => (let* a := ser_cd tab_en float_fmt d in let* b := items l' in Val (a ++ b))%res
    end.

Definition heap_subs (fl : nat) (w : world) (ff : option N) (indent : nat) : list citem -> res (list N) :=
  fix subs (l : list citem) : res (list N) :=
    match l with
    | [] => Val []
    | CElem c :: l' =>
      match w_nodes w c with
      | None => Pan "dangling node id"
      | Some cn =>
        if passes ff cn then
          (let* a := SH fl w ff c (S indent) false in let* b := subs l' in Val (a ++ b))%res
        else subs l'
      end
    | CData _ :: l' => subs l'
    end.

Lemma ser_heap_unfold fl w ff i indent inline :
  SH (S fl) w ff i indent inline =
  match w_nodes w i with
  | None => Pan "dangling node id"
  | Some n =>
    (let* nm := unwrap "ElementName::to_str: STRING_TABLE index" (to_str tab_el (n_name n)) in
     let pre := Serializer.comment_part (n_comment n) indent inline ++ (if inline then [] else Serializer.newline_indent indent) in
     match n_content n with
     | [] => let* ats := ser_ats tab_at tab_en float_fmt (n_attrs n) in Val (pre ++ [60] ++ nm ++ ats ++ [47; 62])
     | first :: _ =>
       let* ats := ser_ats tab_at tab_en float_fmt (n_attrs n) in
       let* mode := content_mode T (n_type n) in
       let open_tag := [60] ++ nm ++ ats ++ [62] in
       let close_tag := [60; 47] ++ nm ++ [62] in
       if mode =? MCharacters then
         let* body := match first with CData d => ser_cd tab_en float_fmt d | CElem _ => Val [] end in
         Val (pre ++ open_tag ++ body ++ close_tag)
       else if mode =? MMixed then
         let* body := heap_items fl w ff indent (n_content n) in
         Val (pre ++ open_tag ++ body ++ close_tag)
       else
         let* body := heap_subs fl w ff indent (n_content n) in
         Val (pre ++ open_tag ++ body ++ Serializer.newline_indent indent ++ close_tag)
     end)%res
  end.
Proof. reflexivity. Qed.

Lemma heap_loop_ids fl w ff
  (IH : forall c indent inline s, SH fl w ff c indent inline = Val s -> exists l, ser_ids T fl w ff c = Val l) :
  forall l,
  (forall indent s, heap_items fl w ff indent l = Val s -> exists b, ids_subs T fl w ff l = Val b) /\
  (forall indent s, heap_subs fl w ff indent l = Val s -> exists b, ids_subs T fl w ff l = Val b).
Proof.
  induction l as [|[c|d] l (IH1 & IH2)]; split; intros indent s H; cbn [heap_items heap_subs ids_subs] in *; eauto.
  - destruct (w_nodes w c) as [cn|]; [|discriminate]. destruct (passes ff cn); [|eauto].
    apply bind_val in H as (a & Ha & H). apply bind_val in H as (b & Hb & _).
    destruct (IH _ _ _ _ Ha) as (la & ->). destruct (IH1 _ _ Hb) as (lb & ->). cbn. eauto.
  - destruct (w_nodes w c) as [cn|]; [|discriminate]. destruct (passes ff cn); [|eauto].
    apply bind_val in H as (a & Ha & H). apply bind_val in H as (b & Hb & _).
    destruct (IH _ _ _ _ Ha) as (la & ->). destruct (IH2 _ _ Hb) as (lb & ->). cbn. eauto.
  - apply bind_val in H as (a & Ha & H). apply bind_val in H as (b & Hb & _). eauto.
Qed.

(* whenever the serializer produces a text, the node set it visited is the one ser_ids computes *)
Theorem ser_heap_ids fuel w ff : forall i indent inline s,
  SH fuel w ff i indent inline = Val s -> exists l, ser_ids T fuel w ff i = Val l.
Proof.
  induction fuel as [|fl IH]; intros i indent inline s H; [discriminate|].
  rewrite ser_heap_unfold in H. rewrite ser_ids_unfold.
  destruct (w_nodes w i) as [n|]; [|discriminate].
  apply bind_val in H as (nm & _ & H).
  destruct (n_content n) as [|it rest] eqn:Hc; eauto.
  apply bind_val in H as (ats & _ & H). apply bind_val in H as (mode & -> & H). cbn [bind].
  destruct (mode =? MCharacters); eauto.
  destruct (heap_loop_ids fl w ff IH (it :: rest)) as (L1 & L2).
  destruct (mode =? MMixed); apply bind_val in H as (body & Hb & _).
  - destruct (L1 _ _ Hb) as (b & ->). cbn. eauto.
  - destruct (L2 _ _ Hb) as (b & ->). cbn. eauto.
Qed.

End Heap.
