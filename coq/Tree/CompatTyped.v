(* Tree/CompatTyped.v — the world invariant and the table fact under which the three classes K_recalc / K_mixup / K_skip of
   Tree/CompatSpec.v cannot occur.  DEFINITIONS ONLY (proofs: Tree/CompatProofs5.v; the table fact on the regenerated
   tables: Gen/CompatSweep*.v + Tree/CompatReal.v).

   Every specification lookup the compatibility walk and strict validation perform on an element type reads only its DATATYPE
   (the second component): find_sub_element, get_sub_element_version_mask, find_attribute_spec, chardata_spec.  So what matters is
   how the datatype an element is STORED with relates to the datatype strict loading assigns in the target version.

   Table fact PairOK: whenever one datatype lists a name in two version sets, the two listed types have the same datatype, or
   both datatypes have no sub-elements at all.  (Real tables: 281 such name/type pairs; all have the same datatype or are two
   character-data types.)
   World invariant Typed: every element hangs below the element that lists it, and its stored datatype is the one its parent's
   stored type lists for its name in SOME set of versions u (u within u32).  create_sub_element / create_named_sub_element /
   the loader establish this with u = the file version (the lenient loader with u = u32::MAX).  NOT preserved in general by
   move_element_here / create_copied_sub_element: they keep the element's stored type and only check that the destination
   lists the NAME (that is C07's subject, a document built that way does not load strictly in its own version either). *)
From AV Require Import Base.Bytes Base.Outcome Hash.HashModel Spec.SpecOps Spec.SpecProofs Tree.Heap Tree.Ops Tree.Compat Tree.CompatSpec.
Open Scope list_scope.
Open Scope N_scope.

Section Typed.
Variable T : tables.

(* the datatype has no sub-element entries *)
Definition leafb (ty : N) : bool :=
  match T_datatypes T ty with Some d => dt_sub_start d =? dt_sub_end d | None => false end.

(* two datatypes are interchangeable for everything below them *)
Definition rel_ok (a b : N) : bool := (a =? b) || (leafb a && leafb b).

Definition PairOK : Prop :=
  forall ty name u v et ixs et' ixs',
    find_sub T FUEL ty name u = Val (Some (et, ixs)) -> find_sub T FUEL ty name v = Val (Some (et', ixs')) ->
    rel_ok (snd et) (snd et') = true.

(* boolean checker per datatype: all listed entries with the same name *)
Definition pair_ok_b (ty : N) : bool :=
  match list_sub T FUEL ty with
  | Val items =>
    forallb (fun a : sub_item => forallb (fun b : sub_item =>
       negb (it_name a =? it_name b) || rel_ok (snd (it_type a)) (snd (it_type b))) items) items
  | _ => false
  end.

Definition Typed (w : world) : Prop :=
  forall i n c cn, w_nodes w i = Some n -> In (CElem c) (n_content n) -> w_nodes w c = Some cn ->
    n_parent cn = PElem i /\
    exists u et ixs, N.land u U32MAX = u /\
      find_sub_element T (n_type n) (n_name cn) u = Val (Some (et, ixs)) /\ snd et = snd (n_type cn).

(* the root element of the file's model is not somebody's child *)
Definition RootOk (w : world) (f : N) : Prop :=
  forall r ty n, root_of w f r ty -> w_nodes w r = Some n -> forall p, n_parent n <> PElem p.

End Typed.
