(* Tree/CopyProofsDupText.v — C13: the membership phase of duplicate() and the per-file text.
   Part II (this file, first half): in a world where the original's root and the copy's root are equal up to node ids
   (Iso), the third loop of duplicate() — zip of the two pre-order walks, the copy's local file set := the original's
   local set translated through the file map — makes corresponding elements pass corresponding file filters alike
   (given the translation is faithful on every local set that occurs: TransOK), hence IsoF, hence equal text
   (CopyProofsText.iso_text). *)
From AV Require Import Base.Bytes Base.Outcome Hash.HashModel Tree.Heap Tree.Ops Tree.Script Tree.Copy Tree.Serialize
  Tree.CopyProofsW Tree.CopyProofsDefs Tree.CopyProofsDup Tree.CopyProofsText.
From Coq Require Import Lia PeanoNat.
Open Scope string_scope.
Open Scope list_scope.
Open Scope N_scope.

(* Iso with a predicate on every pair of corresponding elements *)
Inductive IsoP (P : id -> id -> Prop) (w w' : world) : id -> id -> Prop :=
| IP_node s c ns nc :
    w_nodes w s = Some ns -> w_nodes w' c = Some nc ->
    n_name nc = n_name ns -> n_type nc = n_type ns -> n_comment nc = n_comment ns -> n_attrs nc = n_attrs ns ->
    P s c -> IsoPItems P w w' (n_content ns) (n_content nc) -> IsoP P w w' s c
with IsoPItems (P : id -> id -> Prop) (w w' : world) : list citem -> list citem -> Prop :=
| IPI_nil : IsoPItems P w w' [] []
| IPI_data d r r' : IsoPItems P w w' r r' -> IsoPItems P w w' (CData d :: r) (CData d :: r')
| IPI_elem s c r r' : IsoP P w w' s c -> IsoPItems P w w' r r' -> IsoPItems P w w' (CElem s :: r) (CElem c :: r').

Scheme IsoP_mind := Minimality for IsoP Sort Prop
  with IsoPItems_mind := Minimality for IsoPItems Sort Prop.
Combined Scheme IsoP_mutind from IsoP_mind, IsoPItems_mind.

(* ------------------------------------------------------------------ the two pre-order walks are aligned *)
Lemma dfs_len wa wb : forall f s c l l' wa' wb',
  Iso wa wb s c -> dfs_ids f s wa = Val (OK l, wa') -> dfs_ids f c wb = Val (OK l', wb') -> List.length l = List.length l'.
Proof.
  induction f as [|f IH]; intros s c l l' wa' wb' HI Ha Hb; [discriminate Ha|].
  rewrite dfs_ids_S in Ha, Hb. inversion HI as [s0 c0 ns nc Hs Hc _ _ _ _ HIt]; subst s0 c0.
  apply wbind_inv in Ha as [(n & w1 & E & Ha) | (e & E & [=])]. apply get_node_inv in E as (n' & Hn & [= <-] & ->).
  apply wbind_inv in Hb as [(n2 & w2 & E & Hb) | (e & E & [=])]. apply get_node_inv in E as (n2' & Hn2 & [= <-] & ->).
  rewrite Hs in Hn. injection Hn as <-. rewrite Hc in Hn2. injection Hn2 as <-.
  apply wbind_inv in Ha as [(ra & w1 & Ea & Ha) | (e & Ea & [=])]. apply wret_inv in Ha as ([= ->] & _).
  apply wbind_inv in Hb as [(rb & w2 & Eb & Hb) | (e & Eb & [=])]. apply wret_inv in Hb as ([= ->] & _).
  cbn [List.length]. f_equal. clear Hs Hc HI. revert ra rb w1 w2 Ea Eb.
  induction HIt as [|d r r' _ IHl|s1 c1 r r' HI1 _ IHl]; intros ra rb w1 w2 Ea Eb; cbn [dfs_kids] in Ea, Eb.
  - apply wret_inv in Ea as ([= ->] & _). apply wret_inv in Eb as ([= ->] & _). reflexivity.
  - eapply IHl; eauto.
  - apply wbind_inv in Ea as [(a & w3 & E1 & Ea) | (e & E1 & [=])].
    assert (w3 = wa) by (eapply ro_dfs_ids; eauto). subst w3.
    apply wbind_inv in Ea as [(b & w4 & E2 & Ea) | (e & E2 & [=])]. apply wret_inv in Ea as ([= ->] & _).
    apply wbind_inv in Eb as [(a' & w5 & E1' & Eb) | (e & E1' & [=])].
    assert (w5 = wb) by (eapply ro_dfs_ids; eauto). subst w5.
    apply wbind_inv in Eb as [(b' & w6 & E2' & Eb) | (e & E2' & [=])]. apply wret_inv in Eb as ([= ->] & _).
    rewrite !app_length. rewrite (IH _ _ _ _ _ _ HI1 E1 E1'), (IHl _ _ _ _ E2 E2'). reflexivity.
Qed.

Lemma Forall2_app_split {A B} (P : A -> B -> Prop) a b a' b' :
  Forall2 P (a ++ b) (a' ++ b') -> List.length a = List.length a' -> Forall2 P a a' /\ Forall2 P b b'.
Proof.
  revert a'. induction a as [|x a IH]; intros [|x' a'] H Hl; try discriminate Hl; cbn in *.
  - split; [constructor|exact H].
  - inversion H; subst. destruct (IH a' H5 ltac:(lia)). split; [constructor; auto|auto].
Qed.

Lemma dfs_isoP P wa wb : forall f s c l l' wa' wb',
  Iso wa wb s c -> dfs_ids f s wa = Val (OK l, wa') -> dfs_ids f c wb = Val (OK l', wb') ->
  Forall2 P l l' -> IsoP P wa wb s c.
Proof.
  induction f as [|f IH]; intros s c l l' wa' wb' HI Ha Hb HF; [discriminate Ha|].
  rewrite dfs_ids_S in Ha, Hb. inversion HI as [s0 c0 ns nc Hs Hc E1 E2 E3 E4 HIt]; subst s0 c0.
  apply wbind_inv in Ha as [(n & w1 & E & Ha) | (e & E & [=])]. apply get_node_inv in E as (n' & Hn & [= <-] & ->).
  apply wbind_inv in Hb as [(n2 & w2 & E & Hb) | (e & E & [=])]. apply get_node_inv in E as (n2' & Hn2 & [= <-] & ->).
  rewrite Hs in Hn. injection Hn as <-. rewrite Hc in Hn2. injection Hn2 as <-.
  apply wbind_inv in Ha as [(ra & w1 & Ea & Ha) | (e & Ea & [=])]. apply wret_inv in Ha as ([= ->] & _).
  apply wbind_inv in Hb as [(rb & w2 & Eb & Hb) | (e & Eb & [=])]. apply wret_inv in Hb as ([= ->] & _).
  inversion HF as [|? ? ? ? Hsc HF']; subst.
  econstructor; eauto. clear Hs Hc HI HF Hsc. revert ra rb w1 w2 Ea Eb HF'.
  induction HIt as [|d r r' _ IHl|s1 c1 r r' HI1 _ IHl]; intros ra rb w1 w2 Ea Eb HF'; cbn [dfs_kids] in Ea, Eb.
  - constructor.
  - constructor. eapply IHl; eauto.
  - apply wbind_inv in Ea as [(a & w3 & Ex & Ea) | (e & Ex & [=])].
    assert (w3 = wa) by (eapply ro_dfs_ids; eauto). subst w3.
    apply wbind_inv in Ea as [(b & w4 & Ey & Ea) | (e & Ey & [=])]. apply wret_inv in Ea as ([= ->] & _).
    apply wbind_inv in Eb as [(a' & w5 & Ex' & Eb) | (e & Ex' & [=])].
    assert (w5 = wb) by (eapply ro_dfs_ids; eauto). subst w5.
    apply wbind_inv in Eb as [(b' & w6 & Ey' & Eb) | (e & Ey' & [=])]. apply wret_inv in Eb as ([= ->] & _).
    destruct (Forall2_app_split P a b a' b' HF' (dfs_len wa wb _ _ _ _ _ _ _ HI1 Ex Ex')) as (F1 & F2).
    constructor; [eapply IH; eauto|eapply IHl; eauto].
Qed.

(* ------------------------------------------------------------------ the membership loop *)
Lemma translate_files_ext w w' fm fs : w_files w' = w_files w -> translate_files w' fm fs = translate_files w fm fs.
Proof. intros E. induction fs as [|f fs IH]; cbn [translate_files]; [reflexivity|]. rewrite E, IH. reflexivity. Qed.

Definition MemRel (w w' : world) (fm : list (list N * N)) (o c : id) : Prop :=
  exists on cn, w_nodes w o = Some on /\ w_nodes w c = Some cn /\
    w_nodes w' c = Some (set_files cn (translate_files w fm (n_files on))).

Lemma dup_membership_effect fm : forall oids cids w r w',
  dup_membership fm oids cids w = Val (r, w') ->
  List.length oids = List.length cids -> NoDup cids -> (forall o c, In o oids -> In c cids -> o <> c) ->
  w_files w' = w_files w /\ w_models w' = w_models w /\ w_next w' = w_next w /\
  (forall i, ~ In i cids -> w_nodes w' i = w_nodes w i) /\
  Forall2 (MemRel w w' fm) oids cids.
Proof.
  induction oids as [|o oids IH]; intros [|c cids] w r w' H Hl ND Hd; try discriminate Hl; cbn [dup_membership] in H.
  - apply wret_inv in H as (_ & ->). split; [reflexivity|]. split; [reflexivity|]. split; [reflexivity|]. split; [reflexivity|constructor].
  - apply wbind_inv in H as [(on & w1 & E & H) | (e & E & _)]; [|apply get_node_inv in E as (? & _ & [=] & _)].
    apply get_node_inv in E as (on' & Hon & [= <-] & ->).
    apply wbind_inv in H as [(wg & w1 & E & H) | (e & E & _)]; [|apply wget_inv in E as ([=] & _)].
    apply wget_inv in E as ([= ->] & ->).
    apply wbind_inv in H as [(u & w1 & E & H) | (e & E & _)]; [|apply modify_node_wset in E as (? & _ & [=] & _)].
    apply modify_node_wset in E as (cn & Hcn & _ & ->).
    set (w1 := wset w c (set_files cn (translate_files w fm (n_files on)))) in *.
    inversion ND as [|? ? Hnc ND']; subst.
    destruct (IH cids w1 r w' H ltac:(cbn in Hl; lia) ND' ltac:(intros o' c' Ho Hc; apply Hd; right; assumption))
      as (Hf & Hm & Hn & Hk & HF).
    assert (Hoc : o <> c) by (apply Hd; left; reflexivity).
    split; [rewrite Hf; reflexivity|]. split; [rewrite Hm; reflexivity|]. split; [rewrite Hn; reflexivity|]. split.
    + intros i Hi. rewrite Hk by (intros Hin; apply Hi; right; exact Hin).
      unfold w1, wset; cbn [w_nodes]. apply upd_neq. intros ->. apply Hi. left. reflexivity.
    + constructor.
      * exists on, cn. split; [exact Hon|]. split; [exact Hcn|]. rewrite Hk by exact Hnc.
        unfold w1, wset; cbn [w_nodes]. apply upd_eq.
      * assert (Hin : forall o' c', In o' oids -> In c' cids -> MemRel w1 w' fm o' c' -> MemRel w w' fm o' c').
        { intros o' c' Ho' Hc' (on' & cn' & A & B & C). exists on', cn'.
          unfold w1, wset in A, B; cbn [w_nodes] in A, B.
          rewrite upd_neq in A by (apply Hd; [right; exact Ho'|left; reflexivity]).
          rewrite upd_neq in B by (intros ->; exact (Hnc Hc')).
          split; [exact A|]. split; [exact B|]. rewrite C. rewrite (translate_files_ext w w1) by reflexivity. reflexivity. }
        clear - HF Hin. induction HF as [|o' c' os cs Hh HF IHF]; constructor.
        -- apply Hin; [left; reflexivity|left; reflexivity|exact Hh].
        -- apply IHF. intros o2 c2 H1 H2. apply Hin; right; assumption.
Qed.

(* ------------------------------------------------------------------ from Iso and the translated file sets to IsoF *)
Definition passes_fs (ff : option N) (fs : list N) : bool :=
  match ff with None => true | Some f => is_empty fs || set_mem f fs end.
Lemma passes_passes_fs ff n : passes ff n = passes_fs ff (n_files n).
Proof. destruct ff; reflexivity. Qed.

(* o is listed as a sub-element by an element of the walk *)
Definition Listed (w : world) (oids : list id) (o : id) : Prop :=
  exists p pn, In p oids /\ w_nodes w p = Some pn /\ In (CElem o) (n_content pn).

Lemma IsoP_IsoF w w' fm ff ff' oids :
  (forall o on, Listed w oids o -> w_nodes w o = Some on ->
     passes_fs ff (n_files on) = passes_fs ff' (translate_files w fm (n_files on))) ->
  (forall s c, IsoP (fun o c => In o oids /\ w_nodes w' o = w_nodes w o /\ MemRel w w' fm o c) w w s c ->
               IsoF w' w' ff ff' s c) /\
  (forall l l', IsoPItems (fun o c => In o oids /\ w_nodes w' o = w_nodes w o /\ MemRel w w' fm o c) w w l l' ->
                (forall o, In (CElem o) l -> Listed w oids o) -> IsoFItems w' w' ff ff' l l').
Proof.
  intros HT. apply IsoP_mutind.
  - intros s c ns nc Hs Hc E1 E2 E3 E4 (Hin & Hso & (on & cn & A & B & C)) _ IH.
    rewrite Hs in A. injection A as <-. rewrite Hc in B. injection B as <-.
    eapply (IF_node w' w' ff ff' s c ns (set_files nc (translate_files w fm (n_files ns)))); auto.
    + rewrite Hso. exact Hs.
    + cbn [n_content set_files]. apply IH. intros o Ho. exists s, ns. auto.
  - intros _. constructor.
  - intros d r r' _ IH HL. constructor. apply IH. intros o Ho. apply HL. right. exact Ho.
  - intros s c r r' HP IH1 _ IH2 HL.
    inversion HP as [s0 c0 ns nc Hs Hc _ _ _ _ (Hin & Hso & (on & cn & A & B & C)) _]; subst s0 c0.
    rewrite Hs in A. injection A as <-. rewrite Hc in B. injection B as <-.
    eapply (IFI_elem w' w' ff ff' s c ns (set_files nc (translate_files w fm (n_files ns)))); auto.
    + rewrite Hso. exact Hs.
    + rewrite !passes_passes_fs. cbn [n_files set_files]. eapply HT; eauto. apply HL. left. reflexivity.
    + apply IH2. intros o Ho. apply HL. right. exact Ho.
Qed.

Lemma Forall2_imp {A B} (P Q : A -> B -> Prop) l l' : (forall a b, P a b -> Q a b) -> Forall2 P l l' -> Forall2 Q l l'.
Proof. intros H F. induction F; constructor; auto. Qed.
Lemma Forall2_with_in {A B} (P : A -> B -> Prop) (Q : A -> Prop) l l' :
  Forall2 P l l' -> (forall a, In a l -> Q a) -> Forall2 (fun a b => Q a /\ P a b) l l'.
Proof.
  intros H. induction H as [|a b l l' Hab H IH]; intros HQ; constructor.
  - split; [apply HQ; left; reflexivity|exact Hab].
  - apply IH. intros x Hx. apply HQ. right. exact Hx.
Qed.

(* PART II: the membership phase turns Iso into IsoF for every pair of corresponding files *)
Theorem membership_phase fm fuel root croot oids cids w w' ff ff' :
  Iso w w root croot ->
  dfs_ids fuel root w = Val (OK oids, w) -> dfs_ids fuel croot w = Val (OK cids, w) ->
  NoDup cids -> (forall o c, In o oids -> In c cids -> o <> c) ->
  dup_membership fm oids cids w = Val (OK tt, w') ->
  (forall o on, Listed w oids o -> w_nodes w o = Some on ->
     passes_fs ff (n_files on) = passes_fs ff' (translate_files w fm (n_files on))) ->
  IsoF w' w' ff ff' root croot.
Proof.
  intros HI Ho Hc ND Hd Hm HT.
  pose proof (dfs_len w w _ _ _ _ _ _ _ HI Ho Hc) as Hl.
  destruct (dup_membership_effect fm oids cids w _ w' Hm Hl ND Hd) as (_ & _ & _ & Hk & HF).
  apply (proj1 (IsoP_IsoF w w' fm ff ff' oids HT)).
  assert (HF2 : Forall2 (fun o c => (In o oids /\ w_nodes w' o = w_nodes w o) /\ MemRel w w' fm o c) oids cids).
  { apply Forall2_with_in; [exact HF|]. intros o Hin. split; [exact Hin|]. apply Hk. intros Hc'. exact (Hd o o Hin Hc' eq_refl). }
  assert (HF3 : Forall2 (fun o c => In o oids /\ w_nodes w' o = w_nodes w o /\ MemRel w w' fm o c) oids cids).
  { eapply Forall2_imp; [|exact HF2]. intros a b ((A & B) & C). auto. }
  exact (dfs_isoP _ w w fuel root croot oids cids w w HI Ho Hc HF3).
Qed.

(* ------------------------------------------------------------------ the translation of a local file set *)
Lemma set_mem_set_add y x l : set_mem y (set_add x l) = (y =? x) || set_mem y l.
Proof.
  induction l as [|z l IH]; cbn [set_add set_mem existsb]; [rewrite orb_false_r; reflexivity|].
  destruct (x <? z); cbn [existsb]; [reflexivity|]. destruct (x =? z) eqn:E.
  - apply N.eqb_eq in E. subst z. cbn [existsb]. destruct (y =? x); reflexivity.
  - cbn [existsb]. change (existsb (N.eqb y) (set_add x l)) with (set_mem y (set_add x l)). rewrite IH.
    change (existsb (N.eqb y) l) with (set_mem y l). destruct (y =? z), (y =? x); reflexivity.
Qed.
Lemma set_add_nonempty x l : is_empty (set_add x l) = false.
Proof. destruct l as [|z l]; cbn [set_add]; [reflexivity|]. destruct (x <? z); [reflexivity|]. destruct (x =? z); reflexivity. Qed.

(* every file g of the set has a record, its name is in the map, and it is mapped to nf exactly when it is f *)
Definition MapsAlike (w : world) (fm : list (list N * N)) (f nf : N) (fs : list N) : Prop :=
  forall g, In g fs -> exists gl ng, nth_opt (w_files w) (N.to_nat g) = Some gl /\ assoc_get (f_name gl) fm = Some ng /\
                                     (ng = nf <-> g = f).

Lemma translate_mem w fm f nf fs : MapsAlike w fm f nf fs ->
  set_mem nf (translate_files w fm fs) = set_mem f fs.
Proof.
  induction fs as [|g fs IH]; intros H; cbn [translate_files]; [reflexivity|].
  destruct (H g (or_introl eq_refl)) as (gl & ng & Hg & Hm & Hiff). rewrite Hg, Hm, set_mem_set_add.
  rewrite IH by (intros g' Hg'; apply H; right; exact Hg'). cbn [set_mem existsb]. f_equal.
  destruct (nf =? ng) eqn:E1, (f =? g) eqn:E2; try reflexivity.
  - apply N.eqb_eq in E1. apply N.eqb_neq in E2. exfalso. apply E2. symmetry. apply Hiff. congruence.
  - apply N.eqb_neq in E1. apply N.eqb_eq in E2. exfalso. apply E1. symmetry. apply Hiff. congruence.
Qed.
Lemma translate_empty w fm f nf fs : MapsAlike w fm f nf fs ->
  is_empty (translate_files w fm fs) = is_empty fs.
Proof.
  destruct fs as [|g fs]; intros H; cbn [translate_files]; [reflexivity|].
  destruct (H g (or_introl eq_refl)) as (gl & ng & Hg & Hm & _). rewrite Hg, Hm. apply set_add_nonempty.
Qed.
Lemma translate_ok w fm f nf fs : MapsAlike w fm f nf fs ->
  passes_fs (Some f) fs = passes_fs (Some nf) (translate_files w fm fs).
Proof. intros H. cbn [passes_fs]. rewrite (translate_mem _ _ _ _ _ H), (translate_empty _ _ _ _ _ H). reflexivity. Qed.

Section Tail.
Variable T : tables.
Variable tab_el tab_at tab_en : nametab.
Variable float_fmt : N -> list N.

(* the last phase of duplicate(), run in a world w4 in which the two roots are equal up to node ids: file f of the
   original and file nf of the copy get the same text, provided the file map treats every local file set of the
   original alike (MapsAlike) *)
Theorem duplicate_tail_text fm root croot w4 r w' f nf :
  Iso w4 w4 root croot ->
  (forall x y, Sub w4 root x -> Sub w4 croot y -> x <> y) ->
  (forall l, dfs_ids (fuel_of w4) croot w4 = Val (OK l, w4) -> NoDup l) ->
  (do w <- wget; do oids <- dfs_ids (fuel_of w) root; do cids <- dfs_ids (fuel_of w) croot;
   dup_membership fm oids cids)%W w4 = Val (OK r, w') ->
  (forall p pn o on, Sub w4 root p -> w_nodes w4 p = Some pn -> In (CElem o) (n_content pn) -> w_nodes w4 o = Some on ->
     MapsAlike w4 fm f nf (n_files on)) ->
  forall fuel indent inline,
    ser_heap T tab_el tab_at tab_en float_fmt fuel w' (Some f) root indent inline =
    ser_heap T tab_el tab_at tab_en float_fmt fuel w' (Some nf) croot indent inline.
Proof.
  intros HI Hdis HND H HM fuel indent inline.
  apply wbind_inv in H as [(wg & w1 & E & H) | (e & E & [=])]. apply wget_inv in E as ([= ->] & ->).
  apply wbind_inv in H as [(oids & w1 & Eo & H) | (e & E & [=])].
  assert (w1 = w4) by (eapply ro_dfs_ids; eauto). subst w1.
  apply wbind_inv in H as [(cids & w1 & Ec & H) | (e & E & [=])].
  assert (w1 = w4) by (eapply ro_dfs_ids; eauto). subst w1.
  destruct r. apply iso_text.
  eapply (membership_phase fm (fuel_of w4) root croot oids cids w4 w'); eauto.
  - intros o c Ho Hc. apply Hdis; [exact (dfs_ids_Sub _ _ _ _ _ Eo _ eq_refl _ Ho)|exact (dfs_ids_Sub _ _ _ _ _ Ec _ eq_refl _ Hc)].
  - intros o on (p & pn & Hp & Hpn & Hin) Hon. apply translate_ok.
    apply (HM p pn o on); [exact (dfs_ids_Sub _ _ _ _ _ Eo _ eq_refl _ Hp)|exact Hpn|exact Hin|exact Hon].
Qed.
End Tail.
