(* Tree/InvE_Main.v — C03: TreeInvL (Core /\ NoOrphanP, no RootsOnly) is preserved by every operation of the alphabet
   `op` outside the Known classes: the counterpart of InvProofs.TreeInv_step over Tree/InvEBase.v. *)
From Coq Require Import PeanoNat Arith.
From AV Require Import Base.Bytes Base.Outcome Hash.HashModel Tree.Heap Tree.Ops Tree.Script Tree.Inv
  Tree.InvProofsBase Tree.InvProofsCore Tree.InvProofsTree Tree.InvProofsPrim Tree.InvProofsCreate Tree.InvProofsData
  Tree.InvProofsRefs Tree.InvProofsRemove Tree.InvProofsFiles Tree.InvProofsMove Tree.InvProofsCopy Tree.InvProofsRename
  Tree.InvProofs Tree.InvEBase Tree.InvE_Create Tree.InvE_Remove Tree.InvE_Files Tree.InvE_Move Tree.InvE_Copy.
Open Scope string_scope.
Open Scope list_scope.
Open Scope N_scope.

Section MainE.
Variable T : tables.
Variable tab_el tab_en : nametab.
Variable check_fn : N -> list N -> res bool.
Variable LATEST : N.
Variable root_attrs : list (N * cdata).

Notation run := (Inv.run T tab_el tab_en check_fn LATEST root_attrs).
Notation Known := (Inv.Known T tab_el tab_en check_fn LATEST root_attrs).

Lemma PresE_orph {A} (m : W A) w r w' : PresE m -> m w = Val (r, w') -> Core w -> NoOrphanP w -> NoOrphanP w'.
Proof. intros P H C. exact (proj2 (P _ _ _ H C)). Qed.
Ltac po L := eapply PresE_orph; [apply L | eassumption | assumption | assumption].
Ltac pos L := eapply PresE_orph; [apply PresE_stp; apply L | eassumption | assumption | assumption].

Theorem TreeInvL_step o w r w' : TreeInvL w -> Known w o = false -> run o w = Val (r, w') -> TreeInvL w'.
Proof.
  intros (C & O) HK H0. split; [eapply Core_step; eauto|].
  unfold Inv.Known in HK. apply orb_false_iff in HK as (HK & HK3). apply orb_false_iff in HK as (HK1 & HK2).
  pose proof H0 as H. unfold Inv.run in H. destruct o; cbn [run_op welem wunit] in H;
    apply wmap_inv in H as (r0 & H & Hr).
  - po Pres_e_create_subE.
  - po Pres_e_create_sub_atE.
  - po Pres_e_create_namedE.
  - po Pres_e_create_named_atE.
  - eapply e_copied_specE in H as (_ & X); try exact C; try exact check_fn; try exact tab_en; try exact tab_el. destruct (X O) as [?|(e & -> & Hp)]; auto.
    subst r. cbn [Inv.Known_failed_reparent] in HK2. rewrite H0 in HK2. congruence.
  - eapply e_copied_at_specE in H as (_ & X); try exact C; try exact check_fn; try exact tab_en; try exact tab_el. destruct (X O) as [?|(e & -> & Hp)]; auto.
    subst r. cbn [Inv.Known_failed_reparent] in HK2. rewrite H0 in HK2. congruence.
  - cbn [Known_refhead] in HK3. apply dirty_origins_clean in HK3.
    eapply e_move_specE in H as (_ & X); try exact C; try exact check_fn; try exact tab_en; try exact tab_el. destruct (X O HK3) as [?|(e & -> & Hp & Hq)]; auto.
    subst r. cbn [Inv.Known_failed_reparent] in HK2. rewrite H0 in HK2. apply negb_false_iff in HK2.
    apply pref_eqb_eq in HK2. congruence.
  - cbn [Known_refhead] in HK3. apply dirty_origins_clean in HK3.
    eapply e_move_at_specE in H as (_ & X); try exact C; try exact check_fn; try exact tab_en; try exact tab_el. destruct (X O HK3) as [?|(e & -> & Hp & Hq)]; auto.
    subst r. cbn [Inv.Known_failed_reparent] in HK2. rewrite H0 in HK2. apply negb_false_iff in HK2.
    apply pref_eqb_eq in HK2. congruence.
  - po Pres_e_removeE.
  - po Pres_e_remove_kindE.
  - cbn [Known_refhead] in HK3. apply dirty_origins_clean in HK3.
    eapply set_item_name_spec in H as (_ & X); try exact C; try exact check_fn; try exact tab_en; try exact tab_el. eapply NoOrphanP_same_tree; [exact (X HK3)|auto].
  - cbn [Known_setcdata] in HK1.
    eapply set_cdata_spec in H as (_ & X); try exact C; try exact check_fn; try exact tab_en; try exact tab_el. eapply NoOrphanP_same_tree; [exact (X HK1)|auto].
  - pos stp_remove_character_data.
  - pos stp_insert_citem.
  - pos stp_remove_citem.
  - cbn [Known_refhead] in HK3.
    eapply set_ref_target_spec in H as (_ & X); try exact C; try exact check_fn; try exact tab_en; try exact tab_el. eapply NoOrphanP_same_tree; [exact (X HK3)|auto].
  - pos stp_set_attribute.
  - pos stp_remove_attribute.
  - pos stp_set_comment.
  - po Pres_e_get_or_createE.
  - po Pres_e_get_or_create_namedE.
  - po Pres_new_modelE.
  - pos stp_m_create_file.
  - po Pres_m_remove_fileE.
  - pos stp_e_add_to_file.
  - po Pres_e_remove_from_fileE.
Qed.

End MainE.
