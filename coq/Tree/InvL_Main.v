(* GENERATED from InvProofsDetFilesMain.v by tools/c03_gen_invL.py: the same proof for DFL over TreeInvL, see Tree/InvL_Base.v *)
(* Tree/InvProofsDetFilesMain.v — C03: DFL (detached elements carry no local file set) is an invariant of every
   operation in a world that satisfies TreeInvL; with it the stale-handle theorem needs no extra hypothesis along
   histories that stay outside the Known classes. *)
From Coq Require Import PeanoNat Arith.
From AV Require Import Base.Bytes Base.Outcome Hash.HashModel Tree.Heap Tree.Ops Tree.Script Tree.Inv
  Tree.InvProofsBase Tree.InvProofsCore Tree.InvProofsTree Tree.InvProofsPrim Tree.InvEBase Tree.InvE_Create Tree.InvE_Remove Tree.InvE_Files Tree.InvE_Move Tree.InvE_Copy Tree.InvE_Main Tree.Load Tree.InvL_Base Tree.InvProofsCreate
  Tree.InvProofsData Tree.InvProofsRefs Tree.InvProofsRemove Tree.InvProofsFiles Tree.InvProofsMove
  Tree.InvProofsCopy Tree.InvProofsRename Tree.InvProofsFrame Tree.StaleProofs Tree.InvProofs
  Tree.InvProofsDetFiles Tree.InvProofsDetFiles2 Tree.InvProofsDetFiles3 Tree.InvL_3 Tree.InvProofsDetFiles4 Tree.InvL_4
  Tree.InvProofsDetFiles5 Tree.InvL_5 Tree.InvProofsDetFiles6 Tree.InvL_6.
Open Scope string_scope.
Open Scope list_scope.
Open Scope N_scope.

Section Main.
Variable T : tables.
Variable tab_el tab_en : nametab.
Variable check_fn : N -> list N -> res bool.
Variable LATEST : N.
Variable root_attrs : list (N * cdata).

Notation run := (Inv.run T tab_el tab_en check_fn LATEST root_attrs).
Notation Known := (Inv.Known T tab_el tab_en check_fn LATEST root_attrs).
Notation run_ops := (Inv.run_ops T tab_el tab_en check_fn LATEST root_attrs).
Notation clean_ops := (Inv.clean_ops T tab_el tab_en check_fn LATEST root_attrs).

Ltac by_pfcL L := eapply DFL_pframe; [eassumption | eapply L; eassumption | assumption].
Ltac by_pfpL L := eapply DFL_pframe; [eassumption | eapply L; eassumption | assumption].
Ltac by_dfpL L := eapply L; [split; eassumption | assumption | eassumption].

Theorem DF_stepL o w r w' : TreeInvL w -> DFL w -> run o w = Val (r, w') -> DFL w'.
Proof.
  intros (C & O) D H. unfold Inv.run in H. destruct o; cbn [run_op welem wunit] in H;
    apply wmap_inv in H as (r0 & H & _).
  - by_pfcL pfc_e_create_sub.
  - by_pfcL pfc_e_create_sub_at.
  - by_pfcL pfc_e_create_named.
  - by_pfcL pfc_e_create_named_at.
  - eapply e_copied_dfL; eauto.
  - eapply e_copied_at_dfL; eauto.
  - eapply e_move_dfL; eauto.
  - eapply e_move_at_dfL; eauto.
  - by_dfpL DF_e_removeL.
  - by_dfpL DF_e_remove_kindL.
  - eapply DFL_pframe; [eassumption | eapply set_item_name_pframeL; eassumption | assumption].
  - by_pfpL pfp_set_character_data.
  - by_pfpL pfp_remove_character_data.
  - by_pfpL pfp_insert_citem.
  - by_pfpL pfp_remove_citem.
  - by_pfpL pfp_set_reference_target.
  - by_pfpL pfp_set_attribute.
  - by_pfpL pfp_remove_attribute.
  - by_pfpL pfp_set_comment.
  - by_pfcL pfc_e_get_or_create.
  - by_pfcL pfc_e_get_or_create_named.
  - eapply new_model_dfL; eauto.
  - eapply m_create_file_dfL; eauto.
  - by_dfpL m_remove_file_dfpL.
  - eapply e_add_to_file_dfL; eauto.
  - by_dfpL e_remove_from_file_dfpL.
Qed.

Theorem DF_historiesL l : forall w w', TreeInvL w -> DFL w -> clean_ops l w = true -> run_ops l w = Val w' ->
  TreeInvL w' /\ DFL w'.
Proof.
  induction l as [|o l IH]; intros w w' I D Hc H; cbn [Inv.run_ops Inv.clean_ops] in *.
  - injection H as <-. auto.
  - apply andb_true_iff in Hc as (Hk & Hc). apply negb_true_iff in Hk.
    destruct (run o w) as [[r w1]|s|] eqn:E; try discriminate.
    eapply IH; [eapply TreeInvL_step; eauto | eapply DF_stepL; eauto | exact Hc | exact H].
Qed.

End Main.
