(* Tree/FilesProofsExact.v — C10 proofs: what remove_file keeps.
   remove_sub_element leaves every node outside the removed subtree as it is (its parent only loses the removed child);
   hence the elements that are attributed to some other file than the removed one stay in the model, and are attributed
   to exactly the same other files as before. *)
From Coq Require Import PeanoNat Arith Lia.
From AV Require Import Base.Bytes Base.Outcome Hash.HashModel Tree.Heap Tree.Ops Tree.Script Tree.Serialize
  Tree.Inv Tree.InvProofsBase Tree.InvProofsCore Tree.InvProofsTree Tree.InvProofsPrim Tree.InvProofsNav
  Tree.InvProofsRemove Tree.InvProofsFiles
  Tree.Files Tree.FilesProofsBase Tree.FilesProofsProj Tree.FilesProofsFrame Tree.FilesProofsOps
  Tree.FilesProofsSet Tree.FilesProofsHole Tree.FilesProofsAdd Tree.FilesProofsStrip Tree.FilesProofsRemove.
Open Scope string_scope.
Open Scope list_scope.
Open Scope N_scope.

(* x keeps its file set, parent link and type, and all of its children other than d *)
Definition kept_but (d : id) (n n' : node) : Prop :=
  n_files n' = n_files n /\ n_parent n' = n_parent n /\ n_type n' = n_type n /\
  forall k, In k (kids n) -> k <> d -> In k (kids n').

Section Exact.
Variable T : tables.

Lemma remove_outside pi d w r w' : Core w -> e_remove_sub_element T pi d w = Val (r, w') ->
  forall x n, ~ Reach w d x -> w_nodes w x = Some n -> exists n', w_nodes w' x = Some n' /\ kept_but d n n'.
Proof.
  intros C H x n Hx Hn.
  assert (exists n', w_nodes w x = Some n' /\ kept_but d n n') as Same.
  { exists n. split; auto. repeat split; auto. }
  unfold e_remove_sub_element in H. destruct (pi =? d); [apply wfail_inv in H as (_ & ->); exact Same|].
  apply wbind_inv in H as [(m & w1 & H1 & H) | (e0 & H1 & _)].
  2:{ assert (w' = w) as -> by (refine ((_ : ro (model_of pi)) _ _ _ H1); ro_tac). exact Same. }
  assert (w1 = w) as -> by (refine ((_ : ro (model_of pi)) _ _ _ H1); ro_tac). clear H1.
  unfold raw_remove_sub_element in H.
  apply wbind_inv in H as [(ns & w1 & H1 & H) | (e0 & H1 & _)]; [|apply get_node_inv in H1 as (? & _ & [=] & _)].
  apply get_node_inv in H1 as (ns' & Hns & [= <-] & ->).
  apply wbind_inv in H as [(path & w1 & H1 & H) | (e0 & H1 & _)].
  2:{ assert (w' = w) as -> by (refine ((_ : ro (path_unchecked T ns)) _ _ _ H1); ro_tac). exact Same. }
  assert (w1 = w) as -> by (refine ((_ : ro (path_unchecked T ns)) _ _ _ H1); ro_tac). clear H1.
  destruct (index_of (citem_is d) (n_content ns)) as [pos|] eqn:Hidx; [|apply wfail_inv in H as (_ & ->); exact Same].
  apply wbind_inv in H as [(named & w1 & H1 & H) | (e0 & H1 & _)]; [|apply wl_inv in H1 as (? & _ & [=] & _)].
  apply wl_inv in H1 as (named' & _ & [= <-] & ->).
  apply wbind_inv in H as [(sn & w1 & H1 & H) | (e0 & H1 & _)]; [|apply get_node_inv in H1 as (? & _ & [=] & _)].
  apply get_node_inv in H1 as (sn' & Hsn & [= <-] & ->).
  destruct (named && (n_name sn =? SHORT T)); [apply wfail_inv in H as (_ & ->); exact Same|].
  apply wbind_inv in H as [(w0 & w1 & H1 & H) | (e0 & H1 & _)]; [|apply wget_inv in H1 as ([=] & _)].
  apply wget_inv in H1 as ([= ->] & ->).
  assert (lists w pi d) as Hl by (exists ns; split; auto; eapply index_of_citem_in; eauto).
  assert (allocated w d) as Hda by (exists sn; auto).
  set (f := N.to_nat (w_next w)) in *.
  pose proof (enough_top _ _ C Hda) as He. fold f in He.
  apply wbind_inv in H as [(u & w1 & H1 & H) | (e0 & H1 & _)].
  2:{ destruct (remove_internal_spec T w C f d m path Hda He w _ _ (fun x _ => eq_refl) H1) as ([=] & _). }
  destruct (remove_internal_spec T w C f d m path Hda He w _ _ (fun x _ => eq_refl) H1) as (_ & _ & _ & _ & Fr).
  apply modify_node_wset in H as (nq & Hnq & _ & ->).
  assert (~ In x (subl f w d)) as Hxs by (intros Hi; apply Hx; apply (subl_reach w f d x C Hda He); exact Hi).
  assert (~ In pi (subl f w d)) as Hps by (apply subl_not_parent; auto).
  destruct (N.eq_dec x pi) as [->|Hne].
  - rewrite (Fr pi Hps) in Hnq. assert (nq = ns) by congruence. subst nq. assert (n = ns) by congruence. subst n.
    exists (set_content ns (remove_at (n_content ns) pos)). rewrite nodes_wset_eq. split; auto.
    repeat split; auto. intros k Hk Hkd. unfold kids. cbn.
    apply (elems_remove_elem (n_content ns) d pos (index_of_citem _ _ _ Hidx) (c_nodup _ C _ _ Hns)). split; auto.
  - exists n. rewrite nodes_wset_neq; auto. rewrite (Fr x Hxs). split; auto. repeat split; auto.
Qed.

Lemma remove_shrinks pi d w r w' : Core w -> e_remove_sub_element T pi d w = Val (r, w') ->
  forall x n', w_nodes w' x = Some n' -> exists n, w_nodes w x = Some n /\ incl (kids n') (kids n).
Proof.
  intros C H x n' Hn'.
  assert (forall w0, w0 = w -> w_nodes w0 x = Some n' -> exists n, w_nodes w x = Some n /\ incl (kids n') (kids n)) as Same.
  { intros w0 -> Hx. exists n'. split; auto. apply incl_refl. }
  unfold e_remove_sub_element in H. destruct (pi =? d); [apply wfail_inv in H as (_ & ->); eapply Same; eauto|].
  apply wbind_inv in H as [(m & w1 & H1 & H) | (e0 & H1 & _)].
  2:{ assert (w' = w) as -> by (refine ((_ : ro (model_of pi)) _ _ _ H1); ro_tac). eapply Same; eauto. }
  assert (w1 = w) as -> by (refine ((_ : ro (model_of pi)) _ _ _ H1); ro_tac). clear H1.
  unfold raw_remove_sub_element in H.
  apply wbind_inv in H as [(ns & w1 & H1 & H) | (e0 & H1 & _)]; [|apply get_node_inv in H1 as (? & _ & [=] & _)].
  apply get_node_inv in H1 as (ns' & Hns & [= <-] & ->).
  apply wbind_inv in H as [(path & w1 & H1 & H) | (e0 & H1 & _)].
  2:{ assert (w' = w) as -> by (refine ((_ : ro (path_unchecked T ns)) _ _ _ H1); ro_tac). eapply Same; eauto. }
  assert (w1 = w) as -> by (refine ((_ : ro (path_unchecked T ns)) _ _ _ H1); ro_tac). clear H1.
  destruct (index_of (citem_is d) (n_content ns)) as [pos|] eqn:Hidx; [|apply wfail_inv in H as (_ & ->); eapply Same; eauto].
  apply wbind_inv in H as [(named & w1 & H1 & H) | (e0 & H1 & _)]; [|apply wl_inv in H1 as (? & _ & [=] & _)].
  apply wl_inv in H1 as (named' & _ & [= <-] & ->).
  apply wbind_inv in H as [(sn & w1 & H1 & H) | (e0 & H1 & _)]; [|apply get_node_inv in H1 as (? & _ & [=] & _)].
  apply get_node_inv in H1 as (sn' & Hsn & [= <-] & ->).
  destruct (named && (n_name sn =? SHORT T)); [apply wfail_inv in H as (_ & ->); eapply Same; eauto|].
  apply wbind_inv in H as [(w0 & w1 & H1 & H) | (e0 & H1 & _)]; [|apply wget_inv in H1 as ([=] & _)].
  apply wget_inv in H1 as ([= ->] & ->).
  assert (lists w pi d) as Hl by (exists ns; split; auto; eapply index_of_citem_in; eauto).
  assert (allocated w d) as Hda by (exists sn; auto).
  set (f := N.to_nat (w_next w)) in *.
  pose proof (enough_top _ _ C Hda) as He. fold f in He.
  apply wbind_inv in H as [(u & w1 & H1 & H) | (e0 & H1 & _)].
  2:{ destruct (remove_internal_spec T w C f d m path Hda He w _ _ (fun x _ => eq_refl) H1) as ([=] & _). }
  destruct (remove_internal_spec T w C f d m path Hda He w _ _ (fun x _ => eq_refl) H1) as (_ & _ & _ & Cl & Fr).
  apply modify_node_wset in H as (nq & Hnq & _ & ->).
  assert (~ In pi (subl f w d)) as Hps by (apply subl_not_parent; auto).
  rewrite (Fr pi Hps) in Hnq. assert (nq = ns) by congruence. subst nq.
  destruct (N.eq_dec x pi) as [->|Hne].
  - rewrite nodes_wset_eq in Hn'. injection Hn' as <-. exists ns. split; auto.
    intros k Hk. unfold kids in *. cbn in Hk. eapply elems_remove_incl; eauto.
  - rewrite nodes_wset_neq in Hn'; auto.
    destruct (in_dec N.eq_dec x (subl f w d)) as [Hi|Hi].
    + pose proof (Cl x Hi) as Hsk. unfold skel in Hsk. rewrite Hn' in Hsk. injection Hsk as _ Hk.
      destruct (subl_alloc f w C d x Hda Hi) as (n & Hn). exists n. split; auto. rewrite Hk. intros k [].
    + rewrite (Fr x Hi) in Hn'. exists n'. split; auto. apply incl_refl.
Qed.

Lemma shrink_reach w w' : (forall x n', w_nodes w' x = Some n' -> exists n, w_nodes w x = Some n /\ incl (kids n') (kids n)) ->
  forall a b, Reach w' a b -> Reach w a b.
Proof.
  intros Sh a b H. induction H as [(n' & Hn')|p c Hp IH (pn' & Hpn' & Hc)].
  - destruct (Sh _ _ Hn') as (n & Hn & _). constructor. exists n; auto.
  - destruct (Sh _ _ Hpn') as (pn & Hpn & Hi). eapply R_kid; eauto. exists pn. split; auto.
Qed.

(* the deletion loop: nodes that are not below any deleted element keep their set, parent, type and the children
   that are not deleted themselves *)
Lemma del_outside : forall l w r w', TreeInv w -> FilesInv T w -> del_loop T l w = Val (r, w') ->
  (forall a b, Reach w' a b -> Reach w a b) /\
  forall x n, (forall d, In d l -> ~ Reach w d x) -> w_nodes w x = Some n ->
    exists n', w_nodes w' x = Some n' /\ n_files n' = n_files n /\ n_parent n' = n_parent n /\ n_type n' = n_type n /\
               forall k, In k (kids n) -> ~ In k l -> In k (kids n').
Proof.
  induction l as [|d rest IH]; intros w r w' TI FI H; cbn [del_loop] in H.
  - apply wret_inv in H as (_ & ->). split; auto. intros x n _ Hn. exists n. repeat split; auto.
  - pose proof TI as (C & _).
    apply wbind_inv in H as [(dn & w1 & H1 & H) | (e0 & H1 & _)]; [|apply get_node_inv in H1 as (? & _ & [=] & _)].
    apply get_node_inv in H1 as (dn' & Hdn & [= <-] & ->).
    apply wbind_inv in H as [(p & w1 & H1 & H) | (e0 & H1 & _)]; [|apply wtry_inv in H1 as (? & _ & [=])].
    assert (w1 = w) as -> by (refine ((_ : ro (wtry (parent_of dn))) _ _ _ H1); ro_tac). clear H1.
    apply wbind_inv in H as [(u & w1 & H1 & H) | (e0 & H1 & _)].
    2:{ exfalso. destruct p as [[pi|]|]; try discriminate.
        apply wbind_inv in H1 as [(u1 & w2 & H2 & H1) | (e1 & H2 & _)]; [discriminate|apply wtry_inv in H2 as (? & _ & [=])]. }
    assert (TreeInv w1 /\ FilesInv T w1 /\
            (forall x n1, w_nodes w1 x = Some n1 -> exists n, w_nodes w x = Some n /\ incl (kids n1) (kids n)) /\
            (forall x n, ~ Reach w d x -> w_nodes w x = Some n -> exists n1, w_nodes w1 x = Some n1 /\ kept_but d n n1))
      as (TI1 & FI1 & Sh1 & K1).
    { destruct p as [[pi|]|].
      - apply wbind_inv in H1 as [(u1 & w2 & H2 & H1) | (e0 & H2 & _)]; [|apply wtry_inv in H2 as (? & _ & [=])].
        apply wret_inv in H1 as (_ & ->). destruct (remove_step T _ _ _ _ _ TI FI H2) as (TI1 & FI1 & _).
        apply wtry_inv in H2 as (r0 & H2 & _). split; auto. split; auto. split.
        + eapply remove_shrinks; eauto.
        + intros x n Hx Hn. eapply remove_outside; eauto.
      - apply wret_inv in H1 as (_ & ->). split; auto. split; auto. split.
        + intros x n1 Hn1. exists n1. split; auto. apply incl_refl.
        + intros x n _ Hn. exists n. split; auto. repeat split; auto.
      - apply wret_inv in H1 as (_ & ->). split; auto. split; auto. split.
        + intros x n1 Hn1. exists n1. split; auto. apply incl_refl.
        + intros x n _ Hn. exists n. split; auto. repeat split; auto. }
    destruct (IH _ _ _ TI1 FI1 H) as (RB2 & K2).
    pose proof (shrink_reach w w1 Sh1) as RB1. split; [intros a b Hab; auto|].
    intros x n Hx Hn.
    destruct (K1 x n (Hx d (or_introl eq_refl)) Hn) as (n1 & Hn1 & F1 & P1 & T1 & Kk1).
    destruct (K2 x n1) as (n' & Hn' & F2 & P2 & T2 & Kk2); auto.
    { intros d' Hd' Hr. apply (Hx d' (or_intror Hd')). apply RB1. exact Hr. }
    exists n'. split; auto. repeat split; try congruence.
    intros k Hk Hnk. apply Kk2; [apply Kk1; auto; intros ->; apply Hnk; left; reflexivity|].
    intros Hi. apply Hnk. right. exact Hi.
Qed.

(* effective sets shrink on the way down *)
Lemma eff_mono_down w x a i sa si : Core w -> In x (w_models w) -> FilesInvM T w x -> Reach w (m_root x) a ->
  Reach w a i -> Eff w a sa -> Eff w i si -> incl si sa.
Proof.
  intros C Hx FI Hra Hr. revert si. induction Hr as [_|p c Hp IH Hl]; intros si Ha Hi.
  - rewrite (Eff_fun _ _ _ Hi _ Ha). apply incl_refl.
  - destruct (c_up _ C _ _ Hl) as (cn & Hcn & Hpar).
    assert (Reach w (m_root x) c) as Hrc by (eapply reach_trans; [exact Hra|]; eapply R_kid; eauto).
    destruct (n_files cn) as [|g0 l0] eqn:Ef.
    + destruct (Eff_up_inv _ _ _ _ Hi Hcn Ef) as (p' & Hp' & Hsp). assert (p' = p) by congruence. subst. apply IH; auto.
    + assert (n_files cn <> []) as Hne by congruence.
      assert (si = n_files cn) as -> by (eapply Eff_local_inv; eauto).
      destruct (fi_par _ _ _ FI c cn p Hrc Hcn Hne Hpar) as (sp & Hsp & Hincl).
      eapply incl_tran; [exact Hincl|]. apply IH; auto.
Qed.

(* what remove_file keeps: an element that is attributed to another file stays, with the same other files *)
Theorem remove_file_keeps m f w r w' x :
  TreeInv w -> FilesInv T w ->
  Known_root_last w (OpRemoveFile m f) = false -> Unowned w (OpRemoveFile m f) = false -> last_file w (OpRemoveFile m f) = false ->
  m_remove_file T m f w = Val (r, w') -> model_b w m = Some x ->
  forall i g, Reach w (m_root x) i -> g <> f -> Attributed w i g ->
    Reach w' (m_root x) i /\ forall h, h <> f -> (Attributed w i h <-> Attributed w' i h).
Proof.
  intros TI FI HK HU HL H Hmx i g Hri Hgf Hag. pose proof TI as (C & NO & _).
  destruct (remove_file_shape T m f w r w' TI FI HK HU HL H) as [(-> & _)|(x0 & cur & w1 & w3 & td & r3 & Hx0 & Hxin & Hfin & Hn1 & ST1 & Hcur & Hrest & S & TI3 & FI3 & Hdel & Htd & _)].
  { split; auto. intros h _. tauto. }
  assert (x0 = x) by congruence. subst x0. pose proof (FI x Hxin) as FIx.
  pose proof TI3 as (C3 & NO3 & _).
  assert (same_tree w w3) as ST3 by (eapply same_tree_trans; [exact ST1|apply (st_tree _ _ _ _ _ S)]).
  pose proof (fun a b => proj1 (reach_same_tree_iff w w3 a b ST3)) as R13.
  pose proof (fun a b => proj2 (reach_same_tree_iff w w3 a b ST3)) as R31.
  (* the root's own set is cur *)
  destruct (root_node _ _ C Hxin) as (rn & k & Hrn & Hrp).
  assert (cur = n_files rn) as Ecur.
  { destruct (n_files rn) as [|g0 l0] eqn:Ef.
    - destruct (Eff_up_inv _ _ _ _ Hcur Hrn Ef) as (p & Hp & _). congruence.
    - rewrite <- Ef. eapply Eff_local_inv; eauto. congruence. }
  (* every reached node of w3 is the node of w with f removed from its set *)
  assert (forall a n, Reach w (m_root x) a -> w_nodes w a = Some n -> w_nodes w3 a = Some (set_files n (set_remove f (n_files n)))) as N3.
  { intros a n Hra Hn. destruct (st_node _ _ _ _ _ S a n) as (fs & H3 & He & Hin & _); [rewrite Hn1; auto|].
    rewrite H3. destruct (N.eq_dec a (m_root x)) as [->|Hne].
    - rewrite (He eq_refl). assert (n = rn) by congruence. subst n. rewrite Ecur. reflexivity.
    - rewrite (Hin Hne); auto. apply (reach_same_tree w w1); auto. }
  (* i and its ancestors are below no deleted element *)
  destruct Hag as (si & Hsi & Hgi).
  assert (forall a, Reach w (m_root x) a -> Reach w a i -> forall d, In d td -> ~ Reach w3 d a) as NotGone.
  { intros a Hra Hai d Hd Hda. apply R31 in Hda.
    destruct (Htd d Hd) as (Hrd & nd & Hnd & Hne & Hem).
    assert (Eff w d (n_files nd)) as Hed by (constructor; auto).
    assert (incl si (n_files nd)) as Hi by (eapply (eff_mono_down w x d i); eauto; eapply reach_trans; eauto).
    pose proof (Hi g Hgi) as Hgd. assert (In g (set_remove f (n_files nd))) as Hc by (apply set_remove_in; auto).
    rewrite Hem in Hc. destruct Hc. }
  destruct (del_outside td w3 r3 w' TI3 FI3 Hdel) as (_ & KO).
  (* the path to i survives *)
  assert (forall a, Reach w (m_root x) a -> Reach w a i -> Reach w' (m_root x) a /\
            exists n n', w_nodes w a = Some n /\ w_nodes w' a = Some n' /\ n_files n' = set_remove f (n_files n) /\ n_parent n' = n_parent n) as Path.
  { intros a Hra. induction Hra as [Ha|p c Hp IH Hl]; intros Hai.
    - destruct Ha as (n & Hn). pose proof (N3 _ _ (R_self _ _ (ex_intro _ n Hn)) Hn) as H3.
      destruct (KO (m_root x) _ (NotGone _ (R_self _ _ (ex_intro _ n Hn)) Hai) H3) as (n' & Hn' & Fs & Pp & _).
      split; [constructor; exists n'; auto|]. exists n, n'. repeat split; auto.
    - assert (Reach w (m_root x) c) as Hrc by (eapply R_kid; eauto).
      assert (Reach w p i) as Hpi by (eapply reach_trans; [|exact Hai]; eapply R_kid; [constructor|exact Hl]; destruct Hl as (pn & Hpn & _); exists pn; auto).
      destruct (IH Hpi) as (Hrp' & pn & pn' & Hpn & Hpn' & _).
      destruct (reach_alloc _ _ _ C Hrc) as (cn & Hcn).
      pose proof (N3 _ _ Hrc Hcn) as H3c. pose proof (N3 _ _ Hp Hpn) as H3p.
      destruct (KO c _ (NotGone _ Hrc Hai) H3c) as (cn' & Hcn' & Fs & Pp & _).
      destruct (KO p _ (NotGone _ Hp Hpi) H3p) as (pn'' & Hpn'' & _ & _ & _ & Kk).
      assert (pn'' = pn') by congruence. subst pn''.
      split.
      + eapply R_kid; [exact Hrp'|]. exists pn'. split; auto. apply Kk.
        * destruct Hl as (pn0 & Hpn0 & Hc). assert (pn0 = pn) by congruence. subst. exact Hc.
        * intros Hct. apply (NotGone c Hrc Hai c Hct). constructor. apply (allocated_same_tree w w3); auto. exists cn; auto.
      + exists cn, cn'. repeat split; auto. }
  assert (Reach w i i) as Hii by (constructor; eapply reach_alloc; eauto).
  destruct (Path i Hri Hii) as (Hri' & _). split; auto.
  (* the effective set of i in w' is (that in w) minus f *)
  assert (forall a s, Eff w a s -> Reach w (m_root x) a -> Reach w a i -> In g s -> Eff w' a (set_remove f s)) as E'.
  { intros a s He. induction He as [a n Hn Hf | a n p s Hn Hf Hp He IH]; intros Hra Hai Hgs.
    - destruct (Path a Hra Hai) as (_ & n0 & n' & Hn0 & Hn' & Fs & _). assert (n0 = n) by congruence. subst n0.
      rewrite <- Fs. constructor; auto. rewrite Fs. intros E. assert (In g (set_remove f (n_files n))) as Hc by (apply set_remove_in; auto).
      rewrite E in Hc. destruct Hc.
    - destruct (Path a Hra Hai) as (_ & n0 & n' & Hn0 & Hn' & Fs & Pp). assert (n0 = n) by congruence. subst n0.
      assert (par w a p) as Hpar by (exists n; auto).
      destruct (reach_par _ _ _ _ C Hxin Hra Hpar) as (Hrpp & Hlp).
      apply (Eff_up w' a n' p (set_remove f s) Hn'); [rewrite Fs, Hf; reflexivity | rewrite Pp; exact Hp | ].
      apply IH; auto. eapply reach_trans; [|exact Hai]. eapply R_kid; [constructor; destruct Hlp as (pn & Hpn & _); exists pn; auto|exact Hlp]. }
  pose proof (E' i si Hsi Hri Hii Hgi) as Hsi'.
  intros h Hhf. split.
  - intros (s & Hs & Hh). rewrite (Eff_fun _ _ _ Hs _ Hsi) in Hh. exists (set_remove f si). split; auto. apply set_remove_in. auto.
  - intros (s' & Hs' & Hh). rewrite (Eff_fun _ _ _ Hs' _ Hsi') in Hh. apply set_remove_in in Hh as (_ & Hh). exists si. auto.
Qed.

End Exact.
