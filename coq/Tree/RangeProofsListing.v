(* Tree/RangeProofsListing.v — C07: "exactly the sub-elements reported as allowed can be created, at exactly the positions of the
   reported range", WITHOUT side hypotheses about the type of the new element: under the table fact named_agree_b (Tree/Listing.v)
   what list_valid_sub_elements reports as is_named is what the creation calls decide (is_named_in_version of the type the name
   resolves to in the file version).  In particular for the element kinds whose type is identifiable only in SOME versions
   (CAN-TP-CHANNEL, ECUC-QUERY-EXPRESSION, ETHERNET-NETWORK-CONFIGURATION ...): in a version where the type has no SHORT-NAME the
   listing says "not named", create_sub_element[_at] succeeds exactly inside the range, and where it has one the un-named
   calls are refused. *)
From Coq Require Import Arith Lia.
From AV Require Import Base.Bytes Base.Outcome Hash.HashModel Spec.SpecOps Tree.Heap Tree.Ops Tree.Range Tree.ValidSubs Tree.Listing
  Tree.InvProofsBase Tree.RangeProofsOps.
Open Scope list_scope.
Open Scope N_scope.

Section Listing.
Variable T : tables.
Variable LATEST : N.

Lemma named_agree_use ty l name et mask nm v :
  named_agree_b T ty = true -> list_sub T FUEL ty = Val l -> In (name, et, mask, nm) l -> In v VERSIONS ->
  compatible v mask = true ->
  exists et' ix, find_sub T FUEL ty name v = Val (Some (et', ix)) /\ is_named_in_version T et' v = Val (compatible v nm).
Proof.
  unfold named_agree_b. intros H HL Hin Hv Hc. rewrite HL in H. rewrite forallb_forall in H.
  specialize (H _ Hin). cbn beta iota in H. rewrite forallb_forall in H. specialize (H _ Hv). rewrite Hc in H. cbn [negb orb] in H.
  destruct (find_sub T FUEL ty name v) as [[[et' ix]|]| |] eqn:EF; try discriminate.
  destruct (is_named_in_version T et' v) as [b| |] eqn:EN; try discriminate.
  exists et', ix. split; [reflexivity|]. apply Bool.eqb_prop in H. rewrite EN, H. reflexivity.
Qed.

Lemma valid_loop_entries n v : forall l w r w',
  valid_loop T n v l w = Val (OK r, w') ->
  forall vi, In vi r -> exists et mask nm, In (vi_name vi, et, mask, nm) l /\ compatible v mask = true /\
                                            vi_named vi = compatible v nm.
Proof.
  induction l as [|[[[name et] mask] nm] l IH]; intros w r w' H.
  - cbn [valid_loop] in H. apply wret_inv in H as [[= ->] ->]. intros vi [].
  - cbn [valid_loop] in H. destruct (compatible v mask) eqn:EC.
    + unfold wbind at 1 in H. unfold wcatch in H.
      destruct (calc_element_insert_range T n name v w) as [[r0 w1]| |]; try discriminate.
      unfold wbind at 1 in H.
      destruct (valid_loop T n v l w1) as [[[tl|er] w2]| |] eqn:EL; try discriminate.
      apply wret_inv in H as [[= ->] ->].
      intros vi [<-|Hin].
      * exists et, mask, nm. split; [left; reflexivity|]. split; [exact EC|reflexivity].
      * destruct (IH _ _ _ EL vi Hin) as (et' & mask' & nm' & A & B & C). exists et', mask', nm'. split; [right; exact A|auto].
    + intros vi Hin. destruct (IH _ _ _ H vi Hin) as (et' & mask' & nm' & A & B & C). exists et', mask', nm'. split; [right; exact A|auto].
Qed.

(* what the listing reports as is_named is the named-ness of the type the name resolves to in the file version *)
Theorem listing_named_exact h n v w r w' vi :
  named_agree_b T (snd (n_type n)) = true -> In v VERSIONS ->
  w_nodes w h = Some n -> min_version LATEST h w = Val (OK v, w) ->
  list_valid_sub_elements T LATEST h w = Val (OK r, w') -> In vi r ->
  exists et ix, find_sub_element T (n_type n) (vi_name vi) v = Val (Some (et, ix)) /\
                is_named_in_version T et v = Val (vi_named vi).
Proof.
  intros HA Hv Hn Hmv HL Hin. unfold list_valid_sub_elements in HL.
  unfold wbind at 1 in HL. unfold get_node at 1 in HL. rewrite Hn in HL.
  unfold wbind at 1 in HL. unfold wtry in HL. rewrite Hmv in HL.
  unfold wbind at 1 in HL. unfold wlift in HL.
  destruct (sub_element_spec_list T (n_type n)) as [l| |] eqn:ES; try discriminate.
  destruct (valid_loop_entries n v l w r w' HL vi Hin) as (et0 & mask & nm & Hl & Hc & Hnm).
  destruct (named_agree_use _ _ _ _ _ _ _ HA ES Hl Hv Hc) as (et & ix & HF & HN).
  exists et, ix. split; [exact HF|]. rewrite Hnm. exact HN.
Qed.

(* the property text, for the un-named calls: allowed <-> creatable, and creatable at p <-> p in the reported range;
   for a name reported as named the un-named calls never succeed *)
Theorem listing_exact h n v w r w' vi :
  named_agree_b T (snd (n_type n)) = true -> In v VERSIONS ->
  w_nodes w h = Some n -> w_nodes w (w_next w) = None -> min_version LATEST h w = Val (OK v, w) ->
  list_valid_sub_elements T LATEST h w = Val (OK r, w') -> In vi r ->
  (vi_named vi = false ->
     (vi_allowed vi = true <-> exists c w2, e_create_sub_element T LATEST h (vi_name vi) w = Val (OK c, w2)) /\
     (forall lo hi w1, calc_element_insert_range T n (vi_name vi) v w = Val (OK (lo, hi), w1) ->
        forall pos, (exists c w2, e_create_sub_element_at T LATEST h (vi_name vi) pos w = Val (OK c, w2)) <-> lo <= pos <= hi)) /\
  (vi_named vi = true ->
     forall pos c w2, e_create_sub_element_at T LATEST h (vi_name vi) pos w <> Val (OK c, w2)).
Proof.
  intros HA Hv Hn Hf Hmv HL Hin.
  destruct (listing_named_exact h n v w r w' vi HA Hv Hn Hmv HL Hin) as (et & ix & HF & HN).
  split.
  - intros E. rewrite E in HN. split.
    + exact (allowed_iff_create T LATEST h n v w r w' vi et ix Hn Hf Hmv HL Hin HF HN).
    + intros lo hi w1 EC pos. exact (create_iff_range T LATEST h n v (vi_name vi) w lo hi w1 et ix Hn Hf Hmv EC HF HN pos).
  - intros E pos c w2 H. rewrite E in HN.
    destruct (create_at_success_inv T LATEST h n v (vi_name vi) w Hn Hf Hmv pos c w2 H) as (lo & hi & et' & ix' & _ & _ & HF' & HN' & _).
    rewrite HF in HF'. injection HF' as <- _. rewrite HN in HN'. discriminate.
Qed.

End Listing.
