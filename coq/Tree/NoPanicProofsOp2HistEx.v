(* Tree/NoPanicProofsOp2HistEx.v — C12: non-vacuity of the op2 history theorem on the regenerated tables: a history with
   a second package created before the first, Element::sort, ArxmlFile::serialize, Element::serialize and the float oracle
   satisfies wf_ops2; it runs to its end and the sort has reordered the packages. *)
From Coq Require Import Lia.
From AV Require Import Base.Bytes Base.Outcome Hash.HashModel Spec.SpecOps Spec.SpecReal Xml.TablesOk
  Tree.Heap Tree.Ops Tree.Script Tree.Script2 Tree.Inv Tree.SortProofsReal.
From AV Require Import Hash.HashRealElement Hash.HashRealAttr Hash.HashRealEnum.
From AV Require Import Tree.NoPanic Tree.NoPanicProofsCopy2 Tree.NoPanicFloat Tree.NoPanicProofsHist Tree.NoPanicProofsHistEx
  Tree.NoPanicProofsOp2 Tree.NoPanicProofsFiles Tree.NoPanicProofsOp2Hist Tree.NoPanicProofsOp2HistReal.
Open Scope list_scope.
Open Scope N_scope.

Definition ex2_hist : list op2 :=
  [ Op1 OpNewModel; Op1 (OpCreateFile 0 [102] 1048576);
    Op1 (OpCreateSub 0 5413);                     (* AR-PACKAGES        -> node 1 *)
    Op1 (OpCreateNamed 1 5250 [113]);             (* AR-PACKAGE "q"     -> node 2 (SHORT-NAME 3) *)
    Op1 (OpCreateNamed 1 5250 [112]);             (* AR-PACKAGE "p"     -> node 4 (SHORT-NAME 5) *)
    OpSort 0;
    OpSerializeFile 0;
    Op1 (OpSetCData 3 (DFloat 0));                (* "q" := 0.0.to_string() = x1 by the oracle *)
    OpSerializeElem 1;
    OpSortModel 0 ].

(* 3516 = ElementName::Index, 6311 = ElementName::DefinitionRef, 78 = AttributeName::xsiSchemalocation *)
Notation wf2_ex := (wf_ops2 RT tab_element tab_attr tab_enum nv_check (fun _ => None) ex_fmt 1048576 3516 6311 78 []).
Notation run2_ex := (run_ops2F RT tab_element tab_attr tab_enum nv_check (fun _ => None) ex_fmt 1048576 3516 6311 78 []).

Ltac in_solve := first [ exact I | left; reflexivity | right; in_solve ].
Ltac wfh_solve :=
  cbn [op2_wfh];
  first [ split; [vm_compute; repeat split; try reflexivity; try discriminate|split; [vm_compute; in_solve|size_ok]]
        | vm_compute; reflexivity ].
Ltac wf2_step :=
  cbn [wf_ops2]; split; [reflexivity|split; [wfh_solve|]];
  let x := fresh "x" in let w' := fresh "w" in let E := fresh "E" in
  intros x w' E; vm_compute in E; injection E as _ <-.

Example ex2_wf : wf2_ex ex2_hist empty_world.
Proof.
  unfold ex2_hist. do 10 wf2_step. exact I.
Qed.

Example ex2_runs : exists w', run2_ex ex2_hist empty_world = Val w' /\
  option_map n_content (w_nodes w' 1) = Some [CElem 4; CElem 2].
Proof.
  destruct (no_panic2_histories_real nv_check (fun _ => None) ex_fmt 1048576 3516 6311 78 [] (fun fn s => ex_intro _ true eq_refl)
              (fun a (F : In a []) => match F with end) ex2_hist ex2_wf) as (w' & E).
  exists w'. split; [exact E|]. vm_compute in E. injection E as <-. vm_compute. reflexivity.
Qed.
