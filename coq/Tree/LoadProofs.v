(* Tree/LoadProofs.v — C11, load half: which errors load_buffer can return and what a rejected load leaves behind.
     * errors of the merge stage are InvalidFileMerge only; the overlap check is the only source of OverlappingDataError
     * a load rejected for a duplicate file name or by the parser returns the world it started from
     * a load rejected by the overlap check (which runs before anything is modified since fix b692965) changes nothing
       that existed: the nodes of the parsed tree were allocated beyond the old bound and are dead
       (Observe.obs_eq_upto_garbage)
   The merge stage is NOT effect free on failure: see LoadProofsRefuted.v. *)
From AV Require Import Base.Bytes Base.Outcome Hash.HashModel Tree.Heap Tree.Ops Tree.Script Tree.Load Tree.Observe
  Tree.LoadProofsBase.
From AV Require Xml.Lexer Xml.Parser.
Open Scope string_scope.
Open Scope list_scope.
Open Scope N_scope.

(* ------------------------------------------------------------------ the errors a computation can return *)
Definition errs {A} (P : err -> Prop) (m : W A) : Prop := forall w e w', m w = Val (ER e, w') -> P e.

Lemma errs_ret {A} (P : err -> Prop) (a : A) : errs P (wret a).
Proof. intros w e w' H. apply wret_inv in H as [[=] _]. Qed.
Lemma errs_fail {A} (P : err -> Prop) e : P e -> errs P (@wfail A e).
Proof. intros Hp w e' w' H. apply wfail_inv in H as [[= <-] _]. exact Hp. Qed.
Lemma errs_panic {A} (P : err -> Prop) s : errs P (@wpanic A s). Proof. intros w e w' H. discriminate. Qed.
Lemma errs_fuel {A} (P : err -> Prop) : errs P (@wfuel A). Proof. intros w e w' H. discriminate. Qed.
Lemma errs_wl {A} (P : err -> Prop) (x : res A) : errs P (wl x).
Proof. intros w e w' H. apply wl_inv in H as (a & _ & [=] & _). Qed.
Lemma errs_lift {A} (P : err -> Prop) (x : res A) : errs P (wlift x).
Proof. intros w e w' H. apply wlift_inv in H as (a & _ & [=] & _). Qed.
Lemma errs_get_node (P : err -> Prop) i : errs P (get_node i).
Proof. intros w e w' H. apply get_node_inv in H as (n & _ & [=] & _). Qed.
Lemma errs_get_model (P : err -> Prop) i : errs P (get_model i).
Proof. intros w e w' H. apply get_model_inv in H as (n & _ & [=] & _). Qed.
Lemma errs_wget (P : err -> Prop) : errs P wget.
Proof. intros w e w' H. apply wget_inv in H as [[=] _]. Qed.
Lemma errs_wput (P : err -> Prop) w0 : errs P (wput w0).
Proof. intros w e w' H. unfold wput in H. discriminate. Qed.
Lemma errs_modify_node (P : err -> Prop) i f : errs P (modify_node i f).
Proof. intros w e w' H. apply modify_node_inv in H as (n & _ & [=] & _). Qed.
Lemma errs_modify_model (P : err -> Prop) i f : errs P (modify_model i f).
Proof. intros w e w' H. apply modify_model_inv in H as (n & _ & [=] & _). Qed.
Lemma errs_set_node (P : err -> Prop) i n : errs P (set_node i n).
Proof. intros w e w' H. apply set_node_inv in H as ([=] & _). Qed.
Lemma errs_alloc (P : err -> Prop) n : errs P (alloc n).
Proof. intros w e w' H. apply alloc_inv in H as ([=] & _). Qed.
Lemma errs_try {A} (P : err -> Prop) (m : W A) : errs P (wtry m).
Proof. intros w e w' H. apply wtry_inv in H as (r0 & _ & [=]). Qed.
Lemma errs_catch {A} (P : err -> Prop) (m : W A) : errs P (wcatch m).
Proof. intros w e w' H. apply wcatch_inv in H as (r0 & _ & [=]). Qed.
Lemma errs_bind {A B} (P : err -> Prop) (m : W A) (k : A -> W B) : errs P m -> (forall a, errs P (k a)) -> errs P (wbind m k).
Proof.
  intros Hm Hk w e w' H. apply wbind_inv in H as [(a & w1 & H1 & H2) | (e' & H1 & [= <-])].
  - eapply Hk; eauto.
  - eapply Hm; eauto.
Qed.
Lemma errs_fun {A} (P : err -> Prop) (f : world -> res (out A * world)) :
  (forall w e w', f w = Val (ER e, w') -> P e) -> errs P f.
Proof. intros H. exact H. Qed.

Ltac errs_step :=
  first
  [ apply errs_ret | apply errs_panic | apply errs_fuel | apply errs_wl | apply errs_lift | apply errs_get_node
  | apply errs_get_model | apply errs_wget | apply errs_wput | apply errs_modify_node | apply errs_modify_model
  | apply errs_set_node | apply errs_alloc | apply errs_try | apply errs_catch
  | apply errs_fail; solve [auto]
  | assumption
  | apply errs_bind; [ | intros ? ]
  | match goal with
    | |- errs _ (match ?x with _ => _ end) => destruct x
    | |- errs _ (if ?b then _ else _) => destruct b
    | |- errs _ (let '(_, _) := ?x in _) => destruct x
    end ].
Ltac errs_tac := repeat errs_step.

Section Proofs.
Variable T : tables.
Variable tab_el tab_at tab_en : nametab.
Variable check_fn : N -> list N -> res bool.
Variable float_parse : list N -> option N.
Variable LATEST : N.
Variable name_definition_ref : N.

Definition is_merge_err (e : err) : Prop := e = InvalidFileMerge.

(* ---------- the walk ---------- *)
Lemma merge_action_err all_a all_b sp pos ka kb e :
  merge_action all_a all_b sp pos ka kb = Val (ER e) -> e = InvalidFileMerge.
Proof.
  unfold merge_action. destruct (k_name ka =? k_name kb).
  - destruct (k_ident ka) as [[|]| |]; cbn [bind]; try discriminate.
    + unfold calc_identifiables_merge.
      destruct (k_item ka) as [ia| |]; cbn [bind]; try discriminate.
      destruct (k_item kb) as [ib| |]; cbn [bind]; try discriminate.
      destruct (opt_bytes_eqb ia ib); try discriminate.
      destruct (find_sibling_item _ _ _) as [[s|]| |]; cbn [bind]; try discriminate.
      destruct sp; try discriminate. intros [= <-]. reflexivity.
    + destruct (calc_element_merge all_b ka kb); cbn [bind]; discriminate.
  - destruct (k_idx ka) as [[ia|]| |]; cbn [bind]; try discriminate.
    destruct (k_idx kb) as [[ib|]| |]; cbn [bind]; try discriminate.
    destruct (find_merge_partner all_b ka) as [[s|]| |]; cbn [bind]; try discriminate.
    destruct (find_merge_partner all_a kb) as [[s|]| |]; cbn [bind]; try discriminate.
Qed.

Lemma walk_err fuel : forall all_a all_b sp cnt pos la lb acc e,
  walk fuel all_a all_b sp cnt pos la lb acc = Val (ER e) -> e = InvalidFileMerge.
Proof.
  induction fuel as [|f IH]; intros all_a all_b sp cnt pos la lb acc e; cbn [walk]; try discriminate.
  destruct la as [|ka la']; destruct lb as [|kb lb']; try discriminate.
  destruct (merge_action all_a all_b sp pos ka kb) as [[act|e0]| |] eqn:Ea; cbn [bind]; try discriminate.
  - destruct act; apply IH.
  - intros [= <-]. eapply merge_action_err; eauto.
Qed.

(* ---------- merge_element ---------- *)
Lemma errs_restrict_a_only (P : err -> Prop) l files : errs P (restrict_a_only l files).
Proof. induction l as [|e l IH]; cbn [restrict_a_only]; errs_tac. Qed.

Lemma errs_content_insert (P : err -> Prop) self pos it : errs P (content_insert self pos it).
Proof.
  unfold content_insert. apply errs_bind; [apply errs_get_node|intros n].
  destruct (_ <? _); [apply errs_panic|apply errs_set_node].
Qed.

Lemma errs_import_new_items parent_a new_file minv : forall l idx,
  errs is_merge_err (import_new_items T parent_a l idx new_file minv).
Proof.
  induction l as [|[ne ip] l IH]; intros idx; cbn [import_new_items]; [apply errs_ret|].
  apply errs_bind; [apply errs_modify_node|intros _].
  apply errs_bind; [apply errs_modify_node|intros _].
  apply errs_bind; [apply errs_get_node|intros nn].
  apply errs_bind; [apply errs_get_node|intros pa].
  apply errs_bind; [apply errs_catch|intros [[fp lp]|e0]].
  - apply errs_bind; [apply errs_content_insert|intros _]. apply IH.
  - apply errs_fail. reflexivity.
Qed.

Lemma errs_merge_element fuel : forall pa files pb nf,
  errs is_merge_err (merge_element T LATEST name_definition_ref fuel pa files pb nf).
Proof.
  induction fuel as [|f IH]; intros pa files pb nf; cbn [merge_element]; [apply errs_fuel|].
  apply errs_bind; [apply errs_wget|intros w0].
  apply errs_bind; [apply errs_get_node|intros na].
  apply errs_bind; [apply errs_get_node|intros nb].
  apply errs_bind; [apply errs_wl|intros la].
  apply errs_bind; [apply errs_wl|intros lb].
  apply errs_bind; [apply errs_wl|intros sp].
  apply errs_bind.
  { intros w e w'. destruct (walk _ _ _ _ _ _ _ _ _) as [[wk|e0]| |] eqn:Ew; try discriminate.
    intros [= <- <-]. eapply walk_err; eauto. }
  intros wk.
  apply errs_bind; [apply errs_restrict_a_only|intros _].
  apply errs_bind; [apply errs_import_new_items|intros _].
  induction (wk_merge wk) as [|[ea eb] l IHl]; [apply errs_ret|].
  apply errs_bind; [apply errs_get_node|intros nea].
  apply errs_bind; [apply IH|intros _].
  apply errs_bind; [apply errs_modify_node|intros _].
  exact IHl.
Qed.

Lemma errs_merge_file_data m nr nf : errs is_merge_err (merge_file_data T LATEST name_definition_ref m nr nf).
Proof.
  unfold merge_file_data.
  apply errs_bind; [apply errs_get_model|intros x].
  apply errs_bind; [apply errs_wget|intros w].
  apply errs_bind; [apply errs_merge_element|intros _].
  apply errs_bind; [apply errs_get_model|intros x2].
  apply errs_modify_node.
Qed.

Lemma errs_fill_identifiables (P : err -> Prop) m t : forall l, errs P (fill_identifiables m t l).
Proof.
  induction l as [|[key pos] l IH]; cbn [fill_identifiables]; [apply errs_ret|].
  destruct (it_at t pos) as [value|]; [|apply errs_panic].
  apply errs_bind; [apply errs_wget|intros w].
  apply errs_bind; [apply errs_get_model|intros x].
  destruct (ident_live w x key); [apply IH|].
  apply errs_bind; [unfold add_identifiable; apply errs_modify_model|intros _]. apply IH.
Qed.

Lemma errs_fill_references (P : err -> Prop) m t : forall l, errs P (fill_references m t l).
Proof.
  induction l as [|[key pos] l IH]; cbn [fill_references]; [apply errs_ret|].
  destruct (it_at t pos) as [value|]; [|apply errs_panic].
  apply errs_bind; [unfold add_reference_origin; apply errs_modify_model|intros _]. apply IH.
Qed.

Lemma errs_install (P : err -> Prop) : forall e parent, errs P (install parent e).
Proof.
  fix IH 1. intros [name ty attrs content comment] parent. cbn [install].
  apply errs_bind; [apply errs_alloc|intros i].
  apply errs_bind.
  - induction content as [|[c|d] r IHr].
    + apply errs_ret.
    + apply errs_bind; [apply IH|intros t]. apply errs_bind; [exact IHr|intros [cs ts]]. apply errs_ret.
    + apply errs_bind; [exact IHr|intros [cs ts]]. apply errs_ret.
  - intros [items kids]. apply errs_bind; [apply errs_modify_node|intros _]. apply errs_ret.
Qed.

Lemma errs_dfs_ids (P : err -> Prop) f : forall i, errs P (dfs_ids f i).
Proof.
  induction f as [|f IH]; intros i; cbn [dfs_ids]; errs_tac.
  induction (n_content a) as [|[c|d] l IHl]; errs_tac; auto.
Qed.

Lemma errs_kill_unreachable (P : err -> Prop) from keep : errs P (kill_unreachable from keep).
Proof. intros w e w'. unfold kill_unreachable. intros [=]. Qed.
Lemma errs_drop_file (P : err -> Prop) f : errs P (drop_file f).
Proof. intros w e w'. unfold drop_file. intros [=]. Qed.

(* ---------- frame: nothing below the bound b is touched ---------- *)
Definition above (b : N) (w w' : world) : Prop :=
  w_next w <= w_next w' /\ (forall i, i < b -> w_nodes w' i = w_nodes w i) /\
  w_files w' = w_files w /\ w_models w' = w_models w.

Lemma above_refl b w : above b w w.
Proof. repeat split; auto. lia. Qed.
Lemma above_trans b w1 w2 w3 : above b w1 w2 -> above b w2 w3 -> above b w1 w3.
Proof.
  intros (A1 & A2 & A3 & A4) (B1 & B2 & B3 & B4). repeat split.
  - lia.
  - intros i Hi. rewrite B2, A2; auto.
  - congruence.
  - congruence.
Qed.

Lemma above_alloc b n w r w' : b <= w_next w -> alloc n w = Val (r, w') -> above b w w' /\ r = OK (w_next w).
Proof.
  intros Hb H. apply alloc_inv in H as (-> & ->). split; [|reflexivity]. repeat split; cbn.
  - lia.
  - intros i Hi. apply upd_neq. lia.
Qed.

Lemma above_modify_node b i f w r w' : b <= i -> modify_node i f w = Val (r, w') -> above b w w'.
Proof.
  intros Hb H. apply modify_node_inv in H as (n & _ & _ & ->). repeat split; cbn.
  - lia.
  - intros j Hj. apply upd_neq. lia.
Qed.

Lemma above_install b : forall e parent w r w',
  b <= w_next w -> install parent e w = Val (r, w') -> above b w w'.
Proof.
  fix IH 1. intros [name ty attrs content comment] parent w r w' Hb H.
  destruct r as [t0|e0]; [|exfalso; eapply (errs_install (fun _ => False)); eauto].
  cbn [install] in H.
  apply wbind_inv in H as [(i & w1 & H1 & H2) | (e' & H1 & [=])].
  apply above_alloc with (b := b) in H1 as (A1 & [= ->]); [|exact Hb].
  assert (Hb1 : b <= w_next w1) by (destruct A1 as (? & _); lia).
  apply wbind_inv in H2 as [([items kids] & w2 & H3 & H4) | (e' & H3 & [=])].
  assert (A2 : above b w1 w2).
  { clear H4 A1. revert items kids w1 w2 Hb1 H3.
    induction content as [|[c|d] rest IHr]; intros items kids w1 w2 Hb1 H3.
    - apply wret_inv in H3 as (_ & ->). apply above_refl.
    - apply wbind_inv in H3 as [(t & w3 & H5 & H6) | (e' & H5 & [=])].
      pose proof (IH _ _ _ _ _ Hb1 H5) as A3.
      assert (Hb3 : b <= w_next w3) by (destruct A3 as (? & _); lia).
      apply wbind_inv in H6 as [([cs ts] & w4 & H7 & H8) | (e' & H7 & [=])].
      apply wret_inv in H8 as (_ & ->).
      eapply above_trans; [exact A3|]. eapply IHr; eauto.
    - apply wbind_inv in H3 as [([cs ts] & w4 & H7 & H8) | (e' & H7 & [=])].
      apply wret_inv in H8 as (_ & ->). eapply IHr; eauto. }
  apply wbind_inv in H4 as [(u & w3 & H5 & H6) | (e' & H5 & [=])].
  apply wret_inv in H6 as (_ & ->).
  eapply above_trans; [exact A1|]. eapply above_trans; [exact A2|].
  eapply above_modify_node; [|exact H5]. exact Hb.
Qed.

Lemma fold_kill_frame keep ids : forall f j,
  ~ In j ids ->
  fold_left (fun f i => if existsb (N.eqb i) keep then f
                        else match f i with Some n => upd f i (kill n) | None => f end) ids f j = f j.
Proof.
  induction ids as [|i ids IH]; intros f j Hj; cbn [fold_left]; [reflexivity|].
  rewrite IH by (intros Hin; apply Hj; right; exact Hin).
  destruct (existsb (N.eqb i) keep); [reflexivity|].
  destruct (f i); [|reflexivity]. apply upd_neq. intros ->. apply Hj. left. reflexivity.
Qed.

Lemma n_range_ge k : forall from j, In j (n_range k from) -> from <= j.
Proof.
  induction k as [|k IH]; intros from j; cbn [n_range]; [intros []|].
  intros [<-|H]; [lia|]. apply IH in H. lia.
Qed.

Lemma above_kill_unreachable b from keep w r w' :
  b <= from -> kill_unreachable from keep w = Val (r, w') -> above b w w'.
Proof.
  intros Hb H. unfold kill_unreachable in H. injection H as _ <-. repeat split; cbn.
  - lia.
  - intros i Hi. apply fold_kill_frame. intros Hin. apply n_range_ge in Hin. lia.
Qed.

Lemma above_obs w w' : above (w_next w) w w' -> obs_eq_upto_garbage w w'.
Proof. intros (A1 & A2 & A3 & A4). repeat split; auto. Qed.

Definition is_load_parsed_err (e : err) : Prop := e = InvalidFileMerge \/ e = OverlappingDataError.

(* the merge branch of load_buffer_internal: the error of merge_file_data is re-raised after the rollback attempt *)
Lemma merge_branch_err m root_element fid :
  errs is_merge_err
    (wbind (wcatch (merge_file_data T LATEST name_definition_ref m root_element fid))
           (fun mr => match mr with
                      | OK _ => wret tt
                      | ER e => wbind (get_model m) (fun x1 =>
                                wbind (wtry (e_remove_from_file T (m_root x1) fid)) (fun _ => wfail e))
                      end)).
Proof.
  intros w e w' H.
  apply wbind_inv in H as [(mr & w1 & H1 & H2) | (e' & H1 & _)].
  2:{ apply wcatch_inv in H1 as (r0 & _ & [=]). }
  apply wcatch_inv in H1 as (r0 & H1 & [= <-]).
  destruct mr as [u|e1].
  - apply wret_inv in H2 as [[=] _].
  - apply errs_merge_file_data in H1. red in H1. subst e1.
    apply wbind_inv in H2 as [(x1 & w6 & H6 & H7) | (e' & H6 & _)].
    2:{ apply get_model_inv in H6 as (? & _ & [=] & _). }
    apply wbind_inv in H7 as [(u & w7 & H8 & H9) | (e' & H8 & _)].
    2:{ apply wtry_inv in H8 as (? & _ & [=]). }
    apply wfail_inv in H9 as ([= ->] & _). reflexivity.
Qed.

(* the stage whose result load_buffer_internal inspects: root replacement or merge, then the two index fills *)
Definition merge_stage (m : N) (x : model) (root_element fid : N) (t : itree) (st : Parser.pstate) : W unit :=
  ((if is_empty (m_files x) then
      modify_node root_element (fun n => set_parent n (PModel m));;
      modify_node root_element (fun n => set_files n (set_add fid (n_files n)));;
      modify_model m (fun y => set_root y root_element)
    else
      do mr <- wcatch (merge_file_data T LATEST name_definition_ref m root_element fid);
      match mr with
      | OK _ => wret tt
      | ER e => do x1 <- get_model m;
                do _ <- wtry (e_remove_from_file T (m_root x1) fid);
                wfail e
      end);;
   fill_identifiables m t (rev (Parser.p_idents st));;
   fill_references m t (rev (Parser.p_refs st));;
   modify_model m (fun y => set_mfiles y (m_files y ++ [fid])))%W.

Lemma errs_merge_stage m x root_element fid t st : errs is_merge_err (merge_stage m x root_element fid t st).
Proof.
  unfold merge_stage. apply errs_bind.
  - destruct (is_empty (m_files x)).
    + errs_tac.
    + apply merge_branch_err.
  - intros _. apply errs_bind; [apply errs_fill_identifiables|intros _].
    apply errs_bind; [apply errs_fill_references|intros _]. apply errs_modify_model.
Qed.

(* the errors of everything after the parse *)
Lemma errs_load_parsed m filename root st :
  errs is_load_parsed_err (load_parsed T LATEST name_definition_ref m filename root st).
Proof.
  unfold load_parsed.
  apply errs_bind; [apply errs_wget|intros w0].
  apply errs_bind; [apply errs_install|intros t].
  apply errs_bind; [apply errs_wget|intros w1].
  apply errs_bind; [apply errs_get_model|intros x0].
  apply errs_bind; [apply errs_wl|intros ov].
  destruct ov.
  { apply errs_bind; [apply errs_kill_unreachable|intros _]. apply errs_fail. right. reflexivity. }
  apply errs_bind; [apply errs_wput|intros _].
  apply errs_bind; [apply errs_get_model|intros x].
  fold (merge_stage m x (it_id t) (N.of_nat (List.length (w_files w0))) t st).
  intros w e w' H.
  apply wbind_inv in H as [(r & w2 & H1 & H2) | (e' & H1 & _)].
  2:{ apply wcatch_inv in H1 as (r0 & _ & [=]). }
  apply wcatch_inv in H1 as (r0 & H1 & [= <-]).
  apply wbind_inv in H2 as [(x3 & w3 & H3 & H4) | (e' & H3 & _)].
  2:{ apply get_model_inv in H3 as (? & _ & [=] & _). }
  apply wbind_inv in H4 as [(w3' & w4 & H5 & H6) | (e' & H5 & _)].
  2:{ apply wget_inv in H5 as ([=] & _). }
  apply wbind_inv in H6 as [(keep & w5 & H7 & H8) | (e' & H7 & _)].
  2:{ eapply (errs_dfs_ids (fun _ => False)) in H7. destruct H7. }
  apply wbind_inv in H8 as [(u & w6 & H9 & H10) | (e' & H9 & _)].
  2:{ unfold kill_unreachable in H9. discriminate. }
  destruct r as [u0|e0].
  - apply wret_inv in H10 as ([=] & _).
  - apply errs_merge_stage in H1. red in H1. subst e0.
    apply wbind_inv in H10 as [(u1 & w7 & H11 & H12) | (e' & H11 & _)].
    2:{ unfold drop_file in H11. discriminate. }
    apply wfail_inv in H12 as ([= ->] & _). left. reflexivity.
Qed.

(* a load that is rejected by the overlap check: nothing that existed is changed *)
Lemma load_parsed_overlap_frame m filename root st w w' :
  load_parsed T LATEST name_definition_ref m filename root st w = Val (ER OverlappingDataError, w') ->
  obs_eq_upto_garbage w w'.
Proof.
  unfold load_parsed. intros H.
  apply wbind_inv in H as [(w0 & w0' & H0 & H) | (e' & H0 & _)].
  2:{ apply wget_inv in H0 as ([=] & _). }
  apply wget_inv in H0 as (E0 & E0'). injection E0 as E0. subst w0 w0'.
  apply wbind_inv in H as [(t & w1 & H1 & H) | (e' & H1 & _)].
  2:{ exfalso. eapply (errs_install (fun _ => False)); eauto. }
  pose proof (above_install (w_next w) _ _ _ _ _ (N.le_refl _) H1) as A1.
  apply wbind_inv in H as [(w1' & w1'' & H2 & H) | (e' & H2 & _)].
  2:{ apply wget_inv in H2 as ([=] & _). }
  apply wget_inv in H2 as (E2 & E2'). injection E2 as E2. subst w1' w1''.
  apply wbind_inv in H as [(x0 & w2 & H3 & H) | (e' & H3 & _)].
  2:{ apply get_model_inv in H3 as (? & _ & [=] & _). }
  apply get_model_inv in H3 as (x0' & _ & _ & E3). subst w2.
  apply wbind_inv in H as [(ov & w3 & H4 & H) | (e' & H4 & _)].
  2:{ apply wl_inv in H4 as (? & _ & [=] & _). }
  apply wl_inv in H4 as (ov' & _ & _ & E4). subst w3.
  destruct ov.
  - apply wbind_inv in H as [(u & w4 & H5 & H) | (e' & H5 & _)].
    2:{ unfold kill_unreachable in H5. discriminate. }
    apply wfail_inv in H as (_ & ->).
    apply above_obs. eapply above_trans; [exact A1|].
    eapply above_kill_unreachable; [|exact H5]. lia.
  - (* the later stages return merge errors only *)
    exfalso.
    apply wbind_inv in H as [(u & w4 & H5 & H) | (e' & H5 & _)].
    2:{ unfold wput in H5. discriminate. }
    apply wbind_inv in H as [(x & w5 & H6 & H) | (e' & H6 & _)].
    2:{ apply get_model_inv in H6 as (? & _ & [=] & _). }
    fold (merge_stage m x (it_id t) (N.of_nat (List.length (w_files w))) t st) in H.
    apply wbind_inv in H as [(r & w6 & H7 & H) | (e' & H7 & _)].
    2:{ apply wcatch_inv in H7 as (r0 & _ & [=]). }
    apply wcatch_inv in H7 as (r0 & H7 & [= <-]).
    apply wbind_inv in H as [(x3 & w7 & H8 & H) | (e' & H8 & _)].
    2:{ apply get_model_inv in H8 as (? & _ & [=] & _). }
    apply wbind_inv in H as [(w8 & w8' & H9 & H) | (e' & H9 & _)].
    2:{ apply wget_inv in H9 as ([=] & _). }
    apply wbind_inv in H as [(keep & w9 & H10 & H) | (e' & H10 & _)].
    2:{ eapply (errs_dfs_ids (fun _ => False)) in H10. destruct H10. }
    apply wbind_inv in H as [(u2 & w10 & H11 & H) | (e' & H11 & _)].
    2:{ unfold kill_unreachable in H11. discriminate. }
    destruct r as [u0|e0].
    + apply wret_inv in H as ([=] & _).
    + apply errs_merge_stage in H7. red in H7. subst e0.
      apply wbind_inv in H as [(u1 & w11 & H12 & H13) | (e' & H12 & _)].
      2:{ unfold drop_file in H12. discriminate. }
      apply wfail_inv in H13 as ([=] & _).
Qed.

(* C11, load half: every rejected load except a merge conflict leaves everything that existed unchanged *)
Theorem load_fail_no_effect m buffer filename strict w e w' :
  m_load_buffer T tab_el tab_at tab_en check_fn float_parse LATEST name_definition_ref m buffer filename strict w
    = Val (ER e, w') ->
  e <> InvalidFileMerge ->
  obs_eq_upto_garbage w w' /\ (e = OverlappingDataError \/ w' = w).
Proof.
  unfold m_load_buffer. intros H Hne.
  apply wbind_inv in H as [(x & w1 & H1 & H) | (e' & H1 & _)].
  2:{ apply get_model_inv in H1 as (? & _ & [=] & _). }
  apply get_model_inv in H1 as (x' & _ & _ & E1). subst w1.
  apply wbind_inv in H as [(w0 & w2 & H2 & H) | (e' & H2 & _)].
  2:{ apply wget_inv in H2 as ([=] & _). }
  apply wget_inv in H2 as (E2 & E2'). injection E2 as E2. subst w0 w2.
  destruct (existsb _ (m_files x)).
  { apply wfail_inv in H as (_ & ->). split; [apply above_obs, above_refl|right; reflexivity]. }
  destruct (Parser.load _ _ _ _ _ _ _ _) as [[root st|pe st]| |]; try discriminate.
  - apply wbind_inv in H as [(f & w3 & H3 & H) | (e' & H3 & [= <-])].
    { apply wret_inv in H as ([=] & _). }
    pose proof (errs_load_parsed _ _ _ _ _ _ _ H3) as [->| ->]; [congruence|].
    split; [|left; reflexivity]. eapply load_parsed_overlap_frame; eauto.
  - apply wfail_inv in H as (_ & ->). split; [apply above_obs, above_refl|right; reflexivity].
Qed.

(* by stage: duplicate file name *)
Lemma load_duplicate_name m buffer filename strict w x :
  nth_opt (w_models w) (N.to_nat m) = Some x ->
  existsb (fun f => match nth_opt (w_files w) (N.to_nat f) with Some fl => bytes_eqb (f_name fl) filename | None => false end)
          (m_files x) = true ->
  m_load_buffer T tab_el tab_at tab_en check_fn float_parse LATEST name_definition_ref m buffer filename strict w
    = Val (ER DuplicateFilenameError, w).
Proof.
  intros Hx Hd. unfold m_load_buffer, wbind, get_model, wget. rewrite Hx, Hd. reflexivity.
Qed.

(* by stage: the parser rejects the buffer (lexer or parser error, strict or not) *)
Lemma load_parse_error m buffer filename strict w x pe st :
  nth_opt (w_models w) (N.to_nat m) = Some x ->
  Parser.load strict T tab_el tab_at tab_en check_fn float_parse buffer = Val (Parser.Raise pe st) ->
  exists e, m_load_buffer T tab_el tab_at tab_en check_fn float_parse LATEST name_definition_ref m buffer filename strict w
              = Val (ER e, w) /\ (e = LoadError \/ e = DuplicateFilenameError).
Proof.
  intros Hx Hp. unfold m_load_buffer, wbind, get_model, wget. rewrite Hx.
  destruct (existsb _ (m_files x)).
  - exists DuplicateFilenameError. split; [reflexivity|right; reflexivity].
  - rewrite Hp. exists LoadError. split; [reflexivity|left; reflexivity].
Qed.

End Proofs.
