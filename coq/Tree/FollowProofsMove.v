(* Tree/FollowProofsMove.v — C06 proofs, layer 3: move_element_local, the moved element being identifiable.
     dfs_covers / named_paths_covers   the snapshot `original_paths` contains the path of every identifiable element
                                        of the moved subtree
     unique_loop_free                  the name chosen by make_unique_item_name gives a path that is not in the index *)
From Coq Require Import Lia.
From AV Require Import Base.Bytes Base.Outcome Hash.HashModel Tree.Heap Tree.Ops Tree.Script Tree.Index Tree.Refs
  Tree.IndexProofsW Tree.IndexProofsBase Tree.IndexProofsAssoc Tree.Follow Tree.FollowProofsPath Tree.FollowProofsLoop
  Tree.FollowProofsLoopG Tree.FollowProofsRename.
Open Scope string_scope.
Open Scope list_scope.
Open Scope N_scope.

Ltac wk H := lazymatch type of H with
  | wbind ?m ?k ?w = Val (OK ?r, ?w') =>
    let a := fresh "a" in let w1 := fresh "w" in let E := fresh "E" in let e := fresh "e" in let Q := fresh "Q" in
    apply wbind_inv in H as [(a & w1 & E & H) | (e & E & Q)]; [ try ro_subst E | discriminate Q ]
  end.

Section Move.
Variable T : tables.
Variable tab_el tab_en : nametab.
Variable check_fn : N -> list N -> res bool.
Variable LATEST : N.

(* downward reachability, head first *)
Inductive creach (w : world) : id -> id -> Prop :=
| cr_refl a : creach w a a
| cr_step a c x : child_of w a c -> creach w c x -> creach w a x.

Lemma creach_snoc w a p x : creach w a p -> child_of w p x -> creach w a x.
Proof. induction 1 as [a|a c p Hc Hr IH]; intros Hx; [econstructor; [exact Hx|constructor]|econstructor; eauto]. Qed.

Lemma reach_creach w a x : reach T w a x -> creach w a x.
Proof. intros (q & Hd). induction Hd as [|p c q Hp IH Hc]; [constructor|eapply creach_snoc; eauto]. Qed.

(* the pre-order walk lists every element of the subtree *)
Lemma dfs_covers w a x : creach w a x -> forall f ids, dfs_ids f a w = Val (OK ids, w) -> In x ids.
Proof.
  induction 1 as [a|a c x Hc Hr IH]; intros f ids H; destruct f as [|f]; try discriminate H; cbn [dfs_ids] in H.
  - wk H. wk H. apply wret_inv in H as ([= ->] & _). left. reflexivity.
  - wk H. apply get_node_inv in E as (n & Hn & Q & _). injection Q as <-.
    wk H. apply wret_inv in H as ([= ->] & _). right.
    destruct Hc as (n0 & Hn0 & Hin). assert (n0 = a0) by congruence. subst n0.
    match type of E with ?kids _ _ = _ =>
      assert (Hk : forall l rest w0, kids l w = Val (OK rest, w0) -> w0 = w /\
                   forall c0, In (CElem c0) l -> exists idsc, dfs_ids f c0 w = Val (OK idsc, w) /\ incl idsc rest) end.
    { clear. induction l as [|[c1|d] l IHl]; intros rest w0 H.
      - apply wret_inv in H as (_ & ->). split; [reflexivity|intros c0 []].
      - wk H. wk H. destruct (IHl _ _ E0) as (-> & IHc).
        apply wret_inv in H as ([= ->] & ->). split; [reflexivity|]. intros c0 [[= <-]|Hin].
        + exists a. split; [exact E|]. apply incl_appl. apply incl_refl.
        + destruct (IHc c0 Hin) as (idsc & H1 & H2). exists idsc. split; [exact H1|]. apply incl_appr. exact H2.
      - destruct (IHl _ _ H) as (-> & IHc). split; [reflexivity|]. intros c0 [Q|Hin]; [discriminate Q|]. eapply IHc; eauto. }
    destruct (Hk _ _ _ E) as (-> & Hk2).
    destruct (Hk2 c Hin) as (idsc & H1 & H2). apply H2. eapply IH. exact H1.
Qed.

(* the snapshot holds the path of every identifiable element of the walk *)
Lemma named_paths_covers w : forall ids orig,
  named_paths T ids w = Val (OK orig, w) ->
  forall x n p, In x ids -> w_nodes w x = Some n -> is_named T (n_type n) = Val true ->
                path_of T n w = Val (OK p, w) -> In (p, x) orig.
(* (when the snapshot was computed at all, path_of returned a value for every named element: named_paths_val) *)
Proof.
  induction ids as [|i ids IH]; intros orig H x n p Hin Hn Hnamed Hp; [destruct Hin|].
  cbn [named_paths] in H. wk H. apply get_node_inv in E as (ni & Hni & Q & _). injection Q as ->.
  wk H. apply wl_inv in E as (b & Hb & Q & _). injection Q as ->.
  wk H. match goal with E : named_paths T ids w = Val (OK ?r, w) |- _ => rename E into Erest; rename r into rest end.
  assert (Hrest : In x ids -> In (p, x) rest) by (intros; eapply IH; eauto).
  destruct Hin as [<-|Hin].
  - assert (ni = n) by congruence. subst ni. assert (b = true) by congruence. subst b.
    wk H. match goal with E : wtry _ _ = _ |- _ => apply wtry_inv in E as (r0 & Er & Q) end.
    rewrite Hp in Er. injection Er as <-. injection Q as ->.
    apply wret_inv in H as ([= ->] & _). left. reflexivity.
  - destruct b.
    + wk H. apply wret_inv in H as ([= ->] & _).
      match goal with |- In _ (match ?o with _ => _ end) => destruct o end; [right|]; auto.
    + apply wret_inv in H as ([= ->] & _). auto.
Qed.

(* the loop of make_unique_item_name stops at a name whose path is free *)
Lemma unique_loop_free f m pp orig : forall name counter w nm c,
  unique_loop f m pp orig name counter w = Val (OK (nm, c), w) ->
  get_element_by_path m (pp ++ [47] ++ nm) w = Val (OK None, w).
Proof.
  induction f as [|f IH]; intros name counter w nm c H; [discriminate H|]. cbn [unique_loop] in H.
  wk H. destruct a as [ex|].
  - eapply IH. exact H.
  - apply wret_inv in H as ([= -> ->] & _). exact E.
Qed.

Lemma named_paths_val w : forall ids orig,
  named_paths T ids w = Val (OK orig, w) ->
  forall x n, In x ids -> w_nodes w x = Some n -> is_named T (n_type n) = Val true ->
              exists r0, path_of T n w = Val (r0, w).
Proof.
  induction ids as [|i ids IH]; intros orig H x n Hin Hn Hnamed; [destruct Hin|].
  cbn [named_paths] in H. wk H. apply get_node_inv in E as (ni & Hni & Q & _). injection Q as ->.
  wk H. apply wl_inv in E as (b & Hb & Q & _). injection Q as ->.
  wk H. destruct Hin as [<-|Hin]; [|eapply IH; eauto].
  assert (ni = n) by congruence. subst ni. assert (b = true) by congruence. subst b.
  wk H. match goal with E : wtry _ _ = _ |- _ => apply wtry_inv in E as (r0 & Er & Q) end. eauto.
Qed.

(* conversely: the walk lists only elements of the subtree *)
Lemma dfs_sound f : forall a w ids, dfs_ids f a w = Val (OK ids, w) -> forall x, In x ids -> creach w a x.
Proof.
  induction f as [|f IH]; intros a w ids H x Hx; [discriminate H|]. cbn [dfs_ids] in H.
  wk H. apply get_node_inv in E as (n & Hn & Q & _). injection Q as ->.
  wk H. apply wret_inv in H as ([= ->] & _). destruct Hx as [<-|Hx]; [constructor|].
  match type of E with ?kids _ _ = _ =>
    assert (Hk : forall l rest w0, kids l w = Val (OK rest, w0) -> w0 = w /\
                 forall y, In y rest -> exists c0, In (CElem c0) l /\ creach w c0 y) end.
  { clear - IH. induction l as [|[c1|d] l IHl]; intros rest w0 H.
    - apply wret_inv in H as ([= ->] & ->). split; [reflexivity|intros y []].
    - wk H. wk H. destruct (IHl _ _ E0) as (-> & IHc).
      apply wret_inv in H as ([= ->] & ->). split; [reflexivity|]. intros y Hy. apply in_app_or in Hy as [Hy|Hy].
      + exists c1. split; [left; reflexivity|]. eapply IH; eauto.
      + destruct (IHc y Hy) as (c0 & H1 & H2). exists c0. split; [right; exact H1|exact H2].
    - destruct (IHl _ _ H) as (-> & IHc). split; [reflexivity|]. intros y Hy.
      destruct (IHc y Hy) as (c0 & H1 & H2). exists c0. split; [right; exact H1|exact H2]. }
  destruct (Hk _ _ _ E) as (-> & Hk2). destruct (Hk2 x Hx) as (c0 & H1 & H2).
  econstructor; [|exact H2]. exists n. split; assumption.
Qed.

Lemma creach_reach w a x : creach w a x -> reach T w a x.
Proof.
  induction 1 as [a|a c x Hc Hr IH]; [apply reach_refl|].
  eapply reach_trans; [|exact IH]. eapply reach_step; [apply reach_refl|exact Hc].
Qed.

(* every entry of the snapshot is the path of an element of the walk *)
Lemma named_paths_sound w : forall ids orig,
  named_paths T ids w = Val (OK orig, w) ->
  forall p x, In (p, x) orig -> In x ids /\ exists n, w_nodes w x = Some n /\ path_of T n w = Val (OK p, w).
Proof.
  induction ids as [|i ids IH]; intros orig H p x Hin.
  - apply wret_inv in H as ([= ->] & _). destruct Hin.
  - cbn [named_paths] in H. wk H. apply get_node_inv in E as (ni & Hni & Q & _). injection Q as ->.
    wk H. apply wl_inv in E as (b & Hb & Q & _). injection Q as ->.
    wk H. match goal with E : named_paths T ids w = Val (OK ?r, w) |- _ => rename E into Erest; rename r into rest end.
    assert (Hrest : In (p, x) rest -> In x (i :: ids) /\ exists n, w_nodes w x = Some n /\ path_of T n w = Val (OK p, w)).
    { intros Hr. destruct (IH _ Erest p x Hr) as (H1 & H2). split; [right; exact H1|exact H2]. }
    destruct b.
    + wk H. match goal with E : wtry _ _ = _ |- _ => apply wtry_inv in E as (r0 & Er & Q) end.
      injection Q as ->. apply wret_inv in H as ([= ->] & _).
      destruct r0 as [p0|e0]; [|auto]. destruct Hin as [[= <- <-]|Hin]; [|auto].
      split; [left; reflexivity|]. exists ni. split; [exact Hni|].
      exact Er.
    + apply wret_inv in H as ([= ->] & _). auto.
Qed.

(* the inner loop of the move: every referrer of the list gets the new text (each write is validated and succeeded) *)
Section InnerMove.
Variable loop : list id -> W unit.
Variable p' : list N.
Variable version : N.
Hypothesis loop_nil : loop [] = wret tt.
Hypothesis loop_cons : forall re rr,
  loop (re :: rr) = (raw_set_character_data T check_fn re (DString p') version;; loop rr)%W.

Lemma inner_sem_move : forall rl w w',
  loop rl w = Val (OK tt, w') ->
  w_next w' = w_next w /\ w_files w' = w_files w /\ w_models w' = w_models w /\
  (forall i, In i rl -> w_nodes w' i = option_map (rewrite_head p') (w_nodes w i)) /\
  (forall i, ~ In i rl -> w_nodes w' i = w_nodes w i).
Proof.
  induction rl as [|re rr IH]; intros w w' H.
  - rewrite loop_nil in H. apply wret_inv in H as (_ & ->). repeat split; auto. intros i [].
  - rewrite loop_cons in H. apply wbind_inv in H as [(u & w1 & E & H)|(e & _ & [=])]. destruct u.
    destruct (raw_set_cd_ok T check_fn _ _ _ _ _ E) as (rn & cs & Hrn & _ & _ & ->).
    assert (Hrw : set_content rn (match n_content rn with [] => [CData (DString p')] | _ :: r => CData (DString p') :: r end)
                  = rewrite_head p' rn).
    { unfold rewrite_head. destruct (n_content rn); reflexivity. }
    rewrite Hrw in H.
    destruct (IH _ _ H) as (H1 & H2 & H3 & H4 & H5). cbn [w_next w_files w_models w_nodes] in *.
    repeat split; auto.
    + intros i [<-|Hi].
      * destruct (in_dec N.eq_dec re rr) as [Hin|Hnin].
        -- rewrite H4 by exact Hin. rewrite upd_eq, Hrn. reflexivity.
        -- rewrite H5 by exact Hnin. rewrite upd_eq, Hrn. reflexivity.
      * rewrite H4 by exact Hi. destruct (N.eq_dec i re) as [->|Hne].
        -- rewrite upd_eq, Hrn. reflexivity.
        -- rewrite upd_neq by exact Hne. reflexivity.
    + intros i Hi. rewrite H5 by (intros Hx; apply Hi; right; exact Hx).
      apply upd_neq. intros ->. apply Hi. left. reflexivity.
Qed.
End InnerMove.

(* ---------- move_element_local, the moved element identifiable ---------- *)
Lemma no_self_parent w i n : TreeFacts w -> w_nodes w i = Some n -> n_parent n <> PElem i.
Proof.
  intros HT Hn Hp. destruct (tf_depth _ HT i n Hn) as (h & Hd).
  assert (Hd2 : pdepth w i (S h)) by (econstructor; eauto).
  pose proof (pdepth_fun w i _ Hd _ Hd2). lia.
Qed.

Lemma ref_text_content w i p ni :
  ref_text T w i = Some p -> w_nodes w i = Some ni -> n_content ni = [CData (DString p)] /\ isref T (n_type ni) = true.
Proof.
  intros Hr Hn. unfold ref_text in Hr. rewrite Hn in Hr. destruct (isref T (n_type ni)); [|discriminate].
  split; [|reflexivity]. unfold cdata_of, character_data in Hr.
  destruct (n_content ni) as [|[c|d] [|y tl0]]; try discriminate.
  destruct (content_mode T (n_type ni)) as [mode| |]; cbn in Hr; try discriminate.
  destruct ((mode =? MCharacters) || (mode =? MMixed)); [|discriminate].
  destruct d; try discriminate. injection Hr as ->. reflexivity.
Qed.

(* identifiable-by-structure depends on the node's type and content and on the element NAMES of the heap only *)
Lemma identifiable_n_same w w2 n n2 :
  (forall i, option_map n_name (w_nodes w2 i) = option_map n_name (w_nodes w i)) ->
  n_type n2 = n_type n -> n_content n2 = n_content n ->
  identifiable_n T w2 n2 = identifiable_n T w n.
Proof.
  intros Hnames Hty Hct. unfold identifiable_n, short_child. rewrite Hty, Hct.
  destruct (n_content n) as [|[s|d] rest]; try reflexivity.
  specialize (Hnames s). destruct (w_nodes w2 s) as [a|], (w_nodes w s) as [b|]; cbn in Hnames; try discriminate; [|reflexivity].
  injection Hnames as ->. destruct (n_name b =? name_short_name T); reflexivity.
Qed.

(* what make_unique_item_name does when it succeeds: the chosen name gives a free path; only the SHORT-NAME element
   (first child) may have been rewritten *)
Lemma make_unique_ok i m pp w nm w3 :
  make_unique_item_name T i m pp w = Val (OK nm, w3) ->
  exists ni x, w_nodes w i = Some ni /\ model_at w m = Some x /\
    assoc_get (pp ++ [47] ++ nm) (m_idents x) = None /\
    w_models w3 = w_models w /\ w_next w3 = w_next w /\ w_files w3 = w_files w /\
    (forall j, (forall s rest, n_content ni = CElem s :: rest -> j <> s) -> w_nodes w3 j = w_nodes w j) /\
    (forall j, option_map n_name (w_nodes w3 j) = option_map n_name (w_nodes w j)).
Proof.
  intros H. unfold make_unique_item_name in H.
  wk H. apply get_node_inv in E as (ni & Hni & Q & _). injection Q as ->.
  wk H. destruct a as [orig|]; [|discriminate H].
  wk H. apply get_model_inv in E0 as (x & Hx & Q & _). injection Q as ->.
  wk H. destruct a as (name, counter).
  apply unique_loop_free in E0. unfold get_element_by_path in E0. wk E0.
  apply get_model_inv in E1 as (x2 & Hx2 & Q & _). injection Q as ->. assert (x2 = x) by congruence. subst x2.
  apply wret_inv in E0 as ([= Hfree] & _).
  wk H. apply wret_inv in H as ([= ->] & ->).
  exists ni, x. split; [exact Hni|]. split; [exact Hx|]. split; [symmetry; exact Hfree|].
  match goal with E : (if _ then _ else _) w = Val _ |- _ => rename E into E1 end.
  destruct (1 <? counter).
  - destruct (n_content ni) as [|[s|d] rest] eqn:Ec; try (apply wret_inv in E1 as (_ & ->); repeat split; auto).
    apply modify_node_inv in E1 as (sn & Hs & _ & ->). cbn [w_models w_next w_files w_nodes]. repeat split; auto.
    + intros j Hj. apply upd_neq. eapply Hj. reflexivity.
    + intros j. unfold upd. destruct (j =? s) eqn:Ej; [|reflexivity]. apply N.eqb_eq in Ej. subst j. rewrite Hs. reflexivity.
  - apply wret_inv in E1 as (_ & ->). repeat split; auto.
Qed.

Theorem move_local_ident self mv pos m version w w' r :
  Inv06 T check_fn w ->
  move_element_local T check_fn self mv pos m version w = Val (OK r, w') ->
  MReach T w m mv -> identifiable T w mv = true ->
  (forall n, w_nodes w self = Some n -> isref T (n_type n) = false) ->
  exists src dest xm x',
    SpecPath T w m mv src /\ model_at w m = Some xm /\ model_at w' m = Some x' /\
    (forall k2 e, assoc_get k2 (m_idents x') = Some e <->
       (exists k, rekey src dest k = Some k2 /\ assoc_get k (m_idents xm) = Some e)
       \/ (rekey src dest k2 = None /\ assoc_get k2 (m_idents xm) = Some e)) /\
    (forall rf p x, ref_text T w rf = Some p -> MReach T w m rf -> assoc_get p (m_idents xm) = Some x ->
       reach T w mv x -> exists suf, p = src ++ suf /\ ref_text T w' rf = Some (dest ++ suf)) /\
    (forall rf p, ref_text T w rf = Some p -> (~ MReach T w m rf \/ rekey src dest p = None) ->
       ref_text T w' rf = Some p).
Proof.
  intros (HT & H4 & H5) H HRmv Hid Hselfref. unfold move_element_local in H.
  wk H. apply get_node_inv in E as (n & Hn & Q & _). injection Q as ->.
  wk H. apply wget_inv in E as ([= ->] & _).
  wk H. destruct a; [discriminate H|].
  wk H. apply get_node_inv in E0 as (mn & Hmn & Q & _). injection Q as ->.
  wk H. destruct a as [src_parent|]; [|discriminate H].
  wk H. wk H. wk H. destruct a1; [discriminate H|].
  wk H. wk H.
  match goal with E : dfs_ids _ mv w = Val (OK ?x, w) |- _ => rename E into Edfs; rename x into ids end.
  match goal with E : named_paths T ids w = Val (OK ?x, w) |- _ => rename E into Enp; rename x into orig end.
  match goal with E : path_unchecked T mn w = Val (OK ?x, w) |- _ => rename E into Esrc; rename x into src end.
  match goal with E : path_unchecked T n w = Val (OK ?x, w) |- _ => rename E into Edst; rename x into dpre end.
  match goal with E : parent_of mn w = _ |- _ => rename E into Epar end.
  (* facts about the world before the move *)
  destruct (path_unchecked_spec T w m mv mn HT Hmn HRmv) as (_ & Hps).
  destruct (Hps _ _ Esrc) as (_ & (src0 & [= <-] & Hsp)).
  assert (Hpar : n_parent mn = PElem src_parent).
  { unfold parent_of in Epar. destruct (n_parent mn); try discriminate Epar.
    apply wret_inv in Epar as ([= ->] & _). reflexivity. }
  assert (Hmsp : mv <> src_parent) by (intros <-; exact (no_self_parent w mv mn HT Hmn Hpar)).
  assert (Hidn : identifiable_n T w mn = true) by (unfold identifiable in Hid; rewrite Hmn in Hid; exact Hid).
  pose proof Hidn as Hidn0. unfold identifiable_n in Hidn0. apply andb_true_iff in Hidn0 as (Hnamed & Hsc).
  unfold short_child in Hsc. destruct (n_content mn) as [|[s|d0] rest0] eqn:Ecmn; try discriminate Hsc.
  destruct (w_nodes w s) as [sn|] eqn:Hsn; [|discriminate Hsc].
  destruct (n_name sn =? name_short_name T) eqn:Esn; [|discriminate Hsc]. apply N.eqb_eq in Esn. clear Hsc.
  destruct (i4_short _ _ _ H4 s sn Hsn Esn) as (_ & Hsref & _).
  pose proof (slashfree_names T w (i4_slash _ _ _ H4)) as HNS.
  (* detach *)
  wk H. rename E0 into Edet. unfold detach_from in Edet. wk Edet.
  apply get_node_inv in E0 as (pn & Hpn & Q & _). injection Q as ->.
  destruct (index_of (citem_is mv) (n_content pn)) as [kpos|] eqn:Eidx; [|discriminate Edet].
  apply set_node_inv in Edet as (_ & ->).
  (* re-parent *)
  wk H. apply modify_node_inv in E0 as (n1 & Hn1 & _ & ->). cbn [w_nodes] in Hn1. rewrite upd_neq in Hn1 by exact Hmsp.
  assert (n1 = mn) by congruence. subst n1. clear Hn1.
  wk H. apply get_node_inv in E0 as (mn2 & Hmn2 & Q & _). injection Q as ->.
  cbn [w_nodes] in Hmn2. rewrite upd_eq in Hmn2. injection Hmn2 as <-.
  match type of H with wbind _ _ ?ww = _ => set (w2 := ww) in * end.
  assert (Hw2m : w_models w2 = w_models w) by reflexivity.
  assert (Hw2n : forall i, i <> mv -> i <> src_parent -> w_nodes w2 i = w_nodes w i).
  { intros i H1 H2. unfold w2. cbn [w_nodes]. rewrite !upd_neq by assumption. reflexivity. }
  assert (Hw2names : forall i, option_map n_name (w_nodes w2 i) = option_map n_name (w_nodes w i)).
  { intros i. unfold w2. cbn [w_nodes]. unfold upd.
    destruct (i =? mv) eqn:E1; [apply N.eqb_eq in E1; subst i; rewrite Hmn; reflexivity|].
    destruct (i =? src_parent) eqn:E2; [apply N.eqb_eq in E2; subst i; rewrite Hpn; reflexivity|reflexivity]. }
  (* the moved element is still identifiable *)
  wk H. apply (is_identifiable_val T) in E0 as (_ & [= ->]).
  rewrite (identifiable_n_same w w2 mn (set_parent mn (PElem self)) Hw2names eq_refl eq_refl), Hidn in H.
  (* the unique name *)
  wk H. wk E0. apply wret_inv in E0 as ([= ->] & ->).
  match goal with E : make_unique_item_name _ _ _ _ _ = Val (OK ?x, _) |- _ => rename E into Emu; rename x into nm end.
  destruct (make_unique_ok _ _ _ _ _ _ Emu) as (ni & xm & Hni & Hxm2 & Hfree & M1 & M2 & M3 & M4 & M5).
  assert (ni = set_parent mn (PElem self)) by (unfold w2 in Hni; cbn [w_nodes] in Hni; rewrite upd_eq in Hni; congruence).
  subst ni. cbn [set_parent n_content] in M4. rewrite Ecmn in M4.
  assert (Hxm : model_at w m = Some xm) by (unfold model_at in *; rewrite <- Hw2m; exact Hxm2).
  set (dest := dpre ++ [47] ++ nm) in *.
  (* re-keying of the index *)
  wk H. unfold fix_identifiables in E0. apply modify_model_inv in E0 as (xm1 & Hxm1 & _ & ->).
  rewrite M1, Hw2m in Hxm1. assert (xm1 = xm) by (unfold model_at in Hxm; congruence). subst xm1.
  destruct (rekey_all src dest (m_idents xm) (i4_nodup _ _ _ H4 m xm Hxm)) as (_ & Hget).
  { eapply rekey_fresh; eauto.
    - exact (i4_exact _ _ _ H4 m).
    - unfold dest. intros Enil. apply app_eq_nil in Enil as (_ & Enil). discriminate Enil. }
  (* the referrer loop *)
  wk H. rename E0 into Eloop.
  (* insertion into the destination *)
  wk H. rename E0 into Eins. apply wret_inv in H as (_ & <-).
  unfold content_insert in Eins. wk Eins. apply get_node_inv in E0 as (n5 & Hn5 & Q & _). injection Q as ->.
  match type of Eins with (if ?b then _ else _) _ = _ => destruct b end; [discriminate Eins|].
  apply set_node_inv in Eins as (_ & ->).
  (* every key of the snapshot is the key of an element of the moved subtree *)
  assert (Htodo : forall k, In k (map fst orig) ->
            exists x, assoc_get k (m_idents xm) = Some x /\ reach T w mv x /\ old_form src k).
  { intros k Hk. apply in_map_iff in Hk as ((k0 & x) & Hk0 & Hin). cbn in Hk0. subst k0.
    destruct (named_paths_sound w ids orig Enp k x Hin) as (Hxi & nx & Hnx & Hpx).
    assert (Hrx : reach T w mv x) by (apply creach_reach; eapply dfs_sound; eauto).
    assert (HRx : MReach T w m x).
    { destruct HRmv as (xm0 & Hxm0 & Hr0). exists xm0. split; [exact Hxm0|]. eapply reach_trans; eauto. }
    destruct (path_of_spec T w m x nx HT Hnx HRx) as (_ & Hps2). destruct (Hps2 _ _ Hpx) as (_ & Hif).
    destruct (identifiable T w x) eqn:Eix; [|discriminate Hif]. destruct Hif as (p0 & [= <-] & Hspx).
    exists x. split; [|split].
    - apply (i4_exact _ _ _ H4 m xm Hxm). split; [exact HRx|]. split; assumption.
    - exact Hrx.
    - eapply below_old_form; eauto. }
  assert (Hfresh : forall k k', In k (keys (m_idents xm)) -> rekey src dest k = Some k' -> ~ In k' (keys (m_idents xm))).
  { eapply rekey_fresh; eauto.
    - exact (i4_exact _ _ _ H4 m).
    - unfold dest. intros Enil. apply app_eq_nil in Enil as (_ & Enil). discriminate Enil. }
  set (kf := fun k : list N => option_map (app dest) (strip_prefix src k)).
  assert (Hkf : forall k k', In k (map fst orig) -> kf k = Some k' -> rekey src dest k = Some k').
  { intros k k' Hk Hkk. destruct (Htodo k Hk) as (x & _ & _ & (suf & -> & Hb)).
    unfold kf in Hkk. rewrite strip_prefix_app in Hkk. cbn in Hkk. injection Hkk as <-.
    apply rekey_some. exists suf. auto. }
  set (inner := fun (p' : list N) => fix upd_refs (rl : list id) : W unit :=
         match rl with
         | [] => wret tt
         | re :: rr => (raw_set_character_data T check_fn re (DString p') version;; upd_refs rr)%W
         end).
  match type of Eloop with _ = Val (OK ?u, _) => destruct u end.
  match type of Eloop with ?each _ ?w4 = Val (_, ?w5) =>
    destruct (outer_sem_g m kf each inner) with (todo := map fst orig) (wc := w4) (w' := w5)
      (xc := set_idents xm (fold_left (rekey_step src dest) (map fst (m_idents xm)) (m_idents xm)))
      as (HF & HN) end.
  { intros p' rl wa wb Hi. exact (inner_sem_move (inner p') p' version eq_refl (fun _ _ => eq_refl) rl wa wb Hi). }
  { reflexivity. }
  { intros k rr. unfold kf. destruct (strip_prefix src k); reflexivity. }
  { intros k k' k2 Hk Hkk Hk2 Hk2n Heq. subst k2.
    destruct (Htodo k Hk) as (x & Hgx & _ & _). destruct (Htodo k' Hk2) as (x2 & Hgx2 & _ & _).
    eapply (Hfresh k k'); [eapply assoc_get_some_key; eauto|apply Hkf; assumption|eapply assoc_get_some_key; eauto]. }
  { unfold model_at. cbn [w_models]. rewrite M1, Hw2m. eapply list_set_nth_eq. exact Hxm. }
  { cbn [set_idents m_origins]. intros k1 k2 k1' k2' l1 l2 rf I1 I2 Hne12 R1 R2 L1 L2 Q1 Q2.
    destruct (i5_exact _ _ H5 m xm Hxm k1) as (_ & X1). destruct (i5_exact _ _ H5 m xm Hxm k2) as (_ & X2).
    assert (Y1 : RefSet T w m k1 rf) by (apply X1; unfold origins_of; rewrite L1; exact Q1).
    assert (Y2 : RefSet T w m k2 rf) by (apply X2; unfold origins_of; rewrite L2; exact Q2).
    destruct Y1 as (_ & Y1). destruct Y2 as (_ & Y2). congruence. }
  { exact Eloop. }
  cbn [set_idents m_origins w_nodes] in HN.
  destruct HF as (_ & _ & _ & HFm & _).
  destruct (HFm (set_idents xm (fold_left (rekey_step src dest) (map fst (m_idents xm)) (m_idents xm))))
    as (x' & Hx' & _ & _ & Hid').
  { unfold model_at. cbn [w_models]. rewrite M1, Hw2m. eapply list_set_nth_eq. exact Hxm. }
  cbn [set_idents m_idents] in Hid'.
  (* a node that carries a reference text is none of the four nodes the move itself writes *)
  assert (Hrefnode : forall rf p, ref_text T w rf = Some p -> rf <> src_parent /\ rf <> mv /\ rf <> s /\ rf <> self).
  { intros rf p Hr. repeat split; intros ->.
    - destruct (ref_text_content w _ p pn Hr Hpn) as (Hc & _). rewrite Hc in Eidx. cbn in Eidx. discriminate Eidx.
    - destruct (ref_text_content w _ p mn Hr Hmn) as (Hc & _). congruence.
    - destruct (ref_text_content w _ p sn Hr Hsn) as (_ & Hc). unfold isref in Hc. rewrite Hsref in Hc. discriminate Hc.
    - destruct (ref_text_content w _ p n Hr Hn) as (_ & Hc). rewrite (Hselfref n Hn) in Hc. discriminate Hc. }
  assert (Hpre : forall rf p, ref_text T w rf = Some p -> w_nodes w1 rf = w_nodes w rf).
  { intros rf p Hr. destruct (Hrefnode rf p Hr) as (R1 & R2 & R3 & R4).
    rewrite M4; [apply Hw2n; assumption|]. intros s0 rest1 [= <- _]. exact R3. }
  exists src, dest, xm, x'. split; [exact Hsp|]. split; [exact Hxm|]. split; [exact Hx'|].
  split; [intros k2 e; rewrite Hid'; apply Hget|]. split.
  - intros rf p x Hr HRr Hgx Hrx.
    pose proof (proj1 (i4_exact _ _ _ H4 m xm Hxm p x) Hgx) as (HRx & Hidx & Hspx).
    destruct (below_old_form T w m mv x src p HT Hsp Hrx Hspx) as (suf & -> & Hb).
    exists suf. split; [reflexivity|].
    (* the key is in the snapshot *)
    assert (Hin_todo : In (src ++ suf) (map fst orig)).
    { unfold identifiable in Hidx. destruct (w_nodes w x) as [nx|] eqn:Hnx; [|discriminate Hidx].
      assert (Hnmd : is_named T (n_type nx) = Val true).
      { unfold identifiable_n in Hidx. apply andb_true_iff in Hidx as (Hnm & _). unfold named in Hnm.
        destruct (is_named T (n_type nx)) as [[|]| |]; try discriminate Hnm. reflexivity. }
      assert (Hxi : In x ids) by (eapply dfs_covers; [apply reach_creach; exact Hrx|exact Edfs]).
      destruct (named_paths_val w ids orig Enp x nx Hxi Hnx Hnmd) as (r0 & Hr0).
      destruct (path_of_spec T w m x nx HT Hnx HRx) as (_ & Hps2). destruct (Hps2 _ _ Hr0) as (_ & Hif).
      assert (Hidx2 : identifiable T w x = true) by (unfold identifiable; rewrite Hnx; exact Hidx).
      rewrite Hidx2 in Hif. destruct Hif as (p0 & -> & Hsp0).
      destruct (specpath_fun T w m m x _ _ HT Hspx Hsp0) as (_ & <-).
      change (src ++ suf) with (fst (src ++ suf, x)). apply in_map.
      eapply named_paths_covers; eauto. }
    assert (Hkfp : kf (src ++ suf) = Some (dest ++ suf)) by (unfold kf; rewrite strip_prefix_app; reflexivity).
    destruct (i5_exact _ _ H5 m xm Hxm (src ++ suf)) as (_ & X).
    assert (Hin_r : In rf (origins_of xm (src ++ suf))) by (apply X; split; assumption).
    unfold origins_of in Hin_r. destruct (assoc_get (src ++ suf) (m_origins xm)) as [l|] eqn:El; [|destruct Hin_r].
    destruct (Hrefnode rf _ Hr) as (_ & _ & _ & Rself).
    destruct (HN rf) as [(k & k' & l0 & G1 & G2 & G3 & G4 & G5)|(G1 & _)].
    + destruct (i5_exact _ _ H5 m xm Hxm k) as (_ & Xk).
      assert (Yk : RefSet T w m k rf) by (apply Xk; unfold origins_of; rewrite G3; exact G4).
      destruct Yk as (_ & Yk). assert (k = src ++ suf) by congruence. subst k.
      assert (k' = dest ++ suf) by congruence. subst k'.
      rewrite (Hpre rf _ Hr) in G5.
      assert (Hnr : exists nr, w_nodes w rf = Some nr).
      { unfold ref_text in Hr. destruct (w_nodes w rf) as [nr|]; [eauto|discriminate]. }
      destruct Hnr as (nr & Enr). rewrite Enr in G5. cbn [option_map] in G5.
      apply (ref_text_rewritten T w _ rf nr (src ++ suf) (dest ++ suf) Enr Hr).
      cbn [w_nodes]. rewrite upd_neq by exact Rself. exact G5.
    + exfalso. eapply (G1 (src ++ suf) (dest ++ suf) l); eauto.
  - intros rf p Hr Hcase. destruct (Hrefnode rf _ Hr) as (_ & _ & _ & Rself).
    destruct (HN rf) as [(k & k' & l0 & G1 & G2 & G3 & G4 & G5)|(_ & G2)].
    + exfalso. destruct (i5_exact _ _ H5 m xm Hxm k) as (_ & Xk).
      assert (Yk : RefSet T w m k rf) by (apply Xk; unfold origins_of; rewrite G3; exact G4).
      destruct Yk as (Yr & Yk). assert (k = p) by congruence. subst k.
      pose proof (Hkf p k' G1 G2) as Hrk.
      destruct Hcase as [Hc|Hc]; [contradiction|congruence].
    + rewrite <- Hr. apply ref_text_node. cbn [w_nodes]. rewrite upd_neq by exact Rself.
      rewrite G2. cbn [w_nodes]. exact (Hpre rf p Hr).
Qed.

(* ---------- the public calls ---------- *)
Lemma calc_range_not_ref n name v w r w' :
  TablesOK T check_fn -> calc_element_insert_range T n name v w = Val (OK r, w') -> isref T (n_type n) = false.
Proof.
  intros TK H. unfold calc_element_insert_range in H. wk H. apply wl_inv in E as (mode & Hm & Q & _). injection Q as ->.
  destruct (mode =? MCharacters) eqn:Em; [discriminate H|].
  unfold isref. destruct (is_ref T (n_type n)) as [[|]| |] eqn:Er; try reflexivity.
  rewrite (tk_ref _ _ TK _ Er) in Hm. injection Hm as <-. discriminate Em.
Qed.

Lemma model_of_mreach w i m : TreeFacts w -> model_of i w = Val (OK m, w) -> MReach T w m i.
Proof.
  intros HT H. apply (model_of_val T) in H as (_ & [(m0 & s0 & [= <-] & Hu)|([=] & _)]).
  eapply specpath_mreach. eapply upath_specpath; eauto.
Qed.

(* a successful same-model move_element_here: nothing happens (the element is already a child of h) or
   move_element_local runs; the destination is not a reference element *)
Lemma e_move_here_local h mv m w w' r :
  TablesOK T check_fn ->
  e_move_element_here T tab_en check_fn LATEST h mv w = Val (OK r, w') ->
  model_of h w = Val (OK m, w) -> model_of mv w = Val (OK m, w) ->
  w' = w \/ exists pos version,
    move_element_local T check_fn h mv pos m version w = Val (OK r, w') /\
    (forall n, w_nodes w h = Some n -> isref T (n_type n) = false).
Proof.
  intros TK H Hmh Hmm. unfold e_move_element_here in H.
  destruct (h =? mv); [discriminate H|].
  wk H. wk H. assert (a = m) by congruence. assert (a0 = m) by congruence. subst a a0.
  wk H. wk H. destruct (negb (a0 =? a)); [discriminate H|].
  wk H. apply get_node_inv in E3 as (n & Hn & Q & _). injection Q as ->.
  wk H. apply get_node_inv in E3 as (mn & Hmn & Q & _). injection Q as ->.
  wk H. destruct a1 as (rs, re). rewrite N.eqb_refl in H.
  wk H. destruct a1 as [p|]; [|discriminate H].
  destruct (p =? h); [apply wret_inv in H as (_ & ->); left; reflexivity|].
  right. exists re, a0. split; [exact H|]. intros n0 Hn0. assert (n0 = n) by congruence. subst n0.
  eapply calc_range_not_ref; eauto.
Qed.

(* the three clauses of the property from the effect computed by move_local_ident *)
Definition follow_clauses (w w' : world) (m : N) (mv : id) : Prop :=
  (forall rf x, live_ref T w m rf -> designates T w m rf x -> below T w mv x -> designates T w' m rf x) /\
  (forall rf p, ref_text T w rf = Some p -> resolves T w m rf ->
                ~ (exists x, designates T w m rf x /\ below T w mv x) -> ref_text T w' rf = Some p) /\
  (forall rf p src, SpecPath T w m mv src -> ref_text T w rf = Some p ->
                    ~ (live_ref T w m rf /\ old_form src p) -> ref_text T w' rf = Some p).

Lemma follow_of_local h mv pos m version w w' r :
  Inv06 T check_fn w ->
  move_element_local T check_fn h mv pos m version w = Val (OK r, w') ->
  model_of mv w = Val (OK m, w) -> identifiable T w mv = true ->
  (forall n, w_nodes w h = Some n -> isref T (n_type n) = false) ->
  follow_clauses w w' m mv.
Proof.
  intros HI Hml Hmm Hid Hnr.
  pose proof HI as (HT & H4 & H5).
  assert (HRmv : MReach T w m mv) by (apply model_of_mreach; assumption).
  destruct (move_local_ident h mv pos m version w w' r HI Hml HRmv Hid Hnr)
    as (src & dest & xm & x' & Hsp & Hxm & Hx' & Hidn & Ht1 & Ht2).
  pose proof (slashfree_names T w (i4_slash _ _ _ H4)) as HNS.
  assert (Hkmv : assoc_get src (m_idents xm) = Some mv).
  { apply (i4_exact _ _ _ H4 m xm Hxm). split; [exact HRmv|]. split; assumption. }
  assert (Hsne : src <> []).
  { unfold identifiable in Hid. destruct (w_nodes w mv) as [nmv|] eqn:Hnmv; [|discriminate Hid].
    destruct (item_name_n T w nmv) as [nm0|] eqn:Enm.
    - eapply specpath_nonempty; eauto.
    - exfalso. eapply (i4_named _ _ _ H4 mv nmv); eauto. }
  split; [|split].
  - intros rf x Hlive (xm0 & p & Hxm0 & Hr & Hp) Hb. assert (xm0 = xm) by congruence. subst xm0.
    destruct (Ht1 rf p x Hr Hlive Hp Hb) as (suf & -> & Hr').
    pose proof (proj1 (i4_exact _ _ _ H4 m xm Hxm _ x) Hp) as (_ & _ & Hspx).
    destruct (below_old_form T w m mv x src _ HT Hsp Hb Hspx) as (suf2 & Heq & Hbd).
    apply app_inv_head in Heq. subst suf2.
    exists x', (dest ++ suf). split; [exact Hx'|]. split; [exact Hr'|].
    apply Hidn. left. exists (src ++ suf). split; [apply rekey_some; exists suf; auto|exact Hp].
  - intros rf p Hr (x & (xm0 & p0 & Hxm0 & Hr0 & Hp)) Hnot.
    assert (xm0 = xm) by congruence. subst xm0. assert (p0 = p) by congruence. subst p0.
    apply (Ht2 rf p Hr). right.
    destruct (rekey src dest p) as [p'|] eqn:Erk; [|reflexivity]. exfalso. apply Hnot. exists x. split.
    + exists xm, p. auto.
    + eapply (old_form_below T w m xm mv src p x); eauto.
      * exact (i4_exact _ _ _ H4 m).
      * apply (old_form_rekey src dest). eauto.
  - intros rf p src0 Hsp0 Hr Hnot.
    destruct (specpath_fun T w m m mv _ _ HT Hsp Hsp0) as (_ & <-).
    apply (Ht2 rf p Hr).
    destruct (rekey src dest p) as [p'|] eqn:Erk; [|right; reflexivity].
    left. intros Hl. apply Hnot. split; [exact Hl|]. apply (old_form_rekey src dest). eauto.
Qed.

(* a call that changes neither the models nor any node that carries a reference text *)
Lemma follow_of_same_refs w w' m mv :
  w_models w' = w_models w -> (forall rf p, ref_text T w rf = Some p -> ref_text T w' rf = Some p) ->
  follow_clauses w w' m mv.
Proof.
  intros Hm Hr. split; [|split]; auto.
  intros rf x _ (xm & p & Hxm & Hrp & Hp) _. exists xm, p. split; [unfold model_at in *; rewrite Hm; exact Hxm|]. auto.
Qed.

Theorem C06_move_local_ident h mv w w' r m :
  TablesOK T check_fn -> Inv06 T check_fn w ->
  e_move_element_here T tab_en check_fn LATEST h mv w = Val (OK r, w') ->
  model_of h w = Val (OK m, w) -> model_of mv w = Val (OK m, w) ->
  identifiable T w mv = true ->
  follow_clauses w w' m mv.
Proof.
  intros TK HI H Hmh Hmm Hid.
  destruct (e_move_here_local _ _ _ _ _ _ TK H Hmh Hmm) as [->|(pos & version & Hml & Hnr)].
  { apply follow_of_same_refs; auto. }
  eapply follow_of_local; eauto.
Qed.

(* move_element_here_at: additionally the re-positioning inside the same parent, which rewrites one content list *)
Theorem C06_move_at_local_ident h mv pos w w' r m :
  TablesOK T check_fn -> Inv06 T check_fn w ->
  e_move_element_here_at T tab_en check_fn LATEST h mv pos w = Val (OK r, w') ->
  model_of h w = Val (OK m, w) -> model_of mv w = Val (OK m, w) ->
  identifiable T w mv = true ->
  follow_clauses w w' m mv.
Proof.
  intros TK HI H Hmh Hmm Hid. unfold e_move_element_here_at in H.
  destruct (h =? mv); [discriminate H|].
  wk H. wk H. assert (a = m) by congruence. assert (a0 = m) by congruence. subst a a0.
  wk H. wk H. destruct (negb (a0 =? a)); [discriminate H|].
  wk H. apply get_node_inv in E3 as (n & Hn & Q & _). injection Q as ->.
  wk H. apply get_node_inv in E3 as (mn & Hmn & Q & _). injection Q as ->.
  wk H. destruct a1 as (rs, re).
  assert (Hnr : forall n0, w_nodes w h = Some n0 -> isref T (n_type n0) = false).
  { intros n0 Hn0. assert (n0 = n) by congruence. subst n0. eapply calc_range_not_ref; eauto. }
  destruct ((rs <=? pos) && (pos <=? re)); [|discriminate H]. rewrite N.eqb_refl in H.
  wk H. destruct a1 as [p|]; [|discriminate H].
  destruct (p =? h).
  - (* same parent: only the content list of h is permuted *)
    unfold move_element_position in H. wk H.
    match goal with E : get_node h w = Val _ |- _ => apply get_node_inv in E as (n0 & Hn0 & Q & _) end. injection Q as ->.
    assert (n0 = n) by congruence. subst n0.
    destruct (pos <? re); [|discriminate H].
    destruct (index_of (citem_is mv) (n_content n)) as [cur|]; [|discriminate H].
    wk H. match goal with E : set_node _ _ _ = Val _ |- _ => apply set_node_inv in E as (_ & ->) end.
    apply wret_inv in H as (_ & ->).
    apply follow_of_same_refs; [reflexivity|].
    intros rf p0 Hr. rewrite <- Hr. apply ref_text_node. cbn [w_nodes]. apply upd_neq. intros ->.
    destruct (ref_text_content w h p0 n Hr Hn) as (_ & Hc). rewrite (Hnr n Hn) in Hc. discriminate Hc.
  - eapply follow_of_local; eauto.
Qed.

(* ---------- in terms of the operation alphabet ---------- *)
Variable root_attrs : list (N * cdata).

Lemma move_models h mv w w' r :
  e_move_element_here T tab_en check_fn LATEST h mv w = Val (OK r, w') ->
  exists m1 m2, model_of h w = Val (OK m1, w) /\ model_of mv w = Val (OK m2, w).
Proof.
  intros H. unfold e_move_element_here in H. destruct (h =? mv); [discriminate H|]. wk H. wk H. eauto.
Qed.
Lemma move_at_models h mv pos w w' r :
  e_move_element_here_at T tab_en check_fn LATEST h mv pos w = Val (OK r, w') ->
  exists m1 m2, model_of h w = Val (OK m1, w) /\ model_of mv w = Val (OK m2, w).
Proof.
  intros H. unfold e_move_element_here_at in H. destruct (h =? mv); [discriminate H|]. wk H. wk H. eauto.
Qed.

Theorem C06_move_partial o w w' v :
  TablesOK T check_fn -> Inv06 T check_fn w ->
  run_op T tab_el tab_en check_fn LATEST root_attrs o w = Val (OK v, w') ->
  pending06 T w o = false ->
  forall h mv, (o = OpMove h mv \/ exists pos, o = OpMoveAt h mv pos) ->
  exists m, model_of mv w = Val (OK m, w) /\ follow_clauses w w' m mv.
Proof.
  intros TK HI H HP h mv [->|(pos & ->)]; cbn [run_op] in H; unfold welem in H; wk H;
    apply wret_inv in H as (_ & ->); cbn [pending06] in HP; apply Bool.orb_false_iff in HP as (Hid & Hmod);
    apply Bool.negb_false_iff in Hid.
  - destruct (move_models _ _ _ _ _ E) as (m1 & m2 & H1 & H2). rewrite H1, H2 in Hmod.
    apply Bool.negb_false_iff in Hmod. apply N.eqb_eq in Hmod. subst m2.
    exists m1. split; [exact H2|]. eapply C06_move_local_ident; eauto.
  - destruct (move_at_models _ _ _ _ _ _ E) as (m1 & m2 & H1 & H2). rewrite H1, H2 in Hmod.
    apply Bool.negb_false_iff in Hmod. apply N.eqb_eq in Hmod. subst m2.
    exists m1. split; [exact H2|]. eapply C06_move_at_local_ident; eauto.
Qed.

End Move.
