(* Tree/FollowProofsMove.v — C06 proofs, layer 3: move_element_local, the moved element being identifiable.
     dfs_covers / named_paths_covers   the snapshot `original_paths` contains the path of every identifiable element
                                        of the moved subtree
     unique_loop_free                  the name chosen by make_unique_item_name gives a path that is not in the index *)
From Coq Require Import Lia.
From AV Require Import Base.Bytes Base.Outcome Hash.HashModel Tree.Heap Tree.Ops Tree.Script Tree.Index Tree.Refs
  Tree.IndexProofsW Tree.IndexProofsBase Tree.IndexProofsAssoc Tree.Follow Tree.FollowProofsPath Tree.FollowProofsLoop
  Tree.FollowProofsLoopG Tree.FollowProofsRename.
Open Scope string_scope.
Open Scope list_scope.
Open Scope N_scope.

Ltac wk H := lazymatch type of H with
  | wbind ?m ?k ?w = Val (OK ?r, ?w') =>
    let a := fresh "a" in let w1 := fresh "w" in let E := fresh "E" in let e := fresh "e" in let Q := fresh "Q" in
    apply wbind_inv in H as [(a & w1 & E & H) | (e & E & Q)]; [ try ro_subst E | discriminate Q ]
  end.

Section Move.
Variable T : tables.
Variable tab_el tab_en : nametab.
Variable check_fn : N -> list N -> res bool.
Variable LATEST : N.

(* downward reachability, head first *)
Inductive creach (w : world) : id -> id -> Prop :=
| cr_refl a : creach w a a
| cr_step a c x : child_of w a c -> creach w c x -> creach w a x.

Lemma creach_snoc w a p x : creach w a p -> child_of w p x -> creach w a x.
Proof. induction 1 as [a|a c p Hc Hr IH]; intros Hx; [econstructor; [exact Hx|constructor]|econstructor; eauto]. Qed.

Lemma reach_creach w a x : reach T w a x -> creach w a x.
Proof. intros (q & Hd). induction Hd as [|p c q Hp IH Hc]; [constructor|eapply creach_snoc; eauto]. Qed.

(* the pre-order walk lists every element of the subtree *)
Lemma dfs_covers w a x : creach w a x -> forall f ids, dfs_ids f a w = Val (OK ids, w) -> In x ids.
Proof.
  induction 1 as [a|a c x Hc Hr IH]; intros f ids H; destruct f as [|f]; try discriminate H; cbn [dfs_ids] in H.
  - wk H. wk H. apply wret_inv in H as ([= ->] & _). left. reflexivity.
  - wk H. apply get_node_inv in E as (n & Hn & Q & _). injection Q as <-.
    wk H. apply wret_inv in H as ([= ->] & _). right.
    destruct Hc as (n0 & Hn0 & Hin). assert (n0 = a0) by congruence. subst n0.
    match type of E with ?kids _ _ = _ =>
      assert (Hk : forall l rest w0, kids l w = Val (OK rest, w0) -> w0 = w /\
                   forall c0, In (CElem c0) l -> exists idsc, dfs_ids f c0 w = Val (OK idsc, w) /\ incl idsc rest) end.
    { clear. induction l as [|[c1|d] l IHl]; intros rest w0 H.
      - apply wret_inv in H as (_ & ->). split; [reflexivity|intros c0 []].
      - wk H. wk H. destruct (IHl _ _ E0) as (-> & IHc).
        apply wret_inv in H as ([= ->] & ->). split; [reflexivity|]. intros c0 [[= <-]|Hin].
        + exists a. split; [exact E|]. apply incl_appl. apply incl_refl.
        + destruct (IHc c0 Hin) as (idsc & H1 & H2). exists idsc. split; [exact H1|]. apply incl_appr. exact H2.
      - destruct (IHl _ _ H) as (-> & IHc). split; [reflexivity|]. intros c0 [Q|Hin]; [discriminate Q|]. eapply IHc; eauto. }
    destruct (Hk _ _ _ E) as (-> & Hk2).
    destruct (Hk2 c Hin) as (idsc & H1 & H2). apply H2. eapply IH. exact H1.
Qed.

(* the snapshot holds the path of every identifiable element of the walk *)
Lemma named_paths_covers w : forall ids orig,
  named_paths T ids w = Val (OK orig, w) ->
  forall x n p, In x ids -> w_nodes w x = Some n -> is_named T (n_type n) = Val true ->
                path_of T n w = Val (OK p, w) -> In (p, x) orig.
Proof.
  induction ids as [|i ids IH]; intros orig H x n p Hin Hn Hnamed Hp; [destruct Hin|].
  cbn [named_paths] in H. wk H. apply get_node_inv in E as (ni & Hni & Q & _). injection Q as ->.
  wk H. apply wl_inv in E as (b & Hb & Q & _). injection Q as ->.
  wk H. match goal with E : named_paths T ids w = Val (OK ?r, w) |- _ => rename E into Erest; rename r into rest end.
  assert (Hrest : In x ids -> In (p, x) rest) by (intros; eapply IH; eauto).
  destruct Hin as [<-|Hin].
  - assert (ni = n) by congruence. subst ni. assert (b = true) by congruence. subst b.
    wk H. match goal with E : wtry _ _ = _ |- _ => apply wtry_inv in E as (r0 & Er & Q) end.
    rewrite Hp in Er. injection Er as <-. injection Q as ->.
    apply wret_inv in H as ([= ->] & _). left. reflexivity.
  - destruct b.
    + wk H. apply wret_inv in H as ([= ->] & _).
      match goal with |- In _ (match ?o with _ => _ end) => destruct o end; [right|]; auto.
    + apply wret_inv in H as ([= ->] & _). auto.
Qed.

(* the loop of make_unique_item_name stops at a name whose path is free *)
Lemma unique_loop_free f m pp orig : forall name counter w nm c,
  unique_loop f m pp orig name counter w = Val (OK (nm, c), w) ->
  get_element_by_path m (pp ++ [47] ++ nm) w = Val (OK None, w).
Proof.
  induction f as [|f IH]; intros name counter w nm c H; [discriminate H|]. cbn [unique_loop] in H.
  wk H. destruct a as [ex|].
  - eapply IH. exact H.
  - apply wret_inv in H as ([= -> ->] & _). exact E.
Qed.

End Move.
