(* Tree/IndexProofsAll.v — C04/C05, final assembly for ALL 26 constructors of Tree/Script.v (no pending constructor):
     C45_inv_all          one operation keeps Inv04 /\ Inv05 outside the finding classes Known04a / Known05a
                          (Tree/RefsAll.v), given the node invariant RX (reference elements hold strings, model roots have
                          the root type) which every operation keeps without exception (Tree/IndexProofsNodeInv.v)
     C45_history_all      ... along every history
     C04_C05_history_all  closed form from the empty world: the steps avoid the finding classes of C03/C04/C05
                          (clean45a, decidable along the history)
     C04_C05_history_all_rt  the same for the generated tables (the table facts are computed). *)
From AV Require Import Base.Bytes Base.Outcome Hash.HashModel Tree.Heap Tree.Ops Tree.Script Tree.Inv Tree.InvProofs.
From AV Require Import Tree.Index Tree.IndexProofsBase Tree.IndexProofs Tree.Refs Tree.RefsProofsOps Tree.RefsProofsSetName
  Tree.IndexProofsBridge Tree.IndexProofsMoveOp Tree.IndexProofsCopy Tree.IndexProofsTablesReal Spec.SpecReal Tree.CheckFn
  Tree.IndexProofsClosed Tree.RefsAll Tree.IndexProofsNodeInv Tree.IndexProofsMoveCrossOp Tree.IndexProofsCopyA Tree.IndexProofsCopyB.
Open Scope string_scope.
Open Scope list_scope.
Open Scope N_scope.

Section All.
Variable T : tables.
Variable tab_el tab_en : nametab.
Variable check_fn : N -> list N -> res bool.
Variable LATEST : N.
Variable root_attrs : list (N * cdata).
Hypothesis TK : TablesOK T check_fn.
(* the type of a model root is neither named nor a reference type *)
Hypothesis RootTy : forall ty, et_new T (autosar_element T) = Val ty -> plainty T ty.

Notation Inv04 := (Inv04 T check_fn).
Notation run := (run_op T tab_el tab_en check_fn LATEST root_attrs).
Notation run_ops := (Inv.run_ops T tab_el tab_en check_fn LATEST root_attrs).
Notation Known03 := (Inv.Known T tab_el tab_en check_fn LATEST root_attrs).
Notation Known05 := (Known05 T tab_el tab_en check_fn LATEST root_attrs).
Notation Known04a := (Known04a T LATEST).
Notation Known05a := (Known05a T tab_el tab_en check_fn LATEST root_attrs).
Notation RX := (RX T).

Lemma RX_step w o r w' : RX w -> run o w = Val (r, w') -> RX w'.
Proof. apply (RX_op T tab_el tab_en check_fn LATEST root_attrs (tk_refspec _ _ TK) RootTy). Qed.

Theorem C45_inv_all w o r w' :
  TreeFacts w -> Inv04 w -> Inv05 T w -> RX w ->
  Known04a w o = false -> Known05a w o = false ->
  run o w = Val (r, w') -> Inv04 w' /\ Inv05 T w'.
Proof.
  intros HF HI4 HI5 HX HK4 HK5 H.
  assert (Hx : Known04 T LATEST w o = false -> Known05 w o = false -> Pending45x w o = false -> Inv04 w' /\ Inv05 T w').
  { intros A B C. eapply (C45_inv_x T tab_el tab_en check_fn LATEST root_attrs TK); eauto. }
  destruct o; try (apply Hx; [exact HK4|exact HK5|reflexivity]); cbn [run_op] in H.
  - apply welem_inv in H as (r0 & H).
    exact (C45_copy_b T check_fn TK tab_el tab_en LATEST root_attrs h other w r0 w' HF HI4 HI5 HK4 HK5 H).
  - apply welem_inv in H as (r0 & H).
    exact (C45_copy_at_b T check_fn TK tab_el tab_en LATEST root_attrs h other pos w r0 w' HF HI4 HI5 HK4 HK5 H).
  - apply welem_inv in H as (r0 & H).
    destruct (C45_move_all T tab_el tab_en check_fn LATEST TK root_attrs h mv w r0 w' (conj HF (conj HI4 HI5)) (RX_refstr T w HX) HK4 HK5 H)
      as (_ & H1 & H2). auto.
  - apply welem_inv in H as (r0 & H).
    destruct (C45_move_at_all T tab_el tab_en check_fn LATEST TK root_attrs h mv pos w r0 w' (conj HF (conj HI4 HI5)) (RX_refstr T w HX) HK4 HK5 H)
      as (_ & H1 & H2). auto.
  - apply Hx; [|exact HK5|reflexivity]. cbn [RefsAll.Known04a] in HK4. cbn [Known04]. rewrite HK4.
    rewrite (roots_plain_unplain T w m (RX_roots T w HF HX)). apply Bool.andb_false_r.
Qed.

Theorem C04_inv_all w o r w' :
  TreeFacts w -> Inv04 w -> Inv05 T w -> RX w ->
  Known04a w o = false -> Known05a w o = false ->
  run o w = Val (r, w') -> Inv04 w'.
Proof. intros A B C D E F G. exact (proj1 (C45_inv_all w o r w' A B C D E F G)). Qed.
Theorem C05_inv_all w o r w' :
  TreeFacts w -> Inv04 w -> Inv05 T w -> RX w ->
  Known04a w o = false -> Known05a w o = false ->
  run o w = Val (r, w') -> Inv05 T w'.
Proof. intros A B C D E F G. exact (proj2 (C45_inv_all w o r w' A B C D E F G)). Qed.

Fixpoint steps_ok_all (l : list op) (w : world) : Prop :=
  match l with
  | [] => True
  | o :: rest =>
    TreeFacts w /\ Known04a w o = false /\ Known05a w o = false /\
    match run o w with Val (_, w') => steps_ok_all rest w' | _ => True end
  end.

Theorem C45_history_all l : forall w w',
  Inv04 w -> Inv05 T w -> RX w -> steps_ok_all l w ->
  run_hist T tab_el tab_en check_fn LATEST root_attrs l w = Val w' -> Inv04 w' /\ Inv05 T w' /\ RX w'.
Proof.
  induction l as [|o rest IH]; intros w w' HI4 HI5 HX Hok H; cbn in *.
  - injection H as <-. auto.
  - destruct Hok as (HF & HK4 & HK5 & Hrest). destruct (run o w) as [[r w1]| |] eqn:E; try discriminate.
    destruct (C45_inv_all w o r w1 HF HI4 HI5 HX HK4 HK5 E) as (H1 & H2).
    eapply IH; eauto. eapply RX_step; eauto.
Qed.

(* no step of the history is in a finding class of C03/C04/C05; there is no pending constructor *)
Fixpoint clean45a (l : list op) (w : world) : bool :=
  match l with
  | [] => true
  | o :: rest =>
    negb (Known03 w o) && negb (Known04a w o) && negb (Known05a w o)
    && match run o w with Val (_, w') => clean45a rest w' | _ => true end
  end.

Lemma clean45a_steps l : forall w, TreeInv w -> clean45a l w = true -> steps_ok_all l w.
Proof.
  induction l as [|o l IH]; intros w HT Hc; cbn in *; [exact I|].
  repeat (apply andb_true_iff in Hc as (Hc & ?)).
  repeat match goal with H : negb _ = true |- _ => apply negb_true_iff in H end.
  split; [apply treeinv_treefacts; exact HT|]. repeat (split; [assumption|]).
  destruct (run o w) as [[r w1]| |] eqn:E; try exact I. apply IH; [|assumption].
  eapply TreeInv_step; eauto.
Qed.

Theorem C04_C05_history_all l w' :
  clean45a l empty_world = true -> run_ops l empty_world = Val w' ->
  TreeFacts w' /\ Inv04 w' /\ Inv05 T w'.
Proof.
  intros Hc H.
  assert (HT : TreeInv w').
  { eapply TreeInv_histories; [apply empty_treeinv| |exact H].
    clear H. revert Hc. generalize empty_world. induction l as [|o l IH]; intros w Hc; cbn in *; [reflexivity|].
    repeat (apply andb_true_iff in Hc as (Hc & ?)). apply andb_true_iff. split; [assumption|].
    unfold Inv.run. destruct (run o w) as [[r w1]| |]; auto. }
  split; [apply treeinv_treefacts; exact HT|].
  assert (G : Inv04 w' /\ Inv05 T w' /\ RX w').
  { apply (C45_history_all l empty_world w').
    - apply Inv04_empty.
    - apply Inv05_empty.
    - apply empty_RX.
    - apply clean45a_steps; [apply empty_treeinv|exact Hc].
    - rewrite run_hist_run_ops. exact H. }
  destruct G as (H1 & H2 & _). auto.
Qed.

(* the same with C03's TreeInv and the node invariant in the conclusion (what AutosarModel::duplicate needs: Tree/IndexProofsDup.v) *)
Theorem C04_C05_history_all_K l w' :
  clean45a l empty_world = true -> run_ops l empty_world = Val w' ->
  TreeInv w' /\ Inv04 w' /\ Inv05 T w' /\ RX w'.
Proof.
  intros Hc H.
  assert (HT : TreeInv w').
  { eapply TreeInv_histories; [apply empty_treeinv| |exact H].
    clear H. revert Hc. generalize empty_world. induction l as [|o l IH]; intros w Hc; cbn in *; [reflexivity|].
    repeat (apply andb_true_iff in Hc as (Hc & ?)). apply andb_true_iff. split; [assumption|].
    unfold Inv.run. destruct (run o w) as [[r w1]| |]; auto. }
  split; [exact HT|].
  apply (C45_history_all l empty_world w').
  - apply Inv04_empty.
  - apply Inv05_empty.
  - apply empty_RX.
  - apply clean45a_steps; [apply empty_treeinv|exact Hc].
  - rewrite run_hist_run_ops. exact H.
Qed.

End All.

(* [F] the generated tables: the root type (AUTOSAR) is neither named nor a reference type *)
Lemma real_root_plain : forall ty, et_new RT (autosar_element RT) = Val ty -> plainty RT ty.
Proof. vm_compute. intros ty [= <-]. vm_compute. split; reflexivity. Qed.

Theorem C04_C05_history_all_rt (dfas : N -> option (list (list N) * list N)) (tab_el tab_en : nametab) (LATEST : N)
        (root_attrs : list (N * cdata)) l w' :
  clean45a RT tab_el tab_en (check_fn_model dfas) LATEST root_attrs l empty_world = true ->
  Inv.run_ops RT tab_el tab_en (check_fn_model dfas) LATEST root_attrs l empty_world = Val w' ->
  TreeFacts w' /\ Inv04 RT (check_fn_model dfas) w' /\ Inv05 RT w'.
Proof. apply C04_C05_history_all; [apply real_tables_ok|exact real_root_plain]. Qed.
