(* Tree/NoPanicProofsMain.v — C12 (panic / loop half): the per-operation results assembled over the operation alphabet. *)
From Coq Require Import Lia.
From AV Require Import Base.Bytes Base.Outcome Hash.HashModel Spec.SpecOps Xml.TablesOk Tree.Heap Tree.Ops Tree.Script Tree.Inv.
From AV Require Import Tree.NoPanic Tree.NoPanicProofsBase Tree.NoPanicProofsOps1 Tree.NoPanicProofsDepth.
From AV Require Import Tree.NoPanicProofsClosed Tree.NoPanicProofsOps2 Tree.NoPanicProofsOps3 Tree.NoPanicProofsOps4 Tree.NoPanicProofsOps5 Tree.NoPanicProofsCopy Tree.NoPanicProofsCopy2 Tree.NoPanicProofsMove.
Open Scope string_scope.
Open Scope list_scope.
Open Scope N_scope.

(* the world-dependent side condition: a move stays within one model *)
Definition side12 (w : world) (o : op) : Prop :=
  match o with OpMove h mv | OpMoveAt h mv _ => ~ cross_model w h mv | _ => True end.

Lemma runs_not_pan {A} (m : W A) w : runs m w -> (forall s, m w <> Pan s) /\ m w <> Fuel.
Proof. intros (r & w' & E). rewrite E. split; [intros s|]; discriminate. Qed.

Section Main.
Variable T : tables.
Variable tab_el tab_en : nametab.
Variable check_fn : N -> list N -> res bool.
Variable LATEST : N.
Variable root_attrs : list (N * cdata).
Hypothesis OK12 : tables_ok12 T = true.
Hypothesis CHECK : forall fn s, exists b, check_fn fn s = Val b.
Hypothesis EN_OK : nametab_ok tab_en = true.                  (* EnumItem::from_str never indexes out of range *)
Hypothesis SHORT_OK : name_ok tab_el (name_short_name T).       (* ElementName::ShortName is an element name *)

Notation ENV f := (f T tab_el tab_en check_fn LATEST root_attrs OK12 CHECK) (only parsing).
Notation PanicFree := (PanicFree T tab_el tab_en).
Notation op_wf := (op_wf tab_el tab_en).
Notation run12 := (run12 T tab_el tab_en check_fn LATEST root_attrs).

Theorem no_panic_covered w o : covered_op o = true -> PanicFree w -> SizeOk w -> op_wf w o -> side12 w o -> runs (run12 o) w.
Proof.
  intros COV PF SZ WF SD. unfold run12, run_op. destruct o; try discriminate COV; cbn [op_wf] in WF; cbn [side12] in SD; unfold h_ok, m_ok, f_ok in WF.
  - apply runs_welem. apply (ENV np_create_sub_element); tauto.
  - apply runs_welem. apply (ENV np_create_sub_element_at); tauto.
  - apply runs_welem. apply (ENV np_create_named); tauto.
  - apply runs_welem. apply (ENV np_create_named_at); tauto.
  - apply runs_welem. apply (ENV np_copy); tauto.
  - apply runs_welem. apply (ENV np_copy_at); tauto.
  - apply runs_welem. apply (ENV np_move); tauto.
  - apply runs_welem. apply (ENV np_move_at); tauto.
  - apply runs_wunit. apply (ENV np_remove); tauto.
  - apply runs_wunit. apply (ENV np_remove_kind); tauto.
  - apply runs_wunit. apply (ENV np_set_item_name); tauto.
  - apply runs_wunit. apply (ENV np_set_character_data); try tauto.
    intros b ->. discriminate COV.
  - apply runs_wunit. apply (ENV np_remove_cdata); tauto.
  - apply runs_wunit. apply (ENV np_insert_citem); tauto.
  - apply runs_wunit. apply (ENV np_remove_citem); tauto.
  - apply runs_wunit. apply (ENV np_set_reference_target EN_OK); tauto.
  - apply runs_wunit. apply (ENV np_set_attribute); tauto.
  - eapply runs_then; [apply (ENV np_remove_attribute); tauto|intros; apply runs_ret].
  - apply runs_wunit. apply (ENV np_set_comment); tauto.
  - apply runs_welem. apply (ENV np_get_or_create); tauto.
  - apply runs_welem. apply (ENV np_get_or_create_named); tauto.
  - eapply runs_then; [apply (ENV np_new_model)|intros; apply runs_ret].
  - eapply runs_then; [apply (ENV np_create_file); tauto|intros; apply runs_ret].
  - apply runs_wunit. apply (ENV np_remove_file); tauto.
  - apply runs_wunit. apply (ENV np_add_to_file); tauto.
  - apply runs_wunit. apply (ENV np_remove_from_file); tauto.
Qed.

Theorem no_panic_covered' w o : covered_op o = true -> PanicFree w -> SizeOk w -> op_wf w o -> side12 w o ->
  (forall s, run12 o w <> Pan s) /\ run12 o w <> Fuel.
Proof. intros. apply runs_not_pan. apply no_panic_covered; assumption. Qed.

(* ---- the part of PanicFree that is this development's own: Closed is kept (partial: the operations whose proof runs
   through a Closed-carrying judgement; the tree part (finite chains, child lists = parent links) is C03's Core) *)
Definition closed_pres_op (o : op) : bool :=
  match o with
  | OpSetCData _ v => match v with DFloat _ => false | _ => true end
  | OpSetItemName _ _ | OpSetRefTarget _ _ | OpAddToFile _ _ | OpRemove _ _ | OpRemoveFromFile _ _
  | OpCreateNamed _ _ _ | OpCreateNamedAt _ _ _ _ => true
  | _ => false
  end.

Lemma welem_inv (m : W id) w r w' : welem m w = Val (r, w') -> exists r0, m w = Val (r0, w').
Proof. unfold welem, wbind. destruct (m w) as [[[a|e] w1]|s|]; try discriminate; intros [= <- <-]; eauto. Qed.
Lemma wunit_inv (m : W unit) w r w' : wunit m w = Val (r, w') -> exists r0, m w = Val (r0, w').
Proof. unfold wunit, wbind. destruct (m w) as [[[a|e] w1]|s|]; try discriminate; intros [= <- <-]; eauto. Qed.

Theorem closed_preserved_partial w o : closed_pres_op o = true -> PanicFree w -> op_wf w o ->
  forall r w', run12 o w = Val (r, w') -> Closed T tab_el tab_en w'.
Proof.
  intros COV PF WF r w' E. unfold run12, run_op in E.
  assert (G : forall {A} (m : W A) P r0, runsQ m w (good T tab_el tab_en w P) -> m w = Val (r0, w') -> Closed T tab_el tab_en w').
  { intros A m P r0 (r1 & w1 & E1 & C1 & _) E0. rewrite E0 in E1. injection E1 as _ <-. exact C1. }
  destruct o; try discriminate COV; cbn [op_wf] in WF; unfold h_ok, f_ok in WF.
  - apply welem_inv in E as (r0 & E). destruct WF as [W1 W2]. eapply G; [apply (ENV gq_create_named); [exact PF|exact W1|exact W2|exact SHORT_OK]|exact E].
  - apply welem_inv in E as (r0 & E). destruct WF as [W1 W2]. eapply G; [apply (ENV gq_create_named_at); [exact PF|exact W1|exact W2|exact SHORT_OK]|exact E].
  - apply wunit_inv in E as (r0 & E). destruct WF as [W1 W2].
    destruct (ENV rg_e_remove_sub_element w w h sub) as (r1 & w1 & E1 & C1 & _).
    + apply PF.
    + apply rmrel_refl.
    + apply (ENV Live12_of_PanicFree). exact PF.
    + exact W1.
    + exact W2.
    + rewrite E in E1. injection E1 as _ <-. exact C1.
  - apply wunit_inv in E as (r0 & E). eapply G; [apply (ENV gq_set_item_name); [exact PF|exact WF]|exact E].
  - apply wunit_inv in E as (r0 & E). destruct WF as [W1 W2].
    eapply G; [apply (ENV gq_set_character_data); [exact PF|exact W1|exact W2|]|exact E].
    intros b ->. discriminate COV.
  - apply wunit_inv in E as (r0 & E). destruct WF as [W1 W2].
    eapply G; [apply (ENV gq_set_reference_target EN_OK); [exact PF|exact W1|exact W2]|exact E].
  - apply wunit_inv in E as (r0 & E). destruct WF as [W1 W2].
    eapply G; [apply (ENV gq_add_to_file); [exact PF|exact W1|exact W2]|exact E].
  - apply wunit_inv in E as (r0 & E). destruct WF as [W1 W2].
    destruct (ENV rg_e_remove_from_file w w h f) as (r1 & w1 & E1 & C1 & _).
    + apply PF.
    + apply rmrel_refl.
    + apply (ENV Live12_of_PanicFree). exact PF.
    + exact W1.
    + exact W2.
    + rewrite E in E1. injection E1 as _ <-. exact C1.
Qed.

Theorem path_suffix w n :
  Closed T tab_el tab_en w -> UpWF w -> node_ok T tab_el tab_en w n ->
  exists r, path_of T n w = Val (r, w) /\
    forall p own, r = OK p -> item_name T n w = Val (OK (Some own), w) -> exists base, strip_suffix own p = Some base.
Proof.
  intros C U NO. destruct (ENV path_of_ok w n C U NO) as (r & E & F).
  exists r. split; [exact E|]. intros p own -> EI. apply (ENV strip_suffix_ends). apply (F p eq_refl own EI).
Qed.

End Main.

Theorem depth_tree (T : tables) (tab_el tab_en : nametab) w i :
  PanicFree T tab_el tab_en w -> i < w_next w -> hb w i (fuel_of w).
Proof. intros [C U CU] L. eapply hb_fuel; eauto. Qed.

Theorem depth_walk (T : tables) (tab_el tab_en : nametab) w f i :
  Closed T tab_el tab_en w -> i < w_next w -> (hb w i f <-> exists l, dfs_ids f i w = Val (OK l, w)).
Proof.
  intros C L. split.
  - intros H. destruct (dfs_ids_runs T tab_el tab_en w C f i L H) as (r & E & _).
    destruct (dfs_ids_val w f i r w E) as (_ & (l & ->) & _). eauto.
  - intros (l & E). apply (dfs_ids_val w f i _ _ E).
Qed.

(* which constructors the partial theorem covers (pinned, so that coverage cannot shrink silently) *)
Theorem coverage : forall o,
  covered_op o = match o with OpSetCData _ (DFloat _) => false | _ => true end.
Proof. intros o. destruct o; reflexivity. Qed.

(* non-vacuity: the hypotheses are satisfiable (the empty world, from which every history starts with OpNewModel) *)
Example panicfree_empty (T : tables) (tab_el tab_en : nametab) : PanicFree T tab_el tab_en empty_world.
Proof.
  constructor.
  - constructor.
    + intros i. cbn. split; [intros H; exfalso; apply H; reflexivity|intros H; lia].
    + intros i n E. discriminate E.
    + intros x [].
  - intros i L. cbn in L. lia.
  - intros p c (n & E & _). discriminate E.
Qed.
Example op_wf_new_model (tab_el tab_en : nametab) : op_wf tab_el tab_en empty_world OpNewModel.
Proof. exact I. Qed.
