(* Tree/NoPanicProofsMain.v — C12 (panic / loop half): the per-operation results assembled over the operation alphabet. *)
From Coq Require Import Lia.
From AV Require Import Base.Bytes Base.Outcome Hash.HashModel Spec.SpecOps Xml.TablesOk Tree.Heap Tree.Ops Tree.Script Tree.Inv.
From AV Require Import Tree.NoPanic Tree.NoPanicProofsBase Tree.NoPanicProofsOps1 Tree.NoPanicProofsDepth.
From AV Require Import Tree.NoPanicProofsClosed Tree.NoPanicProofsOps2 Tree.NoPanicProofsOps3 Tree.NoPanicProofsOps4 Tree.NoPanicProofsOps5 Tree.NoPanicProofsCopy Tree.NoPanicProofsCopy2 Tree.NoPanicProofsMove.
Open Scope string_scope.
Open Scope list_scope.
Open Scope N_scope.

(* the world-dependent side condition: a move stays within one model *)
Definition side12 (w : world) (o : op) : Prop :=
  match o with OpMove h mv | OpMoveAt h mv _ => ~ cross_model w h mv | _ => True end.

Lemma runs_not_pan {A} (m : W A) w : runs m w -> (forall s, m w <> Pan s) /\ m w <> Fuel.
Proof. intros (r & w' & E). rewrite E. split; [intros s|]; discriminate. Qed.

Section Main.
Variable T : tables.
Variable tab_el tab_en : nametab.
Variable check_fn : N -> list N -> res bool.
Variable LATEST : N.
Variable root_attrs : list (N * cdata).
Hypothesis OK12 : tables_ok12 T = true.
Hypothesis CHECK : forall fn s, exists b, check_fn fn s = Val b.
Hypothesis EN_OK : nametab_ok tab_en = true.                  (* EnumItem::from_str never indexes out of range *)
Hypothesis SHORT_OK : name_ok tab_el (name_short_name T).       (* ElementName::ShortName is an element name *)

Notation ENV f := (f T tab_el tab_en check_fn LATEST root_attrs OK12 CHECK) (only parsing).
Notation PanicFree := (PanicFree T tab_el tab_en).
Notation op_wf := (op_wf tab_el tab_en).
Notation run12 := (run12 T tab_el tab_en check_fn LATEST root_attrs).

Theorem no_panic_covered w o : covered_op o = true -> PanicFree w -> SizeOk w -> op_wf w o -> side12 w o -> runs (run12 o) w.
Proof.
  intros COV PF SZ WF SD. unfold run12, run_op. destruct o; try discriminate COV; cbn [op_wf] in WF; cbn [side12] in SD; unfold h_ok, m_ok, f_ok in WF.
  - apply runs_welem. apply (ENV np_create_sub_element); tauto.
  - apply runs_welem. apply (ENV np_create_sub_element_at); tauto.
  - apply runs_welem. apply (ENV np_create_named); tauto.
  - apply runs_welem. apply (ENV np_create_named_at); tauto.
  - apply runs_welem. apply (ENV np_copy); tauto.
  - apply runs_welem. apply (ENV np_copy_at); tauto.
  - apply runs_welem. apply (ENV np_move); tauto.
  - apply runs_welem. apply (ENV np_move_at); tauto.
  - apply runs_wunit. apply (ENV np_remove); tauto.
  - apply runs_wunit. apply (ENV np_remove_kind); tauto.
  - apply runs_wunit. apply (ENV np_set_item_name); tauto.
  - apply runs_wunit. apply (ENV np_set_character_data); try tauto.
    intros b ->. discriminate COV.
  - apply runs_wunit. apply (ENV np_remove_cdata); tauto.
  - apply runs_wunit. apply (ENV np_insert_citem); tauto.
  - apply runs_wunit. apply (ENV np_remove_citem); tauto.
  - apply runs_wunit. apply (ENV np_set_reference_target EN_OK); tauto.
  - apply runs_wunit. apply (ENV np_set_attribute); tauto.
  - eapply runs_then; [apply (ENV np_remove_attribute); tauto|intros; apply runs_ret].
  - apply runs_wunit. apply (ENV np_set_comment); tauto.
  - apply runs_welem. apply (ENV np_get_or_create); tauto.
  - apply runs_welem. apply (ENV np_get_or_create_named); tauto.
  - eapply runs_then; [apply (ENV np_new_model)|intros; apply runs_ret].
  - eapply runs_then; [apply (ENV np_create_file); tauto|intros; apply runs_ret].
  - apply runs_wunit. apply (ENV np_remove_file); tauto.
  - apply runs_wunit. apply (ENV np_add_to_file); tauto.
  - apply runs_wunit. apply (ENV np_remove_from_file); tauto.
Qed.

Theorem no_panic_covered' w o : covered_op o = true -> PanicFree w -> SizeOk w -> op_wf w o -> side12 w o ->
  (forall s, run12 o w <> Pan s) /\ run12 o w <> Fuel.
Proof. intros. apply runs_not_pan. apply no_panic_covered; assumption. Qed.

Theorem path_suffix w n :
  Closed T tab_el tab_en w -> UpWF w -> node_ok T tab_el tab_en w n ->
  exists r, path_of T n w = Val (r, w) /\
    forall p own, r = OK p -> item_name T n w = Val (OK (Some own), w) -> exists base, strip_suffix own p = Some base.
Proof.
  intros C U NO. destruct (ENV path_of_ok w n C U NO) as (r & E & F).
  exists r. split; [exact E|]. intros p own -> EI. apply (ENV strip_suffix_ends). apply (F p eq_refl own EI).
Qed.

End Main.

Theorem depth_tree (T : tables) (tab_el tab_en : nametab) w i :
  PanicFree T tab_el tab_en w -> i < w_next w -> hb w i (fuel_of w).
Proof. intros [C U CU] L. eapply hb_fuel; eauto. Qed.

Theorem depth_walk (T : tables) (tab_el tab_en : nametab) w f i :
  Closed T tab_el tab_en w -> i < w_next w -> (hb w i f <-> exists l, dfs_ids f i w = Val (OK l, w)).
Proof.
  intros C L. split.
  - intros H. destruct (dfs_ids_runs T tab_el tab_en w C f i L H) as (r & E & _).
    destruct (dfs_ids_val w f i r w E) as (_ & (l & ->) & _). eauto.
  - intros (l & E). apply (dfs_ids_val w f i _ _ E).
Qed.

(* which constructors the partial theorem covers (pinned, so that coverage cannot shrink silently) *)
Theorem coverage : forall o,
  covered_op o = match o with OpSetCData _ (DFloat _) => false | _ => true end.
Proof. intros o. destruct o; reflexivity. Qed.

(* non-vacuity: the hypotheses are satisfiable (the empty world, from which every history starts with OpNewModel) *)
Example panicfree_empty (T : tables) (tab_el tab_en : nametab) : PanicFree T tab_el tab_en empty_world.
Proof.
  constructor.
  - constructor.
    + intros i. cbn. split; [intros H; exfalso; apply H; reflexivity|intros H; lia].
    + intros i n E. discriminate E.
    + intros x [].
  - intros i L. cbn in L. lia.
  - intros p c (n & E & _). discriminate E.
Qed.
Example op_wf_new_model (tab_el tab_en : nametab) : op_wf tab_el tab_en empty_world OpNewModel.
Proof. exact I. Qed.
