(* Tree/Files.v — specification side of C10 (file membership) over the heap model.
     Eff w i s          effective membership: s is the nearest non-empty local set on the parent chain of i
                        (the inductive mirror of Element::file_membership / Ops.fm_walk)
     Attributed w i f   f ∈ eff i
     FilesInv w         for every model and every element reachable from its root:
                          (a) the local set ⊆ the model's files
                          (b) a non-empty local set ⊆ the parent's effective set
                          (c) a non-empty local set occurs only on the root or below a splittable parent
                          (d) when the model has files the element has an effective set
     Proj w ff r i      i is visited by ser_heap started at r with filter ff: every node on the way from r (excluded)
                        to i `passes ff`, and no node on the way has character content mode
     ser_ids            the list of nodes ser_heap visits, by the same recursion (executable)
   plus boolean checkers (top-down enumeration) for Examples and refutations, the classes of operations on which the
   code breaks the invariant (Known10), and a tiny hand-made table set.
   MODEL/SPEC ONLY: definitions + Examples, no proofs. *)
From AV Require Import Base.Bytes Base.Outcome Hash.HashModel Tree.Heap Tree.Ops Tree.Script Tree.Serialize Tree.Inv.
From AV Require Xml.Parser.
Open Scope string_scope.
Open Scope list_scope.
Open Scope N_scope.

(* ---------- effective membership (no tables involved) ---------- *)
Inductive Eff (w : world) : id -> list N -> Prop :=
| Eff_local i n : w_nodes w i = Some n -> n_files n <> [] -> Eff w i (n_files n)
| Eff_up i n p s : w_nodes w i = Some n -> n_files n = [] -> n_parent n = PElem p -> Eff w p s -> Eff w i s.

Definition Attributed (w : world) (i : id) (f : N) : Prop := exists s, Eff w i s /\ In f s.
(* attributed to f alone *)
Definition OnlyIn (w : world) (i : id) (f : N) : Prop := exists s, Eff w i s /\ forall g, In g s -> g = f.

Fixpoint eff_fuel (fuel : nat) (w : world) (i : id) {struct fuel} : option (list N) :=
  match fuel with
  | O => None
  | S fl =>
    match w_nodes w i with
    | None => None
    | Some n => if is_empty (n_files n)
                then match n_parent n with PElem p => eff_fuel fl w p | _ => None end
                else Some (n_files n)
    end
  end.
Definition eff (w : world) (i : id) : option (list N) := eff_fuel (fuel_of w) w i.

Definition subset (a b : list N) : bool := forallb (fun x => set_mem x b) a.
Definition only_in (f : N) (s : list N) : bool := forallb (N.eqb f) s.

Section Files.
Variable T : tables.

Definition split_ok (pn : node) : Prop := exists s, splittable T (n_type pn) = Val s /\ s <> 0.
Definition split_okb (pn : node) : bool := match splittable T (n_type pn) with Val s => negb (s =? 0) | _ => false end.

Record FilesInvM (w : world) (x : model) : Prop := mkFilesInvM {
  fi_sub : forall i n, Reach w (m_root x) i -> w_nodes w i = Some n -> incl (n_files n) (m_files x);          (* (a) *)
  fi_par : forall i n p, Reach w (m_root x) i -> w_nodes w i = Some n -> n_files n <> [] ->                   (* (b) *)
           n_parent n = PElem p -> exists s, Eff w p s /\ incl (n_files n) s;
  fi_split : forall i n p pn, Reach w (m_root x) i -> w_nodes w i = Some n -> n_files n <> [] ->              (* (c) *)
             n_parent n = PElem p -> w_nodes w p = Some pn -> split_ok pn;
  fi_eff : m_files x <> [] -> forall i, Reach w (m_root x) i -> exists s, Eff w i s                           (* (d) *)
}.

Definition FilesInv (w : world) : Prop := forall x, In x (w_models w) -> FilesInvM w x.

(* ---------- what ser_heap visits ---------- *)
Definition recurses (n : node) : Prop :=
  exists mode, content_mode T (n_type n) = Val mode /\ (mode =? MCharacters) = false.

Inductive Proj (w : world) (ff : option N) (r : id) : id -> Prop :=
| Proj_root : allocated w r -> Proj w ff r r
| Proj_kid p pn c cn : Proj w ff r p -> w_nodes w p = Some pn -> recurses pn -> In c (kids pn) ->
                       w_nodes w c = Some cn -> passes ff cn = true -> Proj w ff r c.

Fixpoint ser_ids (fuel : nat) (w : world) (ff : option N) (i : id) {struct fuel} : res (list id) :=
  match fuel with
  | O => Fuel
  | S fl =>
    match w_nodes w i with
    | None => Pan "dangling node id"
    | Some n =>
      match n_content n with
      | [] => Val [i]
      | _ :: _ =>
        (let* mode := content_mode T (n_type n) in
         if mode =? MCharacters then Val [i] else
         let* body :=
           (fix subs (l : list citem) : res (list id) :=
              match l with
              | [] => Val []
              | CElem c :: l' =>
                match w_nodes w c with
                | None => Pan "dangling node id"
                | Some cn =>
                  if passes ff cn then (let* a := ser_ids fl w ff c in let* b := subs l' in Val (a ++ b))
                  else subs l'
                end
              | CData _ :: l' => subs l'
              end) (n_content n) in
         Val (i :: body))%res
      end
    end
  end.

(* ---------- the projection of a file as an element tree (what the text of the file denotes) ----------
   fproj w ff i : the tree below i with exactly the sub-elements that pass the filter, in document order, every
   element with its name, STORED type, attributes, character data items and comment.  None = fuel / dangling id. *)
Definition pc_attrs (a : list (N * cdata)) : list (N * Parser.cdata) := map (fun x => (fst x, to_pc (snd x))) a.

Fixpoint fproj_items (w : world) (ff : option N) (rec : id -> option Parser.etree) (l : list citem)
  : option (list (Parser.etree + Parser.cdata)) :=
  match l with
  | [] => Some []
  | CData d :: r => option_map (cons (inr (to_pc d))) (fproj_items w ff rec r)
  | CElem c :: r =>
    match w_nodes w c with
    | None => None
    | Some cn =>
      if passes ff cn then
        match rec c, fproj_items w ff rec r with
        | Some t, Some rest => Some (inl t :: rest)
        | _, _ => None
        end
      else fproj_items w ff rec r
    end
  end.

Fixpoint fproj (fuel : nat) (w : world) (ff : option N) (i : id) {struct fuel} : option Parser.etree :=
  match fuel with
  | O => None
  | S fl =>
    match w_nodes w i with
    | None => None
    | Some n =>
      match fproj_items w ff (fproj fl w ff) (n_content n) with
      | Some content => Some (Parser.ENode (n_name n) (n_type n) (pc_attrs (n_attrs n)) content (n_comment n))
      | None => None
      end
    end
  end.

(* the elements of a tree in document order, with name and attributes; the same of a heap element *)
Fixpoint epre (t : Parser.etree) : list (N * list (N * Parser.cdata)) :=
  match t with
  | Parser.ENode name _ attrs content _ =>
    (name, attrs) ::
    (fix go (l : list (Parser.etree + Parser.cdata)) : list (N * list (N * Parser.cdata)) :=
       match l with
       | [] => []
       | inl s :: r => epre s ++ go r
       | inr _ :: r => go r
       end) content
  end.
Definition label_at (w : world) (i : id) : N * list (N * Parser.cdata) :=
  match w_nodes w i with Some n => (n_name n, pc_attrs (n_attrs n)) | None => (0, []) end.

(* an item of a content list survives the filter *)
Definition item_kept (w : world) (ff : option N) (it : citem) : Prop :=
  match it with
  | CData _ => True
  | CElem c => exists cn, w_nodes w c = Some cn /\ passes ff cn = true
  end.

(* no written element is HOLLOW: the writer decides between <X/> and <X>..</X> on the unfiltered content list, so
   an element with content none of which survives the filter is written <X>..</X> with nothing inside, which is not
   the text of its projection (content []); in character mode the first unfiltered item decides what is written. *)
Definition NoHollow (w : world) (ff : option N) (r : id) : Prop :=
  forall i n, Proj w ff r i -> w_nodes w i = Some n -> n_content n <> [] ->
    (exists it, In it (n_content n) /\ item_kept w ff it) /\
    (forall mode first rest, content_mode T (n_type n) = Val mode -> (mode =? MCharacters) = true ->
       n_content n = first :: rest -> item_kept w ff first).

(* every written element of file g with content keeps some of it when file f goes: a character data item or a
   sub-element attributed to some file other than f *)
Definition KeepsSome (w : world) (f g : N) (r : id) : Prop :=
  forall i n, Proj w (Some g) r i -> w_nodes w i = Some n -> n_content n <> [] ->
    exists it, In it (n_content n) /\
      match it with CData _ => True | CElem c => exists h, h <> f /\ Attributed w c h end.

(* ... and the opposite: an element with content all of which is sub-elements attributed to f alone *)
Definition LosesAll (w : world) (f : N) (n : node) : Prop :=
  n_content n <> [] /\
  forall it, In it (n_content n) -> exists c, it = CElem c /\ ~ (exists h, h <> f /\ Attributed w c h).

(* elements of a file: what ArxmlFile::serialize writes / ArxmlFile::elements_dfs yields (when f ∈ the root's set) *)
Definition file_ids (w : world) (x : model) (f : N) : res (list id) := ser_ids (fuel_of w) w (Some f) (m_root x).

(* the hypothesis under which the text and the element view of a file agree: elements with character content have
   no sub-elements (a consequence of conformance to the specification, C07) *)
Definition CharsLeaf (w : world) : Prop :=
  forall i n mode, w_nodes w i = Some n -> content_mode T (n_type n) = Val mode -> (mode =? MCharacters) = true -> kids n = [].

(* ---------- boolean checkers ---------- *)
(* top-down enumeration; None = fuel exhausted or dangling id *)
Fixpoint reach_list (fuel : nat) (w : world) (i : id) {struct fuel} : option (list id) :=
  match fuel with
  | O => None
  | S fl =>
    match w_nodes w i with
    | None => None
    | Some n =>
      match
        (fix ks (l : list id) : option (list id) :=
           match l with
           | [] => Some []
           | c :: rest => match reach_list fl w c, ks rest with Some a, Some b => Some (a ++ b) | _, _ => None end
           end) (kids n)
      with
      | Some r => Some (i :: r)
      | None => None
      end
    end
  end.

Definition node_ok (w : world) (x : model) (i : id) : bool :=
  match w_nodes w i with
  | None => false
  | Some n =>
    subset (n_files n) (m_files x)
    && (is_empty (n_files n)
        || match n_parent n with
           | PElem p => match eff w p, w_nodes w p with
                        | Some s, Some pn => subset (n_files n) s && split_okb pn
                        | _, _ => false
                        end
           | _ => true
           end)
    && (is_empty (m_files x) || match eff w i with Some _ => true | None => false end)
  end.

Definition files_ok_model (w : world) (x : model) : bool :=
  match reach_list (fuel_of w) w (m_root x) with
  | Some l => forallb (node_ok w x) l
  | None => false
  end.
Definition files_ok (w : world) : bool := forallb (files_ok_model w) (w_models w).

(* every reachable element is in the view of at least one file of the model *)
Definition written_somewhere (w : world) (x : model) : bool :=
  match reach_list (fuel_of w) w (m_root x) with
  | Some l =>
    forallb (fun i => existsb (fun f => match file_ids w x f with Val v => mem_id i v | _ => false end) (m_files x)) l
  | None => false
  end.

(* ---------- the classes of operations on which the code breaks FilesInv (findings) ---------- *)
Definition model_of_b (w : world) (h : id) : option N :=
  match model_of h w with Val (OK m, _) => Some m | _ => None end.
Definition model_b (w : world) (m : N) : option model := nth_opt (w_models w) (N.to_nat m).
Definition files_of (w : world) (i : id) : list N := match w_nodes w i with Some n => n_files n | None => [] end.
Definition is_root (w : world) (i : id) : bool :=
  match w_nodes w i with Some n => match n_parent n with PModel _ => true | _ => false end | None => false end.

(* (i) add_to_file with a file object that refers to the element's model but is not (no longer) in its file list:
       ArxmlFile::model() keeps answering the model after AutosarModel::remove_file *)
Definition Known_add_foreign (w : world) (o : op) : bool :=
  match o with
  | OpAddToFile h f =>
    match model_of_b w h, nth_opt (w_files w) (N.to_nat f) with
    | Some m, Some fl =>
      (f_model fl =? m) && match model_b w m with Some x => negb (set_mem f (m_files x)) | None => false end
    | _, _ => false
    end
  | _ => false
  end.

(* (viii) the root loses the last file of its own set: remove_from_file on the root, or remove_file while other files
          remain; the root cannot be deleted, its set becomes empty and every element answers NoFilesInModel *)
Definition last_of (f : N) (s : list N) : bool := negb (is_empty s) && is_empty (set_remove f s).
Definition Known_root_last (w : world) (o : op) : bool :=
  match o with
  | OpRemoveFromFile h f => is_root w h && last_of f (files_of w h)
  | OpRemoveFile m f =>
    match model_b w m with
    | Some x => match index_of (N.eqb f) (m_files x) with
                | Some pos => negb (is_empty (swap_remove_at (m_files x) pos)) && last_of f (files_of w (m_root x))
                | None => false
                end
    | None => false
    end
  | _ => false
  end.

(* (iv) a moved element keeps the local sets of its subtree: they may exceed the new parent's set, and after a move
        into another model they name files of the source model *)
Definition subtree_local (w : world) (i : id) : bool :=
  existsb (fun x => negb (is_empty (files_of w x))) (walk (fuel_of w) w i).
Definition Known_move_local (w : world) (o : op) : bool :=
  match o with
  | OpMove _ mv | OpMoveAt _ mv _ => subtree_local w mv
  | _ => false
  end.

Definition Known10 (w : world) (o : op) : bool :=
  Known_add_foreign w o || Known_root_last w o || Known_move_local w o.

(* remove_file of a file that is in the model's list but whose own model link names another model: Element::
   remove_from_file answers InvalidFile, the error is swallowed, the list has already lost the file.  Not reachable
   through the API (create_file / load_buffer register a file in the model it refers to); excluded, not a finding. *)
Definition Unowned (w : world) (o : op) : bool :=
  match o with
  | OpRemoveFile m f =>
    match model_b w m, nth_opt (w_files w) (N.to_nat f) with
    | Some x, Some fl => set_mem f (m_files x) && negb (f_model fl =? m)
    | _, _ => false
    end
  | _ => false
  end.

(* ... stated as an invariant: every file listed in a model names that model.  It holds in the empty world and is
   preserved by every operation (Tree/FilesProofsOwned.v), so Unowned never holds in a reachable world. *)
Definition FilesOwned (w : world) : Prop :=
  forall m x f, model_b w m = Some x -> In f (m_files x) ->
  exists fl, nth_opt (w_files w) (N.to_nat f) = Some fl /\ f_model fl = m.

(* the files of a model have pairwise different names (create_file and load_buffer reject a name that a file of the
   model already has); with FilesOwned it is preserved by every operation (Tree/FilesProofsNames.v) *)
Definition name_at (w : world) (f : N) : list N :=
  match nth_opt (w_files w) (N.to_nat f) with Some fl => f_name fl | None => [] end.
Definition NamesUnique (w : world) : Prop :=
  forall m x, model_b w m = Some x -> NoDup (map (name_at w) (m_files x)).

(* ArxmlFile::set_filename (arxmlfile.rs): the name must differ from the names of the OTHER files of the file's model;
   checked BEFORE the name is stored.  Not part of the alphabets op / op2 (it changes no membership): a function of its
   own with its own theorems (Tree/FilesProofsNames.v) *)
Definition name_taken (w : world) (x : model) (f : N) (name : list N) : bool :=
  existsb (fun g => negb (g =? f) &&
                    match nth_opt (w_files w) (N.to_nat g) with Some gl => bytes_eqb (f_name gl) name | None => false end)
          (m_files x).
Definition f_set_filename (f : N) (name : list N) : W unit :=
  (do fl <- get_file f;
   do x <- get_model (f_model fl);
   do w <- wget;
   if name_taken w x f name then wfail DuplicateFilenameError
   else set_file f (mkFile (f_model fl) name (f_version fl) (f_standalone fl)))%W.

(* the root element of model m has a type that is a named type (never the case for the real tables: AUTOSAR has no
   SHORT-NAME); remove_file of the last file could then fail to delete a SHORT-NAME child of the root *)
Definition root_named (w : world) (o : op) : bool :=
  match o with
  | OpRemoveFile m _ =>
    match model_b w m with
    | Some x => match w_nodes w (m_root x) with
                | Some rn => match is_named T (n_type rn) with Val false => false | _ => true end
                | None => true
                end
    | None => false
    end
  | _ => false
  end.

(* remove_file of the LAST file of a model *)
Definition last_file (w : world) (o : op) : bool :=
  match o with
  | OpRemoveFile m f =>
    match model_b w m with
    | Some x => match index_of (N.eqb f) (m_files x) with
                | Some pos => is_empty (swap_remove_at (m_files x) pos)
                | None => false
                end
    | None => false
    end
  | _ => false
  end.

(* remove_file is exact unless a SHORT-NAME of a named element carries its own set: it cannot be deleted
   (ShortNameRemovalForbidden is swallowed), its set is reset and it joins the remaining files of its parent *)
Definition short_local (w : world) (x : model) : bool :=
  match reach_list (fuel_of w) w (m_root x) with
  | Some l => existsb (fun i => match w_nodes w i with
                                | Some n => (n_name n =? name_short_name T) && negb (is_empty (n_files n))
                                | None => false end) l
  | None => true
  end.

End Files.

(* ====================================================================== a tiny table set *)
Module TinyF.
(* element names = element definitions = data types:
     0 AUTOSAR (splittable)  1 AR-PACKAGES (splittable)  2 AR-PACKAGE (named)  3 SHORT-NAME  4 ELEMENTS (splittable)
     5 SYSTEM (named)  6 SPROPS (named AND splittable, like SYMBOL-PROPS)
   versions: bit 1 and bit 2 (LATEST = 2); no attributes, no references *)
Definition nAUTOSAR := 0. Definition nPKGS := 1. Definition nPKG := 2. Definition nSHORT := 3.
Definition nELEMENTS := 4. Definition nSYSTEM := 5. Definition nSPROPS := 6.

Definition mkE (name ty mult split : N) : elemdef :=
  {| ed_name := name; ed_type := ty; ed_mult := mult; ed_ordered := 0; ed_split := split; ed_restrict := 0 |}.
Definition mkD (s e : N) (cd mode : N) : dtype :=
  {| dt_sub_start := s; dt_sub_end := e; dt_sub_ver := s; dt_attr_start := 0; dt_attr_end := 0; dt_attr_ver := 100;
     dt_cdata := cd; dt_mode := mode; dt_ref_start := 0; dt_ref_end := 0 |}.

Definition tiny : tables := {|
  T_elements := fun i => match i with
    | 0 => Some (mkE 0 0 1 3) | 1 => Some (mkE 1 1 0 3) | 2 => Some (mkE 2 2 2 0) | 3 => Some (mkE 3 3 1 0)
    | 4 => Some (mkE 4 4 0 3) | 5 => Some (mkE 5 5 2 0) | 6 => Some (mkE 6 6 2 3) | _ => None end;
  n_elements := 7;
  T_subelements := fun i => match i with
    | 0 => Some (0, 1)                                        (* AUTOSAR: AR-PACKAGES *)
    | 1 => Some (0, 2)                                        (* AR-PACKAGES: AR-PACKAGE* *)
    | 2 => Some (0, 3) | 3 => Some (0, 4) | 4 => Some (0, 1)  (* AR-PACKAGE: SHORT-NAME ELEMENTS AR-PACKAGES *)
    | 5 => Some (0, 5) | 6 => Some (0, 6)                     (* ELEMENTS (bag): SYSTEM* SPROPS* *)
    | 7 => Some (0, 3) | 8 => Some (0, 6)                     (* SYSTEM: SHORT-NAME SPROPS* *)
    | 9 => Some (0, 3)                                        (* SPROPS: SHORT-NAME *)
    | _ => None end;
  n_subelements := 10;
  T_attributes := fun _ => None;
  n_attributes := 0;
  T_version_info := fun _ => Some 3;
  n_version_info := 200;
  T_datatypes := fun i => match i with
    | 0 => Some (mkD 0 1 0 MSequence)
    | 1 => Some (mkD 1 2 0 MSequence)
    | 2 => Some (mkD 2 5 0 MSequence)
    | 3 => Some (mkD 5 5 1 MCharacters)
    | 4 => Some (mkD 5 7 0 MBag)
    | 5 => Some (mkD 7 9 0 MSequence)
    | 6 => Some (mkD 9 10 0 MSequence)
    | _ => None end;
  n_datatypes := 7;
  T_ref_items := fun _ => None;
  n_ref_items := 0;
  T_cdata := fun i => match i with 0 => Some (CPattern 0 (Some 8)) | _ => None end;
  n_cdata := 1;
  reference_type_idx := 99; autosar_element := 0; name_short_name := 3; attr_dest := 0
|}.

Definition tiny_check_fn (fn : N) (s : list N) : res bool :=
  match fn with
  | 0 => Val (negb (is_empty s) && negb (existsb (N.eqb 47) s))
  | _ => Pan "tiny_check_fn"
  end.
Definition tiny_el : nametab :=
  {| nt_strtab := [BS "AUTOSAR"; BS "AR-PACKAGES"; BS "AR-PACKAGE"; BS "SHORT-NAME"; BS "ELEMENTS"; BS "SYSTEM"; BS "SPROPS"];
     nt_disp := [(0, 0)]; nt_mdisp := 1; nt_mtab := 1 |}.
Definition tiny_en : nametab := {| nt_strtab := [BS "~"]; nt_disp := [(0, 0)]; nt_mdisp := 1; nt_mtab := 1 |}.
Definition LATEST := 2.
Definition run := run_op tiny tiny_el tiny_en tiny_check_fn LATEST [].

Fixpoint run_script (ops : list op) (w : world) : res world :=
  match ops with
  | [] => Val w
  | o :: r => match run o w with Val (_, w') => run_script r w' | Pan s => Pan s | Fuel => Fuel end
  end.
Inductive obs := OOk (v : value) | OErr (e : err) | OPan | OFuel.
Fixpoint trace_script (ops : list op) (w : world) : list obs :=
  match ops with
  | [] => []
  | o :: r => match run o w with
              | Val (OK v, w') => OOk v :: trace_script r w'
              | Val (ER e, w') => OErr e :: trace_script r w'
              | Pan _ => [OPan] | Fuel => [OFuel] end
  end.
Definition after (s : list op) : world := match run_script s empty_world with Val w => w | _ => empty_world end.
Definition with_script {A} (s : list op) (f : world -> A) (d : A) : A :=
  match run_script s empty_world with Val w => f w | _ => d end.

(* one model (root 0), files 0 and 1 of version 2, AR-PACKAGES 1, package /A = 2 (SHORT-NAME 3), ELEMENTS 4,
   /A/S = 5 (SHORT-NAME 6), /B = 7 (SHORT-NAME 8) *)
Definition base : list op :=
  [OpNewModel; OpCreateFile 0 (BS "f0") 2; OpCreateFile 0 (BS "f1") 2; OpCreateSub 0 nPKGS;
   OpCreateNamed 1 nPKG (BS "A"); OpCreateSub 2 nELEMENTS; OpCreateNamed 4 nSYSTEM (BS "S"); OpCreateNamed 1 nPKG (BS "B")].

Definition locals (w : world) (l : list id) : list (list N) := map (files_of w) l.
Definition effs (w : world) (l : list id) : list (option (list N)) := map (eff w) l.

Example base_trace : trace_script base empty_world =
  [OOk (VModel 0); OOk (VFile 0); OOk (VFile 1); OOk (VElem 1); OOk (VElem 2); OOk (VElem 4); OOk (VElem 5); OOk (VElem 7)].
Proof. vm_compute. reflexivity. Qed.
(* the second file was created while the model was empty: everything inherits {0,1} from the root *)
Example base_locals : locals (after base) [0; 1; 2; 3; 4; 5; 6; 7; 8] = [[0; 1]; []; []; []; []; []; []; []; []].
Proof. vm_compute. reflexivity. Qed.
Example base_ok : files_ok tiny (after base) = true.
Proof. vm_compute. reflexivity. Qed.

(* B is restricted to file 1, S to file 0: parents are pulled in, siblings keep the old set *)
Definition split : list op := base ++ [OpRemoveFromFile 7 0; OpRemoveFromFile 5 1].
Example split_locals : locals (after split) [0; 1; 2; 3; 4; 5; 6; 7; 8] = [[0; 1]; []; []; []; []; [0]; []; [1]; []].
Proof. vm_compute. reflexivity. Qed.
Example split_effs : effs (after split) [2; 5; 6; 7; 8] = [Some [0; 1]; Some [0]; Some [0]; Some [1]; Some [1]].
Proof. vm_compute. reflexivity. Qed.
Example split_ok : files_ok tiny (after split) = true.
Proof. vm_compute. reflexivity. Qed.
Example split_written : with_script split (fun w => forallb (written_somewhere tiny w) (w_models w)) false = true.
Proof. vm_compute. reflexivity. Qed.
Example split_views :
  with_script split (fun w => map (fun f => ser_ids tiny (fuel_of w) w (Some f) 0) [0; 1]) [] =
  [Val [0; 1; 2; 3; 4; 5; 6]; Val [0; 1; 2; 3; 4; 7; 8]].
Proof. vm_compute. reflexivity. Qed.

(* remove_file 0: S (attributed to file 0 alone) goes, with its index entry; file 1 keeps its elements *)
Definition split_rm : list op := split ++ [OpRemoveFile 0 0].
Example split_rm_view :
  with_script split_rm (fun w => (ser_ids tiny (fuel_of w) w (Some 1) 0, map (fun x => map fst (m_idents x)) (w_models w))) (Fuel, []) =
  (Val [0; 1; 2; 3; 4; 7; 8], [[BS "/A"; BS "/B"]]).
Proof. vm_compute. reflexivity. Qed.
Example split_rm_ok : files_ok tiny (after split_rm) = true.
Proof. vm_compute. reflexivity. Qed.

(* the text of the OTHER file: ELEMENTS (4) is written for file 1 in both states with the same (empty) projected
   content, the projection trees are equal, but the text changes from <ELEMENTS>..</ELEMENTS> (content, none of it
   for file 1) to <ELEMENTS/> (no content): KeepsSome fails at 4, whose whole content was attributed to file 0 *)
Definition text (w : world) (f : N) : res (list N) :=
  ser_heap tiny tiny_el tiny_en tiny_en (fun _ => []) (fuel_of w) w (Some f) 0 0 false.
Example hollow_before : with_script split (fun w => text w 1) Fuel = Val (BS "
<AUTOSAR>
  <AR-PACKAGES>
    <AR-PACKAGE>
      <SHORT-NAME>A</SHORT-NAME>
      <ELEMENTS>
      </ELEMENTS>
    </AR-PACKAGE>
    <AR-PACKAGE>
      <SHORT-NAME>B</SHORT-NAME>
    </AR-PACKAGE>
  </AR-PACKAGES>
</AUTOSAR>").
Proof. vm_compute. reflexivity. Qed.
Example hollow_after : with_script split_rm (fun w => text w 1) Fuel = Val (BS "
<AUTOSAR>
  <AR-PACKAGES>
    <AR-PACKAGE>
      <SHORT-NAME>A</SHORT-NAME>
      <ELEMENTS/>
    </AR-PACKAGE>
    <AR-PACKAGE>
      <SHORT-NAME>B</SHORT-NAME>
    </AR-PACKAGE>
  </AR-PACKAGES>
</AUTOSAR>").
Proof. vm_compute. reflexivity. Qed.
Example hollow_differs : with_script split (fun w => text w 1) Fuel <> with_script split_rm (fun w => text w 1) Fuel.
Proof.
  intros H. apply (f_equal (fun r => match r with Val l => List.length l | _ => 0%nat end)) in H. vm_compute in H. discriminate.
Qed.
Example hollow_same_tree :
  with_script split (fun w => fproj (fuel_of w) w (Some 1) 0) None =
  with_script split_rm (fun w => fproj (fuel_of w) w (Some 1) 0) None /\
  with_script split (fun w => match fproj (fuel_of w) w (Some 1) 0 with Some _ => true | None => false end) false = true.
Proof. vm_compute. split; reflexivity. Qed.

(* ---------- the defect classes, on the model ---------- *)
(* (i) a removed file is added again: the root and the package are restricted to a file the model does not own;
       after remove_from_file 7 1 the package B is in no file of the model *)
Definition d_foreign : list op := base ++ [OpRemoveFile 0 1; OpAddToFile 7 1].
Example d_foreign_known : with_script (base ++ [OpRemoveFile 0 1]) (fun w => Known10 w (OpAddToFile 7 1)) false = true.
Proof. vm_compute. reflexivity. Qed.
Example d_foreign_state :
  with_script d_foreign (fun w => (map m_files (w_models w), locals w [0; 1; 7], files_ok tiny w)) ([], [], true) =
  ([[0]], [[0; 1]; [0; 1]; [0; 1]], false).
Proof. vm_compute. reflexivity. Qed.
Example d_foreign_lost :
  with_script (d_foreign ++ [OpRemoveFromFile 7 0])
    (fun w => (locals w [7], forallb (written_somewhere tiny w) (w_models w))) ([], true) = ([[1]], false).
Proof. vm_compute. reflexivity. Qed.

(* (viii) the root loses its last file while the model keeps one: nobody has a membership any more *)
Definition d_root : list op := base ++ [OpRemoveFromFile 0 0; OpRemoveFromFile 0 1].
Example d_root_known : with_script (base ++ [OpRemoveFromFile 0 0]) (fun w => Known10 w (OpRemoveFromFile 0 1)) false = true.
Proof. vm_compute. reflexivity. Qed.
Example d_root_state :
  with_script d_root (fun w => (map m_files (w_models w), effs w [0; 2; 7], files_ok tiny w)) ([], [], true) =
  ([[0; 1]], [None; None; None], false).
Proof. vm_compute. reflexivity. Qed.
Example d_root_rmfile_known :
  with_script (base ++ [OpRemoveFromFile 0 0]) (fun w => Known10 w (OpRemoveFile 0 1)) false = true.
Proof. vm_compute. reflexivity. Qed.
Example d_root_rmfile_state :
  with_script (base ++ [OpRemoveFromFile 0 0; OpRemoveFile 0 1])
    (fun w => (map m_files (w_models w), effs w [0; 2; 7], files_ok tiny w)) ([], [], true) = ([[0]], [None; None; None], false).
Proof. vm_compute. reflexivity. Qed.

(* (iv) S (restricted to file 0) is moved into /B/ELEMENTS (node 9), which is in file 1 only *)
Definition d_move : list op := split ++ [OpCreateSub 7 nELEMENTS; OpMove 9 5].
Example d_move_known : with_script (split ++ [OpCreateSub 7 nELEMENTS]) (fun w => Known10 w (OpMove 9 5)) false = true.
Proof. vm_compute. reflexivity. Qed.
Example d_move_state :
  with_script d_move (fun w => (locals w [5], effs w [9], files_ok tiny w, forallb (written_somewhere tiny w) (w_models w)))
    ([], [], true, true) = ([[0]], [Some [1]], false, false).
Proof. vm_compute. reflexivity. Qed.

(* (iii) the SHORT-NAME (10) of the named and splittable SPROPS (9) gets its own set: file 1 has SPROPS without
         SHORT-NAME; remove_file 0 cannot delete it, resets its set, and it turns up in file 1 *)
Definition d_short : list op := base ++ [OpCreateNamed 5 nSPROPS (BS "P"); OpRemoveFromFile 10 1].
Example d_short_views :
  with_script d_short (fun w => (files_ok tiny w, short_local tiny w (mkModel 0 [] [] []), ser_ids tiny (fuel_of w) w (Some 1) 0)) (false, false, Fuel) =
  (true, true, Val [0; 1; 2; 3; 4; 5; 6; 9; 7; 8]).
Proof. vm_compute. reflexivity. Qed.
Example d_short_rm :
  with_script (d_short ++ [OpRemoveFile 0 0]) (fun w => (locals w [10], ser_ids tiny (fuel_of w) w (Some 1) 0)) ([], Fuel) =
  ([[]], Val [0; 1; 2; 3; 4; 5; 6; 9; 10; 7; 8]).
Proof. vm_compute. reflexivity. Qed.

(* (v) the last file goes: the root is emptied, FilesInv holds trivially (the children are orphans: C03's finding) *)
Example d_last :
  with_script (split ++ [OpRemoveFile 0 0; OpRemoveFile 0 1])
    (fun w => (map m_files (w_models w), locals w [0], files_ok tiny w, reach_list (fuel_of w) w 0)) ([], [], false, None) =
  ([[]], [[]], true, Some [0]).
Proof. vm_compute. reflexivity. Qed.

End TinyF.
