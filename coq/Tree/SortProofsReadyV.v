(* Tree/SortProofsReadyV.v — C14, the hypothesis SpecKids over histories, part V (values).
   RV w : every character data item in a content list and every attribute value is "named" (an enum item is inside the EnumItem
          string table), and every attribute name is inside the AttributeName string table.
   Kept by all 26 operations of Tree/Script.v: a value enters the heap only through check_value against a specification of the
   tables (raw_set_character_data, Element::set_character_data, raw_set_attribute - also the DEST attribute of
   set_reference_target), as a string (names, reference paths, mixed text), from the root attribute list of new_model, or as a
   copy of a value that is already there (deep_copy, copy_attrs).
   A small preservation calculus vp (ro / nfp / bind / try / catch / get_node / wl / set_node / modify_node / alloc) with a
   tactic vp_go in the style of agent-c17's fr_go (Tree/CompatFrame.v); the side conditions are discharged by eauto with the
   list lemmas of the hint database nv.
   Table hypotheses: EnumsOK (every item of every CEnum specification is inside the enum string table), AttrsOK (every attribute
   definition's name is inside the attribute string table), and the root attribute list is valid. *)
From Coq Require Import PeanoNat Arith Lia.
From AV Require Import Base.Bytes Base.Outcome Hash.HashModel Spec.SpecOps Tree.Heap Tree.Ops Tree.Script Tree.Inv
  Tree.InvProofsBase Tree.InvProofsCore Tree.InvProofsPrim Tree.InvProofsCreate Tree.InvProofsRefs Tree.InvProofsRemove Tree.InvProofs
  Tree.Compat Tree.CompatSpec Tree.CompatTyped Tree.CompatProofs8 Tree.CompatFrame Tree.CompatFrameOps Tree.CompatHist3
  Tree.SortProofsHeap.
Open Scope string_scope.
Open Scope list_scope.
Open Scope N_scope.


Section V.
Variable T : tables.
Variable tab_el tab_at tab_en : nametab.
Variable check_fn : N -> list N -> res bool.
Variable LATEST : N.
Variable root_attrs : list (N * cdata).

Definition cdok (d : cdata) : Prop := cdata_named tab_en d.
Definition attrok (a : N * cdata) : Prop := to_str tab_at (fst a) <> None /\ cdok (snd a).
Definition contV (l : list citem) : Prop := forall d, In (CData d) l -> cdok d.
Definition attrV (l : list (N * cdata)) : Prop := forall a, In a l -> attrok a.
Definition nodeV (n : node) : Prop := contV (n_content n) /\ attrV (n_attrs n).
Definition RV (w : world) : Prop := forall i n, w_nodes w i = Some n -> nodeV n.

Hypothesis EnumsOK : forall k items it, T_cdata T k = Some (CEnum items) -> In it items -> to_str tab_en (fst it) <> None.
Hypothesis AttrsOK : forall k name cdid req, T_attributes T k = Some (name, cdid, req) -> to_str tab_at name <> None.
Hypothesis RootOK : attrV root_attrs.

Lemma empty_RV : RV empty_world.
Proof. intros i n H. discriminate. Qed.

(* ---- list facts ---- *)
Lemma cdok_string s : cdok (DString s).
Proof. exact I. Qed.
Lemma contV_nil : contV [].
Proof. intros d []. Qed.
Lemma contV_cons_data d l : cdok d -> contV l -> contV (CData d :: l).
Proof. intros Hd Hl x [[= <-]|H]; auto. Qed.
Lemma contV_cons_elem c l : contV l -> contV (CElem c :: l).
Proof. intros Hl x [H|H]; [discriminate|auto]. Qed.
Lemma contV_tail x l : contV (x :: l) -> contV l.
Proof. intros H d Hd. apply H. right. exact Hd. Qed.
Lemma contV_app a b : contV a -> contV b -> contV (a ++ b).
Proof. intros Ha Hb d H. apply in_app_or in H as [H|H]; auto. Qed.
Lemma contV_remove_at l k : contV l -> contV (remove_at l k).
Proof. intros H d Hd. apply H. exact (in_remove_at _ _ _ Hd). Qed.
Lemma contV_insert_elem l k c : contV l -> contV (insert_at l k (CElem c)).
Proof. intros H d Hd. apply in_insert_at in Hd as [Hd|Hd]; [discriminate|auto]. Qed.
Lemma contV_insert_data l k x : cdok x -> contV l -> contV (insert_at l k (CData x)).
Proof. intros Hx H d Hd. apply in_insert_at in Hd as [[= ->]|Hd]; auto. Qed.
Lemma contV_in l d : contV l -> In (CData d) l -> cdok d.
Proof. intros H. apply H. Qed.

Lemma attrV_nil : attrV [].
Proof. intros a []. Qed.
Lemma attrV_app a b : attrV a -> attrV b -> attrV (a ++ b).
Proof. intros Ha Hb d H. apply in_app_or in H as [H|H]; auto. Qed.
Lemma attrV_one x v : to_str tab_at x <> None -> cdok v -> attrV [(x, v)].
Proof. intros H1 H2 a [<-|[]]. split; assumption. Qed.
Lemma attrV_remove_at l k : attrV l -> attrV (remove_at l k).
Proof. intros H d Hd. apply H. exact (in_remove_at _ _ _ Hd). Qed.
Lemma attrV_replace l x v : to_str tab_at x <> None -> cdok v -> attrV l ->
  attrV (map (fun a => if fst a =? x then (x, v) else a) l).
Proof.
  intros H1 H2 Hl a Ha. apply in_map_iff in Ha as (b & <- & Hb). destruct (fst b =? x); [split; assumption|exact (Hl _ Hb)].
Qed.
Lemma attrV_sub l l' : (forall a, In a l' -> In a l) -> attrV l -> attrV l'.
Proof. intros Hs H a Ha. exact (H _ (Hs _ Ha)). Qed.

(* ---- the checks ---- *)
Lemma check_cdok k v cs version : T_cdata T k = Some cs -> check_value check_fn v cs version = Val true -> cdok v.
Proof.
  intros Hk H. destruct v as [e|s|n|b]; try exact I. destruct cs as [items| | | |]; try discriminate.
  cbn [check_value] in H. destruct (find (fun it => fst it =? e) items) as [[x mask]|] eqn:Ef; [|discriminate].
  apply find_some in Ef as (Hin & Hx). cbn [fst] in Hx. apply N.eqb_eq in Hx. subst x.
  exact (EnumsOK k items (e, mask) Hk Hin).
Qed.

Lemma chardata_spec_table t cs : chardata_spec T t = Val (Some cs) -> exists k, T_cdata T k = Some cs.
Proof.
  unfold chardata_spec. destruct (dt T (snd t)) as [d| |]; try discriminate. cbn [bind].
  destruct (dt_cdata d =? 0); [discriminate|].
  destruct (T_cdata T (dt_cdata d - 1)) as [c|] eqn:E; [|discriminate]. cbn [unwrap bind]. intros [= <-]. eauto.
Qed.

Lemma find_attribute_spec_table t attr cdid cs req mask :
  find_attribute_spec T t attr = Val (Some (cdid, cs, req, mask)) ->
  T_cdata T cdid = Some cs /\ exists k, T_attributes T k = Some (attr, cdid, req).
Proof.
  unfold find_attribute_spec. destruct (attr_slice T (snd t)) as [[[start stop] d]| |]; try discriminate. cbn [bind].
  destruct (slice_chk _ start stop (n_attributes T)) as [u| |]; try discriminate. cbn [bind].
  generalize (N.to_nat (stop - start)). generalize 0 at 1.
  intros pos k. revert pos. induction k as [|k IH]; intros pos; [discriminate|].
  destruct (T_attributes T (start + pos)) as [[[name cd] rq]|] eqn:Ea; [|discriminate]. cbn [unwrap bind].
  destruct (name =? attr) eqn:En; [|apply IH].
  destruct (vinfo T (dt_attr_ver d + pos)) as [ver| |]; try discriminate. cbn [bind].
  destruct (T_cdata T cd) as [c|] eqn:Ec; [|discriminate]. cbn [unwrap bind]. intros [= <- <- <- <-].
  apply N.eqb_eq in En. subst name. eauto.
Qed.

Lemma cdok_chardata t cs v version :
  chardata_spec T t = Val (Some cs) -> check_value check_fn v cs version = Val true -> cdok v.
Proof. intros H1 H2. destruct (chardata_spec_table _ _ H1) as (k & Hk). exact (check_cdok k _ _ _ Hk H2). Qed.
Lemma cdok_attr t attr cdid cs req mask v version :
  find_attribute_spec T t attr = Val (Some (cdid, cs, req, mask)) -> check_value check_fn v cs version = Val true -> cdok v.
Proof. intros H1 H2. destruct (find_attribute_spec_table _ _ _ _ _ _ H1) as (Hk & _). exact (check_cdok _ _ _ _ Hk H2). Qed.
Lemma nameok_attr t attr cdid cs req mask :
  find_attribute_spec T t attr = Val (Some (cdid, cs, req, mask)) -> to_str tab_at attr <> None.
Proof. intros H1. destruct (find_attribute_spec_table _ _ _ _ _ _ H1) as (_ & k & Hk). exact (AttrsOK _ _ _ _ Hk). Qed.

(* ---- the calculus ---- *)
Definition vp {A} (m : W A) : Prop := forall w r w', RV w -> m w = Val (r, w') -> RV w'.

Lemma RV_nodes_eq w w' : (forall x, w_nodes w' x = w_nodes w x) -> RV w -> RV w'.
Proof. intros E H i n Hn. rewrite E in Hn. exact (H _ _ Hn). Qed.
Lemma RV_wset w i x : RV w -> nodeV x -> RV (wset w i x).
Proof.
  intros H Hx j y Hy. destruct (N.eq_dec j i) as [->|Hne].
  - rewrite nodes_wset_eq in Hy. injection Hy as <-. exact Hx.
  - rewrite nodes_wset_neq in Hy by exact Hne. exact (H _ _ Hy).
Qed.
Lemma RV_walloc w x : RV w -> nodeV x -> RV (walloc w x).
Proof.
  intros H Hx j y Hy. destruct (N.eq_dec j (w_next w)) as [->|Hne].
  - rewrite nodes_walloc_new in Hy. injection Hy as <-. exact Hx.
  - rewrite nodes_walloc_old in Hy by exact Hne. exact (H _ _ Hy).
Qed.

Lemma vp_ro {A} (m : W A) : ro m -> vp m.
Proof. intros R w r w' F H. apply R in H. subst. exact F. Qed.
Lemma vp_nfp {A} (m : W A) : nfp m -> vp m.
Proof. intros Hn w r w' F H. destruct (Hn _ _ _ H) as (E & _). exact (RV_nodes_eq _ _ E F). Qed.
Lemma vp_bind {A B} (m : W A) (k : A -> W B) : vp m -> (forall a, vp (k a)) -> vp (wbind m k).
Proof.
  intros Hm Hk w r w' F H. apply wbind_inv in H as [(a & w1 & H1 & H2) | (e & H1 & _)].
  - eapply Hk; [eapply Hm; eauto|eauto].
  - eapply Hm; eauto.
Qed.
Lemma vp_bind_post {A B} (P : A -> Prop) (m : W A) (k : A -> W B) :
  vp m -> (forall w a w', m w = Val (OK a, w') -> P a) -> (forall a, P a -> vp (k a)) -> vp (wbind m k).
Proof.
  intros Hm HP Hk w r w' F H. apply wbind_inv in H as [(a & w1 & H1 & H2) | (e & H1 & _)].
  - eapply (Hk a (HP _ _ _ H1)); [eapply Hm; eauto|eauto].
  - eapply Hm; eauto.
Qed.
Lemma vp_try {A} (m : W A) : vp m -> vp (wtry m).
Proof. intros Hm w r w' F H. apply wtry_inv in H as (r0 & H & _). eapply Hm; eauto. Qed.
Lemma vp_catch {A} (m : W A) : vp m -> vp (wcatch m).
Proof. intros Hm w r w' F H. apply wcatch_inv in H as (r0 & H & _). eapply Hm; eauto. Qed.

Lemma vp_bind_get {B} i (k : node -> W B) : (forall n, nodeV n -> vp (k n)) -> vp (wbind (get_node i) k).
Proof.
  intros Hk w r w' F H. apply wbind_inv in H as [(n & w1 & H1 & H2) | (e & H1 & _)].
  - apply get_node_inv in H1 as (n' & Hn & [= <-] & ->). exact (Hk n (F _ _ Hn) _ _ _ F H2).
  - apply get_node_inv in H1 as (n' & _ & [=] & _).
Qed.
Lemma vp_bind_wl {A B} (x : res A) (k : A -> W B) : (forall a, x = Val a -> vp (k a)) -> vp (wbind (wl x) k).
Proof.
  intros Hk w r w' F H. apply wbind_inv in H as [(a & w1 & H1 & H2) | (e & H1 & _)].
  - apply wl_inv in H1 as (a' & Hx & [= <-] & ->). exact (Hk a Hx _ _ _ F H2).
  - apply wl_inv in H1 as (a' & _ & [=] & _).
Qed.
Lemma vp_set_node i x : nodeV x -> vp (set_node i x).
Proof. intros Hx w r w' F H. apply set_node_wset in H as (_ & ->). exact (RV_wset _ _ _ F Hx). Qed.
Lemma vp_modify_node i f : (forall n, nodeV n -> nodeV (f n)) -> vp (modify_node i f).
Proof. intros Hf w r w' F H. apply modify_node_wset in H as (n & Hn & _ & ->). exact (RV_wset _ _ _ F (Hf _ (F _ _ Hn))). Qed.
Lemma vp_alloc x : nodeV x -> vp (alloc x).
Proof. intros Hx w r w' F H. apply alloc_walloc in H as (_ & ->). exact (RV_walloc _ _ F Hx). Qed.
Lemma vp_set_model m x : vp (set_model m x).
Proof. intros w r w' F H. apply set_model_inv in H as (_ & ->). exact F. Qed.
Lemma vp_modify_model m f : vp (modify_model m f).
Proof. intros w r w' F H. apply modify_model_inv in H as (x & _ & _ & ->). exact F. Qed.
Lemma vp_set_file f x : vp (set_file f x).
Proof. intros w r w'. unfold set_file. intros F [= <- <-]. exact F. Qed.

Create HintDb nv discriminated.
Hint Resolve cdok_string contV_nil contV_cons_data contV_cons_elem contV_app contV_remove_at contV_insert_elem contV_insert_data
  attrV_nil attrV_app attrV_one attrV_remove_at attrV_replace cdok_chardata cdok_attr nameok_attr : nv.
Hint Immediate contV_tail : nv.

(* nodeV of an updated record from nodeV of the record(s) in the context *)
Ltac nv_tac :=
  cbv beta;
  repeat match goal with H : nodeV _ |- _ => destruct H as [? ?] end;
  repeat match goal with
         | |- nodeV (if ?b then _ else _) => destruct b
         | |- nodeV (match ?x with _ => _ end) => destruct x eqn:?
         end;
  split; cbn [n_content n_attrs set_content set_parent set_attrs set_files set_comment new_node];
  repeat match goal with
         | |- contV (match ?l with _ => _ end) => destruct l eqn:?
         | |- attrV (if ?b then _ else _) => destruct b
         | E : ?l = _, H : contV ?l |- _ => rewrite E in H
         end;
  eauto 6 with nv.

Create HintDb vp discriminated.

Ltac vp_step :=
  first
  [ apply vp_ro; solve [ro_tac]
  | assumption
  | solve [auto with vp]
  | apply vp_nfp; solve [auto with nfp]
  | apply vp_modify_node; intros ? ?; solve [nv_tac]
  | apply vp_set_node; solve [nv_tac]
  | apply vp_alloc; solve [nv_tac]
  | apply vp_modify_model | apply vp_set_model | apply vp_set_file
  | apply vp_try | apply vp_catch
  | apply vp_bind_get; intros ? ?
  | apply vp_bind_wl; intros ? ?
  | apply vp_bind; [ | intros ? ]
  | match goal with
    | |- vp (match ?x with _ => _ end) => first [is_var x; destruct x | destruct x eqn:?]
    | |- vp (if ?b then _ else _) => first [is_var b; destruct b | destruct b eqn:?]
    | |- vp (let '(_, _) := ?x in _) => destruct x
    end ].
Ltac vp_loop :=
  match goal with
  | |- vp (?F ?l) =>
    is_fix F;
    let l' := fresh "l" in
    generalize l; intro l'; induction l' as [|? ? ?]; lazy beta iota fix zeta
  end.
Ltac vp_go := repeat first [ vp_step | vp_loop ].

Lemma vp_each_loop {A} (body : A -> W unit) l : (forall a, vp (body a)) -> vp (each_loop body l).
Proof. intros Hb. induction l as [|a l IH]; cbn [each_loop]; [apply vp_ro; ro_tac|]. apply vp_bind; [apply Hb|intros _; exact IH]. Qed.
Lemma vp_kloop (step : id -> W unit) l : (forall c, vp (step c)) -> vp (kloop step l).
Proof.
  intros Hs. induction l as [|[c|d] l IH]; cbn [kloop]; [apply vp_ro; ro_tac| |exact IH].
  apply vp_bind; [apply Hs|intros _; exact IH].
Qed.

(* ---- model tables only ---- *)
Lemma vp_add_identifiable m p e : vp (add_identifiable m p e).
Proof. unfold add_identifiable. vp_go. Qed.
Lemma vp_remove_identifiable m p : vp (remove_identifiable m p).
Proof. unfold remove_identifiable. vp_go. Qed.
Lemma vp_fix_identifiables m a b : vp (fix_identifiables m a b).
Proof. unfold fix_identifiables. vp_go. Qed.
Lemma vp_add_reference_origin m r e : vp (add_reference_origin m r e).
Proof. unfold add_reference_origin. vp_go. Qed.
Lemma vp_fix_reference_origins m a b e : vp (fix_reference_origins m a b e).
Proof. unfold fix_reference_origins. vp_go. Qed.
Lemma vp_remove_reference_origin m r e : vp (remove_reference_origin m r e).
Proof. unfold remove_reference_origin. vp_go. Qed.
Hint Resolve vp_add_identifiable vp_remove_identifiable vp_fix_identifiables vp_add_reference_origin
  vp_fix_reference_origins vp_remove_reference_origin : vp.

(* ---- values checked against a specification of the tables ---- *)
Lemma vp_raw_set_cdata i v version : vp (raw_set_character_data T check_fn i v version).
Proof. unfold raw_set_character_data. vp_go. Qed.
Hint Resolve vp_raw_set_cdata : vp.

Lemma vp_raw_set_attribute h attr v version : vp (raw_set_attribute T check_fn h attr v version).
Proof. unfold raw_set_attribute. vp_go. Qed.
Hint Resolve vp_raw_set_attribute : vp.

Lemma vp_content_insert self pos c : vp (content_insert self pos (CElem c)).
Proof. unfold content_insert. vp_go. Qed.
Hint Resolve vp_content_insert : vp.

Lemma vp_detach p c : vp (detach_from p c).
Proof. unfold detach_from. vp_go. Qed.
Hint Resolve vp_detach : vp.

Lemma vp_make_unique i m pp : vp (make_unique_item_name T i m pp).
Proof. unfold make_unique_item_name. vp_go. Qed.
Hint Resolve vp_make_unique : vp.

Lemma vp_remove_internal fuel : forall i m path, vp (remove_internal T fuel i m path).
Proof. induction fuel as [|f IH]; intros i m path; cbn [remove_internal]; vp_go. Qed.
Hint Resolve vp_remove_internal : vp.

Lemma vp_raw_remove self sub m : vp (raw_remove_sub_element T self sub m).
Proof. unfold raw_remove_sub_element. vp_go. Qed.
Hint Resolve vp_raw_remove : vp.
Lemma vp_e_remove h sub : vp (e_remove_sub_element T h sub).
Proof. unfold e_remove_sub_element. vp_go. Qed.
Hint Resolve vp_e_remove : vp.
Lemma vp_e_remove_kind h name : vp (e_remove_sub_element_kind T h name).
Proof. unfold e_remove_sub_element_kind. vp_go. Qed.

Lemma vp_set_item_name h nm : vp (e_set_item_name T check_fn LATEST h nm).
Proof. unfold e_set_item_name. vp_go. Qed.

Lemma vp_set_cdata h v0 : vp (e_set_character_data T tab_en check_fn LATEST h v0).
Proof.
  unfold e_set_character_data.
  apply vp_bind_get; intros n HV. apply vp_bind_wl; intros mode Hm.
  match goal with |- vp (if ?b then _ else _) => destruct b end; [vp_go|].
  apply vp_bind_wl; intros spec Hs. destruct spec as [cs|]; [|vp_go].
  apply vp_bind; [vp_go|intros m]. apply vp_bind; [vp_go|intros version]. apply vp_bind_wl; intros ok0 H0.
  apply (vp_bind_post (fun p : cdata * bool => snd p = true -> cdok (fst p))).
  - vp_go.
  - intros w a w' H.
    match type of H with (if ?b then _ else _) _ = _ => destruct b end.
    + wstep H; winv E. wstep H; winv E. apply wret_inv in H as ([= ->] & _). intros _. exact I.
    + apply wret_inv in H as ([= ->] & _). cbn [fst snd]. intros ->. exact (cdok_chardata _ _ _ _ Hs H0).
  - intros [v ok] HP. cbn [fst snd] in HP. destruct ok; cbn [negb]; [|vp_go]. specialize (HP eq_refl). vp_go.
Qed.
Lemma vp_remove_cdata h : vp (e_remove_character_data T h).
Proof. unfold e_remove_character_data. vp_go. Qed.
Lemma vp_insert_citem h text pos : vp (e_insert_character_content_item T h text pos).
Proof. unfold e_insert_character_content_item. vp_go. Qed.
Lemma vp_remove_citem h pos : vp (e_remove_character_content_item T h pos).
Proof. unfold e_remove_character_content_item. vp_go. Qed.
Lemma vp_set_attribute h attr v : vp (e_set_attribute T check_fn LATEST h attr v).
Proof. unfold e_set_attribute. vp_go. Qed.
Lemma vp_remove_attribute h attr : vp (e_remove_attribute T h attr).
Proof. unfold e_remove_attribute. vp_go. Qed.
Lemma vp_set_ref_target h target : vp (e_set_reference_target T tab_el tab_en check_fn LATEST h target).
Proof. unfold e_set_reference_target. vp_go. Qed.
Lemma vp_set_comment h c : vp (e_set_comment h c).
Proof. unfold e_set_comment. vp_go. Qed.
Lemma vp_add_to_file_restricted fuel : forall e f, vp (add_to_file_restricted T fuel e f).
Proof. induction fuel as [|fl IH]; intros e f; cbn [add_to_file_restricted]; vp_go. Qed.
Hint Resolve vp_add_to_file_restricted : vp.
Lemma vp_add_to_file e f : vp (e_add_to_file T e f).
Proof. unfold e_add_to_file. vp_go. Qed.
Lemma vp_remove_from_file e f : vp (e_remove_from_file T e f).
Proof. unfold e_remove_from_file. vp_go. Qed.
Lemma vp_create_file m name version : vp (m_create_file T m name version).
Proof.
  unfold m_create_file. apply vp_bind; [vp_go|intros x].
  intros w r w' F H. apply wbind_inv in H as [(wc & w1 & H1 & H2) | (e & H1 & _)]; [|apply wget_inv in H1 as ([=] & _)].
  apply wget_inv in H1 as ([= <-] & ->).
  destruct (existsb _ (m_files x)); [apply wfail_inv in H2 as (_ & ->); exact F|].
  apply wbind_inv in H2 as [(u & w2 & H1 & H2) | (e & H1 & _)]; [|discriminate H1].
  unfold wput in H1. injection H1 as <- <-.
  revert H2. match goal with |- ?k ?ww = _ -> _ => assert (vp k) as K by vp_go; intros H2; apply (K _ _ _) in H2; [exact H2|] end.
  intros j y Hy. exact (F _ _ Hy).
Qed.
Lemma vp_set_file_membership e fm : vp (set_file_membership T e fm).
Proof. unfold set_file_membership. vp_go. Qed.
Hint Resolve vp_set_file_membership : vp.
Lemma vp_remove_file m f : vp (m_remove_file T m f).
Proof. unfold m_remove_file. vp_go. Qed.

(* ---- creating ---- *)
Lemma vp_create_inner self name pos version : vp (create_sub_element_inner T self name pos version).
Proof. unfold create_sub_element_inner. vp_go. Qed.
Hint Resolve vp_create_inner : vp.
Lemma vp_raw_create_sub self name version : vp (raw_create_sub_element T self name version).
Proof. unfold raw_create_sub_element. vp_go. Qed.
Lemma vp_raw_create_sub_at self name pos version : vp (raw_create_sub_element_at T self name pos version).
Proof. unfold raw_create_sub_element_at. vp_go. Qed.
Hint Resolve vp_raw_create_sub vp_raw_create_sub_at : vp.
Lemma vp_e_create_sub h name : vp (e_create_sub_element T LATEST h name).
Proof. unfold e_create_sub_element. vp_go. Qed.
Lemma vp_e_create_sub_at h name pos : vp (e_create_sub_element_at T LATEST h name pos).
Proof. unfold e_create_sub_element_at. vp_go. Qed.
Lemma vp_e_get_or_create h name : vp (e_get_or_create_sub_element T LATEST h name).
Proof. unfold e_get_or_create_sub_element. vp_go. Qed.
Lemma vp_create_named_inner self name item pos m version :
  vp (create_named_sub_element_inner T check_fn self name item pos m version).
Proof. unfold create_named_sub_element_inner. vp_go. Qed.
Hint Resolve vp_create_named_inner : vp.
Lemma vp_raw_create_named self name item m version : vp (raw_create_named_sub_element T check_fn self name item m version).
Proof. unfold raw_create_named_sub_element. vp_go. Qed.
Lemma vp_raw_create_named_at self name item pos m version :
  vp (raw_create_named_sub_element_at T check_fn self name item pos m version).
Proof. unfold raw_create_named_sub_element_at. vp_go. Qed.
Hint Resolve vp_raw_create_named vp_raw_create_named_at : vp.
Lemma vp_e_create_named h name item : vp (e_create_named_sub_element T check_fn LATEST h name item).
Proof. unfold e_create_named_sub_element. vp_go. Qed.
Lemma vp_e_create_named_at h name item pos : vp (e_create_named_sub_element_at T check_fn LATEST h name item pos).
Proof. unfold e_create_named_sub_element_at. vp_go. Qed.
Lemma vp_e_get_or_create_named h name item : vp (e_get_or_create_named_sub_element T check_fn LATEST h name item).
Proof. unfold e_get_or_create_named_sub_element. vp_go. Qed.

Lemma vp_new_model : vp (new_model T root_attrs).
Proof.
  intros w r w' F H. unfold new_model in H.
  destruct (et_new T (autosar_element T)) as [ty| |]; destruct (elem T (autosar_element T)) as [ed| |]; try discriminate.
  injection H as <- <-. intros j y Hy. cbn [w_nodes] in Hy. unfold upd in Hy.
  destruct (j =? w_next w); [|exact (F _ _ Hy)].
  injection Hy as <-. split; cbn [n_content n_attrs]; [exact contV_nil|exact RootOK].
Qed.

(* ---- deep copy: values of the copy are values of the source ---- *)
Lemma copy_attrs_sub ty version : forall l acc w r w',
  copy_attrs T ty version l acc w = Val (OK r, w') -> forall a, In a r -> In a acc \/ In a l.
Proof.
  induction l as [|[an av] l IH]; intros acc w r w' H a Ha; cbn [copy_attrs] in H.
  - apply wret_inv in H as ([= <-] & _). left. exact Ha.
  - wstep H; winv E. destruct v as [[[[x spec] required] mask]|]; [|apply wfail_inv in H as ([=] & _)].
    match type of H with (if ?b then _ else _) _ = _ => destruct b end.
    + destruct (IH _ _ _ _ H a Ha) as [Hx|Hx]; [|right; right; exact Hx].
      apply in_app_or in Hx as [Hx|[<-|[]]]; [left; exact Hx|right; left; reflexivity].
    + destruct (negb (required =? 0)); [apply wfail_inv in H as ([=] & _)|].
      destruct (IH _ _ _ _ H a Ha) as [Hx|Hx]; [left; exact Hx|right; right; exact Hx].
Qed.
Lemma ro_copy_attrs ty version : forall l acc, ro (copy_attrs T ty version l acc).
Proof. induction l as [|[an av] l IH]; intros acc; cbn [copy_attrs]; ro_tac. Qed.

Lemma vp_deep_copy : forall fuel src version, vp (deep_copy T fuel src version).
Proof.
  induction fuel as [|f IHf]; intros src version; [intros w r w' _ H; discriminate H|].
  rewrite deep_copy_S.
  apply vp_bind_get; intros n HV. destruct HV as (HC & HA).
  apply vp_bind; [apply vp_alloc; split; cbn [n_content n_attrs]; [exact contV_nil|exact attrV_nil]|intros c].
  apply (vp_bind_post attrV).
  - apply vp_ro. apply ro_copy_attrs.
  - intros w a w' H. apply (attrV_sub (n_attrs n)); [|exact HA].
    intros x Hx. destruct (copy_attrs_sub _ _ _ _ _ _ _ H x Hx) as [[]|Hx']; exact Hx'.
  - intros attrs Hattrs.
    apply vp_bind; [apply vp_modify_node; intros x (Hx1 & Hx2); split; cbn [set_attrs n_content n_attrs]; assumption|intros _].
    apply vp_bind; [|intros _; vp_go].
    generalize (n_content n) HC. clear HC.
    induction l as [|[s|d] l IH]; intros HC; cbn [dc_items]; [vp_go| |].
    + assert (HC' : contV l) by exact (contV_tail _ _ HC). specialize (IH HC').
      apply vp_bind; [vp_go|intros sn]. apply vp_bind; [vp_go|intros fs]. destruct fs as [x|]; [|exact IH].
      apply vp_bind; [apply vp_try; apply IHf|intros r]. destruct r as [cs|]; [|exact IH].
      apply vp_bind; [vp_go|intros _]. apply vp_bind; [vp_go|intros _]. exact IH.
    + assert (HC' : contV l) by exact (contV_tail _ _ HC). specialize (IH HC').
      assert (Hd : cdok d) by (apply HC; left; reflexivity).
      apply vp_bind; [|intros _; exact IH].
      apply vp_modify_node. intros x (Hx1 & Hx2). split; cbn [set_content n_content n_attrs]; [|exact Hx2].
      apply contV_app; [exact Hx1|]. apply contV_cons_data; [exact Hd|exact contV_nil].
Qed.
Hint Resolve vp_deep_copy : vp.

(* ---- move, copy ---- *)
Lemma vp_register_subtree fuel : forall m cur i, vp (register_subtree T fuel m cur i).
Proof. induction fuel as [|f IH]; intros m cur i; cbn [register_subtree]; vp_go. Qed.
Hint Resolve vp_register_subtree : vp.

Lemma vp_move_local self mv pos m version : vp (move_element_local T check_fn self mv pos m version).
Proof. unfold move_element_local. vp_go. Qed.
Lemma vp_move_full self mv pos m m_src version : vp (move_element_full T tab_en check_fn self mv pos m m_src version).
Proof. unfold move_element_full. vp_go. Qed.
Lemma vp_move_position self mv pos e : vp (move_element_position self mv pos e).
Proof. unfold move_element_position. vp_go. Qed.
Hint Resolve vp_move_local vp_move_full vp_move_position : vp.
Lemma vp_e_move h mv : vp (e_move_element_here T tab_en check_fn LATEST h mv).
Proof. unfold e_move_element_here. vp_go. Qed.
Lemma vp_e_move_at h mv pos : vp (e_move_element_here_at T tab_en check_fn LATEST h mv pos).
Proof. unfold e_move_element_here_at. vp_go. Qed.
Lemma vp_copied_inner self other pos m version : vp (create_copied_sub_element_inner T self other pos m version).
Proof. unfold create_copied_sub_element_inner. vp_go. Qed.
Hint Resolve vp_copied_inner : vp.
Lemma vp_e_copy h other : vp (e_create_copied_sub_element T LATEST h other).
Proof. unfold e_create_copied_sub_element, raw_create_copied_sub_element. vp_go. Qed.
Lemma vp_e_copy_at h other pos : vp (e_create_copied_sub_element_at T LATEST h other pos).
Proof. unfold e_create_copied_sub_element_at, raw_create_copied_sub_element_at. vp_go. Qed.

(* ---- all 26 operations ---- *)
Notation run := (Inv.run T tab_el tab_en check_fn LATEST root_attrs).

Theorem RV_op o w r w' : RV w -> run o w = Val (r, w') -> RV w'.
Proof.
  intros HR H.
  unfold Inv.run in H. destruct o; cbn [run_op welem wunit] in H; apply wmap_inv in H as (r0 & H & _).
  - exact (vp_e_create_sub h name _ _ _ HR H).
  - exact (vp_e_create_sub_at h name pos _ _ _ HR H).
  - exact (vp_e_create_named h name item _ _ _ HR H).
  - exact (vp_e_create_named_at h name item pos _ _ _ HR H).
  - exact (vp_e_copy h other _ _ _ HR H).
  - exact (vp_e_copy_at h other pos _ _ _ HR H).
  - exact (vp_e_move h mv _ _ _ HR H).
  - exact (vp_e_move_at h mv pos _ _ _ HR H).
  - exact (vp_e_remove h sub _ _ _ HR H).
  - exact (vp_e_remove_kind h name _ _ _ HR H).
  - exact (vp_set_item_name h name _ _ _ HR H).
  - exact (vp_set_cdata h v _ _ _ HR H).
  - exact (vp_remove_cdata h _ _ _ HR H).
  - exact (vp_insert_citem h text pos _ _ _ HR H).
  - exact (vp_remove_citem h pos _ _ _ HR H).
  - exact (vp_set_ref_target h target _ _ _ HR H).
  - exact (vp_set_attribute h attr v _ _ _ HR H).
  - exact (vp_remove_attribute h attr _ _ _ HR H).
  - exact (vp_set_comment h c _ _ _ HR H).
  - exact (vp_e_get_or_create h name _ _ _ HR H).
  - exact (vp_e_get_or_create_named h name item _ _ _ HR H).
  - exact (vp_new_model _ _ _ HR H).
  - exact (vp_create_file m name version _ _ _ HR H).
  - exact (vp_remove_file m f _ _ _ HR H).
  - exact (vp_add_to_file h f _ _ _ HR H).
  - exact (vp_remove_from_file h f _ _ _ HR H).
Qed.

End V.
