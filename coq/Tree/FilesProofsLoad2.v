(* Tree/FilesProofsLoad2.v — C10 proofs, load: a successful load_parsed that merges a further file into a model
   keeps FilesInvW (membership invariant without rule (c)) and RootFull when the root is in all files, for every
   merge agent-c09's refinement theorem covers (Clean walk, the pure merge succeeds):
     FilesInvW before -> HInvRoot of the abstracted tree (bridge) -> HInv after the pure merge (pmerge_hinv) ->
     HInvRoot of the result tree (C09's load_parsed_merge) -> FilesInvW after (bridge). *)
From Coq Require Import PeanoNat Arith Lia.
From AV Require Import Base.Bytes Base.Outcome Hash.HashModel Tree.Heap Tree.Ops Tree.Script Tree.Inv Tree.InvProofsBase
  Tree.InvProofsTree Tree.Load Tree.MergeSpec Tree.MergePure Tree.MergePureProofs Tree.LoadRefineBase Tree.LoadRefinePure
  Tree.LoadRefineMain Tree.LoadRefineTop
  Tree.Files Tree.FilesLoad Tree.FilesProofsBase Tree.FilesProofsProj Tree.FilesProofsAdd Tree.FilesProofsMerge Tree.FilesProofsBridge.
From AV Require Xml.Parser.
Open Scope string_scope.
Open Scope list_scope.
Open Scope N_scope.

Lemma hoe_nolocal : forall e, NoLocal (htree_of_etree e).
Proof.
  fix IH 1. intros [name ty attrs content comment]. rewrite htree_of_etree_unfold. constructor.
  induction content as [|[c|d] r IHr]; cbn [hitems_of_eitems]; intros k Hk.
  - destruct Hk.
  - destruct Hk as [[= <-]|Hk]; [apply IH|apply IHr; exact Hk].
  - destruct Hk as [[=]|Hk]. apply IHr; exact Hk.
Qed.

Lemma root_link w x m : Core w -> nth_opt (w_models w) (N.to_nat m) = Some x ->
  exists rn k, w_nodes w (m_root x) = Some rn /\ n_parent rn = PModel k.
Proof.
  intros C Hx. rewrite nth_opt_error in Hx.
  assert (nth_error (roots w) (N.to_nat m) = Some (m_root x)) as Hk by (unfold roots; rewrite nth_error_map, Hx; reflexivity).
  destruct (c_roots _ C _ _ Hk) as (rn & Hrn & Hp). eauto.
Qed.

Section Load2.
Variable T : tables.
Variables LATEST defref : N.

Theorem load_merge_inv m filename root st w ta files x r w' :
  Core w -> Core w' -> ModelTree w m ta files -> files <> [] ->
  nth_opt (w_models w) (N.to_nat m) = Some x -> FilesInvW w x -> RootFull w x ->
  let fid := N.of_nat (List.length (w_files w)) in
  let fl := mkFile m filename (Parser.p_version st) (Parser.p_standalone st) in
  let fver := fver_files (w_files w ++ [fl]) in
  (forall fuel, (adepth ta < fuel)%nat ->
     Clean T LATEST defref fver fuel (erase ta) (fold_right set_add [] files) (htree_of_etree root) fid /\
     exists ha', pmerge T LATEST defref fver fuel (erase ta) (fold_right set_add [] files) (htree_of_etree root) fid = Val (OK ha')) ->
  load_parsed T LATEST defref m filename root st w = Val (r, w') ->
  r = ER OverlappingDataError \/
  (r = OK fid /\ w_files w' = w_files w ++ [fl] /\
   exists x', nth_opt (w_models w') (N.to_nat m) = Some x' /\ m_files x' = files ++ [fid] /\ FilesInvW w' x' /\ RootFull w' x').
Proof.
  intros C C' MT Hne Hx FI RF fid fl fver Hyp H.
  destruct MT as ((x0 & Hx0 & Hroot & Hfiles) & HA & Hnd & Hb). assert (x0 = x) by congruence. subst x0.
  destruct (root_link w x m C Hx) as (rn & k & Hrn & Hrp). rewrite Hroot in Hrn.
  pose proof (heap_to_tree w C files ta x HA Hroot Hfiles Hne (ex_intro _ rn (ex_intro _ k (conj Hrn Hrp))) FI) as (Rne & Rsub & Rkids).
  set (R := h_local (erase ta)) in *.
  assert (seteq (fold_right set_add [] files) R) as Hse.
  { split.
    - intros y Hy. apply (proj1 (fold_set_add_in _ _)) in Hy. destruct RF as (rn' & Hrn' & Hfull). rewrite Hroot in Hrn'.
      assert (rn' = rn) by congruence. subst rn'. rewrite Hfiles in Hfull.
      destruct (AbsA_node _ _ HA) as (p & Hp). rewrite Hp in Hrn. injection Hrn as <-. cbn in Hfull.
      unfold R. rewrite erase_local. apply Hfull, Hy.
    - intros y Hy. apply (proj2 (fold_set_add_in _ _)). apply Rsub, Hy. }
  assert (HInv files R (erase ta)) as HIroot.
  { destruct (erase ta) as [name ty attrs content comment loc] eqn:Ee. cbn [h_local h_content] in *. constructor; auto.
    - subst R. cbn. intros _. apply incl_refl.
    - intros k0 Hk0. unfold eff_of. subst R. cbn [h_local]. destruct loc; [congruence|]. cbn [is_empty]. apply Rkids, Hk0. }
  set (P := fun ha' : htree => h_local ha' = R /\ forall k0, In (inl k0) (h_content ha') -> HInv (fid :: files) (fid :: R) k0).
  destruct (load_parsed_merge T LATEST defref m filename root st w ta files r w' P) as [Hov|(Hr & Hwf & ta' & ha' & MT' & Her & HP)]; auto.
  { split; [eauto|]. split; auto. }
  { intros fuel Hfuel. destruct (Hyp fuel Hfuel) as (Hcl & ha' & Hpm). split; auto. exists ha'. split; auto.
    destruct (pmerge_hinv T LATEST defref fver files fid fuel (erase ta) (fold_right set_add [] files) (htree_of_etree root) ha' R HIroot Rsub Rne) as (A & B); auto.
    { unfold eff_of. fold R. destruct R; [congruence|]. exact Hse. }
    { apply hoe_nolocal. }
    split; [exact A|]. intros k0 Hk0. specialize (B k0 Hk0). unfold eff_of in B. fold R in B. destruct R; [congruence|]. exact B. }
  right. split; auto. split; auto.
  destruct MT' as ((x' & Hx' & Hroot' & Hfiles') & HA' & Hnd' & Hb'). exists x'. split; auto. split; auto.
  destruct HP as (HPl & HPk).
  destruct (root_link w' x' m C' Hx') as (rn' & k' & Hrn' & Hrp'). rewrite Hroot' in Hrn'.
  assert (HInvRoot (files ++ [fid]) (erase ta')) as HR'.
  { rewrite Her. destruct ha' as [name ty attrs content comment loc]. cbn [h_set_local h_local h_content] in *. subst loc.
    unfold HInvRoot. cbn [h_set_local h_local h_content]. split; [|split].
    - intros E. assert (In fid (set_add fid R)) as Hi by (apply set_add_in; left; reflexivity). unfold fid in Hi. rewrite E in Hi. destruct Hi.
    - intros y Hy. apply set_add_in in Hy as [->|Hy]; apply in_or_app; [right; left; reflexivity|left; apply Rsub, Hy].
    - intros k0 Hk0. eapply HInv_mono; [apply HPk, Hk0| |].
      + intros y [<-|Hy]; apply in_or_app; [right; left; reflexivity|left; exact Hy].
      + intros y [<-|Hy]; apply set_add_in; [left; reflexivity|right; exact Hy]. }
  split.
  - apply (tree_to_heap w' C' (files ++ [fid]) ta' x' HA' Hroot' Hfiles'); eauto.
  - exists rn'. rewrite Hroot'. split; auto. rewrite Hfiles'.
    destruct (AbsA_node _ _ HA') as (p & Hp). rewrite Hp in Hrn'. injection Hrn' as <-. cbn [n_files].
    rewrite <- erase_local, Her. destruct ha' as [name ty attrs content comment loc]. cbn [h_set_local h_local] in *. subst loc.
    intros y Hy. apply in_app_iff in Hy as [Hy|[<-|[]]]; apply set_add_in; [right|left; reflexivity].
    apply (proj1 Hse). apply (proj2 (fold_set_add_in _ _)). exact Hy.
Qed.

End Load2.
