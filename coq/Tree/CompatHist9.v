(* Tree/CompatHist9.v — the typing invariant across the loader, part 2: load_parsed / m_load_buffer (Tree/Load.v).
     J3 w = Bounded w /\ TypedU T w /\ PM T w  is kept by a load whatever it returns, given
       - the parsed tree is `linked` and its root carries the root type (Xml/LoadRecords.v load_records),
       - Core w (the model's root hangs on its model, so by PM it has the root type as well),
       - for a load into a model that already has files: merge_ok (Tree/CompatHist10.v proves it from PairOK).
   Everything but the installation, the merge and the hand-over of the installed root to an empty model is a frame step. *)
From Coq Require Import PeanoNat Arith Lia.
From AV Require Import Base.Bytes Base.Outcome Hash.HashModel Spec.SpecOps Tree.Heap Tree.Ops Tree.Script Tree.Inv
  Tree.InvProofsBase Tree.InvProofsCore Tree.InvProofsPrim Tree.InvProofsLoadBase Tree.Load
  Tree.Compat Tree.CompatSpec Tree.CompatTyped Tree.CompatProofs8 Tree.CompatFrame Tree.CompatFrameOps
  Tree.CompatHist1 Tree.CompatPM Tree.CompatPMOps Tree.CompatHist7 Tree.CompatHist8.
From AV Require Xml.Parser Xml.StrictValidDef Xml.LoadRecords.
Open Scope string_scope.
Open Scope list_scope.
Open Scope N_scope.

(* ---------- world-level steps of the loader ---------- *)
Lemma nrel_kill n : nrel n (kill n).
Proof.
  split; [reflexivity|]. split; [reflexivity|]. intros c Hin. unfold kill, cdata_only in Hin. cbn [n_content] in Hin.
  apply filter_In in Hin as (Hin & _). exact Hin.
Qed.
Lemma prel_kill n : prel n (kill n).
Proof. split; [reflexivity|]. split; [reflexivity|]. intros m Hm. discriminate Hm. Qed.
Lemma nrel_rename f d n : nrel n (rename_file f d n).
Proof. unfold rename_file. destruct (set_mem f (n_files n)); [|apply nrel_refl]. split; [reflexivity|]. split; [reflexivity|]. auto. Qed.
Lemma prel_rename f d n : prel n (rename_file f d n).
Proof. unfold rename_file. destruct (set_mem f (n_files n)); [|apply prel_refl]. split; [reflexivity|]. split; [reflexivity|]. auto. Qed.

Lemma frp_kill w0 from keep : frp w0 (kill_unreachable from keep).
Proof.
  intros w r w' (Nx & F) H. apply kill_spec in H as (_ & Hn & _ & _ & H). split; [lia|]. intros j x Hx. rewrite H in Hx.
  destruct (killedb from keep w j); [|exact (F _ _ Hx)].
  destruct (w_nodes w j) as [y|] eqn:Ey; [|discriminate Hx]. injection Hx as <-.
  destruct (F _ _ Ey) as (y0 & Hy0 & R). exists y0. split; [exact Hy0|]. exact (nrel_trans _ _ _ R (nrel_kill y)).
Qed.
Lemma fpp_kill w0 from keep : fpp w0 (kill_unreachable from keep).
Proof.
  intros w r w' (Nx & F) H. apply kill_spec in H as (_ & Hn & _ & _ & H). split; [lia|]. intros j x Hx. rewrite H in Hx.
  destruct (killedb from keep w j); [|exact (F _ _ Hx)].
  destruct (w_nodes w j) as [y|] eqn:Ey; [|discriminate Hx]. injection Hx as <-.
  exact (pk_upd w0 j y (kill y) (F _ _ Ey) (prel_kill y)).
Qed.
Lemma frp_drop_file w0 f : frp w0 (drop_file f).
Proof.
  intros w r w' (Nx & F) H. unfold drop_file in H. injection H as _ <-. split; [exact Nx|]. cbn [w_nodes]. intros j x Hx.
  destruct (w_nodes w j) as [y|] eqn:Ey; [|discriminate Hx]. injection Hx as <-.
  destruct (F _ _ Ey) as (y0 & Hy0 & R). exists y0. split; [exact Hy0|]. exact (nrel_trans _ _ _ R (nrel_rename _ _ y)).
Qed.
Lemma fpp_drop_file w0 f : fpp w0 (drop_file f).
Proof.
  intros w r w' (Nx & F) H. unfold drop_file in H. injection H as _ <-. split; [exact Nx|]. cbn [w_nodes]. intros j x Hx.
  destruct (w_nodes w j) as [y|] eqn:Ey; [|discriminate Hx]. injection Hx as <-.
  exact (pk_upd w0 j y _ (F _ _ Ey) (prel_rename _ _ y)).
Qed.
Lemma frp_wpanic {A} w0 s : frp w0 (@wpanic A s).
Proof. intros w r w' _ H. discriminate H. Qed.
Lemma fpp_wpanic {A} w0 s : fpp w0 (@wpanic A s).
Proof. intros w r w' _ H. discriminate H. Qed.

Section LoadJ.
Variable T : tables.
Variable tab_el tab_at tab_en : nametab.
Variable check_fn : N -> list N -> res bool.
Variable float_parse : list N -> option N.
Variable LATEST : N.
Variable name_definition_ref : N.

Definition J3P {A} (m : W A) : Prop := forall w r w', m w = Val (r, w') -> J3 T w -> J3 T w'.
Lemma J3P_frame {A} (m : W A) : (forall w0, frp w0 m) -> (forall w0, fpp w0 m) -> J3P m.
Proof.
  intros Hf Hp w r w' H (B & HT & P). pose proof (Hf w w r w' (Fr_refl w) H) as Fw.
  split; [exact (Fr_bounded w w' Fw B)|]. split; [exact (Fr_typed_u T w w' Fw HT)|].
  exact (Fp_pm T w w' (Hp w w r w' (Fp_refl w) H) P).
Qed.
Lemma J3P_bind {A B} (m : W A) (k : A -> W B) : J3P m -> (forall a, J3P (k a)) -> J3P (wbind m k).
Proof.
  intros Hm Hk w r w' H J. apply wbind_inv in H as [(a & w1 & H1 & H2) | (e & H1 & _)].
  - exact (Hk a _ _ _ H2 (Hm _ _ _ H1 J)).
  - exact (Hm _ _ _ H1 J).
Qed.
Lemma J3P_catch {A} (m : W A) : J3P m -> J3P (wcatch m).
Proof. intros Hm w r w' H J. apply wcatch_inv in H as (r0 & H & _). exact (Hm _ _ _ H J). Qed.

Lemma frp_fill_identifiables w0 m t : forall l, frp w0 (fill_identifiables m t l).
Proof.
  induction l as [|[key pos] r IH]; cbn [fill_identifiables]; [fr_go|].
  destruct (it_at t pos); [|apply frp_wpanic]. pose proof (frp_add_identifiable w0 m) as HA. fr_go.
Qed.
Lemma fpp_fill_identifiables w0 m t : forall l, fpp w0 (fill_identifiables m t l).
Proof.
  induction l as [|[key pos] r IH]; cbn [fill_identifiables]; [fp_go|].
  destruct (it_at t pos); [|apply fpp_wpanic]. pose proof (fpp_add_identifiable w0 m) as HA. fp_go.
Qed.
Lemma frp_fill_references w0 m t : forall l, frp w0 (fill_references m t l).
Proof.
  induction l as [|[key pos] r IH]; cbn [fill_references]; [fr_go|].
  destruct (it_at t pos); [|apply frp_wpanic]. pose proof (frp_add_reference_origin w0 m) as HA. fr_go.
Qed.
Lemma fpp_fill_references w0 m t : forall l, fpp w0 (fill_references m t l).
Proof.
  induction l as [|[key pos] r IH]; cbn [fill_references]; [fp_go|].
  destruct (it_at t pos); [|apply fpp_wpanic]. pose proof (fpp_add_reference_origin w0 m) as HA. fp_go.
Qed.

(* what the merge has to deliver (proved from PairOK in Tree/CompatHist10.v): the two roots have the same type *)
Definition merge_ok : Prop :=
  forall m new_root fid w r w',
    (forall x na nb, nth_opt (w_models w) (N.to_nat m) = Some x -> w_nodes w (m_root x) = Some na -> w_nodes w new_root = Some nb ->
                     n_type na = n_type nb) ->
    merge_file_data T LATEST name_definition_ref m new_root fid w = Val (r, w') ->
    Bounded w -> TypedU T w -> Bounded w' /\ TypedU T w' /\ Fp w w'.

Definition first_file (w : world) (m : N) : Prop :=
  forall x, nth_opt (w_models w) (N.to_nat m) = Some x -> m_files x = [].

Lemma j3_same_nodes w w' : w_nodes w' = w_nodes w -> w_next w' = w_next w -> J3 T w -> J3 T w'.
Proof.
  intros En Ex ((B1 & B2) & HT & P). split; [|split].
  - split; [intros i n; rewrite En, Ex; apply B1|intros i n c; rewrite En, Ex; apply B2].
  - intros i n c cn. rewrite En. apply HT.
  - intros i n m. rewrite En. apply P.
Qed.

Lemma tail_j3p m base fid (rr : out unit) : J3P
    (do x3 <- get_model m;
     do w3 <- wget;
     do keep <- dfs_ids (fuel_of w3) (m_root x3);
     kill_unreachable base keep;;
     match rr with
     | OK _ => wret fid
     | ER e => drop_file fid;; wfail e
     end)%W.
Proof.
  apply J3P_frame; intros wb.
  - pose proof (frp_kill wb) as HK. pose proof (frp_drop_file wb) as HD. destruct rr; fr_go.
  - pose proof (fpp_kill wb) as HK. pose proof (fpp_drop_file wb) as HD. destruct rr; fp_go.
Qed.

Lemma rest_j3p m t li lr fid : J3P
    (fill_identifiables m t li;;
     fill_references m t lr;;
     modify_model m (fun y => set_mfiles y (m_files y ++ [fid])))%W.
Proof.
  apply J3P_frame; intros wb.
  - pose proof (frp_fill_identifiables wb m t) as HI. pose proof (frp_fill_references wb m t) as HR. fr_go.
  - pose proof (fpp_fill_identifiables wb m t) as HI. pose proof (fpp_fill_references wb m t) as HR. fp_go.
Qed.

Lemma overlap_j3p base : J3P (kill_unreachable base [];; @wfail N OverlappingDataError)%W.
Proof. apply J3P_frame; intros wb; [pose proof (frp_kill wb) as HK; fr_go|pose proof (fpp_kill wb) as HK; fp_go]. Qed.

(* the installed root is handed to an empty model: it carries the root type *)
Lemma first_j3 m i fid nr wa ra wb :
  et_new T (autosar_element T) = Val (n_type nr) ->
  (modify_node i (fun n => set_parent n (PModel m));;
   modify_node i (fun n => set_files n (set_add fid (n_files n)));;
   modify_model m (fun y => set_root y i))%W wa = Val (ra, wb) ->
  J3 T wa -> w_nodes wa i = Some nr -> J3 T wb.
Proof.
  intros Hroot Hs Ja Hna.
  apply wbind_inv in Hs as [(u1 & wa1 & Hs1 & Hs) | (e1 & Hs1 & _)];
    apply modify_node_wset in Hs1 as (n1 & Hn1 & _ & ->); assert (n1 = nr) by congruence; subst n1.
  all: assert (Ja1 : J3 T (wset wa i (set_parent nr (PModel m)))).
  1,3: destruct Ja as (Ba & Ta & Pa); split; [|split].
  1,4: apply (Fr_bounded wa); [|exact Ba]; apply Fr_wset; [apply Fr_refl|];
       exists nr; split; [exact Hna|split; [reflexivity|split; [reflexivity|auto]]].
  1,3: apply (Fr_typed_u T wa); [|exact Ta]; apply Fr_wset; [apply Fr_refl|];
       exists nr; split; [exact Hna|split; [reflexivity|split; [reflexivity|auto]]].
  1,2: intros j nj mj Hj Hp; destruct (N.eq_dec j i) as [->|Hne];
       [rewrite nodes_wset_eq in Hj; injection Hj as <-; exact Hroot
       |rewrite nodes_wset_neq in Hj by exact Hne; exact (Pa j nj mj Hj Hp)].
  2: exact Ja1.
  revert Hs. match goal with |- ?k ?ww = _ -> _ => assert (HK : J3P k) end.
  { apply J3P_frame; intros w0; [fr_go|fp_go]. }
  intros Hs. exact (HK _ _ _ Hs Ja1).
Qed.

End LoadJ.
