(* Tree/IndexProofsTinyMove.v — non-vacuity of the closed history theorem with moves (tiny table set of Tree/Index.v):
   an identifiable element with a referrer is moved to another package (its paths and the reference text follow), a
   second element is then moved next to it with move_element_here_at and gets a unique name. *)
From AV Require Import Base.Bytes Base.Outcome Hash.HashModel Tree.Heap Tree.Ops Tree.Script Tree.Inv Tree.InvProofs.
From AV Require Import Tree.Index Tree.IndexProofsBase Tree.Refs Tree.IndexProofsBridge Tree.IndexProofsTiny Tree.IndexProofsClosed.
Import Tiny.
Open Scope string_scope.
Open Scope list_scope.
Open Scope N_scope.

Definition script_okm (s : list op) : bool :=
  clean45m tiny tiny_el tiny_en tiny_check_fn LATEST [] s Inv.empty_world && is_val (run_script s empty_world).

Theorem script_invm s :
  script_okm s = true -> TreeFacts (wof s) /\ Inv04 tiny tiny_check_fn (wof s) /\ Inv05 tiny (wof s).
Proof.
  unfold script_okm, wof. intros H. apply andb_true_iff in H as (Hc & Hv).
  destruct (run_script s empty_world) as [w'| |] eqn:E; try discriminate.
  eapply (C04_C05_history tiny tiny_el tiny_en tiny_check_fn LATEST [] tiny_tables_ok s w' Hc).
  rewrite <- run_script_run_ops. exact E.
Qed.

(* /B gets ELEMENTS (10) with /B/T (11) holding a reference (13) to /A/S; then /A/S (5) is moved into /B's ELEMENTS *)
Definition move_demo : list op :=
  demo ++ [OpCreateSub 8 nELEMENTS; OpCreateNamed 10 nSYSTEM (BS "T"); OpCreateSub 11 nREF; OpSetRefTarget 13 5; OpMove 10 5].
Example move_demo_inv : TreeFacts (wof move_demo) /\ Inv04 tiny tiny_check_fn (wof move_demo) /\ Inv05 tiny (wof move_demo).
Proof. apply script_invm. vm_compute. reflexivity. Qed.
Example move_demo_content :
  idents_of (wof move_demo) 0 = [(BS "/A", 2); (BS "/B/T", 11); (BS "/B", 8); (BS "/B/S", 5)] /\
  origins_list (wof move_demo) 0 = [(BS "/B", [7]); (BS "/B/S", [13])].
Proof. vm_compute. split; reflexivity. Qed.

(* a second /A/S (14) is created and moved to the front of /B's ELEMENTS: it becomes /B/S_1 *)
Definition move_demo2 : list op := move_demo ++ [OpCreateNamed 4 nSYSTEM (BS "S"); OpMoveAt 10 14 0].
Example move_demo2_inv : TreeFacts (wof move_demo2) /\ Inv04 tiny tiny_check_fn (wof move_demo2) /\ Inv05 tiny (wof move_demo2).
Proof. apply script_invm. vm_compute. reflexivity. Qed.
Example move_demo2_content :
  idents_of (wof move_demo2) 0 = [(BS "/A", 2); (BS "/B/T", 11); (BS "/B", 8); (BS "/B/S", 5); (BS "/B/S_1", 14)] /\
  origins_list (wof move_demo2) 0 = [(BS "/B", [7]); (BS "/B/S", [13])].
Proof. vm_compute. split; reflexivity. Qed.

(* ---------- finding class K05-move-late: the move fails after the element was unlinked, re-parented and re-keyed.
   /A/Sbcd (5) is referenced by 9; moving it into /Bbcdefgh makes the new reference text "/Bbcdefgh/Sbcd" longer than the
   reference type allows: the rewrite of the referrer fails, the call returns an error, the referrer list of "/A/Sbcd" is
   gone while the reference 9 still has that text. *)
Definition ml_pre : list op :=
  setup ++ [OpCreateNamed 1 nPKG (BS "A"); OpCreateSub 2 nELEMENTS; OpCreateNamed 4 nSYSTEM (BS "Sbcd"); OpCreateNamed 4 nSYSTEM (BS "T");
            OpCreateSub 7 nREF; OpSetRefTarget 9 5; OpCreateNamed 1 nPKG (BS "Bbcdefgh"); OpCreateSub 10 nELEMENTS].
Definition ml_op : op := OpMove 12 5.
Example K05_move_late_refuted :
  (TreeFacts (wof ml_pre) /\ Inv04 tiny tiny_check_fn (wof ml_pre) /\ Inv05 tiny (wof ml_pre)) /\
  Known05 tiny tiny_el tiny_en tiny_check_fn LATEST [] (wof ml_pre) ml_op = true /\
  (exists w', Tiny.run ml_op (wof ml_pre) = Val (ER IncorrectContentType, w')) /\
  ~ Inv05 tiny (wof (ml_pre ++ [ml_op])).
Proof.
  split; [apply script_invm; vm_compute; reflexivity|].
  split; [vm_compute; reflexivity|]. split; [eexists; vm_compute; reflexivity|].
  intros HI. pose proof (i5_exact _ _ HI 0) as HE. unfold RefsExact in HE.
  destruct (model_at (wof (ml_pre ++ [ml_op])) 0) as [x|] eqn:Hx; [|vm_compute in Hx; discriminate Hx].
  destruct (HE x eq_refl (BS "/A/Sbcd")) as (_ & Hiff). vm_compute in Hx. injection Hx as <-.
  set (W := wof (ml_pre ++ [ml_op])) in *.
  assert (C01 : child_of W 0 1) by (eexists; split; [vm_compute; reflexivity|cbn; auto 10]).
  assert (C12 : child_of W 1 2) by (eexists; split; [vm_compute; reflexivity|cbn; auto 10]).
  assert (C24 : child_of W 2 4) by (eexists; split; [vm_compute; reflexivity|cbn; auto 10]).
  assert (C47 : child_of W 4 7) by (eexists; split; [vm_compute; reflexivity|cbn; auto 10]).
  assert (C79 : child_of W 7 9) by (eexists; split; [vm_compute; reflexivity|cbn; auto 10]).
  assert (HR : RefSet tiny W 0 (BS "/A/Sbcd") 9).
  { split; [|vm_compute; reflexivity]. eexists. split; [vm_compute; reflexivity|]. cbn [m_root].
    eapply (IndexProofsBase.reach_step tiny); [|exact C79]. eapply (IndexProofsBase.reach_step tiny); [|exact C47].
    eapply (IndexProofsBase.reach_step tiny); [|exact C24]. eapply (IndexProofsBase.reach_step tiny); [|exact C12].
    eapply (IndexProofsBase.reach_step tiny); [|exact C01]. apply (IndexProofsBase.reach_refl tiny). }
  apply Hiff in HR. vm_compute in HR. exact HR.
Qed.

(* remove_file of the last file of the model: the root loses every sub-element, both maps are empty *)
Definition lastfile_demo : list op := demo ++ [OpRemoveFile 0 0].
Example lastfile_demo_summary :
  (TreeFacts (wof lastfile_demo) /\ Inv04 tiny tiny_check_fn (wof lastfile_demo) /\ Inv05 tiny (wof lastfile_demo)) /\
  idents_of (wof lastfile_demo) 0 = [] /\ origins_list (wof lastfile_demo) 0 = [] /\
  option_map n_content (w_nodes (wof lastfile_demo) 0) = Some [].
Proof. split; [apply script_invm; vm_compute; reflexivity|]. vm_compute. repeat split; reflexivity. Qed.

(* ---------- finding class K04-move-container (C04-move-container-duplicates-paths): ELEMENTS (4) of /A, which holds /A/S (5), is
   moved into /C, which already has the sub-package /C/S (10): the element 5 gets the path /C/S without any check and
   takes over the index entry of the package. *)
Definition mc_pre : list op :=
  setup ++ [OpCreateNamed 1 nPKG (BS "A"); OpCreateSub 2 nELEMENTS; OpCreateNamed 4 nSYSTEM (BS "S");
            OpCreateNamed 1 nPKG (BS "C"); OpCreateSub 7 nPKGS; OpCreateNamed 9 nPKG (BS "S")].
Definition mc_op : op := OpMove 7 4.
Example K04_move_container_refuted :
  (TreeFacts (wof mc_pre) /\ Inv04 tiny tiny_check_fn (wof mc_pre) /\ Inv05 tiny (wof mc_pre)) /\
  Known05 tiny tiny_el tiny_en tiny_check_fn LATEST [] (wof mc_pre) mc_op = true /\
  (exists w', Tiny.run mc_op (wof mc_pre) = Val (OK (VElem 4), w')) /\
  ~ Inv04 tiny tiny_check_fn (wof (mc_pre ++ [mc_op])).
Proof.
  split; [apply script_invm; vm_compute; reflexivity|].
  split; [vm_compute; reflexivity|]. split; [eexists; vm_compute; reflexivity|].
  intros HI. pose proof (i4_exact _ _ _ HI 0) as HE. unfold IndexExact in HE.
  destruct (model_at (wof (mc_pre ++ [mc_op])) 0) as [x|] eqn:Hx; [|vm_compute in Hx; discriminate Hx].
  specialize (HE x eq_refl (BS "/C/S") 10). vm_compute in Hx. injection Hx as <-.
  set (W := wof (mc_pre ++ [mc_op])) in *.
  assert (C01 : child_of W 0 1) by (eexists; split; [vm_compute; reflexivity|cbn; auto 10]).
  assert (C17 : child_of W 1 7) by (eexists; split; [vm_compute; reflexivity|cbn; auto 10]).
  assert (C79 : child_of W 7 9) by (eexists; split; [vm_compute; reflexivity|cbn; auto 10]).
  assert (C9 : child_of W 9 10) by (eexists; split; [vm_compute; reflexivity|cbn; auto 10]).
  assert (HS : SpecPath tiny W 0 10 (BS "/C/S")).
  { eexists. split; [vm_compute; reflexivity|]. cbn [m_root].
    exists (seg tiny W 1 ++ seg tiny W 7 ++ seg tiny W 9 ++ seg tiny W 10 ++ []).
    split; [|vm_compute; reflexivity].
    apply (IndexProofsTree.dpath_cons tiny W 0 1 10 _ C01). apply (IndexProofsTree.dpath_cons tiny W 1 7 10 _ C17).
    apply (IndexProofsTree.dpath_cons tiny W 7 9 10 _ C79). apply (IndexProofsTree.dpath_cons tiny W 9 10 10 _ C9). constructor. }
  assert (HP : PathSet tiny W 0 (BS "/C/S") 10).
  { split; [eapply specpath_mreach; exact HS|]. split; [vm_compute; reflexivity|exact HS]. }
  apply HE in HP. vm_compute in HP. discriminate HP.
Qed.

(* ---------- copies and container moves (second refinement, clean45x) *)
Definition script_okx (s : list op) : bool :=
  clean45x tiny tiny_el tiny_en tiny_check_fn LATEST [] s Inv.empty_world && is_val (run_script s empty_world).
Theorem script_invx s :
  script_okx s = true -> TreeFacts (wof s) /\ Inv04 tiny tiny_check_fn (wof s) /\ Inv05 tiny (wof s).
Proof.
  unfold script_okx, wof. intros H. apply andb_true_iff in H as (Hc & Hv).
  destruct (run_script s empty_world) as [w'| |] eqn:E; try discriminate.
  eapply (C04_C05_history_x tiny tiny_el tiny_en tiny_check_fn LATEST [] tiny_tables_ok s w' Hc).
  rewrite <- run_script_run_ops. exact E.
Qed.

(* /A/S (5, with its reference 7 to /B) is copied next to itself: /A/S_1 (10), the copied reference (12) is registered;
   then the whole package /A is copied: /A_1 with /A_1/S and /A_1/S_1; then ELEMENTS (4) of /A is moved into /B *)
Definition copy_demo : list op := demo ++ [OpCopy 4 5; OpCopy 1 2; OpMove 8 4].
Example copy_demo_summary :
  (TreeFacts (wof copy_demo) /\ Inv04 tiny tiny_check_fn (wof copy_demo) /\ Inv05 tiny (wof copy_demo)) /\
  idents_of (wof copy_demo) 0 =
    [(BS "/A", 2); (BS "/A_1/S_1", 19); (BS "/B", 8); (BS "/B/S", 5); (BS "/A_1", 13); (BS "/A_1/S", 16); (BS "/B/S_1", 10)] /\
  NoDup (map fst (origins_list (wof copy_demo) 0)).
Proof. split; [apply script_invx; vm_compute; reflexivity|]. split; [vm_compute; reflexivity|]. vm_compute. repeat constructor; cbn; intuition discriminate. Qed.
