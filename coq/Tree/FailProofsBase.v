(* Tree/FailProofsBase.v — C11 proofs, layer 0.
   Part 1: inversion of the W monad, read-only computations [ro], frame lemmas of the heap primitives and the
           symbolic-execution tactics (the same generic lemmas and tactics as C03's InvProofsBase.v / C04's
           IndexProofsW.v, kept as an own copy so that the C11 development does not rebuild with theirs).
   Part 2: the two predicates the per-operation proofs are assembled from
             nf m      "no effect on failure": whenever m returns an error the world is the one it started from
             nofail m  m never returns an error (it may panic / run out of fuel, which is not C11's business)
           with their composition rules, and the tactics that decompose an operation into a read-only prefix,
           the first mutation, and a suffix that cannot fail (validate-before-mutate ordering). *)
From AV Require Import Base.Bytes Base.Outcome Hash.HashModel Tree.Heap Tree.Ops Tree.Script.
Open Scope string_scope.
Open Scope list_scope.
Open Scope N_scope.

(* ------------------------------------------------------------------ monad inversion *)
Lemma wbind_inv {A B} (m : W A) (k : A -> W B) w r w' :
  wbind m k w = Val (r, w') ->
  (exists a w1, m w = Val (OK a, w1) /\ k a w1 = Val (r, w')) \/
  (exists e, m w = Val (ER e, w') /\ r = ER e).
Proof.
  unfold wbind. destruct (m w) as [[[a|e] w1]|s|]; try discriminate.
  - intros H. left. eauto.
  - intros [= <- <-]. right. eauto.
Qed.

Lemma wtry_inv {A} (m : W A) w r w' :
  wtry m w = Val (r, w') ->
  exists r0, m w = Val (r0, w') /\ r = OK (match r0 with OK a => Some a | ER _ => None end).
Proof.
  unfold wtry. destruct (m w) as [[[a|e] w1]|s|]; try discriminate; intros [= <- <-]; eauto.
Qed.

Lemma wcatch_inv {A} (m : W A) w r w' :
  wcatch m w = Val (r, w') -> exists r0, m w = Val (r0, w') /\ r = OK r0.
Proof. unfold wcatch. destruct (m w) as [[r0 w1]|s|]; try discriminate; intros [= <- <-]; eauto. Qed.

Lemma wret_inv {A} (a : A) w r w' : wret a w = Val (r, w') -> r = OK a /\ w' = w.
Proof. unfold wret. intros [= <- <-]. auto. Qed.
Lemma wfail_inv {A} e w (r : out A) w' : wfail e w = Val (r, w') -> r = ER e /\ w' = w.
Proof. unfold wfail. intros [= <- <-]. auto. Qed.
Lemma wlift_inv {A} (x : res A) w r w' : wlift x w = Val (r, w') -> exists a, x = Val a /\ r = OK a /\ w' = w.
Proof. unfold wlift. destruct x; try discriminate. intros [= <- <-]. eauto. Qed.
Lemma wl_inv {A} (x : res A) w r w' : wl x w = Val (r, w') -> exists a, x = Val a /\ r = OK a /\ w' = w.
Proof. apply wlift_inv. Qed.
Lemma get_node_inv i w r w' : get_node i w = Val (r, w') -> exists n, w_nodes w i = Some n /\ r = OK n /\ w' = w.
Proof. unfold get_node. destruct (w_nodes w i); try discriminate. intros [= <- <-]. eauto. Qed.
Lemma get_model_inv m w r w' :
  get_model m w = Val (r, w') -> exists x, nth_opt (w_models w) (N.to_nat m) = Some x /\ r = OK x /\ w' = w.
Proof. unfold get_model. destruct (nth_opt _ _); try discriminate. intros [= <- <-]. eauto. Qed.
Lemma get_file_inv f w r w' :
  get_file f w = Val (r, w') -> exists x, nth_opt (w_files w) (N.to_nat f) = Some x /\ r = OK x /\ w' = w.
Proof. unfold get_file. destruct (nth_opt _ _); try discriminate. intros [= <- <-]. eauto. Qed.
Lemma wget_inv w r w' : wget w = Val (r, w') -> r = OK w /\ w' = w.
Proof. unfold wget. intros [= <- <-]. auto. Qed.

(* ------------------------------------------------------------------ read-only computations *)
Definition ro {A} (m : W A) : Prop := forall w r w', m w = Val (r, w') -> w' = w.

Lemma ro_ret {A} (a : A) : ro (wret a). Proof. intros w r w' H. apply wret_inv in H. tauto. Qed.
Lemma ro_fail {A} e : ro (@wfail A e). Proof. intros w r w' H. apply wfail_inv in H. tauto. Qed.
Lemma ro_panic {A} s : ro (@wpanic A s). Proof. intros w r w' H. discriminate. Qed.
Lemma ro_fuel {A} : ro (@wfuel A). Proof. intros w r w' H. discriminate. Qed.
Lemma ro_lift {A} (x : res A) : ro (wlift x).
Proof. intros w r w' H. apply wlift_inv in H as (a & _ & _ & ->). reflexivity. Qed.
Lemma ro_wl {A} (x : res A) : ro (wl x). Proof. apply ro_lift. Qed.
Lemma ro_out {A} (o : out A) : ro (wout o). Proof. intros w r w'. unfold wout. intros [= <- <-]. reflexivity. Qed.
Lemma ro_get_node i : ro (get_node i).
Proof. intros w r w' H. apply get_node_inv in H as (n & _ & _ & ->). reflexivity. Qed.
Lemma ro_get_model m : ro (get_model m).
Proof. intros w r w' H. apply get_model_inv in H as (n & _ & _ & ->). reflexivity. Qed.
Lemma ro_get_file m : ro (get_file m).
Proof. intros w r w' H. apply get_file_inv in H as (n & _ & _ & ->). reflexivity. Qed.
Lemma ro_wget : ro wget. Proof. intros w r w' H. apply wget_inv in H. tauto. Qed.
Lemma ro_bind {A B} (m : W A) (k : A -> W B) : ro m -> (forall a, ro (k a)) -> ro (wbind m k).
Proof.
  intros Hm Hk w r w' H. apply wbind_inv in H as [(a & w1 & H1 & H2) | (e & H1 & _)].
  - apply Hm in H1. subst w1. eapply Hk; eauto.
  - eapply Hm; eauto.
Qed.
Lemma ro_try {A} (m : W A) : ro m -> ro (wtry m).
Proof. intros Hm w r w' H. apply wtry_inv in H as (r0 & H & _). eapply Hm; eauto. Qed.
Lemma ro_catch {A} (m : W A) : ro m -> ro (wcatch m).
Proof. intros Hm w r w' H. apply wcatch_inv in H as (r0 & H & _). eapply Hm; eauto. Qed.

Create HintDb ro discriminated.
#[export] Hint Resolve ro_ret ro_fail ro_panic ro_fuel ro_lift ro_wl ro_out ro_get_node ro_get_model ro_get_file
  ro_wget ro_try ro_catch : ro.

(* decompose a goal `ro m` structurally *)
Ltac ro_step :=
  first
  [ apply ro_ret | apply ro_fail | apply ro_panic | apply ro_fuel | apply ro_wl | apply ro_lift | apply ro_out
  | apply ro_get_node | apply ro_get_model | apply ro_get_file | apply ro_wget
  | solve [auto with ro]
  | apply ro_bind; [ | intros ? ]
  | apply ro_try | apply ro_catch
  | match goal with
    | |- ro (match ?x with _ => _ end) => destruct x
    | |- ro (if ?b then _ else _) => destruct b
    | |- ro (let '(_, _) := ?x in _) => destruct x
    end ].
Ltac ro_tac := repeat ro_step.

Section RO.
Variable T : tables.
Variable tab_el tab_en : nametab.
Variable check_fn : N -> list N -> res bool.
Variable LATEST : N.

Lemma ro_item_name n : ro (item_name T n).
Proof. unfold item_name. ro_tac. Qed.
Lemma ro_is_identifiable n : ro (is_identifiable T n).
Proof. unfold is_identifiable. ro_tac. Qed.
Lemma ro_parent_of n : ro (parent_of n).
Proof. unfold parent_of. ro_tac. Qed.
Hint Resolve ro_item_name ro_is_identifiable ro_parent_of : ro.

Lemma ro_up_names f : forall p acc, ro (up_names T f p acc).
Proof. induction f as [|f IH]; intros p acc; cbn [up_names]; ro_tac; try apply IH. Qed.
Hint Resolve ro_up_names : ro.
Lemma ro_path_unchecked n : ro (path_unchecked T n).
Proof. unfold path_unchecked. ro_tac. Qed.
Hint Resolve ro_path_unchecked : ro.
Lemma ro_path_of n : ro (path_of T n).
Proof. unfold path_of. ro_tac. Qed.
Hint Resolve ro_path_of : ro.
Lemma ro_path_id i : ro (path_id T i).
Proof. unfold path_id. ro_tac. Qed.
Lemma ro_model_walk f : forall i, ro (model_walk f i).
Proof. induction f as [|f IH]; intros i; cbn [model_walk]; ro_tac; try apply IH. Qed.
Hint Resolve ro_model_walk ro_path_id : ro.
Lemma ro_model_of i : ro (model_of i).
Proof. unfold model_of. ro_tac. Qed.
Lemma ro_fm_walk f : forall s c, ro (fm_walk f s c).
Proof. induction f as [|f IH]; intros s c; cbn [fm_walk]; ro_tac; try apply IH. Qed.
Hint Resolve ro_model_of ro_fm_walk : ro.
Lemma ro_file_membership i : ro (file_membership i).
Proof. unfold file_membership. ro_tac. Qed.
Hint Resolve ro_file_membership : ro.
Lemma ro_min_version i : ro (min_version LATEST i).
Proof. unfold min_version. ro_tac. Qed.
Lemma ro_get_element_by_path m p : ro (get_element_by_path m p).
Proof. unfold get_element_by_path. ro_tac. Qed.
Hint Resolve ro_min_version ro_get_element_by_path : ro.

Lemma ro_range_loop ty version new_idx items : forall idx s e, ro (range_loop T ty version new_idx items idx s e).
Proof.
  induction items as [|[c|d] items IH]; intros idx s e; cbn [range_loop]; ro_tac; try apply IH.
Qed.
Hint Resolve ro_range_loop : ro.
Lemma ro_calc_range n name version : ro (calc_element_insert_range T n name version).
Proof. unfold calc_element_insert_range. ro_tac. Qed.
Hint Resolve ro_calc_range : ro.

Lemma ro_ancestor_is f : forall p other, ro (ancestor_is f p other).
Proof. induction f as [|f IH]; intros p other; cbn [ancestor_is]; ro_tac; try apply IH. Qed.
Hint Resolve ro_ancestor_is : ro.

Lemma ro_dfs_ids f : forall i, ro (dfs_ids f i).
Proof.
  induction f as [|f IH]; intros i; cbn [dfs_ids]; ro_tac.
  induction (n_content a) as [|[c|d] l IHl]; ro_tac; auto.
Qed.
Hint Resolve ro_dfs_ids : ro.

Lemma ro_named_paths ids : ro (named_paths T ids).
Proof. induction ids as [|i ids IH]; cbn [named_paths]; ro_tac. Qed.
Lemma ro_ref_texts ids : ro (ref_texts T tab_en ids).
Proof. induction ids as [|i ids IH]; cbn [ref_texts]; ro_tac. Qed.
Hint Resolve ro_named_paths ro_ref_texts : ro.

Lemma ro_first_named name l : ro (first_named name l).
Proof. induction l as [|[c|d] l IH]; cbn [first_named]; ro_tac. Qed.
Hint Resolve ro_first_named : ro.
Lemma ro_get_sub_element h name : ro (get_sub_element h name).
Proof. unfold get_sub_element. ro_tac. Qed.
Lemma ro_first_named_item name item l : ro (first_named_item T name item l).
Proof. induction l as [|[c|d] l IH]; cbn [first_named_item]; ro_tac. Qed.
Hint Resolve ro_get_sub_element ro_first_named_item : ro.
Lemma ro_parent_splittable n : ro (parent_splittable T n).
Proof. unfold parent_splittable. ro_tac. Qed.
Lemma ro_file_model f : ro (file_model f).
Proof. unfold file_model. ro_tac. Qed.
Hint Resolve ro_parent_splittable ro_file_model : ro.
Lemma ro_unique_loop f m pp orig : forall name counter, ro (unique_loop f m pp orig name counter).
Proof. induction f as [|f IH]; intros name counter; cbn [unique_loop]; ro_tac; try apply IH. Qed.
Hint Resolve ro_unique_loop : ro.
Lemma ro_copy_attrs ty version attrs : forall acc, ro (copy_attrs T ty version attrs acc).
Proof. induction attrs as [|[an av] attrs IH]; intros acc; cbn [copy_attrs]; ro_tac; try apply IH. Qed.
Hint Resolve ro_copy_attrs : ro.
Lemma ro_get_reference_target h : ro (e_get_reference_target T h).
Proof. unfold e_get_reference_target. ro_tac. Qed.

End RO.

#[export] Hint Resolve ro_item_name ro_is_identifiable ro_parent_of ro_up_names ro_path_unchecked ro_path_of
  ro_path_id ro_model_walk ro_model_of ro_fm_walk ro_file_membership ro_min_version ro_get_element_by_path
  ro_range_loop ro_calc_range ro_ancestor_is ro_dfs_ids ro_named_paths ro_ref_texts ro_first_named
  ro_get_sub_element ro_first_named_item ro_parent_splittable ro_file_model ro_unique_loop ro_copy_attrs
  ro_get_reference_target : ro.

(* ------------------------------------------------------------------ symbolic execution *)
(* [wstep H] inverts the head bind of H : (do x <- m; k) w = Val (r, w').  Two goals: m succeeded (H becomes the
   continuation) / m failed (r, w' are substituted).  When m is read-only the intermediate world is replaced. *)
Ltac ro_subst E :=
  match type of E with
  | ?m ?w = Val (_, ?w1) =>
    first [ is_var w1;
            let Hq := fresh in
            assert (Hq : w1 = w) by (refine ((_ : ro m) w _ w1 E); ro_tac);
            first [subst w1 | rewrite Hq in *; clear Hq]
          | idtac ]
  end.

Ltac wstep H :=
  lazymatch type of H with
  | wbind ?m ?k ?w = Val (?r, ?w') =>
    let a := fresh "a" in let w1 := fresh "w" in let E := fresh "E" in let e := fresh "e" in
    apply wbind_inv in H as [(a & w1 & E & H) | (e & E & ->)];
    [ try ro_subst E | try ro_subst E ]
  end.

(* basic inversions of leaf computations *)
Ltac fin_eq E := first [ discriminate E | injection E as E; try subst | subst ].
Ltac winv E :=
  lazymatch type of E with
  | get_node _ _ = Val _ =>
    let n := fresh "n" in let Hn := fresh "Hn" in
    apply get_node_inv in E as (n & Hn & E & ?); fin_eq E
  | get_model _ _ = Val _ =>
    let x := fresh "x" in let Hx := fresh "Hx" in
    apply get_model_inv in E as (x & Hx & E & ?); fin_eq E
  | get_file _ _ = Val _ =>
    let x := fresh "x" in let Hx := fresh "Hx" in
    apply get_file_inv in E as (x & Hx & E & ?); fin_eq E
  | wl _ _ = Val _ =>
    let a := fresh "v" in let Ha := fresh "Hv" in
    apply wl_inv in E as (a & Ha & E & ?); fin_eq E
  | wlift _ _ = Val _ =>
    let a := fresh "v" in let Ha := fresh "Hv" in
    apply wlift_inv in E as (a & Ha & E & ?); fin_eq E
  | wret _ _ = Val _ => apply wret_inv in E as (E & ?); fin_eq E
  | wfail _ _ = Val _ => apply wfail_inv in E as (E & ?); fin_eq E
  | wget _ = Val _ => apply wget_inv in E as (E & ?); fin_eq E
  | wpanic _ _ = Val _ => discriminate E
  | wfuel _ = Val _ => discriminate E
  end.

(* ------------------------------------------------------------------ frame lemmas of the primitives *)
Lemma upd_eq f i n : upd f i n i = Some n.
Proof. unfold upd. rewrite N.eqb_refl. reflexivity. Qed.
Lemma upd_neq f i n x : x <> i -> upd f i n x = f x.
Proof. unfold upd. intros H. apply N.eqb_neq in H. rewrite H. reflexivity. Qed.

Lemma set_node_inv i n w r w' :
  set_node i n w = Val (r, w') ->
  r = OK tt /\ w' = mkWorld (upd (w_nodes w) i n) (w_next w) (w_files w) (w_models w).
Proof. unfold set_node. intros [= <- <-]. auto. Qed.

Lemma alloc_inv n w r w' :
  alloc n w = Val (r, w') ->
  r = OK (w_next w) /\ w' = mkWorld (upd (w_nodes w) (w_next w) n) (w_next w + 1) (w_files w) (w_models w).
Proof. unfold alloc. intros [= <- <-]. auto. Qed.

Lemma modify_node_inv i f w r w' :
  modify_node i f w = Val (r, w') ->
  exists n, w_nodes w i = Some n /\ r = OK tt /\
            w' = mkWorld (upd (w_nodes w) i (f n)) (w_next w) (w_files w) (w_models w).
Proof.
  unfold modify_node. intros H. wstep H.
  - winv E. apply set_node_inv in H as (-> & ->). eauto.
  - apply get_node_inv in E as (n & _ & [=] & _).
Qed.

Lemma set_model_inv m x w r w' :
  set_model m x w = Val (r, w') ->
  r = OK tt /\ w' = mkWorld (w_nodes w) (w_next w) (w_files w) (list_set (w_models w) (N.to_nat m) x).
Proof. unfold set_model. intros [= <- <-]. auto. Qed.

Lemma modify_model_inv m f w r w' :
  modify_model m f w = Val (r, w') ->
  exists x, nth_opt (w_models w) (N.to_nat m) = Some x /\ r = OK tt /\
            w' = mkWorld (w_nodes w) (w_next w) (w_files w) (list_set (w_models w) (N.to_nat m) (f x)).
Proof.
  unfold modify_model. intros H. wstep H.
  - winv E. apply set_model_inv in H as (-> & ->). eauto.
  - apply get_model_inv in E as (n & _ & [=] & _).
Qed.


(* ---------- lists ---------- *)
Lemma list_set_length {A} (l : list A) k x : List.length (list_set l k x) = List.length l.
Proof. revert k. induction l as [|y l IH]; intros [|k]; cbn; auto. Qed.
Lemma list_set_nth_eq {A} (l : list A) k x y : nth_opt l k = Some y -> nth_opt (list_set l k x) k = Some x.
Proof. revert k. induction l as [|z l IH]; intros [|k]; cbn; try discriminate; auto. Qed.
Lemma list_set_nth_neq {A} (l : list A) k j x : j <> k -> nth_opt (list_set l k x) j = nth_opt l j.
Proof.
  revert k j. induction l as [|z l IH]; intros [|k] [|j] H; cbn; auto; try congruence.
Qed.
Lemma list_set_none {A} (l : list A) k x : nth_opt l k = None -> list_set l k x = l.
Proof. revert k. induction l as [|z l IH]; intros [|k]; cbn; try discriminate; auto. intros H. f_equal. auto. Qed.

(* ====================================================================== Part 2: nf / nofail *)
Definition nf {A} (m : W A) : Prop := forall w e w', m w = Val (ER e, w') -> w' = w.
Definition nofail {A} (m : W A) : Prop := forall w e w', m w = Val (ER e, w') -> False.

Lemma nf_of_ro {A} (m : W A) : ro m -> nf m.
Proof. intros H w e w' E. eapply H; eauto. Qed.
Lemma nf_of_nofail {A} (m : W A) : nofail m -> nf m.
Proof. intros H w e w' E. exfalso. eapply H; eauto. Qed.

Lemma nf_bind_ro {A B} (m : W A) (k : A -> W B) : ro m -> (forall a, nf (k a)) -> nf (wbind m k).
Proof.
  intros Hm Hk w e w' H. apply wbind_inv in H as [(a & w1 & H1 & H2) | (e' & H1 & _)].
  - apply Hm in H1. subst w1. eapply Hk; eauto.
  - eapply Hm; eauto.
Qed.

Lemma nf_bind_nofail {A B} (m : W A) (k : A -> W B) : nf m -> (forall a, nofail (k a)) -> nf (wbind m k).
Proof.
  intros Hm Hk w e w' H. apply wbind_inv in H as [(a & w1 & H1 & H2) | (e' & H1 & _)].
  - exfalso. eapply Hk; eauto.
  - eapply Hm; eauto.
Qed.

Lemma nofail_bind {A B} (m : W A) (k : A -> W B) : nofail m -> (forall a, nofail (k a)) -> nofail (wbind m k).
Proof.
  intros Hm Hk w e w' H. apply wbind_inv in H as [(a & w1 & H1 & H2) | (e' & H1 & _)].
  - eapply Hk; eauto.
  - eapply Hm; eauto.
Qed.

Lemma nofail_ret {A} (a : A) : nofail (wret a).
Proof. intros w e w' H. apply wret_inv in H as ([=] & _). Qed.
Lemma nofail_panic {A} s : nofail (@wpanic A s). Proof. intros w e w' H. discriminate. Qed.
Lemma nofail_fuel {A} : nofail (@wfuel A). Proof. intros w e w' H. discriminate. Qed.
Lemma nofail_lift {A} (x : res A) : nofail (wlift x).
Proof. intros w e w' H. apply wlift_inv in H as (a & _ & [=] & _). Qed.
Lemma nofail_wl {A} (x : res A) : nofail (wl x). Proof. apply nofail_lift. Qed.
Lemma nofail_get_node i : nofail (get_node i).
Proof. intros w e w' H. apply get_node_inv in H as (n & _ & [=] & _). Qed.
Lemma nofail_get_model i : nofail (get_model i).
Proof. intros w e w' H. apply get_model_inv in H as (n & _ & [=] & _). Qed.
Lemma nofail_get_file i : nofail (get_file i).
Proof. intros w e w' H. apply get_file_inv in H as (n & _ & [=] & _). Qed.
Lemma nofail_wget : nofail wget.
Proof. intros w e w' H. apply wget_inv in H as ([=] & _). Qed.
Lemma nofail_wput x : nofail (wput x).
Proof. intros w e w'. unfold wput. intros [=]. Qed.
Lemma nofail_set_node i n : nofail (set_node i n).
Proof. intros w e w' H. apply set_node_inv in H as ([=] & _). Qed.
Lemma nofail_alloc n : nofail (alloc n).
Proof. intros w e w' H. apply alloc_inv in H as ([=] & _). Qed.
Lemma nofail_modify_node i f : nofail (modify_node i f).
Proof. intros w e w' H. apply modify_node_inv in H as (n & _ & [=] & _). Qed.
Lemma nofail_set_model i x : nofail (set_model i x).
Proof. intros w e w' H. apply set_model_inv in H as ([=] & _). Qed.
Lemma nofail_modify_model i f : nofail (modify_model i f).
Proof. intros w e w' H. apply modify_model_inv in H as (n & _ & [=] & _). Qed.
Lemma nofail_try {A} (m : W A) : nofail (wtry m).
Proof. intros w e w' H. apply wtry_inv in H as (r0 & _ & [=]). Qed.
Lemma nofail_catch {A} (m : W A) : nofail (wcatch m).
Proof. intros w e w' H. apply wcatch_inv in H as (r0 & _ & [=]). Qed.

Create HintDb nofail discriminated.
#[export] Hint Resolve nofail_ret nofail_panic nofail_fuel nofail_lift nofail_wl nofail_get_node nofail_get_model
  nofail_get_file nofail_wget nofail_wput nofail_set_node nofail_alloc nofail_modify_node nofail_set_model
  nofail_modify_model nofail_try nofail_catch : nofail.

Ltac nofail_step :=
  first
  [ apply nofail_ret | apply nofail_panic | apply nofail_fuel | apply nofail_wl | apply nofail_lift
  | apply nofail_get_node | apply nofail_get_model | apply nofail_get_file | apply nofail_wget | apply nofail_wput
  | apply nofail_set_node | apply nofail_alloc | apply nofail_modify_node | apply nofail_set_model
  | apply nofail_modify_model | apply nofail_try | apply nofail_catch
  | solve [auto with nofail]
  | apply nofail_bind; [ | intros ? ]
  | match goal with
    | |- nofail (match ?x with _ => _ end) => destruct x
    | |- nofail (if ?b then _ else _) => destruct b
    | |- nofail (let '(_, _) := ?x in _) => destruct x
    end ].
Ltac nofail_tac := repeat nofail_step.

(* decompose `nf m`: read-only prefix, then a part that is nf by a known lemma followed by a suffix that cannot fail *)
Create HintDb nf discriminated.
Ltac nf_step :=
  first
  [ solve [auto with nf]
  | apply nf_of_ro; solve [ro_tac]
  | apply nf_of_nofail; solve [nofail_tac]
  | apply nf_bind_ro; [ solve [ro_tac] | intros ? ]
  | apply nf_bind_nofail; [ | intros ?; solve [nofail_tac] ]
  | match goal with
    | |- nf (match ?x with _ => _ end) => destruct x
    | |- nf (if ?b then _ else _) => destruct b
    | |- nf (let '(_, _) := ?x in _) => destruct x
    end ].
Ltac nf_tac := repeat nf_step.

(* ------------------------------------------------------------------ readers never fail / primitives *)
Section NF.
Variable T : tables.
Variable tab_el tab_en : nametab.
Variable check_fn : N -> list N -> res bool.
Variable LATEST : N.

Lemma nofail_item_name n : nofail (item_name T n).
Proof. unfold item_name. nofail_tac. Qed.
Lemma nofail_is_identifiable n : nofail (is_identifiable T n).
Proof. unfold is_identifiable. nofail_tac. Qed.
Hint Resolve nofail_item_name nofail_is_identifiable : nofail.

Lemma nofail_content_insert self pos it : nofail (content_insert self pos it).
Proof. unfold content_insert. nofail_tac. Qed.
Hint Resolve nofail_content_insert : nofail.

Lemma nofail_get_element_by_path m p : nofail (get_element_by_path m p).
Proof. unfold get_element_by_path. nofail_tac. Qed.
Lemma nofail_add_identifiable m p e : nofail (add_identifiable m p e).
Proof. unfold add_identifiable. nofail_tac. Qed.
Lemma nofail_remove_identifiable m p : nofail (remove_identifiable m p).
Proof. unfold remove_identifiable. nofail_tac. Qed.
Lemma nofail_fix_identifiables m a b : nofail (fix_identifiables m a b).
Proof. unfold fix_identifiables. nofail_tac. Qed.
Lemma nofail_add_reference_origin m r e : nofail (add_reference_origin m r e).
Proof. unfold add_reference_origin. nofail_tac. Qed.
Lemma nofail_fix_reference_origins m a b e : nofail (fix_reference_origins m a b e).
Proof. unfold fix_reference_origins. nofail_tac. Qed.
Lemma nofail_remove_reference_origin m r e : nofail (remove_reference_origin m r e).
Proof. unfold remove_reference_origin. nofail_tac. Qed.
Hint Resolve nofail_get_element_by_path nofail_add_identifiable nofail_remove_identifiable nofail_fix_identifiables
  nofail_add_reference_origin nofail_fix_reference_origins nofail_remove_reference_origin : nofail.

Lemma nofail_unique_loop f m pp orig : forall name counter, nofail (unique_loop f m pp orig name counter).
Proof. induction f as [|f IH]; intros name counter; cbn [unique_loop]; nofail_tac; try apply IH. Qed.
Hint Resolve nofail_unique_loop : nofail.

Lemma nofail_dfs_ids f : forall i, nofail (dfs_ids f i).
Proof.
  induction f as [|f IH]; intros i; cbn [dfs_ids]; nofail_tac.
  induction (n_content a) as [|[c|d] l IHl]; nofail_tac; auto.
Qed.
Hint Resolve nofail_dfs_ids : nofail.

Lemma nofail_named_paths ids : nofail (named_paths T ids).
Proof. induction ids as [|i ids IH]; cbn [named_paths]; nofail_tac. Qed.
Lemma nofail_ref_texts ids : nofail (ref_texts T tab_en ids).
Proof. induction ids as [|i ids IH]; cbn [ref_texts]; nofail_tac. Qed.
Hint Resolve nofail_named_paths nofail_ref_texts : nofail.


(* ---------- operations that are nf as a whole *)
Lemma nf_raw_set_character_data i v version : nf (raw_set_character_data T check_fn i v version).
Proof. unfold raw_set_character_data. nf_tac. Qed.
Lemma nf_raw_set_attribute h attr v version : nf (raw_set_attribute T check_fn h attr v version).
Proof. unfold raw_set_attribute. nf_tac. Qed.

Lemma nf_create_sub_element_inner self name pos version : nf (create_sub_element_inner T self name pos version).
Proof. unfold create_sub_element_inner. nf_tac. Qed.
Lemma nf_raw_create_sub_element self name version : nf (raw_create_sub_element T self name version).
Proof. unfold raw_create_sub_element. pose proof nf_create_sub_element_inner. nf_tac. Qed.
Lemma nf_raw_create_sub_element_at self name pos version : nf (raw_create_sub_element_at T self name pos version).
Proof. unfold raw_create_sub_element_at. pose proof nf_create_sub_element_inner. nf_tac. Qed.

(* detach_from fails (ElementNotFound) only before it writes *)
Lemma nf_detach_from p c : nf (detach_from p c).
Proof. unfold detach_from. nf_tac. Qed.

(* make_unique_item_name fails only at the very beginning (no item name) *)
Lemma nf_make_unique_item_name i m pp : nf (make_unique_item_name T i m pp).
Proof. unfold make_unique_item_name. nf_tac. Qed.

End NF.

#[export] Hint Resolve nofail_item_name nofail_is_identifiable nofail_content_insert nofail_get_element_by_path
  nofail_add_identifiable nofail_remove_identifiable nofail_fix_identifiables nofail_add_reference_origin
  nofail_fix_reference_origins nofail_remove_reference_origin nofail_unique_loop nofail_dfs_ids nofail_named_paths
  nofail_ref_texts : nofail.
#[export] Hint Resolve nf_raw_set_character_data nf_raw_set_attribute nf_create_sub_element_inner
  nf_raw_create_sub_element nf_raw_create_sub_element_at nf_make_unique_item_name nf_detach_from : nf.
