(* Tree/FollowProofsLoadKeep.v — C06 after a first load, layer 6: the drop of the load-temporary nodes at the end of
   load_parsed (kill_unreachable) does not touch anything reachable from the model root.
     kill_cases     every node is unchanged or killed; the nodes in `keep` are unchanged
     reach_kept     given Core of the result (agent-c03): what is reachable from a kept root before the kill is unchanged
                    (a killed node has no parent link, but a kept parent still lists it)
     dpath_kill / seg_kill / identifiable_kill / ref_text_kill    hence the same top-down readings below the root *)
From Coq Require Import Lia.
From AV Require Import Base.Bytes Base.Outcome Hash.HashModel Tree.Heap Tree.Ops Tree.Script Tree.Load Tree.Inv
  Tree.IndexProofsW Tree.Index Tree.IndexProofsBase Tree.IndexProofsBridge Tree.LoadRefineTop.
Open Scope string_scope.
Open Scope list_scope.
Open Scope N_scope.

Lemma cdata_only_idem l : cdata_only (cdata_only l) = cdata_only l.
Proof. unfold cdata_only. induction l as [|[c|d] r IH]; cbn; [reflexivity|exact IH|rewrite IH; reflexivity]. Qed.
Lemma kill_idem n : kill (kill n) = kill n.
Proof. unfold kill. cbn. rewrite cdata_only_idem. reflexivity. Qed.

Lemma fold_kill_cases keep ids : forall f j,
  let F := fold_left (fun f i => if existsb (N.eqb i) keep then f
                                 else match f i with Some n => upd f i (kill n) | None => f end) ids f in
  F j = f j \/ exists n, f j = Some n /\ F j = Some (kill n).
Proof.
  induction ids as [|i ids IH]; intros f j; cbn [fold_left]; [left; reflexivity|].
  set (f1 := if existsb (N.eqb i) keep then f else match f i with Some n => upd f i (kill n) | None => f end).
  destruct (IH f1 j) as [E|(n & E1 & E2)].
  - cbv zeta in E. rewrite E. unfold f1. destruct (existsb (N.eqb i) keep); [left; reflexivity|].
    destruct (f i) as [n|] eqn:Ei; [|left; reflexivity].
    destruct (N.eq_dec j i) as [->|Hne]; [right; exists n; rewrite upd_eq; auto|left; apply upd_neq; exact Hne].
  - cbv zeta in E2. rewrite E2. unfold f1 in E1. destruct (existsb (N.eqb i) keep); [right; eauto|].
    destruct (f i) as [n0|] eqn:Ei; [|right; eauto].
    destruct (N.eq_dec j i) as [->|Hne].
    + rewrite upd_eq in E1. injection E1 as <-. right. exists n0. split; [exact Ei|]. rewrite kill_idem. reflexivity.
    + rewrite upd_neq in E1 by exact Hne. right. eauto.
Qed.

Lemma kill_cases from keep w w' :
  kill_unreachable from keep w = Val (OK tt, w') ->
  w_next w' = w_next w /\ w_files w' = w_files w /\ w_models w' = w_models w /\
  (forall j, In j keep -> w_nodes w' j = w_nodes w j) /\
  (forall j, w_nodes w' j = w_nodes w j \/ exists n, w_nodes w j = Some n /\ w_nodes w' j = Some (kill n)).
Proof.
  intros H. destruct (kill_unreachable_keep _ _ _ _ _ H) as (_ & A & B & C & D).
  split; [exact A|]. split; [exact B|]. split; [exact C|]. split; [exact D|].
  unfold kill_unreachable in H. injection H as <-. intros j. cbn [w_nodes]. apply fold_kill_cases.
Qed.

Section Keep.
Variable T : tables.
Variables w w' : world.
Variable root : id.
Hypothesis HC : Core w'.
Hypothesis Hroot : w_nodes w' root = w_nodes w root.
Hypothesis Hcases : forall j, w_nodes w' j = w_nodes w j \/ exists n, w_nodes w j = Some n /\ w_nodes w' j = Some (kill n).

Lemma reach_kept j q : dpath T w root j q -> w_nodes w' j = w_nodes w j.
Proof.
  induction 1 as [|p c q Hp IH (n & Hn & Hin)]; [exact Hroot|].
  destruct (Hcases c) as [E|(n0 & E1 & E2)]; [exact E|]. exfalso.
  destruct (c_up _ HC p c) as (cn & Hcn & Hpar).
  { exists n. split; [rewrite IH; exact Hn|]. apply in_elems_ids. exact Hin. }
  rewrite E2 in Hcn. injection Hcn as <-. discriminate Hpar.
Qed.

Lemma short_child_kill j n q : dpath T w root j q -> w_nodes w j = Some n -> short_child T w' n = short_child T w n.
Proof.
  intros Hd Hn. unfold short_child. destruct (n_content n) as [|[s|d] rest] eqn:E; try reflexivity.
  rewrite (reach_kept s (q ++ seg T w s)); [reflexivity|]. econstructor; [exact Hd|]. exists n. split; [exact Hn|]. rewrite E. left. reflexivity.
Qed.

Lemma seg_kill j q : dpath T w root j q -> seg T w' j = seg T w j.
Proof.
  intros Hd. unfold seg. rewrite (reach_kept j q Hd). destruct (w_nodes w j) as [n|] eqn:Hn; [|reflexivity].
  unfold seg_n, item_name_n. rewrite (short_child_kill j n q Hd Hn). reflexivity.
Qed.
Lemma identifiable_n_kill j n q : dpath T w root j q -> w_nodes w j = Some n -> identifiable_n T w' n = identifiable_n T w n.
Proof. intros Hd Hn. unfold identifiable_n. rewrite (short_child_kill j n q Hd Hn). reflexivity. Qed.
Lemma item_name_n_kill j n q : dpath T w root j q -> w_nodes w j = Some n -> item_name_n T w' n = item_name_n T w n.
Proof. intros Hd Hn. unfold item_name_n. rewrite (short_child_kill j n q Hd Hn). reflexivity. Qed.
Lemma identifiable_kill j q : dpath T w root j q -> identifiable T w' j = identifiable T w j.
Proof.
  intros Hd. unfold identifiable. rewrite (reach_kept j q Hd). destruct (w_nodes w j) as [n|] eqn:Hn; [|reflexivity].
  eapply identifiable_n_kill; eauto.
Qed.
Lemma ref_text_kill j q : dpath T w root j q -> ref_text T w' j = ref_text T w j.
Proof. intros Hd. unfold ref_text. rewrite (reach_kept j q Hd). reflexivity. Qed.

Lemma dpath_kill_fwd j q : dpath T w root j q -> dpath T w' root j q.
Proof.
  induction 1 as [|p c q Hp IH (n & Hn & Hin)]; [constructor|].
  assert (Hc : dpath T w root c (q ++ seg T w c)) by (econstructor; [exact Hp|exists n; auto]).
  rewrite <- (seg_kill c _ Hc). econstructor; [exact IH|]. exists n. split; [rewrite (reach_kept p q Hp); exact Hn|exact Hin].
Qed.
Lemma dpath_kill_bwd j q : dpath T w' root j q -> dpath T w root j q.
Proof.
  induction 1 as [|p c q Hp IH (n & Hn & Hin)]; [constructor|].
  assert (Hch : child_of w p c) by (exists n; split; [rewrite <- (reach_kept p q IH); exact Hn|exact Hin]).
  assert (Hc : dpath T w root c (q ++ seg T w c)) by (econstructor; [exact IH|exact Hch]).
  rewrite (seg_kill c _ Hc). exact Hc.
Qed.

End Keep.
