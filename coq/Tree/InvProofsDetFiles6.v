(* Tree/InvProofsDetFiles6.v — C03: DF is preserved, part 6: file operations, new_model, set_item_name; DF_step. *)
From Coq Require Import PeanoNat Arith.
From AV Require Import Base.Bytes Base.Outcome Hash.HashModel Tree.Heap Tree.Ops Tree.Script Tree.Inv
  Tree.InvProofsBase Tree.InvProofsCore Tree.InvProofsTree Tree.InvProofsPrim Tree.InvProofsCreate
  Tree.InvProofsData Tree.InvProofsRefs Tree.InvProofsRemove Tree.InvProofsFiles Tree.InvProofsMove
  Tree.InvProofsCopy Tree.InvProofsRename Tree.InvProofsFrame Tree.StaleProofs Tree.InvProofs
  Tree.InvProofsDetFiles Tree.InvProofsDetFiles2 Tree.InvProofsDetFiles3 Tree.InvProofsDetFiles4
  Tree.InvProofsDetFiles5.
Open Scope string_scope.
Open Scope list_scope.
Open Scope N_scope.

Notation pframe := (frame pfNR pfNN).
Notation pfp := (frp pfNR pfNN).

Lemma SD_start w : DF w -> SD w w.
Proof. intros D. split; [apply same_tree_refl | exact D]. Qed.

Section DF6.
Variable T : tables.
Variable tab_el tab_en : nametab.
Variable check_fn : N -> list N -> res bool.
Variable LATEST : N.
Variable root_attrs : list (N * cdata).

(* ---------- add_to_file ---------- *)
Lemma e_add_to_file_df e f w r w' : Core w -> DF w -> e_add_to_file T e f w = Val (r, w') -> DF w'.
Proof.
  intros C D H. unfold e_add_to_file in H.
  wrun_ro H ltac:(exact D).
  match goal with Hq : model_of e w = Val (OK ?mm, w) |- _ =>
    apply model_of_top in Hq as (_ & t & Ht & Hr); destruct t as [|m1|]; try discriminate end.
  match goal with Hq : w_nodes w e = Some ?nx |- _ => rename nx into n; rename Hq into Hn end.
  wstepn H u Em.
  assert (S1 : SD w w0).
  { eapply (SD_modify w w e); [apply SD_start; auto | exact Ht | | exact Em]. intros nx. split; reflexivity. }
  wstepn H p Ep. 2:{ apply S1. }
  unfold parent_of in Ep. destruct (n_parent n) as [|mm|pi] eqn:Hpn; winv Ep.
  - winv H. apply S1.
  - wstepn H wq Eq; winv Eq.
    assert (Htpi : Top w pi (PModel m1)).
    { remember (PModel m1) as t eqn:Et. destruct Ht as [x nx Hnx Hnp | x nx p t Hnx Hpx Ht].
      - assert (nx = n) as -> by congruence. exfalso. eapply Hnp. eauto.
      - assert (nx = n) as -> by congruence. subst t. assert (p = pi) as -> by congruence. auto. }
    apply (atfr_df T _ _ _ _ _ _ _ _ C S1 Htpi H).
Qed.

(* ---------- create_file ---------- *)
Lemma m_create_file_df m name version w r w' : Core w -> DF w -> m_create_file T m name version w = Val (r, w') -> DF w'.
Proof.
  intros C D H. unfold m_create_file in H.
  wrun_ro H ltac:(exact D).
  wstepn H u Ep. apply wput_inv in Ep as (_ & ->).
  wstepn H u2 Em. apply modify_model_inv in Em as (y & Hy & _ & ->).
  wstepn H w2 Eg; winv Eg.
  match type of H with _ ?wa = _ => set (wk := wa) in * end.
  assert (S1 : SD w wk).
  { split.
    - repeat split; auto. unfold wk, wmodels. cbn. cbn in Hy. rewrite nth_opt_nth_error in Hy.
      eapply roots_list_set; eauto.
    - assert (Hnodes : forall z, w_nodes wk z = w_nodes w z) by reflexivity.
      exact (DF_pframe _ _ C (frame_nodes_eq pfNR pfNN pfNR_refl _ _ Hnodes) D). }
  wstepn H o Ea. winv H.
  apply wtry_inv in Ea as (r0 & Ea & _).
  match goal with Hx : nth_opt (w_models w) (N.to_nat m) = Some ?x0 |- _ =>
    assert (Hroot : exists nr, w_nodes w (m_root x0) = Some nr /\ n_parent nr = PModel m) end.
  { rewrite nth_opt_nth_error in Hx. assert (Hr : nth_error (roots w) (N.to_nat m) = Some (m_root x)).
    { unfold roots. rewrite nth_error_map, Hx. reflexivity. }
    destruct (c_roots _ C _ _ Hr) as (nr & Hnr & Hpr). exists nr. split; auto. rewrite Hpr. f_equal. lia. }
  destruct Hroot as (nr & Hnr & Hpr).
  assert (Htr : Top w (m_root x) (PModel m)).
  { rewrite <- Hpr. eapply T_here; eauto. rewrite Hpr. congruence. }
  apply (atfr_df T _ _ _ _ _ _ _ _ C S1 Htr Ea).
Qed.

End DF6.
