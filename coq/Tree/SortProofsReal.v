(* Tree/SortProofsReal.v — C14 on the regenerated real tables RT with the real string tables:
   [F] every element definition's name is inside tab_element, every item of every CEnum specification is inside tab_enum, every
       attribute definition's name is inside tab_attr (boolean checkers over the generated lists, vm_compute);
       tables_ok RT (Xml/TablesOkReal.v) and MaskOK RT (Tree/CompatHistReal.v) are reused.
   Hence: for EVERY history of the operation alphabet `op` from the empty world, Element::sort of every allocated element and
   AutosarModel::sort of every model return Ok (for any stable sort) - no hypothesis about the world is left; the only
   hypothesis left concerns the PARAMETER root_attrs (the attribute list AutosarModel::new gives the root element). *)
From Coq Require Import PeanoNat Arith Lia.
From AV Require Import Base.Bytes Base.Outcome Hash.HashModel Spec.SpecOps Spec.SpecProofs Spec.SpecReal Xml.TablesOk Xml.TablesOkReal
  Tree.Heap Tree.Ops Tree.Script Tree.Inv Tree.SpecWFReal Tree.CompatHist1 Tree.CompatHistReal
  Tree.Sort Tree.SortProofsOrder Tree.SortProofsHeap Tree.SortProofsCanon Tree.SortProofsCore Tree.SortProofsHist Tree.SortProofsReady.
From AV Require Import Hash.HashRealElement Hash.HashRealAttr Hash.HashRealEnum.
From AV.Gen Require Import SpecTables.
Open Scope list_scope.
Open Scope N_scope.

Definition in_tab (t : nametab) (x : N) : bool := match to_str t x with Some _ => true | None => false end.
Lemma in_tab_ok t x : in_tab t x = true -> to_str t x <> None.
Proof. unfold in_tab. destruct (to_str t x); [discriminate|discriminate]. Qed.

(* ---- element names ---- *)
Lemma names_list_ok : forallb (fun e => in_tab tab_element (ed_name (mk_elem e))) t_elements = true.
Proof. vm_cast_no_check (@eq_refl bool true). Qed.
Theorem NamesOK_real i e : i < n_elements RT -> T_elements RT i = Some e -> to_str tab_element (ed_name e) <> None.
Proof.
  intros _ H. cbn [T_elements RT] in H. rewrite m_elements_eq, get_build in H.
  apply nth_error_In in H. apply in_map_iff in H as (x & <- & Hx).
  pose proof names_list_ok as L. rewrite forallb_forall in L. exact (in_tab_ok _ _ (L _ Hx)).
Qed.

(* ---- enum items of the value specifications ---- *)
Definition spec_items_b (c : cdspec) : bool :=
  match c with CEnum items => forallb (fun it => in_tab tab_enum (fst it)) items | _ => true end.
Lemma enums_list_ok : forallb spec_items_b t_cdata = true.
Proof. vm_cast_no_check (@eq_refl bool true). Qed.
Lemma m_cdata_eq : m_cdata = build t_cdata.
Proof. vm_cast_no_check (@eq_refl _ m_cdata). Qed.
Theorem EnumsOK_real k items it : T_cdata RT k = Some (CEnum items) -> In it items -> to_str tab_enum (fst it) <> None.
Proof.
  intros H Hin. cbn [T_cdata RT] in H. rewrite m_cdata_eq, get_build in H.
  apply nth_error_In in H. pose proof enums_list_ok as L. rewrite forallb_forall in L. specialize (L _ H). cbn [spec_items_b] in L.
  rewrite forallb_forall in L. exact (in_tab_ok _ _ (L _ Hin)).
Qed.

(* ---- attribute names ---- *)
Lemma attrs_list_ok : forallb (fun a : N * N * N => in_tab tab_attr (fst (fst a))) t_attributes = true.
Proof. vm_cast_no_check (@eq_refl bool true). Qed.
Lemma m_attributes_eq : m_attributes = build t_attributes.
Proof. vm_cast_no_check (@eq_refl _ m_attributes). Qed.
Theorem AttrsOK_real k name cdid req : T_attributes RT k = Some (name, cdid, req) -> to_str tab_attr name <> None.
Proof.
  intros H. cbn [T_attributes RT] in H. rewrite m_attributes_eq, get_build in H.
  apply nth_error_In in H. pose proof attrs_list_ok as L. rewrite forallb_forall in L. exact (in_tab_ok _ _ (L _ H)).
Qed.

Theorem table_facts_real :
  tables_ok RT = true /\ MaskOK RT /\
  (forall i e, i < n_elements RT -> T_elements RT i = Some e -> to_str tab_element (ed_name e) <> None) /\
  (forall k items it, T_cdata RT k = Some (CEnum items) -> In it items -> to_str tab_enum (fst it) <> None) /\
  (forall k name cdid req, T_attributes RT k = Some (name, cdid, req) -> to_str tab_attr name <> None).
Proof. exact (conj tables_ok_real (conj MaskOK_real (conj NamesOK_real (conj EnumsOK_real AttrsOK_real)))). Qed.

(* ---- the statements without world hypotheses ---- *)
Section Real.
Variable check_fn : N -> list N -> res bool.
Variable LATEST : N.
Variable root_attrs : list (N * cdata).
Variable name_index name_definition_ref : N.
Variable srt : forall A, (A -> A -> comparison) -> list A -> list A.
Hypothesis SS : StableSort srt.
(* the parameter of AutosarModel::new: attribute names inside tab_attr, enum values inside tab_enum *)
Hypothesis RootOK : forall a, In a root_attrs -> to_str tab_attr (fst a) <> None /\ cdata_named tab_enum (snd a).

Notation run_ops := (Inv.run_ops RT tab_element tab_enum check_fn LATEST root_attrs).
Notation e_sort' := (e_sort_with RT tab_element tab_attr tab_enum name_index name_definition_ref srt).
Notation m_sort' := (m_sort_with RT tab_element tab_attr tab_enum name_index name_definition_ref srt).
Notation SpecKids' := (SpecKids RT tab_element tab_attr tab_enum).

Theorem spec_kids_histories_real l w : run_ops l empty_world = Val w -> Core w /\ SpecKids' w.
Proof.
  exact (spec_kids_histories RT tab_element tab_attr tab_enum check_fn LATEST root_attrs tables_ok_real MaskOK_real
           NamesOK_real EnumsOK_real AttrsOK_real RootOK l w).
Qed.

Theorem never_fails_histories_real l w :
  run_ops l empty_world = Val w ->
  (forall i, (exists n, w_nodes w i = Some n) -> exists w', e_sort' i w = Val (OK tt, w') /\ SpecKids' w') /\
  (forall m x, nth_opt (w_models w) (N.to_nat m) = Some x -> exists w', m_sort' m w = Val (OK tt, w') /\ SpecKids' w').
Proof.
  exact (never_fails_histories_tables RT tab_element tab_attr tab_enum check_fn LATEST root_attrs tables_ok_real MaskOK_real
           NamesOK_real EnumsOK_real AttrsOK_real RootOK name_index name_definition_ref srt SS l w).
Qed.
End Real.

(* the std insertion sort of the model, no root attributes *)
Theorem never_fails_histories_real_isort check_fn LATEST name_index name_definition_ref l w :
  Inv.run_ops RT tab_element tab_enum check_fn LATEST [] l empty_world = Val w ->
  forall i, (exists n, w_nodes w i = Some n) ->
  exists w', e_sort RT tab_element tab_attr tab_enum name_index name_definition_ref i w = Val (OK tt, w').
Proof.
  intros H i A.
  destruct (never_fails_histories_real check_fn LATEST [] name_index name_definition_ref isort_poly StableSort_isort
              (fun a (F : In a []) => match F with end) l w H) as (ES & _).
  destruct (ES i A) as (w' & E & _). exists w'. exact E.
Qed.

(* ---- non-vacuity: a history on the real tables, the theorem applied, and a sort that reorders ---- *)
Definition nv_check (fn : N) (s : list N) : res bool := Val true.
Definition nv_hist : list op :=
  [ OpNewModel; OpCreateFile 0 [102] 1048576;
    OpCreateSub 0 5413;                     (* AR-PACKAGES        -> node 1 *)
    OpCreateNamed 1 5250 [113];             (* AR-PACKAGE "q"     -> node 2 (SHORT-NAME 3) *)
    OpCreateNamed 1 5250 [112] ].           (* AR-PACKAGE "p"     -> node 4 (SHORT-NAME 5) *)
Definition nv_final : res world := Eval vm_compute in Inv.run_ops RT tab_element tab_enum nv_check 1048576 [] nv_hist empty_world.

(* 3516 = ElementName::Index, 6311 = ElementName::DefinitionRef in tab_element *)
Example never_fails_real_nonvacuous : exists w w',
  Inv.run_ops RT tab_element tab_enum nv_check 1048576 [] nv_hist empty_world = Val w /\
  option_map n_content (w_nodes w 1) = Some [CElem 2; CElem 4] /\
  e_sort RT tab_element tab_attr tab_enum 3516 6311 0 w = Val (OK tt, w') /\
  option_map n_content (w_nodes w' 1) = Some [CElem 4; CElem 2].
Proof.
  destruct nv_final as [w| |] eqn:E; try (vm_compute in E; discriminate).
  assert (Hrun : Inv.run_ops RT tab_element tab_enum nv_check 1048576 [] nv_hist empty_world = Val w)
    by (rewrite <- E; vm_cast_no_check (@eq_refl _ nv_final)).
  destruct (never_fails_histories_real_isort nv_check 1048576 3516 6311 nv_hist w Hrun 0) as (w' & Hs).
  { vm_compute in E. injection E as <-. eexists. reflexivity. }
  exists w, w'. split; [exact Hrun|]. split; [vm_compute in E; injection E as <-; reflexivity|]. split; [exact Hs|].
  vm_compute in E. injection E as <-. vm_compute in Hs. injection Hs as <-. vm_compute. reflexivity.
Qed.

(* the same after a move that C17's side condition attach_ok excludes (findings/C17-attach-keeps-stored-type.json): TP-ECUS of a
   FLEXRAY-TP-CONFIG moved into a CAN-TP-CONFIG keeps its stored type (8232, 2216) although the destination lists the name with
   type (8231, 519); the name is listed, so the sort of the whole tree still returns Ok *)
Definition nv_hist2 : list op :=
  [ OpNewModel; OpCreateFile 0 [102] 1048576;
    OpCreateSub 0 5413;                     (* AR-PACKAGES            -> node 1 *)
    OpCreateNamed 1 5250 [110; 49];         (* AR-PACKAGE "n1"        -> node 2 (SHORT-NAME 3) *)
    OpCreateSub 2 3929;                     (* ELEMENTS               -> node 4 *)
    OpCreateNamed 4 1495 [110; 50];         (* FLEXRAY-TP-CONFIG "n2" -> node 5 (SHORT-NAME 6) *)
    OpCreateSub 5 88;                       (* TP-ECUS                -> node 7 *)
    OpCreateSub 7 862;                      (* FLEXRAY-TP-ECU         -> node 8 *)
    OpCreateNamed 4 298 [110; 51];          (* CAN-TP-CONFIG "n3"     -> node 9 (SHORT-NAME 10) *)
    OpMove 9 7 ].
Definition nv_final2 : res world := Eval vm_compute in Inv.run_ops RT tab_element tab_enum nv_check 1048576 [] nv_hist2 empty_world.

Example never_fails_real_mismatched_move : exists w w' n9 n7,
  Inv.run_ops RT tab_element tab_enum nv_check 1048576 [] nv_hist2 empty_world = Val w /\
  w_nodes w 9 = Some n9 /\ w_nodes w 7 = Some n7 /\ In (CElem 7) (n_content n9) /\
  n_type n7 = (8232, 2216) /\ find_sub_element RT (n_type n9) (n_name n7) MAXV = Val (Some ((8231, 519), [13])) /\
  e_sort RT tab_element tab_attr tab_enum 3516 6311 0 w = Val (OK tt, w').
Proof.
  destruct nv_final2 as [w| |] eqn:E; try (vm_compute in E; discriminate).
  assert (Hrun : Inv.run_ops RT tab_element tab_enum nv_check 1048576 [] nv_hist2 empty_world = Val w)
    by (rewrite <- E; vm_cast_no_check (@eq_refl _ nv_final2)).
  destruct (never_fails_histories_real_isort nv_check 1048576 3516 6311 nv_hist2 w Hrun 0) as (w' & Hs).
  { vm_compute in E. injection E as <-. eexists. reflexivity. }
  exists w, w'. vm_compute in E. injection E as E. eexists. eexists.
  split; [exact Hrun|]. split; [rewrite <- E; reflexivity|]. split; [rewrite <- E; reflexivity|].
  split; [cbn; auto|]. split; [reflexivity|]. split; [vm_compute; reflexivity|exact Hs].
Qed.

(* sort descends through ORDERED nodes: SUB-ELEMENTS (node 7) of an IMPLEMENTATION-DATA-TYPE is ordered; the ANNOTATIONS
   (node 10) of its member IMPLEMENTATION-DATA-TYPE-ELEMENT hold two ANNOTATIONs with origins b, a in this order.  Sorting
   the data type (node 5) reorders them, and the result is sorted_f - every reorderable list below node 5, also below the
   ordered node, is sorted (the seeded change C14-sort-wrapper-returns-at-ordered stops at node 7) *)
Definition nv_hist3 : list op :=
  [ OpNewModel; OpCreateFile 0 [102] 1048576;
    OpCreateSub 0 5413;                     (* AR-PACKAGES                          -> node 1 *)
    OpCreateNamed 1 5250 [112];             (* AR-PACKAGE "p"                       -> node 2 (SHORT-NAME 3) *)
    OpCreateSub 2 3929;                     (* ELEMENTS                             -> node 4 *)
    OpCreateNamed 4 4359 [116];             (* IMPLEMENTATION-DATA-TYPE "t"         -> node 5 (SHORT-NAME 6) *)
    OpCreateSub 5 1656;                     (* SUB-ELEMENTS (ordered)               -> node 7 *)
    OpCreateNamed 7 3816 [101];             (* IMPLEMENTATION-DATA-TYPE-ELEMENT "e" -> node 8 (SHORT-NAME 9) *)
    OpCreateSub 8 5806;                     (* ANNOTATIONS                          -> node 10 *)
    OpCreateSub 10 6215; OpCreateSub 11 2359; OpSetCData 12 (DString [98]);    (* ANNOTATION 11, ANNOTATION-ORIGIN "b" *)
    OpCreateSub 10 6215; OpCreateSub 13 2359; OpSetCData 14 (DString [97]) ].  (* ANNOTATION 13, ANNOTATION-ORIGIN "a" *)
Definition nv_final3 : res world := Eval vm_compute in Inv.run_ops RT tab_element tab_enum nv_check 1048576 [] nv_hist3 empty_world.

Example sort_descends_below_ordered : exists w w' n7,
  Inv.run_ops RT tab_element tab_enum nv_check 1048576 [] nv_hist3 empty_world = Val w /\
  w_nodes w 7 = Some n7 /\ is_ordered RT (n_type n7) = Val true /\
  option_map n_content (w_nodes w 10) = Some [CElem 11; CElem 13] /\
  e_sort RT tab_element tab_attr tab_enum 3516 6311 5 w = Val (OK tt, w') /\
  option_map n_content (w_nodes w' 7) = Some [CElem 8] /\
  option_map n_content (w_nodes w' 10) = Some [CElem 13; CElem 11] /\
  sorted_f RT tab_element tab_attr tab_enum 3516 6311 (fuel_of w) w' 5.
Proof.
  destruct nv_final3 as [w| |] eqn:E; try (vm_compute in E; discriminate).
  assert (Hrun : Inv.run_ops RT tab_element tab_enum nv_check 1048576 [] nv_hist3 empty_world = Val w)
    by (rewrite <- E; vm_cast_no_check (@eq_refl _ nv_final3)).
  destruct (spec_kids_histories_real nv_check 1048576 [] (fun a (F : In a []) => match F with end) nv_hist3 w Hrun) as (C & _).
  destruct (never_fails_histories_real_isort nv_check 1048576 3516 6311 nv_hist3 w Hrun 5) as (w' & Hs).
  { vm_compute in E. injection E as <-. eexists. reflexivity. }
  pose proof (e_sort_sorted RT tab_element tab_attr tab_enum 3516 6311 isort_poly StableSort_isort 5 w _ w' C Hs) as SF.
  exists w, w'. vm_compute in E. injection E as E. eexists.
  split; [exact Hrun|]. split; [rewrite <- E; reflexivity|]. split; [vm_compute; reflexivity|].
  split; [rewrite <- E; reflexivity|]. split; [exact Hs|].
  assert (Hc : option_map n_content (w_nodes w' 7) = Some [CElem 8] /\ option_map n_content (w_nodes w' 10) = Some [CElem 13; CElem 11]).
  { clear SF C Hrun. rewrite <- E in Hs. vm_compute in Hs. injection Hs as <-. split; vm_compute; reflexivity. }
  destruct Hc as (H7 & H10). split; [exact H7|]. split; [exact H10|exact SF].
Qed.
