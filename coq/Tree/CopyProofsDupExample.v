(* Tree/CopyProofsDupExample.v — C13: the hypotheses of C13_duplicate_text_split are satisfiable.
   A model on the tiny table set (Tree/CopyProofsTiny.v), reached by a script from the empty world: two files "f" and
   "g" of version 2, PKGS / PKG "p" / ELEMENTS / HOLDER "h" (A-PROPS, B-PROPS); the package "p" is restricted to file
   "f" (an own file set: the model is SPLIT).  All hypotheses of duplicate_text_split_top are checked on it, so the
   conclusion holds of it: both files of the duplicate have the text of the equally named file of the original. *)
From AV Require Import Base.Bytes Base.Outcome Hash.HashModel Spec.SpecOps Tree.Heap Tree.Ops Tree.Script Tree.Copy
  Tree.Serialize Tree.Inv Tree.InvProofs Tree.CopyProofsDefs Tree.CopyProofsTiny Tree.CopyProofsDupSplit.
From Coq Require Import Lia PeanoNat.
Import Tiny13.
Open Scope string_scope.
Open Scope list_scope.
Open Scope N_scope.

Definition ex_script : list op := setup 2 ++ [OpCreateFile 0 (BS "g") 2; OpRemoveFromFile 2 1].
Definition ex_w : world := unval empty_world (run_script ex_script empty_world).
Definition ex_w' : world := after (dup 0 ex_w).

Lemma ex_reached : Inv.run_ops tiny el el check_fn LATEST [] ex_script Inv.empty_world = Val ex_w.
Proof. vm_compute. reflexivity. Qed.
Lemma ex_core : Core ex_w.
Proof. exact (Core_histories tiny el el check_fn LATEST [] ex_script _ _ empty_core ex_reached). Qed.
Lemma ex_dup : m_duplicate tiny el el check_fn LATEST [] 0 ex_w = Val (OK 1, ex_w').
Proof. vm_compute. reflexivity. Qed.

Lemma ex_nodes : forall o on, w_nodes ex_w o = Some on -> o < 9.
Proof. intros o on H. apply (c_alloc ex_w ex_core). exists on. exact H. Qed.

Lemma ex_cases o : o < 9 -> o = 0 \/ o = 1 \/ o = 2 \/ o = 3 \/ o = 4 \/ o = 5 \/ o = 6 \/ o = 7 \/ o = 8.
Proof. lia. Qed.

Ltac av_node :=
  lazymatch goal with
  | |- AllValidIn _ _ ?w ?s =>
    let r := eval vm_compute in (w_nodes w s) in
    lazymatch r with
    | Some ?ns => apply (AV_node _ _ w s ns); [vm_compute; reflexivity | vm_compute; reflexivity | cbn [n_content n_type]]
    end
  end.
Ltac av_items :=
  lazymatch goal with
  | |- AllValidItems _ _ _ _ [] => apply AVI_nil
  | |- AllValidItems _ _ _ _ (CData _ :: _) => apply AVI_data
  | |- AllValidItems _ _ ?w _ (CElem ?s :: _) =>
    let r := eval vm_compute in (w_nodes w s) in
    lazymatch r with
    | Some ?sn => eapply (AVI_elem _ _ w _ s sn); [vm_compute; reflexivity | vm_compute; reflexivity | | ]
    end
  end.

Lemma ex_valid : AllValidIn tiny 2 ex_w 1.
Proof. repeat first [av_node | av_items]. Qed.

Definition ex_x : model := match nth_opt (w_models ex_w) 0 with Some x => x | None => mkModel 0 [] [] [] end.
Lemma ex_x_root : m_root ex_x = 0 /\ w_next ex_w = 9 /\ m_files ex_x = [0; 1].
Proof. vm_compute. auto. Qed.

(* facts about the two worlds, computed once (goal side, so that the kernel rechecks them with the VM) *)
Definition ex_f0 : file := mkFile 0 (BS "f") 2 None.
Definition ex_f1 : file := mkFile 0 (BS "g") 2 None.
Lemma ex_files_w : w_files ex_w = [ex_f0; ex_f1].
Proof. vm_compute. reflexivity. Qed.
Lemma ex_files_w' : map f_version (w_files ex_w') = [2; 2; 2; 2].
Proof. vm_compute. reflexivity. Qed.
Lemma ex_node1 : exists n1, w_nodes ex_w 1 = Some n1 /\ is_named tiny (n_type n1) = Val false.
Proof. eexists. split; vm_compute; reflexivity. Qed.
Lemma ex_local : forall o, o < 9 -> exists on, w_nodes ex_w o = Some on /\ incl (n_files on) [0; 1].
Proof.
  intros o Ho. destruct (ex_cases o Ho) as [->|[->|[->|[->|[->|[->|[->|[->| ->]]]]]]]];
    (eexists; split; [vm_compute; reflexivity|vm_compute; intros g Hg; tauto]).
Qed.

(* the instance: for both files of the original there is a file of the duplicate (model 1) with the same name whose
   text, below the duplicate's root (node 9), is the text of the original's file below the original's root (node 0) *)
Theorem duplicate_text_example (tab_at : nametab) (float_fmt : N -> list N) :
  forall f fl, In f (m_files ex_x) -> nth_opt (w_files ex_w) (N.to_nat f) = Some fl ->
  exists nf nfl, nth_opt (w_files ex_w') (N.to_nat nf) = Some nfl /\ f_name nfl = f_name fl /\ f_model nfl = 1 /\
    forall fuel indent inline,
      ser_heap tiny el tab_at el float_fmt fuel ex_w' (Some f) (m_root ex_x) indent inline =
      ser_heap tiny el tab_at el float_fmt fuel ex_w' (Some nf) (w_next ex_w) indent inline.
Proof.
  intros f fl Hf Hfl. destruct ex_x_root as (_ & _ & Emf).
  eapply (duplicate_text_split_top tiny el tab_at el check_fn float_fmt LATEST [] 0 ex_w 1 ex_w' ex_x).
  - exact ex_core.
  - exact ex_dup.
  - vm_compute. reflexivity.
  - vm_compute. reflexivity.
  - vm_compute. reflexivity.
  - vm_compute. reflexivity.
  - reflexivity.
  - vm_compute. reflexivity.
  - intros en H. destruct ex_node1 as (n1 & Hn1 & Hnm). rewrite Hn1 in H. injection H as <-. exact Hnm.
  - intros v [->|(g & gl & Hg & Hv)]; [exact ex_valid|].
    assert (Hin : In v (map f_version (w_files ex_w'))).
    { rewrite <- Hv. apply in_map. eapply nth_opt_In. exact Hg. }
    rewrite ex_files_w' in Hin. cbn in Hin. destruct Hin as [<-|[<-|[<-|[<-|[]]]]]; exact ex_valid.
  - rewrite Emf, ex_files_w. intros g [<-|[<-|[]]]; eexists; reflexivity.
  - rewrite Emf, ex_files_w. intros g1 g2 l1 l2 [<-|[<-|[]]] [<-|[<-|[]]] H1 H2 Hn; cbn in H1, H2; injection H1 as <-; injection H2 as <-;
      try reflexivity; discriminate Hn.
  - intros p pn o on _ _ _ Hon g Hg. rewrite Emf.
    destruct (ex_local o (ex_nodes o on Hon)) as (on' & Hon' & Hincl). rewrite Hon' in Hon. injection Hon as <-. exact (Hincl g Hg).
  - exact Hf.
  - exact Hfl.
Qed.

(* both files of the original do exist: the statement above is not empty *)
Lemma ex_files : exists a b, nth_opt (w_files ex_w) 0 = Some a /\ nth_opt (w_files ex_w) 1 = Some b /\ f_name a <> f_name b /\
  exists n2, w_nodes ex_w 2 = Some n2 /\ n_files n2 = [0].
Proof. do 2 eexists. split; [vm_compute; reflexivity|]. split; [vm_compute; reflexivity|]. split; [vm_compute; discriminate|].
  eexists. split; vm_compute; reflexivity. Qed.

(* ------------------------------------------------------------------ a copy INSIDE one model between files of different
   versions is filtered for the version of its DESTINATION (C13_copy_filtered says so for every copy; this is an
   instance): file "f" has version 2, file "g" version 1; package "p" lives only in "f", package "q" only in "g";
   ELEMENTS of "p" holds a HOLDER and a NEW-THING (permitted in version 2 only).  Source and destination belong to the
   same model 0, the source's min_version is 2, the destination's is 1: the copy of ELEMENTS into "q" keeps the HOLDER
   and omits the NEW-THING *)
Definition mv_script : list op :=
  setup 2 ++ [OpCreateNamed 4 nNEW (BS "n"); OpCreateFile 0 (BS "g") 1; OpCreateNamed 1 nPKG (BS "q");
              OpRemoveFromFile 11 0; OpRemoveFromFile 2 1].
Definition mv_w : world := unval empty_world (run_script mv_script empty_world).
Definition mv_w' : world := after (run (OpCopy 11 4) mv_w).

Lemma copy_same_model_other_version_example :
  Inv.run_ops tiny el el check_fn LATEST [] mv_script Inv.empty_world = Val mv_w /\
  model_of 11 mv_w = Val (OK 0, mv_w) /\ model_of 4 mv_w = Val (OK 0, mv_w) /\
  min_version LATEST 11 mv_w = Val (OK 1, mv_w) /\ min_version LATEST 4 mv_w = Val (OK 2, mv_w) /\
  run (OpCopy 11 4) mv_w = Val (OK (VElem 13), mv_w') /\
  node_content mv_w 4 = [CElem 5; CElem 9] /\
  option_map n_name (w_nodes mv_w 5) = Some nHOLDER /\ option_map n_name (w_nodes mv_w 9) = Some nNEW /\
  node_content mv_w' 13 = [CElem 14] /\ option_map n_name (w_nodes mv_w' 14) = Some nHOLDER.
Proof. vm_compute. repeat split; reflexivity. Qed.
