(* Tree/NoPanicProofsDupHist.v — C12: agent-c10's FilesOwned along op2 histories of covered steps, hence D (Tree/NoPanicProofsDup.v)
   in every world such a history reaches, hence AutosarModel::duplicate returns there (as a final call: a FAILING duplicate
   leaves a node with a parent link to the dropped model, so it is not a covered step). *)
From Coq Require Import Lia PeanoNat.
From AV Require Import Base.Bytes Base.Outcome Hash.HashModel Spec.SpecOps Xml.TablesOk Tree.Heap Tree.Ops Tree.Script Tree.Script2 Tree.Copy Tree.Inv.
From AV Require Import Tree.InvProofsBase Tree.InvProofs Tree.Sort Tree.SortProofsOrder Tree.SortProofsHeap Tree.SortProofsMain
  Tree.SortProofsReadyV Tree.IndexProofsNodeInv Tree.Compat Tree.CompatHist1 Tree.Files Tree.FilesProofsOp2 Tree.FilesProofsTop Tree.Serialize.
From AV Require Import Tree.NoPanic Tree.NoPanicProofsBase Tree.NoPanicProofsCopy2 Tree.NoPanicFloat Tree.NoPanicProofsFloat Tree.NoPanicProofsHist
  Tree.NoPanicProofsOp2 Tree.NoPanicProofsOp2Inv Tree.NoPanicProofsFiles Tree.NoPanicProofsSerFile Tree.NoPanicProofsOp2Hist Tree.NoPanicProofsDup.
Open Scope string_scope.
Open Scope list_scope.
Open Scope N_scope.

Section DupHist.
Variable T : tables.
Variable tab_el tab_at tab_en : nametab.
Variable check_fn : N -> list N -> res bool.
Variable float_parse : list N -> option N.
Variable fmt : N -> list N.
Variable LATEST name_index name_definition_ref attr_schema_location : N.
Variable root_attrs : list (N * cdata).
Hypothesis OK12 : tables_ok12 T = true.
Hypothesis CHECK : forall fn s, exists b, check_fn fn s = Val b.
Hypothesis EN_OK : nametab_ok tab_en = true.
Hypothesis SHORT_OK : name_ok tab_el (name_short_name T).
Hypothesis NamesOK : forall i e, i < n_elements T -> T_elements T i = Some e -> to_str tab_el (ed_name e) <> None.
Hypothesis EnumsOK : forall k items it, T_cdata T k = Some (CEnum items) -> In it items -> to_str tab_en (fst it) <> None.
Hypothesis AttrsOK : forall k name cdid req, T_attributes T k = Some (name, cdid, req) -> to_str tab_at name <> None.
Hypothesis RootOK : attrV tab_at tab_en root_attrs.
Hypothesis TKr : forall ty cs v ver, is_ref T ty = Val true -> chardata_spec T ty = Val (Some cs) ->
  check_value check_fn v cs ver = Val true -> exists s, v = DString s.
Hypothesis RootTy : forall ty, et_new T (autosar_element T) = Val ty -> plainty T ty.
Hypothesis HM : MaskOK T.

Notation H2 := (H2 T tab_el tab_at tab_en).
Notation D := (D T tab_el tab_at tab_en).
Notation runF := (run_opF T tab_el tab_en check_fn LATEST root_attrs fmt).
Notation run2F := (run_op2F T tab_el tab_at tab_en check_fn float_parse fmt LATEST name_index name_definition_ref
                            attr_schema_location root_attrs).
Notation run_ops2F' := (run_ops2F T tab_el tab_at tab_en check_fn float_parse fmt LATEST name_index name_definition_ref
                                  attr_schema_location root_attrs).
Notation wf_ops2' := (wf_ops2 T tab_el tab_at tab_en check_fn float_parse fmt LATEST name_index name_definition_ref
                              attr_schema_location root_attrs).

Lemma owned_files_model w w' : w_models w' = w_models w ->
  (forall f fl, nth_opt (w_files w) (N.to_nat f) = Some fl -> exists fl', nth_opt (w_files w') (N.to_nat f) = Some fl' /\ f_model fl' = f_model fl) ->
  FilesOwned w -> FilesOwned w'.
Proof.
  intros M F O m x f Hx Hf. unfold model_b in Hx. rewrite M in Hx. destruct (O m x f Hx Hf) as (fl & Hfl & Hm).
  destruct (F f fl Hfl) as (fl' & Hfl' & Hm'). exists fl'. split; [exact Hfl'|congruence].
Qed.

Lemma owned_step2 o w r w' : covered_step2 o = true -> Core w -> FilesOwned w -> run2F o w = Val (r, w') -> FilesOwned w'.
Proof.
  intros COV C O H. destruct o; try discriminate COV; cbn [run_op2F run_op2] in H.
  - apply wmap_inv in H as (r0 & H & _). destruct (runF_is_run T tab_el tab_en check_fn LATEST root_attrs fmt o w r0 w' H) as (o' & r' & E).
    exact (owned_step_all T tab_el tab_en check_fn LATEST root_attrs o' w r' w' C O E).
  - apply wmap_inv in H as (r0 & H & _). unfold e_sort in H.
    apply (e_sort_frame T tab_el tab_at tab_en name_index name_definition_ref isort_poly StableSort_isort) in H as (_ & (_ & F & M & _)).
    exact (owned_same w w' M F O).
  - apply wmap_inv in H as (r0 & H & _). unfold m_sort in H.
    apply (m_sort_frame T tab_el tab_at tab_en name_index name_definition_ref isort_poly StableSort_isort) in H as (_ & (_ & F & M & _)).
    exact (owned_same w w' M F O).
  - apply wmap_inv in H as (r0 & H & _). destruct (set_version_eff T f v w r0 w' H) as [->|(x & Hx & ->)]; [exact O|].
    apply (owned_files_model w); [reflexivity| |exact O]. cbn [w_files]. intros g gl Hg.
    eexists. split; [exact (nth_opt_list_set_fwd _ _ _ _ _ Hg)|]. destruct (Nat.eqb _ _) eqn:E; [|reflexivity].
    apply Nat.eqb_eq in E. apply Nnat.N2Nat.inj in E. subst g. rewrite Hx in Hg. injection Hg as <-. reflexivity.
  - apply wbind_inv in H as [((errs & mask) & w1 & E & H)|(e & E & ->)].
    + apply wret_inv in H as (_ & ->). unfold f_check_version_compatibility in E. destruct (f_check T w f v); inversion E; subst; exact O.
    + unfold f_check_version_compatibility in E. destruct (f_check T w f v); inversion E; subst; exact O.
  - apply wmap_inv in H as (r0 & H & _). unfold f_serialize in H.
    apply wbind_inv in H as [(fl & w1 & E & H)|(e & E & _)]; apply get_file_inv in E as (fl' & _ & _ & ->); [|exact O].
    apply wbind_inv in H as [(m & w1 & E & H)|(e & E & _)]; apply get_model_inv in E as (m' & _ & _ & ->); [|exact O].
    apply wbind_inv in H as [((a & files) & w1 & E & H)|(e & E & _)]; [apply ro_file_membership in E; subst w1|apply ro_file_membership in E; subst w'; exact O].
    destruct (negb (set_mem f files)); [apply wfail_inv in H as (_ & ->); exact O|].
    apply wbind_inv in H as [(fname & w1 & E & H)|(e & E & _)]; apply wlift_inv in E as (x & _ & _ & ->); [|exact O].
    assert (P : forall r1 w1, wtry (raw_set_attribute T check_fn (m_root m) attr_schema_location
                (DString (BS "http://autosar.org/schema/r4.0 " ++ fname)) (f_version fl)) w = Val (r1, w1) -> FilesOwned w1).
    { intros r1 w1 E. apply wtry_inv in E as (r2 & E & _). destruct (raw_set_attribute_srel T check_fn _ _ _ _ _ _ _ E) as ((M & _) & _ & F).
      exact (owned_same w w1 M F O). }
    apply wbind_inv in H as [(u & w1 & E & H)|(e & E & _)]; [|exact (P _ _ E)].
    pose proof (P _ _ E) as O1. destruct (ser_heap _ _ _ _ _ _ _ _ _ _ _); try discriminate H. injection H as _ <-. exact O1.
  - apply wmap_inv in H as (r0 & H & _). unfold e_serialize in H. destruct (ser_heap _ _ _ _ _ _ _ _ _ _ _); inversion H; subst; exact O.
Qed.

Theorem hist2_D l : forall w, D w -> wf_ops2' l w -> exists w', run_ops2F' l w = Val w' /\ D w'.
Proof.
  induction l as [|o l IH]; intros w HD WF; cbn [run_ops2F wf_ops2] in *; [eauto|].
  destruct WF as (COV & WF & K). destruct HD as (I & O). pose proof I as ((C & _) & _).
  destruct (no_panic_step2 T tab_el tab_at tab_en check_fn float_parse fmt LATEST name_index name_definition_ref attr_schema_location
              root_attrs OK12 CHECK EN_OK SHORT_OK EnumsOK AttrsOK HM o w COV WF I) as (x & w1 & E). rewrite E.
  apply IH; [|exact (K _ _ E)]. split.
  - exact (H2_step2 T tab_el tab_at tab_en check_fn float_parse fmt LATEST name_index name_definition_ref attr_schema_location
             root_attrs OK12 NamesOK EnumsOK AttrsOK RootOK TKr RootTy o w x w1 COV WF I E).
  - exact (owned_step2 o w x w1 COV C O E).
Qed.

Lemma D_empty : D empty_world.
Proof. split; [apply H2_empty|]. intros m x f Hx. unfold model_b in Hx. destruct (N.to_nat m); discriminate Hx. Qed.

(* duplicate as the call after a history *)
Theorem duplicate_after_history l w m : run_ops2F' l empty_world = Val w -> wf_ops2' l empty_world ->
  m < N.of_nat (List.length (w_models w)) -> dup_sized T LATEST root_attrs m w ->
  runs (m_duplicate T tab_el tab_en check_fn LATEST root_attrs m) w.
Proof.
  intros E WF Lm HS. destruct (hist2_D l empty_world D_empty WF) as (w' & E' & HD). rewrite E in E'. injection E' as <-.
  exact (np_duplicate T tab_el tab_at tab_en check_fn LATEST root_attrs OK12 CHECK NamesOK EnumsOK AttrsOK RootOK TKr RootTy w m HD Lm HS).
Qed.

End DupHist.
