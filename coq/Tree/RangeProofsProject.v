(* Tree/RangeProofsProject.v — C07 (reload clause), the bridge to C08/C01: a world whose nodes are Ordered, whose children
   carry the type the specification resolves their name to, whose values and attributes are checked, projects (per file,
   Tree/Project.v) to a tree that is StrictValid (Xml/StrictValidDef.v) EXCEPT for the clause "every required attribute is
   present" — the one complaint the property allows. *)
From Coq Require Import Arith.
From AV Require Import Base.Bytes Base.Outcome Hash.HashModel Spec.SpecOps Tree.Heap Tree.Range Tree.RangeProofsPath Tree.SpecWF
  Tree.RangeProofsLoop Tree.RangeProofsLoader Tree.RangeProofsKeep Tree.RangeProofsMoveFinal Tree.Project.
From AV Require Import Xml.Parser Xml.StrictValidDef.
Open Scope list_scope.
Open Scope N_scope.

Section Project.
Variable T : tables.
Variable check_fn : N -> list N -> res bool.
Variable ver : N.
Hypothesis WF : SpecWF T.

Notation SVNR := (Project.SVNR T check_fn ver).
Notation children_nr := (Project.children_nr T check_fn ver).
Notation node_ok := (Project.node_ok T check_fn ver).
Notation WorldOK := (Project.WorldOK T check_fn ver).

(* SVNR is StrictValid with the attribute clause weakened, nothing else *)
Scheme SV_min := Minimality for StrictValid Sort Prop
  with CO_min := Minimality for children_ok Sort Prop.
Combined Scheme SV_CO_mutind from SV_min, CO_min.

Lemma SVNR_of_StrictValid :
  (forall t, StrictValid T check_fn ver t -> SVNR t) /\
  (forall ty prev pre l, children_ok T check_fn ver ty prev pre l -> children_nr ty prev pre l).
Proof.
  apply SV_CO_mutind.
  - intros name ty attrs content comment (HA & _) _ HC HS. apply SVNR_node; auto.
  - intros. apply cn_nil.
  - intros ty prev pre c rest idx HF HN HM _ HSV _ HC. eapply cn_elem; eauto.
  - intros ty prev pre v rest HT _ HC. apply cn_text; auto.
Qed.

(* the kept child list is a sub-list of the whole one *)
Lemma kept_items_sub w ff : forall l items, items_of w l = Some items ->
  exists kitems, kept_items w ff l = Some kitems /\ subseq (somes kitems) (somes items).
Proof.
  induction l as [|x l IH]; intros items; cbn [items_of kept_items].
  - intros [= <-]. exists []. split; [reflexivity|apply ss_nil].
  - destruct (item_of w x) as [it|] eqn:EI; [|discriminate]. destruct (items_of w l) as [xs|] eqn:EL; [|discriminate].
    intros [= <-]. destruct (IH xs eq_refl) as (ks & EK & SK). destruct x as [c|d]; cbn [item_of] in EI.
    + destruct (w_nodes w c) as [cn|]; [|discriminate]. injection EI as <-. rewrite EK. rewrite somes_cons. cbn [app].
      destruct (passes ff cn); cbn [option_map].
      * eexists. split; [reflexivity|]. rewrite somes_cons. cbn [app]. apply ss_take. exact SK.
      * eexists. split; [reflexivity|]. apply ss_skip. exact SK.
    + injection EI as <-. rewrite EK. cbn [option_map]. eexists. split; [reflexivity|].
      rewrite !somes_cons. cbn [app]. exact SK.
Qed.

Lemma no_conflict_of_pair_ok ty prev idx : pair_ok T ty prev idx = true -> no_conflict T ty prev idx.
Proof.
  intros PO. destruct (ix_eqb prev idx) eqn:EE; [right; left; apply ix_eqb_eq; exact EE|].
  right. right. destruct (pair_ok_defined T ty prev idx PO) as (g & m & HG & HM).
  destruct (pair_ok_choice_mode T ty prev idx g m PO HG HM EE) as [NC _].
  unfold group_mode in HM. destruct (dt T g) as [d| |] eqn:Hd; try discriminate. injection HM as <-.
  exists g, d. auto.
Qed.

(* the elements already seen, as Range.v abstracts them *)
Definition pre_names (pre : list (etree + Parser.cdata)) : list N :=
  flat_map (fun c => match c with inl e => [e_name e] | inr _ => [] end) pre.

Lemma pre_names_app pre x : pre_names (pre ++ [x]) = pre_names pre ++ match x with inl e => [e_name e] | inr _ => [] end.
Proof. unfold pre_names. rewrite flat_map_app. cbn [flat_map]. rewrite app_nil_r. reflexivity. Qed.

Lemma in_pre_names pre e : In (inl e) pre -> In (e_name e) (pre_names pre).
Proof. intros H. unfold pre_names. apply in_flat_map. exists (inl e). split; [exact H|left; reflexivity]. Qed.

Lemma mult_ok_of_order ty idx cname pre :
  leaf_path T (snd ty) idx ->
  (forall nm, In nm (pre_names pre) -> nm = cname -> pair_ok T ty idx idx = true) ->
  mult_ok T ty idx cname pre.
Proof.
  intros L H mode mult HCM HSC HMU HNE e He Hn.
  pose proof (H (e_name e) (in_pre_names _ _ He) Hn) as PO.
  destruct ty as [a g]. cbn [snd] in L.
  destruct (container_mode_leaf T WF g idx L) as (cg & m & HC & HM & HK).
  change (get_sub_element_container_mode T (a, g) idx) with (get_sub_element_container_mode T (0, g) idx) in HCM.
  rewrite HK in HCM. injection HCM as <-.
  unfold pair_ok, find_common_group in PO. cbn [snd] in PO. rewrite HC, HM, ix_cmp_refl, ix_eqb_refl in PO. cbn [andb] in PO.
  unfold mult_any in PO. rewrite HMU in PO.
  destruct HSC as [-> | ->]; cbn in PO; apply N.eqb_eq in PO; congruence.
Qed.

Lemma proj_items_ok (rec : id -> option etree) w ff ty :
  (forall c t, rec c = Some t -> SVNR t /\ exists cn, w_nodes w c = Some cn /\ e_name t = n_name cn /\ e_type t = n_type cn) ->
  forall l kitems pl prev pre out,
  (forall d, In (CData d) l -> text_ok T check_fn ver ty (to_pc d)) ->
  (forall c cn, In (CElem c) l -> w_nodes w c = Some cn ->
     exists idx, find_sub_element T ty (n_name cn) ver = Val (Some (n_type cn, idx))) ->
  kept_items w ff l = Some kitems -> paths_of T ty ver kitems = Some pl -> all_pairs_ok T ty pl = true ->
  (prev = [] \/ forall x, In x pl -> pair_ok T ty prev x = true) ->
  (forall nm, In nm (pre_names pre) -> exists ix, idx_of T ty ver nm = Some ix /\ forall x, In x pl -> pair_ok T ty ix x = true) ->
  proj_items rec w ff l = Some out ->
  children_nr ty prev pre out.
Proof.
  intros Hrec. induction l as [|x l IH]; intros kitems pl prev pre out Htext Htype HK HP HO Hprev Hpre HPI.
  - cbn [proj_items] in HPI. injection HPI as <-. apply cn_nil.
  - destruct x as [c|d]; cbn [proj_items kept_items] in *.
    + destruct (w_nodes w c) as [cn|] eqn:EN; [|discriminate].
      destruct (passes ff cn).
      * destruct (rec c) as [t|] eqn:ER; [|discriminate].
        destruct (proj_items rec w ff l) as [rest|] eqn:EPI; [|discriminate]. injection HPI as <-.
        destruct (kept_items w ff l) as [ks|] eqn:EKS; [|discriminate]. cbn [option_map] in HK. injection HK as <-.
        cbn [paths_of] in HP. destruct (idx_of T ty ver (n_name cn)) as [ix|] eqn:EX; [|discriminate].
        destruct (paths_of T ty ver ks) as [pl'|] eqn:EPL; [|discriminate]. injection HP as <-.
        cbn [all_pairs_ok] in HO. apply andb_true_iff in HO as [H1 H2]. rewrite forallb_forall in H1.
        destruct (Hrec c t ER) as (HSV & cn' & EN' & Hname & Htype'). rewrite EN in EN'. injection EN' as <-.
        destruct (Htype c cn (or_introl eq_refl) EN) as (idx & EF).
        assert (idx = ix) as -> by (unfold idx_of in EX; rewrite EF in EX; congruence).
        pose proof (idx_of_leaf T _ _ _ _ EX) as Lix.
        apply cn_elem with (idx := ix).
        -- rewrite Hname, Htype'. exact EF.
        -- destruct Hprev as [->|Hprev]; [left; reflexivity|]. apply no_conflict_of_pair_ok. apply Hprev. left. reflexivity.
        -- rewrite Hname. apply mult_ok_of_order; [exact Lix|].
           intros nm Hin ->. destruct (Hpre _ Hin) as (ixn & EXn & Hall). rewrite EX in EXn. injection EXn as <-.
           apply Hall. left. reflexivity.
        -- exact HSV.
        -- apply (IH ks pl' ix (pre ++ [inl t]) rest); auto.
           ++ intros d0 Hd0. apply Htext. right. exact Hd0.
           ++ intros c0 cn0 Hc0. apply Htype. right. exact Hc0.
           ++ intros nm Hin. rewrite pre_names_app in Hin. apply in_app_or in Hin as [Hin|[<-|[]]].
              ** destruct (Hpre _ Hin) as (ixn & EXn & Hall). exists ixn. split; [exact EXn|]. intros y Hy. apply Hall. right. exact Hy.
              ** rewrite Hname. exists ix. split; [exact EX|exact H1].
      * apply (IH kitems pl prev pre out); auto.
        -- intros d0 Hd0. apply Htext. right. exact Hd0.
        -- intros c0 cn0 Hc0. apply Htype. right. exact Hc0.
    + destruct (proj_items rec w ff l) as [rest|] eqn:EPI; [|discriminate]. cbn [option_map] in HPI. injection HPI as <-.
      destruct (kept_items w ff l) as [ks|] eqn:EKS; [|discriminate]. cbn [option_map] in HK. injection HK as <-.
      cbn [paths_of] in HP.
      apply cn_text; [apply Htext; left; reflexivity|].
      apply (IH ks pl prev (pre ++ [inr (to_pc d)]) rest); auto.
      * intros d0 Hd0. apply Htext. right. exact Hd0.
      * intros c0 cn0 Hc0. apply Htype. right. exact Hc0.
      * intros nm Hin. rewrite pre_names_app in Hin. cbn in Hin. rewrite app_nil_r in Hin. apply Hpre. exact Hin.
Qed.

Lemma proj_items_in (rec : id -> option etree) w ff : forall l out c cn,
  proj_items rec w ff l = Some out -> In (CElem c) l -> w_nodes w c = Some cn -> passes ff cn = true ->
  exists t, rec c = Some t /\ In (inl t) out.
Proof.
  induction l as [|x l IH]; intros out c cn HPI Hin Hc Hp; [destruct Hin|].
  destruct x as [c0|d]; cbn [proj_items] in HPI.
  - destruct (w_nodes w c0) as [cn0|] eqn:EN; [|discriminate].
    destruct (passes ff cn0) eqn:EP.
    + destruct (rec c0) as [t0|] eqn:ER; [|discriminate]. destruct (proj_items rec w ff l) as [rest|] eqn:EPI; [|discriminate].
      injection HPI as <-. destruct Hin as [[= <-]|Hin].
      * exists t0. split; [exact ER|left; reflexivity].
      * destruct (IH rest c cn eq_refl Hin Hc Hp) as (t & E1 & E2). exists t. split; [exact E1|right; exact E2].
    + destruct Hin as [[= <-]|Hin]; [congruence|]. eapply IH; eauto.
  - destruct (proj_items rec w ff l) as [rest|] eqn:EPI; [|discriminate]. cbn [option_map] in HPI. injection HPI as <-.
    destruct Hin as [Hd|Hin]; [discriminate|]. destruct (IH rest c cn eq_refl Hin Hc Hp) as (t & E1 & E2).
    exists t. split; [exact E1|right; exact E2].
Qed.

(* the bridge: the projection of a file of an OK world is StrictValid except for missing required attributes *)
Theorem proj_svnr w ff : WorldOK w ff ->
  forall fuel i t, proj fuel w ff i = Some t ->
  SVNR t /\ exists n, w_nodes w i = Some n /\ e_name t = n_name n /\ e_type t = n_type n.
Proof.
  intros OK. induction fuel as [|f IH]; intros i t H; [discriminate|].
  cbn [proj] in H. destruct (w_nodes w i) as [n|] eqn:EN; [|discriminate].
  destruct (proj_items (proj f w ff) w ff (n_content n)) as [c|] eqn:EPI; [|discriminate].
  cbn [option_map] in H. injection H as <-.
  split; [|exists n; split; [reflexivity|split; reflexivity]].
  destruct (OK i n EN) as (Hat & Htext & (items & HI & HO) & Hty & Hsn).
  apply SVNR_node.
  - exact Hat.
  - destruct (kept_items_sub w ff _ _ HI) as (kitems & HK & SK).
    pose proof (ordered_subseq T (n_type n) ver items kitems SK HO) as HOK.
    unfold Ordered, orderedb in HOK. destruct (paths_of T (n_type n) ver kitems) as [pl|] eqn:EP; [|discriminate].
    apply (proj_items_ok (proj f w ff) w ff (n_type n) IH (n_content n) kitems pl [] [] c); auto.
    intros nm [].
  - intros Hnamed. destruct (Hsn Hnamed) as (cs & cn & Hin & Hcn & Hp & Hnm).
    destruct (proj_items_in _ _ _ _ _ _ _ EPI Hin Hcn Hp) as (ts & Hrec & Hino).
    exists ts. split; [exact Hino|]. destruct (IH _ _ Hrec) as (_ & cn' & Hcn' & Hname & _).
    rewrite Hcn in Hcn'. injection Hcn' as <-. rewrite Hname. exact Hnm.
Qed.

End Project.
