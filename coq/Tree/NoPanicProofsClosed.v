(* Tree/NoPanicProofsClosed.v — C12, layer 1b: [Closed] is kept by every primitive step (node update with a closed node,
   allocation, model update with a closed model) and by the index-map operations (IndexMap / HashMap behaviour of
   assoc_insert, assoc_swap_remove, assoc_remove, fix_identifiables, the reference-origin updates). *)
From Coq Require Import Lia.
From AV Require Import Base.Bytes Base.Outcome Hash.HashModel Spec.SpecOps Xml.TablesOk Tree.Heap Tree.Ops Tree.Script Tree.Inv.
From AV Require Import Tree.NoPanic Tree.NoPanicProofsBase Tree.NoPanicProofsOps1.
Open Scope string_scope.
Open Scope list_scope.
Open Scope N_scope.

(* ------------------------------------------------------------------ association lists: where values come from *)
Definition vals_ok {A} (P : A -> Prop) (l : list (list N * A)) : Prop := forall k a, In (k, a) l -> P a.

Lemma vals_ok_nil {A} (P : A -> Prop) : vals_ok P []. Proof. intros k a []. Qed.
Lemma vals_ok_app {A} (P : A -> Prop) l1 l2 : vals_ok P l1 -> vals_ok P l2 -> vals_ok P (l1 ++ l2).
Proof. intros H1 H2 k a IN. apply in_app_or in IN as [IN|IN]; eauto. Qed.
Lemma vals_ok_one {A} (P : A -> Prop) k a : P a -> vals_ok P [(k, a)].
Proof. intros H k0 a0 [[= <- <-]|[]]. exact H. Qed.

Lemma assoc_get_in {A} k (l : list (list N * A)) a : assoc_get k l = Some a -> exists k0, In (k0, a) l.
Proof.
  induction l as [|[k1 a1] l IH]; [discriminate|]. cbn. destruct (bytes_eqb k1 k).
  - intros [= ->]. exists k1. left. reflexivity.
  - intros H. destruct (IH H) as (k0 & IN). exists k0. right. exact IN.
Qed.
Lemma assoc_get_ok {A} (P : A -> Prop) k l a : vals_ok P l -> assoc_get k l = Some a -> P a.
Proof. intros H E. destruct (assoc_get_in _ _ _ E) as (k0 & IN). eapply H; eauto. Qed.

Lemma assoc_insert_ok {A} (P : A -> Prop) k a l : vals_ok P l -> P a -> vals_ok P (assoc_insert k a l).
Proof.
  intros H Ha. induction l as [|[k1 a1] l IH]; cbn.
  - apply vals_ok_one. exact Ha.
  - destruct (bytes_eqb k1 k).
    + intros k0 a0 [[= <- <-]|IN]; [exact Ha|]. eapply H. right. exact IN.
    + intros k0 a0 [[= <- <-]|IN]; [eapply H; left; reflexivity|].
      eapply IH; [|exact IN]. intros k2 a2 IN2. eapply H. right. exact IN2.
Qed.

Lemma assoc_remove_ok {A} (P : A -> Prop) k l : vals_ok P l -> vals_ok P (@assoc_remove A k l).
Proof. intros H k0 a0 IN. unfold assoc_remove in IN. apply filter_In in IN as [IN _]. eauto. Qed.

Lemma in_list_set {A} (l : list A) : forall k x y, In y (list_set l k x) -> y = x \/ In y l.
Proof.
  induction l as [|z l IH]; intros k x y IN; [destruct k; destruct IN|].
  destruct k; cbn in IN.
  - destruct IN as [<-|IN]; [left; reflexivity|right; right; exact IN].
  - destruct IN as [<-|IN]; [right; left; reflexivity|]. destruct (IH _ _ _ IN); [left|right; right]; assumption.
Qed.
Lemma in_removelast {A} (l : list A) y : In y (removelast l) -> In y l.
Proof.
  induction l as [|z l IH]; [intros []|]. cbn. destruct l as [|z2 l2]; [intros []|].
  intros [<-|IN]; [left; reflexivity|right; apply IH; exact IN].
Qed.
Lemma in_swap_remove {A} (l : list A) k y : In y (swap_remove_at l k) -> In y l.
Proof.
  unfold swap_remove_at. destruct (rev l) as [|lst r] eqn:ER; [intros []|].
  assert (LL : In lst l). { apply in_rev. rewrite ER. left. reflexivity. }
  destruct (Nat.eqb (S k) (List.length l)).
  - apply in_removelast.
  - intros IN. apply in_removelast in IN. apply in_list_set in IN as [->|IN]; assumption.
Qed.

Lemma assoc_swap_remove_ok {A} (P : A -> Prop) k l : vals_ok P l -> vals_ok P (@assoc_swap_remove A k l).
Proof.
  intros H. unfold assoc_swap_remove. destruct (assoc_index k l); [|exact H].
  intros k0 a0 IN. apply in_swap_remove in IN. eauto.
Qed.

Lemma fix_identifiables_fold_ok {A} (P : A -> Prop) old_path new_path keys : forall (l : list (list N * A)),
  vals_ok P l ->
  vals_ok P (fold_left (fun idents key =>
         match strip_prefix old_path key with
         | Some suffix =>
           if is_empty suffix || starts_with_slash suffix then
             match assoc_get key idents with
             | Some entry => assoc_insert (new_path ++ suffix) entry (assoc_swap_remove key idents)
             | None => idents
             end
           else idents
         | None => idents
         end) keys l).
Proof.
  induction keys as [|key keys IH]; intros l H; cbn [fold_left]; [exact H|].
  apply IH. destruct (strip_prefix old_path key) as [suffix|]; [|exact H].
  destruct (is_empty suffix || starts_with_slash suffix); [|exact H].
  destruct (assoc_get key l) as [entry|] eqn:E; [|exact H].
  apply assoc_insert_ok; [apply assoc_swap_remove_ok; exact H|]. eapply assoc_get_ok; eauto.
Qed.

Lemma remove_first_ok (P : id -> Prop) e l : Forall P l -> Forall P (remove_first e l).
Proof.
  intros H. unfold remove_first. destruct (index_of (N.eqb e) l); [|exact H].
  rewrite Forall_forall in *. intros y IN. apply in_swap_remove in IN. auto.
Qed.

Section Closed.
Variable T : tables.
Variable tab_el tab_en : nametab.
Notation node_ok := (node_ok T tab_el tab_en).
Notation Closed := (Closed T tab_el tab_en).

(* the world only grows *)
Definition ext (w w' : world) : Prop :=
  w_next w <= w_next w' /\ List.length (w_models w') = List.length (w_models w) /\
  (List.length (w_files w) <= List.length (w_files w'))%nat.
Lemma ext_refl w : ext w w. Proof. unfold ext. repeat split; lia. Qed.
Lemma ext_trans a b c : ext a b -> ext b c -> ext a c.
Proof. unfold ext. intros (A1 & A2 & A3) (B1 & B2 & B3). repeat split; [lia|congruence|lia]. Qed.

Lemma node_ok_ext w w' n : ext w w' -> node_ok w n -> node_ok w' n.
Proof.
  intros (E1 & E2 & _) (A & B & C & D & P).
  split; [exact A|]. split; [exact B|]. split; [intros c IN; specialize (C c IN); lia|]. split; [exact D|].
  destruct (n_parent n); auto; [rewrite E2; exact P|lia].
Qed.
Lemma model_ok_ext w w' x : ext w w' -> model_ok w x -> model_ok w' x.
Proof.
  intros (E1 & _) (A & C). split; [lia|].
  intros k l e IN INe. specialize (C k l e IN INe). lia.
Qed.

Lemma ext_wset w i n : ext w (wset w i n). Proof. unfold ext, wset. cbn. repeat split; lia. Qed.
Lemma ext_walloc w n : ext w (walloc w n). Proof. unfold ext, walloc. cbn. repeat split; lia. Qed.
Lemma ext_wmodel w m x : ext w (wmodel w m x).
Proof. unfold ext, wmodel. cbn. repeat split; [lia| |lia]. apply InvProofsBase.list_set_length. Qed.

Lemma Closed_wset w i n : Closed w -> i < w_next w -> node_ok w n -> Closed (wset w i n).
Proof.
  intros C L NO. constructor.
  - intros x. cbn [wset w_nodes w_next]. unfold upd. destruct (x =? i) eqn:E.
    + apply N.eqb_eq in E. subst x. split; [intros _; exact L|intros _; discriminate].
    + apply (cl_alloc _ _ _ _ C).
  - intros x nx. cbn [wset w_nodes]. unfold upd. destruct (x =? i).
    + intros [= <-]. eapply node_ok_ext; [apply ext_wset|exact NO].
    + intros E. eapply node_ok_ext; [apply ext_wset|]. eapply cl_node; eauto.
  - intros x IN. cbn [wset w_models] in IN. eapply model_ok_ext; [apply ext_wset|]. eapply cl_model; eauto.
Qed.

Lemma Closed_walloc w n : Closed w -> node_ok (walloc w n) n -> Closed (walloc w n).
Proof.
  intros C NO. constructor.
  - intros x. cbn [walloc w_nodes w_next]. unfold upd. destruct (x =? w_next w) eqn:E.
    + apply N.eqb_eq in E. subst x. split; [intros _; lia|intros _; discriminate].
    + apply N.eqb_neq in E. rewrite (cl_alloc _ _ _ _ C x). lia.
  - intros x nx. cbn [walloc w_nodes]. unfold upd. destruct (x =? w_next w).
    + intros [= <-]. exact NO.
    + intros E. eapply node_ok_ext; [apply ext_walloc|]. eapply cl_node; eauto.
  - intros x IN. cbn [walloc w_models] in IN. eapply model_ok_ext; [apply ext_walloc|]. eapply cl_model; eauto.
Qed.

Lemma Closed_wmodel w m x : Closed w -> model_ok w x -> Closed (wmodel w m x).
Proof.
  intros C MO. constructor.
  - intros i. cbn [wmodel w_nodes w_next]. apply (cl_alloc _ _ _ _ C).
  - intros i n E. cbn [wmodel w_nodes] in E. eapply node_ok_ext; [apply ext_wmodel|]. eapply cl_node; eauto.
  - intros y IN. cbn [wmodel w_models] in IN. apply in_list_set in IN as [->|IN].
    + eapply model_ok_ext; [apply ext_wmodel|exact MO].
    + eapply model_ok_ext; [apply ext_wmodel|]. eapply cl_model; eauto.
Qed.

(* model_ok in terms of vals_ok *)
Lemma model_ok_iff w x : model_ok w x <->
  m_root x < w_next w /\ vals_ok (fun l => Forall (fun e => e < w_next w) l) (m_origins x).
Proof.
  unfold model_ok, vals_ok. split; intros (A & C); (split; [exact A|]).
  - intros k l IN. rewrite Forall_forall. intros e INe. eapply C; eauto.
  - intros k l e IN INe. specialize (C k l IN). rewrite Forall_forall in C. auto.
Qed.

End Closed.
