(* Tree/InvProofsLoadRej.v — C03: Core after a REJECTED load (InvalidFileMerge): the merge stops somewhere (the merge
   invariant holds at every exit, Tree/InvProofsLoadMerge.merge_any), the rollback Element::remove_from_file runs on the
   root of the model and never looks at the dropped incoming elements (Tree/InvProofsLoadSim.v), reachable nodes stay
   reachable or lose their sub-elements (Tree/InvProofsLoadRoll.v), the universal effect bound of agent-c09
   (Tree/LoadResidue.v: RemEff) gives the frame; then what is not reachable from the root is dropped. *)
From Coq Require Import PeanoNat Arith Lia.
From AV Require Import Base.Bytes Base.Outcome Hash.HashModel Tree.Heap Tree.Ops Tree.Script Tree.Inv
  Tree.InvProofsBase Tree.InvProofsCore Tree.InvProofsTree Tree.InvProofsPrim Tree.InvProofsRemove Tree.InvProofsFiles
  Tree.InvProofsNav Tree.Load Tree.InvLoad Tree.InvProofsLoadBase Tree.InvProofsLoadWalk Tree.InvProofsLoadMerge
  Tree.InvProofsLoad Tree.InvProofsLoadSim Tree.InvProofsLoadRoll.
From AV Require Xml.Parser Tree.LoadProofs Tree.LoadResidue.
Open Scope string_scope.
Open Scope list_scope.
Open Scope N_scope.

Lemma contentrem_elems a b : LoadResidue.ContentRem a b -> forall c, In c (elems b) -> In c (elems a).
Proof.
  induction 1 as [c0|c0 k c' H IH|c0 c' H IH]; intros c Hc; auto.
  - eapply elems_remove_incl. apply IH. exact Hc.
  - apply IH in Hc. destruct Hc.
Qed.

Lemma forall2_roots l l' : Forall2 LoadResidue.ModelRem l l' -> map m_root l' = map m_root l.
Proof. induction 1 as [|x x' l l' Hx _ IH]; cbn; auto. rewrite IH. f_equal. apply Hx. Qed.

Lemma RemEff_facts f w w' : LoadResidue.RemEff f w w' ->
  w_next w' = w_next w /\ roots w' = roots w /\
  (forall i, allocated w' i <-> allocated w i) /\
  (forall p c, lists w' p c -> lists w p c) /\
  (forall c p, par w' c p -> par w c p).
Proof.
  intros (Hn & _ & Hm & Hj). split; auto. split; [apply forall2_roots; exact Hm|]. split; [|split].
  - intros i. specialize (Hj i). unfold allocated. destruct (w_nodes w i), (w_nodes w' i); try contradiction;
      split; intros (nz & Ez); try discriminate; eauto.
  - intros p c (n' & Hn' & Hc). specialize (Hj p). rewrite Hn' in Hj. destruct (w_nodes w p) as [n|] eqn:E; [|contradiction].
    exists n. split; auto. eapply contentrem_elems; [apply Hj|exact Hc].
  - intros c p (n' & Hn' & Hp). specialize (Hj c). rewrite Hn' in Hj. destruct (w_nodes w c) as [n|] eqn:E; [|contradiction].
    exists n. split; auto. destruct (LoadResidue.nr_parent _ _ _ Hj) as [E1|E1]; congruence.
Qed.

Section Rej.
Variable T : tables.
Variable LATEST name_definition_ref : N.

(* after a failed merge: rollback, then the kill *)
Lemma rollback_kill_core base rt re w1 D Imp wm fid rr wr fuel keep wq rk wk :
  rt < base -> (exists k, nth_error (roots w1) k = Some rt) ->
  MI base rt re w1 D Imp wm ->
  (forall k r0, nth_error (roots w1) k = Some r0 -> r0 < base) ->
  wtry (e_remove_from_file T rt fid) wm = Val (rr, wr) ->
  dfs_ids fuel rt wr = Val (OK keep, wq) -> kill_unreachable base keep wr = Val (rk, wk) -> Core wk.
Proof.
  intros Hr Hroot M Hroots Hrb Hd Hk.
  apply wtry_inv in Hrb as (r0 & Hrb & _).
  set (G := fun x => Reach wm rt x).
  assert (HGD : forall i, G i -> ~ In i D) by (intros i Hi; eapply MI_reach_good; eauto).
  assert (GCm : GC G wm).
  { intros i n Hi Hn. split.
    - intros p Hp. unfold G. eapply (MI_reach_up base rt re w1 Hr Hroot); [exact M| |exact Hi].
      eapply A_up; [exists n; eauto|constructor].
    - intros c Hc. unfold G. econstructor; [exact Hi|]. exists n. auto. }
  assert (Grt : G rt) by (constructor; eapply MI_root_alloc; eauto).
  destruct (sim_e_remove_from_file D G HGD T rt fid Grt wm (mask D wm) _ _ (agr_mask D wm) GCm Hrb)
    as (w2' & Hrun2 & Agr & _ & _).
  pose proof (mi_core _ _ _ _ _ _ _ M) as Cm.
  pose proof (proj1 (Pres_e_remove_from_file T rt fid _ _ _ Hrun2 Cm)) as C2'.
  pose proof (RSp_e_remove_from_file T rt rt fid _ _ _ Cm Hrun2) as (RS1 & RS2 & RS3).
  pose proof (RemEff_facts _ _ _ (LoadResidue.rem_e_remove_from_file T fid rt _ _ _ Hrb)) as (Rn & Rr & Ral & Rl & Rp).
  destruct Agr as (An & Af & Am & Aj).
  assert (Cr : Core (mask D wr)).
  { eapply Core_same_tree; [|exact C2']. split; [cbn; rewrite An; reflexivity|]. split.
    - unfold roots. cbn [w_models mask]. rewrite Am. reflexivity.
    - intros i. unfold skel. cbn [w_nodes mask]. rewrite Aj. reflexivity. }
  pose proof (dfs_ids_keep _ _ _ _ _ Hd) as Hkeep.
  assert (Hreach_back : forall x, Reach wr rt x -> Reach wm rt x).
  { apply reach_mono; [intros i; apply Ral|exact Rl]. }
  eapply (core_kill D base keep wr); [exact Cr| | | |exact Hk].
  - intros k r1 Hk1. apply killedb_old. rewrite Rr, (mi_roots _ _ _ _ _ _ _ M) in Hk1. eauto.
  - intros d Hd0 Ha. apply killedb_true. destruct (mi_dup _ _ _ _ _ _ _ M _ Hd0) as (Hb & _). split; auto. split.
    + rewrite Rn. apply (MI_alloc _ _ _ _ _ _ _ _ M). apply Ral. exact Ha.
    + intros Hin. apply Hkeep in Hin. apply Hreach_back in Hin. eapply MI_reach_good; eauto.
  - intros p c Kp Hl. destruct (killedb_false _ _ _ _ Kp) as [Hp|[Hp|Hp]].
    + destruct (N.lt_ge_cases c base) as [|Hc]; [apply killedb_old; auto|].
      assert (HpD : ~ In p D). { intros Hin. apply (mi_dup _ _ _ _ _ _ _ M) in Hin as (? & _). lia. }
      assert (Hpar : par wr c p).
      { apply (par_mask D). apply (c_up _ Cr). apply lists_mask. split; auto. apply inb_notin. auto. }
      apply Rp in Hpar. destruct (mi_hang _ _ _ _ _ _ _ M _ _ Hc Hpar) as [|Hre]; [lia|].
      (* p was reachable before the rollback *)
      assert (Hre_m : Reach (mask D wm) rt p).
      { clear - Hre M Hr. induction Hre as [Ha|q x Hrq IH Hlx].
        - constructor. apply alloc_mask. exact Ha.
        - econstructor; [exact IH|]. apply lists_mask. split; auto. apply inb_notin. eapply MI_reach_good; eauto. }
      destruct (RS1 _ Hre_m) as [Hre2|Hk2].
      * apply killedb_kept. apply Hkeep.
        assert (Reach wr rt p).
        { clear - Hre2 Aj Ral. induction Hre2 as [Ha|q x Hrq IH Hlx].
          - constructor. destruct Ha as (n & Hn). rewrite Aj in Hn.
            destruct (inb rt D); [destruct (w_nodes wr rt) eqn:Ert; [eexists; exact Ert|discriminate]|eexists; eauto].
          - econstructor; [exact IH|]. destruct Hlx as (n & Hn & Hc). rewrite Aj in Hn. destruct (inb q D).
            + destruct (w_nodes wr q) as [nq|]; [|discriminate]. cbn in Hn. injection Hn as <-.
              rewrite kids_strip in Hc. destruct Hc.
            + exists n. auto. }
        econstructor; eauto.
      * exfalso. unfold kids_of in Hk2. rewrite Aj in Hk2. apply inb_notin in HpD. rewrite HpD in Hk2.
        destruct Hl as (n & Hn & Hcc). rewrite Hn in Hk2. unfold kids in *. rewrite Hk2 in Hcc. destruct Hcc.
    + exfalso. destruct Hl as (n & Hn & _). assert (allocated wr p) as Ha by (eexists; eauto).
      apply Ral in Ha. apply (MI_alloc _ _ _ _ _ _ _ _ M) in Ha. lia.
    + apply killedb_kept. apply Hkeep. apply Hkeep in Hp. econstructor; eauto.
Qed.

End Rej.
