(* Tree/InvProofsLoadRej.v — C03: Core after a REJECTED load (InvalidFileMerge): the merge stops somewhere (the merge
   invariant holds at every exit, Tree/InvProofsLoadMerge.merge_any), the rollback Element::remove_from_file runs on the
   root of the model and never looks at the dropped incoming elements (Tree/InvProofsLoadSim.v), reachable nodes stay
   reachable or lose their sub-elements (Tree/InvProofsLoadRoll.v), the universal effect bound of agent-c09
   (Tree/LoadResidue.v: RemEff) gives the frame; then what is not reachable from the root is dropped. *)
From Coq Require Import PeanoNat Arith Lia.
From AV Require Import Base.Bytes Base.Outcome Hash.HashModel Tree.Heap Tree.Ops Tree.Script Tree.Inv
  Tree.InvProofsBase Tree.InvProofsCore Tree.InvProofsTree Tree.InvProofsPrim Tree.InvProofsRemove Tree.InvProofsFiles
  Tree.InvProofsNav Tree.Load Tree.InvLoad Tree.InvProofsLoadBase Tree.InvProofsLoadWalk Tree.InvProofsLoadMerge
  Tree.InvProofsLoad Tree.InvProofsLoadSim Tree.InvProofsLoadRoll Tree.InvProofsLoadLive.
From AV Require Import Tree.InvProofsFrame Tree.InvProofsChars Tree.InvProofsChars2 Tree.InvProofsOrigins Tree.InvProofsOrigins3 Tree.InvEBase.
From AV Require Xml.Parser Tree.LoadProofs Tree.LoadResidue Tree.LoadEffects.
Open Scope string_scope.
Open Scope list_scope.
Open Scope N_scope.

Lemma contentrem_elems a b : LoadResidue.ContentRem a b -> forall c, In c (elems b) -> In c (elems a).
Proof.
  induction 1 as [c0|c0 k c' H IH|c0 c' H IH]; intros c Hc; auto.
  - eapply elems_remove_incl. apply IH. exact Hc.
  - apply IH in Hc. destruct Hc.
Qed.

Lemma forall2_roots l l' : Forall2 LoadResidue.ModelRem l l' -> map m_root l' = map m_root l.
Proof. induction 1 as [|x x' l l' Hx _ IH]; cbn; auto. rewrite IH. f_equal. apply Hx. Qed.

Lemma RemEff_facts f w w' : LoadResidue.RemEff f w w' ->
  w_next w' = w_next w /\ roots w' = roots w /\
  (forall i, allocated w' i <-> allocated w i) /\
  (forall p c, lists w' p c -> lists w p c) /\
  (forall c p, par w' c p -> par w c p).
Proof.
  intros (Hn & _ & Hm & Hj). split; auto. split; [apply forall2_roots; exact Hm|]. split; [|split].
  - intros i. specialize (Hj i). unfold allocated. destruct (w_nodes w i), (w_nodes w' i); try contradiction;
      split; intros (nz & Ez); try discriminate; eauto.
  - intros p c (n' & Hn' & Hc). specialize (Hj p). rewrite Hn' in Hj. destruct (w_nodes w p) as [n|] eqn:E; [|contradiction].
    exists n. split; auto. eapply contentrem_elems; [apply Hj|exact Hc].
  - intros c p (n' & Hn' & Hp). specialize (Hj c). rewrite Hn' in Hj. destruct (w_nodes w c) as [n|] eqn:E; [|contradiction].
    exists n. split; auto. destruct (LoadResidue.nr_parent _ _ _ Hj) as [E1|E1]; congruence.
Qed.

Section Rej.
Variable T : tables.
Variable LATEST name_definition_ref : N.

(* after a failed merge: rollback, then the kill *)
Lemma rollback_kill_core base rt re w1 D Imp wm fid rr wr fuel keep wq rk wk :
  rt < base -> (exists k, nth_error (roots w1) k = Some rt) ->
  MI base rt re w1 D Imp wm ->
  (forall k r0, nth_error (roots w1) k = Some r0 -> r0 < base) ->
  wtry (e_remove_from_file T rt fid) wm = Val (rr, wr) ->
  dfs_ids fuel rt wr = Val (OK keep, wq) -> kill_unreachable base keep wr = Val (rk, wk) -> Core wk.
Proof.
  intros Hr Hroot M Hroots Hrb Hd Hk.
  apply wtry_inv in Hrb as (r0 & Hrb & _).
  set (G := fun x => Reach wm rt x).
  assert (HGD : forall i, G i -> ~ In i D) by (intros i Hi; eapply MI_reach_good; eauto).
  assert (GCm : GC G wm).
  { intros i n Hi Hn. split.
    - intros p Hp. unfold G. eapply (MI_reach_up base rt re w1 Hr Hroot); [exact M| |exact Hi].
      eapply A_up; [exists n; eauto|constructor].
    - intros c Hc. unfold G. econstructor; [exact Hi|]. exists n. auto. }
  assert (Grt : G rt) by (constructor; eapply MI_root_alloc; eauto).
  destruct (sim_e_remove_from_file D G HGD T rt fid Grt wm (mask D wm) _ _ (agr_mask D wm) GCm Hrb)
    as (w2' & Hrun2 & Agr & _ & _).
  pose proof (mi_core _ _ _ _ _ _ _ M) as Cm.
  pose proof (proj1 (Pres_e_remove_from_file T rt fid _ _ _ Hrun2 Cm)) as C2'.
  pose proof (RSp_e_remove_from_file T rt rt fid _ _ _ Cm Hrun2) as (RS1 & RS2 & RS3).
  pose proof (RemEff_facts _ _ _ (LoadResidue.rem_e_remove_from_file T fid rt _ _ _ Hrb)) as (Rn & Rr & Ral & Rl & Rp).
  destruct Agr as (An & Af & Am & Aj).
  assert (Cr : Core (mask D wr)).
  { eapply Core_same_tree; [|exact C2']. split; [cbn; rewrite An; reflexivity|]. split.
    - unfold roots. cbn [w_models mask]. rewrite Am. reflexivity.
    - intros i. unfold skel. cbn [w_nodes mask]. rewrite Aj. reflexivity. }
  pose proof (dfs_ids_keep _ _ _ _ _ Hd) as Hkeep.
  assert (Hreach_back : forall x, Reach wr rt x -> Reach wm rt x).
  { apply reach_mono; [intros i; apply Ral|exact Rl]. }
  eapply (core_kill D base keep wr); [exact Cr| | | |exact Hk].
  - intros k r1 Hk1. apply killedb_old. rewrite Rr, (mi_roots _ _ _ _ _ _ _ M) in Hk1. eauto.
  - intros d Hd0 Ha. apply killedb_true. destruct (mi_dup _ _ _ _ _ _ _ M _ Hd0) as (Hb & _). split; auto. split.
    + rewrite Rn. apply (MI_alloc _ _ _ _ _ _ _ _ M). apply Ral. exact Ha.
    + intros Hin. apply Hkeep in Hin. apply Hreach_back in Hin. eapply MI_reach_good; eauto.
  - intros p c Kp Hl. destruct (killedb_false _ _ _ _ Kp) as [Hp|[Hp|Hp]].
    + destruct (N.lt_ge_cases c base) as [|Hc]; [apply killedb_old; auto|].
      assert (HpD : ~ In p D). { intros Hin. apply (mi_dup _ _ _ _ _ _ _ M) in Hin as (? & _). lia. }
      assert (Hpar : par wr c p).
      { apply (par_mask D). apply (c_up _ Cr). apply lists_mask. split; auto. apply inb_notin. auto. }
      apply Rp in Hpar. destruct (mi_hang _ _ _ _ _ _ _ M _ _ Hc Hpar) as [|Hre]; [lia|].
      (* p was reachable before the rollback *)
      assert (Hre_m : Reach (mask D wm) rt p).
      { clear - Hre M Hr. induction Hre as [Ha|q x Hrq IH Hlx].
        - constructor. apply alloc_mask. exact Ha.
        - econstructor; [exact IH|]. apply lists_mask. split; auto. apply inb_notin. eapply MI_reach_good; eauto. }
      destruct (RS1 _ Hre_m) as [Hre2|Hk2].
      * apply killedb_kept. apply Hkeep.
        assert (Reach wr rt p).
        { clear - Hre2 Aj Ral. induction Hre2 as [Ha|q x Hrq IH Hlx].
          - constructor. destruct Ha as (n & Hn). rewrite Aj in Hn.
            destruct (inb rt D); [destruct (w_nodes wr rt) eqn:Ert; [eexists; exact Ert|discriminate]|eexists; eauto].
          - econstructor; [exact IH|]. destruct Hlx as (n & Hn & Hc). rewrite Aj in Hn. destruct (inb q D).
            + destruct (w_nodes wr q) as [nq|]; [|discriminate]. cbn in Hn. injection Hn as <-.
              rewrite kids_strip in Hc. destruct Hc.
            + exists n. auto. }
        econstructor; eauto.
      * exfalso. unfold kids_of in Hk2. rewrite Aj in Hk2. apply inb_notin in HpD. rewrite HpD in Hk2.
        destruct Hl as (n & Hn & Hcc). rewrite Hn in Hk2. unfold kids in *. rewrite Hk2 in Hcc. destruct Hcc.
    + exfalso. destruct Hl as (n & Hn & _). assert (allocated wr p) as Ha by (eexists; eauto).
      apply Ral in Ha. apply (MI_alloc _ _ _ _ _ _ _ _ M) in Ha. lia.
    + apply killedb_kept. apply Hkeep. apply Hkeep in Hp. econstructor; eauto.
Qed.


Lemma contenteff_elems a b : LoadEffects.ContentEff a b -> forall c, In c (elems a) -> In c (elems b).
Proof.
  induction 1 as [c0|c0 k x c' H IH]; intros c Hc; auto. apply IH. apply elems_insert_in. right. exact Hc.
Qed.
Lemma WorldEff_lists nf w w' : LoadEffects.WorldEff nf w w' -> forall p c, lists w p c -> lists w' p c.
Proof.
  intros (_ & _ & _ & Hj) p c (n & Hn & Hc). specialize (Hj p). rewrite Hn in Hj.
  destruct (w_nodes w' p) as [n'|] eqn:E'; [|contradiction]. exists n'. split; [exact E'|].
  unfold kids in *. eapply contenteff_elems; [apply Hj|exact Hc].
Qed.

(* the three other invariants after rollback and kill *)
Lemma rollback_kill_real base rt re w1 D Imp wm fid rr wr fuel keep wq rk wk :
  Core w1 -> rt < base -> (exists k, nth_error (roots w1) k = Some rt) ->
  MI base rt re w1 D Imp wm ->
  (forall k r0, nth_error (roots w1) k = Some r0 -> r0 < base) ->
  (forall c p, c < base -> par w1 c p -> p < base) ->
  (forall c p, c < base -> par wm c p -> lists wm p c) ->
  CharsLeaf T wm -> OriginsRef T wm ->
  wtry (e_remove_from_file T rt fid) wm = Val (rr, wr) ->
  dfs_ids fuel rt wr = Val (OK keep, wq) -> kill_unreachable base keep wr = Val (rk, wk) ->
  NoOrphanP wk /\ CharsLeaf T wk /\ OriginsRef T wk.
Proof.
  intros Cw1 Hr Hroot M Hroots Hold_up HoldO CLm ORm Hrb Hd Hk.
  assert (CLr : CharsLeaf T wr).
  { eapply CharsLeaf_frame; [|exact CLm]. eapply (frp_try _ _ _ (cfp_e_remove_from_file T rt fid)); eauto. }
  assert (ORr : OriginsRef T wr).
  { eapply OriginsRef_orel; [eapply (frp_try _ _ _ (cfp_e_remove_from_file T rt fid)); eauto| |exact ORm].
    apply orel_osub. eapply (osp_try _ (osp_e_remove_from_file T rt fid)); eauto. }
  destruct (kill_tkeep _ _ _ _ _ Hk) as (TKk & Hmk).
  split; [|split; [eapply kill_chars; eauto|eapply OriginsRef_keep; [apply osub_models; exact Hmk|exact TKk|exact ORr]]].
  apply wtry_inv in Hrb as (r0 & Hrb & _).
  set (G := fun x => Reach wm rt x).
  assert (HGD : forall i, G i -> ~ In i D) by (intros i Hi; eapply MI_reach_good; eauto).
  assert (GCm : GC G wm).
  { intros i n Hi Hn. split.
    - intros p Hp. unfold G. eapply (MI_reach_up base rt re w1 Hr Hroot); [exact M| |exact Hi].
      eapply A_up; [exists n; eauto|constructor].
    - intros c Hc. unfold G. econstructor; [exact Hi|]. exists n. auto. }
  assert (Grt : G rt) by (constructor; eapply MI_root_alloc; eauto).
  destruct (sim_e_remove_from_file D G HGD T rt fid Grt wm (mask D wm) _ _ (agr_mask D wm) GCm Hrb)
    as (w2' & Hrun2 & Agr & _ & _).
  pose proof (mi_core _ _ _ _ _ _ _ M) as Cm.
  pose proof (proj1 (Pres_e_remove_from_file T rt fid _ _ _ Hrun2 Cm)) as C2'.
  pose proof (RSp_e_remove_from_file T rt rt fid _ _ _ Cm Hrun2) as (_ & _ & _ & RS4).
  pose proof (RemEff_facts _ _ _ (LoadResidue.rem_e_remove_from_file T fid rt _ _ _ Hrb)) as (Rn & Rr & Ral & Rl & Rp).
  destruct Agr as (An & Af & Am & Aj).
  assert (Smask : same_tree w2' (mask D wr)).
  { split; [cbn; rewrite An; reflexivity|]. split.
    - unfold roots. cbn [w_models mask]. rewrite Am. reflexivity.
    - intros i. unfold skel. cbn [w_nodes mask]. rewrite Aj. reflexivity. }
  assert (Cr : Core (mask D wr)) by (eapply Core_same_tree; [exact Smask|exact C2']).
  assert (Oldp : forall c p, c < base -> par wm c p -> p < base).
  { intros c p Hc Hp. eapply Hold_up; [exact Hc|]. apply par_parent_in. apply par_parent_in in Hp as (Ha & Hpp). split.
    - apply (c_alloc _ Cw1). rewrite <- (mi_next _ _ _ _ _ _ _ M). apply (MI_alloc _ _ _ _ _ _ _ _ M). exact Ha.
    - rewrite <- (mi_par _ _ _ _ _ _ _ M); [exact Hpp|]. intros Hin. apply (mi_imp _ _ _ _ _ _ _ M) in Hin as (Hb & _). lia. }
  assert (Om : OrphE (mask D wm) (fun y => base <= y)).
  { intros c p Hp0. pose proof (proj1 (par_mask D wm c p) Hp0) as Hp. destruct (N.lt_ge_cases c base) as [Hc|Hc]; [|right; exact Hc].
    left. apply lists_mask. split; [apply HoldO; [exact Hc|exact Hp]|]. apply inb_notin. intros Hin.
    apply (mi_dup _ _ _ _ _ _ _ M) in Hin as (Hb & _). pose proof (Oldp _ _ Hc Hp). lia. }
  assert (Or : OrphE (mask D wr) (fun y => base <= y)) by (eapply OrphE_same_tree; [exact Smask|apply RS4; exact Om]).
  pose proof (dfs_ids_keep _ _ _ _ _ Hd) as Hkeep.
  assert (Hreach_back : forall x, Reach wr rt x -> Reach wm rt x).
  { apply reach_mono; [intros i; apply Ral|exact Rl]. }
  pose proof (kill_spec _ _ _ _ _ Hk) as (_ & _ & _ & _ & Hkn).
  intros c p (nc & Hnc & Hpc). rewrite Hkn in Hnc.
  destruct (killedb base keep wr c) eqn:Kc.
  { destruct (w_nodes wr c); [|discriminate]. cbn in Hnc. injection Hnc as <-. discriminate Hpc. }
  assert (Hp0 : par wr c p) by (exists nc; auto).
  assert (Fin : lists wr p c /\ killedb base keep wr p = false).
  { destruct (killedb_false _ _ _ _ Kc) as [Hc|[Hc|Hc]].
    - destruct (Or c p) as [Hl|Hb]; [apply par_mask; exact Hp0| |lia].
      apply lists_mask in Hl as (Hl & _). split; auto. apply killedb_old. eapply Oldp; [exact Hc|]. apply Rp. exact Hp0.
    - exfalso. assert (allocated wr c) as Ha by (eexists; eauto). apply Ral in Ha.
      apply (MI_alloc _ _ _ _ _ _ _ _ M) in Ha. lia.
    - apply Hkeep in Hc. destruct Hc as [Ha|q c Hrq Hlc].
      + exfalso. destruct Hroot as (k & Hk0). rewrite <- (mi_roots _ _ _ _ _ _ _ M), <- Rr, <- (roots_mask D) in Hk0.
        destruct (c_roots _ Cr _ _ Hk0) as (n0 & Hn0 & Hpm). apply (par_mask D) in Hp0. destruct Hp0 as (n1 & Hn1 & Hp1). congruence.
      + assert (HqD : ~ In q D) by (eapply (MI_reach_good base rt re w1 Hr); [exact M|apply Hreach_back; exact Hrq]).
        assert (Hpq : par wr c q).
        { apply (par_mask D). apply (c_up _ Cr). apply lists_mask. split; auto. apply inb_notin. auto. }
        rewrite (par_fun _ _ _ _ Hp0 Hpq). split; auto. apply killedb_kept. apply Hkeep. exact Hrq. }
  destruct Fin as ((np & Hnp & Hin) & Kp). exists np. split; auto. rewrite Hkn, Kp. exact Hnp.
Qed.

(* ---------- load_parsed, every result ---------- *)
Lemma load_parsed_core_full m filename root st w r w' :
  Core w ->
  (forall t w1 x, install PNone root w = Val (OK t, w1) ->
     let w2 := mkWorld (w_nodes w1) (w_next w1)
                       (w_files w1 ++ [mkFile m filename (Parser.p_version st) (Parser.p_standalone st)]) (w_models w1) in
     nth_opt (w_models w2) (N.to_nat m) = Some x -> is_empty (m_files x) = false ->
     merge_shared T LATEST name_definition_ref (fuel_of w2) (m_root x) (fold_right set_add [] (m_files x)) (it_id t)
                  (N.of_nat (List.length (w_files w))) w2 = false) ->
  load_parsed T LATEST name_definition_ref m filename root st w = Val (r, w') -> Core w'.
Proof.
  intros C Hshared H. pose proof H as H0. unfold load_parsed in H.
  bstep H w0 wx E0; [|apply wget_inv in E0 as ([=] & _)]. apply wget_inv in E0 as ([= ->] & ->).
  bstep H t w1 E1.
  2:{ destruct (install_core _ _ _ _ _ C (or_introl eq_refl) E1) as (t' & [=] & _). }
  destruct (install_core _ _ _ _ _ C (or_introl eq_refl) E1) as (t' & [= <-] & Eid & C1 & L1 & R1 & F1 & (nr & Hnr & Pnr) & Cl1).
  pose proof (Hshared t w1) as Hsh.
  set (base := w_next w) in *. set (re := it_id t) in *.
  bstep H w1' wx E2; [|apply wget_inv in E2 as ([=] & _)]. apply wget_inv in E2 as ([= ->] & ->).
  bstep H x0 wx E3; [|apply get_model_inv in E3 as (? & _ & [=] & _)]. apply get_model_inv in E3 as (x0' & Hx0 & [= ->] & ->).
  bstep H ov wx E4; [|apply wl_inv in E4 as (? & _ & [=] & _)]. apply wl_inv in E4 as (ov' & _ & [= ->] & ->).
  assert (Hroots_old : forall k r0, nth_error (roots w1) k = Some r0 -> r0 < base).
  { intros k r0 Hk. rewrite R1 in Hk. destruct (c_roots _ C _ _ Hk) as (n & Hn & _). apply C. eexists; eauto. }
  destruct ov'.
  { (* overlap *)
    bstep H u wk Ek; [|apply kill_spec in Ek as ([=] & _)].
    apply wfail_inv in H as (-> & _).
    apply (load_parsed_core T LATEST name_definition_ref m filename root st w (ER OverlappingDataError) w' C Hshared); [discriminate|exact H0]. }
  bstep H u w2 E5; [|apply wput_inv in E5 as ([=] & _)]. apply wput_inv in E5 as (_ & ->).
  set (w2 := mkWorld _ _ _ _) in *.
  assert (S12 : same_tree w1 w2) by (apply st_models; reflexivity).
  pose proof (Core_same_tree _ _ S12 C1) as C2.
  bstep H x wx E6; [|apply get_model_inv in E6 as (? & _ & [=] & _)]. apply get_model_inv in E6 as (x' & Hx & [= ->] & ->).
  bstep H rb w3 E7; [|apply wcatch_inv in E7 as (? & _ & [=])]. apply wcatch_inv in E7 as (rb' & E7 & [= ->]).
  bstep H x3 wx E8; [|apply get_model_inv in E8 as (? & _ & [=] & _)]. apply get_model_inv in E8 as (x3' & Hx3 & [= ->] & ->).
  bstep H w3' wx E9; [|apply wget_inv in E9 as ([=] & _)]. apply wget_inv in E9 as ([= ->] & ->).
  bstep H keep wq E10; [|exfalso; exact (LoadProofs.errs_dfs_ids (fun _ => False) _ _ _ _ _ E10)].
  pose proof (ro_dfs_ids _ _ _ _ _ E10) as ->.
  bstep H u2 wk E11; [|apply kill_spec in E11 as ([=] & _)].
  destruct rb' as [ub|eb].
  { apply wret_inv in H as (-> & _).
    apply (load_parsed_core T LATEST name_definition_ref m filename root st w (OK (N.of_nat (List.length (w_files w)))) w' C Hshared); [discriminate|exact H0]. }
  (* the stage failed *)
  apply wbind_inv in H as [(u3 & w5 & E12 & H) | (ee1 & E12 & _)]; [|discriminate E12].
  apply wfail_inv in H as (_ & ->).
  destruct (drop_file_keep T _ _ _ _ E12) as (Sdrop & _).
  eapply Core_same_tree; [exact Sdrop|]. clear H0 E12 Sdrop.
  (* where the error comes from *)
  apply wbind_inv in E7 as [(ua & wa & Ea & Etail) | (ee2 & Ea & _)].
  { exfalso. apply wbind_inv in Etail as [(ui & wi & Ei & Etail) | (ee3 & Ei & _)].
    2:{ exact (LoadProofs.errs_fill_identifiables (fun _ => False) _ _ _ _ _ _ Ei). }
    apply wbind_inv in Etail as [(ur & wr & Er & Etail) | (ee4 & Er & _)].
    2:{ exact (LoadProofs.errs_fill_references (fun _ => False) _ _ _ _ _ _ Er). }
    apply modify_model_inv in Etail as (? & _ & [=] & _). }
  destruct (is_empty (m_files x')) eqn:Efirst.
  { exfalso. apply wbind_inv in Ea as [(u5 & w6 & A1 & Ea) | (ee5 & A1 & _)]; [|apply modify_node_wset in A1 as (? & _ & [=] & _)].
    apply wbind_inv in Ea as [(u6 & w7 & A2 & Ea) | (ee6 & A2 & _)]; [|apply modify_node_wset in A2 as (? & _ & [=] & _)].
    apply modify_model_inv in Ea as (? & _ & [=] & _). }
  apply wbind_inv in Ea as [(mr & wb & Em & Ea) | (ee7 & Em & _)]; [|apply wcatch_inv in Em as (? & _ & [=])].
  apply wcatch_inv in Em as (mr' & Em & [= ->]).
  destruct mr' as [um|em]; [apply wret_inv in Ea as ([=] & _)|].
  apply wbind_inv in Ea as [(x1 & w6 & Ex1 & Ea) | (ee8 & Ex1 & _)]; [|apply get_model_inv in Ex1 as (? & _ & [=] & _)].
  apply get_model_inv in Ex1 as (x1' & Hx1 & [= ->] & ->).
  apply wbind_inv in Ea as [(urb & wr & Erb & Ea) | (ee9 & Erb & _)]; [|apply wtry_inv in Erb as (? & _ & [=])].
  apply wfail_inv in Ea as (_ & ->).
  (* the merge stopped somewhere: the invariant holds there *)
  unfold merge_file_data in Em.
  apply wbind_inv in Em as [(xm & wm0 & Em1 & Em) | (ee10 & Em1 & _)]; [|apply get_model_inv in Em1 as (? & _ & [=] & _)].
  apply get_model_inv in Em1 as (xm' & Hxm & [= ->] & ->).
  rewrite Hx in Hxm. injection Hxm as <-.
  apply wbind_inv in Em as [(wg & wm0 & Em2 & Em) | (ee11 & Em2 & _)]; [|apply wget_inv in Em2 as ([=] & _)].
  apply wget_inv in Em2 as ([= ->] & ->).
  assert (Eme : exists rme, merge_element T LATEST name_definition_ref (fuel_of w2) (m_root x')
                   (fold_right set_add [] (m_files x')) re (N.of_nat (List.length (w_files w))) w2 = Val (rme, wb)).
  { apply wbind_inv in Em as [(ue & we & Eme & Em) | (ee12 & Eme & _)]; [|eauto]. exfalso.
    apply wbind_inv in Em as [(x2 & wm0 & Em3 & Em) | (ee13 & Em3 & _)]; [|apply get_model_inv in Em3 as (? & _ & [=] & _)].
    apply modify_node_wset in Em as (? & _ & [=] & _). }
  destruct Eme as (rme & Eme).
  set (rt := m_root x').
  assert (Hr_root : nth_error (roots w2) (N.to_nat m) = Some rt) by (apply nth_opt_roots; exact Hx).
  assert (Hr_old : rt < base) by (eapply Hroots_old; rewrite <- Hr_root; reflexivity).
  assert (Hold_up : forall c p, c < base -> par w2 c p -> p < base).
  { intros c p Hc Hp. apply (proj1 (st_par _ _ _ _ S12)) in Hp.
    assert (Hp0 : par w c p). { destruct Hp as (n & Hn & Hpp). rewrite F1 in Hn by auto. exists n. auto. }
    apply par_alloc in Hp0; auto. apply C. auto. }
  assert (Hrb : parent_in w2 re = PNone).
  { unfold parent_in. cbn [w_nodes w2]. rewrite Eid. rewrite Hnr. exact Pnr. }
  assert (Hnew_up : forall c p, base <= c -> par w2 c p -> base <= p).
  { intros c p Hc Hp. apply (proj1 (st_par _ _ _ _ S12)) in Hp. destruct (N.eq_dec c base) as [->|Hne].
    - destruct Hp as (n & Hn & Hpp). rewrite Hnr in Hn. injection Hn as <-. congruence.
    - apply (Cl1 c p); auto. lia. }
  assert (M0 : MI base rt re w2 [] [] w2).
  { constructor.
    - apply Core_mask. exact C2.
    - reflexivity.
    - reflexivity.
    - intros p d _ [].
    - intros d [].
    - reflexivity.
    - reflexivity.
    - intros y [].
    - intros c p Hc Hp. left. eapply Hnew_up; eauto. }
  assert (Hrr : Reach w2 rt rt).
  { constructor. destruct (c_roots _ C2 _ _ Hr_root) as (n & Hn & _). eexists; eauto. }
  destruct (merge_any T LATEST name_definition_ref base rt re w2 C2 Hr_old (ex_intro _ _ Hr_root) Hold_up Hrb
                      (fuel_of w2) rt (fold_right set_add [] (m_files x')) re (N.of_nat (List.length (w_files w)))
                      [] [] w2 rme wb M0 Hrr) as (D' & Imp' & Mb);
    [intros []|intros []|rewrite Eid; apply N.le_refl|left; reflexivity|apply Hsh; auto|exact Eme|].
  assert (Hroot1 : m_root x1' = rt).
  { apply nth_opt_roots in Hx1. rewrite (mi_roots _ _ _ _ _ _ _ Mb), Hr_root in Hx1. congruence. }
  rewrite Hroot1 in Erb.
  assert (Hroot3 : m_root x3' = rt).
  { apply nth_opt_roots in Hx3.
    pose proof Erb as Erb'. apply wtry_inv in Erb' as (r1 & Erb' & _).
    destruct (RemEff_facts _ _ _ (LoadResidue.rem_e_remove_from_file T _ rt _ _ _ Erb')) as (_ & Rr & _).
    rewrite Rr, (mi_roots _ _ _ _ _ _ _ Mb), Hr_root in Hx3. congruence. }
  rewrite Hroot3 in E10.
  eapply (rollback_kill_core base rt re w2 D' Imp' wb _ _ wr _ keep wr _ wk Hr_old (ex_intro _ _ Hr_root) Mb); eauto.
Qed.

Lemma load_parsed_real_full m filename root st w r w' :
  RealInvL T w -> EChars T root -> ERefs T root (Parser.p_refs st) ->
  (forall t w1 x, install PNone root w = Val (OK t, w1) ->
     let w2 := mkWorld (w_nodes w1) (w_next w1)
                       (w_files w1 ++ [mkFile m filename (Parser.p_version st) (Parser.p_standalone st)]) (w_models w1) in
     nth_opt (w_models w2) (N.to_nat m) = Some x -> is_empty (m_files x) = false ->
     merge_shared T LATEST name_definition_ref (fuel_of w2) (m_root x) (fold_right set_add [] (m_files x)) (it_id t)
                  (N.of_nat (List.length (w_files w))) w2 = false) ->
  load_parsed T LATEST name_definition_ref m filename root st w = Val (r, w') -> RealInvL T w'.
Proof.
  intros I EC ERf Hshared H. pose proof H as H0. pose proof I as ((C & O) & CL & OR). unfold load_parsed in H.
  bstep H w0 wx E0; [|apply wget_inv in E0 as ([=] & _)]. apply wget_inv in E0 as ([= ->] & ->).
  bstep H t w1 E1.
  2:{ destruct (install_core _ _ _ _ _ C (or_introl eq_refl) E1) as (t' & [=] & _). }
  destruct (install_core _ _ _ _ _ C (or_introl eq_refl) E1) as (t' & [= <-] & Eid & C1 & L1 & R1 & F1 & (nr & Hnr & Pnr) & Cl1).
  pose proof (Hshared t w1) as Hsh.
  destruct (install_extra T _ _ _ _ _ C (or_introl eq_refl) E1) as (X1 & X2 & X3).
  pose proof (LoadProofs.above_install (w_next w) _ _ _ _ _ (N.le_refl _) E1) as (_ & _ & _ & Hm1).
  assert (O1 : NoOrphanP w1).
  { apply NoOrphanP_OrphSubE. eapply OrphE_weaken; [|apply X1; apply NoOrphanP_OrphSubE; exact O].
    cbn beta. intros x [[]|(_ & Hne)]. congruence. }
  assert (CL1 : CharsLeaf T w1) by (apply X2; auto).
  set (base := w_next w) in *. set (re := it_id t) in *.
  bstep H w1' wx E2; [|apply wget_inv in E2 as ([=] & _)]. apply wget_inv in E2 as ([= ->] & ->).
  bstep H x0 wx E3; [|apply get_model_inv in E3 as (? & _ & [=] & _)]. apply get_model_inv in E3 as (x0' & Hx0 & [= ->] & ->).
  bstep H ov wx E4; [|apply wl_inv in E4 as (? & _ & [=] & _)]. apply wl_inv in E4 as (ov' & _ & [= ->] & ->).
  assert (Hroots_old : forall k r0, nth_error (roots w1) k = Some r0 -> r0 < base).
  { intros k r0 Hk. rewrite R1 in Hk. destruct (c_roots _ C _ _ Hk) as (n & Hn & _). apply C. eexists; eauto. }
  destruct ov'.
  { (* overlap *)
    bstep H u wk Ek; [|apply kill_spec in Ek as ([=] & _)].
    apply wfail_inv in H as (-> & _).
    apply (load_parsed_real T LATEST name_definition_ref m filename root st w (ER OverlappingDataError) w' I EC ERf Hshared); [discriminate|exact H0]. }
  bstep H u w2 E5; [|apply wput_inv in E5 as ([=] & _)]. apply wput_inv in E5 as (_ & ->).
  set (w2 := mkWorld _ _ _ _) in *.
  assert (S12 : same_tree w1 w2) by (apply st_models; reflexivity).
  pose proof (Core_same_tree _ _ S12 C1) as C2.
  bstep H x wx E6; [|apply get_model_inv in E6 as (? & _ & [=] & _)]. apply get_model_inv in E6 as (x' & Hx & [= ->] & ->).
  bstep H rb w3 E7; [|apply wcatch_inv in E7 as (? & _ & [=])]. apply wcatch_inv in E7 as (rb' & E7 & [= ->]).
  bstep H x3 wx E8; [|apply get_model_inv in E8 as (? & _ & [=] & _)]. apply get_model_inv in E8 as (x3' & Hx3 & [= ->] & ->).
  bstep H w3' wx E9; [|apply wget_inv in E9 as ([=] & _)]. apply wget_inv in E9 as ([= ->] & ->).
  bstep H keep wq E10; [|exfalso; exact (LoadProofs.errs_dfs_ids (fun _ => False) _ _ _ _ _ E10)].
  pose proof (ro_dfs_ids _ _ _ _ _ E10) as ->.
  bstep H u2 wk E11; [|apply kill_spec in E11 as ([=] & _)].
  destruct rb' as [ub|eb].
  { apply wret_inv in H as (-> & _).
    apply (load_parsed_real T LATEST name_definition_ref m filename root st w (OK (N.of_nat (List.length (w_files w)))) w' I EC ERf Hshared); [discriminate|exact H0]. }
  (* the stage failed *)
  apply wbind_inv in H as [(u3 & w5 & E12 & H) | (ee1 & E12 & _)]; [|discriminate E12].
  apply wfail_inv in H as (_ & ->).
  assert (Cfin : Core w5) by (eapply (load_parsed_core_full m filename root st w _ w5 C Hshared); exact H0).
  destruct (drop_file_keep T _ _ _ _ E12) as (Sdrop & TKd & Hmd & CLd).
  cut (NoOrphanP wk /\ CharsLeaf T wk /\ OriginsRef T wk).
  { intros (A & B & D0). split; [split; [exact Cfin|eapply NoOrphanP_same_tree; eauto]|split; [auto|]].
    eapply OriginsRef_keep; [apply osub_models; exact Hmd|exact TKd|exact D0]. }
  clear H0 E12 Sdrop TKd Hmd CLd Cfin.
  (* where the error comes from *)
  apply wbind_inv in E7 as [(ua & wa & Ea & Etail) | (ee2 & Ea & _)].
  { exfalso. apply wbind_inv in Etail as [(ui & wi & Ei & Etail) | (ee3 & Ei & _)].
    2:{ exact (LoadProofs.errs_fill_identifiables (fun _ => False) _ _ _ _ _ _ Ei). }
    apply wbind_inv in Etail as [(ur & wr & Er & Etail) | (ee4 & Er & _)].
    2:{ exact (LoadProofs.errs_fill_references (fun _ => False) _ _ _ _ _ _ Er). }
    apply modify_model_inv in Etail as (? & _ & [=] & _). }
  destruct (is_empty (m_files x')) eqn:Efirst.
  { exfalso. apply wbind_inv in Ea as [(u5 & w6 & A1 & Ea) | (ee5 & A1 & _)]; [|apply modify_node_wset in A1 as (? & _ & [=] & _)].
    apply wbind_inv in Ea as [(u6 & w7 & A2 & Ea) | (ee6 & A2 & _)]; [|apply modify_node_wset in A2 as (? & _ & [=] & _)].
    apply modify_model_inv in Ea as (? & _ & [=] & _). }
  apply wbind_inv in Ea as [(mr & wb & Em & Ea) | (ee7 & Em & _)]; [|apply wcatch_inv in Em as (? & _ & [=])].
  apply wcatch_inv in Em as (mr' & Em & [= ->]).
  destruct mr' as [um|em]; [apply wret_inv in Ea as ([=] & _)|].
  apply wbind_inv in Ea as [(x1 & w6 & Ex1 & Ea) | (ee8 & Ex1 & _)]; [|apply get_model_inv in Ex1 as (? & _ & [=] & _)].
  apply get_model_inv in Ex1 as (x1' & Hx1 & [= ->] & ->).
  apply wbind_inv in Ea as [(urb & wr & Erb & Ea) | (ee9 & Erb & _)]; [|apply wtry_inv in Erb as (? & _ & [=])].
  apply wfail_inv in Ea as (_ & ->).
  (* the merge stopped somewhere: the invariant holds there *)
  pose proof Em as Em0.
  unfold merge_file_data in Em.
  apply wbind_inv in Em as [(xm & wm0 & Em1 & Em) | (ee10 & Em1 & _)]; [|apply get_model_inv in Em1 as (? & _ & [=] & _)].
  apply get_model_inv in Em1 as (xm' & Hxm & [= ->] & ->).
  rewrite Hx in Hxm. injection Hxm as <-.
  apply wbind_inv in Em as [(wg & wm0 & Em2 & Em) | (ee11 & Em2 & _)]; [|apply wget_inv in Em2 as ([=] & _)].
  apply wget_inv in Em2 as ([= ->] & ->).
  assert (Eme : exists rme, merge_element T LATEST name_definition_ref (fuel_of w2) (m_root x')
                   (fold_right set_add [] (m_files x')) re (N.of_nat (List.length (w_files w))) w2 = Val (rme, wb)).
  { apply wbind_inv in Em as [(ue & we & Eme & Em) | (ee12 & Eme & _)]; [|eauto]. exfalso.
    apply wbind_inv in Em as [(x2 & wm0 & Em3 & Em) | (ee13 & Em3 & _)]; [|apply get_model_inv in Em3 as (? & _ & [=] & _)].
    apply modify_node_wset in Em as (? & _ & [=] & _). }
  destruct Eme as (rme & Eme).
  set (rt := m_root x').
  assert (Hr_root : nth_error (roots w2) (N.to_nat m) = Some rt) by (apply nth_opt_roots; exact Hx).
  assert (Hr_old : rt < base) by (eapply Hroots_old; rewrite <- Hr_root; reflexivity).
  assert (Hold_up : forall c p, c < base -> par w2 c p -> p < base).
  { intros c p Hc Hp. apply (proj1 (st_par _ _ _ _ S12)) in Hp.
    assert (Hp0 : par w c p). { destruct Hp as (n & Hn & Hpp). rewrite F1 in Hn by auto. exists n. auto. }
    apply par_alloc in Hp0; auto. apply C. auto. }
  assert (Hrb : parent_in w2 re = PNone).
  { unfold parent_in. cbn [w_nodes w2]. rewrite Eid. rewrite Hnr. exact Pnr. }
  assert (Hnew_up : forall c p, base <= c -> par w2 c p -> base <= p).
  { intros c p Hc Hp. apply (proj1 (st_par _ _ _ _ S12)) in Hp. destruct (N.eq_dec c base) as [->|Hne].
    - destruct Hp as (n & Hn & Hpp). rewrite Hnr in Hn. injection Hn as <-. congruence.
    - apply (Cl1 c p); auto. lia. }
  assert (M0 : MI base rt re w2 [] [] w2).
  { constructor.
    - apply Core_mask. exact C2.
    - reflexivity.
    - reflexivity.
    - intros p d _ [].
    - intros d [].
    - reflexivity.
    - reflexivity.
    - intros y [].
    - intros c p Hc Hp. left. eapply Hnew_up; eauto. }
  assert (Hrr : Reach w2 rt rt).
  { constructor. destruct (c_roots _ C2 _ _ Hr_root) as (n & Hn & _). eexists; eauto. }
  destruct (merge_any T LATEST name_definition_ref base rt re w2 C2 Hr_old (ex_intro _ _ Hr_root) Hold_up Hrb
                      (fuel_of w2) rt (fold_right set_add [] (m_files x')) re (N.of_nat (List.length (w_files w)))
                      [] [] w2 rme wb M0 Hrr) as (D' & Imp' & Mb);
    [intros []|intros []|rewrite Eid; apply N.le_refl|left; reflexivity|apply Hsh; auto|exact Eme|].
  assert (Hroot1 : m_root x1' = rt).
  { apply nth_opt_roots in Hx1. rewrite (mi_roots _ _ _ _ _ _ _ Mb), Hr_root in Hx1. congruence. }
  rewrite Hroot1 in Erb.
  assert (Hroot3 : m_root x3' = rt).
  { apply nth_opt_roots in Hx3.
    pose proof Erb as Erb'. apply wtry_inv in Erb' as (r1 & Erb' & _).
    destruct (RemEff_facts _ _ _ (LoadResidue.rem_e_remove_from_file T _ rt _ _ _ Erb')) as (_ & Rr & _).
    rewrite Rr, (mi_roots _ _ _ _ _ _ _ Mb), Hr_root in Hx3. congruence. }
  rewrite Hroot3 in E10.
  assert (TK1 : tkeep w w1).
  { intros i n Hn. assert (allocated w i) as Ha by (eexists; eauto). apply C in Ha. rewrite F1 by exact Ha. eauto. }
  assert (OR2 : OriginsRef T w2).
  { eapply OriginsRef_keep; [apply osub_models; exact Hm1|exact TK1|exact OR]. }
  assert (J2 : NoOrphanP w2 /\ CharsLeaf T w2) by (apply (J_nodes T w1); [reflexivity|split; auto]).
  destruct J2 as (O2 & CL2).
  pose proof (LoadEffects.merge_file_data_effects T LATEST name_definition_ref m re _ _ _ _ Em0) as WE.
  destruct (WorldEff_keep _ _ _ WE) as (TKb & Hmb).
  eapply (rollback_kill_real base rt re w2 D' Imp' wb _ _ wr _ keep wr _ wk C2 Hr_old (ex_intro _ _ Hr_root) Mb); eauto.
  - intros c p Hc Hp. apply (WorldEff_lists _ _ _ WE). apply O2.
    apply par_parent_in. apply par_parent_in in Hp as (Ha & Hpp). split.
    + apply (c_alloc _ C2). rewrite <- (mi_next _ _ _ _ _ _ _ Mb). apply (MI_alloc _ _ _ _ _ _ _ _ Mb). exact Ha.
    + rewrite <- (mi_par _ _ _ _ _ _ _ Mb); [exact Hpp|]. intros Hin. apply (mi_imp _ _ _ _ _ _ _ Mb) in Hin as (Hb & _). lia.
  - eapply CAny_merge_file_data; eauto.
  - eapply OriginsRef_keep; [apply osub_models; exact Hmb|exact TKb|exact OR2].
Qed.


End Rej.
