(* Tree/CompatBridge.v — definitions for the link between the compatibility check and strict loading through the C01 theorems
   of Xml/RoundTrip*.v (which speak about element trees `etree` whose nodes carry the types strict loading assigns).
   DEFINITIONS ONLY (proofs: Tree/CompatProofs6.v).

   vproj      the per-file projection of the heap below a node as an etree, RETYPED top-down for the target version v (a child
              gets the type its parent's v-type lists for its name in v; undefined when some child of the file is not listed)
   restb      DECIDABLE side condition: everything Xml/RoundTripCanonb.canonb demands of a tree (names, value spelling, patterns,
              required attributes, shape, conflicts, multiplicities, SHORT-NAME where the target version wants one, children
              listed) EXCEPT the version-mask tests of attributes and enumeration values, which are evaluated for `all
              versions` (u32::MAX) instead of v.  These mask tests are exactly what ValidIn adds.
   rootrestb  the same for the root (Xml/RoundTripCanonb.rootcanonb: header attributes checked with the 4.0.1 placeholder). *)
From AV Require Import Base.Bytes Base.Outcome Hash.HashModel Spec.SpecOps Spec.Versions Tree.Heap Tree.Ops Tree.Compat Tree.CompatSpec Tree.Serialize.
From AV Require Import Xml.Parser Xml.StrictValidDef Xml.RoundTripElem Xml.RoundTripCanon Xml.RoundTripCanonb.
Open Scope string_scope.
Open Scope list_scope.
Open Scope N_scope.

Section Proj.
Variable T : tables.
Variable w : world.
Variable f v : N.

Definition pc_attrs (a : list (N * Heap.cdata)) : list (N * Parser.cdata) := map (fun x => (fst x, to_pc (snd x))) a.

Fixpoint vproj_items (rec : N * N -> id -> option etree) (ty : N * N) (l : list citem) : option (list (etree + Parser.cdata)) :=
  match l with
  | [] => Some []
  | CData d :: r => option_map (cons (inr (to_pc d))) (vproj_items rec ty r)
  | CElem c :: r =>
    match w_nodes w c with
    | None => None
    | Some cn =>
      if in_file f cn then
        match find_sub_element T ty (n_name cn) v with
        | Val (Some (tc, _)) =>
          match rec tc c, vproj_items rec ty r with
          | Some t, Some rest => Some (inl t :: rest)
          | _, _ => None
          end
        | _ => None
        end
      else vproj_items rec ty r
    end
  end.

Fixpoint vproj (fuel : nat) (ty : N * N) (i : id) {struct fuel} : option etree :=
  match fuel with
  | O => None
  | S fl =>
    match w_nodes w i with
    | None => None
    | Some n =>
      match vproj_items (vproj fl) ty (n_content n) with
      | Some content => Some (ENode (n_name n) ty (pc_attrs (n_attrs n)) content (n_comment n))
      | None => None
      end
    end
  end.

(* the v-typed projection of file f *)
Definition file_tree (t : etree) : Prop := exists r ty, root_of w f r ty /\ vproj (fuel_of w) ty r = Some t.

End Proj.

Section Rest.
Variable T : tables.
Variable tab_el tab_at tab_en : nametab.
Variable check_fn : N -> list N -> res bool.
Variable float_fmt : N -> list N.
Variable float_parse : list N -> option N.
Variable ver : N.

Definition childrenb_r (cb : etree -> bool) (ty : etype) (mode : N)
  : list N -> list (etree + Parser.cdata) -> list (etree + Parser.cdata) -> bool :=
  fix go (prev : list N) (pre l : list (etree + Parser.cdata)) {struct l} : bool :=
    match l with
    | [] => true
    | inl c :: rest =>
      match find_sub_element T ty (e_name c) ver with
      | Val (Some (cty, idx)) =>
        etype_eqb cty (e_type c) && conflictb T ty prev idx && multb T ty idx (e_name c) pre && cb c && go idx (pre ++ [inl c]) rest
      | _ => false
      end
    | inr x :: rest =>
      textokb T tab_en check_fn float_fmt float_parse U32MAX ty x && (negb (mode =? MCharacters) || is_nil pre) && go prev (pre ++ [inr x]) rest
    end.

Fixpoint restb (t : etree) : bool :=
  match t with
  | ENode name ty attrs content cm =>
    comments_okb cm && elem_nameb tab_el name && attrsokb T tab_at tab_en check_fn float_fmt float_parse U32MAX ty attrs &&
    match content_mode T ty with
    | Val mode =>
      shapeb mode content && namedb T ver ty content &&
      (fix go (prev : list N) (pre l : list (etree + Parser.cdata)) {struct l} : bool :=
         match l with
         | [] => true
         | inl c :: rest =>
           match find_sub_element T ty (e_name c) ver with
           | Val (Some (cty, idx)) =>
             etype_eqb cty (e_type c) && conflictb T ty prev idx && multb T ty idx (e_name c) pre && restb c && go idx (pre ++ [inl c]) rest
           | _ => false
           end
         | inr x :: rest =>
           textokb T tab_en check_fn float_fmt float_parse U32MAX ty x && (negb (mode =? MCharacters) || is_nil pre) && go prev (pre ++ [inr x]) rest
         end) [] [] content
    | _ => false
    end
  end.

Definition rootrestb (t : etree) : bool :=
  match t, elem T (autosar_element T), version_of_ident "Autosar_4_0_1" with
  | ENode name ty attrs content cm, Val e, Some v401 =>
    (name =? ed_name e) && etype_eqb ty (autosar_element T, ed_type e) &&
    comments_okb cm && elem_nameb tab_el name &&
    attrsokb T tab_at tab_en check_fn float_fmt float_parse v401 ty attrs && headerb tab_at ver attrs &&
    match content_mode T ty with
    | Val mode => shapeb mode content && namedb T ver ty content && childrenb_r restb ty mode [] [] content
    | _ => false
    end
  | _, _, _ => false
  end.

End Rest.
