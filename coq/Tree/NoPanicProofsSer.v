(* Tree/NoPanicProofsSer.v — C12 (panic / loop half): Element::serialize (Tree/Serialize.v, e_serialize) never panics or
   runs out of fuel in a world with H12: the three string-table lookups (element name, attribute name, enum item) are
   inside their tables (RE / RV), content_mode of a checked type returns, listed sub-elements exist (Core), and the
   recursion follows the subtree whose height is below the fuel (hb_fuel).  The float printer is the oracle float_fmt. *)
From Coq Require Import Lia.
From AV Require Import Base.Bytes Base.Outcome Hash.HashModel Spec.SpecOps Xml.TablesOk Tree.Heap Tree.Ops Tree.Script Tree.Inv.
From AV Require Xml.Parser Xml.Serializer.
From AV Require Import Tree.Serialize Tree.SortProofsHeap Tree.SortProofsReadyE Tree.SortProofsReadyV.
From AV Require Import Tree.NoPanic Tree.NoPanicProofsBase Tree.NoPanicProofsDepth Tree.NoPanicProofsHist.
Open Scope string_scope.
Open Scope list_scope.
Open Scope N_scope.

Section Ser.
Variable T : tables.
Variable tab_el tab_at tab_en : nametab.
Variable float_fmt : N -> list N.
Hypothesis OK12 : tables_ok12 T = true.

Lemma ser_cd_ok d : cdata_named tab_en d -> exists s, ser_cd tab_en float_fmt d = Val s.
Proof.
  unfold ser_cd. destruct d; cbn [to_pc Serializer.ser_cdata cdata_named]; eauto.
  intros H. destruct (to_str tab_en item); [cbn; eauto|congruence].
Qed.

Lemma ser_ats_ok a : attrV tab_at tab_en a -> exists s, ser_ats tab_at tab_en float_fmt a = Val s.
Proof.
  unfold ser_ats. induction a as [|[k v] a IH]; intros H; cbn [map Serializer.ser_attrs fst snd]; [eauto|].
  destruct (H (k, v) (or_introl eq_refl)) as (Hk & Hv). cbn [fst snd] in Hk, Hv.
  destruct (to_str tab_at k) as [nm|]; [|congruence]. cbn [unwrap bind].
  destruct (ser_cd_ok v Hv) as (vs & Ev). unfold ser_cd in Ev. rewrite Ev. cbn [bind].
  destruct IH as (r & Er). { intros x Hx. apply H. right. exact Hx. }
  rewrite Er. cbn [bind]. eauto.
Qed.

(* what the walk needs of the heap *)
Definition SerOK (w : world) : Prop :=
  forall i n, w_nodes w i = Some n ->
    to_str tab_el (n_name n) <> None /\ attrV tab_at tab_en (n_attrs n) /\ contV tab_en (n_content n) /\
    (exists m, content_mode T (n_type n) = Val m) /\
    (forall c, In (CElem c) (n_content n) -> exists cn, w_nodes w c = Some cn).

(* the two content loops of ser_heap, named (the recursive call is a parameter) *)
Definition items_of (w : world) (ff : option N) (rec : id -> res (list N)) : list citem -> res (list N) :=
  fix items (l : list citem) : res (list N) :=
    match l with
    | [] => Val []
    | CElem c :: l' =>
      match w_nodes w c with
      | None => Pan "dangling node id"
      | Some cn => if passes ff cn then (let* a := rec c in let* b := items l' in Val (a ++ b))%res else items l'
      end
    | CData d :: l' => (let* a := ser_cd tab_en float_fmt d in let* b := items l' in Val (a ++ b))%res
    end.
Definition subs_of (w : world) (ff : option N) (rec : id -> res (list N)) : list citem -> res (list N) :=
  fix subs (l : list citem) : res (list N) :=
    match l with
    | [] => Val []
    | CElem c :: l' =>
      match w_nodes w c with
      | None => Pan "dangling node id"
      | Some cn => if passes ff cn then (let* a := rec c in let* b := subs l' in Val (a ++ b))%res else subs l'
      end
    | CData _ :: l' => subs l'
    end.

Lemma ser_heap_S fl w ff i indent inline :
  ser_heap T tab_el tab_at tab_en float_fmt (Datatypes.S fl) w ff i indent inline =
  match w_nodes w i with
  | None => Pan "dangling node id"
  | Some n =>
    (let* nm := unwrap "ElementName::to_str: STRING_TABLE index" (to_str tab_el (n_name n)) in
     let pre := Serializer.comment_part (n_comment n) indent inline ++ (if inline then [] else Serializer.newline_indent indent) in
     match n_content n with
     | [] => let* ats := ser_ats tab_at tab_en float_fmt (n_attrs n) in Val (pre ++ [60] ++ nm ++ ats ++ [47; 62])
     | first :: _ =>
       let* ats := ser_ats tab_at tab_en float_fmt (n_attrs n) in
       let* mode := content_mode T (n_type n) in
       let open_tag := [60] ++ nm ++ ats ++ [62] in
       let close_tag := [60; 47] ++ nm ++ [62] in
       if mode =? MCharacters then
         let* body := match first with CData d => ser_cd tab_en float_fmt d | CElem _ => Val [] end in
         Val (pre ++ open_tag ++ body ++ close_tag)
       else if mode =? MMixed then
         let* body := items_of w ff (fun c => ser_heap T tab_el tab_at tab_en float_fmt fl w ff c (Datatypes.S indent) true) (n_content n) in
         Val (pre ++ open_tag ++ body ++ close_tag)
       else
         let* body := subs_of w ff (fun c => ser_heap T tab_el tab_at tab_en float_fmt fl w ff c (Datatypes.S indent) false) (n_content n) in
         Val (pre ++ open_tag ++ body ++ Serializer.newline_indent indent ++ close_tag)
     end)%res
  end.
Proof. reflexivity. Qed.

Lemma items_of_ok w ff rec l :
  (forall c, In (CElem c) l -> (exists cn, w_nodes w c = Some cn) /\ exists s, rec c = Val s) -> contV tab_en l ->
  exists b, items_of w ff rec l = Val b.
Proof.
  induction l as [|[c|d] l IHl]; intros HK Hc; cbn [items_of]; [eauto| |].
  - destruct (HK c (or_introl eq_refl)) as ((cn & Hcn) & (a & Ea)). rewrite Hcn.
    destruct IHl as (b & Eb). { intros c0 H0. apply HK. right. exact H0. } { intros d0 H0. apply Hc. right. exact H0. }
    fold (items_of w ff rec). destruct (passes ff cn); [|eauto]. rewrite Ea. cbn [bind]. rewrite Eb. cbn [bind]. eauto.
  - destruct (ser_cd_ok d (Hc d (or_introl eq_refl))) as (a & Ea). rewrite Ea. cbn [bind].
    destruct IHl as (b & Eb). { intros c0 H0. apply HK. right. exact H0. } { intros d0 H0. apply Hc. right. exact H0. }
    fold (items_of w ff rec). rewrite Eb. cbn [bind]. eauto.
Qed.

Lemma subs_of_ok w ff rec l :
  (forall c, In (CElem c) l -> (exists cn, w_nodes w c = Some cn) /\ exists s, rec c = Val s) ->
  exists b, subs_of w ff rec l = Val b.
Proof.
  induction l as [|[c|d] l IHl]; intros HK; cbn [subs_of]; [eauto| |].
  - destruct (HK c (or_introl eq_refl)) as ((cn & Hcn) & (a & Ea)). rewrite Hcn.
    destruct IHl as (b & Eb). { intros c0 H0. apply HK. right. exact H0. }
    fold (subs_of w ff rec). destruct (passes ff cn); [|eauto]. rewrite Ea. cbn [bind]. rewrite Eb. cbn [bind]. eauto.
  - apply IHl. intros c0 H0. apply HK. right. exact H0.
Qed.

Lemma ser_heap_ok w ff : SerOK w -> forall fuel i indent inline, hb w i fuel -> (exists n, w_nodes w i = Some n) ->
  exists s, ser_heap T tab_el tab_at tab_en float_fmt fuel w ff i indent inline = Val s.
Proof.
  intros S. induction fuel as [|fl IH]; intros i indent inline HB (n & Hn); [inversion HB|].
  inversion HB as [i0 f0 HK]; subst. specialize (HK n).
  destruct (S i n Hn) as (Hnm & Ha & Hc & (mode & Em) & Hk).
  rewrite ser_heap_S. rewrite Hn. destruct (to_str tab_el (n_name n)) as [nm|]; [|congruence]. cbn [unwrap bind].
  destruct (ser_ats_ok _ Ha) as (ats & Ea). rewrite Ea. cbn [bind]. cbv zeta.
  assert (HKc : forall b c, In (CElem c) (n_content n) -> (exists cn, w_nodes w c = Some cn) /\
                 exists s, ser_heap T tab_el tab_at tab_en float_fmt fl w ff c (Datatypes.S indent) b = Val s).
  { intros b c Hc0. split; [apply Hk; exact Hc0|]. apply IH; [apply HK; [exact Hn|exact Hc0]|apply Hk; exact Hc0]. }
  destruct (items_of_ok w ff (fun c => ser_heap T tab_el tab_at tab_en float_fmt fl w ff c (Datatypes.S indent) true) (n_content n) (HKc true) Hc)
    as (bi & Ei).
  destruct (subs_of_ok w ff (fun c => ser_heap T tab_el tab_at tab_en float_fmt fl w ff c (Datatypes.S indent) false) (n_content n) (HKc false))
    as (bs & Es).
  rewrite Ei, Es. destruct (n_content n) as [|first rest] eqn:EC; [eauto|]. rewrite Em. cbn [bind].
  destruct (mode =? MCharacters).
  - destruct first as [c|d]; [cbn [bind]; eauto|].
    destruct (ser_cd_ok d (Hc d (or_introl eq_refl))) as (b & Eb). rewrite Eb. cbn [bind]. eauto.
  - destruct (mode =? MMixed); cbn [bind]; eauto.
Qed.

Lemma H12_SerOK w : H12 T tab_el tab_at tab_en w -> SerOK w.
Proof.
  intros (C & _ & _ & (E & _) & V & _ & _) i n Hn. destruct (E i n Hn) as (Ety & Enm). destruct (V i n Hn) as (Vc & Va).
  split; [exact Enm|]. split; [exact Va|]. split; [exact Vc|]. split; [exact (content_mode_ok T OK12 _ Ety)|].
  intros c Hc. assert (L : lists w i c).
  { exists n. split; [exact Hn|]. unfold kids, elems. apply in_flat_map. exists (CElem c). split; [exact Hc|left; reflexivity]. }
  apply (c_up w C) in L as (cn & Hcn & _). eauto.
Qed.

Theorem np_e_serialize w h : H12 T tab_el tab_at tab_en w -> h < w_next w ->
  runs (e_serialize T tab_el tab_at tab_en float_fmt h) w.
Proof.
  intros I L. pose proof (H12_PanicFree T tab_el tab_at tab_en w I) as [C U CU].
  assert (A : exists n, w_nodes w h = Some n).
  { destruct (w_nodes w h) as [n|] eqn:E; [eauto|]. exfalso. apply (cl_alloc _ _ _ _ C h) in L. exact (L E). }
  destruct (ser_heap_ok w None (H12_SerOK w I) (fuel_of w) h 0%nat false (hb_fuel T tab_el tab_en w h C U CU L) A) as (s & E).
  unfold runs, e_serialize. rewrite E. eauto.
Qed.

End Ser.
