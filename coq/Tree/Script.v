(* Tree/Script.v — the operation alphabet (one constructor per public call exercised by the correspondence harness),
   its interpreter over the world, handle bookkeeping (handle k = k-th element ever discovered by a pre-order walk
   from the operation's result and then from every model root — the same rule the Rust harness uses), and the
   read-only queries that make up the canonical observation.   MODEL ONLY: definitions, no proofs. *)
From AV Require Import Base.Bytes Base.Outcome Hash.HashModel Tree.Heap Tree.Ops.
Open Scope string_scope.
Open Scope list_scope.
Open Scope N_scope.

Inductive op :=
| OpCreateSub (h name : N) | OpCreateSubAt (h name pos : N)
| OpCreateNamed (h name : N) (item : list N) | OpCreateNamedAt (h name : N) (item : list N) (pos : N)
| OpCopy (h other : N) | OpCopyAt (h other pos : N)
| OpMove (h mv : N) | OpMoveAt (h mv pos : N)
| OpRemove (h sub : N) | OpRemoveKind (h name : N)
| OpSetItemName (h : N) (name : list N)
| OpSetCData (h : N) (v : cdata) | OpRemoveCData (h : N)
| OpInsertCItem (h : N) (text : list N) (pos : N) | OpRemoveCItem (h pos : N)
| OpSetRefTarget (h target : N)
| OpSetAttr (h attr : N) (v : cdata) | OpRemoveAttr (h attr : N)
| OpSetComment (h : N) (c : option (list N))
| OpGetOrCreate (h name : N) | OpGetOrCreateNamed (h name : N) (item : list N)
| OpNewModel
| OpCreateFile (m : N) (name : list N) (version : N) | OpRemoveFile (m f : N)
| OpAddToFile (h f : N) | OpRemoveFromFile (h f : N).

Inductive value := VUnit | VElem (i : id) | VBool (b : bool) | VFile (f : N) | VModel (m : N).

Section Script.
Variable T : tables.
Variable tab_el tab_en : nametab.
Variable check_fn : N -> list N -> res bool.
Variable LATEST name_index name_definition_ref : N.
Variable root_attrs : list (N * cdata).      (* the three attributes AutosarModel::new gives the root *)


Definition welem (m : W id) : W value := (do i <- m; wret (VElem i))%W.
Definition wunit (m : W unit) : W value := (do _ <- m; wret VUnit)%W.

(* ops take node ids (the driver translates handles) *)
Definition run_op (o : op) : W value :=
  match o with
  | OpCreateSub h name => welem (e_create_sub_element T LATEST h name)
  | OpCreateSubAt h name pos => welem (e_create_sub_element_at T LATEST h name pos)
  | OpCreateNamed h name item => welem (e_create_named_sub_element T check_fn LATEST h name item)
  | OpCreateNamedAt h name item pos => welem (e_create_named_sub_element_at T check_fn LATEST h name item pos)
  | OpCopy h other => welem (e_create_copied_sub_element T LATEST h other)
  | OpCopyAt h other pos => welem (e_create_copied_sub_element_at T LATEST h other pos)
  | OpMove h mv => welem (e_move_element_here T tab_en check_fn LATEST h mv)
  | OpMoveAt h mv pos => welem (e_move_element_here_at T tab_en check_fn LATEST h mv pos)
  | OpRemove h sub => wunit (e_remove_sub_element T h sub)
  | OpRemoveKind h name => wunit (e_remove_sub_element_kind T h name)
  | OpSetItemName h name => wunit (e_set_item_name T check_fn LATEST h name)
  | OpSetCData h v => wunit (e_set_character_data T tab_en check_fn LATEST h v)
  | OpRemoveCData h => wunit (e_remove_character_data T h)
  | OpInsertCItem h text pos => wunit (e_insert_character_content_item T h text pos)
  | OpRemoveCItem h pos => wunit (e_remove_character_content_item T h pos)
  | OpSetRefTarget h target => wunit (e_set_reference_target T tab_el tab_en check_fn LATEST h target)
  | OpSetAttr h attr v => wunit (e_set_attribute T check_fn LATEST h attr v)
  | OpRemoveAttr h attr => (do b <- e_remove_attribute T h attr; wret (VBool b))%W
  | OpSetComment h c => wunit (e_set_comment h c)
  | OpGetOrCreate h name => welem (e_get_or_create_sub_element T LATEST h name)
  | OpGetOrCreateNamed h name item => welem (e_get_or_create_named_sub_element T check_fn LATEST h name item)
  | OpNewModel => (do m <- new_model T root_attrs; wret (VModel m))%W
  | OpCreateFile m name version => (do f <- m_create_file T m name version; wret (VFile f))%W
  | OpRemoveFile m f => wunit (m_remove_file T m f)
  | OpAddToFile h f => wunit (e_add_to_file T h f)
  | OpRemoveFromFile h f => wunit (e_remove_from_file T h f)
  end.

(* ---------- handle discovery ---------- *)
Definition mem_id (i : id) (l : list id) : bool := existsb (N.eqb i) l.

(* pre-order walk that never fails: unknown ids and exhausted fuel just stop (the harness walks what exists) *)
Fixpoint walk (fuel : nat) (w : world) (i : id) {struct fuel} : list id :=
  match fuel with
  | O => []
  | S f =>
    match w_nodes w i with
    | None => []
    | Some n => i :: flat_map (fun it => match it with CElem c => walk f w c | CData _ => [] end) (n_content n)
    end
  end.

Definition add_new (handles : list id) (ids : list id) : list id :=
  fold_left (fun hs i => if mem_id i hs then hs else hs ++ [i]) ids handles.

Definition discover (w : world) (handles : list id) (result : option id) : list id :=
  let fuel := S (N.to_nat (w_next w)) in
  let from_result := match result with Some r => walk fuel w r | None => [] end in
  let from_roots := flat_map (fun m => walk fuel w (m_root m)) (w_models w) in
  add_new (add_new handles from_result) from_roots.

(* ---------- queries (the observation) ---------- *)
Definition q_parent (i : id) : W (option id) := (do n <- get_node i; parent_of n)%W.

Definition q_position (i : id) : W (option N) :=
  (do n <- get_node i;
   do p <- wtry (parent_of n);
   match p with
   | Some (Some pi) => do pn <- get_node pi;
                       wret (option_map N.of_nat (index_of (citem_is i) (n_content pn)))
   | _ => wret None
   end)%W.

Definition q_path (i : id) : W (list N) := path_id T i.
Definition q_model (i : id) : W N := model_of i.
Definition q_file_membership (i : id) : W (bool * list N) := file_membership i.
Definition q_min_version (i : id) : W N := min_version LATEST i.
Definition q_item_name (i : id) : W (option (list N)) := (do n <- get_node i; item_name T n)%W.
Definition q_is_identifiable (i : id) : W bool := (do n <- get_node i; is_identifiable T n)%W.
Definition q_get_by_path (m : N) (p : list N) : W (option id) := get_element_by_path m p.
Definition q_refs_to (m : N) (p : list N) : W (list id) :=
  (do x <- get_model m; wret (match assoc_get p (m_origins x) with Some l => l | None => [] end))%W.
Definition q_get_reference_target (i : id) : W id := e_get_reference_target T i.
Definition q_character_data (i : id) : W (option cdata) := (do n <- get_node i; wlift (character_data T n))%W.
Definition q_insert_range (i : id) (name version : N) : W (N * N) :=
  (do n <- get_node i; calc_element_insert_range T n name version)%W.

(* AutosarModel::check_references (order of the result is hash order: compared as a sorted list) *)
Definition q_check_references (m : N) : W (list id) :=
  (do x <- get_model m;
   (fix each (l : list (list N * list id)) : W (list id) :=
      match l with
      | [] => wret []
      | (path, refs) :: rest =>
        do r <- each rest;
        match assoc_get path (m_idents x) with
        | None => wret (refs ++ r)
        | Some target =>
          do tn <- get_node target;
          do bad <- (fix chk (rl : list id) : W (list id) :=
                       match rl with
                       | [] => wret []
                       | re :: rr =>
                         do rn <- get_node re;
                         do b <- chk rr;
                         match attr_value rn (attr_dest T) with
                         | Some (DEnum d) =>
                           do ok <- wlift (verify_reference_dest T (n_type tn) d);
                           wret (if ok then b else re :: b)
                         | _ => wret (re :: b)
                         end
                       end) refs;
          wret (bad ++ r)
        end
      end) (m_origins x))%W.

End Script.
