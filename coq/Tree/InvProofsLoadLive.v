(* Tree/InvProofsLoadLive.v — C03 over OpLoad: NoOrphanP, CharsLeaf and OriginsRef (RealInvL) across a load.
   Part 1: what Load.install builds (parent -> child agreement, Characters leaves, the type at every parser position). *)
From Coq Require Import PeanoNat Arith Lia.
From AV Require Import Base.Bytes Base.Outcome Hash.HashModel Tree.Heap Tree.Ops Tree.Script Tree.Inv
  Tree.InvProofsBase Tree.InvProofsCore Tree.InvProofsTree Tree.InvProofsPrim Tree.InvProofsFrame Tree.InvProofsChars
  Tree.InvProofsChars5 Tree.InvProofsCreate Tree.InvProofsRemove Tree.InvProofsFiles Tree.InvProofsNav Tree.InvProofsOrigins
  Tree.InvProofsOrigins3 Tree.InvEBase Tree.Load Tree.InvLoad Tree.InvProofsLoadBase Tree.InvProofsLoadWalk
  Tree.InvProofsLoadMerge Tree.InvProofsLoad.
From AV Require Tree.LoadProofs Tree.LoadEffects.
From AV Require Xml.Parser.
Open Scope string_scope.
Open Scope list_scope.
Open Scope N_scope.

Definition et_type (e : Parser.etree) : N * N := match e with Parser.ENode _ ty _ _ _ => ty end.
Definition et_content (e : Parser.etree) := match e with Parser.ENode _ _ _ c _ => c end.

(* the sub-tree at a parser position (child indices count every content item) *)
Fixpoint et_at (e : Parser.etree) (pos : list nat) {struct pos} : option Parser.etree :=
  match pos with
  | [] => Some e
  | k :: r => match nth_error (et_content e) k with Some (inl c) => et_at c r | _ => None end
  end.

Section Shape.
Variable T : tables.

(* every element of a Characters-mode type has no sub-elements *)
Inductive EChars : Parser.etree -> Prop :=
| EChars_node name ty attrs content comment :
    (content_mode T ty = Val MCharacters -> forall c, ~ In (inl c) content) ->
    (forall c, In (inl c) content -> EChars c) ->
    EChars (Parser.ENode name ty attrs content comment).

Lemma orphe_set_kids w w' i pp ks ks' (S : id -> Prop) :
  upd1 w w' i -> skel w i = Some (pp, ks) -> skel w' i = Some (pp, ks') ->
  (forall x, In x ks -> In x ks') ->
  OrphE w S -> OrphE w' (fun x => S x /\ ~ (In x ks' /\ par w x i)).
Proof.
  intros U Hi Hi' Hsub HO c p Hp. pose proof (upd1_par_back _ _ _ _ _ _ U Hi Hi' _ _ Hp) as Hp0.
  destruct (HO _ _ Hp0) as [Hl|Hs].
  - left. destruct (N.eq_dec p i) as [->|Hpi].
    + apply lists_skel in Hl as (a & b & E & Hc). rewrite Hi in E. injection E as <- <-.
      apply lists_skel. exists pp, ks'. split; auto.
    + apply (upd1_lists_other _ _ _ _ _ U Hpi). exact Hl.
  - destruct (in_dec N.eq_dec c ks') as [Hin|Hin].
    + destruct (N.eq_dec p i) as [->|Hpi].
      * left. apply lists_skel. exists pp, ks'. auto.
      * right. split; auto. intros (_ & Hpi'). apply Hpi. eapply par_fun; eauto.
    + right. split; auto. tauto.
Qed.

Lemma install_extra : forall e parent w t w',
  Core w -> (parent = PNone \/ exists q, parent = PElem q /\ allocated w q) ->
  install parent e w = Val (OK t, w') ->
  (forall S, OrphE w S -> OrphE w' (fun x => S x \/ (x = w_next w /\ parent <> PNone))) /\
  (EChars e -> CharsLeaf T w -> CharsLeaf T w') /\
  (forall pos i, it_at t pos = Some i ->
     exists n sub, w_nodes w' i = Some n /\ et_at e pos = Some sub /\ n_type n = et_type sub /\ w_next w <= i).
Proof.
  fix IH 1. intros [name ty attrs content comment] parent w t w' C Hpar H.
  pose proof H as H0. cbn [install] in H.
  apply wbind_inv in H as [(i & w1 & H1 & H2) | (e' & H1 & [=])].
  apply alloc_walloc in H1 as ([= ->] & ->).
  set (n0 := mkNode parent name ty [] (map (fun a => (fst a, to_hc (snd a))) attrs) [] comment) in *.
  set (i := w_next w) in *.
  assert (C1 : Core (walloc w n0)).
  { eapply core_alloc; [exact C|apply alloc1_walloc|apply skel_walloc_new|exact Hpar]. }
  assert (Hi1 : w_nodes (walloc w n0) i = Some n0) by apply nodes_walloc_new.
  assert (G : forall l wa items kds wb, Core wa -> w_nodes wa i = Some n0 -> i < w_next wa ->
    (fix go (l : list (Parser.etree + Parser.cdata)) : W (list citem * list (option itree)) :=
       match l with
       | [] => wret ([], [])
       | inl c :: r => (do t <- install (PElem i) c; do '(cs, ts) <- go r; wret (CElem (it_id t) :: cs, Some t :: ts))%W
       | inr d :: r => (do '(cs, ts) <- go r; wret (CData (to_hc d) :: cs, None :: ts))%W
       end) l wa = Val (OK (items, kds), wb) ->
    Core wb /\ w_next wa <= w_next wb /\ (forall j, j < w_next wa -> w_nodes wb j = w_nodes wa j) /\
    (forall c, In c (elems items) -> par wb c i) /\
    (forall S, OrphE wa S -> OrphE wb (fun x => S x \/ In x (elems items))) /\
    ((forall c, In (inl c) l -> EChars c) -> CharsLeaf T wa -> CharsLeaf T wb) /\
    ((forall c, ~ In (inl c) l) -> elems items = []) /\
    (forall k tc pos j, nth_error kds k = Some (Some tc) -> it_at tc pos = Some j ->
       exists n c sub, nth_error l k = Some (inl c) /\ w_nodes wb j = Some n /\ et_at c pos = Some sub /\ n_type n = et_type sub /\
                       w_next wa <= j)).
  { induction l as [|[c|d] rest IHr]; intros wa items kds wb Ca Hia Hlt Hg.
    - apply wret_inv in Hg as ([= -> ->] & ->).
      split; [exact Ca|]. split; [lia|]. split; [auto|]. split; [intros c []|].
      split; [intros S HO c p Hp; destruct (HO _ _ Hp); auto|]. split; [auto|]. split; [auto|].
      intros k tc pos j Hk. destruct k; discriminate Hk.
    - apply wbind_inv in Hg as [(tc & w3 & H5 & H6) | (e' & H5 & [=])].
      assert (Hpc : PElem i = PNone \/ exists q, PElem i = PElem q /\ allocated wa q).
      { right. exists i. split; auto. eexists; eauto. }
      destruct (install_core _ _ _ _ _ Ca Hpc H5) as (t' & [= <-] & Eid & C3 & L3 & R3 & F3 & (nr & Hnr & Pnr) & Cl3).
      destruct (IH c (PElem i) wa tc w3 Ca Hpc H5) as (X1 & X2 & X3).
      assert (Hi3 : w_nodes w3 i = Some n0) by (rewrite F3; auto).
      apply wbind_inv in H6 as [([cs ts] & w4 & H7 & H8) | (e' & H7 & [=])].
      apply wret_inv in H8 as ([= -> ->] & ->).
      destruct (IHr w3 cs ts w4 C3 Hi3 ltac:(lia) H7) as (C4 & L4 & F4 & K4 & O4 & CL4 & E4 & TY4).
      rewrite elems_cons_elem.
      split; [exact C4|]. split; [lia|]. split; [intros j Hj; rewrite F4 by lia; apply F3; auto|].
      split.
      { intros c0 [<-|Hc0]; [|auto]. rewrite Eid. exists nr. split; auto. rewrite F4 by lia. auto. }
      split.
      { intros S HO. eapply OrphE_weaken; [|apply O4; apply X1; exact HO]. cbn beta.
        intros x [[Hs|(-> & _)]|Hin]; [left; exact Hs|right; left; exact Eid|right; right; exact Hin]. }
      split.
      { intros Hall CLa. apply CL4; [intros c0 Hc0; apply Hall; right; auto|]. apply X2; auto. apply Hall. left. auto. }
      split.
      { intros Hno. exfalso. apply (Hno c). left. auto. }
      intros k tk pos j Hk Hj. destruct k as [|k].
      + cbn in Hk. injection Hk as <-. destruct (X3 _ _ Hj) as (n & sub & Hn & Hs & Ht & Hge).
        exists n, c, sub. split; [reflexivity|]. split; [|auto]. rewrite F4; auto.
        assert (allocated w3 j) as Ha by (eexists; eauto). apply C3 in Ha. exact Ha.
      + cbn in Hk. destruct (TY4 _ _ _ _ Hk Hj) as (n & c0 & sub & A & B & Cc & Dd & Ee). exists n, c0, sub.
        split; auto. split; auto. split; auto. split; auto. lia.
    - apply wbind_inv in Hg as [([cs ts] & w4 & H7 & H8) | (e' & H7 & [=])].
      apply wret_inv in H8 as ([= -> ->] & ->).
      destruct (IHr wa cs ts w4 Ca Hia Hlt H7) as (C4 & L4 & F4 & K4 & O4 & CL4 & E4 & TY4).
      rewrite elems_cons_data.
      split; [exact C4|]. split; [exact L4|]. split; [exact F4|]. split; [exact K4|]. split; [exact O4|].
      split; [intros Hall; apply CL4; intros c0 Hc0; apply Hall; right; auto|].
      split; [intros Hno; apply E4; intros c0 Hc0; apply (Hno c0); right; auto|].
      intros k tk pos j Hk Hj. destruct k as [|k]; [discriminate Hk|].
      cbn in Hk. destruct (TY4 _ _ _ _ Hk Hj) as (n & c0 & sub & A & B & Cc & Dd & Ee). exists n, c0, sub. auto. }
  apply wbind_inv in H2 as [([items kds] & w2 & H3 & H4) | (e' & H3 & [=])].
  destruct (G _ _ _ _ _ C1 Hi1 ltac:(cbn; lia) H3) as (C2 & L2 & F2 & K2 & O2 & CL2 & E2 & TY2).
  clear G.
  apply wbind_inv in H4 as [(u & w3 & H5 & H6) | (e' & H5 & [=])].
  apply wret_inv in H6 as ([= ->] & ->).
  apply modify_node_wset in H5 as (n & Hn & _ & ->).
  assert (n = n0) as -> by (rewrite F2 in Hn by (cbn; lia); congruence).
  assert (Hs2 : skel w2 i = Some (parent, [])) by (rewrite (skel_some _ _ _ Hn); reflexivity).
  split; [|split].
  - intros S HO.
    pose proof (orphe_alloc _ _ parent S C (alloc1_walloc w n0) (skel_walloc_new w n0) HO) as HO1.
    apply O2 in HO1.
    pose proof (orphe_set_kids w2 _ i parent [] (elems items) _ (upd1_wset w2 i (set_content n0 items)) Hs2
                               (skel_wset_eq _ _ _) (fun x (Hx : In x []) => match Hx with end) HO1) as HO2.
    eapply OrphE_weaken; [|exact HO2]. cbn beta. intros x ([[Hs|Hx]|Hin] & Hnot); auto.
    exfalso. apply Hnot. split; auto.
  - intros EC CLw. inversion EC as [nm ty0 at0 ct0 cm0 Hch Hkids]; subst.
    assert (CL1 : CharsLeaf T (walloc w n0)).
    { eapply CharsLeaf_frame; [|exact CLw]. apply frame_walloc; [apply cNR_refl| |intros _; reflexivity].
      destruct (w_nodes w (w_next w)) eqn:E; auto. exfalso. assert (allocated w (w_next w)) as Ha by (eexists; eauto).
      apply C in Ha. lia. }
    eapply CharsLeaf_wset; [apply CL2; [exact Hkids|exact CL1]|exact Hn|].
    split; [reflexivity|]. intros Hc _. unfold kids. cbn. apply E2. apply Hch. exact Hc.
  - intros pos j Hj. destruct pos as [|k pos].
    + cbn in Hj. injection Hj as <-. exists (set_content n0 items), (Parser.ENode name ty attrs content comment).
      split; [apply nodes_wset_eq|]. split; [reflexivity|]. split; [reflexivity|apply N.le_refl].
    + cbn [it_at] in Hj. destruct (nth_error kds k) as [[tc|]|] eqn:Ek; try discriminate Hj.
      destruct (TY2 _ _ _ _ Ek Hj) as (n & c & sub & A & B & Cc & Dd & Ee). cbn [w_next walloc] in Ee.
      exists n, sub. split; [rewrite nodes_wset_neq by (unfold i; lia); exact B|].
      split; [cbn [et_at et_content]; rewrite A; exact Cc|]. split; [exact Dd|unfold i in *; lia].
Qed.

(* ------------------------------------------------------------------ Part 2: the merge keeps NoOrphanP and CharsLeaf *)
Definition J (w : world) : Prop := NoOrphanP w /\ CharsLeaf T w.
Definition JOK {A} (m : W A) : Prop := forall w a w', J w -> m w = Val (OK a, w') -> J w'.

Lemma JOK_ro {A} (m : W A) : ro m -> JOK m.
Proof. intros H w a w' I E. apply H in E. subst. exact I. Qed.
Lemma JOK_bind {A B} (m : W A) (k : A -> W B) : JOK m -> (forall a, JOK (k a)) -> JOK (wbind m k).
Proof.
  intros Hm Hk w b w' I H. apply wbind_inv in H as [(a & w1 & H1 & H2) | (e & H1 & [=])].
  eapply Hk; [|exact H2]. eapply Hm; eauto.
Qed.
Lemma J_wset_keep w i n n' : J w -> w_nodes w i = Some n ->
  n_parent n' = n_parent n -> n_type n' = n_type n -> kids n' = kids n -> J (wset w i n').
Proof.
  intros (O & CL) Hn Hp Ht Hk. split.
  - eapply NoOrphanP_same_tree; [eapply st_wset; eauto|exact O].
  - eapply CharsLeaf_wset; eauto. split; auto. intros _ H0. rewrite Hk. exact H0.
Qed.
Lemma JOK_modify_keep i f :
  (forall n, n_parent (f n) = n_parent n /\ n_type (f n) = n_type n /\ kids (f n) = kids n) -> JOK (modify_node i f).
Proof.
  intros Hf w a w' I H. apply modify_node_wset in H as (n & Hn & _ & ->). destruct (Hf n) as (A1 & A2 & A3).
  eapply J_wset_keep; eauto.
Qed.

Lemma calc_range_not_chars n name v w r w' :
  calc_element_insert_range T n name v w = Val (OK r, w') -> content_mode T (n_type n) <> Val MCharacters.
Proof.
  unfold calc_element_insert_range. intros H Hc.
  apply wbind_inv in H as [(mode & w1 & H1 & H2) | (e & _ & [=])].
  apply wl_inv in H1 as (m0 & Em & [= ->] & ->). rewrite Hc in Em. injection Em as <-.
  cbn in H2. apply wfail_inv in H2 as ([=] & _).
Qed.

Lemma JOK_restrict files : forall l, JOK (restrict_a_only l files).
Proof.
  induction l as [|e l IH]; cbn [restrict_a_only]; [apply JOK_ro; ro_tac|].
  apply JOK_bind; [|intros _; exact IH]. apply JOK_modify_keep. intros n. destruct (is_empty (n_files n)); repeat split.
Qed.

Lemma JOK_import pa nf minv : forall l idx, JOK (import_new_items T pa l idx nf minv).
Proof.
  induction l as [|[x ipos] l IH]; intros idx w a w' I H; cbn [import_new_items] in H.
  - apply wret_inv in H as (_ & ->). exact I.
  - destruct I as (O & CL).
    apply wbind_inv in H as [(u1 & w1 & E1 & H) | (e & _ & [=])].
    apply modify_node_wset in E1 as (nx & Hnx & _ & ->).
    set (w1 := wset w x (set_parent nx (PElem pa))) in *.
    assert (O1 : OrphE w1 (fun y => False \/ y = x)).
    { eapply (orphe_reparent w w1 x (n_parent nx) (kids nx) pa); [apply upd1_wset|apply skel_some; exact Hnx|
        unfold w1; rewrite skel_wset_eq; reflexivity|apply NoOrphanP_OrphSubE; exact O]. }
    assert (CL1 : CharsLeaf T w1).
    { eapply CharsLeaf_wset; eauto. split; auto. }
    apply wbind_inv in H as [(u2 & w2 & E2 & H) | (e & _ & [=])].
    apply modify_node_wset in E2 as (nx2 & Hnx2 & _ & ->).
    unfold w1 in Hnx2. rewrite nodes_wset_eq in Hnx2. injection Hnx2 as <-.
    set (nx3 := set_files _ _) in *. set (w2 := wset w1 x nx3) in *.
    assert (S12 : same_tree w1 w2) by (eapply st_wset; [apply nodes_wset_eq|reflexivity|reflexivity]).
    assert (O2 : OrphE w2 (fun y => False \/ y = x)) by (eapply OrphE_same_tree; eauto).
    assert (CL2 : CharsLeaf T w2).
    { eapply CharsLeaf_wset; [exact CL1|apply nodes_wset_eq|]. split; auto. }
    apply wbind_inv in H as [(ne & w3 & E3 & H) | (e & _ & [=])]. apply get_node_inv in E3 as (ne' & Hne & [= ->] & ->).
    apply wbind_inv in H as [(pan & w4 & E4 & H) | (e & _ & [=])]. apply get_node_inv in E4 as (npa & Hnpa & [= ->] & ->).
    apply wbind_inv in H as [(range & w5 & E5 & H) | (e & _ & [=])].
    apply wcatch_inv in E5 as (r0 & E5 & [= ->]).
    pose proof (ro_calc_range T _ _ _ _ _ _ E5) as ->.
    destruct r0 as [[fp lp]|e]; [|apply wfail_inv in H as ([=] & _)].
    pose proof (calc_range_not_chars _ _ _ _ _ _ E5) as Hnc.
    apply wbind_inv in H as [(u3 & w6 & E6 & H) | (e & _ & [=])].
    apply content_insert_inv in E6 as (npa' & Hnpa' & _ & ->). rewrite Hnpa in Hnpa'. injection Hnpa' as <-.
    set (npa2 := set_content npa _) in *. set (w3 := wset w2 pa npa2) in *.
    assert (Hpx : par w2 x pa) by (exists nx3; split; [apply nodes_wset_eq|reflexivity]).
    assert (O3 : NoOrphanP w3).
    { apply NoOrphanP_OrphSubE.
      eapply OrphE_weaken; [|eapply (orphe_insert w2 w3 pa (n_parent npa) (kids npa) _ x);
        [apply upd1_wset|apply skel_some; exact Hnpa|unfold w3; rewrite skel_wset_eq; reflexivity| |exact Hpx|exact O2]].
      - cbn beta. intros y ([[]| ->] & Hne'). congruence.
      - intros y. unfold npa2, kids. cbn [n_content set_content]. apply elems_insert_in. }
    assert (CL3 : CharsLeaf T w3).
    { eapply CharsLeaf_wset; [exact CL2|exact Hnpa|]. split; [reflexivity|]. intros Hc. contradiction. }
    eapply IH; [split; [exact O3|exact CL3]|exact H].
Qed.

Lemma JOK_walk {A} (f : res (out A)) :
  JOK (fun w0 => match f with Val o => Val (o, w0) | Pan s => Pan s | Fuel => Fuel end).
Proof. intros w a w' I H. destruct f as [o| |]; try discriminate H. injection H as _ <-. exact I. Qed.

Lemma JOK_merge LATEST ndr : forall fuel pa files pb nf, JOK (merge_element T LATEST ndr fuel pa files pb nf).
Proof.
  induction fuel as [|fl IH]; intros pa files pb nf; [intros w a w' _ H; discriminate H|].
  cbn [merge_element].
  apply JOK_bind; [apply JOK_ro; ro_tac|intros w0].
  apply JOK_bind; [apply JOK_ro; ro_tac|intros na].
  apply JOK_bind; [apply JOK_ro; ro_tac|intros nb].
  apply JOK_bind; [apply JOK_ro; ro_tac|intros la].
  apply JOK_bind; [apply JOK_ro; ro_tac|intros lb].
  apply JOK_bind; [apply JOK_ro; ro_tac|intros sp].
  apply JOK_bind; [apply JOK_walk|intros wk].
  apply JOK_bind; [apply JOK_restrict|intros _].
  apply JOK_bind; [apply JOK_import|intros _].
  induction (wk_merge wk) as [|[ea eb] l IHl]; [apply JOK_ro; ro_tac|].
  apply JOK_bind; [apply JOK_ro; ro_tac|intros nea].
  apply JOK_bind; [apply IH|intros _].
  apply JOK_bind; [|intros _; exact IHl].
  apply JOK_modify_keep. intros n. destruct (negb (is_empty (n_files n))); repeat split.
Qed.

Lemma JOK_merge_file_data LATEST ndr m re fid : JOK (merge_file_data T LATEST ndr m re fid).
Proof.
  unfold merge_file_data.
  apply JOK_bind; [apply JOK_ro; ro_tac|intros x].
  apply JOK_bind; [apply JOK_ro; ro_tac|intros w0].
  apply JOK_bind; [apply JOK_merge|intros _].
  apply JOK_bind; [apply JOK_ro; ro_tac|intros x2].
  apply JOK_modify_keep. intros n. repeat split.
Qed.

(* ---------- CharsLeaf at EVERY exit of the merge ---------- *)
Definition CAny {A} (m : W A) : Prop := forall w r w', CharsLeaf T w -> m w = Val (r, w') -> CharsLeaf T w'.
Lemma CAny_ro {A} (m : W A) : ro m -> CAny m.
Proof. intros H w r w' I E. apply H in E. subst. exact I. Qed.
Lemma CAny_bind {A B} (m : W A) (k : A -> W B) : CAny m -> (forall a, CAny (k a)) -> CAny (wbind m k).
Proof.
  intros Hm Hk w r w' I H. apply wbind_inv in H as [(a & w1 & H1 & H2) | (e & H1 & _)].
  - eapply Hk; [|exact H2]. eapply Hm; eauto.
  - eapply Hm; eauto.
Qed.
Lemma CAny_modify_keep i f :
  (forall n, n_type (f n) = n_type n /\ kids (f n) = kids n) -> CAny (modify_node i f).
Proof.
  intros Hf w r w' CL H. apply modify_node_wset in H as (n & Hn & _ & ->). destruct (Hf n) as (A1 & A2).
  eapply CharsLeaf_wset; eauto. split; auto. intros _ H0. rewrite A2. exact H0.
Qed.
Lemma CAny_restrict files : forall l, CAny (restrict_a_only l files).
Proof.
  induction l as [|e l IH]; cbn [restrict_a_only]; [apply CAny_ro; ro_tac|].
  apply CAny_bind; [|intros _; exact IH]. apply CAny_modify_keep. intros n. destruct (is_empty (n_files n)); split; reflexivity.
Qed.
Lemma CAny_import pa nf minv : forall l idx, CAny (import_new_items T pa l idx nf minv).
Proof.
  induction l as [|[x ipos] l IH]; intros idx; cbn [import_new_items]; [apply CAny_ro; ro_tac|].
  apply CAny_bind; [apply CAny_modify_keep; intros n; split; reflexivity|intros _].
  apply CAny_bind; [apply CAny_modify_keep; intros n; split; reflexivity|intros _].
  intros w r w' CL H.
  apply wbind_inv in H as [(ne & w3 & E3 & H) | (e & E3 & _)]; [|apply get_node_inv in E3 as (? & _ & [=] & _)].
  apply get_node_inv in E3 as (ne' & Hne & [= ->] & ->).
  apply wbind_inv in H as [(pan & w4 & E4 & H) | (e & E4 & _)]; [|apply get_node_inv in E4 as (? & _ & [=] & _)].
  apply get_node_inv in E4 as (pan' & Hpan & [= ->] & ->).
  apply wbind_inv in H as [(range & w5 & E5 & H) | (e & E5 & _)]; [|apply wcatch_inv in E5 as (? & _ & [=])].
  apply wcatch_inv in E5 as (r0 & E5 & [= ->]).
  pose proof (ro_calc_range T _ _ _ _ _ _ E5) as ->.
  destruct r0 as [[fp lp]|e]; [|apply wfail_inv in H as (_ & ->); exact CL].
  pose proof (calc_range_not_chars _ _ _ _ _ _ E5) as Hnc.
  apply wbind_inv in H as [(u3 & w6 & E6 & H) | (e & E6 & _)]; [|apply content_insert_inv in E6 as (? & _ & [=] & _)].
  apply content_insert_inv in E6 as (npa & Hnpa & _ & ->).
  rewrite Hpan in Hnpa. injection Hnpa as <-.
  eapply IH; [|exact H]. eapply CharsLeaf_wset; [exact CL|exact Hpan|]. split; [reflexivity|].
  intros Hc. contradiction.
Qed.

Lemma CAny_walk {A} (f : res (out A)) :
  CAny (fun w0 => match f with Val o => Val (o, w0) | Pan s => Pan s | Fuel => Fuel end).
Proof. intros w a w' I H. destruct f as [o| |]; try discriminate H. injection H as _ <-. exact I. Qed.

Lemma CAny_merge LATEST ndr : forall fuel pa files pb nf, CAny (merge_element T LATEST ndr fuel pa files pb nf).
Proof.
  induction fuel as [|fl IH]; intros pa files pb nf; [intros w a w' _ H; discriminate H|].
  cbn [merge_element].
  apply CAny_bind; [apply CAny_ro; ro_tac|intros w0].
  apply CAny_bind; [apply CAny_ro; ro_tac|intros na].
  apply CAny_bind; [apply CAny_ro; ro_tac|intros nb].
  apply CAny_bind; [apply CAny_ro; ro_tac|intros la].
  apply CAny_bind; [apply CAny_ro; ro_tac|intros lb].
  apply CAny_bind; [apply CAny_ro; ro_tac|intros sp].
  apply CAny_bind; [apply CAny_walk|intros wk].
  apply CAny_bind; [apply CAny_restrict|intros _].
  apply CAny_bind; [apply CAny_import|intros _].
  induction (wk_merge wk) as [|[ea eb] l IHl]; [apply CAny_ro; ro_tac|].
  apply CAny_bind; [apply CAny_ro; ro_tac|intros nea].
  apply CAny_bind; [apply IH|intros _].
  apply CAny_bind; [|intros _; exact IHl].
  apply CAny_modify_keep. intros n. destruct (negb (is_empty (n_files n))); split; reflexivity.
Qed.

Lemma CAny_merge_file_data LATEST ndr m re fid : CAny (merge_file_data T LATEST ndr m re fid).
Proof.
  unfold merge_file_data.
  apply CAny_bind; [apply CAny_ro; ro_tac|intros x].
  apply CAny_bind; [apply CAny_ro; ro_tac|intros w0].
  apply CAny_bind; [apply CAny_merge|intros _].
  apply CAny_bind; [apply CAny_ro; ro_tac|intros x2].
  apply CAny_modify_keep. intros n. split; reflexivity.
Qed.


(* ------------------------------------------------------------------ Part 3: kill / drop and the three invariants *)
(* every node stays allocated with its type *)
Definition tkeep (w w' : world) : Prop :=
  forall i n, w_nodes w i = Some n -> exists n', w_nodes w' i = Some n' /\ n_type n' = n_type n.
Lemma tkeep_refl w : tkeep w w. Proof. intros i n H. eauto. Qed.
Lemma tkeep_trans a b c : tkeep a b -> tkeep b c -> tkeep a c.
Proof. intros H1 H2 i n H. destruct (H1 _ _ H) as (n1 & A & B). destruct (H2 _ _ A) as (n2 & A2 & B2). exists n2. split; auto. congruence. Qed.
Lemma tkeep_nodes w w' : (forall x, w_nodes w' x = w_nodes w x) -> tkeep w w'.
Proof. intros H i n Hn. rewrite H. eauto. Qed.
Lemma tkeep_wset w i n n' : w_nodes w i = Some n -> n_type n' = n_type n -> tkeep w (wset w i n').
Proof.
  intros Hn Ht j nj Hj. destruct (N.eq_dec j i) as [->|Hne].
  - rewrite nodes_wset_eq. exists n'. split; auto. congruence.
  - rewrite nodes_wset_neq by auto. eauto.
Qed.
Lemma OriginsRef_keep w w' : osub w w' -> tkeep w w' -> OriginsRef T w -> OriginsRef T w'.
Proof.
  intros Hs Ht O re Hre. apply Hs in Hre. destruct (O _ Hre) as (n & Hn & Hr).
  destruct (Ht _ _ Hn) as (n' & Hn' & E). exists n'. split; auto. congruence.
Qed.

Lemma kill_tkeep from keep w r wk : kill_unreachable from keep w = Val (r, wk) -> tkeep w wk /\ w_models wk = w_models w.
Proof.
  intros H. apply kill_spec in H as (_ & _ & _ & Hm & Hn). split; auto. intros i n Hi. rewrite Hn, Hi.
  destruct (killedb from keep w i); cbn; eauto.
Qed.
Lemma kill_chars from keep w r wk : kill_unreachable from keep w = Val (r, wk) -> CharsLeaf T w -> CharsLeaf T wk.
Proof.
  intros H CL i n' Hn' Hc. apply kill_spec in H as (_ & _ & _ & _ & Hn). rewrite Hn in Hn'.
  destruct (killedb from keep w i).
  - destruct (w_nodes w i) as [n|]; [|discriminate]. cbn in Hn'. injection Hn' as <-.
    unfold kids, kill. cbn. apply elems_cdata_only.
  - eapply CL; eauto.
Qed.
Lemma kill_orph from keep w r wk :
  kill_unreachable from keep w = Val (r, wk) -> NoOrphanP w ->
  (forall c p, killedb from keep w c = false -> par w c p -> killedb from keep w p = false) -> NoOrphanP wk.
Proof.
  intros H O Hcl c p Hp. apply kill_spec in H as (_ & _ & _ & _ & Hn).
  destruct Hp as (nc & Hnc & Hpc). rewrite Hn in Hnc.
  destruct (killedb from keep w c) eqn:Kc.
  - destruct (w_nodes w c); [|discriminate]. cbn in Hnc. injection Hnc as <-. discriminate Hpc.
  - assert (Hp0 : par w c p) by (exists nc; auto). pose proof (Hcl _ _ Kc Hp0) as Kp.
    destruct (O _ _ Hp0) as (np & Hnp & Hin). exists np. split; auto. rewrite Hn, Kp. exact Hnp.
Qed.

Lemma drop_file_keep f w r w' : drop_file f w = Val (r, w') ->
  same_tree w w' /\ tkeep w w' /\ w_models w' = w_models w /\ (CharsLeaf T w -> CharsLeaf T w').
Proof.
  unfold drop_file. generalize (DEAD_FILE_BASE + w_next w) as d. intros d [= _ <-].
  assert (Hsk : forall i, skel (mkWorld (fun i => option_map (rename_file f d) (w_nodes w i))
                                      (w_next w) (removelast (w_files w)) (w_models w)) i = skel w i).
  { intros i. unfold skel. cbn [w_nodes]. destruct (w_nodes w i) as [n|]; cbn; auto.
    unfold rename_file. destruct (set_mem f (n_files n)); reflexivity. }
  split; [repeat split; auto|]. split; [|split; [reflexivity|]].
  - intros i n Hn. cbn [w_nodes]. rewrite Hn. cbn. eexists. split; [reflexivity|].
    unfold rename_file. destruct (set_mem f (n_files n)); reflexivity.
  - intros CL i n' Hn' Hc. cbn [w_nodes] in Hn'. destruct (w_nodes w i) as [n|] eqn:E; [|discriminate]. cbn in Hn'.
    injection Hn' as <-. unfold rename_file in *.
    destruct (set_mem f (n_files n)); exact (CL _ _ E Hc).
Qed.

(* ------------------------------------------------------------------ Part 4: the invariant for loads *)
Definition RealInvL (w : world) : Prop := TreeInvL w /\ CharsLeaf T w /\ OriginsRef T w.

(* the recorded references are elements of a reference type *)
Definition ERefs (root : Parser.etree) (refs : list (list N * list nat)) : Prop :=
  forall key pos sub, In (key, pos) refs -> et_at root pos = Some sub -> is_ref T (et_type sub) = Val true.

Lemma NoOrphanP_nodes w w' : (forall x, w_nodes w' x = w_nodes w x) -> NoOrphanP w -> NoOrphanP w'.
Proof.
  intros Hn O c p (nc & Hc & Hp). rewrite Hn in Hc. destruct (O c p) as (np & Hnp & Hin); [exists nc; auto|].
  exists np. rewrite Hn. auto.
Qed.
Lemma CharsLeaf_nodes w w' : (forall x, w_nodes w' x = w_nodes w x) -> CharsLeaf T w -> CharsLeaf T w'.
Proof. intros Hn CL i n Hi. rewrite Hn in Hi. eapply CL; eauto. Qed.
Lemma J_nodes w w' : (forall x, w_nodes w' x = w_nodes w x) -> J w -> J w'.
Proof. intros Hn (O & CL). split; [eapply NoOrphanP_nodes|eapply CharsLeaf_nodes]; eauto. Qed.
Lemma RefNode_tkeep w w' re : tkeep w w' -> RefNode T w re -> RefNode T w' re.
Proof. intros Ht (n & Hn & Hr). destruct (Ht _ _ Hn) as (n' & Hn' & E). exists n'. split; auto. congruence. Qed.

Lemma osp_fill_identifiables m t : forall l, osp (fill_identifiables m t l).
Proof.
  induction l as [|[key pos] l IH]; cbn [fill_identifiables]; [os_tac|].
  destruct (it_at t pos); [|os_tac]. apply osp_bind; [os_tac|intros w0]. apply osp_bind; [os_tac|intros x].
  destruct (ident_live w0 x key); [exact IH|]. apply osp_bind; [|intros _; exact IH].
  unfold add_identifiable. apply osp_modify_model. intros y k l0 re Hk Hre. cbn in Hk. eauto.
Qed.

Lemma fill_refs_oref m t : forall l w r w',
  (forall key pos e, In (key, pos) l -> it_at t pos = Some e -> RefNode T w e) ->
  OriginsRef T w -> fill_references m t l w = Val (r, w') -> OriginsRef T w'.
Proof.
  induction l as [|[key pos] l IH]; intros w r w' Hall O H; cbn [fill_references] in H.
  - apply wret_inv in H as (_ & ->). exact O.
  - destruct (it_at t pos) as [e|] eqn:Ee; [|discriminate H].
    apply wbind_inv in H as [(u & w1 & H1 & H2) | (er & H1 & _)].
    2:{ unfold add_reference_origin in H1. apply modify_model_inv in H1 as (? & _ & [=] & _). }
    assert (Hn1 : forall x, w_nodes w1 x = w_nodes w x).
    { unfold add_reference_origin in H1. apply modify_model_inv in H1 as (x0 & _ & _ & ->). reflexivity. }
    assert (O1 : OriginsRef T w1).
    { intros re Hre. destruct (oap_add_reference_origin e True m key I _ _ _ H1 re Hre) as [Hin|(-> & _)].
      - eapply RefNode_tkeep; [apply tkeep_nodes; exact Hn1|apply O; exact Hin].
      - eapply RefNode_tkeep; [apply tkeep_nodes; exact Hn1|]. eapply Hall; [left; reflexivity|exact Ee]. }
    eapply IH; [|exact O1|exact H2]. intros k p0 e0 Hin He0.
    eapply RefNode_tkeep; [apply tkeep_nodes; exact Hn1|]. eapply Hall; [right; exact Hin|exact He0].
Qed.

(* the first load: the incoming root becomes the root of the model *)
Lemma first_load_J m re fid w2 r wa :
  (exists n, w_nodes w2 re = Some n /\ n_parent n = PNone) ->
  (modify_node re (fun n => set_parent n (PModel m));;
   modify_node re (fun n => set_files n (set_add fid (n_files n)));;
   modify_model m (fun y => set_root y re))%W w2 = Val (r, wa) ->
  (J w2 -> J wa) /\ tkeep w2 wa /\ osub w2 wa.
Proof.
  intros (n & Hn & Hpn) H.
  bstep H u1 w3 E1; [|apply modify_node_wset in E1 as (? & _ & [=] & _)].
  apply modify_node_wset in E1 as (n' & Hn' & _ & ->). rewrite Hn in Hn'. injection Hn' as <-.
  bstep H u2 w4 E2; [|apply modify_node_wset in E2 as (? & _ & [=] & _)].
  apply modify_node_wset in E2 as (n2 & Hn2 & _ & ->). rewrite nodes_wset_eq in Hn2. injection Hn2 as <-.
  set (n1 := set_parent n (PModel m)) in *. set (n2 := set_files n1 _) in *.
  set (w3 := wset w2 re n1) in *. set (w4 := wset w3 re n2) in *.
  assert (Hn4 : forall x, w_nodes wa x = w_nodes w4 x /\ True).
  { apply modify_model_inv in H as (x0 & _ & _ & ->). intros x. split; reflexivity. }
  assert (Hos : osub w4 wa).
  { eapply (osp_modify_model m (fun y => set_root y re)); [|exact H]. intros y k l re0 Hk Hre. cbn in Hk. eauto. }
  split; [|split].
  - intros (O & CL). apply (J_nodes w4); [intros x; apply Hn4|]. split.
    + intros c p (nc & Hc & Hp). destruct (N.eq_dec c re) as [->|Hcr].
      * unfold w4 in Hc. rewrite nodes_wset_eq in Hc. injection Hc as <-. discriminate Hp.
      * unfold w4, w3 in Hc. rewrite !nodes_wset_neq in Hc by auto.
        destruct (O c p) as (np & Hnp & Hin); [exists nc; auto|].
        destruct (N.eq_dec p re) as [->|Hpr].
        -- exists n2. split; [apply nodes_wset_eq|]. rewrite Hn in Hnp. injection Hnp as <-. exact Hin.
        -- exists np. unfold w4, w3. rewrite !nodes_wset_neq by auto. auto.
    + eapply CharsLeaf_wset; [eapply CharsLeaf_wset; [exact CL|exact Hn|split; auto]|apply nodes_wset_eq|split; auto].
  - eapply tkeep_trans; [|apply tkeep_nodes; intros x; apply Hn4].
    apply (tkeep_trans w2 w3 w4); [apply (tkeep_wset w2 re n n1 Hn eq_refl)|apply (tkeep_wset w3 re n1 n2 (nodes_wset_eq _ _ _) eq_refl)].
  - eapply osub_trans; [|exact Hos]. apply osub_models. reflexivity.
Qed.

(* ------------------------------------------------------------------ Part 5: load_parsed *)
Variable LATEST name_definition_ref : N.

Lemma WorldEff_keep nf w w' : LoadEffects.WorldEff nf w w' -> tkeep w w' /\ w_models w' = w_models w.
Proof.
  intros (_ & _ & Hm & Hj). split; auto. intros i n Hn. specialize (Hj i). rewrite Hn in Hj.
  destruct (w_nodes w' i) as [n'|]; [|contradiction]. exists n'. split; auto. apply Hj.
Qed.

Lemma load_parsed_real m filename root st w r w' :
  RealInvL w -> EChars root -> ERefs root (Parser.p_refs st) ->
  (forall t w1 x, install PNone root w = Val (OK t, w1) ->
     let w2 := mkWorld (w_nodes w1) (w_next w1)
                       (w_files w1 ++ [mkFile m filename (Parser.p_version st) (Parser.p_standalone st)]) (w_models w1) in
     nth_opt (w_models w2) (N.to_nat m) = Some x -> is_empty (m_files x) = false ->
     merge_shared T LATEST name_definition_ref (fuel_of w2) (m_root x) (fold_right set_add [] (m_files x)) (it_id t)
                  (N.of_nat (List.length (w_files w))) w2 = false) ->
  r <> ER InvalidFileMerge ->
  load_parsed T LATEST name_definition_ref m filename root st w = Val (r, w') -> RealInvL w'.
Proof.
  intros ((C & O) & CL & OR) EC ER Hshared Hrej H.
  assert (Cw' : Core w') by (eapply load_parsed_core; eauto).
  cut (NoOrphanP w' /\ CharsLeaf T w' /\ OriginsRef T w').
  { intros (A & B & D). split; [split|split]; auto. }
  clear Cw'. unfold load_parsed in H.
  bstep H w0 wx E0; [|apply wget_inv in E0 as ([=] & _)]. apply wget_inv in E0 as ([= ->] & ->).
  bstep H t w1 E1.
  2:{ destruct (install_core _ _ _ _ _ C (or_introl eq_refl) E1) as (t' & [=] & _). }
  destruct (install_core _ _ _ _ _ C (or_introl eq_refl) E1) as (t' & [= <-] & Eid & C1 & L1 & R1 & F1 & (nr & Hnr & Pnr) & Cl1).
  destruct (install_extra _ _ _ _ _ C (or_introl eq_refl) E1) as (X1 & X2 & X3).
  pose proof (LoadProofs.above_install (w_next w) _ _ _ _ _ (N.le_refl _) E1) as (_ & _ & _ & Hm1).
  specialize (Hshared t w1).
  set (base := w_next w) in *. set (re := it_id t) in *.
  assert (O1 : NoOrphanP w1).
  { apply NoOrphanP_OrphSubE. eapply OrphE_weaken; [|apply X1; apply NoOrphanP_OrphSubE; exact O].
    cbn beta. intros x [[]|(_ & Hne)]. congruence. }
  assert (CL1 : CharsLeaf T w1) by (apply X2; auto).
  assert (TK1 : tkeep w w1).
  { intros i n Hn. assert (allocated w i) as Ha by (eexists; eauto). apply C in Ha. rewrite F1 by exact Ha. eauto. }
  assert (OR1 : OriginsRef T w1) by (eapply OriginsRef_keep; [apply osub_models; exact Hm1|exact TK1|exact OR]).
  bstep H w1' wx E2; [|apply wget_inv in E2 as ([=] & _)]. apply wget_inv in E2 as ([= ->] & ->).
  bstep H x0 wx E3; [|apply get_model_inv in E3 as (? & _ & [=] & _)]. apply get_model_inv in E3 as (x0' & Hx0 & [= ->] & ->).
  bstep H ov wx E4; [|apply wl_inv in E4 as (? & _ & [=] & _)]. apply wl_inv in E4 as (ov' & _ & [= ->] & ->).
  assert (Hroots_old : forall k r0, nth_error (roots w1) k = Some r0 -> r0 < base).
  { intros k r0 Hk. rewrite R1 in Hk. destruct (c_roots _ C _ _ Hk) as (n & Hn & _). apply C. eexists; eauto. }
  assert (Hold_par : forall c p, c < base -> par w1 c p -> p < base).
  { intros c p Hc (n & Hn & Hp). rewrite F1 in Hn by auto. assert (Hp0 : par w c p) by (exists n; auto).
    apply par_alloc in Hp0; auto. apply C. auto. }
  assert (Hold_closed : forall p c, p < base -> lists w1 p c -> c < base).
  { intros p c Hp (n & Hn & Hc). rewrite F1 in Hn by auto. assert (Hl : lists w p c) by (exists n; auto).
    apply (c_up _ C) in Hl. destruct Hl as (nc & Hnc & _). apply C. eexists; eauto. }
  destruct ov'.
  - (* overlap *)
    bstep H u wk Ek; [|apply kill_spec in Ek as ([=] & _)].
    apply wfail_inv in H as (_ & ->).
    destruct (kill_tkeep _ _ _ _ _ Ek) as (TKk & Hmk).
    split; [|split].
    + eapply kill_orph; [exact Ek|exact O1|]. intros c p Kc Hp.
      destruct (killedb_false _ _ _ _ Kc) as [Hc|[Hc|[]]].
      * apply killedb_old. eauto.
      * exfalso. destruct Hp as (n & Hn & _). assert (allocated w1 c) as Ha by (eexists; eauto). apply C1 in Ha. lia.
    + eapply kill_chars; eauto.
    + eapply OriginsRef_keep; [apply osub_models; exact Hmk|exact TKk|exact OR1].
  - bstep H u w2 E5; [|apply wput_inv in E5 as ([=] & _)]. apply wput_inv in E5 as (_ & ->).
    set (w2 := mkWorld _ _ _ _) in *.
    assert (S12 : same_tree w1 w2) by (apply st_models; reflexivity).
    pose proof (Core_same_tree _ _ S12 C1) as C2.
    assert (J2 : J w2) by (apply (J_nodes w1); [reflexivity|split; auto]).
    assert (OR2 : OriginsRef T w2) by (eapply OriginsRef_keep; [apply osub_models; reflexivity|apply tkeep_nodes; reflexivity|exact OR1]).
    bstep H x wx E6; [|apply get_model_inv in E6 as (? & _ & [=] & _)]. apply get_model_inv in E6 as (x' & Hx & [= ->] & ->).
    bstep H rb w3 E7; [|apply wcatch_inv in E7 as (? & _ & [=])]. apply wcatch_inv in E7 as (rb' & E7 & [= ->]).
    bstep H x3 wx E8; [|apply get_model_inv in E8 as (? & _ & [=] & _)]. apply get_model_inv in E8 as (x3' & Hx3 & [= ->] & ->).
    bstep H w3' wx E9; [|apply wget_inv in E9 as ([=] & _)]. apply wget_inv in E9 as ([= ->] & ->).
    bstep H keep wq E10; [|exfalso; exact (LoadProofs.errs_dfs_ids (fun _ => False) _ _ _ _ _ E10)].
    pose proof (ro_dfs_ids _ _ _ _ _ E10) as ->.
    bstep H u2 wk E11; [|apply kill_spec in E11 as ([=] & _)].
    destruct rb' as [ub|eb].
    2:{ exfalso. apply Hrej.
        pose proof (LoadProofs.errs_merge_stage T LATEST name_definition_ref m x' re (N.of_nat (List.length (w_files w))) t st _ _ _ E7) as He.
        red in He. subst eb.
        apply wbind_inv in H as [(u3 & w5 & E12 & H) | (e5 & E12 & ->)]; [|discriminate E12].
        apply wfail_inv in H as (-> & _). reflexivity. }
    apply wret_inv in H as (_ & ->).
    apply wbind_inv in E7 as [(ua & wa & Ea & Etail) | (e & _ & [=])].
    (* the tail: index fills, then the file list *)
    destruct (nfp_stage_tail m t st _ _ _ _ Etail) as (Tn & Tx & Tr).
    apply wbind_inv in Etail as [(ui & wi & Ei & Etail) | (e & _ & [=])].
    apply wbind_inv in Etail as [(ur & wr & Er & Etail) | (e & _ & [=])].
    destruct (nfp_fill_identifiables m t _ _ _ _ Ei) as (Tni & _ & _).
    destruct (nfp_fill_references m t _ _ _ _ Er) as (Tnr & _ & _).
    assert (Href : forall wz, tkeep w1 wz -> forall key pos e, In (key, pos) (rev (Parser.p_refs st)) -> it_at t pos = Some e -> RefNode T wz e).
    { intros wz TKz key pos e Hin He. eapply RefNode_tkeep; [exact TKz|].
      destruct (X3 _ _ He) as (n & sub & Hn & Hs & Ht & _). exists n. split; auto. rewrite Ht.
      eapply ER; [apply in_rev; exact Hin|exact Hs]. }
    assert (Tail : tkeep w1 wa -> OriginsRef T wa -> OriginsRef T w3).
    { intros TKa ORa.
      assert (ORi : OriginsRef T wi).
      { eapply OriginsRef_keep; [eapply osp_fill_identifiables; exact Ei|apply tkeep_nodes; exact Tni|exact ORa]. }
      assert (ORr : OriginsRef T wr).
      { eapply fill_refs_oref; [|exact ORi|exact Er]. apply Href.
        eapply tkeep_trans; [exact TKa|apply tkeep_nodes; exact Tni]. }
      eapply OriginsRef_keep; [|apply tkeep_nodes|exact ORr].
      - eapply (osp_modify_model m); [|exact Etail]. intros y k l re0 Hk Hre. cbn in Hk. eauto.
      - apply modify_model_inv in Etail as (y & _ & _ & ->). reflexivity. }
    destruct (kill_tkeep _ _ _ _ _ E11) as (TKk & Hmk).
    destruct (is_empty (m_files x')) eqn:Efirst.
    + (* first load *)
      assert (Hre_node : exists n, w_nodes w2 re = Some n /\ n_parent n = PNone).
      { exists nr. split; [rewrite Eid; exact Hnr|exact Pnr]. }
      destruct (first_load_core m re (N.of_nat (List.length (w_files w))) w2 (OK ua) wa C2 Hre_node) as (Ca & Na & Fa & Ra & Rm); [|exact Ea|].
      { intros k r0 Hk Heq. apply Hroots_old in Hk. subst r0. rewrite Eid in Hk. lia. }
      destruct (first_load_J m re _ w2 _ wa Hre_node Ea) as (Ja & TKa & OSa).
      specialize (Ja J2). pose proof (J_nodes wa w3 Tn Ja) as (O3 & CL3).
      assert (C3 : Core w3) by (eapply Core_same_tree; [apply nfp_same_tree; eauto|exact Ca]).
      assert (OR3 : OriginsRef T w3).
      { apply Tail; [eapply tkeep_trans; [apply tkeep_nodes; reflexivity|exact TKa]|].
        eapply OriginsRef_keep; [exact OSa|exact TKa|exact OR2]. }
      assert (Hroot3 : m_root x3' = re).
      { apply nth_opt_roots in Hx3. rewrite Tr, Rm in Hx3. congruence. }
      rewrite Hroot3 in E10. destruct (dfs_ids_reach _ _ _ _ _ E10) as (Hself & Hsound & Hclosed).
      split; [|split].
      * eapply kill_orph; [exact E11|exact O3|]. intros c p Kc Hp.
        destruct (killedb_false _ _ _ _ Kc) as [Hc|[Hc|Hc]].
        -- apply killedb_old. assert (c <> re) by (rewrite Eid; lia).
           destruct Hp as (n & Hn & Hpp). rewrite Tn, Fa in Hn by auto.
           eapply Hold_par; [exact Hc|]. exists n. split; auto.
        -- exfalso. destruct Hp as (n & Hn & _). assert (allocated w3 c) as Ha by (eexists; eauto). apply C3 in Ha. lia.
        -- apply killedb_kept. apply Hsound in Hc. destruct Hc as [Ha|q c Hrq Hl].
           ++ exfalso. destruct Hp as (n & Hn & Hpp). rewrite Tn in Hn.
              destruct (c_roots _ Ca _ _ Rm) as (n0 & Hn0 & Hp0). congruence.
           ++ pose proof (c_up _ C3 _ _ Hl) as Hpq. rewrite (par_fun _ _ _ _ Hp Hpq).
              apply (dfs_ids_keep _ _ _ _ _ E10). exact Hrq.
      * eapply kill_chars; eauto.
      * eapply OriginsRef_keep; [apply osub_models; exact Hmk|exact TKk|exact OR3].
    + (* merge *)
      apply wbind_inv in Ea as [(mr & wb & Em & Ea) | (e & Em & [=])].
      apply wcatch_inv in Em as (mr' & Em & [= ->]).
      destruct mr' as [um|em].
      2:{ apply wbind_inv in Ea as [(x1 & w6 & _ & Ea) | (e & _ & [=])].
          apply wbind_inv in Ea as [(u6 & w7 & _ & Ea) | (e & _ & [=])].
          apply wfail_inv in Ea as ([=] & _). }
      apply wret_inv in Ea as (_ & ->).
      pose proof (JOK_merge_file_data LATEST name_definition_ref m re _ _ _ _ J2 Em) as Jb.
      destruct (WorldEff_keep _ _ _ (LoadEffects.merge_file_data_effects T LATEST name_definition_ref m re _ _ _ _ Em)) as (TKb & Hmb).
      pose proof (J_nodes wb w3 Tn Jb) as (O3 & CL3).
      assert (OR3 : OriginsRef T w3).
      { apply Tail; [eapply tkeep_trans; [apply tkeep_nodes; reflexivity|exact TKb]|].
        eapply OriginsRef_keep; [apply osub_models; exact Hmb|exact TKb|exact OR2]. }
      (* the merge invariant, for the kill *)
      unfold merge_file_data in Em.
      apply wbind_inv in Em as [(xm & wm & Em1 & Em) | (e & _ & [=])].
      apply get_model_inv in Em1 as (xm' & Hxm & [= ->] & ->).
      rewrite Hx in Hxm. injection Hxm as <-.
      apply wbind_inv in Em as [(wg & wm & Em2 & Em) | (e & _ & [=])].
      apply wget_inv in Em2 as ([= ->] & ->).
      apply wbind_inv in Em as [(ue & we & Eme & Em) | (e & _ & [=])].
      apply wbind_inv in Em as [(x2 & wm & Em3 & Em) | (e & _ & [=])].
      apply get_model_inv in Em3 as (x2' & Hx2 & [= ->] & ->).
      destruct ue.
      set (rt := m_root x').
      assert (Hr_root : nth_error (roots w2) (N.to_nat m) = Some rt) by (apply nth_opt_roots; exact Hx).
      assert (Hr_old : rt < base) by (eapply Hroots_old; rewrite <- Hr_root; reflexivity).
      assert (Hold_up : forall c p, c < base -> par w2 c p -> p < base).
      { intros c p Hc Hp. apply (proj1 (st_par _ _ _ _ S12)) in Hp. eauto. }
      assert (Hrb : parent_in w2 re = PNone).
      { unfold parent_in. cbn [w_nodes w2]. rewrite Eid. rewrite Hnr. exact Pnr. }
      assert (Hnew_up : forall c p, base <= c -> par w2 c p -> base <= p).
      { intros c p Hc Hp. apply (proj1 (st_par _ _ _ _ S12)) in Hp. destruct (N.eq_dec c base) as [->|Hne].
        - destruct Hp as (n & Hn & Hpp). rewrite Hnr in Hn. injection Hn as <-. congruence.
        - apply (Cl1 c p); auto. lia. }
      assert (M0 : MI base rt re w2 [] [] w2).
      { constructor.
        - apply Core_mask. exact C2.
        - reflexivity.
        - reflexivity.
        - intros p d _ [].
        - intros d [].
        - reflexivity.
        - reflexivity.
        - intros y [].
        - intros c p Hc Hp. left. eapply Hnew_up; eauto. }
      assert (Hrr : Reach w2 rt rt).
      { constructor. destruct (c_roots _ C2 _ _ Hr_root) as (n & Hn & _). eexists; eauto. }
      destruct (merge_ok T LATEST name_definition_ref base rt re w2 C2 Hr_old (ex_intro _ _ Hr_root) Hold_up Hrb
                         (fuel_of w2) rt (fold_right set_add [] (m_files x')) re (N.of_nat (List.length (w_files w)))
                         [] [] w2 we M0 Hrr) as (D' & Imp' & (Me & _ & _ & _) & _ & _);
        [intros []|intros []|rewrite Eid; apply N.le_refl|left; reflexivity|apply Hshared; auto|exact Eme|].
      assert (Seb : same_tree we wb).
      { eapply stp_modify_node; [|exact Em]. intros n. split; reflexivity. }
      pose proof (MI_same_tree _ _ _ _ _ _ _ _ Seb Me) as Mb.
      assert (Sb3 : same_tree wb w3) by (apply nfp_same_tree; auto).
      pose proof (MI_same_tree _ _ _ _ _ _ _ _ Sb3 Mb) as M3.
      assert (Hroot3 : m_root x3' = rt).
      { apply nth_opt_roots in Hx3. rewrite (mi_roots _ _ _ _ _ _ _ M3), Hr_root in Hx3. congruence. }
      rewrite Hroot3 in E10. pose proof (dfs_ids_keep _ _ _ _ _ E10) as Hkeep.
      split; [|split].
      * eapply kill_orph; [exact E11|exact O3|]. intros c p Kc Hp.
        destruct (killedb_false _ _ _ _ Kc) as [Hc|[Hc|Hc]].
        -- apply killedb_old. eapply Hold_up; [exact Hc|].
           apply par_parent_in. apply par_parent_in in Hp as (Ha & Hpp). split.
           ++ apply (proj2 (c_alloc _ C2 c)). unfold w2. cbn [w_next]. lia.
           ++ rewrite <- (mi_par _ _ _ _ _ _ _ M3); [exact Hpp|].
              intros Hin. apply (mi_imp _ _ _ _ _ _ _ M3) in Hin as (Hb & _). lia.
        -- exfalso. destruct Hp as (n & Hn & _). assert (allocated w3 c) as Ha by (eexists; eauto).
           apply (MI_alloc _ _ _ _ _ _ _ _ M3) in Ha. lia.
        -- apply killedb_kept. apply Hkeep.
           eapply (MI_reach_up base rt re w2 Hr_old (ex_intro _ _ Hr_root)); [exact M3| |apply Hkeep; exact Hc].
           eapply A_up; [exact Hp|constructor].
      * eapply kill_chars; eauto.
      * eapply OriginsRef_keep; [apply osub_models; exact Hmk|exact TKk|exact OR3].
Qed.

End Shape.
