(* Tree/FilesProofsDup3.v — C10 proofs, duplicate: FilesInvW of the COPY made by AutosarModel::duplicate, in the scope
   of agent-c13's C13_duplicate_text (the root has one sub-element, of a type that is not named — AR-PACKAGES —, and that
   sub-element is valid in every file version of the result, so that nothing is filtered out) but for SPLIT models:
   elements may carry their own file sets.
   The construction phase is agent-c13's (the first part of the proof below is the proof of
   CopyProofsDupAll.duplicate_text up to the point where the two roots are equal up to node ids, copied because it is
   not exposed as a lemma); the file map is dup_files_map, the membership phase iso_filesinv. *)
From AV Require Import Base.Bytes Base.Outcome Hash.HashModel Spec.SpecOps Tree.Heap Tree.Ops Tree.Script Tree.Copy
  Tree.Serialize Tree.Inv Tree.InvProofsCore Tree.InvProofsNav Tree.InvProofsOp2
  Tree.CopyProofsW Tree.CopyProofsDefs Tree.CopyProofsDeep Tree.CopyProofsCreate Tree.CopyProofsTop Tree.CopyProofsBridge
  Tree.CopyProofsDup Tree.CopyProofsFK Tree.CopyProofsText Tree.CopyProofsDupText Tree.CopyProofsDupAll Tree.CompatFrame Tree.CompatHist7.
From AV Require Tree.Files Tree.FilesLoad Tree.FilesProofsBase Tree.FilesProofsProj Tree.FilesProofsFrame Tree.FilesProofsOps
  Tree.FilesProofsAdd Tree.FilesProofsOwned Tree.FilesProofsDup Tree.FilesProofsDup2.
From Coq Require Import Lia PeanoNat.
Open Scope string_scope.
Open Scope list_scope.
Open Scope N_scope.

Import Files FilesLoad.

(* FilesInvW reads the root and the file list of the record only *)
Lemma FilesInvW_ext w x y : m_root x = m_root y -> m_files x = m_files y -> FilesInvW w x -> FilesInvW w y.
Proof. intros Er Ef [A B D]. constructor; rewrite <- ?Er, <- ?Ef; auto. Qed.

(* everything allocated before is untouched: the invariant of an old tree carries over *)
Lemma old_part_invW w w4 r F : Core w -> (forall i, i < w_next w -> w_nodes w4 i = w_nodes w i) ->
  allocated w r -> FilesInvW w (mkModel r F [] []) -> FilesInvW w4 (mkModel r F [] []).
Proof.
  intros C Old Hr [A B D]. cbn [m_root m_files] in *.
  assert (forall i, allocated w i -> w_nodes w4 i = w_nodes w i) as OldA by (intros i Ha; apply Old; apply (c_alloc _ C); exact Ha).
  assert (forall i, Reach w4 r i -> Reach w r i) as R1.
  { intros i H. induction H as [_|p c Hp IH (pn' & Hpn' & Hc)]; [constructor; exact Hr|].
    eapply R_kid; eauto. rewrite (OldA p (FilesProofsProj.reach_alloc _ _ _ C IH)) in Hpn'. exists pn'; auto. }
  assert (forall i s, Eff w i s -> Eff w4 i s) as E2.
  { intros i s H. induction H as [i n Hn Hf | i n p s Hn Hf Hp He IH].
    - constructor; auto. rewrite OldA; auto. exists n; auto.
    - eapply Eff_up; eauto. rewrite OldA; auto. exists n; auto. }
  constructor; cbn [m_root m_files].
  - intros i n' Hr' Hn'. pose proof (R1 i Hr') as Hr0. rewrite (OldA i (FilesProofsProj.reach_alloc _ _ _ C Hr0)) in Hn'. eapply A; eauto.
  - intros i n' p Hr' Hn' Hne Hp. pose proof (R1 i Hr') as Hr0. rewrite (OldA i (FilesProofsProj.reach_alloc _ _ _ C Hr0)) in Hn'.
    destruct (B i n' p Hr0 Hn' Hne Hp) as (s & Hs & Hi). exists s. split; [apply E2; exact Hs|exact Hi].
  - intros Hne i Hr'. destruct (D Hne i (R1 i Hr')) as (s & Hs). exists s. auto.
Qed.

Section Dup3.
Variable T : tables.
Variable tab_el tab_at tab_en : nametab.
Variable check_fn : N -> list N -> res bool.
Variable float_fmt : N -> list N.
Variable LATEST : N.
Variable root_attrs : list (N * cdata).

Theorem duplicate_filesinv m w c w' x rn e ed :
  Core w ->
  m_duplicate_body T LATEST root_attrs m w = Val (OK c, w') ->
  nth_opt (w_models w) (N.to_nat m) = Some x -> w_nodes w (m_root x) = Some rn ->
  et_new T (autosar_element T) = Val (n_type rn) -> elem T (autosar_element T) = Val ed -> ed_name ed = n_name rn ->
  n_content rn = [CElem e] ->
  (forall en, w_nodes w e = Some en -> is_named T (n_type en) = Val false) ->
  (forall v, (v = LATEST \/ exists f fl, nth_opt (w_files w') (N.to_nat f) = Some fl /\ f_version fl = v) -> AllValidIn T v w e) ->
  FilesInvW w x -> m_files x <> [] ->
  (forall g, In g (m_files x) -> exists gl, nth_opt (w_files w) (N.to_nat g) = Some gl) ->
  exists xc, nth_opt (w_models w') (N.to_nat c) = Some xc /\ m_root xc = w_next w /\ FilesInvW w' xc.
Proof.
  intros CoreW H Hx Hrn Het Hel Hname Hcont Hunn HAV FI FNE Hrec.
  pose proof (Core_Closed w CoreW) as Cw.
  assert (CoreW' : Core w') by (eapply (CoreP_duplicate_body T check_fn LATEST root_attrs m); eauto).
  unfold m_duplicate_body in H.
  set (n0 := w_next w) in *. set (nm := List.length (w_models w)). set (nf0 := List.length (w_files w)).
  apply wbind_inv in H as [(x' & w1 & E & H) | (e0 & E & [=])].
  apply get_model_inv in E as (x'' & Hx' & [= <-] & ->). rewrite Hx in Hx'. injection Hx' as <-.
  assert (Hrootlt : m_root x < n0) by (eapply (proj1 Cw); eauto).
  apply wbind_inv in H as [(c0 & w1 & E & H) | (e0 & E & [=])].
  unfold new_model in E. rewrite Het, Hel in E. injection E as <- <-.
  set (cm := N.of_nat nm) in *.
  set (rnode := mkNode (PModel cm) (ed_name ed) (n_type rn) [] root_attrs [] None) in *.
  set (w1 := mkWorld _ _ _ _) in *.
  apply wbind_inv in H as [(rn1 & w2 & E & H) | (e0 & E & [=])].
  apply get_node_inv in E as (rn1' & Hrn1 & [= <-] & ->).
  assert (rn1 = rn). { unfold w1 in Hrn1; cbn in Hrn1. rewrite upd_neq in Hrn1 by (fold n0; lia). congruence. }
  subst rn1. clear Hrn1.
  apply wbind_inv in H as [(cx & w2 & E & H) | (e0 & E & [=])].
  apply get_model_inv in E as (cx' & Hcx & [= <-] & ->).
  assert (cx = mkModel n0 [] [] []).
  { unfold w1 in Hcx; cbn [w_models] in Hcx. unfold cm in Hcx. rewrite Nnat.Nat2N.id in Hcx.
    unfold nm in Hcx. rewrite nth_opt_app_new in Hcx. injection Hcx as <-. reflexivity. }
  subst cx. cbn [m_root] in H.
  apply wbind_inv in H as [(u & w2 & E & H) | (e0 & E & [=])].
  apply modify_node_wset in E as (rn0 & Hrn0 & _ & ->).
  assert (rn0 = rnode).
  { unfold w1 in Hrn0; cbn [w_nodes] in Hrn0. unfold n0 in Hrn0. rewrite upd_eq in Hrn0. injection Hrn0 as <-. reflexivity. }
  subst rn0.
  set (rnode2 := set_comment (set_attrs rnode (n_attrs rn)) (n_comment rn)) in *.
  set (w2 := wset w1 n0 rnode2) in *.
  assert (Cw1 : Closed w1).
  { apply (Closed_nodes (walloc w rnode)); [|reflexivity|reflexivity]. apply Closed_alloc; [exact Cw | intros y []]. }
  assert (Cw2 : Closed w2).
  { apply (Closed_upd w1 n0 rnode rnode2 Cw1); [unfold w1; cbn; apply upd_eq | intros y []]. }
  assert (FK2 : FreshKids n0 w2).
  { intros p k y Hp Hk Hin. unfold w2, wset, w1 in Hk; cbn [w_nodes] in Hk.
    destruct (N.eq_dec p n0) as [->|Hne].
    - rewrite upd_eq in Hk. injection Hk as <-. destruct Hin.
    - rewrite upd_neq in Hk by exact Hne. unfold n0 in Hne. rewrite upd_neq in Hk by exact Hne.
      apply (proj1 Cw) in Hk. unfold n0 in Hp. lia. }
  assert (HI2 : DInv n0 nm nf0 w2).
  { repeat split; try apply Cw2; auto.
    - unfold w2, wset, w1; cbn. lia.
    - unfold w2, wset, w1; cbn. rewrite app_length. cbn. lia. }
  assert (HS2 : DSame n0 nm nf0 w w2).
  { split; [|split].
    - intros i Hi. unfold w2, wset, w1; cbn. rewrite !upd_neq by lia. reflexivity.
    - reflexivity.
    - unfold w2, wset, w1; cbn. apply firstn_app_le. unfold nm. lia. }
  assert (HR2 : RootOf (n_attrs rn) (n_comment rn) n0 nm n0 cm w2).
  { split; [lia|]. split; [unfold cm; rewrite Nnat.Nat2N.id; lia|].
    exists rnode2, (mkModel n0 [] [] []). unfold w2, wset; cbn [w_nodes w_models]. rewrite upd_eq.
    repeat split; auto. }
  assert (HE2 : RootEmpty n0 w2).
  { exists rnode2. unfold w2, wset; cbn [w_nodes]. rewrite upd_eq. auto. }
  (* files *)
  apply wbind_inv in H as [(filemap & w3 & E & H) | (e0 & E & [=])].
  destruct (dup_files_spec T _ _ _ _ _ _ _ _ _ _ _ _ HI2 HR2 HE2 E) as (HI3 & HS3 & HR3 & HE3).
  assert (Fr23 : Fr w2 w3) by (eapply (frp_dup_files T w2 cm (m_files x) []); [apply Fr_refl|exact E]).
  pose proof E as Edup. clear E.
  (* the croot record in w3 *)
  destruct HR3 as (_ & _ & n3 & x3 & Hn3 & Hpar3 & Hx3 & Hroot3 & Hattr3 & Hcomm3).
  assert (HR3 : RootOf (n_attrs rn) (n_comment rn) n0 nm n0 cm w3).
  { split; [lia|]. split; [unfold cm; rewrite Nnat.Nat2N.id; lia|]. exists n3, x3. repeat split; auto. }
  destruct HE3 as (n3' & Hn3' & Hcont3). rewrite Hn3 in Hn3'. injection Hn3' as <-.
  destruct (proj2 Fr23 n0 n3 Hn3) as (n2 & Hn2 & (Hnm3 & Hty3 & _)).
  assert (n2 = rnode2) by (unfold w2, wset in Hn2; cbn [w_nodes] in Hn2; rewrite upd_eq in Hn2; congruence). subst n2.
  cbn in Hnm3, Hty3.
  (* the copy of the root's sub-element *)
  rewrite Hcont in H. cbn [dup_children] in H.
  apply wbind_inv in H as [(u4 & w4x & E & H) | (e0 & E & [=])].
  apply wbind_inv in E as [(cc & w4 & E & E') | (e0 & E & [=])]. apply wret_inv in E' as (_ & ->).
  change (e_create_copied_sub_element T LATEST n0 e w3) with (copy_call T LATEST n0 e None w3) in E.
  destruct HI3 as (I31 & I32 & I33 & FK3 & Cw3).
  assert (HI3 : DInv n0 nm nf0 w3) by (repeat split; auto; apply Cw3).
  destruct (copy_into_root T LATEST _ _ _ _ _ _ _ _ _ _ _ HI3 HR3 E) as (HI4 & HS4 & HR4).
  assert (HS03 : DSame n0 nm nf0 w w3) by (eapply DSame_trans; eauto).
  assert (HS04 : DSame n0 nm nf0 w w4) by (eapply DSame_trans; eauto).
  assert (Hen : exists en, w_nodes w e = Some en).
  { apply (proj2 Cw (m_root x) rn e Hrn). rewrite Hcont. left. reflexivity. }
  destruct Hen as (en & Hen).
  assert (Hesub : forall y, Sub w e y -> y < n0).
  { intros y Hy. destruct (Frame.Sub_allocated w e y en Cw Hen Hy) as (yn & Hyn). exact (proj1 Cw y yn Hyn). }
  (* the last phase *)
  apply wbind_inv in H as [(wg & w5 & E5 & H) | (e0 & E5 & [=])]. apply wget_inv in E5 as ([= ->] & ->).
  apply wbind_inv in H as [(oids & w5 & Eo & H) | (e0 & E5 & [=])].
  assert (w5 = w4) by (eapply ro_dfs_ids; eauto). subst w5.
  apply wbind_inv in H as [(cids & w5 & Ec & H) | (e0 & E5 & [=])].
  assert (w5 = w4) by (eapply ro_dfs_ids; eauto). subst w5.
  apply wbind_inv in H as [(u6 & w6 & Em & H) | (e0 & E5 & [=])]. apply wret_inv in H as (Hc0 & ->). injection Hc0 as Hc0. destruct u6.
  destruct (dup_membership_skel filemap oids cids w4 _ w6 Em) as (Knext & Kmod & Kfiles & Kskel).
  destruct (copy_source_unchanged T LATEST _ _ _ _ _ _ Cw3 E) as (Cw4 & (mm & (_ & _ & Ffiles & _)) & _).
  (* the copy is made in a version that some file of the result has *)
  destruct (copy_filtered T LATEST _ _ _ _ _ _ Cw3 E) as (v & w1x & Hv & _).
  assert (HAV3 : AllValidIn T v w3 e).
  { apply (proj1 (AllValidIn_ext T v w w3)).
    - apply HAV. destruct (min_version_in LATEST _ _ _ Hv) as [->|(g & gl & Hg & Hgv)]; [left; reflexivity|right].
      exists g, gl. split; [|exact Hgv]. rewrite Kfiles, Ffiles. exact Hg.
    - intros y Hy. apply (proj1 HS03). apply Hesub. exact Hy. }
  destruct (copy_same_version T LATEST _ _ _ _ _ _ _ Cw3 E Hv HAV3) as (w1' & HIso1 & HFT & Ex1 & HCR).
  (* no renaming: the copied element is not of a named type *)
  assert (Hen3 : w_nodes w3 e = Some en) by (rewrite (proj1 HS03) by (apply Hesub; constructor); exact Hen).
  assert (Hsame1 : forall i, i <> n0 -> i <> cc -> w_nodes w4 i = w_nodes w1' i).
  { apply (no_rename_unnamed T w1' w4 n0 cc HCR). intros nc1 Hnc1.
    inversion HIso1 as [s0 c0 ns nc Hs Hc _ Ety _ _ _]; subst s0 c0.
    rewrite Hen3 in Hs. injection Hs as <-. rewrite Hc in Hnc1. injection Hnc1 as <-. rewrite Ety. apply Hunn. exact Hen. }
  assert (Hn0lt : n0 < w_next w3) by exact (proj1 Cw3 n0 n3 Hn3).
  assert (HIso34 : Iso w3 w4 e cc).
  { destruct HCR as (nc1 & Hc1 & Hc4 & _).
    assert (K : forall i n1, w_next w3 <= i -> w_nodes w1' i = Some n1 ->
       exists n', w_nodes w4 i = Some n' /\ n_name n' = n_name n1 /\ n_type n' = n_type n1 /\
                  n_comment n' = n_comment n1 /\ n_attrs n' = n_attrs n1 /\ n_content n' = n_content n1).
    { intros i n1 Hi Hn1. destruct (N.eq_dec i cc) as [->|Hne].
      - rewrite Hc1 in Hn1. injection Hn1 as <-. exists (set_parent nc1 (PElem n0)). split; [exact Hc4|]. cbn. auto 6.
      - exists n1. rewrite Hsame1; [auto 6|lia|exact Hne]. }
    exact (proj1 (Iso_keep (w_next w3) w3 w1' w4 K) e cc HIso1 HFT). }
  assert (HIso44 : Iso w4 w4 e cc).
  { apply (proj1 (Iso_source_ext w3 w4 w4)); [exact HIso34|]. intros y Hy. apply (proj1 HS4).
    assert (Hy' : Sub w e y).
    { clear - Hy HS03 Hesub. induction Hy as [|p n k Hp IH Hn Hk]; [constructor|].
      rewrite (proj1 HS03) in Hn by (apply Hesub; exact IH). econstructor; eauto. }
    apply Hesub. exact Hy'. }
  (* the two roots in w4 *)
  assert (Hroot4 : w_nodes w4 (m_root x) = Some rn) by (rewrite (proj1 HS04) by exact Hrootlt; exact Hrn).
  assert (Hcroot4 : w_nodes w4 n0 = Some (set_content n3 [CElem cc])).
  { apply copy_call_inner in E as [(_ & e1 & [=]) | (m1 & v1 & p1 & _ & _ & _ & E)].
    destruct (ccsei_spec T _ _ _ _ _ _ _ _ Cw3 E) as (_ & _ & ns & Hns & Hns4 & _).
    rewrite Hn3 in Hns. injection Hns as <-. rewrite Hns4, Hcont3. destruct (N.to_nat p1); reflexivity. }
  assert (HIsoR : Iso w4 w4 (m_root x) n0).
  { econstructor; [exact Hroot4|exact Hcroot4| | | | |].
    - cbn. congruence.
    - cbn. congruence.
    - cbn. exact Hcomm3.
    - cbn. exact Hattr3.
    - cbn [n_content set_content]. rewrite Hcont. constructor; [exact HIso44|constructor]. }
  (* no element of the copy twice; the two trees are disjoint *)
  assert (Core4 : Core w4).
  { apply (Core_same_tree w6 w4); [|exact CoreW']. split; [symmetry; exact Knext|]. split; [unfold roots; rewrite Kmod; reflexivity|].
    intros i. symmetry. apply Kskel. }
  assert (ND : NoDup cids).
  { destruct (dfs_ids_preorder w4 n0 Core4) as (l & Hl & _ & HND & _); [eexists; exact Hcroot4|].
    rewrite Hl in Ec. injection Ec as <-. exact HND. }
  assert (Hold : forall o, Sub w4 (m_root x) o -> o < n0 /\ Sub w (m_root x) o).
  { apply Sub_old; [exact Cw|exact (proj1 HS04)|exact Hrootlt]. }
  assert (Hnew : forall y, Sub w4 n0 y -> n0 <= y).
  { intros y Hy. eapply FreshKids_Sub; [apply HI4|apply N.le_refl|exact Hy]. }
  (* ---- C10: the file map, the invariant of the original in w4, the membership phase ---- *)
  assert (Hfw2 : w_files w2 = w_files w) by reflexivity.
  destruct (FilesProofsDup2.dup_files_map T cm (m_files x) [] w2 filemap w3) as (_ & _ & _ & Dval & Dkey).
  { intros g Hg. rewrite Hfw2. apply Hrec. exact Hg. }
  { exact Edup. }
  set (F' := FilesProofsDup2.MFc w3 cm).
  (* old file records are the same in w4 *)
  assert (Hrec4 : forall g gl, nth_opt (w_files w) (N.to_nat g) = Some gl -> nth_opt (w_files w4) (N.to_nat g) = Some gl).
  { intros g gl Hg. destruct HS04 as (_ & Hff & _). rewrite FilesProofsAdd.nth_opt_error in *.
    assert (Hlt : (N.to_nat g < nf0)%nat) by (unfold nf0; apply nth_error_Some; congruence).
    assert (G : forall (l : list file) n k, (k < n)%nat -> nth_error (firstn n l) k = nth_error l k).
    { induction l as [|y l IHl]; intros [|n] [|k] Hk; cbn; auto; try lia. apply IHl. lia. }
    rewrite <- (G (w_files w4) nf0 _ Hlt), Hff, (G (w_files w) nf0 _ Hlt). exact Hg. }
  assert (HT : forall g, In g (m_files x) ->
            exists gl ng, nth_opt (w_files w4) (N.to_nat g) = Some gl /\ assoc_get (f_name gl) filemap = Some ng /\ In ng F').
  { intros g Hg. destruct (Dkey g Hg) as (gl & vv & Hgl & Hvv). rewrite Hfw2 in Hgl. exists gl, vv. split; [apply Hrec4; exact Hgl|].
    split; [exact Hvv|]. destruct (Dval _ _ Hvv) as [Hin|Hin]; [discriminate Hin|exact Hin]. }
  (* the invariant of the original in w4 *)
  assert (FI4 : FilesInvW w4 (mkModel (m_root x) (m_files x) [] [])).
  { apply (old_part_invW w w4 (m_root x) (m_files x) CoreW (proj1 HS04)); [exists rn; exact Hrn|].
    apply (FilesInvW_ext w x); auto. }
  (* parent links of the two roots *)
  assert (Hrp : forall n p, w_nodes w4 (m_root x) = Some n -> n_parent n <> PElem p).
  { intros n p Hn Hp. rewrite Hroot4 in Hn. injection Hn as <-.
    rewrite FilesProofsAdd.nth_opt_error in Hx.
    assert (Hk : nth_error (roots w) (N.to_nat m) = Some (m_root x)) by (unfold roots; rewrite nth_error_map, Hx; reflexivity).
    destruct (c_roots _ CoreW _ _ Hk) as (rn' & Hrn' & Hpm). rewrite Hrn in Hrn'. injection Hrn' as <-. congruence. }
  assert (Hcp : forall n p, w_nodes w4 n0 = Some n -> n_parent n <> PElem p).
  { intros n p Hn Hp. rewrite Hcroot4 in Hn. injection Hn as <-. cbn [n_parent set_content] in Hp. congruence. }
  (* the membership phase *)
  assert (Hd : forall o k, In o oids -> In k cids -> o <> k).
  { intros o k Ho Hk. pose proof (proj1 (Hold o (dfs_ids_Sub _ _ _ _ _ Eo _ eq_refl _ Ho))).
    pose proof (Hnew k (dfs_ids_Sub _ _ _ _ _ Ec _ eq_refl _ Hk)). lia. }
  pose proof (dfs_len w4 w4 _ _ _ _ _ _ _ HIsoR Eo Ec) as Hl.
  destruct (dup_membership_effect filemap oids cids w4 _ w6 Em Hl ND Hd) as (_ & _ & _ & Hk6 & HF).
  assert (HF2 : Forall2 (FilesProofsDup.Qp w4 w6 filemap) oids cids).
  { pose proof (Forall2_with_in _ (fun o => w_nodes w6 o = w_nodes w4 o) _ _ HF) as G. apply G.
    intros o Hin. apply Hk6. intros Hc'. exact (Hd o o Hin Hc' eq_refl). }
  pose proof (dfs_isoP (FilesProofsDup.Qp w4 w6 filemap) w4 w4 (fuel_of w4) (m_root x) n0 oids cids w4 w4 HIsoR Eo Ec HF2) as HIP.
  assert (FI6 : FilesInvW w6 (mkModel n0 F' [] [])).
  { apply (FilesProofsDup.iso_filesinv w4 w6 filemap (m_files x) F' Core4 CoreW' HT (m_root x) n0 FI4 FNE Hrp); [|exact HIP].
    intros n p Hn Hp.
    inversion HIP as [? ? ns nc Hs Hcn _ _ _ _ (Hsame & (on & cn & Hon & Hcn' & Hc6)) _]; subst.
    rewrite Hc6 in Hn. injection Hn as <-. cbn [n_parent set_files] in Hp. eapply Hcp; eauto. }
  (* the record of the copy *)
  destruct HR4 as (_ & _ & n4 & x4 & Hn4 & Hpar4 & Hx4 & Hroot4' & _).
  exists x4. split; [rewrite Hc0, Kmod; exact Hx4|]. split; [exact Hroot4'|].
  apply (FilesInvW_ext w6 (mkModel n0 F' [] [])); cbn [m_root m_files]; auto.
  (* the file list of the copy is not touched by the copy of the sub-element *)
  destruct (copy_source_unchanged T LATEST _ _ _ _ _ _ Cw3 E) as (_ & (mq & (_ & _ & _ & Hidx)) & _).
  unfold F', FilesProofsDup2.MFc, Files.model_b. rewrite Hx3.
  destruct Hidx as [Eq|(y & i & o & Hy & Eq)]; rewrite Eq in Hx4.
  - rewrite Hx3 in Hx4. injection Hx4 as <-. reflexivity.
  - rewrite FilesProofsAdd.nth_opt_error, FilesProofsOwned.nth_error_list_set in Hx4. rewrite FilesProofsAdd.nth_opt_error in Hx3, Hy.
    destruct (Nat.eqb (N.to_nat cm) (N.to_nat mq)) eqn:Eqb.
    + apply Nat.eqb_eq in Eqb. rewrite Eqb in *. rewrite Hy in Hx4. injection Hx4 as <-. rewrite Hx3 in Hy. injection Hy as <-. reflexivity.
    + rewrite Hx3 in Hx4. injection Hx4 as <-. reflexivity.
Qed.

End Dup3.

Section Dup3Top.
Variable T : tables.
Variable tab_el tab_en : nametab.
Variable check_fn : N -> list N -> res bool.
Variable LATEST : N.
Variable root_attrs : list (N * cdata).

(* the same for the public call *)
Theorem duplicate_filesinv_top m w c w' x rn e ed :
  Core w ->
  m_duplicate T tab_el tab_en check_fn LATEST root_attrs m w = Val (OK c, w') ->
  nth_opt (w_models w) (N.to_nat m) = Some x -> w_nodes w (m_root x) = Some rn ->
  et_new T (autosar_element T) = Val (n_type rn) -> elem T (autosar_element T) = Val ed -> ed_name ed = n_name rn ->
  n_content rn = [CElem e] ->
  (forall en, w_nodes w e = Some en -> is_named T (n_type en) = Val false) ->
  (forall v, (v = LATEST \/ exists f fl, nth_opt (w_files w') (N.to_nat f) = Some fl /\ f_version fl = v) -> AllValidIn T v w e) ->
  FilesInvW w x -> m_files x <> [] ->
  (forall g, In g (m_files x) -> exists gl, nth_opt (w_files w) (N.to_nat g) = Some gl) ->
  exists xc, nth_opt (w_models w') (N.to_nat c) = Some xc /\ m_root xc = w_next w /\ FilesInvW w' xc.
Proof.
  intros C H. unfold m_duplicate in H.
  destruct (m_duplicate_body T LATEST root_attrs m w) as [[[c0|e0] w1]| |] eqn:Eb; try discriminate H.
  injection H as <- <-. intros. eapply (duplicate_filesinv T check_fn LATEST root_attrs); eauto.
Qed.

End Dup3Top.
