(* Tree/CopyProofsFK.v — C13 proofs: "fresh regions stay closed".
   FreshKids lo w: every node with id >= lo lists only sub-elements with id >= lo.  The copy operations preserve it for
   every lo below the allocation bound: a copy never links a node of a fresh region (in particular: of a duplicated
   model) to a node that existed before.  With it, everything reachable from a fresh root is fresh. *)
From AV Require Import Base.Bytes Base.Outcome Hash.HashModel Tree.Heap Tree.Ops Tree.Script
  Tree.CopyProofsW Tree.CopyProofsDefs Tree.CopyProofsDeep Tree.CopyProofsCreate Tree.CopyProofsTop.
From Coq Require Import Lia.
Open Scope string_scope.
Open Scope list_scope.
Open Scope N_scope.

Definition FKR (lo : N) (w w' : world) : Prop :=
  lo <= w_next w -> FreshKids lo w -> lo <= w_next w' /\ w_next w <= w_next w' /\ FreshKids lo w'.

Lemma FKR_refl lo w : FKR lo w w.
Proof. intros H1 H2. repeat split; auto. lia. Qed.
Lemma FKR_trans lo a b c : FKR lo a b -> FKR lo b c -> FKR lo a c.
Proof.
  intros H1 H2 Ha Hk. destruct (H1 Ha Hk) as (A1 & A2 & A3). destruct (H2 A1 A3) as (B1 & B2 & B3).
  repeat split; auto. lia.
Qed.

Lemma FKR_nodes_eq lo w w' : w_nodes w' = w_nodes w -> w_next w' = w_next w -> FKR lo w w'.
Proof.
  intros En Ex H1 H2. rewrite Ex. repeat split; auto; try lia.
  intros p n c Hp Hn Hin. rewrite En in Hn. eapply H2; eauto.
Qed.

Lemma FKR_wset lo w i n n' :
  w_nodes w i = Some n ->
  (forall c, In (CElem c) (n_content n') -> In (CElem c) (n_content n) \/ lo <= c) ->
  FKR lo w (wset w i n').
Proof.
  intros Hi Hk H1 H2. unfold wset; cbn. repeat split; auto; try lia.
  intros p m c Hp Hm Hin. cbn in Hm. unfold upd in Hm. destruct (p =? i) eqn:E.
  - apply N.eqb_eq in E. subst p. injection Hm as <-.
    destruct (Hk c Hin) as [Hold|Hc]; auto. eapply H2; eauto.
  - eapply H2; eauto.
Qed.

Lemma FKR_walloc lo w n : (forall c, ~ In (CElem c) (n_content n)) -> FKR lo w (walloc w n).
Proof.
  intros Hk H1 H2. unfold walloc; cbn. repeat split; auto; try lia.
  intros p m c Hp Hm Hin. cbn in Hm. unfold upd in Hm. destruct (p =? w_next w) eqn:E.
  - injection Hm as <-. exfalso. eapply Hk; eauto.
  - eapply H2; eauto.
Qed.

Lemma stab_modify_node_kids lo i f :
  (forall n c, In (CElem c) (n_content (f n)) -> In (CElem c) (n_content n) \/ lo <= c) ->
  stab (FKR lo) (modify_node i f).
Proof.
  intros Hf w r w' H. apply modify_node_wset in H as (n & Hn & _ & ->).
  eapply FKR_wset; eauto.
Qed.

Section FK.
Variable T : tables.
Variable LATEST : N.

(* ------------------------------------------------------------------ deep_copy *)
Definition FKspec (lo : N) (dc : id -> N -> W id) : Prop :=
  forall src v w r w', dc src v w = Val (r, w') ->
    FKR lo w w' /\ forall c, r = OK c -> lo <= w_next w -> lo <= c.

Lemma dc_items_FK lo dc c ty v (Hdc : FKspec lo dc) (Hc : lo <= c) :
  forall l, stab (FKR lo) (dc_items T dc c ty v l).
Proof.
  induction l as [|[s|d] rest IH].
  - rewrite dc_items_nil. apply stab_ro; [apply FKR_refl | ro_tac].
  - rewrite dc_items_elem.
    apply stab_bind; [apply FKR_trans | apply stab_ro; [apply FKR_refl | ro_tac] | intros sn].
    apply stab_bind; [apply FKR_trans | apply stab_ro; [apply FKR_refl | ro_tac] | intros fs].
    destruct fs as [x|]; [|exact IH].
    intros w r w' H. apply wbind_inv in H as [(ro & w1 & E & H) | (e & E & _)].
    2: { apply wtry_inv in E as (? & _ & [=]). }
    apply wtry_inv in E as (r0 & E & [= ->]).
    destruct (Hdc _ _ _ _ _ E) as (F1 & Hres).
    intros H1 H2. destruct (F1 H1 H2) as (A1 & A2 & A3).
    destruct r0 as [cs|e].
    + assert (Hcs : lo <= cs) by (apply Hres; auto).
      assert (F2 : FKR lo w1 w').
      { revert H. generalize w1 r w'.
        change (stab (FKR lo) (modify_node cs (fun x => set_parent x (PElem c));;
                               modify_node c (fun x => set_content x (n_content x ++ [CElem cs]));;
                               dc_items T dc c ty v rest)%W).
        apply stab_bind; [apply FKR_trans | | intros _].
        { apply stab_modify_node_kids. intros n y Hy. left. exact Hy. }
        apply stab_bind; [apply FKR_trans | | intros _; exact IH].
        apply stab_modify_node_kids. intros n y Hy. cbn in Hy.
        apply in_app_or in Hy as [Hy|[[= <-]|[]]]; auto. }
      destruct (F2 A1 A3) as (B1 & B2 & B3). repeat split; auto. lia.
    + destruct (IH _ _ _ H A1 A3) as (B1 & B2 & B3). repeat split; auto. lia.
  - rewrite dc_items_data.
    apply stab_bind; [apply FKR_trans | | intros _; exact IH].
    apply stab_modify_node_kids. intros n y Hy. cbn in Hy.
    apply in_app_or in Hy as [Hy|[[=]|[]]]; auto.
Qed.

Theorem deep_copy_FK lo : forall fuel, FKspec lo (deep_copy T fuel).
Proof.
  induction fuel as [|f IH]; intros src v w r w' H; [discriminate H|].
  rewrite deep_copy_S in H.
  apply wbind_inv in H as [(n & w1 & E & H) | (e & E & _)].
  2: { apply get_node_inv in E as (? & _ & [=] & _). }
  apply get_node_inv in E as (n' & Hsrc & [= <-] & ->).
  apply wbind_inv in H as [(c & w1 & E & H) | (e & E & _)].
  2: { apply alloc_walloc in E as ([=] & _). }
  apply alloc_walloc in E as (Ec & ->). injection Ec as ->.
  set (n0 := mkNode PNone (n_name n) (n_type n) [] [] [] (n_comment n)) in *.
  assert (F0 : FKR lo w (walloc w n0)) by (apply FKR_walloc; intros c []).
  split.
  2: { intros c Hr Hlo.
       (* the result is the id allocated first *)
       revert H Hr. clear - Hlo. intros H Hr. subst r.
       apply wbind_inv in H as [(attrs & w2 & E & H) | (e & E & [=])].
       apply wbind_inv in H as [(u & w3 & E2 & H) | (e & E2 & [=])].
       apply wbind_inv in H as [(u' & w4 & E3 & H) | (e & E3 & [=])].
       apply wret_inv in H as ([= ->] & _). exact Hlo. }
  intros Hcl H2. destruct (F0 Hcl H2) as (A1 & A2 & A3).
  assert (F1 : FKR lo (walloc w n0) w').
  2: { destruct (F1 A1 A3) as (B1 & B2 & B3). repeat split; auto. lia. }
  revert H. generalize (walloc w n0) r w'.
  change (stab (FKR lo) (do attrs <- copy_attrs T (n_type n) v (n_attrs n) [];
                         modify_node (w_next w) (fun x => set_attrs x attrs);;
                         dc_items T (deep_copy T f) (w_next w) (n_type n) v (n_content n);; wret (w_next w))%W).
  apply stab_bind; [apply FKR_trans | apply stab_ro; [apply FKR_refl | ro_tac] | intros attrs].
  apply stab_bind; [apply FKR_trans | | intros _].
  { apply stab_modify_node_kids. intros m y Hy. left. exact Hy. }
  apply stab_bind; [apply FKR_trans | | intros _; apply stab_ro; [apply FKR_refl | ro_tac]].
  apply dc_items_FK; auto.
Qed.

(* ------------------------------------------------------------------ create_copied_sub_element_inner and the public calls *)
Ltac fk_step lo :=
  first
  [ solve [apply (stab_ro _ (FKR_refl lo)); ro_tac]
  | apply (stab_bind _ (FKR_trans lo)); [ | intros ? ]
  | apply stab_try
  | match goal with
    | |- stab _ (match ?x with _ => _ end) => destruct x
    | |- stab _ (if ?b then _ else _) => destruct b
    | |- stab _ (let '(_, _) := ?x in _) => destruct x
    end ].

Lemma make_unique_FK lo i m pp : stab (FKR lo) (make_unique_item_name T i m pp).
Proof.
  unfold make_unique_item_name.
  repeat first
    [ apply stab_modify_node_kids; intros n0 y Hy; cbn in Hy; destruct Hy as [[=]|[]]
    | fk_step lo ].
Qed.

Lemma register_subtree_FK lo f m cur i : stab (FKR lo) (register_subtree T f m cur i).
Proof.
  intros w r w' H. apply register_subtree_frame in H as (Hn & Hx & _ & _). apply FKR_nodes_eq; auto.
Qed.

Lemma content_insert_FK lo self pos c : lo <= c -> stab (FKR lo) (content_insert self pos (CElem c)).
Proof.
  intros Hc w r w' H. unfold content_insert in H.
  apply wbind_inv in H as [(n & w1 & E & H) | (e & E & _)].
  2: { apply get_node_inv in E as (? & _ & [=] & _). }
  apply get_node_inv in E as (n' & Hn & [= <-] & ->).
  destruct (_ <? pos); [discriminate H|].
  apply set_node_wset in H as (_ & ->).
  eapply FKR_wset; eauto. cbn. intros y Hy. apply in_insert_at in Hy as [Hy|[= ->]]; auto.
Qed.

Theorem ccsei_FK lo self other pos m v : stab (FKR lo) (create_copied_sub_element_inner T self other pos m v).
Proof.
  intros w r w' H. unfold create_copied_sub_element_inner in H.
  apply wbind_inv in H as [(n & w0 & E & H) | (e & E & _)].
  2: { apply get_node_inv in E as (? & _ & [=] & _). }
  apply get_node_inv in E as (n' & Hself & [= <-] & ->).
  apply wbind_inv in H as [(wg & w0 & E & H) | (e & E & _)].
  2: { apply wget_inv in E as ([=] & _). }
  apply wget_inv in E as ([= ->] & ->).
  apply wbind_inv in H as [(anc & w0 & E & H) | (e & E & _)].
  2: { assert (w' = w) by (eapply ro_ancestor_is; eauto). subst w'. apply FKR_refl. }
  assert (w0 = w) by (eapply ro_ancestor_is; eauto). subst w0. clear E.
  destruct anc; [apply wfail_inv in H as (_ & ->); apply FKR_refl|].
  apply wbind_inv in H as [(c & w1 & E & H) | (e & E & _)].
  2: { exact (proj1 (deep_copy_FK lo _ _ _ _ _ _ E)). }
  destruct (deep_copy_FK lo _ _ _ _ _ _ E) as (F1 & Hres).
  intros H1 H2. destruct (F1 H1 H2) as (A1 & A2 & A3).
  assert (Hc : lo <= c) by (apply Hres; auto).
  assert (F2 : FKR lo w1 w').
  2: { destruct (F2 A1 A3) as (B1 & B2 & B3). repeat split; auto. lia. }
  revert H. generalize w1 r w'.
  match goal with |- forall (a : world) (b : out id) (d : world), ?prog a = _ -> _ => change (stab (FKR lo) prog) end.
  repeat first
    [ apply make_unique_FK | apply register_subtree_FK | apply content_insert_FK; exact Hc
    | apply stab_modify_node_kids; intros ? ? Hy; left; exact Hy
    | fk_step lo ].
Qed.

Theorem copy_call_FK lo h other pos w r w' :
  lo <= w_next w -> FreshKids lo w -> copy_call T LATEST h other pos w = Val (r, w') ->
  FreshKids lo w' /\ w_next w <= w_next w'.
Proof.
  intros H1 H2 H. apply copy_call_inner in H as [(-> & _) | (m & v & p & _ & _ & _ & H)].
  - split; auto. lia.
  - destruct (ccsei_FK lo _ _ _ _ _ _ _ _ H H1 H2) as (_ & B2 & B3). auto.
Qed.

(* everything reachable from a node of a closed fresh region is in the region *)
Lemma FreshKids_Sub lo w a x : FreshKids lo w -> lo <= a -> Sub w a x -> lo <= x.
Proof.
  intros HK Ha HS. induction HS as [|p n c HS IH Hp Hin]; auto. eapply HK; eauto.
Qed.

End FK.
