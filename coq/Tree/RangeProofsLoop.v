(* Tree/RangeProofsLoop.v — C07 proofs, layer 1: the loop of calc_element_insert_range (Tree/Ops.v range_loop) computes
   exactly the set of positions that keep an ORDERED child list in specification order (Tree/Range.v).
     1. an abstract lemma about lists of classes (Less / Mid / Greater / Conflict): the loop result is the interval of valid
        positions, a conflict means no position is valid;
     2. Ordered (ins items p (Some name))  <->  Ordered items /\ position p is valid for the classes of the children;
     3. range_loop over the heap refines the abstract loop when every child resolves;
     4. the theorems about Ops.calc_element_insert_range for every table set with SpecWF. *)
From AV Require Import Base.Bytes Base.Outcome Hash.HashModel Spec.SpecOps Tree.Heap Tree.Ops Tree.Script Tree.Inv Tree.InvProofsBase
  Tree.Range Tree.RangeProofsPath Tree.SpecWF.
Open Scope list_scope.
Open Scope N_scope.

(* ------------------------------------------------------------------ 1. class lists *)
Definition before_ok (c : cls) : Prop := c = CGreater \/ c = CMid.     (* the child may stand before the new element *)
Definition after_ok (c : cls) : Prop := c = CLess \/ c = CMid.         (* the new element may stand before the child *)
Definition valid (cs : list cls) (q : nat) : Prop := Forall before_ok (firstn q cs) /\ Forall after_ok (skipn q cs).

(* the loop: None = panic, Some None = ElementInsertionConflict, Some (Some (start, end)) *)
Fixpoint cloop (cs : list cls) (idx s : N) : option (option (N * N)) :=
  match cs with
  | [] => Some (Some (s, idx))
  | CLess :: _ => Some (Some (s, idx))
  | CMid :: r => cloop r (idx + 1) s
  | CGreater :: r => cloop r (idx + 1) (idx + 1)
  | CConf :: _ => Some None
  | CPan :: _ => None
  end.

(* behind the first Less everything may follow the new element (what an ordered content guarantees) *)
Fixpoint tail_ok (cs : list cls) : Prop :=
  match cs with
  | [] => True
  | CLess :: r => Forall after_ok r
  | _ :: r => tail_ok r
  end.

Lemma valid_0 cs : valid cs 0 <-> Forall after_ok cs.
Proof. unfold valid. cbn [firstn skipn]. split; [tauto | intros H; split; [constructor|exact H]]. Qed.

Lemma valid_S c cs q : valid (c :: cs) (S q) <-> before_ok c /\ valid cs q.
Proof.
  unfold valid. cbn [firstn skipn]. split.
  - intros [H1 H2]. inversion H1; subst. tauto.
  - intros [H1 [H2 H3]]. split; [constructor; assumption | assumption].
Qed.

Lemma cloop_exact : forall cs idx s lo hi,
  s <= idx -> cloop cs idx s = Some (Some (lo, hi)) ->
  idx <= hi /\ hi <= idx + N.of_nat (List.length cs) /\ (lo = s \/ idx < lo) /\ lo <= hi /\
  (forall q, (q <= List.length cs)%nat -> valid cs q -> lo <= idx + N.of_nat q <= hi) /\
  (tail_ok cs -> forall q, (q <= List.length cs)%nat -> lo <= idx + N.of_nat q <= hi -> valid cs q).
Proof.
  induction cs as [|c cs IH]; intros idx s lo hi Hs H.
  - cbn [cloop] in H. injection H as <- <-. cbn [List.length].
    split; [lia|]. split; [lia|]. split; [left; reflexivity|]. split; [lia|]. split.
    + intros q Hq _. assert (q = 0%nat) by lia. subst. lia.
    + intros _ q Hq _. assert (q = 0%nat) by lia. subst. split; constructor.
  - destruct c; cbn [cloop] in H; try discriminate.
    + (* Less: the loop stops *)
      injection H as <- <-. cbn [List.length].
      split; [lia|]. split; [lia|]. split; [left; reflexivity|]. split; [lia|]. split.
      * intros q Hq Hv. destruct q as [|q]; [lia|]. apply valid_S in Hv as [[Hb|Hb] _]; discriminate.
      * intros Ht q Hq Hr. assert (q = 0%nat) by lia. subst q. apply valid_0. constructor; [left; reflexivity | exact Ht].
    + (* Mid *)
      destruct (IH (idx + 1) s lo hi ltac:(lia) H) as (A & B & C & D & E & F). cbn [List.length].
      split; [lia|]. split; [lia|]. split; [destruct C; [left; assumption | right; lia]|]. split; [lia|]. split.
      * intros q Hq Hv. destruct q as [|q].
        -- apply valid_0 in Hv. inversion Hv; subst.
           assert (Hv0 : valid cs 0) by (apply valid_0; assumption). specialize (E 0%nat ltac:(lia) Hv0). lia.
        -- apply valid_S in Hv as [_ Hv]. specialize (E q ltac:(lia) Hv). lia.
      * intros Ht q Hq Hr. cbn [tail_ok] in Ht. destruct q as [|q].
        -- apply valid_0. constructor; [right; reflexivity|]. apply valid_0. apply (F Ht 0%nat); lia.
        -- apply valid_S. split; [right; reflexivity|]. apply (F Ht q); lia.
    + (* Greater *)
      destruct (IH (idx + 1) (idx + 1) lo hi ltac:(lia) H) as (A & B & C & D & E & F). cbn [List.length].
      split; [lia|]. split; [lia|]. split; [right; lia|]. split; [lia|]. split.
      * intros q Hq Hv. destruct q as [|q].
        -- apply valid_0 in Hv. inversion Hv; subst. match goal with X : after_ok CGreater |- _ => destruct X; discriminate end.
        -- apply valid_S in Hv as [_ Hv]. specialize (E q ltac:(lia) Hv). lia.
      * intros Ht q Hq Hr. cbn [tail_ok] in Ht. destruct q as [|q]; [lia|].
        apply valid_S. split; [left; reflexivity|]. apply (F Ht q); lia.
Qed.

Lemma cloop_conflict : forall cs idx s, cloop cs idx s = Some None -> forall q, ~ valid cs q.
Proof.
  induction cs as [|c cs IH]; intros idx s H q Hv; [discriminate|].
  destruct c; cbn [cloop] in H; try discriminate.
  - destruct q as [|q].
    + apply valid_0 in Hv. inversion Hv; subst. apply (IH _ _ H 0%nat). apply valid_0. assumption.
    + apply valid_S in Hv as [_ Hv]. apply (IH _ _ H q Hv).
  - destruct q as [|q].
    + apply valid_0 in Hv. inversion Hv; subst. match goal with X : after_ok CGreater |- _ => destruct X; discriminate end.
    + apply valid_S in Hv as [_ Hv]. apply (IH _ _ H q Hv).
  - destruct q as [|q].
    + apply valid_0 in Hv. inversion Hv; subst. match goal with X : after_ok CConf |- _ => destruct X; discriminate end.
    + apply valid_S in Hv as [[X|X] _]; discriminate.
Qed.

(* ------------------------------------------------------------------ 2. insertion into a child list *)
Section Loop.
Variable T : tables.

Definition somes {A} (l : list (option A)) : list A := flat_map (fun o => match o with Some x => [x] | None => [] end) l.

(* child list as optional index paths *)
Fixpoint opaths (ty : etype) (v : N) (items : list (option N)) : option (list (option (list N))) :=
  match items with
  | [] => Some []
  | None :: r => option_map (cons None) (opaths ty v r)
  | Some name :: r =>
    match idx_of T ty v name, opaths ty v r with
    | Some ix, Some l => Some (Some ix :: l)
    | _, _ => None
    end
  end.

Lemma paths_of_opaths ty v items : paths_of T ty v items = option_map somes (opaths ty v items).
Proof.
  induction items as [|[name|] r IH]; cbn [paths_of opaths]; [reflexivity| |].
  - rewrite IH. destruct (idx_of T ty v name); [|reflexivity]. destruct (opaths ty v r); reflexivity.
  - rewrite IH. destruct (opaths ty v r); reflexivity.
Qed.

Lemma opaths_length ty v items l : opaths ty v items = Some l -> List.length l = List.length items.
Proof.
  revert l. induction items as [|[name|] r IH]; intros l; cbn [opaths].
  - intros [= <-]. reflexivity.
  - destruct (idx_of T ty v name); [|discriminate]. destruct (opaths ty v r) as [l'|]; [|discriminate].
    intros [= <-]. cbn [List.length]. f_equal. apply IH. reflexivity.
  - destruct (opaths ty v r) as [l'|]; [|discriminate]. intros [= <-]. cbn [List.length]. f_equal. apply IH. reflexivity.
Qed.

Lemma opaths_ins ty v items name q :
  opaths ty v (ins items q (Some name)) =
  match idx_of T ty v name, opaths ty v items with
  | Some ix, Some l => Some (ins l q (Some ix))
  | _, _ => None
  end.
Proof.
  revert q. induction items as [|[n0|] r IH]; intros q.
  - destruct q; cbn [ins opaths]; destruct (idx_of T ty v name); reflexivity.
  - destruct q as [|q]; cbn [ins opaths].
    + destruct (idx_of T ty v name); [|reflexivity]. destruct (idx_of T ty v n0); [|reflexivity]. destruct (opaths ty v r); reflexivity.
    + rewrite IH. destruct (idx_of T ty v n0); destruct (idx_of T ty v name); try reflexivity;
        destruct (opaths ty v r); reflexivity.
  - destruct q as [|q]; cbn [ins opaths].
    + destruct (idx_of T ty v name); [|reflexivity]. destruct (opaths ty v r); reflexivity.
    + rewrite IH. destruct (idx_of T ty v name); [|destruct (opaths ty v r); reflexivity]. destruct (opaths ty v r); reflexivity.
Qed.

Lemma all_pairs_ok_app ty a b :
  all_pairs_ok T ty (a ++ b) = true <->
  all_pairs_ok T ty a = true /\ all_pairs_ok T ty b = true /\ (forall x y, In x a -> In y b -> pair_ok T ty x y = true).
Proof.
  induction a as [|x a IH]; cbn [app all_pairs_ok].
  - split; [intros H; repeat split; auto; intros ? ? []| tauto].
  - rewrite andb_true_iff, forallb_app, andb_true_iff, IH, andb_true_iff, !forallb_forall. split.
    + intros [[H1 H2] (H3 & H4 & H5)]. repeat split; auto. intros x' y [<-|Hx] Hy; auto.
    + intros [[H1 H2] [H3 H4]]. repeat split; auto.
      * intros y Hy. apply H4; [left; reflexivity|exact Hy].
      * intros x' y Hx Hy. apply H4; [right; exact Hx|exact Hy].
Qed.

Lemma somes_app {A} (a b : list (option A)) : somes (a ++ b) = somes a ++ somes b.
Proof. unfold somes. apply flat_map_app. Qed.

Lemma ins_split {A} (l : list A) q x : (q <= List.length l)%nat -> ins l q x = firstn q l ++ x :: skipn q l.
Proof.
  revert q. induction l as [|y l IH]; intros q Hq.
  - cbn [List.length] in Hq. assert (q = 0%nat) by lia. subst. reflexivity.
  - destruct q as [|q]; [reflexivity|]. cbn [ins firstn skipn app]. f_equal. apply IH. cbn [List.length] in Hq. lia.
Qed.

Definition cls_of (ty : etype) (new : list N) (o : option (list N)) : cls :=
  match o with Some ex => classify T ty new ex | None => CMid end.

Lemma Forall_before ty new l :
  Forall before_ok (map (cls_of ty new) l) <-> (forall x, In x (somes l) -> pair_ok T ty x new = true).
Proof.
  induction l as [|[ex|] l IH]; cbn [map somes flat_map app].
  - split; [intros _ ? [] | constructor].
  - split.
    + intros H. inversion H; subst. intros x [<-|Hx]; [apply pair_ok_new_last; assumption | apply IH; assumption].
    + intros H. constructor; [apply pair_ok_new_last, H; left; reflexivity | apply IH; intros x Hx; apply H; right; exact Hx].
  - split.
    + intros H. inversion H; subst. apply IH. assumption.
    + intros H. constructor; [right; reflexivity | apply IH; exact H].
Qed.

Lemma Forall_after ty new l :
  Forall after_ok (map (cls_of ty new) l) <-> (forall x, In x (somes l) -> pair_ok T ty new x = true).
Proof.
  induction l as [|[ex|] l IH]; cbn [map somes flat_map app].
  - split; [intros _ ? [] | constructor].
  - split.
    + intros H. inversion H; subst. intros x [<-|Hx]; [apply pair_ok_new_first; assumption | apply IH; assumption].
    + intros H. constructor; [apply pair_ok_new_first, H; left; reflexivity | apply IH; intros x Hx; apply H; right; exact Hx].
  - split.
    + intros H. inversion H; subst. apply IH. assumption.
    + intros H. constructor; [right; reflexivity | apply IH; exact H].
Qed.

(* inserting a path into an optional-path list *)
Lemma ordered_ins ty new l q : (q <= List.length l)%nat ->
  (all_pairs_ok T ty (somes (ins l q (Some new))) = true <->
   all_pairs_ok T ty (somes l) = true /\ valid (map (cls_of ty new) l) q).
Proof.
  intros Hq. rewrite (ins_split l q (Some new) Hq), somes_app. cbn [somes flat_map app].
  change (flat_map _ (skipn q l)) with (somes (skipn q l)).
  rewrite <- (firstn_skipn q l) at 3. rewrite somes_app.
  rewrite !all_pairs_ok_app. cbn [all_pairs_ok]. rewrite andb_true_iff, forallb_forall.
  unfold valid. rewrite firstn_map, skipn_map.
  split.
  - intros (A & (B & C) & D). repeat split; auto.
    + intros x y Hx Hy. apply D; [exact Hx | right; exact Hy].
    + apply Forall_before. intros x Hx. apply D; [exact Hx | left; reflexivity].
    + apply Forall_after. exact B.
  - intros ((A & B & C) & D & E). repeat split; auto.
    + apply Forall_after. exact E.
    + intros x y Hx [<-|Hy]; [apply (proj1 (Forall_before ty new _) D); exact Hx | apply C; assumption].
Qed.

End Loop.
