(* Tree/FilesProofsLoad6.v — C10 proofs, load: every model of a world that satisfies C03's Core IS an abstracted tree
   (agent-c09's ModelTree), so the load theorem needs no such hypothesis: it is stated with the tree read back from the
   heap (MergeSpec.abs_model). *)
From Coq Require Import PeanoNat Arith Lia.
From AV Require Import Base.Bytes Base.Outcome Hash.HashModel Tree.Heap Tree.Ops Tree.Script Tree.Inv Tree.InvProofsBase
  Tree.InvProofsTree Tree.Load Tree.MergeSpec Tree.MergePure Tree.MergePureProofs Tree.LoadRefineBase Tree.LoadRefinePure
  Tree.LoadRefineMain Tree.LoadRefineTop
  Tree.Files Tree.FilesLoad Tree.FilesProofsBase Tree.FilesProofsProj Tree.FilesProofsAdd Tree.FilesProofsMerge
  Tree.FilesProofsBridge Tree.FilesProofsLoad2.
From AV Require Xml.Parser.
Open Scope string_scope.
Open Scope list_scope.
Open Scope N_scope.

Section Exists.
Variable w : world.
Hypothesis C : Core w.

Lemma abs_exists : forall f i, allocated w i -> enough w i f ->
  exists ta, a_id ta = i /\ AbsA w ta /\ aids ta = subl f w i.
Proof.
  induction f as [|f IH]; intros i (n & Hn) He.
  - (* no fuel left: no sub-elements *)
    assert (forall c, ~ In (CElem c) (n_content n)) as Hno.
    { intros c Hc. destruct (enough_kid w i c 0 C He) as (f' & E & _); [exists n; split; auto; apply in_elems; exact Hc|discriminate E]. }
    assert (exists items, map citem_of items = n_content n /\ AbsItems w items /\ aids_items items = []) as (items & Hm & HA & Hi).
    { clear Hn. induction (n_content n) as [|[c|d] l IHl].
      - exists []. repeat split; auto.
      - exfalso. apply (Hno c). left. reflexivity.
      - destruct IHl as (items & Hm & HA & Hi); [intros c Hc; apply (Hno c); right; exact Hc|].
        exists (inr d :: items). cbn. rewrite Hm. repeat split; auto. }
    exists (ANode i (n_name n) (n_type n) (n_attrs n) items (n_comment n) (n_files n)). split; [reflexivity|]. split.
    + apply AbsA_unfold. split; auto. exists (n_parent n). rewrite Hm. destruct n; exact Hn.
    + rewrite aids_unfold, Hi. reflexivity.
  - assert (exists items, map citem_of items = n_content n /\ AbsItems w items /\
                          aids_items items = flat_map (subl f w) (elems (n_content n))) as (items & Hm & HA & Hi).
    { assert (forall c, In (CElem c) (n_content n) -> lists w i c) as Hl
        by (intros c Hc; exists n; split; auto; apply in_elems; exact Hc).
      clear Hn. induction (n_content n) as [|[c|d] l IHl].
      - exists []. repeat split; auto.
      - destruct IHl as (items & Hm & HA & Hi); [intros c0 Hc0; apply Hl; right; exact Hc0|].
        pose proof (Hl c (or_introl eq_refl)) as Hlc.
        destruct (enough_kid w i c (S f) C He Hlc) as (f' & E & Hec). injection E as <-.
        destruct (c_up _ C _ _ Hlc) as (cn & Hcn & _).
        destruct (IH c (ex_intro _ cn Hcn) Hec) as (tc & Hid & HAc & Hic).
        exists (inl tc :: items). cbn [map citem_of AbsItems aids_items elems flat_map]. rewrite Hid, Hm, Hic, Hi.
        repeat split; auto.
      - destruct IHl as (items & Hm & HA & Hi); [intros c0 Hc0; apply Hl; right; exact Hc0|].
        exists (inr d :: items). cbn. rewrite Hm. repeat split; auto. }
    exists (ANode i (n_name n) (n_type n) (n_attrs n) items (n_comment n) (n_files n)). split; [reflexivity|]. split.
    + apply AbsA_unfold. split; auto. exists (n_parent n). rewrite Hm. destruct n; exact Hn.
    + rewrite aids_unfold, Hi. cbn [subl]. rewrite Hn. reflexivity.
Qed.

Theorem modeltree_exists m x : nth_opt (w_models w) (N.to_nat m) = Some x ->
  exists ta, ModelTree w m ta (m_files x).
Proof.
  intros Hx. destruct (root_link w x m C Hx) as (rn & k & Hrn & _).
  assert (allocated w (m_root x)) as Ha by (exists rn; exact Hrn).
  destruct (abs_exists (N.to_nat (w_next w)) (m_root x) Ha (enough_top w _ C Ha)) as (ta & Hid & HA & Hids).
  exists ta. split; [exists x; auto|]. split; [exact HA|]. split; [rewrite Hids; apply subl_nodup; exact C|].
  intros i Hi. rewrite Hids in Hi. apply (c_alloc _ C). eapply subl_alloc; eauto.
Qed.

End Exists.

Section Load6.
Variable T : tables.
Variables LATEST defref : N.

(* C10_load_merge without the ModelTree hypothesis: ha is the tree of the model read back from the heap *)
Theorem load_merge_inv_abs m filename root st w ha x r w' :
  Core w -> Core w' -> m_files x <> [] ->
  nth_opt (w_models w) (N.to_nat m) = Some x -> abs_model w m = Some ha -> FilesInvW w x -> RootFull w x ->
  let fid := N.of_nat (List.length (w_files w)) in
  let fl := mkFile m filename (Parser.p_version st) (Parser.p_standalone st) in
  let fver := fver_files (w_files w ++ [fl]) in
  (forall fuel, (hdepth ha < fuel)%nat ->
     Clean T LATEST defref fver fuel ha (fold_right set_add [] (m_files x)) (htree_of_etree root) fid /\
     exists ha', pmerge T LATEST defref fver fuel ha (fold_right set_add [] (m_files x)) (htree_of_etree root) fid = Val (OK ha')) ->
  load_parsed T LATEST defref m filename root st w = Val (r, w') ->
  r = ER OverlappingDataError \/
  (r = OK fid /\ w_files w' = w_files w ++ [fl] /\
   exists x', nth_opt (w_models w') (N.to_nat m) = Some x' /\ m_files x' = m_files x ++ [fid] /\ FilesInvW w' x' /\ RootFull w' x').
Proof.
  intros C C' Hne Hx Habs FI RF fid fl fver Hyp H.
  destruct (modeltree_exists w C m x Hx) as (ta & MT).
  pose proof (ModelTree_abs_model _ _ _ _ MT) as E. rewrite Habs in E. injection E as ->.
  apply (load_merge_inv T LATEST defref m filename root st w ta (m_files x) x r w' C C' MT Hne Hx FI RF); auto.
  intros fuel Hf. apply Hyp. rewrite hdepth_erase. exact Hf.
Qed.

End Load6.
