(* Tree/IndexProofsOp2Real.v — C04/C05 over the alphabet op2 and the first load on the GENERATED tables RT with the regex model of
   the character checks: every table hypothesis of Tree/IndexProofsOp2.v / IndexProofsLoad.v / IndexProofsOp2Load.v is an [F]
   theorem (real_tables_ok, real_root_plain, real_mask_ok, tables_ok_real, real_sn_chars, real_ref_chars, RefChars_real), and the
   histories start in the empty world (Inv04_empty, Inv05_empty, empty_RX). *)
From AV Require Import Base.Bytes Base.Outcome Hash.HashModel Spec.SpecOps Spec.SpecReal Tree.Heap Tree.Ops Tree.Script Tree.Script2
  Tree.Load Tree.CheckFn Tree.Inv Tree.InvProofs Tree.Index Tree.IndexProofsBase Tree.IndexProofs Tree.Refs Tree.RefsProofsOps
  Tree.IndexProofsBridge Tree.IndexProofsTablesReal Tree.RefsAll Tree.IndexProofsNodeInv Tree.IndexProofsAll Tree.SortProofsNames
  Tree.IndexProofsSortReal Tree.IndexProofsOp2 Tree.FollowL Tree.InvLoad Tree.InvProofsLoadLive Tree.InvProofsRealTables
  Tree.FollowProofsLoadMain Tree.IndexProofsLoad Tree.IndexProofsOp2Load.
From AV Require Xml.Lexer Xml.Parser Xml.TablesOk Xml.TablesOkReal Xml.LoadRecordsRegular Xml.LoadRecordsExamples.
Open Scope string_scope.
Open Scope list_scope.
Open Scope N_scope.

Section Op2Real.
Variable dfas : N -> option (list (list N) * list N).
Variable tab_el tab_at tab_en : nametab.
Variable float_parse : list N -> option N.
Variable float_fmt : N -> list N.
Variable LATEST name_index name_definition_ref attr_schema_location : N.
Variable root_attrs : list (N * cdata).

Notation chk := (check_fn_model dfas).
Notation run2 := (run_op2 RT tab_el tab_at tab_en chk float_parse float_fmt LATEST name_index name_definition_ref
                          attr_schema_location root_attrs).
Notation steps_ok2a := (steps_ok2a RT tab_el tab_at tab_en chk float_parse float_fmt LATEST name_index name_definition_ref
                                   attr_schema_location root_attrs).
Notation run_hist2 := (run_hist2 RT tab_el tab_at tab_en chk float_parse float_fmt LATEST name_index name_definition_ref
                                 attr_schema_location root_attrs).

(* histories over op2 from the empty world, generated tables *)
Theorem C45_history2_rt l w :
  steps_ok2a l empty_world -> run_hist2 l empty_world = Val w ->
  Inv04 RT chk w /\ Inv05 RT w /\ RX RT w.
Proof.
  intros Hok H.
  apply (C45_history2 RT tab_el tab_at tab_en chk float_parse float_fmt LATEST name_index name_definition_ref attr_schema_location
                       root_attrs (real_tables_ok dfas) real_root_plain real_mask_ok l empty_world w);
    [apply Inv04_empty|apply Inv05_empty|apply empty_RX|exact Hok|exact H].
Qed.

(* the first load, generated tables *)
Theorem C45_load_first_rt buffer filename strict w x f ws w' :
  RealInvL RT w -> w_models w = [x] -> m_files x = [] -> m_idents x = [] -> m_origins x = [] ->
  m_load_buffer RT tab_el tab_at tab_en chk float_parse LATEST name_definition_ref 0 buffer filename strict w = Val (OK (f, ws), w') ->
  DocSide RT chk w' ->
  TreeFactsL w' /\ Inv04 RT chk w' /\ Inv05S RT w'.
Proof.
  apply C45_load_first;
    [exact TablesOkReal.tables_ok_real|exact LoadRecordsExamples.real_sn_chars|exact LoadRecordsExamples.real_ref_chars|exact RefChars_real].
Qed.

(* a history over op2 from the empty world followed by a first load, generated tables *)
Theorem C45_history2_then_load_rt l w m buffer filename strict f ws w' :
  steps_ok2a l empty_world -> run_hist2 l empty_world = Val w ->
  RealInvL RT w -> Pending45_4 w (OpLoad m buffer filename strict) = false ->
  run2 (OpLoad m buffer filename strict) w = Val (OK (VLoad f ws), w') ->
  DocSide RT chk w' ->
  (Inv04 RT chk w /\ Inv05 RT w /\ RX RT w) /\ TreeFactsL w' /\ Inv04 RT chk w' /\ Inv05S RT w'.
Proof.
  intros Hok Hr I HP H HD.
  apply (C45_history2_then_load RT tab_el tab_at tab_en chk float_parse float_fmt LATEST name_index name_definition_ref
            attr_schema_location root_attrs (real_tables_ok dfas) real_root_plain real_mask_ok l empty_world w m buffer filename strict f ws w');
    [apply Inv04_empty|apply Inv05_empty|apply empty_RX|exact Hok|exact Hr|exact TablesOkReal.tables_ok_real
    |exact LoadRecordsExamples.real_sn_chars|exact LoadRecordsExamples.real_ref_chars|exact I|exact HP|exact H|exact HD].
Qed.

End Op2Real.
