(* Tree/FollowProofsIter.v — C06 proofs: the ITERATED prefix re-keying of move_element_local when the moved element is a
   non-identifiable container: for every path `op` of the snapshot, fix_identifiables m op (dest ++ suffix).
   Map level only: under two separation conditions (no key of the original map lies below a new path; no new path lies
   below a snapshot path) the result is the original map with every key below a snapshot path re-prefixed src -> dest. *)
From Coq Require Import Lia.
From AV Require Import Base.Bytes Base.Outcome Hash.HashModel Tree.Heap Tree.Ops Tree.Script Tree.Index
  Tree.IndexProofsW Tree.IndexProofsBase Tree.IndexProofsAssoc Tree.Follow Tree.FollowProofsPath.
Open Scope string_scope.
Open Scope list_scope.
Open Scope N_scope.

Lemma old_form_dec old p : {old_form old p} + {~ old_form old p}.
Proof.
  destruct (rekey old [] p) as [p'|] eqn:E.
  - left. apply rekey_some in E as (suf & -> & Hb & _). exists suf. auto.
  - right. intros (suf & -> & Hb). assert (rekey old [] (old ++ suf) = Some ([] ++ suf)) by (apply rekey_some; exists suf; auto).
    congruence.
Qed.

Lemma old_form_rekey_some old new p : old_form old p -> exists suf, p = old ++ suf /\ rekey old new p = Some (new ++ suf).
Proof. intros (suf & -> & Hb). exists suf. split; [reflexivity|]. apply rekey_some. exists suf. auto. Qed.
Lemma rekey_none_not_old old new p : rekey old new p = None -> ~ old_form old p.
Proof. intros E H. destruct (old_form_rekey_some old new p H) as (suf & _ & H2). congruence. Qed.
Lemma not_old_rekey_none old new p : ~ old_form old p -> rekey old new p = None.
Proof.
  intros H. destruct (rekey old new p) as [p'|] eqn:E; [|reflexivity]. exfalso. apply H.
  apply rekey_some in E as (suf & -> & Hb & _). exists suf. auto.
Qed.

Section Iter.
Context {A : Type}.
Variable src dest : list N.

Definition iter_step (J : list (list N * A)) (op : list N) : list (list N * A) :=
  match strip_prefix src op with
  | Some suf => fold_left (rekey_step op (dest ++ suf)) (map fst J) J
  | None => J
  end.

Definition moved (P : list (list N)) (k : list N) : Prop := exists op, In op P /\ old_form op k.
Definition gkey (k : list N) : list N := match strip_prefix src k with Some t => dest ++ t | None => k end.

Lemma moved_dec P k : {moved P k} + {~ moved P k}.
Proof.
  induction P as [|op P IH].
  - right. intros (op & [] & _).
  - destruct (old_form_dec op k) as [H|H]; [left; exists op; split; [left; reflexivity|exact H]|].
    destruct IH as [IH|IH]; [left; destruct IH as (o & H1 & H2); exists o; split; [right; exact H1|exact H2]|].
    right. intros (o & [<-|H1] & H2); [contradiction|]. apply IH. exists o. auto.
Qed.

Lemma moved_snoc D op k : moved (D ++ [op]) k <-> moved D k \/ old_form op k.
Proof.
  split.
  - intros (o & Hin & Ho). apply in_app_or in Hin as [Hin|[<-|[]]]; [left; exists o; auto|right; exact Ho].
  - intros [(o & Hin & Ho)|Ho]; [exists o; split; [apply in_or_app; left; exact Hin|exact Ho]|].
    exists op. split; [apply in_or_app; right; left; reflexivity|exact Ho].
Qed.

Variable I0 : list (list N * A).
Variable Pall : list (list N).
Hypothesis Hnd0 : NoDupKeys I0.
Hypothesis Hsrc : forall op, In op Pall -> exists u, op = src ++ u.
(* no key of the original map lies at or below a new path *)
Hypothesis H_A : forall op u, In op Pall -> op = src ++ u ->
  forall k s, In k (keys I0) -> boundary s = true -> k = (dest ++ u) ++ s -> False.
(* no new path lies at or below a snapshot path *)
Hypothesis H_B : forall op op2 u2, In op Pall -> In op2 Pall -> op2 = src ++ u2 ->
  forall s s', boundary s = true -> boundary s' = true -> op ++ s = (dest ++ u2) ++ s' -> False.

Definition Invr (D : list (list N)) (J : list (list N * A)) : Prop :=
  NoDupKeys J /\
  forall k2 e, assoc_get k2 J = Some e <->
    (exists k, moved D k /\ k2 = gkey k /\ assoc_get k I0 = Some e) \/ (~ moved D k2 /\ assoc_get k2 I0 = Some e).

Lemma gkey_below op u s : op = src ++ u -> gkey (op ++ s) = (dest ++ u) ++ s.
Proof. intros ->. unfold gkey. rewrite <- (app_assoc src u s), strip_prefix_app, app_assoc. reflexivity. Qed.

Lemma invr_step D J op :
  incl D Pall -> In op Pall -> Invr D J -> Invr (D ++ [op]) (iter_step J op).
Proof.
  intros HD Hop (Hnd & HJ). destruct (Hsrc op Hop) as (u & Hu).
  unfold iter_step. replace (strip_prefix src op) with (Some u) by (rewrite Hu; symmetry; apply strip_prefix_app).
  set (new := dest ++ u).
  (* a key of J of old form wrt op is an unmoved key of the original map *)
  assert (Hunmoved : forall k e, assoc_get k J = Some e -> old_form op k -> ~ moved D k /\ assoc_get k I0 = Some e).
  { intros k e Hk (s & -> & Hb). apply HJ in Hk as [(k0 & (o & Ho & (s0 & -> & Hb0)) & Hg & _)|H]; [|exact H].
    exfalso. destruct (Hsrc o (HD o Ho)) as (u0 & Hu0). rewrite (gkey_below o u0 s0 Hu0) in Hg.
    exact (H_B op o u0 Hop (HD o Ho) Hu0 s s0 Hb Hb0 Hg). }
  destruct (rekey_all op new J Hnd) as (Hnd' & Hget).
  { intros k k' Hk Hr Hk'.
    destruct (assoc_get k J) as [e|] eqn:Ek; [|apply assoc_get_none in Ek; contradiction].
    apply rekey_some in Hr as (s & -> & Hb & ->).
    destruct (Hunmoved _ _ Ek (ex_intro _ s (conj eq_refl Hb))) as (Hnm & Hk0).
    destruct (assoc_get (new ++ s) J) as [e'|] eqn:Ek'; [|apply assoc_get_none in Ek'; contradiction].
    apply HJ in Ek' as [(k0 & (o & Ho & (s0 & -> & Hb0)) & Hg & _)|(_ & H)].
    - destruct (Hsrc o (HD o Ho)) as (u0 & Hu0). rewrite (gkey_below o u0 s0 Hu0) in Hg.
      unfold new in Hg. rewrite <- !app_assoc in Hg. apply app_inv_head in Hg.
      apply Hnm. exists o. split; [exact Ho|]. exists s0. split; [|exact Hb0].
      rewrite Hu, Hu0, <- !app_assoc. f_equal. exact Hg.
    - eapply (H_A op u Hop Hu (new ++ s) s); [|exact Hb|reflexivity]. eapply assoc_get_some_key; eauto. }
  split; [exact Hnd'|]. intros k2 e. rewrite Hget. split.
  - intros [(k & Hr & Hk)|(Hr & Hk)].
    + apply rekey_some in Hr as (s & -> & Hb & ->).
      destruct (Hunmoved _ _ Hk (ex_intro _ s (conj eq_refl Hb))) as (_ & Hk0).
      left. exists (op ++ s). split; [apply moved_snoc; right; exists s; auto|]. split; [|exact Hk0].
      rewrite (gkey_below op u s Hu). reflexivity.
    + apply HJ in Hk as [(k0 & Hm & Hg & Hk0)|(Hnm & Hk0)].
      * left. exists k0. split; [apply moved_snoc; left; exact Hm|auto].
      * right. split; [|exact Hk0]. intros Hm. apply moved_snoc in Hm as [Hm|Hm]; [contradiction|].
        eapply rekey_none_not_old; eauto.
  - intros [(k & Hm & -> & Hk0)|(Hnm & Hk0)].
    + destruct (moved_dec D k) as [HmD|HnD].
      * right. split.
        -- apply not_old_rekey_none. intros (s & Hg & Hb).
           destruct HmD as (o & Ho & (s0 & -> & Hb0)). destruct (Hsrc o (HD o Ho)) as (u0 & Hu0).
           rewrite (gkey_below o u0 s0 Hu0) in Hg. symmetry in Hg.
           exact (H_B op o u0 Hop (HD o Ho) Hu0 s s0 Hb Hb0 Hg).
        -- apply HJ. left. exists k. auto.
      * apply moved_snoc in Hm as [Hm|(s & -> & Hb)]; [contradiction|].
        left. exists (op ++ s). split.
        -- rewrite (gkey_below op u s Hu). apply rekey_some. exists s. auto.
        -- apply HJ. right. auto.
    + right. split.
      * apply not_old_rekey_none. intros Ho. apply Hnm. apply moved_snoc. right. exact Ho.
      * apply HJ. right. split; [|exact Hk0]. intros Hm. apply Hnm. apply moved_snoc. left. exact Hm.
Qed.

Lemma invr_fold : forall P D J, incl D Pall -> incl P Pall -> Invr D J -> Invr (D ++ P) (fold_left iter_step P J).
Proof.
  induction P as [|op P IH]; intros D J HD HP HI; cbn [fold_left].
  - rewrite app_nil_r. exact HI.
  - replace (D ++ op :: P) with ((D ++ [op]) ++ P) by (rewrite <- app_assoc; reflexivity).
    apply IH.
    + intros x Hx. apply in_app_or in Hx as [Hx|[<-|[]]]; [apply HD; exact Hx|apply HP; left; reflexivity].
    + intros x Hx. apply HP. right. exact Hx.
    + apply invr_step; auto. apply HP. left. reflexivity.
Qed.

Theorem rekey_iter : Invr Pall (fold_left iter_step Pall I0).
Proof.
  apply (invr_fold Pall [] I0); try (intros x []); try apply incl_refl.
  split; [exact Hnd0|]. intros k2 e. split.
  - intros H. right. split; [intros (o & [] & _)|exact H].
  - intros [(k & (o & [] & _) & _)|(_ & H)]. exact H.
Qed.

End Iter.
