(* Tree/InvProofsData.v — C03 proofs: comments, attributes, character data, reference targets, item names. *)
From Coq Require Import PeanoNat Arith.
From AV Require Import Base.Bytes Base.Outcome Hash.HashModel Tree.Heap Tree.Ops Tree.Script Tree.Inv
  Tree.InvProofsBase Tree.InvProofsCore Tree.InvProofsPrim Tree.InvProofsCreate.
Open Scope string_scope.
Open Scope list_scope.
Open Scope N_scope.

Ltac st_fin := first [ apply same_tree_refl | eapply st_wset; eauto; reflexivity ].

Section Data.
Variable T : tables.
Variable tab_el tab_en : nametab.
Variable check_fn : N -> list N -> res bool.
Variable LATEST : N.

Lemma stp_set_comment h c : stp (e_set_comment h c).
Proof. unfold e_set_comment. stp_tac. Qed.

Lemma stp_raw_set_attribute h attr v version : stp (raw_set_attribute T check_fn h attr v version).
Proof. intros w r w' H. unfold raw_set_attribute in H. wrun H st_fin. Qed.
Hint Resolve stp_raw_set_attribute : stp.

Lemma stp_set_attribute h attr v : stp (e_set_attribute T check_fn LATEST h attr v).
Proof. unfold e_set_attribute. stp_tac. Qed.

Lemma stp_remove_attribute h attr : stp (e_remove_attribute T h attr).
Proof. intros w r w' H. unfold e_remove_attribute in H. wrun H st_fin. Qed.

Lemma stp_insert_citem h text pos : stp (e_insert_character_content_item T h text pos).
Proof.
  intros w r w' H. unfold e_insert_character_content_item in H. wrun H st_fin.
  eapply st_wset; eauto. unfold kids. cbn. apply elems_insert_data.
Qed.

Lemma stp_remove_citem h pos : stp (e_remove_character_content_item T h pos).
Proof.
  intros w r w' H. unfold e_remove_character_content_item in H. wrun H st_fin.
  eapply st_wset; eauto. unfold kids. cbn. eapply elems_remove_data; eauto.
Qed.

(* turn a completed step of a skeleton-preserving computation into a same_tree fact *)
Ltac to_st E :=
  match type of E with
  | ?m ?wa = Val (_, ?wb) =>
    let S := fresh "ST" in
    assert (S : same_tree wa wb) by (refine ((_ : stp m) wa _ wb E); stp_tac); clear E
  end.

Lemma character_data_some n d : character_data T n = Val (Some d) -> n_content n = [CData d].
Proof.
  unfold character_data. destruct (n_content n) as [|[c|d0] [|? ?]]; try discriminate.
  destruct (content_mode T (n_type n)); cbn; try discriminate.
  destruct (_ || _); intros [= <-]; reflexivity.
Qed.

(* ---------- set_character_data ---------- *)
Lemma set_cdata_spec h v0 w r w' :
  e_set_character_data T tab_en check_fn LATEST h v0 w = Val (r, w') -> Core w ->
  Core w' /\ (node_has_elem w h = false -> same_tree w w').
Proof.
  intros H C. unfold e_set_character_data in H.
  assert (F : Core w /\ (node_has_elem w h = false -> same_tree w w)).
  { split; auto. intros _. apply same_tree_refl. }
  wrun_ro H ltac:(exact F).
  all: wstepn H u Es; apply set_node_wset in Es as (Eu & ->).
  all: match type of H with ?rest ?w1 = _ =>
         assert (ST : same_tree w1 w') by (refine ((_ : stp rest) w1 _ w' H); stp_tac);
         assert (C1 : Core w1 /\ (node_has_elem w h = false -> same_tree w w1))
       end.
  all: try (split;
       [ apply (core_upd_kids w _ h (n_parent n) (kids n) []); auto;
         [ apply upd1_wset | apply skel_some; auto | rewrite skel_wset_eq; reflexivity
         | constructor | intros ? [] ]
       | intros Hh; unfold node_has_elem in Hh; rewrite Hn in Hh; eapply st_wset; eauto;
         unfold kids; cbn; symmetry; apply has_elem_false; auto ]).
  all: destruct C1 as (C1 & S1); split;
       [eapply Core_same_tree; eauto | intros Hh; eapply same_tree_trans; eauto].
Qed.

(* ---------- remove_character_data ---------- *)
Lemma stp_remove_character_data h : stp (e_remove_character_data T h).
Proof.
  intros w r w' H. unfold e_remove_character_data in H.
  wrun_ro H ltac:(apply same_tree_refl).
  apply character_data_some in Hv0.
  wstepn H u Es.
  - match type of Es with ?m ?wa = Val (_, ?wb) =>
      assert (ST : same_tree wa wb) by (refine ((_ : stp m) wa _ wb Es); stp_tac) end.
    apply modify_node_wset in H as (n1 & Hn1 & _ & ->).
    eapply same_tree_trans; [exact ST|].
    assert (Hk : kids n1 = []).
    { destruct ST as (_ & _ & Hs). specialize (Hs h). rewrite (skel_some _ _ _ Hn), (skel_some _ _ _ Hn1) in Hs.
      injection Hs as _ ->. unfold kids. rewrite Hv0. reflexivity. }
    eapply st_wset; eauto.
  - match type of Es with ?m ?wa = Val (_, ?wb) =>
      refine ((_ : stp m) wa _ wb Es); stp_tac end.
Qed.

End Data.
