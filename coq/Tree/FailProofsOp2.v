(* Tree/FailProofsOp2.v — C11 over the extended alphabet op2.
   Uses (read-only): C14's e_sort_frame / m_sort_frame (sort never returns an error), C13's duplicate_spec (a failed
   duplicate leaves files and models as they were and only allocates), C09's load_fail_no_effect (a load rejected with
   anything but InvalidFileMerge).  set_version / check_version_compatibility / serialize are shown here directly:
   the check and the serialisers do not write before they can fail (set_version: C17_set_version says the same). *)
From Coq Require Import Lia.
From AV Require Import Tree.Sort Tree.SortProofsHeap Tree.SortProofsOrder Tree.SortProofsMain.
From AV Require Import Tree.Copy Tree.CopyProofsDefs Tree.CopyProofsBridge Tree.CopyProofsDup.
From AV Require Import Tree.Load Tree.LoadProofs Tree.Compat Tree.Serialize Tree.Script2.
From AV Require Import Base.Bytes Base.Outcome Hash.HashModel Tree.Heap Tree.Ops Tree.Script Tree.Inv
  Tree.FailProofsBase Tree.FailProofsOps Tree.Fail Tree.Fail2 Tree.Observe Tree.FailProofsLate Tree.FailProofsCopy
  Tree.FailProofsMove Tree.FailProofs Tree.FailProofsInv.
Open Scope string_scope.
Open Scope list_scope.
Open Scope N_scope.

Section Op2.
Variable T : tables.
Variable tab_el tab_at tab_en : nametab.
Variable check_fn : N -> list N -> res bool.
Variable float_parse : list N -> option N.
Variable float_fmt : N -> list N.
Variable LATEST name_index name_definition_ref attr_schema_location : N.
Variable root_attrs : list (N * cdata).

Notation run2 := (run_op2 T tab_el tab_at tab_en check_fn float_parse float_fmt LATEST name_index name_definition_ref
                          attr_schema_location root_attrs).
Notation known2 := (Known11_2 T tab_el tab_at tab_en check_fn float_parse float_fmt LATEST name_index name_definition_ref
                              attr_schema_location root_attrs).

Lemma bind_ret_er {A B} (m : W A) (f : A -> B) w e w' :
  (do a <- m; wret (f a))%W w = Val (ER e, w') -> m w = Val (ER e, w').
Proof.
  intros H. apply FailProofsBase.wbind_inv in H as [(a & w1 & H1 & H2) | (e' & H1 & Q)]; [discriminate H2|].
  injection Q as <-. exact H1.
Qed.

Lemma ro_f_check f v : ro (f_check_version_compatibility T f v).
Proof. intros w r w' H. unfold f_check_version_compatibility in H. destruct (f_check T w f v); inversion H; reflexivity. Qed.
Lemma nofail_f_check f v : nofail (f_check_version_compatibility T f v).
Proof. intros w e w' H. unfold f_check_version_compatibility in H. destruct (f_check T w f v); inversion H. Qed.

Lemma nf_f_set_version f v : nf (f_set_version T f v).
Proof.
  unfold f_set_version. apply nf_bind_ro; [apply ro_f_check|]. intros (errs, mask).
  destruct (is_empty errs).
  - apply nf_of_nofail. apply nofail_bind; [apply nofail_get_file|]. intros x w e w' H. unfold set_file in H. inversion H.
  - apply nf_of_ro. ro_tac.
Qed.

Lemma nofail_e_serialize h : nofail (e_serialize T tab_el tab_at tab_en float_fmt h).
Proof. intros w e w' H. unfold e_serialize in H. destruct (ser_heap _ _ _ _ _ _ _ _ _ _ _); inversion H. Qed.

Lemma nf_f_serialize f : nf (f_serialize T tab_el tab_at tab_en check_fn float_fmt attr_schema_location f).
Proof.
  unfold f_serialize. nf_tac.
  apply nf_of_nofail. nofail_tac.
  intros w e w' H. destruct (ser_heap _ _ _ _ _ _ _ _ _ _ _); inversion H.
Qed.

Theorem C11_fail_no_effect2 :
  tables_ok11 T -> forall w o e w',
  Core w -> known2 w o = false -> run2 o w = Val (ER e, w') ->
  obs_eq_upto_garbage w w' /\ (may_leave_garbage o = false -> w' = w).
Proof.
  intros HT w o e w' HC HK H. destruct o as [o1| h | m | m | m buffer filename strict | f v | f v | f | h];
    cbn [run_op2] in H; cbn [may_leave_garbage].
  - apply bind_ret_er in H. cbn [Known11_2] in HK.
    pose proof (C11_fail_cases T tab_el tab_en check_fn LATEST root_attrs HT w o1 e w' (Core_Inv11 w HC) HK H) as HCs.
    destruct (is_copy o1); [split; [exact HCs|discriminate]|]. subst w'. split; [|reflexivity].
    repeat split; auto. apply N.le_refl.
  - apply bind_ret_er in H. exfalso.
    apply (e_sort_frame T tab_el tab_at tab_en name_index name_definition_ref isort_poly StableSort_isort) in H as (Q & _).
    discriminate Q.
  - apply bind_ret_er in H. exfalso.
    apply (m_sort_frame T tab_el tab_at tab_en name_index name_definition_ref isort_poly StableSort_isort) in H as (Q & _).
    discriminate Q.
  - apply bind_ret_er in H.
    destruct (duplicate_spec T tab_el tab_en check_fn LATEST root_attrs m w (ER e) w' (Core_Closed w HC)) as (D1 & D2 & _ & _ & D3 & D4);
      [|exact H|].
    + intros x Hx. rewrite nth_opt_nth_error in Hx. destruct (c_roots w HC (N.to_nat m) (m_root x)) as (rn & Hrn & _).
      * unfold roots. rewrite nth_error_map, Hx. reflexivity.
      * eauto.
    + split; [|discriminate]. repeat split; auto.
  - split; [|discriminate].
    apply FailProofsBase.wbind_inv in H as [(a & w1 & H1 & H2) | (e' & H1 & Q)].
    { destruct a. discriminate H2. }
    injection Q as <-.
    eapply (load_fail_no_effect T tab_el tab_at tab_en check_fn float_parse LATEST name_definition_ref); [exact H1|].
    intros ->. cbn [Known11_2 K11_load_merge] in HK. unfold Fail2.run2 in HK. cbn [run_op2] in HK.
    unfold wbind in HK at 1. rewrite H1 in HK. discriminate HK.
  - apply bind_ret_er in H. apply nf_f_set_version in H. subst. split; [|reflexivity]. repeat split; auto. apply N.le_refl.
  - exfalso. apply FailProofsBase.wbind_inv in H as [(a & w1 & H1 & H2) | (e' & H1 & Q)].
    + destruct a. discriminate H2.
    + eapply nofail_f_check; eauto.
  - apply bind_ret_er in H. apply nf_f_serialize in H. subst. split; [|reflexivity]. repeat split; auto. apply N.le_refl.
  - apply bind_ret_er in H. exfalso. eapply nofail_e_serialize; eauto.
Qed.

(* one statement for every operation of op2, listing exactly the classes with an effect *)
Theorem C11_all_ops :
  tables_ok11 T -> forall w o e w',
  Core w -> run2 o w = Val (ER e, w') ->
  obs_eq_upto_garbage w w' \/
  (exists o1, o = Op1 o1 /\ K11_move_noname T tab_el tab_en check_fn LATEST root_attrs w o1 = true) \/
  (exists o1, o = Op1 o1 /\ K11_move_refwrite T tab_el tab_en check_fn LATEST root_attrs w o1 = true) \/
  (exists o1, o = Op1 o1 /\ K11_setref T tab_el tab_en check_fn LATEST root_attrs w o1 = true) \/
  (exists m buffer filename strict, o = OpLoad m buffer filename strict /\ e = InvalidFileMerge).
Proof.
  intros HT w o e w' HC H. destruct (known2 w o) eqn:HK.
  - right. destruct o as [o1| h | m | m | m buffer filename strict | f v | f v | f | h]; cbn [Known11_2 K11_load_merge] in HK;
      try discriminate HK.
    + unfold Known11 in HK. apply Bool.orb_true_iff in HK as [HK|HK]; [apply Bool.orb_true_iff in HK as [HK|HK]|].
      * left. eauto.
      * right. left. eauto.
      * right. right. left. eauto.
    + right. right. right. exists m, buffer, filename, strict. split; [reflexivity|].
      unfold Fail2.run2 in HK. rewrite H in HK. destruct e; try discriminate HK. reflexivity.
  - left. exact (proj1 (C11_fail_no_effect2 HT w o e w' HC HK H)).
Qed.

End Op2.
