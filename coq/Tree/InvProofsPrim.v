(* Tree/InvProofsPrim.v — C03 proofs, layer 2: concrete world forms produced by the primitives, list facts about
   content lists, and the computations that never change the skeleton (index updates, attributes, file sets). *)
From Coq Require Import PeanoNat Arith.
From AV Require Import Base.Bytes Base.Outcome Hash.HashModel Tree.Heap Tree.Ops Tree.Script Tree.Inv
  Tree.InvProofsBase Tree.InvProofsCore.
Open Scope string_scope.
Open Scope list_scope.
Open Scope N_scope.

(* ------------------------------------------------------------------ content lists *)
Lemma elems_insert_in l c : forall k x, In x (elems (insert_at l k (CElem c))) <-> x = c \/ In x (elems l).
Proof.
  induction l as [|y l IH]; intros [|k] x; cbn [insert_at].
  - cbn. intuition congruence.
  - cbn. intuition congruence.
  - rewrite elems_cons_elem. cbn [In]. intuition congruence.
  - destruct y as [y|d].
    + rewrite !elems_cons_elem. cbn [In]. rewrite IH. intuition congruence.
    + rewrite !elems_cons_data. apply IH.
Qed.

Lemma elems_insert_nodup l c : forall k, NoDup (elems l) -> ~ In c (elems l) -> NoDup (elems (insert_at l k (CElem c))).
Proof.
  induction l as [|y l IH]; intros [|k] Hnd Hc; cbn [insert_at].
  - cbn. repeat constructor; auto.
  - cbn. repeat constructor; auto.
  - rewrite elems_cons_elem. constructor; auto.
  - destruct y as [y|d].
    + rewrite !elems_cons_elem in *. inversion Hnd; subst. cbn [In] in Hc. constructor.
      * rewrite elems_insert_in. intuition.
      * apply IH; auto.
    + rewrite !elems_cons_data in *. apply IH; auto.
Qed.

Lemma elems_insert_data l d : forall k, elems (insert_at l k (CData d)) = elems l.
Proof.
  induction l as [|y l IH]; intros [|k]; cbn [insert_at]; auto.
  destruct y as [y|d']; [rewrite !elems_cons_elem | rewrite !elems_cons_data]; rewrite IH; auto.
Qed.

Lemma elems_remove_data l : forall k d, nth_opt l k = Some (CData d) -> elems (remove_at l k) = elems l.
Proof.
  induction l as [|y l IH]; intros [|k] d H; cbn in H; try discriminate; cbn [remove_at].
  - injection H as ->. reflexivity.
  - destruct y as [y|d']; [rewrite !elems_cons_elem | rewrite !elems_cons_data]; erewrite IH; eauto.
Qed.

Lemma elems_remove_incl l : forall k x, In x (elems (remove_at l k)) -> In x (elems l).
Proof.
  induction l as [|y l IH]; intros [|k] x; cbn [remove_at]; auto.
  - destruct y; [rewrite elems_cons_elem; cbn; auto | rewrite elems_cons_data; auto].
  - destruct y as [y|d]; [rewrite !elems_cons_elem; cbn [In]; intuition eauto | rewrite !elems_cons_data; eauto].
Qed.

Lemma elems_remove_nodup l : forall k, NoDup (elems l) -> NoDup (elems (remove_at l k)).
Proof.
  induction l as [|y l IH]; intros [|k] H; cbn [remove_at]; auto.
  - destruct y; [rewrite elems_cons_elem in H; inversion H; auto | rewrite elems_cons_data in H; auto].
  - destruct y as [y|d].
    + rewrite !elems_cons_elem in *. inversion H; subst. constructor; auto.
      intros Hin. apply elems_remove_incl in Hin. auto.
    + rewrite !elems_cons_data in *. auto.
Qed.

Lemma index_of_citem l c : forall k, index_of (citem_is c) l = Some k -> nth_opt l k = Some (CElem c).
Proof.
  induction l as [|y l IH]; intros k H; cbn in H; try discriminate.
  destruct (citem_is c y) eqn:E.
  - injection H as <-. destruct y as [y|d]; cbn in E; try discriminate. apply N.eqb_eq in E. subst. reflexivity.
  - destruct (index_of (citem_is c) l) as [k'|]; cbn in H; try discriminate. injection H as <-. cbn. auto.
Qed.

Lemma index_of_citem_none l c : index_of (citem_is c) l = None -> ~ In c (elems l).
Proof.
  induction l as [|y l IH]; cbn [index_of]; intros H; [auto|].
  destruct (citem_is c y) eqn:E; try discriminate.
  destruct (index_of (citem_is c) l); cbn in H; try discriminate.
  destruct y as [y|d]; [rewrite elems_cons_elem|rewrite elems_cons_data]; cbn [In]; auto.
  cbn in E. apply N.eqb_neq in E. intuition.
Qed.

Lemma index_of_citem_in l c k : index_of (citem_is c) l = Some k -> In c (elems l).
Proof. intros H. apply index_of_citem in H. apply nth_opt_In in H. apply in_elems. auto. Qed.

(* removing the entry of c found by position(..): exactly c disappears *)
Lemma elems_remove_elem l c : forall k, nth_opt l k = Some (CElem c) -> NoDup (elems l) ->
  forall x, In x (elems (remove_at l k)) <-> In x (elems l) /\ x <> c.
Proof.
  induction l as [|y l IH]; intros [|k] H Hnd x; cbn in H; try discriminate; cbn [remove_at].
  - injection H as ->. rewrite elems_cons_elem in *. inversion Hnd; subst. cbn [In]. split.
    + intros Hx. split; auto. intros ->. auto.
    + intros [[->|Hx] Hne]; congruence.
  - destruct y as [y|d].
    + rewrite !elems_cons_elem in *. inversion Hnd; subst. cbn [In]. rewrite (IH _ H H3).
      assert (y <> c). { intros ->. apply H2. apply in_elems. eapply nth_opt_In; eauto. }
      split; [intros [->|[? ?]]; auto | intros [[->|?] ?]; auto].
    + rewrite !elems_cons_data in *. apply IH; auto.
Qed.

(* ------------------------------------------------------------------ concrete worlds *)
Lemma skel_wset_eq w i n : skel (wset w i n) i = Some (n_parent n, kids n).
Proof. unfold skel, wset. cbn. rewrite upd_eq. reflexivity. Qed.
Lemma skel_wset_neq w i n x : x <> i -> skel (wset w i n) x = skel w x.
Proof. intros H. unfold skel, wset. cbn. rewrite upd_neq by auto. reflexivity. Qed.
Lemma roots_wset w i n : roots (wset w i n) = roots w. Proof. reflexivity. Qed.
Lemma next_wset w i n : w_next (wset w i n) = w_next w. Proof. reflexivity. Qed.
Lemma upd1_wset w i n : upd1 w (wset w i n) i.
Proof. repeat split; auto. intros x Hx. apply skel_wset_neq. auto. Qed.

Lemma st_wset w i n n' :
  w_nodes w i = Some n -> n_parent n' = n_parent n -> kids n' = kids n -> same_tree w (wset w i n').
Proof.
  intros Hn Hp Hk. repeat split; auto. intros x. destruct (N.eq_dec x i) as [->|Hx].
  - rewrite skel_wset_eq, (skel_some _ _ _ Hn). congruence.
  - apply skel_wset_neq. auto.
Qed.


(* worlds that differ only in files / in model records with the same roots *)
Lemma st_models w fs ms :
  map m_root ms = roots w -> same_tree w (mkWorld (w_nodes w) (w_next w) fs ms).
Proof. intros H. repeat split; auto. Qed.

Lemma roots_list_set w k x y :
  nth_error (w_models w) k = Some y -> m_root x = m_root y -> map m_root (list_set (w_models w) k x) = roots w.
Proof.
  intros Hy Hr. unfold roots. apply list_set_map. intros z Hz. congruence.
Qed.

(* ------------------------------------------------------------------ skeleton-preserving computations *)
Definition stp {A} (m : W A) : Prop := forall w r w', m w = Val (r, w') -> same_tree w w'.

Lemma stp_ro {A} (m : W A) : ro m -> stp m.
Proof. intros H w r w' E. apply H in E. subst. apply same_tree_refl. Qed.
Lemma stp_bind {A B} (m : W A) (k : A -> W B) : stp m -> (forall a, stp (k a)) -> stp (wbind m k).
Proof.
  intros Hm Hk w r w' H. apply wbind_inv in H as [(a & w1 & H1 & H2) | (e & H1 & _)].
  - eapply same_tree_trans; [eapply Hm|eapply Hk]; eauto.
  - eapply Hm; eauto.
Qed.
Lemma stp_try {A} (m : W A) : stp m -> stp (wtry m).
Proof. intros Hm w r w' H. apply wtry_inv in H as (r0 & H & _). eapply Hm; eauto. Qed.

Lemma stp_modify_node i f :
  (forall n, n_parent (f n) = n_parent n /\ kids (f n) = kids n) -> stp (modify_node i f).
Proof.
  intros Hf w r w' H. apply modify_node_wset in H as (n & Hn & _ & ->).
  destruct (Hf n). eapply st_wset; eauto.
Qed.

Lemma stp_modify_model m f : (forall x, m_root (f x) = m_root x) -> stp (modify_model m f).
Proof.
  intros Hf w r w' H. apply modify_model_inv in H as (x & Hx & _ & ->).
  apply st_models. rewrite nth_opt_nth_error in Hx. eapply roots_list_set; eauto.
Qed.

Lemma stp_set_file f x : stp (set_file f x).
Proof. intros w r w'. unfold set_file. intros [= <- <-]. apply st_models. reflexivity. Qed.

Create HintDb stp discriminated.
Ltac stp_step :=
  first
  [ apply stp_ro; solve [ro_tac]
  | assumption
  | solve [auto with stp]
  | apply stp_modify_model; intros ?; reflexivity
  | apply stp_modify_node; intros ?; split; reflexivity
  | apply stp_try
  | apply stp_bind; [ | intros ? ]
  | match goal with
    | |- stp (match ?x with _ => _ end) => destruct x
    | |- stp (if ?b then _ else _) => destruct b
    end ].
Ltac stp_tac := repeat stp_step.

Section STP.
Variable T : tables.
Variable tab_el tab_en : nametab.
Variable check_fn : N -> list N -> res bool.
Variable LATEST : N.

Lemma stp_add_identifiable m p e : stp (add_identifiable m p e).
Proof. unfold add_identifiable. stp_tac. Qed.
Lemma stp_remove_identifiable m p : stp (remove_identifiable m p).
Proof. unfold remove_identifiable. stp_tac. Qed.
Lemma stp_fix_identifiables m a b : stp (fix_identifiables m a b).
Proof. unfold fix_identifiables. stp_tac. Qed.
Lemma stp_add_reference_origin m r e : stp (add_reference_origin m r e).
Proof. unfold add_reference_origin. stp_tac. Qed.
Lemma stp_fix_reference_origins m a b e : stp (fix_reference_origins m a b e).
Proof. unfold fix_reference_origins. stp_tac. Qed.
Lemma stp_remove_reference_origin m r e : stp (remove_reference_origin m r e).
Proof. unfold remove_reference_origin. stp_tac. Qed.

Lemma stp_set_model_same m x f :
  (forall y, m_root (f y) = m_root y) ->
  forall w r w', nth_opt (w_models w) (N.to_nat m) = Some x -> set_model m (f x) w = Val (r, w') -> same_tree w w'.
Proof.
  intros Hf w r w' Hx H. apply set_model_inv in H as (_ & ->). apply st_models.
  rewrite nth_opt_nth_error in Hx. eapply roots_list_set; eauto.
Qed.

End STP.

#[export] Hint Resolve stp_add_identifiable stp_remove_identifiable stp_fix_identifiables stp_add_reference_origin
  stp_fix_reference_origins stp_remove_reference_origin : stp.

(* ------------------------------------------------------------------ allocation *)
Lemma alloc1_walloc w n : alloc1 w (walloc w n).
Proof. repeat split; auto. intros x Hx. unfold skel, walloc. cbn. rewrite upd_neq by auto. reflexivity. Qed.
Lemma skel_walloc_new w n : skel (walloc w n) (w_next w) = Some (n_parent n, kids n).
Proof. unfold skel, walloc. cbn. rewrite upd_eq. reflexivity. Qed.
Lemma nodes_walloc_old w n x : x <> w_next w -> w_nodes (walloc w n) x = w_nodes w x.
Proof. intros H. unfold walloc. cbn. apply upd_neq. auto. Qed.
Lemma nodes_walloc_new w n : w_nodes (walloc w n) (w_next w) = Some n.
Proof. unfold walloc. cbn. apply upd_eq. Qed.
Lemma nodes_wset_eq w i n : w_nodes (wset w i n) i = Some n.
Proof. unfold wset. cbn. apply upd_eq. Qed.
Lemma nodes_wset_neq w i n x : x <> i -> w_nodes (wset w i n) x = w_nodes w x.
Proof. intros H. unfold wset. cbn. apply upd_neq. auto. Qed.

Lemma core_not_fresh w i n : Core w -> w_nodes w i = Some n -> i <> w_next w.
Proof. intros C H ->. assert (allocated w (w_next w)) as Ha by (eexists; eauto). apply C in Ha. lia. Qed.

(* ------------------------------------------------------------------ invariant-preserving computations *)
Definition Pres {A} (m : W A) : Prop :=
  forall w r w', m w = Val (r, w') -> Core w -> Core w' /\ (NoOrphan w -> NoOrphan w').

Lemma Pres_stp {A} (m : W A) : stp m -> Pres m.
Proof.
  intros H w r w' E C. apply H in E. split; [eapply Core_same_tree | eapply NoOrphan_same_tree]; eauto.
Qed.
Lemma Pres_ro {A} (m : W A) : ro m -> Pres m.
Proof. intros H. apply Pres_stp, stp_ro, H. Qed.
Lemma Pres_bind {A B} (m : W A) (k : A -> W B) : Pres m -> (forall a, Pres (k a)) -> Pres (wbind m k).
Proof.
  intros Hm Hk w r w' H C. apply wbind_inv in H as [(a & w1 & H1 & H2) | (e & H1 & _)].
  - destruct (Hm _ _ _ H1 C) as (C1 & O1). destruct (Hk _ _ _ _ H2 C1) as (C2 & O2). auto.
  - eapply Hm; eauto.
Qed.
Lemma Pres_try {A} (m : W A) : Pres m -> Pres (wtry m).
Proof. intros Hm w r w' H. apply wtry_inv in H as (r0 & H & _). eapply Hm; eauto. Qed.

Create HintDb pres discriminated.
Ltac pres_step :=
  first
  [ apply Pres_ro; solve [ro_tac]
  | assumption
  | solve [auto with pres]
  | apply Pres_stp; solve [stp_tac]
  | apply Pres_try
  | apply Pres_bind; [ | intros ? ]
  | match goal with
    | |- Pres (match ?x with _ => _ end) => destruct x
    | |- Pres (if ?b then _ else _) => destruct b
    end ].
Ltac pres_tac := repeat pres_step.

Lemma TreeInv_Pres {A} (m : W A) w r w' : Pres m -> m w = Val (r, w') -> TreeInv w -> TreeInv w'.
Proof. intros H E (C & O). destruct (H _ _ _ E C). split; auto. Qed.
