(* Tree/FilesProofsLoad4.v — C10 proofs, load: the first file of a model, and the files of a Good master (agent-c09's
   class, Tree/MergePureProofs.v): the merged model satisfies FilesInvW and RootFull.
   For a Good master the model tree is Rep F None M (membership = the files of the master that are loaded, empty when
   equal to the parent's), and the file sets of a Good master are ancestor closed: Rep gives HInvRoot. *)
From Coq Require Import PeanoNat Arith Lia Permutation.
From AV Require Import Base.Bytes Base.Outcome Hash.HashModel Tree.Heap Tree.Ops Tree.Script Tree.Inv Tree.InvProofsBase
  Tree.InvProofsTree Tree.Load Tree.MergeSpec Tree.MergePure Tree.MergePureProofsBase Tree.MergePureProofs Tree.LoadRefineBase
  Tree.LoadRefinePure Tree.LoadRefineMain Tree.LoadRefineTop
  Tree.Files Tree.FilesLoad Tree.FilesProofsBase Tree.FilesProofsProj Tree.FilesProofsAdd Tree.FilesProofsMerge
  Tree.FilesProofsBridge Tree.FilesProofsLoad2.
From AV Require Xml.Parser.
Open Scope string_scope.
Open Scope list_scope.
Open Scope N_scope.

Section Load4.
Variable T : tables.
Variables LATEST defref v : N.

(* ---------- the first file ---------- *)
Theorem load_first_inv m filename root st w x r w' :
  Core w' -> nth_opt (w_models w) (N.to_nat m) = Some x -> m_files x = [] ->
  load_parsed T LATEST defref m filename root st w = Val (r, w') ->
  let fid := N.of_nat (List.length (w_files w)) in
  r = ER OverlappingDataError \/
  (r = OK fid /\
   exists x', nth_opt (w_models w') (N.to_nat m) = Some x' /\ m_files x' = [fid] /\ FilesInvW w' x' /\ RootFull w' x').
Proof.
  intros C' Hx Hf H fid.
  destruct (load_parsed_first T LATEST defref m filename root st w x r w' Hx Hf H) as [->|(-> & _ & ta & MT & Her)]; [left; reflexivity|right].
  split; [reflexivity|].
  destruct MT as ((x' & Hx' & Hroot' & Hfiles') & HA' & _ & _). exists x'. split; auto. split; auto.
  destruct (root_link w' x' m C' Hx') as (rn' & k' & Hrn' & Hrp'). rewrite Hroot' in Hrn'.
  assert (HInvRoot [fid] (erase ta)) as HR.
  { rewrite Her. pose proof (hoe_nolocal root) as NL. destruct (htree_of_etree root) as [name ty attrs content comment loc].
    unfold HInvRoot. cbn [h_set_local h_local h_content]. split; [discriminate|]. split; [apply incl_refl|].
    intros k0 Hk0. apply NoLocal_HInv. inversion NL; subst. auto. }
  split.
  - apply (tree_to_heap w' C' [fid] ta x' HA' Hroot' Hfiles'); eauto.
  - exists rn'. rewrite Hroot'. split; auto. rewrite Hfiles'.
    destruct (AbsA_node _ _ HA') as (p & Hp). rewrite Hp in Hrn'. injection Hrn' as <-. cbn [n_files].
    rewrite <- erase_local, Her. destruct (htree_of_etree root). cbn. apply incl_refl.
Qed.

(* ---------- Good masters ---------- *)
Lemma rep_items_in (R : list N -> mtree -> htree -> Prop) F S : forall l hl k,
  RepItems R F S l hl -> In (inl k) hl -> exists c, In c (kids l) /\ R S c k.
Proof.
  induction l as [|[c|d] r IH]; intros hl k H Hk; cbn [RepItems] in H.
  - subst hl. destruct Hk.
  - destruct (present F c).
    + destruct H as (h & hr & -> & Hr & Hrest). destruct Hk as [[= <-]|Hk].
      * exists c. split; [cbn; left; reflexivity|exact Hr].
      * destruct (IH hr k Hrest Hk) as (c0 & Hc0 & Hr0). exists c0. split; [cbn; right; exact Hc0|exact Hr0].
    + destruct (IH hl k H Hk) as (c0 & Hc0 & Hr0). exists c0. split; [cbn; right; exact Hc0|exact Hr0].
  - destruct H as (hr & -> & Hrest). destruct Hk as [[=]|Hk].
    destruct (IH hr k Hrest Hk) as (c0 & Hc0 & Hr0). exists c0. split; [cbn; exact Hc0|exact Hr0].
Qed.

Lemma norm_eff (S inhS : list N) : S <> [] -> eff_of inhS (norm (Some inhS) S) = S.
Proof.
  intros Hne. unfold norm, eff_of. destruct (bytes_eqb inhS S) eqn:E.
  - apply bytes_eqb_spec in E. subst. reflexivity.
  - destruct S; [congruence|reflexivity].
Qed.

Lemma rep_hinv n : forall t, (depth t <= n)%nat -> Good T defref v t -> forall F inhS h,
  Rep T F (Some inhS) t h -> incl (inF F (mfiles t)) inhS -> HInv F inhS h.
Proof.
  induction n as [|n IH]; intros [name ty attrs content comment files] Hd HG F inhS h HR Hsub; rewrite depth_unfold in Hd; [lia|].
  apply Good_unfold in HG as (Hs & Hne & (Hclosed & _) & Hkids).
  apply Rep_unfold in HR as (HSne & hc & hc' & -> & Hitems & Hperm & _). cbn [mfiles m_fileset] in Hsub.
  set (S := inF F files) in *. constructor.
  - unfold norm. destruct (bytes_eqb inhS S); [intros y Hy; destruct Hy|]. intros y Hy. apply inF_in in Hy. tauto.
  - intros Hn. unfold norm in *. destruct (bytes_eqb inhS S); [congruence|exact Hsub].
  - intros k Hk. rewrite (norm_eff S inhS HSne).
    assert (In (inl k) hc') as Hk' by (eapply Permutation_in; eauto).
    destruct (rep_items_in _ F S content hc' k Hitems Hk') as (c & Hc & Hr).
    apply (IH c); auto.
    + apply kids_in in Hc. apply depth_items_in in Hc. lia.
    + intros y Hy. apply inF_in in Hy as (Hy1 & Hy2). apply inF_in. split; auto. apply (Hclosed c Hc). exact Hy1.
Qed.

Lemma rep_root_hinv t F h : Good T defref v t -> Rep T F None t h -> HInvRoot F h /\ h_local h = inF F (mfiles t).
Proof.
  intros HG HR. destruct t as [name ty attrs content comment files].
  pose proof HG as HG0. apply Good_unfold in HG as (Hs & Hne & (Hclosed & _) & Hkids).
  apply Rep_unfold in HR as (HSne & hc & hc' & -> & Hitems & Hperm & _).
  unfold HInvRoot. cbn [h_local h_content norm mfiles m_fileset]. split; [|reflexivity]. split; [exact HSne|]. split.
  - intros y Hy. apply inF_in in Hy. tauto.
  - intros k Hk. assert (In (inl k) hc') as Hk' by (eapply Permutation_in; eauto).
    destruct (rep_items_in _ F (inF F files) content hc' k Hitems Hk') as (c & Hc & Hr).
    apply (rep_hinv (depth c) c (le_n _) (Hkids c Hc) F (inF F files) k Hr).
    intros y Hy. apply inF_in in Hy as (Hy1 & Hy2). apply inF_in. split; auto. apply (Hclosed c Hc). exact Hy1.
Qed.

(* the files of a Good master, loaded one after the other into an empty model (C09_merge_union): the model satisfies
   FilesInvW and its root is in all files *)
Theorem load_good_inv tab_el tab_at tab_en check_fn float_parse M m x w0 n strict bufs items os w :
  Good T defref v M ->
  nth_opt (w_models w0) (N.to_nat m) = Some x -> m_files x = [] ->
  let gs := n_range (S n) (N.of_nat (List.length (w_files w0))) in
  Forall2 (parses_to T tab_el tab_at tab_en check_fn float_parse strict) bufs items ->
  Forall2 (is_view v M) gs items ->
  (forall g, In g gs -> In g (mfiles M)) ->
  load_bufs T tab_el tab_at tab_en check_fn float_parse LATEST defref m strict bufs w0 = Val (os, w) ->
  Forall (fun o => o <> ER DuplicateFilenameError /\ o <> ER OverlappingDataError) os ->
  Core w ->
  exists x', nth_opt (w_models w) (N.to_nat m) = Some x' /\ m_files x' = gs /\ FilesInvW w x' /\ RootFull w x'.
Proof.
  intros HG Hx Hf gs Hp Hv Hin Hl Hos C.
  destruct (heap_union_buffers T tab_el tab_at tab_en check_fn float_parse LATEST defref v M m x w0 n strict bufs items os w
              HG Hx Hf Hp Hv Hin Hl Hos) as (_ & ta & MT & _ & HRep & _).
  destruct MT as ((x' & Hx' & Hroot' & Hfiles') & HA' & _ & _). exists x'. split; auto. split; auto.
  destruct (rep_root_hinv M (rev gs) (erase ta) HG HRep) as (HR & Hloc).
  destruct (root_link w x' m C Hx') as (rn' & k' & Hrn' & Hrp'). rewrite Hroot' in Hrn'.
  assert (HInvRoot gs (erase ta)) as HR'.
  { destruct HR as (A & B & Cc). split; auto. split.
    - intros y Hy. apply in_rev. apply B, Hy.
    - intros k0 Hk0. eapply HInv_mono; [apply Cc, Hk0| |apply incl_refl]. intros y Hy. apply in_rev in Hy. exact Hy. }
  split.
  - apply (tree_to_heap w C gs ta x' HA' Hroot' Hfiles'); eauto.
  - exists rn'. rewrite Hroot'. split; auto. rewrite Hfiles'.
    destruct (AbsA_node _ _ HA') as (p & Hp'). rewrite Hp' in Hrn'. injection Hrn' as <-. cbn [n_files].
    rewrite <- erase_local, Hloc. intros y Hy. apply inF_in. split; [apply Hin, Hy|apply in_rev in Hy; exact Hy].
Qed.

End Load4.
