(* Tree/RefsProofs.v — C05 proofs, layer 1: one reference element h of model m changes its text from old_t to new_t
   (None = no string text), the tree is otherwise the same, and the reference_origins map of m is updated by
   remove_origin old / add_origin new: RefsExact and OriginsTidy are kept.  Covers set_character_data on a
   reference, remove_character_data, set_reference_target. *)
From Coq Require Import Permutation.
From AV Require Import Base.Bytes Base.Outcome Hash.HashModel Tree.Heap Tree.Ops Tree.Script Tree.IndexProofsW
  Tree.Index Tree.IndexProofsBase Tree.IndexProofsAssoc Tree.IndexProofsFrame Tree.Refs Tree.RefsProofsBase.
Open Scope string_scope.
Open Scope list_scope.
Open Scope N_scope.

Section Retarget.
Variable T : tables.
Variables (w w' : world) (m : N) (h : id) (x x' : model) (old_t new_t : option (list N)).

Definition upd_origins (l : list (list N * list id)) : list (list N * list id) :=
  let l1 := match old_t with Some o => remove_origin o h l | None => l end in
  match new_t with Some q => add_origin q h l1 | None => l1 end.

Hypothesis H_only : forall m2, MReach T w m2 h -> m2 = m.
Hypothesis H_reach : forall m2 i, MReach T w' m2 i <-> MReach T w m2 i.
Hypothesis H_text : forall j, j <> h -> ref_text T w' j = ref_text T w j.
Hypothesis H_old : ref_text T w h = old_t.
Hypothesis H_new : ref_text T w' h = new_t.
Hypothesis H_h : MReach T w m h.
Hypothesis H_x : model_at w m = Some x.
Hypothesis H_x' : model_at w' m = Some x'.
Hypothesis H_orig : m_origins x' = upd_origins (m_origins x).
Hypothesis H_others : forall m2, m2 <> m -> option_map m_origins (model_at w' m2) = option_map m_origins (model_at w m2).

Lemma h_only_in_m m2 : MReach T w m2 h -> m2 = m.
Proof. apply H_only. Qed.

Lemma refset_other m2 p r : r <> h -> (RefSet T w' m2 p r <-> RefSet T w m2 p r).
Proof. intros Hne. unfold RefSet. rewrite H_reach, (H_text _ Hne). tauto. Qed.
Lemma refset_h_old p : RefSet T w m p h <-> old_t = Some p.
Proof. unfold RefSet. rewrite H_old. split; [tauto|auto]. Qed.
Lemma refset_h_new p : RefSet T w' m p h <-> new_t = Some p.
Proof. unfold RefSet. rewrite H_new, H_reach. split; [tauto|auto]. Qed.

Lemma opt_case {A} (o : option A) (P : Prop) : (o = None -> P) -> (forall a, o = Some a -> P) -> P.
Proof. destruct o; eauto. Qed.

Theorem retarget_inv05 : Inv05 T w -> Inv05 T w'.
Proof.
  intros [IE IT]. constructor.
  - (* RefsExact *)
    intros m2 y Hy p. destruct (N.eq_dec m2 m) as [->|Hne].
    + rewrite H_x' in Hy. injection Hy as <-. unfold origins_of. fold (oget p (m_origins x')). rewrite H_orig.
      assert (Hex : forall p0, NoDup (oget p0 (m_origins x)) /\ forall r, In r (oget p0 (m_origins x)) <-> RefSet T w m p0 r)
        by (intros p0; exact (IE m x H_x p0)).
      destruct (IT m x H_x) as (Hnd & Hne).
      remember (m_origins x) as l eqn:El.
      remember (match old_t with Some o => remove_origin o h l | None => l end) as l1 eqn:El1.
      (* after the removal *)
      assert (P1 : forall p0, NoDup (oget p0 l1) /\ forall r, In r (oget p0 l1) <-> RefSet T w m p0 r /\ r <> h).
      { intros p0. destruct (Hex p0) as (Hn0 & Hin0).
        subst l1. apply (opt_case old_t); [intros Eo|intros o Eo]; rewrite Eo.
        1:{ split; [exact Hn0|]. intros r. rewrite Hin0. split; [|tauto]. intros Hr. split; [exact Hr|].
            intros ->. apply refset_h_old in Hr. congruence. }
        rewrite oget_remove. destruct (bytes_dec p0 o) as [->|Hpo].
          * destruct (remove_first_spec h _ Hn0) as (Hn1 & Hin1). split; [exact Hn1|]. intros r. rewrite Hin1, Hin0. tauto.
          * split; [exact Hn0|]. intros r. rewrite Hin0. split; [|tauto]. intros Hr. split; [exact Hr|].
            intros ->. apply refset_h_old in Hr. congruence. }
      unfold upd_origins. rewrite <- El1. apply (opt_case new_t); [intros Eq|intros q Eq]; rewrite Eq.
      * destruct (P1 p) as (Hn1 & Hin1). split; [exact Hn1|]. intros r. rewrite Hin1.
        destruct (N.eq_dec r h) as [->|Hrh].
        -- split; [tauto|]. intros Hr. apply refset_h_new in Hr. congruence.
        -- rewrite (refset_other m p r Hrh). tauto.
      * rewrite oget_add. destruct (bytes_dec p q) as [->|Hpq].
        -- destruct (P1 q) as (Hn1 & Hin1). split.
           ++ eapply Permutation_NoDup; [apply Permutation_cons_append|]. constructor; [|exact Hn1].
              intros Hi. apply Hin1 in Hi. tauto.
           ++ intros r. rewrite in_app_iff, Hin1. cbn. destruct (N.eq_dec r h) as [->|Hrh].
              ** split; [intros _; apply refset_h_new; exact Eq|auto].
              ** rewrite (refset_other m q r Hrh). split; [intros [(H1 & _)|[E|[]]]; [exact H1|congruence]|auto].
        -- destruct (P1 p) as (Hn1 & Hin1). split; [exact Hn1|]. intros r. rewrite Hin1.
           destruct (N.eq_dec r h) as [->|Hrh].
           ++ split; [tauto|]. intros Hr. apply refset_h_new in Hr. congruence.
           ++ rewrite (refset_other m p r Hrh). tauto.
    + pose proof (H_others m2 Hne) as Ho. rewrite Hy in Ho. destruct (model_at w m2) as [y0|] eqn:Ey0; [|discriminate].
      cbn in Ho. injection Ho as Ho. unfold origins_of. rewrite Ho.
      destruct (IE m2 y0 Ey0 p) as (Hn0 & Hin0). split; [exact Hn0|]. intros r. unfold origins_of in Hin0. rewrite Hin0.
      destruct (N.eq_dec r h) as [->|Hrh].
      * split; intros (Hr & _); exfalso; apply Hne; apply h_only_in_m; [|apply H_reach]; exact Hr.
      * symmetry. apply refset_other. exact Hrh.
  - (* OriginsTidy *)
    intros m2 y Hy. destruct (N.eq_dec m2 m) as [->|Hne].
    + rewrite H_x' in Hy. injection Hy as <-. rewrite H_orig. pose proof (IT m x H_x) as Ht.
      change (Tidy (upd_origins (m_origins x))). change (Tidy (m_origins x)) in Ht. unfold upd_origins.
      apply (opt_case new_t); [intros Eq|intros q Eq]; rewrite Eq; [|apply tidy_add];
        (apply (opt_case old_t); [intros Eo|intros o Eo]; rewrite Eo; [|apply tidy_remove]; exact Ht).
    + pose proof (H_others m2 Hne) as Ho. rewrite Hy in Ho. destruct (model_at w m2) as [y0|] eqn:Ey0; [|discriminate].
      cbn in Ho. injection Ho as Ho. rewrite Ho. apply (IT m2 y0 Ey0).
Qed.

End Retarget.

(* ------------------------------------------------------------------ worlds with the same references *)
Section Transfer.
Variable T : tables.

Lemma only_model w m h : TreeFacts w -> MReach T w m h -> forall m2, MReach T w m2 h -> m2 = m.
Proof.
  intros HF Hh m2 H2. destruct (mreach_specpath T _ _ _ H2) as (p2 & S2). destruct (mreach_specpath T _ _ _ Hh) as (p & S).
  destruct (specpath_fun T _ _ _ _ _ _ HF S2 S) as (-> & _). reflexivity.
Qed.

Lemma inv05_transfer w w' :
  (forall m p r, RefSet T w' m p r <-> RefSet T w m p r) ->
  (forall m, option_map m_origins (model_at w' m) = option_map m_origins (model_at w m)) ->
  Inv05 T w -> Inv05 T w'.
Proof.
  intros Hrs Ho [IE IT]. constructor.
  - intros m y Hy p. specialize (Ho m). rewrite Hy in Ho. destruct (model_at w m) as [y0|] eqn:Ey0; [|discriminate].
    cbn in Ho. injection Ho as Ho. unfold origins_of. rewrite Ho. destruct (IE m y0 Ey0 p) as (H1 & H2).
    split; [exact H1|]. intros r. unfold origins_of in H2. rewrite H2. symmetry. apply Hrs.
  - intros m y Hy. specialize (Ho m). rewrite Hy in Ho. destruct (model_at w m) as [y0|] eqn:Ey0; [|discriminate].
    cbn in Ho. injection Ho as Ho. rewrite Ho. apply (IT m y0 Ey0).
Qed.

Lemma Inv05_sv w w' : SV w w' -> Inv05 T w -> Inv05 T w'.
Proof.
  intros HS [IE IT]. constructor; intros m; [eapply RefsExact_sv|eapply OriginsTidy_sv]; eauto.
Qed.

End Transfer.
