(* Tree/SortTiny.v — a tiny hand-made table set and a few worlds for the C14 refutation witnesses and the non-vacuity
   examples.  DEFINITIONS + Examples only.
   element names = element definitions = data types:
     0 ROOT (bag: PKG* PARAM* ORD)  1 PKG (SHORT-NAME)  2 SHORT-NAME (string)  3 PARAM (DEFINITION-REF VAL)
     4 DEFINITION-REF (string, attribute DEST)  5 VAL (float)  6 ORD (an `ordered` container of any number of PKG)
   attribute 0 = DEST, enum items 0 A-DEF 1 B-DEF 2 C-DEF *)
From AV Require Import Base.Bytes Base.Outcome Hash.HashModel Tree.Heap Tree.Ops Tree.Sort.
Open Scope string_scope.
Open Scope list_scope.
Open Scope N_scope.

Module SortTiny.
Definition mkE (name ty mult ordered : N) : elemdef :=
  {| ed_name := name; ed_type := ty; ed_mult := mult; ed_ordered := ordered; ed_split := 0; ed_restrict := 0 |}.
Definition mkD (s e : N) (as_ ae : N) (cd mode : N) : dtype :=
  {| dt_sub_start := s; dt_sub_end := e; dt_sub_ver := s; dt_attr_start := as_; dt_attr_end := ae; dt_attr_ver := 50;
     dt_cdata := cd; dt_mode := mode; dt_ref_start := 0; dt_ref_end := 0 |}.

Definition tiny : tables := {|
  T_elements := fun i => match i with
    | 0 => Some (mkE 0 0 1 0) | 1 => Some (mkE 1 1 2 0) | 2 => Some (mkE 2 2 1 0) | 3 => Some (mkE 3 3 2 0)
    | 4 => Some (mkE 4 4 0 0) | 5 => Some (mkE 5 5 0 0) | 6 => Some (mkE 6 6 0 1) | _ => None end;
  n_elements := 7;
  T_subelements := fun i => match i with
    | 0 => Some (0, 1) | 1 => Some (0, 3) | 2 => Some (0, 6)      (* ROOT: PKG* PARAM* ORD *)
    | 3 => Some (0, 2)                                            (* PKG: SHORT-NAME *)
    | 4 => Some (0, 4) | 5 => Some (0, 5)                         (* PARAM: DEFINITION-REF VAL *)
    | 6 => Some (0, 1)                                            (* ORD: PKG* *)
    | _ => None end;
  n_subelements := 7;
  T_attributes := fun i => match i with 0 => Some (0, 2, 0) | _ => None end;
  n_attributes := 1;
  T_version_info := fun _ => Some 1;
  n_version_info := 100;
  T_datatypes := fun i => match i with
    | 0 => Some (mkD 0 3 0 0 0 MBag)
    | 1 => Some (mkD 3 4 0 0 0 MSequence)
    | 2 => Some (mkD 4 4 0 0 1 MCharacters)
    | 3 => Some (mkD 4 6 0 0 0 MSequence)
    | 4 => Some (mkD 6 6 0 1 1 MCharacters)
    | 5 => Some (mkD 6 6 0 0 2 MCharacters)
    | 6 => Some (mkD 6 7 0 0 0 MSequence)
    | _ => None end;
  n_datatypes := 7;
  T_ref_items := fun _ => None;
  n_ref_items := 0;
  T_cdata := fun i => match i with
    | 0 => Some (CString false None) | 1 => Some CFloat | 2 => Some (CEnum [(0, 1); (1, 1); (2, 1)]) | _ => None end;
  n_cdata := 3;
  reference_type_idx := 9; autosar_element := 0; name_short_name := 2; attr_dest := 0
|}.

Definition mkTab (l : list (list N)) : nametab := {| nt_strtab := l; nt_disp := [(0, 0)]; nt_mdisp := 1; nt_mtab := 1 |}.
Definition tiny_el := mkTab [BS "ROOT"; BS "PKG"; BS "SHORT-NAME"; BS "PARAM"; BS "DEFINITION-REF"; BS "VAL"; BS "ORD"].
Definition tiny_at := mkTab [BS "DEST"].
Definition tiny_en := mkTab [BS "A-DEF"; BS "B-DEF"; BS "C-DEF"].
Definition NAME_INDEX := 99.
Definition NAME_DEFREF := 4.

Definition cmp (pol : policy) (w : world) := cmp_p tiny tiny_el tiny_at tiny_en NAME_INDEX NAME_DEFREF pol w.
Definition sort (i : id) : W unit := e_sort tiny tiny_el tiny_at tiny_en NAME_INDEX NAME_DEFREF i.

(* worlds are written down node by node *)
Definition mkN (p : pref) (name : N) (content : list citem) (attrs : list (N * cdata)) : node :=
  mkNode p name (name, name) content attrs [] None.
Definition world_of (nodes : list node) : world :=
  mkWorld (fun i => nth_opt nodes (N.to_nat i)) (N.of_nat (List.length nodes)) [] [mkModel 0 [] [] []].

Definition pkg (self parent : id) (name : string) : list node :=
  [mkN (PElem parent) 1 [CElem (self + 1)] []; mkN (PElem self) 2 [CData (DString (BS name))] []].

(* ROOT with three packages in the given order; package k is node 1 + 2k *)
Definition packages (a b c : string) : world :=
  world_of (mkN (PModel 0) 0 [CElem 1; CElem 3; CElem 5] [] :: pkg 1 0 a ++ pkg 3 0 b ++ pkg 5 0 c).

(* PARAM with an optional DEFINITION-REF (DEST, optional text) and a VAL *)
Definition param (self parent : id) (dest : N) (text : option string) (val : N) : list node :=
  [mkN (PElem parent) 3 [CElem (self + 1); CElem (self + 2)] [];
   mkN (PElem self) 4 (match text with Some t => [CData (DString (BS t))] | None => [] end) [(0, DEnum dest)];
   mkN (PElem self) 5 [CData (DFloat val)] []].

(* the DEFINITION-REF of the middle one has a DEST but no text *)
Definition params : world :=
  world_of (mkN (PModel 0) 0 [CElem 1; CElem 4; CElem 7] []
            :: param 1 0 2 (Some "/x") 0 ++ param 4 0 1 None 0 ++ param 7 0 0 (Some "/y") 0).

(* equal definition references, VAL = 2.0, NaN, 1.0 *)
Definition floats : world :=
  world_of (mkN (PModel 0) 0 [CElem 1; CElem 4; CElem 7] []
            :: param 1 0 0 (Some "/x") 4611686018427387904 ++ param 4 0 0 (Some "/x") 9221120237041090560
               ++ param 7 0 0 (Some "/x") 4607182418800017408).

Definition content_of (w : world) (i : id) : list citem :=
  match w_nodes w i with Some n => n_content n | None => [] end.
Definition sorted_content (w : world) : option (list citem) :=
  match sort 0 w with Val (OK _, w') => Some (content_of w' 0) | _ => None end.

(* as the code stands: every order of a2 a10 a1b sorts to a2 a10 a1b *)
Example ex_sort_1 : sorted_content (packages "a2" "a10" "a1b") = Some [CElem 1; CElem 3; CElem 5].
Proof. vm_compute. reflexivity. Qed.
Example ex_sort_2 : sorted_content (packages "a1b" "a10" "a2") = Some [CElem 5; CElem 3; CElem 1].
Proof. vm_compute. reflexivity. Qed.
Example ex_sort_3 : sorted_content (packages "a10" "a1b" "a2") = Some [CElem 5; CElem 1; CElem 3].
Proof. vm_compute. reflexivity. Qed.
Example ex_cmp_val : cmp policy_cur (packages "a2" "a10" "a1b") 1 3 = Val Lt.
Proof. vm_compute. reflexivity. Qed.
End SortTiny.
