(* Tree/LoadRefinePure.v — C09, heap merge = pure merge: facts about the pure merge that the simulation needs.
     * p_import only looks at the element names of the content list: on two lists of the same shape it inserts at the
       same positions ([ins_all]);
     * map_kids / child_step keep the shape;
     * [Clean]: the walk results of a pure merge (recursively) name every sub-element of b at most once — what makes the
       three phases of the heap algorithm (restrict, import, merge the pairs) independent of each other.  It holds for
       the class Good (LoadRefineGood.v). *)
From Coq Require Import Permutation.
From AV Require Import Base.Bytes Base.Outcome Hash.HashModel Tree.Heap Tree.Ops Tree.Load Tree.MergeSpec Tree.MergePure.
Open Scope string_scope.
Open Scope list_scope.
Open Scope N_scope.

Definition shape (l : list (htree + cdata)) : list (option N) := map item_name_of l.

(* insert the elements at the positions, one after the other *)
Fixpoint ins_all {A} (ds : list nat) (xs : list A) (l : list A) : list A :=
  match ds, xs with
  | d :: ds', x :: xs' => ins_all ds' xs' (insert_at l d x)
  | _, _ => l
  end.

Lemma shape_insert l k x : shape (insert_at l k x) = insert_at (shape l) k (item_name_of x).
Proof. unfold shape. revert k. induction l as [|y l IH]; intros [|k]; cbn [insert_at map]; auto. f_equal. apply IH. Qed.

Section Pure.
Variable T : tables.
Variables LATEST defref : N.
Variable fver : N -> option N.

Lemma p_range_shape ty cur cur' name v :
  shape cur = shape cur' -> p_insert_range T ty cur name v = p_insert_range T ty cur' name v.
Proof.
  intros Hs. unfold p_insert_range. unfold shape in Hs. rewrite Hs.
  assert (El : List.length cur = List.length cur').
  { rewrite <- (map_length item_name_of cur), Hs, map_length. reflexivity. }
  rewrite El. reflexivity.
Qed.

(* the elements import_new_items inserts *)
Fixpoint imported (bcontent : list (htree + cdata)) (bs : list (id * N)) (nf : N) : list (htree + cdata) :=
  match bs with
  | [] => []
  | (bid, _) :: r =>
    match nth_opt bcontent (N.to_nat bid) with
    | Some (inl nb) => inl (h_import nf nb) :: imported bcontent r nf
    | _ => imported bcontent r nf
    end
  end.

Lemma p_import_shape ty bcontent nf minv : forall bs idx cur r,
  p_import T ty bcontent bs idx nf minv cur = Val (OK r) ->
  exists ds, List.length ds = List.length bs /\
             r = ins_all ds (imported bcontent bs nf) cur /\
             forall cur', shape cur' = shape cur ->
                          p_import T ty bcontent bs idx nf minv cur' = Val (OK (ins_all ds (imported bcontent bs nf) cur')).
Proof.
  induction bs as [|[bid ip] bs IH]; intros idx cur r Hp.
  - cbn [p_import] in Hp. injection Hp as <-. exists []. repeat split. 
  - cbn [p_import] in Hp. destruct (nth_opt bcontent (N.to_nat bid)) as [[nb|d]|] eqn:En; try discriminate.
    destruct (p_insert_range T ty cur (h_name nb) minv) as [[[fp lp]|e]| |] eqn:Er; cbn [bind] in Hp; try discriminate.
    set (dest := N.min (N.max (ip + idx) fp) lp) in *.
    destruct (N.of_nat (List.length cur) <? dest) eqn:Ed; [discriminate|].
    destruct (IH _ _ _ Hp) as (ds & Hl & Hr & Hall).
    exists (N.to_nat dest :: ds). split; [cbn; lia|]. cbn [imported]. rewrite En. cbn [ins_all]. split; [exact Hr|].
    intros cur' Hs. cbn [p_import]. rewrite En.
    rewrite (p_range_shape ty cur' cur (h_name nb) minv Hs), Er. cbn [bind]. fold dest.
    assert (El : List.length cur' = List.length cur).
    { unfold shape in Hs. rewrite <- (map_length item_name_of cur'), Hs, map_length. reflexivity. }
    rewrite El, Ed. apply Hall. rewrite !shape_insert, Hs. reflexivity.
Qed.

(* the positions at which import_new_items inserts: they depend on the shape of the content list only *)
Definition p_insert_range_sh (ty : N * N) (sh : list (option N)) (name version : N) : res (out (N * N)) :=
  (let* mode := content_mode T ty in
   if mode =? MCharacters then Val (ER IncorrectContentType) else
   let* f := find_sub_element T ty name version in
   match f with
   | None => Val (ER InvalidSubElement)
   | Some (_, new_idx) =>
     if (mode =? MBag) || (mode =? MMixed) then Val (OK (0, N.of_nat (List.length sh)))
     else p_range_loop T ty version new_idx sh 0 0 0
   end)%res.

Lemma p_insert_range_is_sh ty cur name v : p_insert_range T ty cur name v = p_insert_range_sh ty (shape cur) name v.
Proof. unfold p_insert_range, p_insert_range_sh, shape. rewrite map_length. reflexivity. Qed.

Fixpoint p_dests (ty : N * N) (bcontent : list (htree + cdata)) (bs : list (id * N)) (idx minv : N) (sh : list (option N))
  : res (out (list nat)) :=
  match bs with
  | [] => Val (OK [])
  | (bid, ip) :: r =>
    match nth_opt bcontent (N.to_nat bid) with
    | Some (inl nb) =>
      (let* range := p_insert_range_sh ty sh (h_name nb) minv in
       match range with
       | ER _ => Val (ER InvalidFileMerge)
       | OK (fp, lp) =>
         let dest := N.min (N.max (ip + idx) fp) lp in
         if N.of_nat (List.length sh) <? dest then Pan "Vec::insert: index > len"
         else
           let* rest := p_dests ty bcontent r (idx + 1) minv (insert_at sh (N.to_nat dest) (Some (h_name nb))) in
           match rest with ER e => Val (ER e) | OK ds => Val (OK (N.to_nat dest :: ds)) end
       end)%res
    | _ => Pan "pmerge: b id does not denote an element"
    end
  end.

Lemma p_import_dests ty bcontent nf minv : forall bs idx cur,
  p_import T ty bcontent bs idx nf minv cur =
  match p_dests ty bcontent bs idx minv (shape cur) with
  | Val (OK ds) => Val (OK (ins_all ds (imported bcontent bs nf) cur))
  | Val (ER e) => Val (ER e)
  | Pan s => Pan s
  | Fuel => Fuel
  end.
Proof.
  induction bs as [|[bid ip] bs IH]; intros idx cur; cbn [p_import p_dests imported]; [reflexivity|].
  destruct (nth_opt bcontent (N.to_nat bid)) as [[nb|d]|]; try reflexivity.
  rewrite p_insert_range_is_sh.
  destruct (p_insert_range_sh ty (shape cur) (h_name nb) minv) as [[[fp lp]|e]| |]; cbn [bind]; try reflexivity.
  unfold shape at 1. rewrite map_length. fold (shape cur).
  destruct (N.of_nat (List.length cur) <? N.min (N.max (ip + idx) fp) lp); [reflexivity|].
  rewrite IH, shape_insert. cbn [item_name_of].
  replace (h_name (h_import nf nb)) with (h_name nb) by (destruct nb; reflexivity).
  destruct (p_dests ty bcontent bs (idx + 1) minv _) as [[ds|e]| |]; reflexivity.
Qed.

(* ---------- map_kids ---------- *)
Lemma map_kids_inv f : forall l i r,
  map_kids f i l = Val (OK r) ->
  List.length r = List.length l /\
  forall k it, nth_error l k = Some it ->
    match it with
    | inr d => nth_error r k = Some (inr d)
    | inl c => exists c', f (i + N.of_nat k) c = Val (OK c') /\ nth_error r k = Some (inl c')
    end.
Proof.
  induction l as [|[c|d] l IH]; intros i r Hm; cbn [map_kids] in Hm.
  - injection Hm as <-. split; [reflexivity|]. intros [|k] it; discriminate.
  - destruct (f i c) as [[c'|e]| |] eqn:Ef; cbn [bind] in Hm; try discriminate.
    destruct (map_kids f (i + 1) l) as [[rr|e]| |] eqn:Er; cbn [bind] in Hm; try discriminate.
    injection Hm as <-. destruct (IH _ _ Er) as (Hl & Hk). split; [cbn; lia|].
    intros [|k] it; cbn [nth_error].
    + intros [= <-]. exists c'. rewrite N.add_0_r. auto.
    + intros Hk'. specialize (Hk k it Hk'). replace (i + N.of_nat (S k)) with (i + 1 + N.of_nat k) by lia. exact Hk.
  - destruct (map_kids f (i + 1) l) as [[rr|e]| |] eqn:Er; cbn [bind] in Hm; try discriminate.
    injection Hm as <-. destruct (IH _ _ Er) as (Hl & Hk). split; [cbn; lia|].
    intros [|k] it; cbn [nth_error].
    + intros [= <-]. reflexivity.
    + intros Hk'. specialize (Hk k it Hk'). replace (i + N.of_nat (S k)) with (i + 1 + N.of_nat k) by lia. exact Hk.
Qed.

Lemma pmerge_name fuel a files b nf a' :
  pmerge T LATEST defref fver fuel a files b nf = Val (OK a') -> h_name a' = h_name a /\ h_local a' = h_local a.
Proof.
  destruct fuel as [|fl]; [discriminate|]. cbn [pmerge].
  destruct (splittable_in T (h_ty a) _) as [sp| |]; cbn [bind]; try discriminate.
  destruct (walk _ _ _ _ _ _ _ _ _) as [[wk|e]| |]; cbn [bind]; try discriminate.
  destruct (map_kids _ _ _) as [[c1|e]| |]; cbn [bind]; try discriminate.
  destruct (p_import _ _ _ _ _ _ _ _) as [[c2|e]| |]; cbn [bind]; try discriminate.
  intros [= <-]. destruct a. split; reflexivity.
Qed.

Lemma child_step_name fl wk files bcontent nf i c c' :
  child_step (pmerge T LATEST defref fver fl) wk files bcontent nf i c = Val (OK c') -> h_name c' = h_name c.
Proof.
  unfold child_step. destruct (existsb (N.eqb i) (wk_a_only wk)).
  - intros [= <-]. destruct c as [n t a cc cm loc]. unfold h_restrict. destruct (is_empty loc); reflexivity.
  - destruct (lookup_merge i (wk_merge wk)) as [ib|]; [|intros [= <-]; reflexivity].
    destruct (nth_opt bcontent (N.to_nat ib)) as [[eb|d]|]; try discriminate.
    destruct (pmerge T LATEST defref fver fl c _ eb nf) as [[ea'|e]| |] eqn:Ep; cbn [bind]; try discriminate.
    intros [= <-]. apply pmerge_name in Ep as [Hn _]. unfold h_bump.
    destruct (negb (is_empty (h_local ea'))); [destruct ea'; exact Hn|exact Hn].
Qed.

Lemma map_kids_shape fl wk files bcontent nf l i r :
  map_kids (child_step (pmerge T LATEST defref fver fl) wk files bcontent nf) i l = Val (OK r) -> shape r = shape l.
Proof.
  revert i r. induction l as [|[c|d] l IH]; intros i r Hm; cbn [map_kids] in Hm.
  - injection Hm as <-. reflexivity.
  - destruct (child_step _ _ _ _ _ i c) as [[c'|e]| |] eqn:Ef; cbn [bind] in Hm; try discriminate.
    destruct (map_kids _ (i + 1) l) as [[rr|e]| |] eqn:Er; cbn [bind] in Hm; try discriminate.
    injection Hm as <-. unfold shape. cbn [map item_name_of]. f_equal; [f_equal; eapply child_step_name; eauto|apply (IH _ _ Er)].
  - destruct (map_kids _ (i + 1) l) as [[rr|e]| |] eqn:Er; cbn [bind] in Hm; try discriminate.
    injection Hm as <-. unfold shape. cbn [map item_name_of]. f_equal. apply (IH _ _ Er).
Qed.

(* ---------- Clean ---------- *)
Fixpoint Clean (fuel : nat) (a : htree) (files : list N) (b : htree) (nf : N) {struct fuel} : Prop :=
  match fuel with
  | O => True
  | S fl =>
    let pty := h_ty a in
    let la := hkeys T defref pty 0 (h_content a) in
    let lb := hkeys T defref pty 0 (h_content b) in
    let version := N.min (p_files_min_version LATEST fver files) (match fver nf with Some v => v | None => LATEST end) in
    match splittable_in T pty version with
    | Val sp =>
      match walk (S (List.length la + List.length lb)) la lb sp (N.of_nat (List.length (h_content a))) 0 la lb (mkWalked [] [] []) with
      | Val (OK wk) =>
        NoDup (map fst (wk_merge wk) ++ wk_a_only wk) /\
        incl (map fst (wk_merge wk) ++ wk_a_only wk) (map k_id la) /\
        NoDup (map snd (wk_merge wk) ++ map fst (wk_b_only wk)) /\
        incl (map snd (wk_merge wk) ++ map fst (wk_b_only wk)) (map k_id lb) /\
        forall ia ib ca cb, In (ia, ib) (wk_merge wk) ->
          nth_opt (h_content a) (N.to_nat ia) = Some (inl ca) -> nth_opt (h_content b) (N.to_nat ib) = Some (inl cb) ->
          Clean fl ca (if negb (is_empty (h_local ca)) then h_local ca else files) cb nf
      | _ => True
      end
    | _ => True
    end
  end.

End Pure.
